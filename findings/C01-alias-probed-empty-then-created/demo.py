import sys
sys.path.insert(0, "/verif/tools")
from vlib import asm, evmdiff as D
from vlib.evmdiff import MAIN, Scenario
init = bytes.fromhex("67602a5f5260205ff35f5260086018f3")
src = f"""
PUSH1 0x04 CALLDATALOAD EXTCODESIZE PUSH2 0x0220 MSTORE
PUSH16 0x{init.hex()} PUSH2 0x0100 MSTORE
PUSH1 0x10 PUSH2 0x0110 PUSH0 CREATE PUSH2 0x0240 MSTORE
PUSH1 0x20 PUSH2 0x0260 PUSH0 PUSH0 PUSH0 PUSH1 0x04 CALLDATALOAD PUSH2 0xffff CALL PUSH2 0x0280 MSTORE
PUSH1 0xa0 PUSH2 0x0200 RETURN
"""
scn = Scenario({MAIN: asm.assemble_text(src)}, nargs=1)
sr = D.symbolic_run(scn)
print(sr.escaped, [p.kind for p in sr.paths])
inp = D.Inputs([0xAAAA0002], 0xCAFE, 0xBEEF, 0, {}, 0)
import subprocess
from vlib.runner import LeanDriver
for i, p in enumerate(sr.paths):
    pe = D.PathEval(inp)
    try:
        ok = pe.satisfies(p.conds)
    except Exception as e:
        ok = f"? {e}"
    print(i, p.kind, "admits a0=0xaaaa0001:", ok, "data:", pe.bytes_of(p.data).hex()[64:] if ok is True else "")
print("\n".join(D.lean_requests(scn, inp)))
