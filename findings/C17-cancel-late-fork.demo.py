"""history: cancel() lists the process tree ONCE, then SIGTERM, 0.5 s grace, then SIGKILL of the *listed* processes.
A top-level process that ignores SIGTERM and forks a child during the grace period: the child is not in the list,
survives, keeps the stdout pipe open -> communicate() blocks -> set_result not reached -> result() hangs."""
import sys, time, subprocess, os, tempfile
sys.path.insert(0, os.environ.get("HALMOS_REPO", "/repo") + "/src")
from halmos.processes import PopenExecutor, PopenFuture
flag = tempfile.mktemp()
WR = r'''
import signal, time, subprocess, sys
signal.signal(signal.SIGTERM, signal.SIG_IGN)
open(sys.argv[1], "w").close()        # ready: SIGTERM is ignored, no child yet
time.sleep(0.25)                      # cancel() arrives here: children() is empty, SIGTERM ignored
subprocess.run(["sleep", "20." + "017"])   # forked inside the 0.5 s grace period; inherits SIG_IGN and the stdout pipe
'''
ex = PopenExecutor()
f = PopenFuture([sys.executable, "-c", WR, flag])
ex.submit(f)
while not os.path.exists(flag): time.sleep(0.005)
t = time.time()
ex.shutdown(wait=False)
print("shutdown returned after %.2fs; top-level alive: %s" % (time.time() - t, f.process.poll() is None))
time.sleep(0.2)
out = subprocess.run(["pgrep", "-f", "sleep 20.017"], capture_output=True, text=True).stdout.split()
print("orphan pids:", out)
try:
    f.result(timeout=5); print("result delivered")
except TimeoutError:
    print("result() NOT delivered within 5 s (worker blocked in communicate on the orphan's pipe)")
except Exception as e: print("result delivered:", repr(e))
for p in out: os.kill(int(p), 9)
try:
    f.result(timeout=5); print("after killing the orphan: result delivered")
except TimeoutError: print("still not delivered")
except Exception as e: print("after killing the orphan: result delivered:", repr(e))
