/-
Driver for C12: one JSON request per stdin line, one JSON reply per line.

  {"op":"parse","var":s,"typ":s,"item":ITEM}
      -> {"ok":MTY} | {"err":"notSupported"|"keyError"|"fuel"}
  {"op":"create","cfg":{"al":[[name,[n..]]..],"da":[n..],"db":[n..]},"selector":hex,"inputs":[ITEM..],
   "uid":["ctr"]|["const",s], "sid":["none"]|["ctr",start]}
      -> {"items":[["C",hex]|["S",name,bits]..],"dyn":[[name,[sizes..],symname]..],"size":n,"nsyms":n}
       | {"err":…}
  {"op":"spec","ty":TY,"val":VAL,"hex":hex}
      -> {"valid":b,"wt":b,"dyn":b,"head":n,"enc":hex,"dec_enc":VAL|null,"dec_hex":VAL|null}
  {"op":"dec","ty":TY,"hex":hex} -> {"dec":VAL|null}

ITEM = {"name":s,"type":s,"components":[ITEM..]?}
TY   = "address"|"bool"|"bytes"|"string"|["uint",n]|["int",n]|["bytesN",n]|["darr",TY]|["farr",TY,k]|["tuple",[TY..]]
VAL  = ["u",dec]|["i",dec]|["a",dec]|["b",bool]|["fb",hex]|["by",hex]|["st",hex]|["l",[VAL..]]
-/
import Lean.Data.Json
import HalmosVerif.Spec.Abi
import HalmosVerif.Model.Calldata

open Lean (Json)
open HalmosVerif.Spec.Abi
open HalmosVerif.Model.Calldata

def hexDigit (n : Nat) : Char := if n < 10 then Char.ofNat (48 + n) else Char.ofNat (87 + n)

def toHex (bs : Bytes) : String :=
  String.ofList (bs.foldr (fun b acc => hexDigit (b.toNat / 16) :: hexDigit (b.toNat % 16) :: acc) [])

def hexVal (c : Char) : Nat :=
  if '0' ≤ c ∧ c ≤ '9' then c.toNat - 48 else if 'a' ≤ c ∧ c ≤ 'f' then c.toNat - 87 else if 'A' ≤ c ∧ c ≤ 'F' then c.toNat - 55 else 0

partial def ofHexL : List Char → Bytes
  | a :: b :: r => UInt8.ofNat (hexVal a * 16 + hexVal b) :: ofHexL r
  | _ => []

def ofHex (s : String) : Bytes := ofHexL s.toList

def jstr (j : Json) : String := (j.getStr?).toOption.getD ""
def jnat (j : Json) : Nat := match j.getNat? with | .ok n => n | _ => (jstr j).toNat!
def jarr (j : Json) : List Json := match j.getArr? with | .ok a => a.toList | _ => []
def jfield (j : Json) (k : String) : Json := (j.getObjVal? k).toOption.getD Json.null

partial def itemOfJson (j : Json) : AbiItem :=
  let comps := match j.getObjVal? "components" with
    | .ok c => some ((jarr c).map itemOfJson)
    | _ => none
  .mk (jstr (jfield j "name")) (jstr (jfield j "type")) comps

partial def tyOfJson (j : Json) : Ty :=
  match j with
  | .str "address" => .address
  | .str "bool" => .bool
  | .str "bytes" => .bytes
  | .str "string" => .string
  | _ =>
    match jarr j with
    | [.str "uint", n] => .uint (jnat n)
    | [.str "int", n] => .int (jnat n)
    | [.str "bytesN", n] => .bytesN (jnat n)
    | [.str "darr", t] => .darr (tyOfJson t)
    | [.str "farr", t, k] => .farr (tyOfJson t) (jnat k)
    | [.str "tuple", ts] => .tuple ((jarr ts).map tyOfJson)
    | _ => .tuple []

partial def valOfJson (j : Json) : Val :=
  match jarr j with
  | [.str "u", x] => .uint (jstr x).toNat!
  | [.str "i", x] => .int (jstr x).toInt!
  | [.str "a", x] => .addr (jstr x).toNat!
  | [.str "b", .bool b] => .bool b
  | [.str "fb", x] => .fbytes (ofHex (jstr x))
  | [.str "by", x] => .bytes (ofHex (jstr x))
  | [.str "st", x] => .str (ofHex (jstr x))
  | [.str "l", vs] => .list ((jarr vs).map valOfJson)
  | _ => .list []

partial def valToJson : Val → Json
  | .uint x => Json.arr #["u", toString x]
  | .int x => Json.arr #["i", toString x]
  | .addr x => Json.arr #["a", toString x]
  | .bool b => Json.arr #["b", Json.bool b]
  | .fbytes bs => Json.arr #["fb", toHex bs]
  | .bytes bs => Json.arr #["by", toHex bs]
  | .str bs => Json.arr #["st", toHex bs]
  | .list vs => Json.arr #["l", Json.arr (vs.map valToJson).toArray]

def optValToJson : Option Val → Json
  | some v => valToJson v
  | none => Json.null

partial def mtyToJson : MTy → Json
  | .base v t => Json.arr #["base", v, t]
  | .farr v b n => Json.arr #["farr", v, mtyToJson b, n]
  | .darr v b => Json.arr #["darr", v, mtyToJson b]
  | .tuple v its => Json.arr #["tuple", v, Json.arr (its.map mtyToJson).toArray]

def perrStr : PErr → String
  | .notSupported => "notSupported" | .keyError => "keyError" | .fuel => "fuel"

def hex7 (n : Nat) : String :=
  let ds := (Nat.toDigits 16 n)
  String.ofList (List.replicate (7 - ds.length) '0' ++ ds)

def uidOf (j : Json) : Nat → String :=
  match jarr j with
  | [.str "const", s] => fun _ => jstr s
  | _ => fun i => hex7 i

def sidOf (j : Json) : Nat → String :=
  match jarr j with
  | [.str "ctr", s] => fun i => toString (jnat s + i)
  | _ => fun _ => ""

def cfgOfJson (j : Json) : Cfg :=
  { arrayLengths := (jarr (jfield j "al")).map (fun e => match jarr e with
      | [n, l] => (jstr n, (jarr l).map jnat)
      | _ => ("", []))
    defaultArray := (jarr (jfield j "da")).map jnat
    defaultBytes := (jarr (jfield j "db")).map jnat }

/-- canonical item list: adjacent concrete bytes merged -/
def canonItems (rn : SymId → String) (its : List Item) : List Json :=
  let rec go (acc : Bytes) : List Item → List Json
    | [] => if acc.isEmpty then [] else [Json.arr #["C", toHex acc]]
    | .const n :: r => go (acc ++ word n) r
    | .raw bs :: r => go (acc ++ bs) r
    | .sizeVar id _ :: r =>
      (if acc.isEmpty then [] else [Json.arr #["C", toHex acc]]) ++ Json.arr #["S", rn id, (256 : Nat)] :: go [] r
    | .sym id nb :: r =>
      (if acc.isEmpty then [] else [Json.arr #["C", toHex acc]]) ++ Json.arr #["S", rn id, nb] :: go [] r
  go [] its

def sizeVars : List Item → List (SymId × Bool)
  | [] => []
  | .sizeVar id a :: r => (id, a) :: sizeVars r
  | _ :: r => sizeVars r

def insertByIdx (x : SymId × Bool) : List (SymId × Bool) → List (SymId × Bool)
  | [] => [x]
  | y :: r => if x.1.idx ≤ y.1.idx then x :: y :: r else y :: insertByIdx x r

def handle (j : Json) : Json :=
  match jstr (jfield j "op") with
  | "parse" =>
    let item := itemOfJson (jfield j "item")
    match parseType (fuelFor item + 1) (jstr (jfield j "var")) (jstr (jfield j "typ")).toList item with
    | .ok t => Json.mkObj [("ok", mtyToJson t)]
    | .error e => Json.mkObj [("err", perrStr e)]
  | "create" =>
    let cfg := cfgOfJson (jfield j "cfg")
    let inputs := (jarr (jfield j "inputs")).map itemOfJson
    let rn := render (uidOf (jfield j "uid")) (sidOf (jfield j "sid"))
    match create cfg (ofHex (jstr (jfield j "selector"))) inputs with
    | .error (.parse e) => Json.mkObj [("err", perrStr e)]
    | .error .sizeMismatch => Json.mkObj [("err", "sizeMismatch")]
    | .ok its =>
      let dyn := (sizeVars its).foldr insertByIdx []
      Json.mkObj [
        ("items", Json.arr (canonItems rn its).toArray),
        ("dyn", Json.arr (dyn.map (fun (d : SymId × Bool) =>
            Json.arr #[d.1.pname, Json.arr ((cfg.sizes d.1.pname d.2).map (fun (n : Nat) => (n : Json))).toArray, rn d.1])).toArray),
        ("size", dataLen its),
        ("nsyms", (syms its).length)]
  | "spec" =>
    let t := tyOfJson (jfield j "ty")
    let v := valOfJson (jfield j "val")
    let e := enc t v
    Json.mkObj [
      ("valid", Json.bool t.valid), ("wt", Json.bool (wt t v)), ("dyn", Json.bool (isDyn t)), ("head", headSize t),
      ("enc", toHex e), ("dec_enc", optValToJson (dec t e)),
      ("dec_hex", optValToJson (dec t (ofHex (jstr (jfield j "hex")))))]
  | "cands" =>
    -- {"op":"cands","regs":[[[sym,[n..]]..]..],"probe":sym} -> {"branches":[n..]|null,"registered":[sym..]}
    let regs : List (List DynParam) := (jarr (jfield j "regs")).map (fun r => (jarr r).map (fun d =>
      match jarr d with
      | [n, l] => ⟨⟨jstr n, "", 0⟩, (jarr l).map jnat⟩
      | _ => ⟨⟨"", "", 0⟩, []⟩))
    let c : Candidates := regs.foldl processDynParams (fun _ => none)
    let probe : SymId := ⟨jstr (jfield j "probe"), "", 0⟩
    let out := calldataloadSym (fun _ => none) c probe
    let allSyms := (regs.flatMap (fun r => r.map (fun (d : DynParam) => d.sizeSymbol.pname))).eraseDups
    Json.mkObj [
      ("branches", if out == [none] then Json.null else Json.arr (out.filterMap (fun o => o.map (fun (n : Nat) => (n : Json)))).toArray),
      ("registered", Json.arr ((allSyms.filter (fun n => (c ⟨n, "", 0⟩).isSome)).map Json.str).toArray)]
  | "dec" =>
    Json.mkObj [("dec", optValToJson (dec (tyOfJson (jfield j "ty")) (ofHex (jstr (jfield j "hex")))))]
  | _ => Json.str "bad-op"

partial def loop (h : IO.FS.Stream) (out : IO.FS.Stream) : IO Unit := do
  let line ← h.getLine
  if line.isEmpty then return
  let l := String.ofList ((line.toList.reverse.dropWhile (fun c => c == '\n' || c == '\r')).reverse)
  if l.isEmpty then
    out.putStrLn "\"bad-op\""
  else
    match Json.parse l with
    | .ok j => out.putStrLn (handle j).compress
    | .error _ => out.putStrLn "\"bad-op\""
  loop h out

def main : IO Unit := do
  loop (← IO.getStdin) (← IO.getStdout)
