/-
Driver.Assertions — line protocol for C13 (one reply per request line).

  A <selector hex> <layout> <env> <cc> <cn> [<signature>]
      signature = the Forge-std signature the Spec side uses (default: the one bound to the selector in Gen.Selectors)
      layout = comma separated pieces of the calldata handed to the cheatcode address (selector included):
                 c<hex>            concrete bytes
                 v<i>:<from>:<to>  bytes from..to (exclusive, 0 = most significant) of the 256-bit variable a<i>
               "-" = empty calldata
      env    = a0=<hex>;a1=<hex>;…  or "-"
      cc, cn = what the oracle answers for `check(cond)` and `check(not cond)`:  sat | unsat | unknown
    reply:  dispatch=<assert|assume|other|err:…> model=<ok|err:…> shape=<lit|eq|ne|ult|…|other> val=<0|1|->
            succ=<successors in worklist order: C = continues with the path unchanged, C+ = continues with one condition
                  appended, F = FailCheatcode on the unchanged path, F+ = FailCheatcode with one condition appended,
                  X = dropped> app=<value of the appended condition under env, or ->
            spec=<continues|fails|reverts|discarded|none> sig=<signature or ->
  D <signature>       -> the decisions of the model's `derive` (mk_assert_handler) on a signature text
  U <hex bytes>       -> validUtf8 0|1

The model side runs `Model.Assertions` with the constant folder `foldSimp` as z3's simplify; the spec side evaluates the
layout under env to concrete bytes, looks the signature up in `Gen.Selectors.assertSelectors` (tied to Keccak by
`C13.selectors_ok`) and runs `Spec.Forge.runAssert` / `runAssume`.
-/
import HalmosVerif.Model.Assertions
import HalmosVerif.Model.SimpFold
import HalmosVerif.Spec.Forge
import HalmosVerif.Gen.Selectors

open HalmosVerif.Model HalmosVerif.Model.Assertions HalmosVerif.Gen HalmosVerif.Spec

def hexVal? (s : String) : Option Nat :=
  if s.isEmpty then none else
  s.foldl (fun acc c =>
    acc.bind fun n =>
      if '0' ≤ c ∧ c ≤ '9' then some (n * 16 + (c.toNat - '0'.toNat))
      else if 'a' ≤ c ∧ c ≤ 'f' then some (n * 16 + (c.toNat - 'a'.toNat + 10))
      else if 'A' ≤ c ∧ c ≤ 'F' then some (n * 16 + (c.toNat - 'A'.toNat + 10))
      else none) (some 0)

def hexDigit? (c : Char) : Option Nat :=
  if '0' ≤ c ∧ c ≤ '9' then some (c.toNat - '0'.toNat)
  else if 'a' ≤ c ∧ c ≤ 'f' then some (c.toNat - 'a'.toNat + 10)
  else if 'A' ≤ c ∧ c ≤ 'F' then some (c.toNat - 'A'.toNat + 10)
  else none

def hexBytesAux : List Char → List Nat → Option (List Nat)
  | [], acc => some acc.reverse
  | a :: b :: r, acc =>
    match hexDigit? a, hexDigit? b with
    | some x, some y => hexBytesAux r ((x * 16 + y) :: acc)
    | _, _ => none
  | _, _ => none

def hexBytes? (cs : List Char) : Option (List Nat) := hexBytesAux cs []

inductive Piece where
  | conc (bs : List Nat)
  | var (i from_ to_ : Nat)

def parsePiece (s : String) : Option Piece :=
  match s.toList with
  | 'c' :: r => (hexBytes? r).map .conc
  | 'v' :: r =>
    match (String.ofList r).splitOn ":" with
    | [i, f, t] => do
      let i ← i.toNat?
      let f ← f.toNat?
      let t ← t.toNat?
      if f ≤ t ∧ t ≤ 32 then pure (.var i f t) else none
    | _ => none
  | _ => none

def parseLayout (s : String) : Option (List Piece) :=
  if s = "-" then some [] else (s.splitOn ",").mapM parsePiece

def parseEnv (s : String) : Option (List (String × Nat)) :=
  if s = "-" then some [] else
  (s.splitOn ";").mapM fun kv =>
    match kv.splitOn "=" with
    | [k, v] => (hexVal? v).map (k, ·)
    | _ => none

def varName (i : Nat) : String := s!"a{i}"

def pieceBytes : Piece → List CByte
  | .conc bs => bs.map .con
  | .var i f t => (List.range (t - f)).map fun k =>
      let j := f + k
      .sym (.extract (255 - 8 * j) (248 - 8 * j) (.var (varName i) 256))

def pieceConcrete (env : List (String × Nat)) : Piece → List Nat
  | .conc bs => bs
  | .var i f t =>
    let v := (env.lookup (varName i)).getD 0 % 2 ^ 256
    (List.range (t - f)).map fun k => v / 256 ^ (31 - (f + k)) % 256

def interpOf (env : List (String × Nat)) : Interp where
  bv := fun x _ => (env.lookup x).getD 0
  bool := fun _ => false
  uf2 := fun _ _ _ _ => 0
  uf1 := fun _ _ _ => 0

def errStr : Err → String
  | .notConcrete => "notConcrete" | .notImplemented => "notImplemented" | .valueError => "valueError"
  | .unicodeDecode => "unicodeDecode" | .overflow => "overflow" | .unsupported => "unsupported"

def shapeOf : B → String
  | .lit _ => "lit"
  | .cmp .eq _ _ => "eq"
  | .not (.cmp .eq _ _) => "ne"
  | .cmp .ult _ _ => "ult" | .cmp .ugt _ _ => "ugt" | .cmp .ule _ _ => "ule" | .cmp .uge _ _ => "uge"
  | .cmp .slt _ _ => "slt" | .cmp .sgt _ _ => "sgt" | .cmp .sle _ _ => "sle" | .cmp .sge _ _ => "sge"
  | _ => "other"

def parseSat : String → Option Sat
  | "sat" => some .sat | "unsat" => some .unsat | "unknown" => some .unknown | _ => none

def b01 (b : Bool) : String := if b then "1" else "0"

/-- the driver's path is empty, so the structural membership test never fires -/
def noMem : B → List B → Bool := fun _ _ => false

def succStr (I : Interp) (ss : List (Succ Unit)) : String × String :=
  let tags := ss.map fun σ => (if σ.failed then "F" else "C") ++ (if σ.path.isEmpty then "" else "+")
  let app := match ss.filterMap (fun σ => σ.path.getLast?) with
    | c :: _ => b01 (c.eval I)
    | [] => "-"
  (if tags.isEmpty then "X" else ",".intercalate tags, app)

def outcomeStr : Forge.Outcome → String
  | .continues => "continues" | .fails => "fails" | .reverts => "reverts"

def handleA (sel : Nat) (layout : List Piece) (env : List (String × Nat)) (cc cn : Sat) (sigOverride : Option String) : String :=
  let s := foldSimp
  let d : Calldata := layout.flatMap pieceBytes
  let conc : List Nat := layout.flatMap (pieceConcrete env)
  let I := interpOf env
  let sig := match sigOverride with | some g => some g | none => Selectors.assertSelectors.lookup sel
  let spec :=
    if sel = AssertTable.assumeSelector then
      match Forge.runAssume conc with
      | .continues => "continues" | .discarded => "discarded" | .reverts => "reverts"
    else match sig with
      | some g => match Forge.runAssert g conc with | some o => outcomeStr o | none => "none"
      | none => "none"
  let model :=
    match dispatch s d with
    | .error e => s!"dispatch=err:{errStr e} model=- shape=- val=- succ=- app=-"
    | .ok (.other _) => "dispatch=other model=- shape=- val=- succ=- app=-"
    | .ok .assume =>
      let c := assumeCond s d
      let (st, app) := match assumeBranch s noMem [] () d with
        | none => ("X", "-")
        | some σ => succStr I [σ]
      s!"dispatch=assume model=ok shape={shapeOf c} val={b01 (c.eval I)} succ={st} app={app}"
    | .ok (.assertion e) =>
      match entryHandler s e d with
      | .error err => s!"dispatch=assert model=err:{errStr err} shape=- val=- succ=- app=-"
      | .ok c =>
        -- the oracle answers come from the request; the two queries are told apart by their value under I
        -- (the simplified negation never has the value of the condition itself)
        let ss := assertBranch s noMem (fun _ q => if q.eval I = c.eval I then cc else cn) [] () c
        let (st, app) := succStr I ss
        s!"dispatch=assert model=ok shape={shapeOf c} val={b01 (c.eval I)} succ={st} app={app}"
  s!"{model} spec={spec} sig={sig.getD "-"}"

def handleLine (line : String) : String :=
  match line.splitOn " " with
  | ["A", sel, layout, env, cc, cn] =>
    match hexVal? sel, parseLayout layout, parseEnv env, parseSat cc, parseSat cn with
    | some sel, some l, some e, some cc, some cn => handleA sel l e cc cn none
    | _, _, _, _, _ => "bad-request"
  | ["A", sel, layout, env, cc, cn, sig] =>
    match hexVal? sel, parseLayout layout, parseEnv env, parseSat cc, parseSat cn with
    | some sel, some l, some e, some cc, some cn => handleA sel l e cc cn (some sig)
    | _, _, _, _, _ => "bad-request"
  | ["D", sig] =>
    match derive sig with
    | none => "none"
    | some dv => s!"op={dv.op} operands={dv.operands} ty={dv.ty} array={b01 dv.isArray} msg={b01 dv.hasMsg} bop={dv.bop}"
  | ["U", h] =>
    match hexBytes? (if h = "-" then [] else h.toList) with
    | some bs => b01 (validUtf8 bs)
    | none => "bad-request"
  | _ => "bad-op"

partial def loop (h : IO.FS.Stream) (out : IO.FS.Stream) : IO Unit := do
  let line ← h.getLine
  if line.isEmpty then return
  out.putStrLn (handleLine (line.trimAscii.toString))
  loop h out

def main : IO Unit := do
  let stdin ← IO.getStdin
  let stdout ← IO.getStdout
  loop stdin stdout
