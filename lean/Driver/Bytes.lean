/-
Driver.Bytes — line protocol for C07 (one reply line per request line).

  reset <alias|noalias> <name> <name> …     start a new history on a pool of (empty) named objects; the names
                                            listed are reported in every digest
  save | restore                            remember the current pool / return to the remembered pool
  new a | append a <data> | setbyte a <off> <piece> | setslice a <s> <e> <data> | setword a <off> <piece>
  copy a b | slice a <s> <e> b | concretize a b <name>=<hex>,… (or -) | getbyte a <off> | getword a <off>
  unwrap a | len a

  <piece> = c:<hex>[:<start>:<len>]  |  s:<name>:<size>[:<start>:<len>]
  <data>  = <piece> | v:<piece>+<piece>… (a fresh ByteVec) | @b (the pool object itself) | @b:<s>:<e> (b.slice(s,e))

Reply:  M <reply> ; <digest> | S <reply> ; <digest>
  <reply>  = ok | bytes <tokens> | num <n> | err <kind>
  <digest> = for every pool name  name=<length>:<tokens>:<layout>   (Spec: no layout)
  <tokens> = concrete bytes as two hex digits, symbolic bytes as <name.index>; empty = -
  <layout> = off/kind/len,…   kind = c | s | bv ; empty = -
Unknown or ill-formed requests answer `bad-op`.
-/
import HalmosVerif.Model.ByteVec
open HalmosVerif.Spec HalmosVerif.Model.BV

def hexDigit? (c : Char) : Option Nat :=
  if '0' ≤ c ∧ c ≤ '9' then some (c.toNat - '0'.toNat)
  else if 'a' ≤ c ∧ c ≤ 'f' then some (c.toNat - 'a'.toNat + 10)
  else if 'A' ≤ c ∧ c ≤ 'F' then some (c.toNat - 'A'.toNat + 10)
  else none

def hexBytes? (s : String) : Option (List Nat) :=
  let rec go : List Char → Option (List Nat)
    | [] => some []
    | [_] => none
    | a :: b :: r => do
      let x ← hexDigit? a
      let y ← hexDigit? b
      let t ← go r
      pure ((x * 16 + y) :: t)
  go s.toList

def hex2 (n : Nat) : String :=
  let d := fun (k : Nat) => (Nat.digitChar k)
  String.ofList [d (n / 16 % 16), d (n % 16)]

def tokens (bs : List Byte) : String :=
  if bs.isEmpty then "-" else
  String.join (bs.map fun b => match b with
    | .lit n => hex2 n
    | .sym x i => s!"<{x}.{i}>")

def parsePiece? (s : String) : Option Piece :=
  match s.splitOn ":" with
  | ["c", h] => (hexBytes? h).map fun d => .conc d 0 d.length
  | ["c", h, st, ln] => do
    let d ← hexBytes? h
    let st ← st.toNat?
    let ln ← ln.toNat?
    if st + ln ≤ d.length then pure (.conc d st ln) else none
  | ["s", x, n] => n.toNat?.map fun n => .symb x n 0 n
  | ["s", x, n, st, ln] => do
    let n ← n.toNat?
    let st ← st.toNat?
    let ln ← ln.toNat?
    if st + ln ≤ n then pure (.symb x n st ln) else none
  | _ => none

def parseData? (s : String) : Option Data :=
  if s.startsWith "@" then
    match (s.drop 1).toString.splitOn ":" with
    | [b] => some (.obj b)
    | [b, st, en] => do
      let st ← st.toNat?
      let en ← en.toNat?
      pure (.objSlice b st en)
    | _ => none
  else if s.startsWith "v:" then
    let body := (s.drop 2).toString
    if body.isEmpty then some (.vec []) else
    (body.splitOn "+").mapM parsePiece? |>.map .vec
  else (parsePiece? s).map .raw

def parseSubst? (s : String) : Option (List (String × List Nat)) :=
  if s = "-" then some [] else
  (s.splitOn ",").mapM fun kv =>
    match kv.splitOn "=" with
    | [k, v] => (hexBytes? v).map fun bs => (k, bs)
    | _ => none

def parseOp? (ws : List String) : Option Op :=
  match ws with
  | ["new", a] => some (.new a)
  | ["append", a, d] => (parseData? d).map (.append a)
  | ["setbyte", a, off, p] => do pure (.setByte a (← off.toNat?) (← parsePiece? p))
  | ["setslice", a, s, e, d] => do pure (.setSlice a (← s.toNat?) (← e.toNat?) (← parseData? d))
  | ["setword", a, off, p] => do pure (.setWord a (← off.toNat?) (← parsePiece? p))
  | ["copy", a, b] => some (.copy a b)
  | ["slice", a, s, e, b] => do pure (.slice a (← s.toNat?) (← e.toNat?) b)
  | ["concretize", a, b, σ] => do pure (.concretize a (← parseSubst? σ) b)
  | ["getbyte", a, off] => do pure (.getByte a (← off.toNat?))
  | ["getword", a, off] => do pure (.getWord a (← off.toNat?))
  | ["unwrap", a] => some (.unwrap a)
  | ["len", a] => some (.len a)
  | _ => none

def errName : Err → String
  | .valueError => "ValueError" | .indexError => "IndexError" | .assertion => "AssertionError"
  | .typeError => "TypeError" | .unsupported => "Unsupported"

def showReply : Reply → String
  | .unit => "ok"
  | .bytes bs => s!"bytes {tokens bs}"
  | .num n => s!"num {n}"
  | .err e => s!"err {errName e}"

def layoutStr {C : Type} (len : C → Nat) (kind : C → String) (l : List (Nat × C)) : String :=
  if l.isEmpty then "-" else
  ",".intercalate (l.map fun e => s!"{e.1}/{kind e.2}/{len e.2}")

def leafKind : Leaf → String
  | .conc .. => "c"
  | .symb .. => "s"

def aKind : AChunk → String
  | .leaf l => leafKind l
  | _ => "bv"

inductive MState where
  | pure (p : Pure.Pool)
  | heap (h : Heap.H)

structure St where
  m : MState
  s : FlatPool.Pool
  names : List String

def St.init (alias : Bool) (names : List String) : St :=
  ⟨if alias then .heap Heap.init else .pure Pure.init, FlatPool.init, names⟩

def digestM (st : St) : String :=
  " ".intercalate (st.names.map fun a =>
    match st.m with
    | .pure p =>
      let v := p a
      s!"{a}={v.length}:{tokens (BVec.flatten leafOps v)}:{layoutStr leafOps.len leafKind v.chunks}"
    | .heap h =>
      let v := h.get a
      s!"{a}={v.length}:{tokens (BVec.flatten h.ops v)}:{layoutStr h.ops.len aKind v.chunks}")

def digestS (st : St) : String :=
  " ".intercalate (st.names.map fun a => s!"{a}={(st.s a).length}:{tokens (st.s a)}")

def handle (st : St) (line : String) : St × String :=
  let ws := (line.trimAscii.toString.splitOn " ").filter (· ≠ "")
  match ws with
  | "reset" :: mode :: names =>
    if mode = "alias" then (St.init true names, "ok")
    else if mode = "noalias" then (St.init false names, "ok")
    else (st, "bad-op")
  | _ =>
    match parseOp? ws with
    | none => (st, "bad-op")
    | some op =>
      let (m', rm) := match st.m with
        | .pure p => let r := Pure.step p op; (MState.pure r.1, r.2)
        | .heap h => let r := Heap.step h op; (MState.heap r.1, r.2)
      let (s', rs) := FlatPool.step st.s op
      let st' : St := ⟨m', s', st.names⟩
      (st', s!"M {showReply rm} ; {digestM st'} | S {showReply rs} ; {digestS st'}")

partial def loop (h : IO.FS.Stream) (out : IO.FS.Stream) (st saved : St) : IO Unit := do
  let line ← h.getLine
  if line.isEmpty then return ()
  let t := line.trimAscii.toString
  if t.startsWith "#" then
    out.putStrLn t
    loop h out st saved
  else if t = "save" then          -- remember the current pool (model and spec)
    out.putStrLn "ok"
    loop h out st st
  else if t = "restore" then       -- go back to the remembered pool
    out.putStrLn "ok"
    loop h out saved saved
  else
    let (st', r) := handle st line
    out.putStrLn r
    loop h out st' saved

def main : IO Unit := do
  let out ← IO.getStdout
  let st0 := St.init true ["a", "b", "c"]
  loop (← IO.getStdin) out st0 st0
