/-
Driver.Cache — line protocol for C16 (one reply per request line).

  core <hex>                         -> none | some <id,id,…|->                    parseUnsatCore (text = hex of latin-1 bytes)
  check <id,…|-> <core;core;…|->     -> 0 | 1                                      checkUnsatCores   (a core: id,id,… or `e` for the empty core)
  run <q>|<q>|…                      -> <verdict,…> # <core;core;…|->             the cached run; <q> = <id,…|->/<verdict>/<none|e|id,…>
                                                                                   (verdict and core: what the solver answers if asked)
-/
import HalmosVerif.Model.Cache
open HalmosVerif.Model.Cache

def hexDigit? (c : Char) : Option Nat :=
  if '0' ≤ c ∧ c ≤ '9' then some (c.toNat - '0'.toNat)
  else if 'a' ≤ c ∧ c ≤ 'f' then some (c.toNat - 'a'.toNat + 10)
  else none

def unhex : List Char → Option (List Char)
  | [] => some []
  | [_] => none
  | a :: b :: rest => do
    let x ← hexDigit? a
    let y ← hexDigit? b
    let r ← unhex rest
    pure (Char.ofNat (x * 16 + y) :: r)

def payload (s : String) : Option (List Char) := if s = "-" then some [] else unhex s.toList

def idList (s : String) : List String := if s = "-" || s = "e" then [] else s.splitOn ","
def showIds (l : List String) : String := if l.isEmpty then "e" else ",".intercalate l
def coreList (s : String) : List (List String) := if s = "-" then [] else (s.splitOn ";").map idList

def verdict? : String → Option Verdict
  | "sat" => some .sat | "unsat" => some .unsat | "unknown" => some .unknown | "err" => some .err | _ => none
def showVerdict : Verdict → String
  | .sat => "sat" | .unsat => "unsat" | .unknown => "unknown" | .err => "err"

def runLine (qs : List String) : Option String := do
  let mut cores : List (List String) := []
  let mut out : List String := []
  for q in qs do
    match q.splitOn "/" with
    | [ids, v, core] =>
      let v ← verdict? v
      let ans : Verdict × Option (List String) := (v, if core = "none" then none else some (idList core))
      let query : Query String Unit := (idList ids).map (fun i => (i, ()))
      let r := step (fun _ => ans) cores query
      out := out ++ [showVerdict r.1]
      cores := r.2
    | _ => none
  pure (",".intercalate out ++ " # " ++ (if cores.isEmpty then "-" else ";".intercalate (cores.map showIds)))

def handle (line : String) : String :=
  match (line.trimAscii.toString.splitOn " ").filter (· ≠ "") with
  | ["core", h] =>
    match payload h with
    | some s =>
      (match parseUnsatCore s with
       | none => "none"
       | some ids => "some " ++ (if ids.isEmpty then "-" else ",".intercalate (ids.map String.ofList)))
    | none => "bad-op"
  | ["check", ids, cores] => if checkUnsatCores (idList ids) (coreList cores) then "1" else "0"
  | ["run", h] => (runLine (h.splitOn "|")).getD "bad-op"
  | _ => "bad-op"

partial def loop (h : IO.FS.Stream) : IO Unit := do
  let line ← h.getLine
  if line.isEmpty then return ()
  IO.println (handle line)
  loop h

def main : IO Unit := do loop (← IO.getStdin)
