/-
Driver.Calls — line protocol for the C09 model-vs-implementation comparison (one reply per request line; numbers hex
without 0x). A request describes a call tree as data and a concrete start world; the reply is what `Model.Calls.runFrame`
computes. `tools/vlib/callsmodel.py` compiles the same tree to EVM contracts and runs them on the real SEVM (and on the
reference EVM); the conventions shared by both compilers are:

  * every frame keeps an accumulator of observed words: it starts as [ADDRESS, CALLER, CALLVALUE, ORIGIN];
    after a call:   ++ [flag, RETURNDATASIZE, the two words of the 64-byte return area (pre-filled with ee…ee) after the
                        copy, the first word of a scratch word (pre-filled with ee…ee) overwritten by the whole returndata]
    after a create: ++ [pushed word, RETURNDATASIZE, the scratch word as above]
  * `R n` / `V n` end the frame with RETURN / REVERT of the first n bytes of [digest of the accumulator] ++ accumulator
    (zero-padded), `I` = INVALID; the digest (Horner with an odd multiplier, mod 2^256) makes every observation at any
    depth reach the root's output.

  run <static 0|1> <this> <caller> <origin> <value> <baldefault> <a=v;…|-> <code addrs a;…|-> <slots s;…|-> <addrs a;…|-> <tree…>
      -> out=<ret|revert|halt|writeInStatic|depthLimit> data=<hex|-> storage=<a:s=v,…|-> transient=<…> balances=<a=v,…> codes=<a=hex|a=none,…|-> cnt=<n>
  tree  := F act* end
  act   := S <slot> <val> | T <slot> <val> | L | B <slot> <addr>            (B: SSTORE(slot, BALANCE(addr)))
         | C <c|s|d|x> <to> <value> <retsize> (- | tree)                     (- : the target has no code)
         | N <value> tree                                                    (CREATE with that init behaviour)
         | Z <value> <retsize>                                               (CALL to ADDRESS itself; only inside init code, where the account has empty code)
  end   := R <nbytes> | V <nbytes> | I
-/
import HalmosVerif.Model.Calls
open HalmosVerif.Model.Calls

def hexVal? (s : String) : Option Nat :=
  if s.isEmpty then none else
  s.foldl (fun acc c =>
    acc.bind fun n =>
      if '0' ≤ c ∧ c ≤ '9' then some (n * 16 + (c.toNat - '0'.toNat))
      else if 'a' ≤ c ∧ c ≤ 'f' then some (n * 16 + (c.toNat - 'a'.toNat + 10))
      else if 'A' ≤ c ∧ c ≤ 'F' then some (n * 16 + (c.toNat - 'A'.toNat + 10))
      else none) (some 0)

def toHex (n : Nat) : String := String.ofList (Nat.toDigits 16 n)

def bytesHex (bs : List Nat) : String :=
  if bs.isEmpty then "-" else
  String.join (bs.map fun b =>
    let d := Nat.toDigits 16 (b % 256)
    String.ofList (if d.length < 2 then '0' :: d else d))

def joinOr (xs : List String) : String := if xs.isEmpty then "-" else ",".intercalate xs

def natToBytes (len v : Nat) : List Nat := (List.range len).map fun i => (v / 2 ^ (8 * (len - 1 - i))) % 256
def bytesToNat (bs : List Nat) : Nat := bs.foldl (fun acc b => acc * 256 + b % 256) 0

def MARK : Nat := 0xee

/-- first word of a marker-filled word overwritten from its start by `bs` -/
def wordOver (bs : List Nat) (skip : Nat := 0) : Nat :=
  bytesToNat (((bs ++ List.replicate 64 MARK).drop skip).take 32)

def DIGEST_P : Nat := 0x9E3779B97F4A7C15F39CC0605CEDC8341082276BF3A27251F86C6A11D0C18E95

/-- digest of the accumulator (Horner, mod 2^256) -/
def digest (acc : List Nat) : Nat := acc.foldl (fun d w => (d * DIGEST_P + w) % 2 ^ 256) 0

/-- the frame's output: digest word, then the accumulator, zero-padded, first `n` bytes -/
def accBytes (acc : List Nat) (n : Nat) : List Nat :=
  (((digest acc :: acc).flatMap (natToBytes 32)) ++ List.replicate n 0).take n

def parseScheme? : String → Option Scheme
  | "c" => some .call | "s" => some .staticcall | "d" => some .delegatecall | "x" => some .callcode | _ => none

mutual
  partial def parseFrame : List String → Option (Frame × List String)
    | "F" :: ts => do
      let (body, rest) ← parseBody ts
      pure (.read fun c _ => body [c.this, c.caller, c.value, c.origin], rest)
    | _ => none

  partial def parseBody : List String → Option ((List Nat → Frame) × List String)
    | "R" :: n :: rest => do let n ← hexVal? n; pure (fun acc => .done (.ret (accBytes acc n)), rest)
    | "V" :: n :: rest => do let n ← hexVal? n; pure (fun acc => .done (.revert (accBytes acc n)), rest)
    | "I" :: rest => some (fun _ => .done (.fail .halt), rest)
    | "S" :: slot :: val :: ts => do
      let slot ← hexVal? slot; let val ← hexVal? val
      let (k, rest) ← parseBody ts
      pure (fun acc => .eff (.sstore slot val) (k acc), rest)
    | "T" :: slot :: val :: ts => do
      let slot ← hexVal? slot; let val ← hexVal? val
      let (k, rest) ← parseBody ts
      pure (fun acc => .eff (.tstore slot val) (k acc), rest)
    | "L" :: ts => do
      let (k, rest) ← parseBody ts
      pure (fun acc => .eff .log (k acc), rest)
    | "B" :: slot :: addr :: ts => do
      let slot ← hexVal? slot; let addr ← hexVal? addr
      let (k, rest) ← parseBody ts
      pure (fun acc => .read fun _ w => .eff (.sstore slot (w.balance addr)) (k acc), rest)
    | "C" :: sch :: to :: value :: rs :: ts => do
      let sch ← parseScheme? sch; let to ← hexVal? to; let value ← hexVal? value; let rs ← hexVal? rs
      let (callee, ts') ← match ts with
        | "-" :: ts' => some (Frame.done (.ret []), ts')
        | _ => parseFrame ts
      let (k, rest) ← parseBody ts'
      pure (fun acc => .call sch to value rs {} callee fun seen =>
        k (acc ++ [seen.flag, seen.returndata.length, wordOver seen.memCopy, wordOver seen.memCopy 32, wordOver seen.returndata]), rest)
    | "Z" :: value :: rs :: ts => do
      let value ← hexVal? value; let rs ← hexVal? rs
      let (k, rest) ← parseBody ts
      pure (fun acc => .read fun c _ => .call .call c.this value rs {} (.done (.ret [])) fun seen =>
        k (acc ++ [seen.flag, seen.returndata.length, wordOver seen.memCopy, wordOver seen.memCopy 32, wordOver seen.returndata]), rest)
    | "N" :: value :: ts => do
      let value ← hexVal? value
      let (init, ts') ← parseFrame ts
      let (k, rest) ← parseBody ts'
      pure (fun acc => .create none value {} init fun seen =>
        k (acc ++ [seen.flag, seen.returndata.length, wordOver seen.returndata]), rest)
    | _ => none
end

def parseList? (s : String) : Option (List Nat) :=
  if s = "-" then some [] else (s.splitOn ";").mapM hexVal?

def parsePairs? (s : String) : Option (List (Nat × Nat)) :=
  if s = "-" then some [] else
  (s.splitOn ";").mapM fun e =>
    match e.splitOn "=" with
    | [a, v] => do pure ((← hexVal? a), (← hexVal? v))
    | _ => none

def outName : Outcome → String
  | .ret _ => "ret" | .revert _ => "revert" | .fail .halt => "halt" | .fail .writeInStatic => "writeInStatic"
  | .fail .depthLimit => "depthLimit"

def handle (line : String) : String :=
  match line.trimAscii.toString.splitOn " " with
  | "run" :: st :: this :: caller :: origin :: value :: dflt :: bals :: codes :: slots :: addrs :: tree =>
    match hexVal? this, hexVal? caller, hexVal? origin, hexVal? value, hexVal? dflt, parsePairs? bals, parseList? codes,
          parseList? slots, parseList? addrs, parseFrame tree with
    | some this, some caller, some origin, some value, some dflt, some bals, some codes, some slots, some addrs, some (f, []) =>
      let w : W :=
        { code := fun a => if codes.contains a then some [] else none
          storage := fun _ _ => 0
          transient := fun _ _ => 0
          balance := fun a => match bals.find? (fun p => p.1 == a) with
            | some p => p.2
            | none => dflt }
      let ctx : Ctx := { this := this, caller := caller, origin := origin, value := value, codeAddr := this,
                         isStatic := st == "1", depth := 1 }
      let r := runFrame f ctx ⟨w, 0⟩
      let created := (List.range r.1.cnt).map fun i => newAddress (i + 1)
      let univ := addrs ++ created
      let cells (m : Addr → Nat → Nat) : List String :=
        univ.flatMap fun a => slots.filterMap fun k => if m a k ≠ 0 then some s!"{toHex a}:{toHex k}={toHex (m a k)}" else none
      let balS := univ.map fun a => s!"{toHex a}={toHex (r.1.w.balance a)}"
      let codeS := created.map fun a =>
        match r.1.w.code a with
        | some c => s!"{toHex a}={bytesHex c}"
        | none => s!"{toHex a}=none"
      s!"out={outName r.2} data={bytesHex r.2.data} storage={joinOr (cells r.1.w.storage)} transient={joinOr (cells r.1.w.transient)} balances={joinOr balS} codes={joinOr codeS} cnt={r.1.cnt}"
    | _, _, _, _, _, _, _, _, _, _ => "bad-op"
  | _ => "bad-op"

partial def loop (h : IO.FS.Stream) : IO Unit := do
  let line ← h.getLine
  if line.isEmpty then return ()
  IO.println (handle line)
  loop h

def main : IO Unit := do loop (← IO.getStdin)
