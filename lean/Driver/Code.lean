/-
Driver.Code — line protocol for C19 (one reply per request line; unknown / ill-formed requests answer `bad-op`).

Model (stateful: `code` sets the current contract and empties its `_insn` cache)
  code <pieces>            pieces joined by `+`:  c:<hex>  concrete chunk (`c:` = empty chunk)
                                                  s:<n>    symbolic chunk of n unknown bytes
                                                  m:<t,t,…> symbolic chunk, t = <hex byte> (numeral byte) | ? (unknown byte)
                           unknown bytes are named by their position in the code: `s<pos>`
                           -> ok <len> fast=<hex|-|none>
  jumpdests                -> ok <d,d,…|->          | err fuel
  decode <pc>              -> ok <opcode hex> pc=<int> next=<int> operand=<none|tokens>   | err notconcrete
  slice <start> <size>     -> ok <tokens|->         | err outofgas
  uslice <start> <stop>    -> ok <tokens|->                         (unwrapped_slice)
  at <pc>                  -> ok <i:hh | n:hh | s<pos>>
  jump <target>            -> ok <pc'> | rejected
  all <k>                  -> J <jumpdests> D <decode 0;…;decode len+1> A <at 0;…;at len+1> S <slice(s,n) for s ≤ len+1, n ≤ k, `;`-joined>
  tokens = `,`-joined: hh (int or numeral byte) | s<pos>

Spec (stateless; <hex> = concrete code, `-` = empty)
  spec-jumpdests <hex>         -> ok <d,d,…|->
  spec-decode <hex> <pc>       -> ok <opcode hex> next=<n> operand=<none|hex value>
  spec-read <hex> <start> <size> -> ok <hex|->
  spec-at <hex> <pc>           -> ok <hh>
  spec-jump <hex> <dest>       -> accepted | rejected
  spec-sweep <t,t,…|->         -> ok <d,d,…|-> stop=<n> blocked=<0|1>          (t = hh | ?)
  spec-run <hex> <callvalue> <fuel> [<calldata word hex>] -> halt=<stop|invalidjump|underflow|invalidopcode|unsupported|fuel> pc=<n> stack=<hex,…|-> (top first)
                                  msize=<n> cv=<0|1: CALLVALUE executed> trace=<pc,pc,…> (in execution order)
  spec-all <hex> <k>           -> J … D … A … S …   (same layout as `all`, operands as byte tokens are not available: values)
-/
import HalmosVerif.Model.Contract
import HalmosVerif.Spec.Code
open HalmosVerif.Model.Contract
open HalmosVerif

def hexDigit? (c : Char) : Option Nat :=
  if '0' ≤ c ∧ c ≤ '9' then some (c.toNat - '0'.toNat)
  else if 'a' ≤ c ∧ c ≤ 'f' then some (c.toNat - 'a'.toNat + 10)
  else if 'A' ≤ c ∧ c ≤ 'F' then some (c.toNat - 'A'.toNat + 10)
  else none

def hexBytes? (s : String) : Option (List Nat) :=
  let rec go : List Char → List Nat → Option (List Nat)
    | [], acc => some acc.reverse
    | [_], _ => none
    | a :: b :: rest, acc =>
      match hexDigit? a, hexDigit? b with
      | some x, some y => go rest ((x * 16 + y) :: acc)
      | _, _ => none
  if s = "-" then some [] else go s.toList []

def hex2 (n : Nat) : String :=
  let d := Nat.toDigits 16 n
  String.ofList (if d.length < 2 then '0' :: d else d)

def toHex (n : Nat) : String := String.ofList (Nat.toDigits 16 n)

def hexOf (bs : List Nat) : String := if bs.isEmpty then "-" else String.join (bs.map hex2)

def natList (xs : List Nat) : String := if xs.isEmpty then "-" else ",".intercalate (xs.map toString)

def tok : CodeByte → String
  | .lit b => hex2 b
  | .num b => hex2 b
  | .sym i => s!"s{i}"

def toks (bs : List CodeByte) : String := if bs.isEmpty then "-" else ",".intercalate (bs.map tok)

def atTok : CodeByte → String
  | .lit b => s!"i:{hex2 b}"
  | .num b => s!"n:{hex2 b}"
  | .sym i => s!"s{i}"

/-- parse one piece; `pos` = position of its first byte -/
def parsePiece? (pos : Nat) (p : String) : Option Chunk :=
  if p.startsWith "c:" then
    let h := (p.drop 2).toString
    if h.isEmpty then some (.conc []) else (hexBytes? h).map .conc
  else if p.startsWith "s:" then
    ((p.drop 2).toString.toNat?).map fun n => .symb ((List.range n).map fun i => .sym (pos + i))
  else if p.startsWith "m:" then
    let ts := ((p.drop 2).toString.splitOn ",")
    let rec go : List String → Nat → List SByte → Option (List SByte)
      | [], _, acc => some acc.reverse
      | t :: rest, i, acc =>
        if t = "?" then go rest (i + 1) (.sym (pos + i) :: acc)
        else match hexBytes? t with
          | some [b] => go rest (i + 1) (.num b :: acc)
          | _ => none
    (go ts 0 []).map .symb
  else none

def chunkLen : Chunk → Nat
  | .conc bs => bs.length
  | .symb bs => bs.length

def parsePieces? (s : String) : Option (List Chunk) :=
  let rec go : List String → Nat → List Chunk → Option (List Chunk)
    | [], _, acc => some acc.reverse
    | p :: rest, pos, acc =>
      match parsePiece? pos p with
      | some c => go rest (pos + chunkLen c) (c :: acc)
      | none => none
  if s = "-" then some [] else go (s.splitOn "+") 0 []

def showInsn : Except Err Insn → String
  | .ok i =>
    let o := match i.operand with | none => "none" | some bs => toks bs
    s!"ok {hex2 i.opcode} pc={i.pc} next={i.nextPc} operand={o}"
  | .error .notConcrete => "err notconcrete"
  | .error .outOfGas => "err outofgas"

def showSlice : Except Err (List CodeByte) → String
  | .ok bs => s!"ok {toks bs}"
  | .error .notConcrete => "err notconcrete"
  | .error .outOfGas => "err outofgas"

def showJumpdests (c : Contract) : String :=
  match jumpdests c with
  | some ds => s!"ok {natList ds}"
  | none => "err fuel"

structure St where
  c : Contract
  cache : Cache

def modelAll (st : St) (k : Nat) : String × St := Id.run do
  let n := st.c.code.length
  let mut cache := st.cache
  let mut ds : Array String := #[]
  for pc in List.range (n + 2) do
    let (r, cache') := decodeInstruction st.c cache pc
    cache := cache'
    ds := ds.push (showInsn r)
  let ats := (List.range (n + 2)).map fun pc => atTok (getitem st.c pc)
  let mut sl : Array String := #[]
  for s in List.range (n + 2) do
    for z in List.range (k + 1) do
      sl := sl.push (showSlice (slice st.c s z))
  (s!"J {showJumpdests st.c} D {";".intercalate ds.toList} A {";".intercalate ats} S {";".intercalate sl.toList}",
   { st with cache := cache })

def showSpecInsn (i : Spec.Code.Insn) : String :=
  let o := match i.operand with | none => "none" | some v => toHex v
  s!"ok {hex2 i.opcode} next={i.nextPc} operand={o}"

def specAll (code : List Nat) (k : Nat) : String :=
  let n := code.length
  let ds := (List.range (n + 2)).map fun pc => showSpecInsn (Spec.Code.decode code pc)
  let ats := (List.range (n + 2)).map fun pc => hex2 (Spec.Code.byteAt code pc)
  let sl := (List.range (n + 2)).flatMap fun s => (List.range (k + 1)).map fun z => hexOf (Spec.Code.read code s z)
  s!"J ok {natList (Spec.Code.validJumpdests code)} D {";".intercalate ds} A {";".intercalate ats} S {";".intercalate sl}"

def parsePartial? (s : String) : Option (List (Option Nat)) :=
  if s = "-" then some [] else
  (s.splitOn ",").mapM fun t =>
    if t = "?" then some none
    else match hexBytes? t with
      | some [b] => some (some b)
      | _ => none

def handle (st : St) (line : String) : String × St :=
  let ws := (line.trimAscii.toString.splitOn " ").filter (· ≠ "")
  match ws with
  | ["code", ps] =>
    match parsePieces? ps with
    | some cs =>
      let c := ofChunks cs
      let f := match c.fast with | none => "none" | some f => hexOf f
      (s!"ok {c.code.length} fast={f}", { c, cache := Cache.empty c })
    | none => ("bad-op", st)
  | ["jumpdests"] => (showJumpdests st.c, st)
  | ["decode", pcS] =>
    match pcS.toNat? with
    | some pc =>
      let (r, cache) := decodeInstruction st.c st.cache pc
      (showInsn r, { st with cache })
    | none => ("bad-op", st)
  | ["slice", a, b] =>
    match a.toNat?, b.toNat? with
    | some s, some z => (showSlice (slice st.c s z), st)
    | _, _ => ("bad-op", st)
  | ["uslice", a, b] =>
    match a.toNat?, b.toNat? with
    | some s, some e => (s!"ok {toks (unwrappedSlice st.c s e)}", st)
    | _, _ => ("bad-op", st)
  | ["at", a] =>
    match a.toNat? with
    | some pc => (s!"ok {atTok (getitem st.c pc)}", st)
    | none => ("bad-op", st)
  | ["jump", a] =>
    match a.toNat? with
    | some t => (match jumpTo st.c t with | some pc => s!"ok {pc}" | none => "rejected", st)
    | none => ("bad-op", st)
  | ["all", a] =>
    match a.toNat? with
    | some k => modelAll st k
    | none => ("bad-op", st)
  | ["spec-jumpdests", h] =>
    match hexBytes? h with
    | some code => (s!"ok {natList (Spec.Code.validJumpdests code)}", st)
    | none => ("bad-op", st)
  | ["spec-decode", h, a] =>
    match hexBytes? h, a.toNat? with
    | some code, some pc => (showSpecInsn (Spec.Code.decode code pc), st)
    | _, _ => ("bad-op", st)
  | ["spec-read", h, a, b] =>
    match hexBytes? h, a.toNat?, b.toNat? with
    | some code, some s, some z => (s!"ok {hexOf (Spec.Code.read code s z)}", st)
    | _, _, _ => ("bad-op", st)
  | ["spec-at", h, a] =>
    match hexBytes? h, a.toNat? with
    | some code, some pc => (s!"ok {hex2 (Spec.Code.byteAt code pc)}", st)
    | _, _ => ("bad-op", st)
  | ["spec-jump", h, a] =>
    match hexBytes? h, a.toNat? with
    | some code, some d => (if Spec.Code.jumpAccepted code d then "accepted" else "rejected", st)
    | _, _ => ("bad-op", st)
  | ["spec-sweep", p] =>
    match parsePartial? p with
    | some pc =>
      (s!"ok {natList (Spec.Code.sweep pc)} stop={Spec.Code.sweepStop pc} blocked={if Spec.Code.sweepBlocked pc then 1 else 0}", st)
    | none => ("bad-op", st)
  | "spec-run" :: h :: a :: b :: optCd =>
    let cdw : Option Nat := match optCd with
      | [] => some 0
      | [x] => (hexBytes? (if x.length % 2 = 1 then "0" ++ x else x)).map (fun bs => bs.foldl (fun acc y => acc * 256 + y) 0)
      | _ => none
    match hexBytes? h, a.toNat?, b.toNat?, cdw with
    | some code, some cv, some fuel, some cd =>
      let r := Spec.Code.runCode code cv fuel cd
      let hk := match r.halt with
        | .stop => "stop" | .invalidJump => "invalidjump" | .underflow => "underflow"
        | .invalidOpcode => "invalidopcode" | .unsupported => "unsupported" | .outOfFuel => "fuel"
      let tr := r.st.trace.reverse
      let usedCv := tr.any fun pc => Spec.Code.byteAt code pc == 0x34
      let stk := if r.st.stack.isEmpty then "-" else ",".intercalate (r.st.stack.map toHex)
      (s!"halt={hk} pc={r.st.pc} stack={stk} msize={r.st.msize} cv={if usedCv then 1 else 0} trace={natList tr}", st)
    | _, _, _, _ => ("bad-op", st)
  | ["spec-all", h, a] =>
    match hexBytes? h, a.toNat? with
    | some code, some k => (specAll code k, st)
    | _, _ => ("bad-op", st)
  | _ => ("bad-op", st)

partial def loop (h : IO.FS.Stream) (out : IO.FS.Stream) (st : St) : IO Unit := do
  let line ← h.getLine
  if line.isEmpty then return ()
  if line.startsWith "#" then
    out.putStrLn line.trimAscii.toString
    loop h out st
  else
    let (r, st') := handle st line
    out.putStrLn r
    loop h out st'

def main : IO Unit := do
  let c := ofChunks []
  loop (← IO.getStdin) (← IO.getStdout) { c, cache := Cache.empty c }
