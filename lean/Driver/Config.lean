/-
Driver.Config — line protocol for property C18 (DESIGN.md Appendix A "Config", extended).

Strings travel as `u:` followed by '.'-separated hexadecimal code points (`u:` = empty string).
Option values in layer stacks / toml tables are tokens: `N` (None), `S:<codepoints>` (str), `I:<int>`, `B:0|1`,
`F:<codepoints of str(float)>`, `L:[i,…]` (array of ints), `D:{}` (empty table), `O` (anything else).

Requests (one reply line each; ill-formed requests answer `bad-op`):
  reset                                   -> ok                      (empty stack)
  layer <source> [k=<tok> …]              -> ok | err exit2          (with_overrides on the current stack; first layer = root)
  getall / specall                        -> ok name=<tok>@<source> … for every Config field (Model / Spec)
  get <name>                              -> ok <tok> <source> | err attr           (Model: value_with_source / __getattribute__)
  spec <name>                             -> ok <tok> <origin|none>                 (Spec.Precedence.effective)
  solver                                  -> command <tok> <0|1> | solver <tok>     (Model: resolved_solver_command decision)
  specsolver                              -> command <tok> | solver <tok>           (Spec)
  parse <kind> <u:str>                    -> ok <val> | err <kind>    kind: timeout csvint codes lengths events int10 int0 float csv natspec args
  unparse <kind> <val>                    -> ok <u:str>               kind: timeout-current timeout-fixed csvint codes lengths events
  toml (sec <u:name> (table [<u:key>=<vtok> …] | value))*   -> ok k=<val> … | err <kind>
  derive (K <u:name> <N|u:natspec> (F <u:sig> <N|u:devdoc>)*)*  -> per function `<u:K>/<u:f>=<config>` separated by ' '
  space <hex> / digit <hex>               -> 0|1 / <value|-> (character classes, for the exhaustive code-point check)
-/
import HalmosVerif.Model.Config
import HalmosVerif.Spec.Precedence
import HalmosVerif.Lemmas.ConfigBridge

open HalmosVerif.Model.Config
open HalmosVerif

namespace Drv

def dropS (n : Nat) (s : String) : String := String.ofList (s.toList.drop n)
/-- drop the first and the last character -/
def inner (s : String) : String := String.ofList ((s.toList.drop 1).dropLast)

def hexVal? (c : Char) : Option Nat :=
  if '0' ≤ c ∧ c ≤ '9' then some (c.toNat - 48)
  else if 'a' ≤ c ∧ c ≤ 'f' then some (c.toNat - 87)
  else if 'A' ≤ c ∧ c ≤ 'F' then some (c.toNat - 55)
  else none

def hexNat? (s : String) : Option Nat :=
  if s.isEmpty then none
  else s.toList.foldl (fun acc c => match acc, hexVal? c with
    | some a, some d => some (a * 16 + d)
    | _, _ => none) (some 0)

def decodeU? (s : String) : Option Str :=
  if !s.startsWith "u:" then none
  else
    let body := dropS 2 s
    if body.isEmpty then some []
    else (body.splitOn ".").foldr (fun p acc => match hexNat? p, acc with
      | some n, some l => if n.isValidChar then some (Char.ofNat n :: l) else none
      | _, _ => none) (some [])

def hexOf (n : Nat) : String := String.ofList (Nat.toDigits 16 n)

def encodeU (s : Str) : String := "u:" ++ ".".intercalate (s.map (fun c => hexOf c.toNat))

def showIntList (l : List Int) : String := "[" ++ ",".intercalate (l.map toString) ++ "]"

def showTime : TimeVal → String
  | .fin d => s!"fin:{d.mant}:{d.scale}"
  | .special .posInf => "inf"
  | .special .negInf => "-inf"
  | .special .nan => "nan"

def showVal : Val → String
  | .str s => "S:" ++ dropS 2 (encodeU s)
  | .int i => s!"I:{i}"
  | .bool b => if b then "B:1" else "B:0"
  | .time t => "T:" ++ showTime t
  | .ints l => "L:" ++ showIntList l
  | .codes l => "C:" ++ showIntList l
  | .lengths d => "D:{" ++ ";".intercalate (d.map (fun kv => encodeU kv.1 ++ "=" ++ showIntList kv.2)) ++ "}"
  | .events l => "E:[" ++ ",".intercalate (l.map String.ofList) ++ "]"
  | .float r => "F:" ++ dropS 2 (encodeU r)
  | .other => "O"

def showOptVal : Option Val → String
  | none => "N"
  | some v => showVal v

def parseInt? (s : String) : Option Int := s.toInt?

def parseIntList? (s : String) : Option (List Int) :=
  if !(s.startsWith "[" && s.endsWith "]") then none
  else
    let body := inner s
    if body.isEmpty then some []
    else (body.splitOn ",").foldr (fun p acc => match parseInt? p, acc with
      | some i, some l => some (i :: l)
      | _, _ => none) (some [])

/-- layer / toml value token -/
def parseTok? (s : String) : Option (Option Val) :=
  if s = "N" then some none
  else if s = "O" then some (some .other)
  else if s.startsWith "S:" then (decodeU? ("u:" ++ dropS 2 s)).map (fun x => some (.str x))
  else if s.startsWith "F:" then (decodeU? ("u:" ++ dropS 2 s)).map (fun x => some (.float x))
  else if s.startsWith "I:" then (parseInt? (dropS 2 s)).map (fun i => some (.int i))
  else if s.startsWith "L:" then (parseIntList? (dropS 2 s)).map (fun l => some (.ints l))
  else if s = "D:{}" then some (some (.lengths []))
  else if s = "B:1" then some (some (.bool true))
  else if s = "B:0" then some (some (.bool false))
  else none

def parseKV? (s : String) : Option (String × Option Val) :=
  match s.splitOn "=" with
  | [k, v] => (parseTok? v).map (fun t => (k, t))
  | _ => none

def mapOpt {β γ} (f : β → Option γ) : List β → Option (List γ)
  | [] => some []
  | x :: xs => match f x, mapOpt f xs with
    | some y, some ys => some (y :: ys)
    | _, _ => none

def showExcept {β} (f : β → String) : Except Err β → String
  | .ok v => "ok " ++ f v
  | .error e => "err " ++ e.name

def originName : Option Spec.Precedence.Origin → String
  | none => "none"
  | some .default => "default"
  | some .configFile => "config_file"
  | some .contractAnnotation => "contract_annotation"
  | some .functionAnnotation => "function_annotation"
  | some .commandLine => "command_line"

def showLabel : Label → String
  | .none => ""
  | .contract k => "contract:" ++ k
  | .function k f => "function:" ++ k ++ "." ++ f

def showLayer (l : Layer Val) : String :=
  l.source.name ++ "[" ++ showLabel l.label ++ "]{" ++
    "&".intercalate ((l.vals.filter (fun kv => kv.2.isSome)).map (fun kv => kv.1 ++ "=" ++ showOptVal kv.2)) ++ "}"

def showConfig (c : Config Val) : String := "|".intercalate (c.map showLayer)

def showOverrides (ov : List (String × Option Val)) : String :=
  "&".intercalate ((ov.filter (fun kv => kv.2.isSome)).map (fun kv => kv.1 ++ "=" ++ showOptVal kv.2))

def parseLengths? (s : String) : Option (List (Str × List Int)) :=
  if !(s.startsWith "{" && s.endsWith "}") then none
  else
    let body := inner s
    if body.isEmpty then some []
    else mapOpt (fun p => match p.splitOn "=" with
      | [k, v] => match decodeU? k, parseIntList? v with
        | some k', some v' => some (k', v')
        | _, _ => none
      | _ => none) (body.splitOn ";")

def doParse (kind : String) (s : Str) : String :=
  match kind with
  | "timeout" => showExcept (fun t => showVal (.time t)) (parseTimeout s)
  | "csvint" => showExcept (fun l => showVal (.ints l)) (parseCsvInt s)
  | "codes" => showExcept (fun l => showVal (.codes l)) (parseErrorCodes s)
  | "lengths" => showExcept (fun l => showVal (.lengths l)) (parseArrayLengths s)
  | "events" => showExcept (fun l => showVal (.events l)) (parseTraceEvents s)
  | "int10" => match pyInt10 s with | some i => s!"ok I:{i}" | none => "err value"
  | "int0" => match pyInt0 s with | some i => s!"ok I:{i}" | none => "err value"
  | "float" => match pyFloat s with | some t => "ok " ++ showVal (.time t) | none => "err value"
  | "csv" => "ok [" ++ ",".intercalate ((parseCsv s).map encodeU) ++ "]"
  | "natspec" => "ok " ++ encodeU (parseNatspec s)
  | "args" => showExcept showOverrides (parseArgs s)
  | _ => "bad-op"

def doUnparse (kind : String) (args : List String) : String :=
  match kind, args with
  | "timeout-current", [m, sc] => match parseInt? m, sc.toNat? with
    | some m', some s' => "ok " ++ encodeU (unparseTimeoutCurrent ⟨m', s'⟩)
    | _, _ => "bad-op"
  | "timeout-fixed", [m, sc] => match parseInt? m, sc.toNat? with
    | some m', some s' => "ok " ++ encodeU (unparseTimeoutFixed ⟨m', s'⟩)
    | _, _ => "bad-op"
  | "csvint", [l] => match parseIntList? l with | some l' => "ok " ++ encodeU (unparseCsvInt l') | none => "bad-op"
  | "codes", [l] => match parseIntList? l with | some l' => "ok " ++ encodeU (unparseErrorCodes l') | none => "bad-op"
  | "lengths", [d] => match parseLengths? d with | some d' => "ok " ++ encodeU (unparseArrayLengths d') | none => "bad-op"
  | "events", [l] =>
    if !(l.startsWith "[" && l.endsWith "]") then "bad-op"
    else
      let body := inner l
      let evs := if body.isEmpty then [] else (body.splitOn ",").map String.toList
      "ok " ++ encodeU (unparseTraceEvents evs)
  | _, _ => "bad-op"

/-- `sec <u:name> table kv… | sec <u:name> value` -/
partial def parseToml? : List String → Option TomlDoc
  | [] => some []
  | "sec" :: name :: "value" :: rest => do
    let n ← decodeU? name
    let more ← parseToml? rest
    pure ((String.ofList n, none) :: more)
  | "sec" :: name :: "table" :: rest => do
    let n ← decodeU? name
    let kvToks := rest.takeWhile (· ≠ "sec")
    let rest' := rest.dropWhile (· ≠ "sec")
    let kvs ← mapOpt (fun p => match p.splitOn "=" with
      | [k, v] => match decodeU? k, parseTok? v with
        | some k', some (some v') => some (String.ofList k', v')
        | _, _ => none
      | _ => none) kvToks
    let more ← parseToml? rest'
    pure ((String.ofList n, some kvs) :: more)
  | _ => none

def optU? (s : String) : Option (Option Str) := if s = "N" then some none else (decodeU? s).map some

partial def parseArts? : List String → Option (List ContractArt)
  | [] => some []
  | "K" :: name :: nat :: rest => do
    let n ← decodeU? name
    let ns ← optU? nat
    let rec funs : List String → Option (List (String × Option Str) × List String)
      | "F" :: sig :: dd :: r => do
        let s ← decodeU? sig
        let d ← optU? dd
        let (fs, r') ← funs r
        pure ((String.ofList s, d) :: fs, r')
      | r => some ([], r)
    let (fs, rest') ← funs rest
    let more ← parseArts? rest'
    pure (⟨String.ofList n, ns, fs⟩ :: more)
  | _ => none

def handle (stack : Config Val) (line : String) : Config Val × String :=
  let toks := (line.splitOn " ").filter (· ≠ "")
  match toks with
  | ["reset"] => ([], "ok")
  | "layer" :: src :: kvs =>
    match Source.ofName? src, mapOpt parseKV? kvs with
    | some s, some ov =>
      match withOverrides stack s ov with
      | .ok c => (c, "ok")
      | .error e => (stack, "err " ++ e.name)
    | _, _ => (stack, "bad-op")
  | ["get", name] =>
    match getattr name stack with
    | .ok v => (stack, s!"ok {showOptVal v} {(valueWithSource name stack).2.name}")
    | .error e => (stack, "err " ++ e.name)
  | ["spec", name] =>
    let r := Spec.Precedence.effective name (Bridge.toSpec stack)
    (stack, s!"ok {showOptVal r.1} {originName r.2}")
  | ["getall"] =>
    (stack, "ok " ++ " ".intercalate (fieldNames.map (fun n =>
      let r := valueWithSource n stack
      n ++ "=" ++ showOptVal r.1 ++ "@" ++ r.2.name)))
  | ["specall"] =>
    let sp := Bridge.toSpec stack
    (stack, "ok " ++ " ".intercalate (fieldNames.map (fun n =>
      let r := Spec.Precedence.effective n sp
      n ++ "=" ++ showOptVal r.1 ++ "@" ++ originName r.2)))
  | ["solver"] =>
    match resolvedSolverCommand Val.truthy stack with
    | .command c w => (stack, s!"command {showVal c} {if w then 1 else 0}")
    | .solver s => (stack, s!"solver {showOptVal s}")
  | ["specsolver"] =>
    match Spec.Precedence.solverChoice Val.truthy (Bridge.toSpec stack) with
    | .command c => (stack, s!"command {showVal c}")
    | .solver s => (stack, s!"solver {showOptVal s}")
  | ["parse", kind, u] =>
    match decodeU? u with
    | some s => (stack, doParse kind s)
    | none => (stack, "bad-op")
  | "unparse" :: kind :: args => (stack, doUnparse kind args)
  | "toml" :: rest =>
    match parseToml? rest with
    | some doc => (stack, showExcept (fun kvs => " ".intercalate (kvs.map (fun kv => kv.1 ++ "=" ++ showVal kv.2))) (tomlParseDict doc))
    | none => (stack, "bad-op")
  | "derive" :: rest =>
    match parseArts? rest with
    | some arts =>
      let rs := deriveAll stack arts
      (stack, "ok " ++ " ".intercalate (rs.map (fun (k, f, c) =>
        encodeU k.toList ++ "/" ++ encodeU f.toList ++ "=" ++ (match c with
          | .ok cfg => showConfig cfg
          | .error e => "err:" ++ e.name))))
    | none => (stack, "bad-op")
  | ["space", h] => match hexNat? h with
    | some n => if n.isValidChar then (stack, if isSpace (Char.ofNat n) then "1" else "0") else (stack, "bad-op")
    | none => (stack, "bad-op")
  | ["digit", h] => match hexNat? h with
    | some n => if n.isValidChar then (stack, match digitVal (Char.ofNat n) with | some d => toString d | none => "-") else (stack, "bad-op")
    | none => (stack, "bad-op")
  | ["classes"] =>
    -- all code points that are spaces / decimal digits, for the exhaustive comparison with CPython
    let cps := (List.range 0x110000).filter Nat.isValidChar
    let sp := cps.filter (fun n => isSpace (Char.ofNat n))
    let dg := cps.filterMap (fun n => (digitVal (Char.ofNat n)).map (fun d => s!"{n}:{d}"))
    (stack, "ok spaces=" ++ ",".intercalate (sp.map toString) ++ " digits=" ++ ",".intercalate dg)
  | _ => (stack, "bad-op")

partial def loop (h : IO.FS.Stream) (out : IO.FS.Stream) (stack : Config Val) : IO Unit := do
  let line ← h.getLine
  if line.isEmpty then return
  let l := String.ofList ((line.toList.reverse.dropWhile (fun c => c = '\n' || c = '\r')).reverse)
  if l.startsWith "#" then
    out.putStrLn l
    loop h out stack
  else if l.isEmpty then
    out.flush
    out.putStrLn ""
    loop h out stack
  else
    let (stack', reply) := handle stack l
    out.putStrLn reply
    loop h out stack'

end Drv

def main : IO Unit := do
  let stdin ← IO.getStdin
  let stdout ← IO.getStdout
  Drv.loop stdin stdout []
