/-
Driver.E2e — the concrete reference EVM (Spec.Evm) with *transaction chaining*, for the end-to-end checks C03 / C15 / C20.
One reply line per request line; all numbers hex without 0x. Same world-building vocabulary as Driver/Evm.lean plus
snapshots and committing calls:

  reset | code <addr> <hex|-> | storage <addr> <slot> <val> | balance <addr> <val> | baldefault <val>
  param <name> <val>        (origin number timestamp coinbase difficulty gaslimit chainid basefee memlimit maxdepth
                             allocbase gasprice created)                                                -> ok
  save <k> / load <k>       snapshot / restore the whole driver state (world + params) under the number k  -> ok | bad-op
  call  <sender> <to> <value> <calldata|-> <fuel>    outcome of a top-level message call; the world is NOT changed
  callc <sender> <to> <value> <calldata|-> <fuel>    same reply, and the world becomes the post-state of the call (a failed
                                                     call rolls back, as a transaction would); transient storage and logs
                                                     are cleared afterwards (next transaction)
  syncparam <name> <addr> <flagslot> <valslot>       if storage[addr][flagslot] ≠ 0 then param name := storage[addr][valslot];
                                                     and both slots are cleared (how the reference HEVM stub's vm.warp / vm.roll
                                                     reach later transactions) -> ok
  keccak <hex|->                                     -> <hex>
  move <sender> <to> <value> <calldata|-> <tsdelta>  register a transaction the brute force may apply; time passes AFTER it (timestamp += tsdelta
                                                     once it succeeded): the first transaction runs at the setUp timestamp -> ok
  probe <sender> <to> <calldata|->                   register a call evaluated (without commit) in every reached state -> ok
  clearmoves                                         forget registered moves and probes -> ok
  explore <depth> <fuel>                             breadth-first over all sequences of ≤ depth registered moves from the current
        world, merging states with equal (storage, balances, timestamp, number); failed moves leave no state. One line:
        levels separated by `/`, states by `;`, a state = <witness move indices joined by .>|<ts>|<num>|<storage>|<probe outcomes
        joined by ,>|<moves that end in a revert carrying data, idx:datahex joined by ,>; probe outcome = <halt>:<datahex|->:<failed flag>
reply of call/callc:  halt=<kind> data=<hex|-> storage=<a:s=v,…|-> balances=<a=v,…|-> created=<n> ts=<timestamp> num=<number>
(code of accounts is not printed: it does not change in the scenarios these checks build, except through `created`).
-/
import HalmosVerif.Spec.Evm
import HalmosVerif.Spec.Keccak
open HalmosVerif.Spec HalmosVerif.Spec.Evm

namespace E2e

def hexVal? (s : String) : Option Nat :=
  if s.isEmpty then none else
  s.foldl (fun acc c =>
    acc.bind fun n =>
      if '0' ≤ c ∧ c ≤ '9' then some (n * 16 + (c.toNat - '0'.toNat))
      else if 'a' ≤ c ∧ c ≤ 'f' then some (n * 16 + (c.toNat - 'a'.toNat + 10))
      else if 'A' ≤ c ∧ c ≤ 'F' then some (n * 16 + (c.toNat - 'A'.toNat + 10))
      else none) (some 0)

def toHex (n : Nat) : String := String.ofList (Nat.toDigits 16 n)

def hexBytes? (s : String) : Option (List Nat) :=
  if s = "-" then some [] else
  let cs := s.toList
  if cs.length % 2 ≠ 0 then none else
  let rec go : List Char → Option (List Nat)
    | a :: b :: rest => do
      let v ← hexVal? (String.ofList [a, b])
      let r ← go rest
      pure (v :: r)
    | [] => some []
    | _ => none
  go cs

def bytesHex (bs : List Nat) : String :=
  if bs.isEmpty then "-" else
  String.join (bs.map fun b =>
    let d := Nat.toDigits 16 (b % 256)
    String.ofList (if d.length < 2 then '0' :: d else d))

structure St where
  w : World := { code := [], storage := [], transient := [], balance := [] }
  origin : Nat := 0
  number : Nat := 1
  timestamp : Nat := 1
  coinbase : Nat := 0
  difficulty : Nat := 0
  gaslimit : Nat := 2 ^ 63 - 1
  chainid : Nat := 31337
  basefee : Nat := 0
  memlimit : Nat := 2 ^ 20
  maxdepth : Nat := 1024
  allocbase : Nat := 0xaaaa0001
  gasprice : Nat := 0

def St.params (s : St) : Params where
  origin := s.origin
  number := s.number
  timestamp := s.timestamp
  coinbase := s.coinbase
  difficulty := s.difficulty
  gaslimit := s.gaslimit
  chainid := s.chainid
  basefee := s.basefee
  memLimit := s.memlimit
  maxDepth := s.maxdepth
  newAddress := fun n => s.allocbase + n
  gasprice := s.gasprice
  keccak := Keccak.keccak256

def haltName : Halt → String
  | .success _ => "success" | .revert _ => "revert" | .invalidOpcode => "invalidOpcode"
  | .invalidJump => "invalidJump" | .stackUnderflow => "stackUnderflow" | .stackOverflow => "stackOverflow"
  | .outOfGas => "outOfGas" | .outOfBoundsRead => "outOfBoundsRead" | .writeInStatic => "writeInStatic"
  | .depthLimit => "depthLimit" | .unsupported op => s!"unsupported:{toHex op}"

def joinOr (xs : List String) : String := if xs.isEmpty then "-" else ",".intercalate xs

def sortStrs (xs : List String) : List String := (xs.toArray.qsort (· < ·)).toList

def showWorld (w : World) : String :=
  let st := sortStrs (w.storage.filter (fun e => e.2 ≠ 0) |>.map fun e => s!"{toHex e.1.1}:{toHex e.1.2}={toHex e.2}")
  let bal := sortStrs (w.balance.map fun e => s!"{toHex e.1}={toHex e.2}")
  s!"storage={joinOr st} balances={joinOr bal} created={w.created}"

abbrev Snaps := List (Nat × St)

structure Move where
  sender : Nat
  to : Nat
  value : Nat
  data : List Nat
  tsdelta : Nat

structure Probe where
  sender : Nat
  to : Nat
  data : List Nat

/-- addresses / slots of the reference cheatcode stub (tools/vlib/e2e.py: HEVM, WARP_FLAG …) -/
def hevmAddr : Nat := 0x7109709ECfa91a80626fF3989D68f67F5b1DD12D
def failedSlot : Nat := 0x6661696c65640000000000000000000000000000000000000000000000000000

/-- vm.warp / vm.roll recorded by the stub take effect for the following transactions; the record is consumed -/
def syncCheats (s : St) : St :=
  let get := fun k => lookupD s.w.storage (hevmAddr, k)
  let s1 := if get 0xF001 ≠ 0 then { s with timestamp := get 0xF002 } else s
  let s2 := if get 0xF003 ≠ 0 then { s1 with number := get 0xF004 } else s1
  let st := s2.w.storage.filter fun e => !(e.1.1 == hevmAddr && (e.1.2 == 0xF001 || e.1.2 == 0xF002 || e.1.2 == 0xF003 || e.1.2 == 0xF004))
  { s2 with w := { s2.w with storage := st } }

def stateKey (s : St) : String := s!"{showWorld s.w} ts={toHex s.timestamp} num={toHex s.number}"

/-- outcome of one move from `s`: the next state if the call succeeded, else the revert data (if any) -/
def applyMove (fuel : Nat) (s : St) (m : Move) : Option St × List Nat :=
  match runMessage s.params fuel s.w m.sender m.to m.value m.data with
  | some (w', h) =>
    if h.isSuccess then
      let s2 := syncCheats { s with w := { w' with transient := [], logs := [] } }
      (some { s2 with timestamp := s2.timestamp + m.tsdelta }, [])
    else (none, h.data)
  | none => (none, [])

def probeOutcome (fuel : Nat) (s : St) (p : Probe) : String :=
  match runMessage s.params fuel s.w p.sender p.to 0 p.data with
  | some (w', h) =>
    let flag := if lookupD w'.storage (hevmAddr, failedSlot) ≠ 0 then "1" else "0"
    s!"{haltName h}:{bytesHex h.data}:{flag}"
  | none => "outOfFuel:-:0"

def showState (fuel : Nat) (moves : List Move) (probes : List Probe) (s : St) (wit : List Nat) : String :=
  let st := sortStrs (s.w.storage.filter (fun e => e.2 ≠ 0) |>.map fun e => s!"{toHex e.1.1}:{toHex e.1.2}={toHex e.2}")
  let ps := probes.map (probeOutcome fuel s)
  let idx := List.range moves.length
  let pm := (idx.zip moves).filterMap fun (i, m) =>
    match applyMove fuel s m with
    | (none, d) => if d.isEmpty then none else some s!"{i}:{bytesHex d}"
    | _ => none
  s!"{".".intercalate (wit.map toString)}|{toHex s.timestamp}|{toHex s.number}|{joinOr st}|{joinOr ps}|{joinOr pm}"

/-- one BFS level: successors of the frontier that were not visited before -/
def nextLevel (fuel : Nat) (moves : List Move) (frontier : List (St × List Nat)) (visited : List String) :
    List (St × List Nat) × List String :=
  let idx := List.range moves.length
  frontier.foldl (fun (acc : List (St × List Nat) × List String) (sw : St × List Nat) =>
    (idx.zip moves).foldl (fun (acc : List (St × List Nat) × List String) (im : Nat × Move) =>
      match applyMove fuel sw.1 im.2 with
      | (some s', _) =>
        let k := stateKey s'
        if acc.2.contains k then acc else (acc.1 ++ [(s', sw.2 ++ [im.1])], k :: acc.2)
      | _ => acc) acc) ([], visited)

def exploreLevels (fuel : Nat) (moves : List Move) (probes : List Probe) :
    Nat → List (St × List Nat) → List String → List String
  | 0, frontier, _ => [";".intercalate (frontier.map fun sw => showState fuel moves probes sw.1 sw.2)]
  | d + 1, frontier, visited =>
    let here := ";".intercalate (frontier.map fun sw => showState fuel moves probes sw.1 sw.2)
    let (nxt, vis) := nextLevel fuel moves frontier visited
    here :: exploreLevels fuel moves probes d nxt vis

def outcome (s : St) (w' : World) (h : Halt) : String :=
  s!"halt={haltName h} data={bytesHex h.data} {showWorld w'} ts={toHex s.timestamp} num={toHex s.number}"

structure Plan where
  moves : List Move := []
  probes : List Probe := []

def handlePlan (s : St) (plan : Plan) (line : String) : Option (Plan × String) :=
  match line.trimAscii.toString.splitOn " " with
  | ["move", sender, to, value, data, dt] =>
    match hexVal? sender, hexVal? to, hexVal? value, hexBytes? data, hexVal? dt with
    | some sender, some to, some value, some data, some dt =>
      some ({ plan with moves := plan.moves ++ [{ sender, to, value, data, tsdelta := dt }] }, "ok")
    | _, _, _, _, _ => some (plan, "bad-op")
  | ["probe", sender, to, data] =>
    match hexVal? sender, hexVal? to, hexBytes? data with
    | some sender, some to, some data => some ({ plan with probes := plan.probes ++ [{ sender, to, data }] }, "ok")
    | _, _, _ => some (plan, "bad-op")
  | ["clearmoves"] => some ({}, "ok")
  | ["explore", d, fuel] =>
    match hexVal? d, hexVal? fuel with
    | some d, some fuel =>
      some (plan, "/".intercalate (exploreLevels fuel plan.moves plan.probes d [(s, [])] [stateKey s]))
    | _, _ => some (plan, "bad-op")
  | _ => none

def handle (s : St) (snaps : Snaps) (line : String) : St × Snaps × String :=
  match line.trimAscii.toString.splitOn " " with
  | ["reset"] => ({}, snaps, "ok")
  | ["code", a, h] =>
    match hexVal? a, hexBytes? h with
    | some a, some bs => ({ s with w := s.w.setCode a bs }, snaps, "ok")
    | _, _ => (s, snaps, "bad-op")
  | ["storage", a, k, v] =>
    match hexVal? a, hexVal? k, hexVal? v with
    | some a, some k, some v => ({ s with w := { s.w with storage := insert s.w.storage (a, k) v } }, snaps, "ok")
    | _, _, _ => (s, snaps, "bad-op")
  | ["balance", a, v] =>
    match hexVal? a, hexVal? v with
    | some a, some v => ({ s with w := s.w.setBalance a v }, snaps, "ok")
    | _, _ => (s, snaps, "bad-op")
  | ["baldefault", v] =>
    match hexVal? v with
    | some v => ({ s with w := { s.w with balanceDefault := v } }, snaps, "ok")
    | _ => (s, snaps, "bad-op")
  | ["param", name, v] =>
    match hexVal? v with
    | none => (s, snaps, "bad-op")
    | some v =>
      match name with
      | "origin" => ({ s with origin := v }, snaps, "ok") | "number" => ({ s with number := v }, snaps, "ok")
      | "timestamp" => ({ s with timestamp := v }, snaps, "ok") | "coinbase" => ({ s with coinbase := v }, snaps, "ok")
      | "difficulty" => ({ s with difficulty := v }, snaps, "ok") | "gaslimit" => ({ s with gaslimit := v }, snaps, "ok")
      | "chainid" => ({ s with chainid := v }, snaps, "ok") | "basefee" => ({ s with basefee := v }, snaps, "ok")
      | "memlimit" => ({ s with memlimit := v }, snaps, "ok") | "maxdepth" => ({ s with maxdepth := v }, snaps, "ok")
      | "allocbase" => ({ s with allocbase := v }, snaps, "ok") | "gasprice" => ({ s with gasprice := v }, snaps, "ok")
      | "created" => ({ s with w := { s.w with created := v } }, snaps, "ok")
      | _ => (s, snaps, "bad-op")
  | ["save", k] =>
    match hexVal? k with
    | some k => (s, (k, s) :: snaps.filter (fun p => p.1 ≠ k), "ok")
    | none => (s, snaps, "bad-op")
  | ["load", k] =>
    match hexVal? k with
    | some k =>
      match snaps.find? (fun p => p.1 == k) with
      | some (_, s') => (s', snaps, "ok")
      | none => (s, snaps, "bad-op")
    | none => (s, snaps, "bad-op")
  | ["syncparam", name, a, fl, vl] =>
    match hexVal? a, hexVal? fl, hexVal? vl with
    | some a, some fl, some vl =>
      if lookupD s.w.storage (a, fl) ≠ 0 then
        let v := lookupD s.w.storage (a, vl)
        let st := s.w.storage.filter fun e => !(e.1.1 == a && (e.1.2 == fl || e.1.2 == vl))
        let s := { s with w := { s.w with storage := st } }
        match name with
        | "timestamp" => ({ s with timestamp := v }, snaps, "ok")
        | "number" => ({ s with number := v }, snaps, "ok")
        | _ => (s, snaps, "bad-op")
      else (s, snaps, "ok")
    | _, _, _ => (s, snaps, "bad-op")
  | ["call", sender, to, value, data, fuel] =>
    match hexVal? sender, hexVal? to, hexVal? value, hexBytes? data, hexVal? fuel with
    | some sender, some to, some value, some data, some fuel =>
      match runMessage s.params fuel s.w sender to value data with
      | none => (s, snaps, "halt=outOfFuel")
      | some (w', h) => (s, snaps, outcome s w' h)
    | _, _, _, _, _ => (s, snaps, "bad-op")
  | ["callc", sender, to, value, data, fuel] =>
    match hexVal? sender, hexVal? to, hexVal? value, hexBytes? data, hexVal? fuel with
    | some sender, some to, some value, some data, some fuel =>
      match runMessage s.params fuel s.w sender to value data with
      | none => (s, snaps, "halt=outOfFuel")
      | some (w', h) => ({ s with w := { w' with transient := [], logs := [] } }, snaps, outcome s w' h)
    | _, _, _, _, _ => (s, snaps, "bad-op")
  | ["keccak", h] =>
    match hexBytes? h with
    | some bs => (s, snaps, toHex (Keccak.keccak256 bs))
    | none => (s, snaps, "bad-op")
  | _ => (s, snaps, "bad-op")

partial def loop (h : IO.FS.Stream) (s : St) (snaps : Snaps) (plan : Plan) : IO Unit := do
  let line ← h.getLine
  if line.isEmpty then return ()
  match handlePlan s plan line with
  | some (plan', out) =>
    IO.println out
    loop h s snaps plan'
  | none =>
    let (s', snaps', out) := handle s snaps line
    IO.println out
    loop h s' snaps' plan

end E2e

def main : IO Unit := do E2e.loop (← IO.getStdin) {} [] {}
