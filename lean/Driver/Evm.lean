/-
Driver.Evm — line protocol for the concrete reference EVM (Spec.Evm), one reply per request line.

  reset                               -> ok          (empty world, default params)
  code <addr> <hexbytes|->            -> ok          (account with code; `-` = empty code)
  storage <addr> <slot> <val>         -> ok
  balance <addr> <val>                -> ok
  baldefault <val>                    -> ok
  param <name> <val>                  -> ok          (origin number timestamp coinbase difficulty gaslimit chainid basefee
                                                      memlimit maxdepth allocbase gasprice created)
  oracle gas <n> <val> | oracle blockhash <n> <val>   -> ok
  exec <sender> <to> <value> <calldata-hex|-> <fuel> <static 0|1>  -> same, but no top-level value transfer / rollback
  call <sender> <to> <value> <calldata-hex|-> <fuel>  -> the outcome of a top-level message call from the current world:
        halt=<kind> data=<hex|-> storage=<a:s=v,…|-> balances=<a=v,…|-> codes=<a=hex,…|-> logs=<…|-> created=<n>
     (the world is NOT updated: every `call` starts from the world set up by the preceding lines)
  keccak <hex|->                      -> <hex>
All numbers hex without 0x.
-/
import HalmosVerif.Spec.Evm
import HalmosVerif.Spec.EvmOps
import HalmosVerif.Spec.Keccak
open HalmosVerif.Spec HalmosVerif.Spec.Evm

def hexVal? (s : String) : Option Nat :=
  if s.isEmpty then none else
  s.foldl (fun acc c =>
    acc.bind fun n =>
      if '0' ≤ c ∧ c ≤ '9' then some (n * 16 + (c.toNat - '0'.toNat))
      else if 'a' ≤ c ∧ c ≤ 'f' then some (n * 16 + (c.toNat - 'a'.toNat + 10))
      else if 'A' ≤ c ∧ c ≤ 'F' then some (n * 16 + (c.toNat - 'A'.toNat + 10))
      else none) (some 0)

def toHex (n : Nat) : String := String.ofList (Nat.toDigits 16 n)

def hexBytes? (s : String) : Option (List Nat) :=
  if s = "-" then some [] else
  let cs := s.toList
  if cs.length % 2 ≠ 0 then none else
  let rec go : List Char → Option (List Nat)
    | a :: b :: rest => do
      let v ← hexVal? (String.ofList [a, b])
      let r ← go rest
      pure (v :: r)
    | [] => some []
    | _ => none
  go cs

def bytesHex (bs : List Nat) : String :=
  if bs.isEmpty then "-" else
  String.join (bs.map fun b =>
    let d := Nat.toDigits 16 (b % 256)
    String.ofList (if d.length < 2 then '0' :: d else d))

structure St where
  w : World := { code := [], storage := [], transient := [], balance := [] }
  origin : Nat := 0
  number : Nat := 1
  timestamp : Nat := 1
  coinbase : Nat := 0
  difficulty : Nat := 0
  gaslimit : Nat := 2 ^ 63 - 1
  chainid : Nat := 31337
  basefee : Nat := 0
  memlimit : Nat := 2 ^ 20
  maxdepth : Nat := 1024
  allocbase : Nat := 0xaaaa0001
  gasprice : Nat := 0
  gas : List (Nat × Nat) := []
  blockhash : List (Nat × Nat) := []

def St.params (s : St) : Params where
  origin := s.origin
  number := s.number
  timestamp := s.timestamp
  coinbase := s.coinbase
  difficulty := s.difficulty
  gaslimit := s.gaslimit
  chainid := s.chainid
  basefee := s.basefee
  memLimit := s.memlimit
  maxDepth := s.maxdepth
  newAddress := fun n => s.allocbase + n
  gasprice := s.gasprice
  gas := fun n => lookupD s.gas n
  blockhash := fun n => lookupD s.blockhash n
  keccak := Keccak.keccak256

def haltName (h : Halt) : String :=
  match h.cancun with
  | .success _ => "success" | .revert _ => "revert" | .invalidOpcode => "invalidOpcode"
  | .invalidJump => "invalidJump" | .stackUnderflow => "stackUnderflow" | .stackOverflow => "stackOverflow"
  | .outOfGas => "outOfGas" | .outOfBoundsRead => "outOfBoundsRead" | .writeInStatic => "writeInStatic"
  | .depthLimit => "depthLimit" | .unsupported op => s!"unsupported:{toHex op}"

def joinOr (xs : List String) : String := if xs.isEmpty then "-" else ",".intercalate xs

def sortPairs (xs : List (String)) : List String := (xs.toArray.qsort (· < ·)).toList

def showWorld (w : World) : String :=
  let st := sortPairs (w.storage.filter (fun e => e.2 ≠ 0) |>.map fun e => s!"{toHex e.1.1}:{toHex e.1.2}={toHex e.2}")
  let tr := sortPairs (w.transient.filter (fun e => e.2 ≠ 0) |>.map fun e => s!"{toHex e.1.1}:{toHex e.1.2}={toHex e.2}")
  let bal := sortPairs (w.balance.map fun e => s!"{toHex e.1}={toHex e.2}")
  let cds := sortPairs (w.code.map fun e => s!"{toHex e.1}={bytesHex e.2}")
  let lg := w.logs.map fun (a, ts, d) => s!"{toHex a}/{"/".intercalate (ts.map toHex)}/{bytesHex d}"
  s!"storage={joinOr st} transient={joinOr tr} balances={joinOr bal} codes={joinOr cds} logs={joinOr lg} created={w.created}"

def handle (s : St) (line : String) : St × String :=
  match line.trimAscii.toString.splitOn " " with
  | ["reset"] => ({}, "ok")
  | ["code", a, h] =>
    match hexVal? a, hexBytes? h with
    | some a, some bs => ({ s with w := s.w.setCode a bs }, "ok")
    | _, _ => (s, "bad-op")
  | ["storage", a, k, v] =>
    match hexVal? a, hexVal? k, hexVal? v with
    | some a, some k, some v => ({ s with w := { s.w with storage := insert s.w.storage (a, k) v } }, "ok")
    | _, _, _ => (s, "bad-op")
  | ["balance", a, v] =>
    match hexVal? a, hexVal? v with
    | some a, some v => ({ s with w := s.w.setBalance a v }, "ok")
    | _, _ => (s, "bad-op")
  | ["baldefault", v] =>
    match hexVal? v with
    | some v => ({ s with w := { s.w with balanceDefault := v } }, "ok")
    | _ => (s, "bad-op")
  | ["param", name, v] =>
    match hexVal? v with
    | none => (s, "bad-op")
    | some v =>
      match name with
      | "origin" => ({ s with origin := v }, "ok") | "number" => ({ s with number := v }, "ok")
      | "timestamp" => ({ s with timestamp := v }, "ok") | "coinbase" => ({ s with coinbase := v }, "ok")
      | "difficulty" => ({ s with difficulty := v }, "ok") | "gaslimit" => ({ s with gaslimit := v }, "ok")
      | "chainid" => ({ s with chainid := v }, "ok") | "basefee" => ({ s with basefee := v }, "ok")
      | "memlimit" => ({ s with memlimit := v }, "ok") | "maxdepth" => ({ s with maxdepth := v }, "ok")
      | "allocbase" => ({ s with allocbase := v }, "ok") | "gasprice" => ({ s with gasprice := v }, "ok")
      | "created" => ({ s with w := { s.w with created := v } }, "ok")
      | _ => (s, "bad-op")
  | ["oracle", "gas", n, v] =>
    match hexVal? n, hexVal? v with
    | some n, some v => ({ s with gas := insert s.gas n v }, "ok")
    | _, _ => (s, "bad-op")
  | ["oracle", "blockhash", n, v] =>
    match hexVal? n, hexVal? v with
    | some n, some v => ({ s with blockhash := insert s.blockhash n v }, "ok")
    | _, _ => (s, "bad-op")
  | ["call", sender, to, value, data, fuel] =>
    match hexVal? sender, hexVal? to, hexVal? value, hexBytes? data, hexVal? fuel with
    | some sender, some to, some value, some data, some fuel =>
      match runMessage s.params fuel s.w sender to value data with
      | none => (s, "halt=outOfFuel")
      | some (w', h) => (s, s!"halt={haltName h} data={bytesHex h.data} {showWorld w'}")
    | _, _, _, _, _ => (s, "bad-op")
  | ["exec", sender, to, value, data, fuel, st] =>
    -- a frame executed without the top-level value transfer (what SEVM.run does with a prepared Exec)
    match hexVal? sender, hexVal? to, hexVal? value, hexBytes? data, hexVal? fuel with
    | some sender, some to, some value, some data, some fuel =>
      let f : Frame := { this := to, caller := sender, value := value, calldata := data,
                         code := (s.w.codeOf to).getD [], codeAddr := to, isStatic := st = "1" }
      match exec s.params fuel s.w f with
      | none => (s, "halt=outOfFuel")
      | some (w', h) => (s, s!"halt={haltName h} data={bytesHex h.data} {showWorld w'}")
    | _, _, _, _, _ => (s, "bad-op")
  | ["keccak", h] =>
    match hexBytes? h with
    | some bs => (s, toHex (Keccak.keccak256 bs))
    | none => (s, "bad-op")
  | _ => (s, "bad-op")

partial def loop (h : IO.FS.Stream) (s : St) : IO Unit := do
  let line ← h.getLine
  if line.isEmpty then return ()
  let (s', out) := handle s line
  IO.println out
  loop h s'

def main : IO Unit := do loop (← IO.getStdin) {}
