/-
Driver for Spec.Keccak.  One request per line, one reply per line:

  hash <hex>        Keccak-256 of the bytes (packed version), 64 hex digits     (`hash` alone / `hash -` = empty input)
  href <hex>        same, by the reference (list-of-lanes) version
  hashbe <len> <hex-value>   Keccak-256 of the <len>-byte big-endian encoding of the value (`keccak256BE`)
  selector <sig>    first four bytes of Keccak-256 of the UTF-8 signature, 8 hex digits (signature = rest of the line)
  anything else     bad-op
-/
import HalmosVerif.Spec.Keccak
open HalmosVerif.Spec.Keccak

def hexDigit (c : Char) : Option Nat :=
  if '0' ≤ c ∧ c ≤ '9' then some (c.toNat - '0'.toNat)
  else if 'a' ≤ c ∧ c ≤ 'f' then some (c.toNat - 'a'.toNat + 10)
  else if 'A' ≤ c ∧ c ≤ 'F' then some (c.toNat - 'A'.toNat + 10)
  else none

def parseHexBytes : List Char → Option (List Nat)
  | [] => some []
  | [_] => none
  | a :: b :: rest => do
    let x ← hexDigit a
    let y ← hexDigit b
    let r ← parseHexBytes rest
    pure ((16 * x + y) :: r)

def parseHexNat (s : String) : Option Nat :=
  let s := if s.startsWith "0x" then (s.drop 2).toString else s
  if s.isEmpty then none
  else s.toList.foldlM (fun acc c => (hexDigit c).map (acc * 16 + ·)) 0

def toHex (width n : Nat) : String :=
  let ds := Nat.toDigits 16 n
  String.ofList (List.replicate (width - ds.length) '0' ++ ds)

def hexArg (arg : String) : Option (List Nat) :=
  let a := arg.trimAscii.toString
  let a := if a.startsWith "0x" then (a.drop 2).toString else a
  if a == "-" then some [] else parseHexBytes a.toList

def handle (line : String) : String :=
  let line := (line.dropEndWhile (fun c => c == '\n' || c == '\r')).toString
  match line.splitOn " " with
  | ["hash"] => toHex 64 (keccak256 [])
  | ["hash", a] => match hexArg a with
    | some bs => toHex 64 (keccak256 bs)
    | none => "bad-op"
  | ["href"] => toHex 64 (Ref.keccak256 [])
  | ["href", a] => match hexArg a with
    | some bs => toHex 64 (Ref.keccak256 bs)
    | none => "bad-op"
  | ["hashbe", l, v] => match l.toNat?, parseHexNat v with
    | some len, some x => toHex 64 (keccak256BE len x)
    | _, _ => "bad-op"
  | "selector" :: _ => toHex 8 (selector (line.drop 9).toString)
  | _ => "bad-op"

partial def loop (stdin : IO.FS.Stream) (stdout : IO.FS.Stream) : IO Unit := do
  let line ← stdin.getLine
  if line.isEmpty then return
  stdout.putStrLn (handle line)
  loop stdin stdout

def main : IO Unit := do
  let stdin ← IO.getStdin
  let stdout ← IO.getStdout
  loop stdin stdout
  stdout.flush
