/-
Driver.ModelParse — line protocol for C04 (one reply per request line). Text payloads are hex of latin-1 bytes, `-` = empty.

  const <hex>              -> ok <dec> | err <value|index>            parseConstValue
  model <hex>              -> ok <var>;<var>;…  | err <kind>           parseModelStr   (<var> = name,varname,soltype,smttype as hex + ,size,value)
  valid <hex>              -> 0 | 1                                    isModelValid
  result <hex>             -> <kind> [<valid 0|1>]                     fromResult
  print <bin|hex|dec> <w> <v> -> <hex>                                 printers of the three constant syntaxes
-/
import HalmosVerif.Model.ModelParse
open HalmosVerif.Model.ModelParse

def hexDigit? (c : Char) : Option Nat :=
  if '0' ≤ c ∧ c ≤ '9' then some (c.toNat - '0'.toNat)
  else if 'a' ≤ c ∧ c ≤ 'f' then some (c.toNat - 'a'.toNat + 10)
  else none

def unhex : List Char → Option (List Char)
  | [] => some []
  | [_] => none
  | a :: b :: rest => do
    let x ← hexDigit? a
    let y ← hexDigit? b
    let r ← unhex rest
    pure (Char.ofNat (x * 16 + y) :: r)

def hexOf (s : List Char) : String :=
  if s.isEmpty then "-" else
  String.ofList (s.foldr (fun c acc => Nat.digitChar (c.toNat / 16 % 16) :: Nat.digitChar (c.toNat % 16) :: acc) [])

def payload (s : String) : Option (List Char) := if s = "-" then some [] else unhex s.toList

def errStr : PErr → String
  | .value => "err value"
  | .index => "err index"

def showVar (v : Var) : String :=
  s!"{hexOf v.fullName},{hexOf v.variableName},{hexOf v.solidityType},{hexOf v.smtType},{v.sizeBits},{v.value}"

def handle (line : String) : String :=
  match (line.trimAscii.toString.splitOn " ").filter (· ≠ "") with
  | ["const", h] =>
    match payload h with
    | some s => (match parseConstValue s with | .ok v => s!"ok {v}" | .error e => errStr e)
    | none => "bad-op"
  | ["model", h] =>
    match payload h with
    | some s =>
      (match parseModelStr s with
       | .ok vs => "ok " ++ ";".intercalate (vs.map showVar)
       | .error e => errStr e)
    | none => "bad-op"
  | ["valid", h] =>
    match payload h with
    | some s => if isModelValid s then "1" else "0"
    | none => "bad-op"
  | ["result", h] =>
    match payload h with
    | some s =>
      let o := fromResult s
      (match o.isValid with
       | some b => s!"{o.kind} {if b then 1 else 0}"
       | none => o.kind)
    | none => "bad-op"
  | ["print", k, w, v] =>
    match w.toNat?, v.toNat? with
    | some w, some v =>
      if k = "bin" then hexOf (printBin w v) else if k = "hex" then hexOf (printHex w v)
      else if k = "dec" then hexOf (printDec w v) else "bad-op"
    | _, _ => "bad-op"
  | _ => "bad-op"

partial def loop (h : IO.FS.Stream) : IO Unit := do
  let line ← h.getLine
  if line.isEmpty then return ()
  IO.println (handle line)
  loop h

def main : IO Unit := do loop (← IO.getStdin)
