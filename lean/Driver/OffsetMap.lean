/-
Driver for Model.OffsetMap.  One scenario per line, one reply per line:

  run <current|fixed> <bits> <op>;<op>;…      op = `s <key-hex> <value-nat>`  (m[key] = value)
                                                  | `g <key-hex>`               (m[key])
  reply: one token per op joined by `;` —  set: `ok` | `assert` (the map is left unchanged, as in Python)
                                           get: `none` | `<value>,<delta>`  (delta a signed decimal)
  anything else: bad-op

`current` uses `OffsetMap.lookup` (what utils.py does), `fixed` uses `OffsetMap.lookupFixed`.
-/
import HalmosVerif.Model.OffsetMap
open HalmosVerif.Model

def hexDigit (c : Char) : Option Nat :=
  if '0' ≤ c ∧ c ≤ '9' then some (c.toNat - '0'.toNat)
  else if 'a' ≤ c ∧ c ≤ 'f' then some (c.toNat - 'a'.toNat + 10)
  else if 'A' ≤ c ∧ c ≤ 'F' then some (c.toNat - 'A'.toNat + 10)
  else none

def parseHexNat (s : String) : Option Nat :=
  let s := if s.startsWith "0x" then (s.drop 2).toString else s
  if s.isEmpty then none
  else s.toList.foldlM (fun acc c => (hexDigit c).map (acc * 16 + ·)) 0

def runOps (fixed : Bool) : OffsetMap Nat → List String → List String → Option (List String)
  | _, [], acc => some acc.reverse
  | m, op :: ops, acc =>
    match (op.trimAscii.toString.splitOn " ").filter (· ≠ "") with
    | ["s", k, v] =>
      match parseHexNat k, v.toNat? with
      | some key, some val =>
        match m.set key val with
        | some m' => runOps fixed m' ops ("ok" :: acc)
        | none => runOps fixed m ops ("assert" :: acc)
      | _, _ => none
    | ["g", k] =>
      match parseHexNat k with
      | some key =>
        let r := if fixed then m.lookupFixed key else m.lookup key
        let out := match r with
          | none => "none"
          | some (v, d) => s!"{v},{d}"
        runOps fixed m ops (out :: acc)
      | none => none
    | _ => none

def handle (line : String) : String :=
  let line := (line.dropEndWhile (fun c => c == '\n' || c == '\r')).toString
  match line.splitOn " " with
  | "run" :: variant :: bits :: rest =>
    let fixed? := if variant == "current" then some false else if variant == "fixed" then some true else none
    match fixed?, bits.toNat? with
    | some fixed, some b =>
      let ops := (" ".intercalate rest).splitOn ";"
      let ops := ops.filter (fun o => o.trimAscii.toString ≠ "")
      match runOps fixed (OffsetMap.empty b) ops [] with
      | some out => ";".intercalate out
      | none => "bad-op"
    | _, _ => "bad-op"
  | _ => "bad-op"

partial def loop (stdin : IO.FS.Stream) (stdout : IO.FS.Stream) : IO Unit := do
  let line ← stdin.getLine
  if line.isEmpty then return
  stdout.putStrLn (handle line)
  loop stdin stdout

def main : IO Unit := do
  let stdin ← IO.getStdin
  let stdout ← IO.getStdout
  loop stdin stdout
  stdout.flush
