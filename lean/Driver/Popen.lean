/-
Driver.Popen — line protocol over Model.Popen for tools/props/c17.py.

  enum <variant> <cfg> <rot> <delays> <max>   ->  ok <total> <sched>|<sched>|...      (at most <max> schedules listed)
  run  <variant> <cfg> <labels>               ->  ok <E0>;<E1>;...;<En> # <final state>   |  stuck <index>
  pipe <coreHit> <isRefined> <changes> <reply1> <reply2>  ->  ok <outcome> <number of jobs>     (solve_end_to_end)
  witness <name> <variant>                    ->  ok <variant> <cfg> <labels> | none     (the schedules of the `_cex` theorems)

  variant : three characters 0/1 = submitLocked cancelFlag joinFixed
  cfg     : <job>.<job>...:<waitflags>     job = [Tt][Ii][Ff][sukg]  (timeout, ignores SIGTERM, Popen fails, answer)
                                           waitflags = string of 0/1 (one shutdown caller each), or `-`
  labels  : comma separated  s<n> | w<n> | w<n>t | h<k> | c<k>.<i> | e<i>
  Ei      : `+`-separated `label:op` of the enabled steps before step i (En: in the final state)
-/
import HalmosVerif.Model.Popen

open HalmosVerif.Model.Popen

def parseBool01 (c : Char) : Option Bool := if c = '1' then some true else if c = '0' then some false else none

def parseVariant (s : String) : Option Variant :=
  match s.toList with
  | [a, b, c] => do
    let a ← parseBool01 a; let b ← parseBool01 b; let c ← parseBool01 c
    pure ⟨a, b, c⟩
  | _ => none

def parseJob (s : String) : Option Job :=
  match s.toList with
  | [t, i, f, a] => do
    let t ← (if t = 'T' then some true else if t = 't' then some false else none)
    let i ← (if i = 'I' then some true else if i = 'i' then some false else none)
    let f ← (if f = 'F' then some true else if f = 'f' then some false else none)
    let a ← (match a with | 's' => some Ans.sat | 'u' => some Ans.unsat | 'k' => some Ans.unknown
                          | 'g' => some Ans.garbage | _ => none)
    pure ⟨t, i, f, a⟩
  | _ => none

def parseCfg (s : String) : Option Cfg :=
  match s.splitOn ":" with
  | [js, ws] => do
    let jobs ← (js.splitOn ".").mapM parseJob
    let waits ← (if ws = "-" then some [] else ws.toList.mapM parseBool01)
    pure (mkCfg jobs waits)
  | _ => none

def parseLabel (s : String) : Option Label :=
  match s.toList with
  | 's' :: r => (String.ofList r).toNat?.map .sub
  | 'h' :: r => (String.ofList r).toNat?.map .sh
  | 'e' :: r => (String.ofList r).toNat?.map .exit
  | 'w' :: r =>
    let str := String.ofList r
    if str.endsWith "t" then (str.dropEnd 1).toString.toNat?.map (.w · true) else str.toNat?.map (.w · false)
  | 'c' :: r =>
    match (String.ofList r).splitOn "." with
    | [k, i] => do pure (.c (← k.toNat?) (← i.toNat?))
    | _ => none
  | _ => none

def showLabel : Label → String
  | .sub s => s!"s{s}"
  | .w i false => s!"w{i}"
  | .w i true => s!"w{i}t"
  | .sh k => s!"h{k}"
  | .c k i => s!"c{k}.{i}"
  | .exit i => s!"e{i}"

def showOp (o : Op) : String :=
  match o with
  | .flagRead => "flagRead" | .flagSet => "flagSet" | .lockAcq => "lockAcq" | .lockRel => "lockRel"
  | .append => "append" | .threadStart => "threadStart" | .result => "result" | .cwait => "cwait"
  | .slockAcq => "slockAcq" | .popen => "popen" | .commRet => "commRet" | .commTimeout => "commTimeout"
  | .poll => "poll" | .term => "term" | .kill => "kill" | .setres => "setres" | .snap => "snap"
  | .poolWait => "poolWait" | .cbegin => "cbegin" | .exit => "exit"

def showEnabled (v : Variant) (c : Cfg) (σ : State) : String :=
  let es := (allLabels c).filterMap fun l => (stepOp v c σ l).map fun (o, _) => showLabel l ++ ":" ++ showOp o
  if es.isEmpty then "-" else "+".intercalate es

def showSubPc : SubPc → String
  | .start => "start" | .preAcq => "preAcq" | .inChk => "inChk" | .inApp => "inApp" | .inStart => "inStart"
  | .inRel => "inRel" | .rejRel => "rejRel" | .accepted => "accepted" | .waiting => "waiting" | .done => "done"
  | .rejected => "rejected"

def showWPc : WPc → String
  | .notStarted => "notStarted" | .sAcq => "sAcq" | .popen => "popen" | .comm => "comm" | .cMark => "cMark"
  | .cPoll => "cPoll" | .cTerm => "cTerm" | .cKill => "cKill" | .setRes => "setRes" | .fin => "fin"

def showProc : Proc → String
  | .none => "none" | .running => "running" | .exited => "exited" | .killed => "killed"

def showExn : Exn → String
  | .none => "none" | .timeout => "timeout" | .other => "other" | .cancelled => "cancelled"

def showShPc : ShPc → String
  | .start => "start" | .acq => "acq" | .snapT => "snapT" | .poolWait => "poolWait" | .rel => "rel"
  | .jSnap => "jSnap" | .jRes => "jRes" | .jWait => "jWait" | .jAcq => "jAcq" | .jSnapL => "jSnapL"
  | .jRel => "jRel" | .jWaitAll => "jWaitAll" | .ret => "ret" | .jret => "ret" | .raised => "raised"

def showCPc : CPc → String
  | .absent => "absent" | .begin => "begin" | .mark => "mark" | .poll => "poll" | .term => "term"
  | .kill => "kill" | .done => "done"

def showOut : Out → String
  | .sat => "sat" | .unsat => "unsat" | .unknown => "unknown" | .err => "err" | .raisedOther => "raisedOther"
  | .raisedShutdown => "raisedShutdown" | .pending => "pending"

def commaOr (xs : List String) : String := if xs.isEmpty then "-" else ",".intercalate xs

def showState (c : Cfg) (σ : State) : String :=
  let js := List.range c.nsub
  let ks := List.range c.nsh
  let lock := match σ.lock with | none => "-" | some (.sub s) => s!"s{s}" | some (.sh k) => s!"h{k}"
  let tasks := ks.flatMap fun k => js.filterMap fun i =>
    if σ.task k i = .absent then none else some s!"{k}.{i}:{showCPc (σ.task k i)}"
  " ".intercalate [
    "flag=" ++ (if σ.flag then "1" else "0"),
    "lock=" ++ lock,
    "futs=" ++ commaOr (σ.futs.map toString),
    "sub=" ++ commaOr (js.map fun s => showSubPc (σ.sub s)),
    "wpc=" ++ commaOr (js.map fun i => showWPc (σ.wpc i)),
    "proc=" ++ commaOr (js.map fun i => showProc (σ.proc i)),
    "exn=" ++ commaOr (js.map fun i => showExn (σ.exn i)),
    "res=" ++ commaOr (js.map fun i => toString (σ.results i)),
    "creq=" ++ commaOr (js.map fun i => if σ.creq i then "1" else "0"),
    "sh=" ++ commaOr (ks.map fun k => showShPc (σ.sh k)),
    "task=" ++ commaOr tasks,
    "out=" ++ commaOr (js.map fun s => showOut (outcome c σ s))]

def showSched (ls : List Label) : String := commaOr (ls.map showLabel)

def showVariant (v : Variant) : String :=
  let b (x : Bool) := if x then "1" else "0"
  b v.submitLocked ++ b v.cancelFlag ++ b v.joinFixed

def showJob (j : Job) : String :=
  (if j.hasTimeout then "T" else "t") ++ (if j.ignTerm then "I" else "i") ++ (if j.popenFails then "F" else "f") ++
  (match j.answer with | .sat => "s" | .unsat => "u" | .unknown => "k" | .garbage => "g")

def showCfg (c : Cfg) : String :=
  ".".intercalate ((List.range c.nsub).map fun i => showJob (c.job i)) ++ ":" ++
  (if c.nsh = 0 then "-" else String.join ((List.range c.nsh).map fun k => if c.wait k then "1" else "0"))

def runTrace (v : Variant) (c : Cfg) : State → List Label → Nat → List String → String
  | σ, [], _, acc => "ok " ++ ";".intercalate (acc ++ [showEnabled v c σ]).toArray.toList ++ " # " ++ showState c σ
  | σ, l :: ls, i, acc =>
    match step v c σ l with
    | some σ' => runTrace v c σ' ls (i + 1) (acc ++ [showEnabled v c σ])
    | none => s!"stuck {i}"

def parseReply (s : String) : Option Reply :=
  match s with
  | "satValid" => some .satValid | "satInvalid" => some .satInvalid | "unsat" => some .unsat
  | "unknown" => some .unknown | "hang" => some .hang | "crash" => some .crash | "garbage" => some .garbage
  | "noStart" => some .noStart | _ => none

def handle (line : String) : String :=
  match (line.splitOn " ").filter (· ≠ "") with
  | ["enum", v, c, rot, delays, max] =>
    match parseVariant v, parseCfg c, rot.toNat?, delays.toNat?, max.toNat? with
    | some v, some c, some rot, some delays, some max =>
      let all := enumerate v c rot 400 delays init none
      s!"ok {all.length} " ++ "|".intercalate ((all.take max).map showSched)
    | _, _, _, _, _ => "bad-args"
  | ["run", v, c, ls] =>
    match parseVariant v, parseCfg c with
    | some v, some c =>
      let labels := if ls = "-" then some [] else (ls.splitOn ",").mapM parseLabel
      match labels with
      | some labels => runTrace v c init labels 0 []
      | none => "bad-labels"
    | _, _ => "bad-args"
  | ["witness", name, v] =>
    match parseVariant v with
    | some v =>
      match witness name v with
      | some (c, ls) => s!"ok {showVariant v} {showCfg c} {showSched ls}"
      | none => "none"
    | none => "bad-args"
  | ["pipe", core, refined, changes, r1, r2] =>
    match parseBool01 (core.toList.headD 'x'), parseBool01 (refined.toList.headD 'x'), parseBool01 (changes.toList.headD 'x'),
          parseReply r1, parseReply r2 with
    | some c, some r, some ch, some a, some b =>
      s!"ok {showOut (pipeline c r ch a b)} {pipelineJobs c r ch a}"
    | _, _, _, _, _ => "bad-args"
  | _ => "bad-op"

partial def loop (h : IO.FS.Stream) (out : IO.FS.Stream) : IO Unit := do
  let line ← h.getLine
  if line.isEmpty then return
  out.putStrLn (handle (line.trimAscii.toString))
  loop h out

def main : IO Unit := do
  let stdin ← IO.getStdin
  let stdout ← IO.getStdout
  loop stdin stdout
