/-
Driver.Prank — line protocol for C14 (one reply per request line; numbers hex without 0x).

  hist <op> <op> …            -> M <view> S <view>
        <op>   = p:<a> | p2:<a>:<o> | sp:<a> | sp2:<a>:<o> | stop | c:<k>:<to>:<0|1> (k = c|s|d|cc) | cr:<addr> | ret
                 | tx:<sender>:<origin>:<to>
        <view> = e<0|1> o=<to/self/sender/origin;…|-> f=<self/sender/origin/<prank>;…|->
                 <prank> = - | <sender>,<origin|->,<single 0|1>          (innermost frame first)
        M = Model.Prank.run from the empty state, S = Spec.Foundry.run with the endpoints {vm, svm, console}

  create <enc> <cnt> <raw|fix> <namehex|-> <uidhex|-> <v> -> ok cnt=<n> label=<hex|-> bits=<n> data=<hex|-> cond=<0|1> spec=<0|1>
                                                            | error | crash
        <enc>  = uint:<bits> | uint256 | int:<bits> | int256 | bytes:<n> | string:<n> | bytes4 | bytes8 | bytes32 | address
                 | bool | minmax:<lo>:<hi>
        raw: the name goes through name_of;  fix: used as is (the vm.random* names);  v: value of the fresh variable
        spec = the returned data is in the value set that Spec.Foundry gives to the requested type

  w reset | w code <a> <hex|-> | w bal <a> <v> | w baldefault <v> | w storage <a> <k> <v> | w param <name> <v>   -> ok
        (sets up the Spec world/params and the Model network state identically)
  cheatinc store <who> <slot> <delta> | cheatinc deal <who> <delta>   -> ok | error   (read-modify-write of the current value)
  cheat deal <who> <amt> | cheat store <who> <slot> <val> | cheat etch <who> <hex|-> | cheat warp|roll|fee|chainId|coinbase|difficulty <v>
        -> ok | error      (Spec: applyWorld/applyParams; Model: hevmState — `error` = the Model's HalmosException, the
                            Spec state is still updated)
  sexec <sender> <to> <value> <calldata|-> <fuel>   -> halt=<kind> data=<hex|->     reference EVM on the Spec world/params
  mreads <t> <u> <slot>       -> <bal t>,<bal u>,<sload t>,<sload u>,<codesize t>,<codesize u>,<timestamp>,<number>,<basefee>,
                                 <chainid>,<coinbase>,<difficulty>      from the Model network state
  loads <who> <slot>          -> M=<v> S=<v>      vm.load
-/
import HalmosVerif.Model.Prank
import HalmosVerif.Spec.Foundry
import HalmosVerif.Spec.Keccak
open HalmosVerif HalmosVerif.Spec HalmosVerif.Spec.Evm HalmosVerif.Spec.Foundry

def hexVal? (s : String) : Option Nat :=
  if s.isEmpty then none else
  s.foldl (fun acc c =>
    acc.bind fun n =>
      if '0' ≤ c ∧ c ≤ '9' then some (n * 16 + (c.toNat - '0'.toNat))
      else if 'a' ≤ c ∧ c ≤ 'f' then some (n * 16 + (c.toNat - 'a'.toNat + 10))
      else if 'A' ≤ c ∧ c ≤ 'F' then some (n * 16 + (c.toNat - 'A'.toNat + 10))
      else none) (some 0)

def toHex (n : Nat) : String := String.ofList (Nat.toDigits 16 n)

def hexBytes? (s : String) : Option (List Nat) :=
  if s = "-" then some [] else
  let cs := s.toList
  if cs.length % 2 ≠ 0 then none else
  let rec go : List Char → Option (List Nat)
    | a :: b :: rest => do
      let v ← hexVal? (String.ofList [a, b])
      let r ← go rest
      pure (v :: r)
    | [] => some []
    | _ => none
  go cs

def bytesHex (bs : List Nat) : String :=
  if bs.isEmpty then "-" else
  String.join (bs.map fun b =>
    let d := Nat.toDigits 16 (b % 256)
    String.ofList (if d.length < 2 then '0' :: d else d))

def joinOr (sep : String) (xs : List String) : String := if xs.isEmpty then "-" else sep.intercalate xs

/-! ### histories -/

def parseKind? : String → Option CallKind
  | "c" => some .call | "s" => some .staticcall | "d" => some .delegatecall | "cc" => some .callcode | _ => none

def parseOp? (t : String) : Option Op :=
  match t.splitOn ":" with
  | ["p", a] => (hexVal? a).map .prank
  | ["p2", a, o] => do pure (.prank2 (← hexVal? a) (← hexVal? o))
  | ["sp", a] => (hexVal? a).map .startPrank
  | ["sp2", a, o] => do pure (.startPrank2 (← hexVal? a) (← hexVal? o))
  | ["stop"] => some .stopPrank
  | ["c", k, to, e] => do pure (.call (← parseKind? k) (← hexVal? to) (e == "1"))
  | ["cr", a] => (hexVal? a).map .create
  | ["ret"] => some .ret
  | ["tx", s, o, t] => do pure (.newTx (← hexVal? s) (← hexVal? o) (← hexVal? t))
  | _ => none

def showObs (o : Obs) : String := s!"{toHex o.to}/{toHex o.self}/{toHex o.sender}/{toHex o.origin}"

def showPrankS : Option PrankS → String
  | none => "-"
  | some p => s!"{toHex p.sender},{(p.origin.map toHex).getD "-"},{if p.single then 1 else 0}"

def showFrameS (f : FrameS) : String := s!"{toHex f.self}/{toHex f.sender}/{toHex f.origin}/{showPrankS f.prank}"

def viewS (s : StateS) : String :=
  s!"e{if s.failed then 1 else 0} o={joinOr ";" (s.obs.map showObs)} f={joinOr ";" (s.frames.map showFrameS)}"

/-- the Model's record printed in the same vocabulary: active sender / origin / one-shot (= not keep) -/
def showPrankM (p : Model.Prank.Prank) : String :=
  if !p.toBool then "-" else
  s!"{(p.active.sender.map toHex).getD "?"},{(p.active.origin.map toHex).getD "-"},{if p.keep then 0 else 1}"

def showCtxM (c : Model.Prank.CallContext) : String :=
  s!"{toHex c.message.target}/{toHex c.message.caller}/{toHex c.message.origin}/{showPrankM c.prank}"

def viewM (s : Model.Prank.State) : String :=
  let frames := match s.ex with
    | none => []
    | some x => x.context :: x.callbacks
  s!"e{if s.stuck then 1 else 0} o={joinOr ";" (s.obs.map showObs)} f={joinOr ";" (frames.map showCtxM)}"

def endpoints : Endpoints :=
  { vm := Gen.Prank.hevmAddress, svm := Gen.Prank.halmosAddress, console := Gen.Prank.consoleAddress }

def doHist (toks : List String) : String :=
  match toks.mapM parseOp? with
  | none => "bad-op"
  | some h => s!"M {viewM (Model.Prank.run {} h)} S {viewS (Spec.Foundry.run endpoints {} h)}"

/-! ### create -/

def parseEnc? (t : String) : Option Model.Prank.Enc :=
  match t.splitOn ":" with
  | ["uint", b] => (hexVal? b).map .uint
  | ["uint256"] => some .uint256
  | ["int", b] => (hexVal? b).map .int
  | ["int256"] => some .int256
  | ["bytes", n] => (hexVal? n).map .bytes
  | ["string", n] => (hexVal? n).map .string
  | ["bytes4"] => some .bytes4 | ["bytes8"] => some .bytes8 | ["bytes32"] => some .bytes32
  | ["address"] => some .address | ["bool"] => some .bool
  | ["minmax", lo, hi] => do pure (.uintMinMax (← hexVal? lo) (← hexVal? hi))
  | _ => none

def bytesToNat' (bs : List Nat) : Nat := bs.foldl (fun acc b => acc * 256 + b % 256) 0

/-- is the returned data in the value set of the requested type (Spec.Foundry)? -/
def specAccepts (e : Model.Prank.Enc) (data : List Nat) : Bool :=
  let w := bytesToNat' data
  let oneWord := data.length == 32
  match e with
  | .uint b => oneWord && 1 ≤ b && b ≤ 256 && decide (w < 2 ^ b)
  | .uint256 => oneWord
  | .int b => oneWord && 1 ≤ b && b ≤ 256 && (decide (w < 2 ^ (b - 1)) || decide (2 ^ 256 - 2 ^ (b - 1) ≤ w))
  | .int256 => oneWord
  | .bytes n | .string n =>
    data.take 32 == Spec.Foundry.word 32 && (data.drop 32).take 32 == Spec.Foundry.word n && data.length ≥ 64 + n
  | .bytes4 => oneWord && w % 2 ^ (256 - 32) == 0
  | .bytes8 => oneWord && w % 2 ^ (256 - 64) == 0
  | .bytes32 => oneWord
  | .address => oneWord && decide (w < 2 ^ 160)
  | .bool => oneWord && (w == 0 || w == 1)
  | .uintMinMax lo hi => oneWord && decide (lo ≤ w) && decide (w ≤ hi)

def asChars (bs : List Nat) : List Char := bs.map Char.ofNat

def doCreate (enc cnt mode name uid v : String) : String :=
  match parseEnc? enc, hexVal? cnt, hexBytes? name, hexBytes? uid, hexVal? v with
  | some e, some cnt, some name, some uid, some v =>
    let nm := if mode == "raw" then Model.Prank.nameOf (asChars name) else asChars name
    match Model.Prank.create cnt nm (asChars uid) e with
    | .halmosError => "error"
    | .crash => "crash"
    | .ok cnt' sym data cond =>
      let d := data v
      let lbl := match sym with
        | none => "-"
        | some s => bytesHex (s.label.map Char.toNat)
      let bits := match sym with
        | none => 0
        | some s => s.bits
      -- range variants: the Spec's value set is checked only for values admitted by the path conditions
      let sp := if cond v then specAccepts e d else true
      s!"ok cnt={toHex cnt'} label={lbl} bits={toHex bits} data={bytesHex d} cond={if cond v then 1 else 0} spec={if sp then 1 else 0}"
  | _, _, _, _, _ => "bad-op"

/-! ### state cheatcodes -/

structure St where
  w : World := { code := [], storage := [], transient := [], balance := [] }
  p : Params := { origin := 0, keccak := Keccak.keccak256 }
  n : Model.Prank.Net := {
    balance := fun _ => 0, code := fun _ => none, storage := fun _ => none,
    block := { basefee := 0, chainid := 31337, coinbase := 0, difficulty := 0, number := 1, timestamp := 1 } }
  balDefault : Nat := 0

def haltName : Halt → String
  | .success _ => "success" | .revert _ => "revert" | .invalidOpcode => "invalidOpcode"
  | .invalidJump => "invalidJump" | .stackUnderflow => "stackUnderflow" | .stackOverflow => "stackOverflow"
  | .outOfGas => "outOfGas" | .outOfBoundsRead => "outOfBoundsRead" | .writeInStatic => "writeInStatic"
  | .depthLimit => "depthLimit" | .unsupported op => s!"unsupported:{toHex op}"

def parseCheat? : List String → Option StateCheat
  | ["deal", a, v] => do pure (.deal (← hexVal? a) (← hexVal? v))
  | ["store", a, k, v] => do pure (.store (← hexVal? a) (← hexVal? k) (← hexVal? v))
  | ["etch", a, h] => do pure (.etch (← hexVal? a) (← hexBytes? h))
  | ["warp", v] => (hexVal? v).map .warp | ["roll", v] => (hexVal? v).map .roll
  | ["fee", v] => (hexVal? v).map .fee | ["chainId", v] => (hexVal? v).map .chainId
  | ["coinbase", v] => (hexVal? v).map .coinbase | ["difficulty", v] => (hexVal? v).map .difficulty
  | _ => none

open Model.Prank in
def handleState (s : St) (toks : List String) : St × String :=
  match toks with
  | ["w", "reset"] => ({}, "ok")
  | ["w", "code", a, h] =>
    match hexVal? a, hexBytes? h with
    | some a, some bs =>
      ({ s with w := s.w.setCode a bs,
                n := { s.n with code := fupd s.n.code a (some bs),
                                storage := match s.n.storage a with
                                  | some _ => s.n.storage
                                  | none => fupd s.n.storage a (some fun _ => 0) } }, "ok")
    | _, _ => (s, "bad-op")
  | ["w", "bal", a, v] =>
    match hexVal? a, hexVal? v with
    | some a, some v => ({ s with w := s.w.setBalance a v, n := { s.n with balance := fupd s.n.balance a v } }, "ok")
    | _, _ => (s, "bad-op")
  | ["w", "baldefault", v] =>
    match hexVal? v with
    | some v => ({ s with w := { s.w with balanceDefault := v }, n := { s.n with balance := fun _ => v }, balDefault := v }, "ok")
    | _ => (s, "bad-op")
  | ["w", "storage", a, k, v] =>
    match hexVal? a, hexVal? k, hexVal? v with
    | some a, some k, some v =>
      let st := (s.n.storage a).getD (fun _ => 0)
      ({ s with w := { s.w with storage := insert s.w.storage (a, k) v },
                n := { s.n with storage := fupd s.n.storage a (some (fupd st k v)) } }, "ok")
    | _, _, _ => (s, "bad-op")
  | ["w", "param", name, v] =>
    match hexVal? v with
    | none => (s, "bad-op")
    | some v =>
      match name with
      | "origin" => ({ s with p := { s.p with origin := v } }, "ok")
      | "allocbase" => ({ s with p := { s.p with newAddress := fun n => v + n } }, "ok")
      | "memlimit" => ({ s with p := { s.p with memLimit := v } }, "ok")
      | _ => (s, "bad-op")
  | ["cheatinc", "store", who, slot, delta] =>
    -- read-modify-write: vm.store(who, slot, vm.load(who, slot) + delta), Spec and Model each from their own read
    match hexVal? who, hexVal? slot, hexVal? delta with
    | some who, some slot, some delta =>
      let cS : StateCheat := .store who slot (Spec.Foundry.load s.w who slot + delta)
      let cM : StateCheat := .store who slot (hevmLoad s.n who slot + delta)
      let s1 := { s with w := applyWorld s.w cS, p := applyParams s.p cS }
      match hevmState s.n cM with
      | .ok n' _ => ({ s1 with n := n' }, "ok")
      | .halmosError => (s1, "error")
    | _, _, _ => (s, "bad-op")
  | ["cheatinc", "deal", who, delta] =>
    match hexVal? who, hexVal? delta with
    | some who, some delta =>
      let cS : StateCheat := .deal who (s.w.balanceOf (addrMask who) + delta)
      let cM : StateCheat := .deal who (s.n.balance (uint160 who) + delta)
      let s1 := { s with w := applyWorld s.w cS, p := applyParams s.p cS }
      match hevmState s.n cM with
      | .ok n' _ => ({ s1 with n := n' }, "ok")
      | .halmosError => (s1, "error")
    | _, _ => (s, "bad-op")
  | "cheat" :: rest =>
    match parseCheat? rest with
    | none => (s, "bad-op")
    | some c =>
      let s1 := { s with w := applyWorld s.w c, p := applyParams s.p c }
      match hevmState s.n c with
      | .ok n' _ => ({ s1 with n := n' }, "ok")
      | .halmosError => (s1, "error")
  | ["sexec", sender, to, value, data, fuel] =>
    match hexVal? sender, hexVal? to, hexVal? value, hexBytes? data, hexVal? fuel with
    | some sender, some to, some value, some data, some fuel =>
      let f : Frame := { this := to, caller := sender, value := value, calldata := data,
                         code := (s.w.codeOf to).getD [], codeAddr := to }
      match exec s.p fuel s.w f with
      | none => (s, "halt=outOfFuel")
      | some (_, h) => (s, s!"halt={haltName h} data={bytesHex h.data}")
    | _, _, _, _, _ => (s, "bad-op")
  | ["mreads", t, u, slot] =>
    match hexVal? t, hexVal? u, hexVal? slot with
    | some t, some u, some slot =>
      let n := s.n
      let cs (a : Nat) := ((n.code a).getD []).length
      let vals := [n.balance t, n.balance u, n.sload t slot, n.sload u slot, cs t, cs u, n.block.timestamp, n.block.number,
                   n.block.basefee, n.block.chainid, n.block.coinbase, n.block.difficulty]
      (s, ",".intercalate (vals.map toHex))
    | _, _, _ => (s, "bad-op")
  | ["loads", who, slot] =>
    match hexVal? who, hexVal? slot with
    | some who, some slot => (s, s!"M={toHex (hevmLoad s.n who slot)} S={toHex (Spec.Foundry.load s.w who slot)}")
    | _, _ => (s, "bad-op")
  | _ => (s, "bad-op")

def handle (s : St) (line : String) : St × String :=
  match line.trimAscii.toString.splitOn " " with
  | "hist" :: toks => (s, doHist (toks.filter (· ≠ "")))
  | ["create", enc, cnt, mode, name, uid, v] => (s, doCreate enc cnt mode name uid v)
  | toks => handleState s toks

partial def loop (h : IO.FS.Stream) (s : St) : IO Unit := do
  let line ← h.getLine
  if line.isEmpty then return ()
  let (s', out) := handle s line
  IO.println out
  loop h s'

def main : IO Unit := do loop (← IO.getStdin) {}
