/-
Driver.Query — line protocol for C11 (one reply per request line). Text payloads are hex of latin-1 bytes.

  refine <hex>                         -> <hex>          refineText
  dump <0|1> <id,id,…|-> <hex>         -> <hex>          dumpText cache ids smtlib
  covered <name> <w,w,…|-> <res>       -> 0|1
  printdecl <name> <w,w,…|-> <res>     -> <hex>          printCmd (declareFun …)
  printref <name> <w,w,…|-> <res>      -> <hex>          printCmd (refineCmd (declareFun …))
  defval <name> <w> <x> <y>            -> some <dec> | none     value of the definition refine writes for `name` at width w
                                                                 (bodyEval of the rule body), none when not refined
  evmop <bvmul|bvudiv|…> <w> <x> <y>   -> <dec>          evmOp (the exact EVM operation)
-/
import HalmosVerif.Model.Query
open HalmosVerif.Model HalmosVerif.Model.Rx HalmosVerif.Model.Query HalmosVerif.Gen.SolveTables

def hexDigit? (c : Char) : Option Nat :=
  if '0' ≤ c ∧ c ≤ '9' then some (c.toNat - '0'.toNat)
  else if 'a' ≤ c ∧ c ≤ 'f' then some (c.toNat - 'a'.toNat + 10)
  else none

def unhex : List Char → Option (List Char)
  | [] => some []
  | [_] => none
  | a :: b :: rest => do
    let x ← hexDigit? a
    let y ← hexDigit? b
    let r ← unhex rest
    pure (Char.ofNat (x * 16 + y) :: r)

def hexOf (s : List Char) : String :=
  if s.isEmpty then "-" else
  String.ofList (s.foldr (fun c acc => Nat.digitChar (c.toNat / 16 % 16) :: Nat.digitChar (c.toNat % 16) :: acc) [])

def payload (s : String) : Option (List Char) := if s = "-" then some [] else unhex s.toList

def natList? (s : String) : Option (List Nat) :=
  if s = "-" then some [] else (s.splitOn ",").mapM String.toNat?

def handle (line : String) : String :=
  match (line.trimAscii.toString.splitOn " ").filter (· ≠ "") with
  | ["refine", h] =>
    match payload h with
    | some s => hexOf (refineText s)
    | none => "bad-op"
  | ["dump", c, ids, h] =>
    match payload h with
    | some s =>
      let idl := if ids = "-" then [] else ids.splitOn ","
      hexOf (dumpText (c = "1") idl s)
    | none => "bad-op"
  | ["covered", name, args, res] =>
    match natList? args, res.toNat? with
    | some a, some r => if covered (name, a, r) then "1" else "0"
    | _, _ => "bad-op"
  | ["printdecl", name, args, res] =>
    match natList? args, res.toNat? with
    | some a, some r => hexOf (printCmd (.declareFun name a r))
    | _, _ => "bad-op"
  | ["printref", name, args, res] =>
    match natList? args, res.toNat? with
    | some a, some r => hexOf (printCmd (refineCmd (.declareFun name a r)))
    | _, _ => "bad-op"
  | ["defval", name, w, x, y] =>
    match w.toNat?, x.toNat?, y.toNat? with
    | some w, some x, some y =>
      match refineCmd (.declareFun name [w, w] w) with
      | .defineFun _ w' op body => s!"some {bodyEval op w' x y body}"
      | _ => "none"
    | _, _, _ => "bad-op"
  | ["evmop", op, w, x, y] =>
    match smtOp op.toList, w.toNat?, x.toNat?, y.toNat? with
    | some bop, some w, some x, some y => toString (evmOp bop w x y)
    | _, _, _, _ => "bad-op"
  | _ => "bad-op"

partial def loop (h : IO.FS.Stream) : IO Unit := do
  let line ← h.getLine
  if line.isEmpty then return ()
  IO.println (handle line)
  loop h

def main : IO Unit := do loop (← IO.getStdin)
