/-
Driver.Sevm — runs the Model.Sevm exploration core on a program (one reply per request line).

  run <codehex> <nargs> <loop> <depth> <fuel> <oracle>
      nargs  : number of symbolic 32-byte calldata words a0.. after a 4-byte concrete selector 12345678
      oracle : unknown | sat      (what the solver behind Path.check answers to every query; both are OracleSound)
   -> ends=<kind@pc,…|-> bounded=<n> depthcut=<0|1> fuelout=<0|1>
  eval <codehex> <nargs> <loop> <depth> <fuel> <oracle> <a0,a1,…> <caller> <origin> <value>     (hex values)
   -> sat=<kind@pc:datahex,…|->   the end states whose path the inputs satisfy, with their data evaluated
  steps <codehex> <nargs> <loop> <fuel> <oracle>
   -> steps=<n>   iterations of the worklist loop of the whole run without a --depth limit (0: fuel exhausted)
      kind: success revert invalidOpcode invalidJump stackUnderflow … | stuck:<reason> ; a trailing `!` marks the
      tagged (knowingly unfaithful) jumpi-invalid-destination site
-/
import HalmosVerif.Model.Sevm
import HalmosVerif.Model.SimpFold
open HalmosVerif.Model HalmosVerif.Model.Sevm HalmosVerif.Spec

def hexVal? (s : String) : Option Nat :=
  if s.isEmpty then none else
  s.foldl (fun acc c =>
    acc.bind fun n =>
      if '0' ≤ c ∧ c ≤ '9' then some (n * 16 + (c.toNat - '0'.toNat))
      else if 'a' ≤ c ∧ c ≤ 'f' then some (n * 16 + (c.toNat - 'a'.toNat + 10))
      else if 'A' ≤ c ∧ c ≤ 'F' then some (n * 16 + (c.toNat - 'A'.toNat + 10))
      else none) (some 0)

def hexBytes? (s : String) : Option (List Nat) :=
  if s = "-" then some [] else
  let cs := s.toList
  if cs.length % 2 ≠ 0 then none else
  let rec go : List Char → Option (List Nat)
    | a :: b :: rest => do
      let v ← hexVal? (String.ofList [a, b])
      let r ← go rest
      pure (v :: r)
    | [] => some []
    | _ => none
  go cs

/-- byte `i` of the calldata `12345678 ++ a0 ++ a1 ++ …` as an 8-bit term -/
def cdByte (nargs i : Nat) : T :=
  if i < 4 then .lit 8 ([0x12, 0x34, 0x56, 0x78].getD i 0)
  else
    let j := (i - 4) / 32
    let k := (i - 4) % 32
    if j < nargs then .extract (8 * (31 - k) + 7) (8 * (31 - k)) (.var s!"a{j}" 256)
    else .lit 8 0

/-- the 32-byte word at `off`: the argument variable itself when aligned, otherwise a concatenation of bytes -/
def cdWord (nargs off : Nat) : T :=
  if off ≥ 4 ∧ (off - 4) % 32 = 0 ∧ (off - 4) / 32 < nargs then .var s!"a{(off - 4) / 32}" 256
  else
    let bytes := (List.range 32).map fun i => cdByte nargs (off + i)
    match bytes with
    | [] => .lit 256 0
    | b :: rest => rest.foldl (fun acc x => .concat acc x) b

def mkEnv (nargs : Nat) : Env where
  caller := .var "msg_sender" 160
  origin := .var "tx_origin" 160
  callvalue := .var "msg_value" 256
  address := .lit 160 0x1000
  cd := cdWord nargs
  cdByte := cdByte nargs
  cdSize := 4 + 32 * nargs

/-- the driver's stand-in for z3's `simplify`: constant folding of closed terms plus elimination of a double negation
    at the top (`simplify(Not(Not(c))) = c`, which `jumpi`'s `cond_false = simplify(Not(cond_true))` relies on when the
    same condition is met again on a path) -/
def drvSimp : Simp where
  t := foldSimp.t
  b := fun b =>
    match foldSimp.b b with
    | .not (.not c) => c
    | c => c

def haltName : Evm.Halt → String
  | .success _ => "success" | .revert _ => "revert" | .invalidOpcode => "invalidOpcode"
  | .invalidJump => "invalidJump" | .stackUnderflow => "stackUnderflow" | .stackOverflow => "stackOverflow"
  | .outOfGas => "outOfGas" | .outOfBoundsRead => "outOfBoundsRead" | .writeInStatic => "writeInStatic"
  | .depthLimit => "depthLimit" | .unsupported op => s!"unsupported:{op}"

def outName (e : EndState) : String :=
  let k := match e.out with
    | .halt h => haltName h
    | .stuck .notConcrete => "stuck:notConcrete"
    | .stuck (.unsupported _) => "stuck:unsupported"
    | .stuck (.internal _) => "stuck:internal"
  let t := if e.tag = .jumpiInvalidSym then "!" else ""
  s!"{k}{t}@{e.st.pc}"

def handle (line : String) : String :=
  match line.trimAscii.toString.splitOn " " with
  | ["run", code, nargs, loop, depth, fuel, orc] =>
    match hexBytes? code, nargs.toNat?, loop.toNat?, depth.toNat?, fuel.toNat? with
    | some code, some nargs, some loop, some depth, some fuel =>
      let o : Oracle := fun _ _ => if orc = "sat" then .sat else .unknown
      let res := run drvSimp o { loop, depth } (mkEnv nargs) code fuel
      let ends := (res.ends.map outName).toArray.qsort (· < ·) |>.toList
      let e := if ends.isEmpty then "-" else ",".intercalate ends
      s!"ends={e} bounded={res.boundedLoops.length} depthcut={if res.depthCut then 1 else 0} fuelout={if res.outOfFuel then 1 else 0}"
    | _, _, _, _, _ => "bad-op"
  | ["eval", code, nargs, loop, depth, fuel, orc, argv, caller, origin, value] =>
    -- the end states whose path the given inputs satisfy, each with its return / revert data evaluated
    match hexBytes? code, nargs.toNat?, loop.toNat?, depth.toNat?, fuel.toNat?,
          (argv.splitOn ",").mapM hexVal?, hexVal? caller, hexVal? origin, hexVal? value with
    | some code, some nargs, some loop, some depth, some fuel, some args, some caller, some origin, some value =>
      let o : Oracle := fun _ _ => if orc = "sat" then .sat else .unknown
      let res := run drvSimp o { loop, depth } (mkEnv nargs) code fuel
      let bvVal (x : String) (_ : Nat) : Nat :=
        if x = "msg_sender" then caller else if x = "tx_origin" then origin else if x = "msg_value" then value
        else if x.startsWith "a" then args.getD ((x.drop 1).toNat?.getD 0) 0 else 0
      let I := Interp.std bvVal (fun _ => false) (fun _ _ _ _ => 0) (fun _ _ _ => 0)
      let hex2 (n : Nat) : String :=
        let d (k : Nat) : Char := if k < 10 then Char.ofNat (48 + k) else Char.ofNat (87 + k)
        String.ofList [d (n / 16 % 16), d (n % 16)]
      let sat := res.ends.filter fun e => e.st.path.all fun c => c.eval I
      let names := (sat.map fun e => s!"{outName e}:{String.join (e.data.map fun b => hex2 (b.eval I))}").toArray.qsort (· < ·) |>.toList
      s!"sat={if names.isEmpty then "-" else ",".intercalate names}"
    | _, _, _, _, _, _, _, _, _ => "bad-op"
  | ["steps", code, nargs, loop, fuel, orc] =>
    -- the number of iterations of the worklist loop of the whole run (0 when the fuel does not suffice): the least
    -- `--depth` under which nothing is cut, found by doubling and bisection
    match hexBytes? code, nargs.toNat?, loop.toNat?, fuel.toNat? with
    | some code, some nargs, some loop, some fuel =>
      let o : Oracle := fun _ _ => if orc = "sat" then .sat else .unknown
      let res0 := run drvSimp o { loop, depth := 0 } (mkEnv nargs) code fuel
      if res0.outOfFuel then "steps=0" else
      let cut (d : Nat) : Bool := (run drvSimp o { loop, depth := d } (mkEnv nargs) code fuel).depthCut
      let rec up (d : Nat) : Nat → Nat
        | 0 => d
        | k + 1 => if cut d then up (2 * d) k else d
      let hi := up 1 40
      let rec bs (lo hi : Nat) : Nat → Nat
        | 0 => hi
        | k + 1 => if lo + 1 ≥ hi then hi else
            let m := (lo + hi) / 2
            if cut m then bs m hi k else bs lo m k
      s!"steps={bs (hi / 2) hi 64}"
    | _, _, _, _ => "bad-op"
  | _ => "bad-op"

partial def loop (h : IO.FS.Stream) : IO Unit := do
  let line ← h.getLine
  if line.isEmpty then return ()
  IO.println (handle line)
  loop h

def main : IO Unit := do loop (← IO.getStdin)
