/-
Driver.Sevm — runs the Model.Sevm exploration core on a program (one reply per request line).

  run <codehex> <nargs> <loop> <depth> <fuel> <oracle>
      nargs  : number of symbolic 32-byte calldata words a0.. after a 4-byte concrete selector 12345678
      oracle : unknown | sat      (what the solver behind Path.check answers to every query; both are OracleSound);
               a trailing `+static` runs the frame with is_static set; `+tx2`: two transactions, see `runReq`
   -> ends=<kind@pc,…|-> bounded=<n> depthcut=<0|1> fuelout=<0|1>
  eval <codehex> <nargs> <loop> <depth> <fuel> <oracle> <a0,a1,…> <caller> <origin> <value>     (hex values)
   -> sat=<kind@pc:datahex:storage,…|->   the end states whose path the inputs satisfy, with their data evaluated and
      their non-zero storage `<addr>.s<slot>=<value>;` / transient storage `<addr>.t<slot>=<value>;` (hex, by account
      and slot), followed by the world's log `L<addr>[<topic>,…]<datahex>;`, oldest first, and the non-zero balances
      `B<addr>=<value>;` of the accounts 0x1000, 0x2000, 0x3000, 0x4000, 5; an optional last argument
      `<addr>:<balance>,…` gives the initial balances (`balance_0`; default 0)
  code <addrhex> <codehex>  -> ok     registers the code of another account (message-call targets) for what follows
  nocode                    -> ok     forgets them
  (the program under test runs at address 0x1000; calls follow Model.SevmCalls)
  steps <codehex> <nargs> <loop> <fuel> <oracle>
   -> steps=<n>   iterations of the worklist loop of the whole run without a --depth limit (0: fuel exhausted)
      kind: success revert invalidOpcode invalidJump stackUnderflow … | stuck:<reason> ; a trailing `!` marks the
      tagged (knowingly unfaithful) jumpi-invalid-destination site
-/
import HalmosVerif.Model.SevmCalls
import HalmosVerif.Model.SimpFold
open HalmosVerif.Model HalmosVerif.Model.Sevm HalmosVerif.Spec

def hexVal? (s : String) : Option Nat :=
  if s.isEmpty then none else
  s.foldl (fun acc c =>
    acc.bind fun n =>
      if '0' ≤ c ∧ c ≤ '9' then some (n * 16 + (c.toNat - '0'.toNat))
      else if 'a' ≤ c ∧ c ≤ 'f' then some (n * 16 + (c.toNat - 'a'.toNat + 10))
      else if 'A' ≤ c ∧ c ≤ 'F' then some (n * 16 + (c.toNat - 'A'.toNat + 10))
      else none) (some 0)

def hexBytes? (s : String) : Option (List Nat) :=
  if s = "-" then some [] else
  let cs := s.toList
  if cs.length % 2 ≠ 0 then none else
  let rec go : List Char → Option (List Nat)
    | a :: b :: rest => do
      let v ← hexVal? (String.ofList [a, b])
      let r ← go rest
      pure (v :: r)
    | [] => some []
    | _ => none
  go cs

/-- byte `i` of the calldata `12345678 ++ a0 ++ a1 ++ …` as an 8-bit term -/
def cdByte (nargs i : Nat) : T :=
  if i < 4 then .lit 8 ([0x12, 0x34, 0x56, 0x78].getD i 0)
  else
    let j := (i - 4) / 32
    let k := (i - 4) % 32
    if j < nargs then .extract (8 * (31 - k) + 7) (8 * (31 - k)) (.var s!"a{j}" 256)
    else .lit 8 0

/-- the 32-byte word at `off`: the argument variable itself when aligned, otherwise a concatenation of bytes -/
def cdWord (nargs off : Nat) : T :=
  if off ≥ 4 ∧ (off - 4) % 32 = 0 ∧ (off - 4) / 32 < nargs then .var s!"a{(off - 4) / 32}" 256
  else
    let bytes := (List.range 32).map fun i => cdByte nargs (off + i)
    match bytes with
    | [] => .lit 256 0
    | b :: rest => rest.foldl (fun acc x => .concat acc x) b

def mkEnv (nargs : Nat) (isStatic : Bool := false) : Env where
  caller := .var "msg_sender" 160
  origin := .var "tx_origin" 160
  callvalue := .var "msg_value" 256
  address := .lit 160 0x1000
  cd := cdWord nargs
  cdByte := cdByte nargs
  cdSize := 4 + 32 * nargs
  isStatic := isStatic

/-- the big-endian bytes of one 256-bit term, as `concatBytes` of 32 `extract`s lays them out:
    `concat(…concat(extract(255,248,t), extract(247,240,t))…, extract(7,0,t))` — z3 rewrites it back to `t` -/
def collapseBytes (x : T) : T :=
  let rec go : T → Nat → Option T      -- the term read as bytes k, k-1, …, 0 (from the top) of some `t`
    | .extract hi lo t, k => if hi = 8 * k + 7 ∧ lo = 8 * k then some t else none
    | .concat a (.extract hi lo t), k =>
      if hi = 8 * k + 7 ∧ lo = 8 * k then
        match go a (k + 1) with
        | some t' => if t' == t then some t else none
        | none => none
      else none
    | _, _ => none
  match x with
  | .concat a b =>
    match go (.concat a b) 0 with
    | some t => if t.width = 256 ∧ x.width = 256 then t else x
    | none => x
  | _ => x

/-- z3's normal form of the unsigned comparisons: everything in terms of `ULE` (`ULT(a, b)` is `Not(ULE(b, a))`,
    `UGE(a, b)` is `ULE(b, a)`), so that a condition and the negation of its complement are the same term -/
def canonCmp : B → B
  | .cmp .ult a b => .not (.cmp .ule b a)
  | .cmp .uge a b => .cmp .ule b a
  | .cmp .ugt a b => .not (.cmp .ule a b)
  | .not (.cmp .ult a b) => .cmp .ule b a
  | .not (.cmp .uge a b) => .not (.cmp .ule b a)
  | .not (.cmp .ugt a b) => .cmp .ule a b
  | c => c

/-- the driver's stand-in for z3's `simplify`: constant folding of closed terms plus elimination of a double negation
    at the top (`simplify(Not(Not(c))) = c`, which `jumpi`'s `cond_false = simplify(Not(cond_true))` relies on when the
    same condition is met again on a path), and the re-assembly of a word from its 32 bytes -/
def drvSimp : Simp where
  t := fun t => collapseBytes (foldSimp.t t)
  b := fun b =>
    match canonCmp (foldSimp.b b) with
    | .not (.not c) => canonCmp c
    | c => c

def haltName : Evm.Halt → String
  | .success _ => "success" | .revert _ => "revert" | .invalidOpcode => "invalidOpcode"
  | .invalidJump => "invalidJump" | .stackUnderflow => "stackUnderflow" | .stackOverflow => "stackOverflow"
  | .outOfGas => "outOfGas" | .outOfBoundsRead => "outOfBoundsRead" | .writeInStatic => "writeInStatic"
  | .depthLimit => "depthLimit" | .unsupported op => s!"unsupported:{op}"

def outName (e : EndState) : String :=
  let k := match e.out with
    | .halt h => haltName h
    | .stuck .notConcrete => "stuck:notConcrete"
    | .stuck (.unsupported _) => "stuck:unsupported"
    | .stuck (.internal _) => "stuck:internal"
  let t := if e.tag = .jumpiInvalidSym then "!" else ""
  s!"{k}{t}@{e.st.pc}"

def MAIN : Nat := 0x1000

/-- an end without error (what `setup()` keeps of setUp): untagged success -/
def okEndD (ce : CEnd) : Bool :=
  ce.e.tag == .normal && (match ce.e.out with | .halt (.success _) => true | _ => false)

/-- the run of a request. Plain: `runC` of the message with `nargs` symbolic words. With `+tx2` in the oracle field: the
    same code first runs the message with NO argument words (the "setUp" transaction); if exactly one of its ends is
    without error, the message with `nargs` words runs from it (`nextTx`, `runCFrom`: `SEVM.run_message`) and the reply
    describes that second run (its log entries only); otherwise the reply is `setup:<number of such ends>` -/
def runReq (o : Oracle) (cfg : Cfg) (nargs : Nat) (static two : Bool) (codes : List (Nat × List Nat)) (fuel : Nat) :
    Except String (ResultC × Nat) :=
  if two then
    let res1 := runC drvSimp o cfg (mkEnv 0 false) codes MAIN fuel
    match res1.ends.filter okEndD with
    | [ce1] => .ok (runCFrom drvSimp o cfg codes fuel (nextTx codes (mkEnv nargs static) MAIN ce1), ce1.logs.length)
    | l => .error s!"setup:{l.length}"
  else .ok (runC drvSimp o cfg (mkEnv nargs static) codes MAIN fuel, 0)

def hasTx2 (orc : String) : Bool := (orc.splitOn "+").contains "tx2"
def hasStatic (orc : String) : Bool := (orc.splitOn "+").contains "static"

def handle (codes : List (Nat × List Nat)) (line : String) : String :=
  match line.trimAscii.toString.splitOn " " with
  | ["run", code, nargs, loop, depth, fuel, orc] =>
    match hexBytes? code, nargs.toNat?, loop.toNat?, depth.toNat?, fuel.toNat? with
    | some code, some nargs, some loop, some depth, some fuel =>
      let o : Oracle := fun _ _ => if orc.startsWith "sat" then .sat else .unknown
      let static := hasStatic orc
      match runReq o { loop, depth, balances := true, sha3 := true, create := true, hsto := true } nargs static (hasTx2 orc) ((MAIN, code) :: codes) fuel with
      | .error msg => msg
      | .ok (res, _) =>
      let ends := (res.ends.map fun e => outName e.e).toArray.qsort (· < ·) |>.toList
      let e := if ends.isEmpty then "-" else ",".intercalate ends
      s!"ends={e} bounded={res.boundedLoops.length} depthcut={if res.depthCut then 1 else 0} fuelout={if res.outOfFuel then 1 else 0}"
    | _, _, _, _, _ => "bad-op"
  | "eval" :: code :: nargs :: loop :: depth :: fuel :: orc :: argv :: caller :: origin :: value :: balArg =>
    -- the end states whose path the given inputs satisfy, each with its return / revert data evaluated
    let balPairs : List (Nat × Nat) := match balArg with
      | [b] => (b.splitOn ",").filterMap fun kv =>
          match kv.splitOn ":" with
          | [a, v] => (hexVal? a).bind fun a => (hexVal? v).map fun v => (a, v)
          | _ => none
      | _ => []
    match hexBytes? code, nargs.toNat?, loop.toNat?, depth.toNat?, fuel.toNat?,
          (argv.splitOn ",").mapM hexVal?, hexVal? caller, hexVal? origin, hexVal? value with
    | some code, some nargs, some loop, some depth, some fuel, some args, some caller, some origin, some value =>
      let o : Oracle := fun _ _ => if orc.startsWith "sat" then .sat else .unknown
      let static := hasStatic orc
      match runReq o { loop, depth, balances := true, sha3 := true, create := true, hsto := true } nargs static (hasTx2 orc) ((MAIN, code) :: codes) fuel with
      | .error msg => msg
      | .ok (res, nlog0) =>
      let bvVal (x : String) (_ : Nat) : Nat :=
        if x = "f_sha3_0" then Keccak.keccak256 [] else
        if x = "msg_sender" then caller else if x = "tx_origin" then origin else if x = "msg_value" then value
        else if x.startsWith "a" then args.getD ((x.drop 1).toNat?.getD 0) 0 else 0
      -- the initial balance array `balance_0` (absent accounts: 0); `balance_00` is the empty array
      -- `f_sha3_<bits>` is Keccak-256 of the `bits/8` bytes
      let uf1Val (name : String) (_ : Nat) (a : Nat) : Nat :=
        if name = "balance_0" then ((balPairs.find? fun kv => kv.1 == a).map (·.2)).getD 0
        else if name.startsWith "storage_" then 0        -- the empty storage arrays
        else if name.startsWith "f_sha3_" then
          Keccak.keccak256 (Evm.natToBytes (((name.drop 7).toNat?.getD 0) / 8) a)
        else 0
      let I := Interp.std bvVal (fun _ => false) (fun _ _ _ _ => 0) uf1Val
      let hex2 (n : Nat) : String :=
        let d (k : Nat) : Char := if k < 10 then Char.ofNat (48 + k) else Char.ofNat (87 + k)
        String.ofList [d (n / 16 % 16), d (n % 16)]
      -- the injectivity witnesses `f_inv_sha3_*` are assumed to exist (as the harness' evaluator does)
      let isInv (c : B) : Bool := match c with
        | .cmp .eq (.uf1 n _ _) _ => n.startsWith "f_inv_sha3"
        | _ => false
      let sat := res.ends.filter fun e => e.e.st.path.all fun c => isInv c || c.eval I
      -- storage maps evaluated: per account (by address), the newest binding of each slot, zero values dropped
      let hexN (n : Nat) : String := String.ofList (Nat.toDigits 16 n)
      let stoStr (pre : String) (σ : List (Nat × T)) : String :=
        let slots := (σ.map (·.1)).eraseDups.toArray.qsort (· < ·) |>.toList
        String.join ((slots.filterMap fun k =>
          let v := (stoGet σ k).eval I
          if v = 0 then none else some s!"{pre}{hexN k}={hexN v};"))
      let allSto (ss : Stores) : String :=
        let addrs := (ss.map (·.1)).eraseDups.toArray.qsort (· < ·) |>.toList
        String.join (addrs.map fun a =>
          stoStr s!"{hexN a}.s" (stoOf ss a).storage ++ stoStr s!"{hexN a}.t" (stoOf ss a).transient)
      -- the world's log, oldest first: `L<addr>[<topic>,…]<data hex>;`
      let logStr (lg : List LogT) : String :=
        String.join (lg.map fun l =>
          s!"L{hexN (l.addr.eval I)}[{",".intercalate (l.topics.map fun t => hexN (t.denote I))}]" ++
            String.join (l.data.map fun b => hex2 (b.eval I)) ++ ";")
      -- the balances of the accounts of the scenario, `B<addr>=<value>;` (zero values dropped)
      let balAt (chain : List (T × T)) (a : Nat) : Nat :=
        match chain.find? fun kv => kv.1.eval I == a with
        | some kv => kv.2.eval I
        | none => uf1Val "balance_0" 256 a
      let balStr (chain : List (T × T)) : String :=
        String.join (([MAIN, 0x2000, 0x3000, 0x4000, 5, 0xaaaa0002, 0xaaaa0003, 0xaaaa0004] : List Nat).filterMap fun (a : Nat) =>
          if balAt chain a == 0 then none else some s!"B{hexN a}={hexN (balAt chain a)};")
      -- the accounts created on the path, by address: `C<addr>=<code hex>;`
      let crStr (cr : List (Nat × List Nat)) : String :=
        let addrs := (cr.map (·.1)).eraseDups.toArray.qsort (· < ·) |>.toList
        String.join (addrs.map fun a => s!"C{hexN a}=" ++ String.join (((codeOf cr a).getD []).map hex2) ++ ";")
      let names := (sat.map fun e =>
        s!"{outName e.e}:{String.join (e.e.data.map fun b => hex2 (b.eval I))}:{allSto e.stores}{logStr (e.logs.drop nlog0)}{balStr e.bal}{crStr e.created}").toArray.qsort (· < ·) |>.toList
      s!"sat={if names.isEmpty then "-" else ",".intercalate names}"
    | _, _, _, _, _, _, _, _, _ => "bad-op"
  | ["steps", code, nargs, loop, fuel, orc] =>
    -- the number of iterations of the worklist loop of the whole run (0 when the fuel does not suffice): the least
    -- `--depth` under which nothing is cut, found by doubling and bisection
    match hexBytes? code, nargs.toNat?, loop.toNat?, fuel.toNat? with
    | some code, some nargs, some loop, some fuel =>
      let o : Oracle := fun _ _ => if orc.startsWith "sat" then .sat else .unknown
      let static := hasStatic orc
      let cs := (MAIN, code) :: codes
      let res0 := runC drvSimp o { loop, depth := 0, balances := true, sha3 := true, create := true, hsto := true } (mkEnv nargs static) cs MAIN fuel
      if res0.outOfFuel then "steps=0" else
      let cut (d : Nat) : Bool := (runC drvSimp o { loop, depth := d, balances := true, sha3 := true, create := true, hsto := true } (mkEnv nargs static) cs MAIN fuel).depthCut
      let rec up (d : Nat) : Nat → Nat
        | 0 => d
        | k + 1 => if cut d then up (2 * d) k else d
      let hi := up 1 40
      let rec bs (lo hi : Nat) : Nat → Nat
        | 0 => hi
        | k + 1 => if lo + 1 ≥ hi then hi else
            let m := (lo + hi) / 2
            if cut m then bs m hi k else bs lo m k
      s!"steps={bs (hi / 2) hi 64}"
    | _, _, _, _ => "bad-op"
  | _ => "bad-op"

/-- `code <addrhex> <codehex>` registers the code of another account for the following requests (reply `ok`);
    `nocode` forgets all registered codes -/
partial def loop (h : IO.FS.Stream) (codes : List (Nat × List Nat)) : IO Unit := do
  let line ← h.getLine
  if line.isEmpty then return ()
  match line.trimAscii.toString.splitOn " " with
  | ["code", addr, code] =>
    match hexVal? addr, hexBytes? code with
    | some a, some c => IO.println "ok"; loop h ((a, c) :: codes.filter (fun p => p.1 != a))
    | _, _ => IO.println "bad-op"; loop h codes
  | ["nocode"] => IO.println "ok"; loop h []
  | _ =>
    IO.println (handle codes line)
    loop h codes

def main : IO Unit := do loop (← IO.getStdin) []
