/-
Driver.Storage — line protocol for Model.Storage (C08), one reply per request line.

Terms (prefix notation, tokens separated by blanks; numbers hex without 0x except widths/arity/ids which are decimal):
    L <w> <v>           BitVecVal(v, w)
    S <w> <id>          symbol / opaque term number <id> of width w (value given in the env section)
    H <t>               f_sha3_<width t>(t)
    C <n> <t1> … <tn>   Concat
    A <n> <t1> … <tn>   bvadd
    X <hi> <lo> <t>     Extract
    Z <w> <t>           zero-extension to width w

Requests (sections separated by ` | `):
    decode <S|G> <current|fixed> | <reg> | <term> | <env>
        reg = `<hashvalue> <term>` pairs separated by `;` (the local KeccakRegistry in registration order; `-` if empty);
              `c:<value> <term>` = an entry of the path's concretization (used by int_of on the base slot only)
        env = `<id>=<value>` pairs separated by blanks (`-` if empty); the hash function is the real Keccak-256
        reply  S:  ok <slot> <w>:<v> <w>:<v> …      the decoded tuple evaluated under env (slot, then the keys)
               G:  ok <w>:<v>                       the decoded term: width and value
               err <valueError|symbolicSlot|fuel>
    hist <S|G> <current|fixed> <symbolic 0|1> | <reg> | <env> | <op>;<op>;…
        op = `s <term> <value>` (store) | `l <term>` (load)
        reply: the values of the loads under env, joined by `,` (`-` if none); a failing op ends the run: `err <kind> <index>`
        (select oracle = always `unknown`; initial storage: all zero — also for symbolic = 1, where the initial symbols are
         interpreted as 0)
    slotof | <term> | <env>        reply: the value of the term (the flat slot)
    anything else: bad-op
-/
import HalmosVerif.Model.Storage
import HalmosVerif.Spec.Keccak
import HalmosVerif.Gen.HashTables
open HalmosVerif.Model HalmosVerif.Model.Storage HalmosVerif.Spec

def hexDigit (c : Char) : Option Nat :=
  if '0' ≤ c ∧ c ≤ '9' then some (c.toNat - '0'.toNat)
  else if 'a' ≤ c ∧ c ≤ 'f' then some (c.toNat - 'a'.toNat + 10)
  else if 'A' ≤ c ∧ c ≤ 'F' then some (c.toNat - 'A'.toNat + 10)
  else none

def hexNat? (s : String) : Option Nat :=
  if s.isEmpty then none else s.toList.foldlM (fun acc c => (hexDigit c).map (acc * 16 + ·)) 0

def toHex (n : Nat) : String := String.ofList (Nat.toDigits 16 n)

def toks (s : String) : List String := (s.splitOn " ").filter (· ≠ "")

/-- parse one term from the token list -/
def parseTerm : Nat → List String → Option (LTerm × List String)
  | 0, _ => none
  | fuel + 1, ts =>
    match ts with
    | "L" :: w :: v :: rest => do
      let w ← w.toNat?
      let v ← hexNat? v
      pure (.lit w v, rest)
    | "S" :: w :: id :: rest => do
      let w ← w.toNat?
      let id ← id.toNat?
      pure (.sym w id, rest)
    | "H" :: rest => do
      let (t, rest) ← parseTerm fuel rest
      pure (.sha3 t, rest)
    | "C" :: n :: rest => do
      let n ← n.toNat?
      let (as, rest) ← parseMany fuel n rest
      pure (.concat as, rest)
    | "A" :: n :: rest => do
      let n ← n.toNat?
      let (as, rest) ← parseMany fuel n rest
      pure (.add as, rest)
    | "X" :: hi :: lo :: rest => do
      let hi ← hi.toNat?
      let lo ← lo.toNat?
      let (t, rest) ← parseTerm fuel rest
      pure (.extract hi lo t, rest)
    | "Z" :: w :: rest => do
      let w ← w.toNat?
      let (t, rest) ← parseTerm fuel rest
      pure (.zext w t, rest)
    | _ => none
where
  parseMany (fuel : Nat) : Nat → List String → Option (List LTerm × List String)
    | 0, ts => some ([], ts)
    | n + 1, ts => do
      let (t, rest) ← parseTerm fuel ts
      let (as, rest) ← parseMany fuel n rest
      pure (t :: as, rest)

def parseWhole (s : String) : Option LTerm :=
  match parseTerm 10000 (toks s) with
  | some (t, []) => some t
  | _ => none

/-- the precomputed registry: `mk_precomputed_keccak_registry` over the extracted tables -/
def precomputed : OffsetMap LTerm :=
  let m : OffsetMap LTerm := OffsetMap.empty HalmosVerif.Gen.HashTables.offsetBits
  let m := HalmosVerif.Gen.HashTables.keccak256_256.foldl (fun m e => insertRaw m e.1 (.sha3 (.lit 256 e.2))) m
  HalmosVerif.Gen.HashTables.keccak256_512.foldl (fun m e => insertRaw m e.1 (.sha3 (.lit 512 (e.2.1 * 2 ^ 256 + e.2.2)))) m
where
  /-- `__setitem__` without the (BEq-dependent) assertion: the first binding of a bucket stays -/
  insertRaw (m : OffsetMap LTerm) (key : Nat) (v : LTerm) : OffsetMap LTerm :=
    match m.find (key >>> m.bits) with
    | none => { m with entries := (key >>> m.bits, (v, key &&& m.mask)) :: m.entries }
    | some _ => m

/-- the local registry: the OffsetMap, and the list (term, hash value) — `sha3_data` also appends `term == hash` to the
path, which is what the concretization of `int_of` knows -/
def parseReg (s : String) : Option (OffsetMap LTerm × List (LTerm × Nat)) :=
  let s := s.trimAscii.toString
  if s = "-" then some (OffsetMap.empty HalmosVerif.Gen.HashTables.offsetBits, []) else
  (s.splitOn ";").foldlM (fun (m, l) e =>
    match toks e with
    | h :: rest =>
      -- `c:<value> <term>`: an entry of the path's concretization only (term == constant), not a registered hash
      if h.startsWith "c:" then
        match hexNat? (h.drop 2).toString, parseTerm 10000 rest with
        | some v, some (t, []) => some (m, (t, v) :: l)
        | _, _ => none
      else do
      let h ← hexNat? h
      match parseTerm 10000 rest with
      | some (t, []) => some (precomputed.insertRaw m h t, (t, h) :: l)
      | _ => none
    | [] => some (m, l)) (OffsetMap.empty HalmosVerif.Gen.HashTables.offsetBits, [])

def concOf (l : List (LTerm × Nat)) (t : LTerm) : Option Nat :=
  match l.find? (fun e => e.1 == t) with
  | some e => some e.2
  | none => none

def parseEnv (s : String) : Option (List (Nat × Nat)) :=
  let s := s.trimAscii.toString
  if s = "-" then some [] else
  (toks s).mapM fun e =>
    match e.splitOn "=" with
    | [i, v] => do
      let i ← i.toNat?
      let v ← hexNat? v
      pure (i, v)
    | _ => none

def mkEnv (vals : List (Nat × Nat)) : Env where
  sym := fun id => match vals.find? (·.1 == id) with
    | some e => e.2
    | none => 0
  H := fun bits v => Keccak.keccak256BE (bits / 8) v

def errName : Err → String
  | .valueError => "valueError" | .symbolicSlot => "symbolicSlot" | .fuel => "fuel"

def FUEL : Nat := 64

/-- variant = `current` | `fixed` (OffsetMap lookup), optionally followed by `+packed` (see `normalizeMSplit`) -/
def rlOf (variant : String) (loc : OffsetMap LTerm) : Option (Nat → Option LTerm) :=
  let v := (variant.splitOn "+").headD ""
  if v = "current" then some (reverseLookup false loc precomputed)
  else if v = "fixed" then some (reverseLookup true loc precomputed)
  else none

def normS (variant : String) : LTerm → LTerm :=
  if (variant.splitOn "+").contains "packed" then normalizeMSplit else normalizeM

/-- generic layout: `+gsplit` = /repo carries the repair that splits a fully concrete preimage `key ‖ base` and decodes the base -/
def normG (variant : String) : LTerm → LTerm :=
  if (variant.splitOn "+").contains "gsplit" then normalizeGSplit else normalizeM

def showKV (env : Env) (t : LTerm) : String := s!"{t.width}:{toHex (t.eval env)}"

def doDecode (layout variant reg term envs : String) : String :=
  match parseReg reg, parseWhole term, parseEnv envs with
  | some (loc, regl), some t, some vals =>
    match rlOf variant loc with
    | none => "bad-op"
    | some rl =>
      let env := mkEnv vals
      if layout = "S" then
        match keyStructure (concOf regl) (decodeS rl (normS variant) FUEL) t with
        | .error e => s!"err {errName e}"
        | .ok ((slot, _, _), keys) => " ".intercalate ("ok" :: toHex slot :: keys.map (showKV env))
      else if layout = "G" then
        match decodeG rl (normG variant) FUEL t with
        | .error e => s!"err {errName e}"
        | .ok d => s!"ok {showKV env d}"
      else "bad-op"
  | _, _, _ => "bad-op"

inductive Op where
  | store (t : LTerm) (v : Nat)
  | load (t : LTerm)

def parseOp (s : String) : Option Op :=
  match toks s with
  | "s" :: rest =>
    match parseTerm 10000 rest with
    | some (t, [v]) => (hexNat? v).map (Op.store t)
    | _ => none
  | "l" :: rest =>
    match parseTerm 10000 rest with
    | some (t, []) => some (.load t)
    | _ => none
  | _ => none

def runHist (generic : Bool) (nS nG : LTerm → LTerm) (rl : Nat → Option LTerm) (conc : LTerm → Option Nat) (env : Env) :
    SData Nat → List Op → Nat → List String → String
  | _, [], _, acc => if acc.isEmpty then "-" else ",".intercalate acc.reverse
  | s, op :: ops, i, acc =>
    let chk : LTerm → LTerm → Tri := fun _ _ => .unknown
    match op with
    | .store t v =>
      let r := if generic then storeG (decodeG rl nG FUEL) s t v else storeS conc (decodeS rl nS FUEL) s t v
      match r with
      | .error e => s!"err {errName e} {i}"
      | .ok s' => runHist generic nS nG rl conc env s' ops (i + 1) acc
    | .load t =>
      let r := if generic then loadG (decodeG rl nG FUEL) chk s t else loadS conc (decodeS rl nS FUEL) chk s t
      match r with
      | .error e => s!"err {errName e} {i}"
      | .ok (s', res) => runHist generic nS nG rl conc env s' ops (i + 1) (toHex (res.eval env (fun _ _ => 0) id) :: acc)

def doHist (layout variant symb reg envs ops : String) : String :=
  match parseReg reg, parseEnv envs, ((ops.splitOn ";").filter (fun o => o.trimAscii.toString ≠ "")).mapM parseOp with
  | some (loc, regl), some vals, some ops =>
    match rlOf variant loc with
    | none => "bad-op"
    | some rl =>
      if layout ≠ "S" ∧ layout ≠ "G" then "bad-op" else
      runHist (layout = "G") (normS variant) (normG variant) rl (concOf regl) (mkEnv vals) { symbolic := symb = "1", cells := [] } ops 0 []
  | _, _, _ => "bad-op"

def handle (line : String) : String :=
  let l := (line.dropEndWhile (fun c => c == '\n' || c == '\r')).toString
  match (l.splitOn " | ").map (·.trimAscii.toString) with
  | [hd, a, b, c] =>
    match toks hd with
    | ["decode", layout, variant] => doDecode layout variant a b c
    | ["hist", layout, variant, symb] => doHist layout variant symb a b c
    | _ => "bad-op"
  | [hd, term, envs] =>
    match toks hd, parseWhole term, parseEnv envs with
    | ["slotof"], some t, some vals => toHex (t.eval (mkEnv vals))
    | _, _, _ => "bad-op"
  | _ => "bad-op"

partial def loop (stdin stdout : IO.FS.Stream) : IO Unit := do
  let line ← stdin.getLine
  if line.isEmpty then return
  stdout.putStrLn (handle line)
  loop stdin stdout

def main : IO Unit := do
  let stdin ← IO.getStdin
  let stdout ← IO.getStdout
  loop stdin stdout
  stdout.flush
