/-
Driver.Verdict — line protocol over Model.Verdict / Spec.Verdict for tools/props/c05.py.

  fr <cache01> <rc> <core> <text>            -> <kind>[:<valid01>|:<core>]      SolverOutput.from_result on raw text
  sll <cache01> <proc>                       -> <res> | raise                     solve_low_level
  e2e <cache01> <hit01> <query>              -> <res> | raise                     solve_end_to_end
  gso <cache01> <shutdown01> <hit01> <query> -> <res>                             _get_solver_output
  setup <cache01> <procs `;`-separated>      -> ok | fail                          the solver filter over setUp() paths
  cls <obs>                                  -> potential|confirmStuck|normal|ignored
  chain <sat> <unsat> <unknown> <err> <stuck> <normal>  -> <code> <NAME>           the verdict if-chain on counts
  test <cfg> <paths> <sched>                 -> ok <code> <NAME> raised=. shutdown=. normal=. stuck=. pc=. outs=<kinds> ref=<NAME> sched=<events>
                                              | incomplete … | bad <why>
  same <witness name> <cfg> <paths>          -> ok true|false     (is this the scenario of the Lean `_cex` theorem?)
  exit <contracts>                           -> ok <exit>
  spec <outcomes>                            -> pass|fail|error|timeout
  specexit <tests>                           -> <exit>

  text   : code points in hex separated by `.`, or `-` for the empty string
  core   : naturals separated by `,`, or `-`
  proc   : T | R | E/<rc>/<core>/<text>
  query  : <asserts core>:<refinable01>:<killRaises01>:<proc first>:<proc second>
  obs    : four characters 0/1 = panicFound failSet isStuck errorOutput
  cfg    : two characters 0/1 = earlyExit cacheSolver
  paths  : `;`-separated  <obs>:<query>        (or `-` for none)
  sched  : `,`-separated tokens  M | M* | Mw<k> | Ms<k> | S<i> | F<i> | S* | F* | SF*     (or `-`)
           M = one main step, M* = main until done, Mw<k> = main until blocked in the stuck confirmation of path k,
           Ms<k> = main until just before `executor.submit` of the stuck confirmation of path k,
           S*/F* = start / finish everything pending (submission order), SF* = start+finish each pending query in turn
  contracts : `;`-separated <found>:<codes `,`-separated or `-`>
  outcomes  : `,`-separated s | r | v<c|u|t|f> | k<c|u|t|f>   (or `-`)
  tests     : string over p f e t n (n = never run), or `-`
-/
import HalmosVerif.Model.Verdict
import HalmosVerif.Model.VerdictWitness
import HalmosVerif.Spec.Verdict

open HalmosVerif.Model.Verdict
open HalmosVerif

def hexVal (c : Char) : Option Nat :=
  if '0' ≤ c ∧ c ≤ '9' then some (c.toNat - '0'.toNat)
  else if 'a' ≤ c ∧ c ≤ 'f' then some (c.toNat - 'a'.toNat + 10)
  else if 'A' ≤ c ∧ c ≤ 'F' then some (c.toNat - 'A'.toNat + 10)
  else none

def parseHex (s : String) : Option Nat :=
  if s.isEmpty then none else s.toList.foldlM (fun acc c => do pure (acc * 16 + (← hexVal c))) 0

def parseText (s : String) : Option (List Char) :=
  if s = "-" then some [] else (s.splitOn ".").mapM (fun h => (parseHex h).map Char.ofNat)

def parseCore (s : String) : Option (List Nat) :=
  if s = "-" then some [] else (s.splitOn ",").mapM String.toNat?

def parseB (s : String) : Option Bool := if s = "1" then some true else if s = "0" then some false else none
def parseBc (c : Char) : Option Bool := if c = '1' then some true else if c = '0' then some false else none

def parseInt (s : String) : Option Int :=
  if s.startsWith "-" then (s.drop 1).toString.toNat?.map (fun n => - (n : Int)) else s.toNat?.map (fun n => (n : Int))

def parseProc (s : String) : Option Proc :=
  if s = "T" then some .timedOut
  else if s = "R" then some .raised
  else match s.splitOn "/" with
    | ["E", rc, core, text] => do pure (.exited (← parseText text) (← parseInt rc) (← parseCore core))
    | _ => none

def parseQueryFields : List String → Option Query
  | [a, r, k, p1, p2] => do
    pure { asserts := ← parseCore a, refinable := ← parseB r, killRaises := ← parseB k, first := ← parseProc p1, second := ← parseProc p2 }
  | _ => none

def parseObs (s : String) : Option PathObs :=
  match s.toList with
  | [a, b, c, d] => do pure ⟨← parseBc a, ← parseBc b, ← parseBc c, ← parseBc d⟩
  | _ => none

def parsePath (s : String) : Option Path :=
  match s.splitOn ":" with
  | o :: rest => do pure { obs := ← parseObs o, q := ← parseQueryFields rest }
  | _ => none

def parsePaths (s : String) : Option (List Path) :=
  if s = "-" then some [] else (s.splitOn ";").mapM parsePath

def parseCfg (s : String) : Option Cfg :=
  match s.toList with
  | [a, b] => do pure ⟨← parseBc a, ← parseBc b⟩
  | _ => none

def showCore (c : List Nat) : String := if c.isEmpty then "-" else ",".intercalate (c.map toString)

def showRes : Res → String
  | .sat v => s!"sat:{if v then 1 else 0}"
  | .unsat c => s!"unsat:{showCore c}"
  | .unknown => "unknown"
  | .err => "err"

def showEv : Ev → String
  | .main => "M" | .start i => s!"S{i}" | .finish i => s!"F{i}"

/-! schedule macros: expanded against the model's own `step` -/

def pendingStart (st : St) : List Nat := st.submitted.filter (fun i => !(st.started.any (fun p => p.1 == i)))
def pendingFinish (st : St) : List Nat :=
  (st.started.reverse.map (·.1)).filter (fun i => !st.finished.contains i)

/-- apply explicit events; `none` when one is disabled -/
def applyEvs (sc : Scenario) (st : St) (acc : List Ev) : List Ev → Option (St × List Ev)
  | [] => some (st, acc)
  | e :: es => match step sc st e with
    | some st' => applyEvs sc st' (acc ++ [e]) es
    | none => none

def mainWhile (sc : Scenario) (stop : St → Bool) : Nat → St → List Ev → St × List Ev
  | 0, st, acc => (st, acc)
  | fuel + 1, st, acc =>
    if st.mainDone || stop st then (st, acc)
    else match step sc st .main with
      | some st' => mainWhile sc stop fuel st' (acc ++ [.main])
      | none => (st, acc)

def expandToken (sc : Scenario) (st : St) (acc : List Ev) (tok : String) : Option (St × List Ev) :=
  let fuel := 4 * sc.paths.length + 8
  if tok = "M" then applyEvs sc st acc [.main]
  else if tok = "M*" then some (mainWhile sc (fun _ => false) fuel st acc)
  else if tok = "S*" then
    if st.raised then some (st, acc) else applyEvs sc st acc ((pendingStart st).map .start)
  else if tok = "F*" then
    -- finishing may be refused after an escape (`raised`): then nothing is pending
    if st.raised then some (st, acc) else applyEvs sc st acc ((pendingFinish st).map .finish)
  else if tok = "SF*" then
    if st.raised then some (st, acc)
    else applyEvs sc st acc ((pendingFinish st).map .finish ++ (pendingStart st).flatMap (fun i => [.start i, .finish i]))
  else if tok.startsWith "Ms" then do
    let k ← (tok.drop 2).toString.toNat?
    some (mainWhile sc (fun s => s.phase == .sub && s.pc == k) fuel st acc)
  else if tok.startsWith "Mw" then do
    let k ← (tok.drop 2).toString.toNat?
    some (mainWhile sc (fun s => s.phase == .wait && s.pc == k) fuel st acc)
  else if tok.startsWith "S" then do
    let i ← (tok.drop 1).toString.toNat?
    if st.raised then some (st, acc) else applyEvs sc st acc [.start i]
  else if tok.startsWith "F" then do
    let i ← (tok.drop 1).toString.toNat?
    if st.raised then some (st, acc) else applyEvs sc st acc [.finish i]
  else none

def expandSched (sc : Scenario) (toks : List String) : Option (St × List Ev) :=
  toks.foldlM (fun (p : St × List Ev) tok => expandToken sc p.1 p.2 tok) (St.init, [])

def handleTest (cfgS pathsS schedS : String) : String :=
  match parseCfg cfgS, parsePaths pathsS with
  | some cfg, some paths =>
    let sc : Scenario := ⟨cfg, paths⟩
    let toks := if schedS = "-" then [] else schedS.splitOn ","
    match expandSched sc toks with
    | none => "bad schedule-event-disabled"
    | some (_, evs) =>
      -- the verdict is recomputed by the model from the expanded schedule alone
      match run sc St.init evs with
      | none => "bad replay"
      | some st =>
        let b (x : Bool) := if x then "1" else "0"
        let tail := s!"raised={b st.raised} shutdown={b st.shutdown} normal={st.normal} stuck={st.stuck} pc={st.pc} " ++
          s!"outs={",".intercalate (st.outputs.reverse.map (fun r => r.kind.name))} ref={(refVerdict sc).name} " ++
          s!"sched={",".intercalate (evs.map showEv)}"
        match verdictOfSchedule sc evs with
        | some v => s!"ok {v.code} {v.name} {tail}"
        | none => s!"incomplete {tail}"
  | _, _ => "bad parse"

def parseContract (s : String) : Option ContractRun :=
  match s.splitOn ":" with
  | [f, rs] => do
    let found ← f.toNat?
    let codes ← if rs = "-" then some [] else (rs.splitOn ",").mapM String.toNat?
    let res ← codes.mapM (fun c => Exitcode.all.find? (fun e => e.code == c))
    pure ⟨found, res⟩
  | _ => none

def parseAnswer : Char → Option Spec.Verdict.Answer
  | 'c' => some .cex | 'u' => some .unsat | 't' => some .timeout | 'f' => some .failed | _ => none

def parseOutcome (s : String) : Option Spec.Verdict.Outcome :=
  match s.toList with
  | ['s'] => some .success
  | ['r'] => some .revert
  | ['v', a] => (parseAnswer a).map .violation
  | ['k', a] => (parseAnswer a).map .stuck
  | _ => none

def showSpecVerdict : Spec.Verdict.Verdict → String
  | .pass => "pass" | .fail => "fail" | .error => "error" | .timeout => "timeout"

def parseTestStatus : Char → Option (Option Spec.Verdict.Verdict)
  | 'p' => some (some .pass) | 'f' => some (some .fail) | 'e' => some (some .error) | 't' => some (some .timeout)
  | 'n' => some none | _ => none

def handle (line : String) : String :=
  match line.splitOn " " with
  | ["fr", c, rc, core, text] =>
    match parseB c, parseInt rc, parseCore core, parseText text with
    | some c, some rc, some core, some text => showRes (fromResult c text rc core)
    | _, _, _, _ => "bad parse"
  | ["sll", c, p] =>
    match parseB c, parseProc p with
    | some c, some p => match solveLowLevel c p with | some r => showRes r | none => "raise"
    | _, _ => "bad parse"
  | ["e2e", c, h, q] =>
    match parseB c, parseB h, parseQueryFields (q.splitOn ":") with
    | some c, some h, some q => match solveEndToEnd c h q with | some r => showRes r | none => "raise"
    | _, _, _ => "bad parse"
  | ["gso", c, sd, h, q] =>
    match parseB c, parseB sd, parseB h, parseQueryFields (q.splitOn ":") with
    | some c, some sd, some h, some q => showRes (getSolverOutput c sd h q)
    | _, _, _, _ => "bad parse"
  | ["setup", c, ps] =>
    match parseB c, (if ps = "-" then some [] else (ps.splitOn ";").mapM parseProc) with
    | some c, some ps => if setupOk c ps then "ok" else "fail"
    | _, _ => "bad parse"
  | ["cls", o] =>
    match parseObs o with
    | some o => (match classify o with
      | .potential => "potential" | .confirmStuck => "confirmStuck" | .normal => "normal" | .ignored => "ignored")
    | none => "bad parse"
  | ["chain", a, b, c, d, s, n] =>
    match a.toNat?, b.toNat?, c.toNat?, d.toNat?, s.toNat?, n.toNat? with
    | some a, some b, some c, some d, some s, some n =>
      let outs := List.replicate a (Res.sat true) ++ List.replicate b (Res.unsat []) ++ List.replicate c Res.unknown
        ++ List.replicate d Res.err
      let v := verdictOf outs s n
      s!"{v.code} {v.name}"
    | _, _, _, _, _, _ => "bad parse"
  | ["test", cfg, paths, sched] => handleTest cfg paths sched
  | ["same", name, cfg, paths] =>
    match parseCfg cfg, parsePaths paths, Witness.byName name with
    | some cfg, some paths, some w => s!"ok {decide ((⟨cfg, paths⟩ : Scenario) = w)}"
    | _, _, _ => "bad parse"
  | ["exit", cs] =>
    match (if cs = "-" then some [] else (cs.splitOn ";").mapM parseContract) with
    | some cs => s!"ok {mainExit cs}"
    | none => "bad parse"
  | ["spec", os] =>
    match (if os = "-" then some [] else (os.splitOn ",").mapM parseOutcome) with
    | some os => showSpecVerdict (Spec.Verdict.verdict os)
    | none => "bad parse"
  | ["specexit", ts] =>
    match (if ts = "-" then some [] else ts.toList.mapM parseTestStatus) with
    | some ts => toString (Spec.Verdict.exitCode ts)
    | none => "bad parse"
  | _ => "bad-op"

partial def loop (h : IO.FS.Stream) (out : IO.FS.Stream) : IO Unit := do
  let line ← h.getLine
  if line.isEmpty then return
  out.putStrLn (handle (line.trimAscii.toString))
  out.flush
  loop h out

def main : IO Unit := do
  let stdin ← IO.getStdin
  let stdout ← IO.getStdout
  loop stdin stdout
