/-
Driver.Word — line protocol for C06 (one reply per request line).

  spec <OP> <hex> [<hex> [<hex>]]                       -> <hex>                  (Spec.Word)
  op <OP> <v> [<v> [<v>]] | <env> | <env> …             -> ok <class> <hex>… ; aux <0|1>…   or  err <kind>
       <v>   = i:<hex>  int-backed 256-bit word          t:<name>  term-backed (variable, 256 bit)
               tz:<name> term Concat(0_248, name_8)       ti:<name> term If(name, 1, 0)
               b:T | b:F  literal Bool                     b:<name>  symbolic Bool variable
               bl:<x>:<y> symbolic Bool ULT(x, y)          bn:<name> symbolic Bool Not(name)
       <env> = name=hex,name=hex,…    (bool variables: 0/1)
       <class> = con | sym | bcon | bsym
-/
import HalmosVerif.Model.SimpFold
open HalmosVerif.Model HalmosVerif.Spec

def hexVal? (s : String) : Option Nat :=
  if s.isEmpty then none else
  s.foldl (fun acc c =>
    acc.bind fun n =>
      if '0' ≤ c ∧ c ≤ '9' then some (n * 16 + (c.toNat - '0'.toNat))
      else if 'a' ≤ c ∧ c ≤ 'f' then some (n * 16 + (c.toNat - 'a'.toNat + 10))
      else if 'A' ≤ c ∧ c ≤ 'F' then some (n * 16 + (c.toNat - 'A'.toNat + 10))
      else none) (some 0)

def toHex (n : Nat) : String := String.ofList (Nat.toDigits 16 n)

def parseOp? : String → Option WordOp
  | "ADD" => some .ADD | "MUL" => some .MUL | "SUB" => some .SUB | "DIV" => some .DIV
  | "SDIV" => some .SDIV | "MOD" => some .MOD | "SMOD" => some .SMOD | "ADDMOD" => some .ADDMOD
  | "MULMOD" => some .MULMOD | "EXP" => some .EXP | "SIGNEXTEND" => some .SIGNEXTEND
  | "LT" => some .LT | "GT" => some .GT | "SLT" => some .SLT | "SGT" => some .SGT | "EQ" => some .EQ
  | "ISZERO" => some .ISZERO | "AND" => some .AND | "OR" => some .OR | "XOR" => some .XOR
  | "NOT" => some .NOT | "BYTE" => some .BYTE | "SHL" => some .SHL | "SHR" => some .SHR
  | "SAR" => some .SAR | _ => none

def specOp (op : WordOp) (a : List Nat) : Option Nat :=
  match op, a with
  | .ADD, [x, y] => some (Word.add x y) | .MUL, [x, y] => some (Word.mul x y)
  | .SUB, [x, y] => some (Word.sub x y) | .DIV, [x, y] => some (Word.div x y)
  | .SDIV, [x, y] => some (Word.sdiv x y) | .MOD, [x, y] => some (Word.mod x y)
  | .SMOD, [x, y] => some (Word.smod x y) | .ADDMOD, [x, y, n] => some (Word.addmod x y n)
  | .MULMOD, [x, y, n] => some (Word.mulmod x y n)
  | .EXP, [x, y] => some (powMod x y Word.W)   -- Word.exp x y = x^y % 2^256, computed by squaring (see Lemmas: powMod_eq)
  | .SIGNEXTEND, [b, x] => some (Word.signextend b x)
  | .LT, [x, y] => some (Word.lt x y) | .GT, [x, y] => some (Word.gt x y)
  | .SLT, [x, y] => some (Word.slt x y) | .SGT, [x, y] => some (Word.sgt x y)
  | .EQ, [x, y] => some (Word.eq x y) | .ISZERO, [x] => some (Word.iszero x)
  | .AND, [x, y] => some (Word.and x y) | .OR, [x, y] => some (Word.or x y)
  | .XOR, [x, y] => some (Word.xor x y) | .NOT, [x] => some (Word.not x)
  | .BYTE, [i, x] => some (Word.byte i x) | .SHL, [s, x] => some (Word.shl s x)
  | .SHR, [s, x] => some (Word.shr s x) | .SAR, [s, x] => some (Word.sar s x)
  | _, _ => none

def parseVal? (s : String) : Option HV :=
  match s.splitOn ":" with
  | ["i", h] => (hexVal? h).map fun n => .bv 256 (.con (n % 2 ^ 256))
  | ["t", x] => some (.bv 256 (.sym (.var x 256)))
  | ["tz", x] => some (.bv 256 (.sym (.concat (.lit 248 0) (.var x 8))))
  | ["ti", x] => some (.bv 256 (.sym (.ite (.var x) (.lit 256 1) (.lit 256 0))))
  | ["b", "T"] => some (.bool (.con true))
  | ["b", "F"] => some (.bool (.con false))
  | ["b", x] => some (.bool (.sym (.var x)))
  | ["bl", x, y] => some (.bool (.sym (.cmp .ult (.var x 256) (.var y 256))))
  | ["bn", x] => some (.bool (.sym (.not (.var x))))
  | _ => none

def parseEnv? (s : String) : Option (List (String × Nat)) :=
  if s.trimAscii.toString.isEmpty then some [] else
  (s.trimAscii.toString.splitOn ",").mapM fun kv =>
    match kv.splitOn "=" with
    | [k, v] => (hexVal? v).map fun n => (k, n)
    | _ => none

def mkInterp (env : List (String × Nat)) : Interp :=
  Interp.std
    (fun x _ => (env.lookup x).getD 0)
    (fun x => (env.lookup x).getD 0 != 0)
    (fun _ _ _ _ => 0) (fun _ _ _ => 0)

def errName : PyErr → String
  | .zeroDivision => "ZeroDivisionError" | .typeError => "TypeError" | .assertion => "AssertionError"
  | .valueError => "ValueError" | .notImplemented => "NotImplementedError"
  | .notConcrete => "NotConcreteError" | .stackUnderflow => "StackUnderflowError"

def className : HV → String
  | .bv _ (.con _) => "con" | .bv _ (.sym _) => "sym"
  | .bool (.con _) => "bcon" | .bool (.sym _) => "bsym"

def handle (line : String) : String :=
  match (line.splitOn "|").map (fun p => p.trimAscii.toString) with
  | [] => "bad-op"
  | cmd :: envs0 =>
    let envs := if envs0.isEmpty then [""] else envs0
    match cmd.splitOn " " with
    | "spec" :: opS :: args =>
      match parseOp? opS, args.mapM hexVal? with
      | some op, some vs =>
        match specOp op vs with
        | some r => toHex r
        | none => "bad-op"
      | _, _ => "bad-op"
    | "op" :: opS0 :: args =>
      -- `EXP@6` = the instruction under `--smt-exp-by-const 6` (default 2)
      let (opS, k) := match opS0.splitOn "@" with
        | [n, ks] => (n, ks.toNat?.getD 2)
        | _ => (opS0, 2)
      match parseOp? opS, args.mapM parseVal?, envs.mapM parseEnv? with
      | some op, some vs, some es =>
        match execWord foldSimp { smtExpByConst := k } op vs with
        | .error e => s!"err {errName e}"
        | .ok (r, aux) =>
          let is := es.map mkInterp
          let vals := is.map fun I => toHex (r.denote I)
          let auxs := is.map fun I => if aux.all (fun b => b.eval I) then "1" else "0"
          s!"ok {className r} {" ".intercalate vals} ; aux {" ".intercalate auxs}"
      | _, _, _ => "bad-op"
    | _ => "bad-op"

partial def loop (h : IO.FS.Stream) : IO Unit := do
  let line ← h.getLine
  if line.isEmpty then return ()
  IO.println (handle line)
  loop h

def main : IO Unit := do loop (← IO.getStdin)
