-- Root of the `HalmosVerif` library: the property files (each pulls in its model, spec and lemmas).
import HalmosVerif.Props.C01
import HalmosVerif.Props.C04
import HalmosVerif.Props.C06
import HalmosVerif.Props.C11
import HalmosVerif.Props.C12
import HalmosVerif.Props.C16
import HalmosVerif.Props.C17
import HalmosVerif.Props.C18
import HalmosVerif.Props.C19
import HalmosVerif.Props.C13Tables
import HalmosVerif.Props.C08Tables
import HalmosVerif.Props.C08OffsetMap
import HalmosVerif.Props.KeccakAgree
import HalmosVerif.Lemmas.ConfigBridge
