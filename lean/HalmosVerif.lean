-- Root of the `HalmosVerif` library: property files (each pulls in its model, spec and lemmas).
import HalmosVerif.Spec.Word
import HalmosVerif.Model.Term
