/-
Lemmas about `Spec.Abi`: big-endian words, slices, the head/tail layout lemma `decSeq_layout` (the heart of both
`dec_enc` and C12's `encode_general`), the leaf blocks, and `dec (enc v) = some v`.
-/
import HalmosVerif.Spec.Abi

namespace HalmosVerif.Spec.Abi

/-! ### words -/

theorem toBE_length (n x : Nat) : (toBE n x).length = n := by
  induction n with
  | zero => rfl
  | succ n ih => simp [toBE, ih]

@[simp] theorem word_length (x : Nat) : (word x).length = 32 := toBE_length 32 x

@[simp] theorem zeros_length (n : Nat) : (zeros n).length = n := by simp [zeros]

theorem foldl_toBE (n x acc : Nat) :
    (toBE n x).foldl (fun a (b : UInt8) => a * 256 + b.toNat) acc = acc * 256 ^ n + x % 256 ^ n := by
  induction n generalizing acc with
  | zero => simp [toBE, Nat.mod_one]
  | succ n ih =>
    simp only [toBE, List.foldl_cons, ih]
    rw [Nat.mod_pow_succ (x := x) (b := 256) (k := n)]
    have h : (UInt8.ofNat (x / 256 ^ n % 256)).toNat = x / 256 ^ n % 256 := by
      rw [UInt8.toNat_ofNat']; omega
    rw [h, Nat.pow_succ]
    generalize x / 256 ^ n % 256 = d
    generalize x % 256 ^ n = m
    generalize 256 ^ n = p
    rw [Nat.add_mul, Nat.mul_assoc, Nat.mul_comm 256 p, Nat.mul_comm d p]
    omega

theorem fromBE_toBE (n x : Nat) : fromBE (toBE n x) = x % 256 ^ n := by
  simp [fromBE, foldl_toBE]

theorem pow256_32 : (256 : Nat) ^ 32 = 2 ^ 256 := by decide

theorem fromBE_word (x : Nat) (h : x < 2 ^ 256) : fromBE (word x) = x := by
  rw [word, fromBE_toBE, pow256_32]; exact Nat.mod_eq_of_lt h

/-! ### slices -/

theorem slice_mid (pre b post : Bytes) : slice (pre ++ b ++ post) pre.length b.length = b := by
  simp [slice]

theorem slice_mid' (pre b post : Bytes) (p n : Nat) (hp : p = pre.length) (hn : n = b.length) :
    slice (pre ++ b ++ post) p n = b := by
  subst hp hn; exact slice_mid pre b post

theorem readWord_mid (pre post : Bytes) (x : Nat) (h : x < 2 ^ 256) :
    readWord (pre ++ word x ++ post) pre.length = some x := by
  have hs := slice_mid pre (word x) post
  simp only [word_length] at hs
  unfold readWord
  rw [if_pos (by simp [List.length_append]), hs, fromBE_word x h]

theorem readWord_mid' (buf pre post : Bytes) (p x : Nat) (h : x < 2 ^ 256) (hb : buf = pre ++ word x ++ post)
    (hp : p = pre.length) : readWord buf p = some x := by
  subst hb hp; exact readWord_mid pre post x h

/-! ### the layout lemma -/

/-- the decoder `d` reads `v` from the block `b` wherever `b` is embedded, in any buffer shorter than `2^256` -/
def BlockB (d : Dec) (b : Bytes) (v : Val) : Prop :=
  ∀ pre post : Bytes, pre.length + b.length + post.length < 2 ^ 256 → d.dec (pre ++ b ++ post) pre.length = some v

/-- a component: its decoder, its encoded bytes, the value -/
structure Comp where
  d : Dec
  b : Bytes
  v : Val

def Comp.ok (c : Comp) : Prop := BlockB c.d c.b c.v ∧ (c.d.dyn = false → c.d.hs = c.b.length)

def compItems (cs : List Comp) : List (Bool × Bytes) := cs.map (fun c => (c.d.dyn, c.b))

theorem layoutGo_heads_length (xs : List (Bool × Bytes)) (tot : Nat) : (layoutGo xs tot).1.length = headTotal xs := by
  induction xs generalizing tot with
  | nil => rfl
  | cons x xs ih =>
    obtain ⟨dyn, b⟩ := x
    cases dyn <;> simp [layoutGo, headTotal, ih]

theorem layoutGo_tails_length (xs : List (Bool × Bytes)) (tot : Nat) :
    tot + (layoutGo xs tot).2.length = tot + (layoutGo xs 0).2.length := by
  induction xs generalizing tot with
  | nil => rfl
  | cons x xs ih =>
    obtain ⟨dyn, b⟩ := x
    cases dyn
    · simpa [layoutGo] using ih tot
    · have h1 := ih (tot + b.length)
      have h2 := ih (0 + b.length)
      simp only [layoutGo, List.length_append] at *
      omega

/-- **Layout lemma.**  If the first components `cs` of a head/tail layout are blocks for their decoders, then `decSeq`
reads them back — whatever further components `rest` follow them in the layout (their heads sit between, their tails
after), and wherever the layout is embedded.  `H0`/`T0` are the heads/tails already passed. -/
theorem decSeq_layout (cs : List Comp) (hok : ∀ c ∈ cs, c.ok) (rest : List (Bool × Bytes)) :
    ∀ (tot : Nat) (pre H0 T0 post : Bytes),
      tot = H0.length + headTotal (compItems cs ++ rest) + T0.length →
      (pre ++ H0 ++ (layoutGo (compItems cs ++ rest) tot).1 ++ T0 ++ (layoutGo (compItems cs ++ rest) tot).2
          ++ post).length < 2 ^ 256 →
      decSeq (cs.map (·.d))
          (pre ++ H0 ++ (layoutGo (compItems cs ++ rest) tot).1 ++ T0 ++ (layoutGo (compItems cs ++ rest) tot).2 ++ post)
          pre.length (pre.length + H0.length) = some (cs.map (·.v)) := by
  induction cs with
  | nil => intro tot pre H0 T0 post _ _; simp [decSeq]
  | cons c cs ih =>
    intro tot pre H0 T0 post htot hlen
    have hc := hok c (by simp)
    have hrest : ∀ c' ∈ cs, c'.ok := fun c' h => hok c' (by simp [h])
    obtain ⟨d, b, v⟩ := c
    obtain ⟨hblock, hhs⟩ := hc
    simp only at hblock hhs
    cases hdyn : d.dyn with
    | false =>
      have hL : layoutGo (compItems (⟨d, b, v⟩ :: cs) ++ rest) tot
          = (b ++ (layoutGo (compItems cs ++ rest) tot).1, (layoutGo (compItems cs ++ rest) tot).2) := by
        simp [compItems, layoutGo, hdyn]
      rw [hL] at hlen ⊢
      simp only at hlen ⊢
      have hT : headTotal (compItems (⟨d, b, v⟩ :: cs) ++ rest) = b.length + headTotal (compItems cs ++ rest) := by
        simp [compItems, headTotal, hdyn]
      rw [hT] at htot
      -- the buffer, reassociated
      have hbuf : pre ++ H0 ++ (b ++ (layoutGo (compItems cs ++ rest) tot).1) ++ T0 ++ (layoutGo (compItems cs ++ rest) tot).2 ++ post
          = (pre ++ H0) ++ b ++ ((layoutGo (compItems cs ++ rest) tot).1 ++ T0 ++ (layoutGo (compItems cs ++ rest) tot).2 ++ post) := by
        simp [List.append_assoc]
      have hbuf2 : pre ++ H0 ++ (b ++ (layoutGo (compItems cs ++ rest) tot).1) ++ T0 ++ (layoutGo (compItems cs ++ rest) tot).2 ++ post
          = pre ++ (H0 ++ b) ++ (layoutGo (compItems cs ++ rest) tot).1 ++ T0 ++ (layoutGo (compItems cs ++ rest) tot).2 ++ post := by
        simp [List.append_assoc]
      have hdec : d.dec (pre ++ H0 ++ (b ++ (layoutGo (compItems cs ++ rest) tot).1) ++ T0 ++ (layoutGo (compItems cs ++ rest) tot).2 ++ post)
          (pre.length + H0.length) = some v := by
        rw [hbuf]
        have := hblock (pre ++ H0) ((layoutGo (compItems cs ++ rest) tot).1 ++ T0 ++ (layoutGo (compItems cs ++ rest) tot).2 ++ post)
          (by rw [hbuf] at hlen; simpa [List.length_append, Nat.add_assoc] using hlen)
        simpa [List.length_append] using this
      have hih := ih hrest tot pre (H0 ++ b) T0 post (by simp [List.length_append]; omega) (by rw [← hbuf2]; exact hlen)
      rw [← hbuf2] at hih
      simp only [List.map_cons, decSeq, hdyn, hdec, Bool.false_eq_true, ↓reduceIte]
      have hhs' := hhs hdyn
      rw [hhs']
      simp only [List.length_append] at hih
      rw [Nat.add_assoc, hih]
    | true =>
      have hL : layoutGo (compItems (⟨d, b, v⟩ :: cs) ++ rest) tot
          = (word tot ++ (layoutGo (compItems cs ++ rest) (tot + b.length)).1,
             b ++ (layoutGo (compItems cs ++ rest) (tot + b.length)).2) := by
        simp [compItems, layoutGo, hdyn]
      rw [hL] at hlen ⊢
      simp only at hlen ⊢
      have hT : headTotal (compItems (⟨d, b, v⟩ :: cs) ++ rest) = 32 + headTotal (compItems cs ++ rest) := by
        simp [compItems, headTotal, hdyn]
      rw [hT] at htot
      generalize hh : (layoutGo (compItems cs ++ rest) (tot + b.length)).1 = h' at *
      generalize ht : (layoutGo (compItems cs ++ rest) (tot + b.length)).2 = t' at *
      have hhl : h'.length = headTotal (compItems cs ++ rest) := by rw [← hh]; exact layoutGo_heads_length _ _
      have hlen' : pre.length + H0.length + (32 + h'.length) + T0.length + (b.length + t'.length) + post.length < 2 ^ 256 := by
        have := hlen
        simp only [List.length_append, word_length] at this
        omega
      have htotlt : tot < 2 ^ 256 := by omega
      -- read the offset
      have hrw : readWord (pre ++ H0 ++ (word tot ++ h') ++ T0 ++ (b ++ t') ++ post) (pre.length + H0.length) = some tot := by
        apply readWord_mid' _ (pre ++ H0) (h' ++ T0 ++ (b ++ t') ++ post) _ _ htotlt
        · simp [List.append_assoc]
        · simp
      -- decode the tail block
      have hdec : d.dec (pre ++ H0 ++ (word tot ++ h') ++ T0 ++ (b ++ t') ++ post) (pre.length + tot) = some v := by
        have hbuf : pre ++ H0 ++ (word tot ++ h') ++ T0 ++ (b ++ t') ++ post
            = (pre ++ H0 ++ word tot ++ h' ++ T0) ++ b ++ (t' ++ post) := by simp [List.append_assoc]
        rw [hbuf]
        have := hblock (pre ++ H0 ++ word tot ++ h' ++ T0) (t' ++ post) (by simp [List.length_append]; omega)
        have hpos : (pre ++ H0 ++ word tot ++ h' ++ T0).length = pre.length + tot := by
          simp [List.length_append]; omega
        rw [hpos] at this
        exact this
      have hbuf2 : pre ++ H0 ++ (word tot ++ h') ++ T0 ++ (b ++ t') ++ post
          = pre ++ (H0 ++ word tot) ++ h' ++ (T0 ++ b) ++ t' ++ post := by simp [List.append_assoc]
      have hih := ih hrest (tot + b.length) pre (H0 ++ word tot) (T0 ++ b) post
        (by simp [List.length_append]; omega)
        (by rw [hh, ht, ← hbuf2]; exact hlen)
      rw [hh, ht, ← hbuf2] at hih
      simp only [List.map_cons, decSeq, hdyn, ↓reduceIte, hrw, hdec]
      simp only [List.length_append, word_length] at hih
      rw [Nat.add_assoc, hih]

/-- a prefix of the components of `encSeq` decodes, whatever follows -/
theorem decSeq_encSeq_prefix (cs : List Comp) (hok : ∀ c ∈ cs, c.ok) (rest : List (Bool × Bytes)) (pre post : Bytes)
    (hlen : pre.length + (encSeq (compItems cs ++ rest)).length + post.length < 2 ^ 256) :
    decSeq (cs.map (·.d)) (pre ++ encSeq (compItems cs ++ rest) ++ post) pre.length pre.length = some (cs.map (·.v)) := by
  have h := decSeq_layout cs hok rest (headTotal (compItems cs ++ rest)) pre [] [] post (by simp)
  simp only [List.append_nil, List.length_nil, Nat.add_zero] at h
  have hb : pre ++ (layoutGo (compItems cs ++ rest) (headTotal (compItems cs ++ rest))).1
        ++ (layoutGo (compItems cs ++ rest) (headTotal (compItems cs ++ rest))).2 ++ post
      = pre ++ encSeq (compItems cs ++ rest) ++ post := by simp [encSeq, List.append_assoc]
  rw [hb] at h
  exact h (by simpa [List.length_append, Nat.add_assoc] using hlen)

/-- `encSeq` of blocks decodes -/
theorem decSeq_encSeq (cs : List Comp) (hok : ∀ c ∈ cs, c.ok) (pre post : Bytes)
    (hlen : pre.length + (encSeq (compItems cs)).length + post.length < 2 ^ 256) :
    decSeq (cs.map (·.d)) (pre ++ encSeq (compItems cs) ++ post) pre.length pre.length = some (cs.map (·.v)) := by
  have := decSeq_encSeq_prefix cs hok [] pre post (by simpa using hlen)
  simpa using this

theorem decRep_eq_decSeq (d : Dec) (n : Nat) (buf : Bytes) (base hp : Nat) :
    decRep d n buf base hp = decSeq (List.replicate n d) buf base hp := by
  induction n generalizing hp with
  | zero => rfl
  | succ n ih => simp only [decRep, List.replicate_succ, decSeq, ih]

/-! ### leaf blocks -/

theorem two_pow_le_256 {n : Nat} (h : n ≤ 256) : 2 ^ n ≤ 2 ^ 256 := Nat.pow_le_pow_right (by decide) h

theorem block_uint (n x : Nat) (hn : n ≤ 256) (hx : x < 2 ^ n) : BlockB (decOf (.uint n)) (word x) (.uint x) := by
  intro pre post _
  have h256 : x < 2 ^ 256 := Nat.lt_of_lt_of_le hx (two_pow_le_256 hn)
  simp only [decOf, decAt, readWord_mid pre post x h256, hx, ↓reduceIte]

theorem block_addr (x : Nat) (hx : x < 2 ^ 160) : BlockB (decOf .address) (word x) (.addr x) := by
  intro pre post _
  have h256 : x < 2 ^ 256 := Nat.lt_of_lt_of_le hx (two_pow_le_256 (by decide))
  simp only [decOf, decAt, readWord_mid pre post x h256, hx, ↓reduceIte]

theorem block_bool (b : Bool) : BlockB (decOf .bool) (word (if b then 1 else 0)) (.bool b) := by
  intro pre post _
  cases b
  · simp only [decOf, decAt, Bool.false_eq_true, ↓reduceIte, readWord_mid pre post 0 (by decide)]
  · simp only [decOf, decAt, ↓reduceIte, readWord_mid pre post 1 (by decide)]; simp

theorem ofInt256_lt (x : Int) : ofInt256 x < 2 ^ 256 := by
  unfold ofInt256
  have h1 : 0 ≤ x % ((2 ^ 256 : Nat) : Int) := Int.emod_nonneg _ (by decide)
  have h2 : x % ((2 ^ 256 : Nat) : Int) < ((2 ^ 256 : Nat) : Int) := Int.emod_lt_of_pos _ (by decide)
  omega

theorem toInt256_ofInt256 (x : Int) (h1 : -((2 ^ 255 : Nat) : Int) ≤ x) (h2 : x < ((2 ^ 255 : Nat) : Int)) :
    toInt256 (ofInt256 x) = x := by
  unfold toInt256 ofInt256
  have e1 : 0 ≤ x % ((2 ^ 256 : Nat) : Int) := Int.emod_nonneg _ (by decide)
  have e2 : x % ((2 ^ 256 : Nat) : Int) < ((2 ^ 256 : Nat) : Int) := Int.emod_lt_of_pos _ (by decide)
  simp only [Nat.reducePow] at *
  split <;> omega

theorem intMin_ge {n : Nat} (hn : n ≤ 256) : -((2 ^ 255 : Nat) : Int) ≤ intMin n := by
  unfold intMin
  have : 2 ^ (n - 1) ≤ 2 ^ 255 := Nat.pow_le_pow_right (by decide) (by omega)
  omega

theorem intMax_le {n : Nat} (hn : n ≤ 256) : intMax n ≤ ((2 ^ 255 : Nat) : Int) := by
  unfold intMax
  have : 2 ^ (n - 1) ≤ 2 ^ 255 := Nat.pow_le_pow_right (by decide) (by omega)
  omega

theorem block_int (n : Nat) (x : Int) (hn : n ≤ 256) (h1 : intMin n ≤ x) (h2 : x < intMax n) :
    BlockB (decOf (.int n)) (word (ofInt256 x)) (.int x) := by
  intro pre post _
  have hr := toInt256_ofInt256 x (Int.le_trans (intMin_ge hn) h1) (Int.lt_of_lt_of_le h2 (intMax_le hn))
  simp only [decOf, decAt, readWord_mid pre post _ (ofInt256_lt x), hr, h1, h2, and_self, ↓reduceIte]

theorem block_bytesN (bs : Bytes) (h : bs.length ≤ 32) :
    BlockB (decOf (.bytesN bs.length)) (bs ++ zeros (32 - bs.length)) (.fbytes bs) := by
  intro pre post _
  have hb : pre ++ (bs ++ zeros (32 - bs.length)) ++ post = pre ++ bs ++ (zeros (32 - bs.length) ++ post) := by
    simp [List.append_assoc]
  simp only [decOf, decAt]
  rw [if_pos (by simp [List.length_append]; omega), hb, slice_mid]

theorem block_bytesLike (mk : Bytes → Val) (bs junk : Bytes) (pre post : Bytes)
    (hl : pre.length + (word bs.length ++ bs ++ junk).length + post.length < 2 ^ 256) :
    decBytes mk (pre ++ (word bs.length ++ bs ++ junk) ++ post) pre.length = some (mk bs) := by
  have hlen : pre.length + (32 + bs.length + junk.length) + post.length < 2 ^ 256 := by
    have := hl
    simp only [List.length_append, word_length] at this
    omega
  have hb : pre ++ (word bs.length ++ bs ++ junk) ++ post = pre ++ word bs.length ++ (bs ++ junk ++ post) := by
    simp [List.append_assoc]
  have hb2 : pre ++ (word bs.length ++ bs ++ junk) ++ post = (pre ++ word bs.length) ++ bs ++ (junk ++ post) := by
    simp [List.append_assoc]
  unfold decBytes
  rw [hb, readWord_mid pre _ bs.length (by omega)]
  simp only
  rw [if_pos (by simp [List.length_append]; omega), ← hb, hb2]
  rw [slice_mid' (pre ++ word bs.length) bs (junk ++ post) _ _ (by simp) rfl]

theorem block_bytes (bs junk : Bytes) : BlockB (decOf .bytes) (word bs.length ++ bs ++ junk) (.bytes bs) := by
  intro pre post hl
  simp only [decOf, decAt]
  exact block_bytesLike .bytes bs junk pre post hl

theorem block_string (bs junk : Bytes) : BlockB (decOf .string) (word bs.length ++ bs ++ junk) (.str bs) := by
  intro pre post hl
  simp only [decOf, decAt]
  exact block_bytesLike .str bs junk pre post hl

/-! ### `dec (enc v) = some v` -/

theorem layoutGo_static_tails (xs : List (Bool × Bytes)) (h : ∀ x ∈ xs, x.1 = false) (tot : Nat) :
    (layoutGo xs tot).2 = [] := by
  induction xs with
  | nil => rfl
  | cons x xs ih =>
    obtain ⟨dyn, b⟩ := x
    have hd : dyn = false := h (dyn, b) (by simp)
    subst hd
    simpa [layoutGo] using ih (fun x hx => h x (by simp [hx]))

theorem encSeq_length_static (xs : List (Bool × Bytes)) (h : ∀ x ∈ xs, x.1 = false) :
    (encSeq xs).length = headTotal xs := by
  simp [encSeq, layoutGo_static_tails xs h, layoutGo_heads_length]

/-- components of an array -/
def arrComps (t : Ty) (vs : List Val) : List Comp := vs.map (fun v => ⟨decOf t, enc t v, v⟩)

theorem arrComps_items (t : Ty) (vs : List Val) :
    compItems (arrComps t vs) = vs.map (fun v => (isDyn t, enc t v)) := by
  simp [compItems, arrComps, decOf, Function.comp_def]

theorem arrComps_d (t : Ty) (vs : List Val) : (arrComps t vs).map (·.d) = List.replicate vs.length (decOf t) := by
  induction vs with
  | nil => rfl
  | cons v vs ih => simp [arrComps, List.replicate_succ] at ih ⊢; exact ih

theorem arrComps_v (t : Ty) (vs : List Val) : (arrComps t vs).map (·.v) = vs := by
  simp [arrComps, Function.comp_def]

theorem headTotal_static_arr (t : Ty) (vs : List Val) (hd : isDyn t = false)
    (hs : ∀ v ∈ vs, headSize t = (enc t v).length) :
    headTotal (vs.map (fun v => (isDyn t, enc t v))) = vs.length * headSize t := by
  induction vs with
  | nil => simp [headTotal]
  | cons v vs ih =>
    have := hs v (by simp)
    simp only [List.map_cons, hd, headTotal, List.length_cons]
    rw [← hd, ih (fun v hv => hs v (by simp [hv])), ← this, Nat.succ_mul]; omega

theorem block_arr (t : Ty) (vs : List Val) (hok : ∀ v ∈ vs, Comp.ok ⟨decOf t, enc t v, v⟩) (pre post : Bytes)
    (hl : pre.length + (encSeq (vs.map (fun v => (isDyn t, enc t v)))).length + post.length < 2 ^ 256) :
    decRep (decOf t) vs.length (pre ++ encSeq (vs.map (fun v => (isDyn t, enc t v))) ++ post) pre.length pre.length
      = some vs := by
  have hcs : ∀ c ∈ arrComps t vs, c.ok := by
    intro c hc
    simp only [arrComps, List.mem_map] at hc
    obtain ⟨v, hv, rfl⟩ := hc
    exact hok v hv
  have := decSeq_encSeq (arrComps t vs) hcs pre post (by rw [arrComps_items]; exact hl)
  rw [arrComps_items, arrComps_d, arrComps_v] at this
  rw [decRep_eq_decSeq]; exact this

mutual
theorem enc_ok : ∀ (t : Ty) (v : Val), t.valid = true → wt t v = true → Comp.ok ⟨decOf t, enc t v, v⟩
  | .uint n, v, hv, hw => by
    cases v <;> simp [wt] at hw
    simp [Ty.valid] at hv
    exact ⟨block_uint n _ (by omega) hw, by simp [decOf, headSize, enc]⟩
  | .int n, v, hv, hw => by
    cases v <;> simp [wt] at hw
    simp [Ty.valid] at hv
    exact ⟨block_int n _ (by omega) hw.1 hw.2, by simp [decOf, headSize, enc]⟩
  | .address, v, _, hw => by
    cases v <;> simp [wt] at hw
    exact ⟨block_addr _ hw, by simp [decOf, headSize, enc]⟩
  | .bool, v, _, hw => by
    cases v <;> simp [wt] at hw
    exact ⟨block_bool _, by simp [decOf, headSize, enc]⟩
  | .bytesN n, v, hv, hw => by
    cases v <;> simp [wt] at hw
    simp [Ty.valid] at hv
    subst hw
    exact ⟨block_bytesN _ hv.2, by simp [decOf, headSize, enc]; omega⟩
  | .bytes, v, _, hw => by
    cases v <;> simp [wt] at hw
    exact ⟨block_bytes _ _, by simp [decOf, isDyn]⟩
  | .string, v, _, hw => by
    cases v <;> simp [wt] at hw
    exact ⟨block_string _ _, by simp [decOf, isDyn]⟩
  | .darr t, v, hv, hw => by
    cases v <;> simp [wt] at hw
    rename_i vs
    simp [Ty.valid] at hv
    have hok : ∀ v ∈ vs, Comp.ok ⟨decOf t, enc t v, v⟩ := fun v hvs => enc_ok t v hv (hw.2 v hvs)
    refine ⟨?_, by simp [decOf, isDyn]⟩
    intro pre post hl
    simp only [enc] at hl ⊢
    have hl' : pre.length + (32 + (encSeq (vs.map (fun v => (isDyn t, enc t v)))).length) + post.length < 2 ^ 256 := by
      have := hl; simp only [List.length_append, word_length] at this; omega
    have hb : pre ++ (word vs.length ++ encSeq (vs.map (fun v => (isDyn t, enc t v)))) ++ post
        = pre ++ word vs.length ++ (encSeq (vs.map (fun v => (isDyn t, enc t v))) ++ post) := by
      simp [List.append_assoc]
    have hb2 : pre ++ (word vs.length ++ encSeq (vs.map (fun v => (isDyn t, enc t v)))) ++ post
        = (pre ++ word vs.length) ++ encSeq (vs.map (fun v => (isDyn t, enc t v))) ++ post := by
      simp [List.append_assoc]
    simp only [decOf, decAt]
    rw [hb, readWord_mid pre _ vs.length hw.1, ← hb, hb2]
    have := block_arr t vs hok (pre ++ word vs.length) post (by simp only [List.length_append, word_length]; omega)
    simp only [List.length_append, word_length] at this
    simp only [decOf] at this
    simp only
    rw [this]; rfl
  | .farr t k, v, hv, hw => by
    cases v <;> simp [wt] at hw
    rename_i vs
    simp [Ty.valid] at hv
    have hok : ∀ v ∈ vs, Comp.ok ⟨decOf t, enc t v, v⟩ := fun v hvs => enc_ok t v hv (hw.2 v hvs)
    obtain ⟨hk, _⟩ := hw
    subst hk
    refine ⟨?_, ?_⟩
    · intro pre post hl
      simp only [enc] at hl ⊢
      simp only [decOf, decAt]
      have := block_arr t vs hok pre post hl
      simp only [decOf] at this
      rw [this]; rfl
    · intro hd
      simp only [decOf, isDyn] at hd
      simp only [decOf, headSize, enc]
      rw [if_neg (by simp [hd]), encSeq_length_static _ (by simp [hd]),
        headTotal_static_arr t vs hd (fun v hvs => (hok v hvs).2 (by simp [decOf, hd]))]
  | .tuple ts, v, hv, hw => by
    cases v <;> simp [wt] at hw
    rename_i vs
    simp [Ty.valid] at hv
    obtain ⟨cs, hcs, hd, hi, hvv, hst⟩ := encList_ok ts vs hv hw
    refine ⟨?_, ?_⟩
    · intro pre post hl
      simp only [enc] at hl ⊢
      simp only [decOf, decAt]
      rw [← hi] at hl ⊢
      rw [← hd, decSeq_encSeq cs hcs pre post hl, hvv]; rfl
    · intro hdyn
      simp only [decOf, isDyn] at hdyn
      obtain ⟨h1, h2⟩ := hst hdyn
      simp only [decOf, headSize, hdyn, enc, Bool.false_eq_true, ↓reduceIte]
      rw [encSeq_length_static _ h1, h2]
theorem encList_ok : ∀ (ts : List Ty) (vs : List Val), validList ts = true → wtList ts vs = true →
    ∃ cs : List Comp, (∀ c ∈ cs, c.ok) ∧ cs.map (·.d) = decs ts ∧ compItems cs = encList ts vs ∧ cs.map (·.v) = vs ∧
      (anyDyn ts = false → (∀ x ∈ encList ts vs, x.1 = false) ∧ headTotal (encList ts vs) = sumHead ts)
  | [], vs, _, hw => by
    cases vs <;> simp [wtList] at hw
    exact ⟨[], by simp, by simp [decs], by simp [compItems, encList], by simp, by simp [encList, headTotal, sumHead]⟩
  | t :: ts, vs, hv, hw => by
    cases vs with
    | nil => simp [wtList] at hw
    | cons v vs =>
      simp [wtList] at hw
      simp [validList] at hv
      have h1 := enc_ok t v hv.1 hw.1
      obtain ⟨cs, hcs, hd, hi, hvv, hst⟩ := encList_ok ts vs hv.2 hw.2
      refine ⟨⟨decOf t, enc t v, v⟩ :: cs, ?_, ?_, ?_, ?_, ?_⟩
      · intro c hc
        simp at hc
        rcases hc with rfl | hc
        · exact h1
        · exact hcs c hc
      · simp [decs, hd, decOf]
      · simp [compItems, encList, decOf] at hi ⊢; exact hi
      · simp [hvv]
      · intro hdyn
        simp [anyDyn] at hdyn
        obtain ⟨h2, h3⟩ := hst hdyn.2
        refine ⟨?_, ?_⟩
        · intro x hx
          simp [encList] at hx
          rcases hx with rfl | hx
          · exact hdyn.1
          · exact h2 x hx
        · have := h1.2 (by simp [decOf, hdyn.1])
          simp only [decOf] at this
          simp [encList, headTotal, hdyn.1, sumHead, h3, this]
end

/-- **Round trip**: the decoder inverts the specification's encoding function. -/
theorem dec_enc (t : Ty) (v : Val) (hv : t.valid = true) (hw : wt t v = true) (hl : (enc t v).length < 2 ^ 256) :
    dec t (enc t v) = some v := by
  have := (enc_ok t v hv hw).1 [] [] (by simpa using hl)
  simpa [dec, decOf] using this

end HalmosVerif.Spec.Abi
