/-
Lemmas.Assertions — helper lemmas for C13: byte strings and their big-endian value, the zero-padded reads of the
extractors against the bounds-checked reads of the ABI decoder, the meaning of what `unwrap` hands out, `mk_cond`.
-/
import HalmosVerif.Model.Assertions
import HalmosVerif.Spec.Forge
import HalmosVerif.Lemmas.WordTerm

namespace HalmosVerif.Lemmas.Assertions
open HalmosVerif.Model HalmosVerif.Model.Assertions HalmosVerif.Spec HalmosVerif.Gen HalmosVerif.Lemmas.Word

theorem getD_lt {α : Type} (l : List α) (i : Nat) (a : α) (h : i < l.length) : l.getD i a = l[i] := by
  simp [List.getD, h]

theorem getD_ge {α : Type} (l : List α) (i : Nat) (a : α) (h : l.length ≤ i) : l.getD i a = a := by
  simp [List.getD, h]

/-! ### big-endian values -/

theorem foldl_be (l : List Nat) (acc : Nat) :
    l.foldl (fun a b => a * 256 + b) acc = acc * 256 ^ l.length + l.foldl (fun a b => a * 256 + b) 0 := by
  induction l generalizing acc with
  | nil => simp
  | cons x xs ih =>
    simp only [List.foldl_cons, List.length_cons]
    rw [ih (acc * 256 + x), ih (0 * 256 + x)]
    simp only [Nat.zero_mul, Nat.zero_add, Nat.pow_succ]
    rw [Nat.add_mul, Nat.mul_assoc, Nat.mul_comm 256, Nat.add_assoc]

theorem beNat_nil : Assertions.beNat [] = 0 := rfl

theorem beNat_cons (x : Nat) (xs : List Nat) :
    Assertions.beNat (x :: xs) = x * 256 ^ xs.length + Assertions.beNat xs := by
  unfold Assertions.beNat
  simp only [List.foldl_cons]
  rw [foldl_be]; simp

theorem spec_beNat_eq (l : List Nat) : Forge.beNat l = Assertions.beNat l := rfl

def Bytes (l : List Nat) : Prop := ∀ b ∈ l, b < 256

theorem beNat_lt {l : List Nat} (h : Bytes l) : Assertions.beNat l < 256 ^ l.length := by
  induction l with
  | nil => simp [beNat_nil]
  | cons x xs ih =>
    rw [beNat_cons]
    have hx : x < 256 := h x (by simp)
    have hxs := ih (fun b hb => h b (by simp [hb]))
    simp only [List.length_cons, Nat.pow_succ]
    calc x * 256 ^ xs.length + Assertions.beNat xs < x * 256 ^ xs.length + 256 ^ xs.length := by omega
      _ = (x + 1) * 256 ^ xs.length := by rw [Nat.add_mul]; simp
      _ ≤ 256 * 256 ^ xs.length := Nat.mul_le_mul_right _ (by omega)
      _ = 256 ^ xs.length * 256 := Nat.mul_comm _ _

/-- the big-endian value determines a byte string of known length -/
theorem beNat_inj {l1 l2 : List Nat} (h1 : Bytes l1) (h2 : Bytes l2) (hl : l1.length = l2.length)
    (hv : Assertions.beNat l1 = Assertions.beNat l2) : l1 = l2 := by
  induction l1 generalizing l2 with
  | nil => cases l2 with | nil => rfl | cons _ _ => simp at hl
  | cons x xs ih =>
    cases l2 with
    | nil => simp at hl
    | cons y ys =>
      simp only [List.length_cons, Nat.add_right_cancel_iff] at hl
      rw [beNat_cons, beNat_cons, hl] at hv
      have hxs := beNat_lt (l := xs) (fun b hb => h1 b (by simp [hb]))
      have hys := beNat_lt (l := ys) (fun b hb => h2 b (by simp [hb]))
      rw [hl] at hxs
      have hp : 0 < 256 ^ ys.length := Nat.pow_pos (by omega)
      have hxy : x = y := by
        have e1 : (x * 256 ^ ys.length + Assertions.beNat xs) / 256 ^ ys.length = x := by
          rw [Nat.mul_comm, Nat.mul_add_div hp, Nat.div_eq_of_lt hxs]; simp
        have e2 : (y * 256 ^ ys.length + Assertions.beNat ys) / 256 ^ ys.length = y := by
          rw [Nat.mul_comm, Nat.mul_add_div hp, Nat.div_eq_of_lt hys]; simp
        rw [← e1, ← e2, hv]
      subst hxy
      have : Assertions.beNat xs = Assertions.beNat ys := by omega
      rw [ih (fun b hb => h1 b (by simp [hb])) (fun b hb => h2 b (by simp [hb])) hl this]

theorem pow256 (n : Nat) : 256 ^ n = 2 ^ (8 * n) := by
  rw [Nat.pow_mul]


/-! ### calldata: symbolic bytes, their values, zero-padded and bounds-checked reads -/

def CDWF (d : Calldata) : Prop := ∀ b ∈ d, b.WF

def evalCD (I : Interp) (d : Calldata) : List Nat := d.map (CByte.eval I)

theorem CByte.eval_lt (I : Interp) (b : CByte) : b.eval I < 256 := by
  cases b <;> simp only [CByte.eval] <;> exact Nat.mod_lt _ (by omega)

theorem evalCD_bytes (I : Interp) (d : Calldata) : Bytes (evalCD I d) := by
  intro b hb
  simp only [evalCD, List.mem_map] at hb
  obtain ⟨c, _, rfl⟩ := hb
  exact CByte.eval_lt I c

theorem CByte.term_eval (I : Interp) {b : CByte} (h : b.WF) : b.term.eval I = b.eval I := by
  cases b with
  | con n => simp only [CByte.term, T.eval, CByte.eval]
  | sym t =>
    simp only [CByte.term, CByte.eval]
    have := Word.T.eval_lt I t h.1
    rw [h.2] at this
    exact (Nat.mod_eq_of_lt this).symm

theorem CByte.term_wf {b : CByte} (h : b.WF) : b.term.WF ∧ b.term.width = 8 := by
  cases b with
  | con n => simp [CByte.term, T.WF, T.width]
  | sym t => exact h

/-- zero-padded read of a concrete buffer (what `ByteVec.slice` does) -/
def zread (buf : List Nat) : Nat → Nat → List Nat
  | _, 0 => []
  | off, n + 1 => buf.getD off 0 :: zread buf (off + 1) n

theorem zread_length (buf : List Nat) (off n : Nat) : (zread buf off n).length = n := by
  induction n generalizing off with
  | zero => rfl
  | succ n ih => simp [zread, ih]

theorem readBytes_length (d : Calldata) (off n : Nat) : (readBytes d off n).length = n := by
  induction n generalizing off with
  | zero => rfl
  | succ n ih => simp [readBytes, ih]

theorem byteAt_eval (I : Interp) (d : Calldata) (i : Nat) : (byteAt d i).eval I = (evalCD I d).getD i 0 := by
  unfold byteAt evalCD
  induction d generalizing i with
  | nil => simp [CByte.eval]
  | cons x xs ih =>
    cases i with
    | zero => simp
    | succ i => simpa using ih i

theorem byteAt_wf {d : Calldata} (hd : CDWF d) (i : Nat) : (byteAt d i).WF := by
  unfold byteAt
  by_cases h : i < d.length
  · rw [getD_lt _ _ _ h]; exact hd _ (List.getElem_mem h)
  · rw [getD_ge _ _ _ (by omega)]; simp [CByte.WF]

theorem readBytes_eval (I : Interp) (d : Calldata) (off n : Nat) :
    (readBytes d off n).map (CByte.eval I) = zread (evalCD I d) off n := by
  induction n generalizing off with
  | zero => rfl
  | succ n ih => simp [readBytes, zread, ih, byteAt_eval]

theorem readBytes_wf {d : Calldata} (hd : CDWF d) (off n : Nat) : ∀ b ∈ readBytes d off n, b.WF := by
  induction n generalizing off with
  | zero => simp [readBytes]
  | succ n ih =>
    intro b hb
    simp only [readBytes, List.mem_cons] at hb
    rcases hb with rfl | hb
    · exact byteAt_wf hd off
    · exact ih (off + 1) b hb

/-- inside the buffer the zero-padded read is the decoder's slice -/
theorem zread_eq_slice {buf : List Nat} {off n : Nat} (h : off + n ≤ buf.length) :
    zread buf off n = Forge.slice buf off n := by
  induction n generalizing off with
  | zero => simp [zread, Forge.slice]
  | succ n ih =>
    have hlt : off < buf.length := by omega
    simp only [zread, Forge.slice]
    rw [getD_lt _ _ _ hlt, List.drop_eq_getElem_cons hlt, List.take_succ_cons]
    congr 1
    rw [ih (by omega)]; rfl

theorem slice_length {buf : List Nat} {off n : Nat} (h : off + n ≤ buf.length) : (Forge.slice buf off n).length = n := by
  simp [Forge.slice]; omega

theorem slice_bytes {buf : List Nat} (hb : Bytes buf) (off n : Nat) : Bytes (Forge.slice buf off n) := by
  intro b h
  exact hb b (List.mem_of_mem_drop (List.mem_of_mem_take h))

theorem zread_bytes {buf : List Nat} (hb : Bytes buf) (off n : Nat) : Bytes (zread buf off n) := by
  induction n generalizing off with
  | zero => intro b h; simp [zread] at h
  | succ n ih =>
    intro b h
    simp only [zread, List.mem_cons] at h
    rcases h with rfl | h
    · by_cases hl : off < buf.length
      · rw [getD_lt _ _ _ hl]; exact hb _ (List.getElem_mem hl)
      · rw [getD_ge _ _ _ (by omega)]; omega
    · exact ih (off + 1) b h


/-! ### what `unwrap` hands out -/

theorem allCon_some (I : Interp) {bs : List CByte} {ns : List Nat} (h : allCon bs = some ns) :
    ns = bs.map (CByte.eval I) := by
  induction bs generalizing ns with
  | nil => simp [allCon] at h; simp [h]
  | cons b r ih =>
    cases b with
    | sym t => simp [allCon] at h
    | con n =>
      simp only [allCon, Option.map_eq_some_iff] at h
      obtain ⟨ms, hms, rfl⟩ := h
      simp [CByte.eval, ih hms]

theorem allCon_none_ne_nil {bs : List CByte} (h : allCon bs = none) : bs ≠ [] := by
  intro hn; subst hn; simp [allCon] at h

theorem concatTerm_spec (I : Interp) : ∀ (bs : List CByte), bs ≠ [] → (∀ b ∈ bs, b.WF) →
    (concatTerm bs).WF ∧ (concatTerm bs).width = 8 * bs.length ∧
      (concatTerm bs).eval I = Assertions.beNat (bs.map (CByte.eval I))
  | [], h, _ => absurd rfl h
  | [b], _, hb => by
    have hw := CByte.term_wf (hb b (by simp))
    refine ⟨hw.1, by simpa [concatTerm] using hw.2, ?_⟩
    simp [concatTerm, CByte.term_eval I (hb b (by simp)), beNat_cons, beNat_nil]
  | b :: c :: r, _, hb => by
    have ih := concatTerm_spec I (c :: r) (by simp) (fun x hx => hb x (by simp [hx]))
    have hw := CByte.term_wf (hb b (by simp))
    refine ⟨⟨hw.1, ih.1⟩, ?_, ?_⟩
    · simp only [concatTerm, T.width, hw.2, ih.2.1, List.length_cons]; omega
    · simp only [concatTerm, T.eval, ih.2.1, ih.2.2, CByte.term_eval I (hb b (by simp)), List.map_cons]
      rw [beNat_cons (CByte.eval I b), pow256]; simp

/-- the meaning of an extracted argument: its length in bytes and its big-endian value -/
structure ArgSpec (I : Interp) (a : Arg) (len val : Nat) : Prop where
  width : a.toBV.width = 8 * len
  eval : a.toBV.eval I = val
  empty : isEmptyBytes a = decide (len = 0)
  wf : len ≠ 0 → a.toBV.WF
  int : ∀ v, intOf a = .ok v → v = val

theorem bytes_argSpec (I : Interp) {ns : List Nat} (h : Bytes ns) :
    ArgSpec I (.bytes ns) ns.length (Assertions.beNat ns) where
  width := rfl
  eval := by
    simp only [Arg.toBV, T.eval]
    have := beNat_lt h
    rw [pow256] at this
    exact Nat.mod_eq_of_lt this
  empty := by cases ns <;> simp [isEmptyBytes]
  wf := by intro h0; simp only [Arg.toBV, T.WF]; omega
  int := by intro v hv; simp only [intOf, Except.ok.injEq] at hv; exact hv.symm

theorem unwrap_spec {s : Simp} (hs : SimpSound s) (I : Interp) {bs : List CByte} (hb : ∀ b ∈ bs, b.WF) :
    ArgSpec I (unwrap s bs) bs.length (Assertions.beNat (bs.map (CByte.eval I))) := by
  unfold unwrap
  cases hc : allCon bs with
  | some ns =>
    have hns := allCon_some I hc
    simp only
    have hB : Bytes ns := by
      rw [hns]; intro x hx
      simp only [List.mem_map] at hx
      obtain ⟨c, _, rfl⟩ := hx
      exact CByte.eval_lt I c
    have := bytes_argSpec I hB
    rw [hns, List.length_map] at this
    rw [hns]; exact this
  | none =>
    have hne := allCon_none_ne_nil hc
    obtain ⟨hwf, hw, he⟩ := concatTerm_spec I bs hne hb
    have hlen : bs.length ≠ 0 := by intro h; exact hne (List.length_eq_zero_iff.mp h)
    have key : ∀ a : Arg, a.toBV = s.t (concatTerm bs) → (isEmptyBytes a = false) →
        (∀ v, intOf a = .ok v → v = a.toBV.eval I) →
        ArgSpec I a bs.length (Assertions.beNat (bs.map (CByte.eval I))) := by
      intro a ha hemp hint
      refine ⟨?_, ?_, ?_, ?_, ?_⟩
      · rw [ha, hs.widthT _ hwf, hw]
      · rw [ha, hs.evalT I _ hwf, he]
      · rw [hemp]; simp [hlen]
      · intro _; rw [ha]; exact hs.wfT _ hwf
      · intro v hv; rw [hint v hv, ha, hs.evalT I _ hwf, he]
    simp only
    split
    · next w n heq =>
      exact key _ (by simp [Arg.toBV, heq]) rfl (by intro v hv; simp only [intOf, Except.ok.injEq] at hv; simp [Arg.toBV, T.eval, hv])
    · next t hnl => exact key _ rfl rfl (by intro v hv; simp [intOf] at hv)

theorem extractBytes_spec {s : Simp} (hs : SimpSound s) (I : Interp) {d : Calldata} (hd : CDWF d) (off n : Nat) :
    ArgSpec I (extractBytes s d off n) n (Assertions.beNat (zread (evalCD I d) off n)) := by
  have := unwrap_spec hs I (readBytes_wf hd off n)
  rw [readBytes_length, readBytes_eval] at this
  exact this


/-! ### `mk_cond` -/

theorem empty_arg {I : Interp} {a : Arg} {l x : Nat} (h : ArgSpec I a l x) (he : isEmptyBytes a = true) : l = 0 ∧ x = 0 := by
  have hl : l = 0 := by simpa [he] using h.empty.symm
  refine ⟨hl, ?_⟩
  cases a with
  | bytes bs =>
    cases bs with
    | nil => have := h.eval; simpa [Arg.toBV, T.eval, Assertions.beNat] using this.symm
    | cons _ _ => simp [isEmptyBytes] at he
  | num _ _ => simp [isEmptyBytes] at he
  | term _ => simp [isEmptyBytes] at he

theorem nonempty_arg {I : Interp} {a : Arg} {l x : Nat} (h : ArgSpec I a l x) (he : isEmptyBytes a = false) : l ≠ 0 := by
  intro hl; have := h.empty; rw [he, hl] at this; simp at this

/-- `Eq` / `NotEq`: the condition says "same length and same value" (resp. its negation) -/
theorem mkCond_eqne (I : Interp) {a1 a2 : Arg} {l1 l2 x1 x2 : Nat} (h1 : ArgSpec I a1 l1 x1) (h2 : ArgSpec I a2 l2 x2)
    (ne : Bool) :
    ∃ c, mkCond (if ne then "NotEq" else "Eq") a1 a2 = .ok c ∧ c.WF ∧
      c.eval I = (decide (l1 = l2 ∧ x1 = x2) != ne) := by
  have hS : ∀ (onEq onNe : B), eqOrNe (if ne then "NotEq" else "Eq") onEq onNe = .ok (if ne then onNe else onEq) := by
    intro a b; cases ne <;> simp [eqOrNe]
  unfold mkCond
  by_cases e1 : isEmptyBytes a1 = true <;> by_cases e2 : isEmptyBytes a2 = true
  · obtain ⟨rfl, rfl⟩ := empty_arg h1 e1
    obtain ⟨rfl, rfl⟩ := empty_arg h2 e2
    simp only [e1, e2, Bool.and_self, if_true, hS]
    refine ⟨_, rfl, ?_, ?_⟩ <;> cases ne <;> simp [B.WF, B.eval]
  · obtain ⟨rfl, rfl⟩ := empty_arg h1 e1
    have e2' : isEmptyBytes a2 = false := by simpa using e2
    have := nonempty_arg h2 e2'
    simp only [e1, e2', Bool.and_false, Bool.or_false, if_true, hS]
    refine ⟨_, rfl, ?_, ?_⟩ <;> cases ne <;> simp [B.WF, B.eval] <;> omega
  · obtain ⟨rfl, rfl⟩ := empty_arg h2 e2
    have e1' : isEmptyBytes a1 = false := by simpa using e1
    have := nonempty_arg h1 e1'
    simp only [e1', e2, Bool.false_and, Bool.false_or, if_true, hS]
    refine ⟨_, rfl, ?_, ?_⟩ <;> cases ne <;> simp [B.WF, B.eval] <;> omega
  · have e1' : isEmptyBytes a1 = false := by simpa using e1
    have e2' : isEmptyBytes a2 = false := by simpa using e2
    have n1 := nonempty_arg h1 e1'
    have n2 := nonempty_arg h2 e2'
    simp only [e1', e2', Bool.and_self, Bool.or_self]
    by_cases hw : a1.toBV.width = a2.toBV.width
    · have hl : l1 = l2 := by have := h1.width; have := h2.width; omega
      cases ne
      · refine ⟨.cmp .eq a1.toBV a2.toBV, by simp [hw], ⟨h1.wf n1, h2.wf n2, hw⟩, ?_⟩
        simp [B.eval, CmpOp.eval, h1.eval, h2.eval, hl]
        by_cases hx : x1 = x2 <;> simp [hx]
      · refine ⟨.not (.cmp .eq a1.toBV a2.toBV), by simp [hw], ⟨h1.wf n1, h2.wf n2, hw⟩, ?_⟩
        simp [B.eval, CmpOp.eval, h1.eval, h2.eval, hl]
        by_cases hx : x1 = x2 <;> simp [hx]
    · have hl : l1 ≠ l2 := by have := h1.width; have := h2.width; intro h; apply hw; omega
      simp only [hw, ne_eq, not_false_eq_true, if_true, hS, Bool.false_eq_true, if_false]
      refine ⟨_, rfl, ?_, ?_⟩ <;> cases ne <;> simp [B.WF, B.eval, hl]

/-- the order comparisons on two 32-byte operands -/
theorem mkCond_ord (I : Interp) {a1 a2 : Arg} {x1 x2 : Nat} (h1 : ArgSpec I a1 32 x1) (h2 : ArgSpec I a2 32 x2)
    {bop : String} {op : CmpOp} (hop : condOp bop = some op) (hne : bop ≠ "Eq") (hnn : bop ≠ "NotEq") :
    ∃ c, mkCond bop a1 a2 = .ok c ∧ c.WF ∧ c.eval I = op.eval 256 x1 x2 := by
  have e1 : isEmptyBytes a1 = false := by simpa using h1.empty
  have e2 : isEmptyBytes a2 = false := by simpa using h2.empty
  have w1 : a1.toBV.width = 256 := h1.width
  have w2 : a2.toBV.width = 256 := h2.width
  refine ⟨.cmp op a1.toBV a2.toBV, ?_, ⟨h1.wf (by omega), h2.wf (by omega), by rw [w1, w2]⟩, ?_⟩
  · unfold mkCond
    simp [e1, e2, w1, w2, hne, hnn, hop]
  · simp [B.eval, w1, h1.eval, h2.eval]


/-! ### the table entries seen from the Spec and from the model: one decidable check per entry -/

def kindOfOp (op : String) : Option Forge.Kind :=
  if op = "True" then some (.unary true) else if op = "False" then some (.unary false)
  else if op = "Eq" then some (.binary .eq) else if op = "NotEq" then some (.binary .notEq)
  else if op = "Lt" then some (.binary .lt) else if op = "Gt" then some (.binary .gt)
  else if op = "Le" then some (.binary .le) else if op = "Ge" then some (.binary .ge)
  else none

/-- the `bop` string `mk_assert_handler` must derive for relation `r` at base type `b` -/
def bopOf : Forge.Rel → Forge.Base → String
  | .eq, _ => "Eq"
  | .notEq, _ => "NotEq"
  | .lt, .uint256 => "ULt" | .gt, .uint256 => "UGt" | .le, .uint256 => "ULe" | .ge, .uint256 => "UGe"
  | .lt, _ => "SLt" | .gt, _ => "SGt" | .le, _ => "SLe" | .ge, _ => "SGe"

def isOrder : Forge.Rel → Bool
  | .eq | .notEq => false
  | _ => true

def msgTys (m : Bool) : List Forge.Ty := if m then [⟨.string, false⟩] else []

def entryOk (e : AssertTable.Entry) : Bool :=
  match kindOfOp e.op, Forge.parseBase e.ty.toList with
  | some (.unary ex), some .bool =>
    e.operands == 1 && !e.isArray && (decide (e.op = "True") == ex)
      && decide (Forge.parseSig e.signature = some (("assert" ++ e.op).toList, ⟨.bool, false⟩ :: msgTys e.hasMsg))
      && decide (Forge.kindOf ("assert" ++ e.op).toList = some (.unary ex))
  | some (.binary r), some b =>
    e.operands == 2 && e.bop == bopOf r b
      && ((decide (e.ty = "bytes") || decide (e.ty = "string")) == b.isDynamic)
      && (!isOrder r || ((b == .uint256 || b == .int256) && !e.isArray))
      && decide (Forge.parseSig e.signature = some (("assert" ++ e.op).toList, ⟨b, e.isArray⟩ :: ⟨b, e.isArray⟩ :: msgTys e.hasMsg))
      && decide (Forge.kindOf ("assert" ++ e.op).toList = some (.binary r))
  | _, _ => false


/-- the model's `mk_assert_handler` (`derive`) decides for this entry's signature what the extractor derived -/
def deriveOk (e : AssertTable.Entry) : Bool :=
  decide (derive e.signature = some ⟨e.op, e.operands, e.ty, e.isArray, e.hasMsg, e.bop⟩)

/-! ### decoder reads vs extractor reads -/

theorem slice_drop (buf : List Nat) (k p n : Nat) : Forge.slice (buf.drop k) p n = Forge.slice buf (k + p) n := by
  simp [Forge.slice, List.drop_drop]

/-- a word the decoder reads inside the arguments is the word the extractor reads at `4 +` that position -/
theorem readWord_drop4 {buf : List Nat} {p h : Nat} (hr : Forge.readWord (buf.drop 4) p = some h) :
    h = Assertions.beNat (zread buf (4 + p) 32) ∧ 4 + p + 32 ≤ buf.length := by
  unfold Forge.readWord at hr
  split at hr
  · next hle =>
    simp only [List.length_drop] at hle
    have hb : 4 + p + 32 ≤ buf.length := by omega
    simp only [Option.some.injEq] at hr
    rw [zread_eq_slice hb, ← hr, slice_drop]
    exact ⟨rfl, hb⟩
  · simp at hr

theorem listEq_iff {α : Type} [DecidableEq α] (a b : List α) : Forge.listEq a b = true ↔ a = b := by
  induction a generalizing b with
  | nil => cases b <;> simp [Forge.listEq]
  | cons x xs ih => cases b with
    | nil => simp [Forge.listEq]
    | cons y ys => simp [Forge.listEq, ih]

theorem listEq_decide {α : Type} [DecidableEq α] (a b : List α) : Forge.listEq a b = decide (a = b) := by
  by_cases h : a = b
  · simp [h, (listEq_iff b b).mpr rfl]
  · have : Forge.listEq a b ≠ true := fun hh => h ((listEq_iff a b).mp hh)
    simp [h, this]

theorem decodeArg_static {args : List Nat} {b : Forge.Base} (hb : b.isDynamic = false) {hp : Nat} {v : Forge.Val}
    (h : Forge.decodeArg args ⟨b, false⟩ hp = some v) : ∃ w, Forge.readWord args hp = some w ∧ v = .word w := by
  unfold Forge.decodeArg at h
  cases hr : Forge.readWord args hp with
  | none => simp [hr] at h
  | some w => simp [hr, hb] at h; exact ⟨w, rfl, h.symm⟩

/-- two static operands: the decoded values are the words at calldata offsets 4 and 36 -/
theorem decode_static2 {buf : List Nat} {b : Forge.Base} (hb : b.isDynamic = false) {rest : List Forge.Ty}
    {vals : List Forge.Val}
    (h : Forge.decodeArgs (buf.drop 4) (⟨b, false⟩ :: ⟨b, false⟩ :: rest) 0 = some vals) :
    ∃ tl, vals = .word (Assertions.beNat (zread buf 4 32)) :: .word (Assertions.beNat (zread buf 36 32)) :: tl := by
  simp only [Forge.decodeArgs] at h
  cases h1 : Forge.decodeArg (buf.drop 4) ⟨b, false⟩ 0 with
  | none => simp [h1] at h
  | some v1 =>
    cases h2 : Forge.decodeArg (buf.drop 4) ⟨b, false⟩ (0 + 32) with
    | none => simp [h1, h2] at h
    | some v2 =>
      cases h3 : Forge.decodeArgs (buf.drop 4) rest (0 + 32 + 32) with
      | none => simp [h1, h2, h3] at h
      | some tl =>
        simp [h1, h2, h3] at h
        obtain ⟨w1, r1, rfl⟩ := decodeArg_static hb h1
        obtain ⟨w2, r2, rfl⟩ := decodeArg_static hb h2
        have e1 := (readWord_drop4 r1).1
        have e2 := (readWord_drop4 r2).1
        exact ⟨tl, by rw [← h, e1, e2]⟩

theorem decode_static1 {buf : List Nat} {b : Forge.Base} (hb : b.isDynamic = false) {rest : List Forge.Ty}
    {vals : List Forge.Val}
    (h : Forge.decodeArgs (buf.drop 4) (⟨b, false⟩ :: rest) 0 = some vals) :
    ∃ tl, vals = .word (Assertions.beNat (zread buf 4 32)) :: tl := by
  simp only [Forge.decodeArgs] at h
  cases h1 : Forge.decodeArg (buf.drop 4) ⟨b, false⟩ 0 with
  | none => simp [h1] at h
  | some v1 =>
    cases h3 : Forge.decodeArgs (buf.drop 4) rest (0 + 32) with
    | none => simp [h1, h3] at h
    | some tl =>
      simp [h1, h3] at h
      obtain ⟨w1, r1, rfl⟩ := decodeArg_static hb h1
      exact ⟨tl, by rw [← h, (readWord_drop4 r1).1]⟩

/-! ### the handlers -/

theorem bind_msg_ok {m : Except Err B} {k : Except Err Unit} {c : B}
    (h : (m >>= fun c => k >>= fun _ => pure c) = .ok c) : m = .ok c := by
  cases m with
  | error e => simp [bind, Except.bind] at h
  | ok c' =>
    cases k with
    | error e => simp [bind, Except.bind] at h
    | ok u => simp [bind, Except.bind, pure, Except.pure] at h; rw [h]

theorem vmAssertBinary_static {s : Simp} {bop ty : String} {log : Bool} {d : Calldata} {c : B}
    (hty : (decide (ty = "bytes") || decide (ty = "string")) = false)
    (h : vmAssertBinary s bop ty false log d = .ok c) :
    mkCond bop (extractBytes s d 4 32) (extractBytes s d 36 32) = .ok c := by
  unfold vmAssertBinary at h
  simp only [hty, Bool.not_false, if_true, AssertTable.off1, AssertTable.off2, AssertTable.word] at h
  exact bind_msg_ok h

theorem vmAssertUnary_ok {s : Simp} {ex log : Bool} {d : Calldata} {c : B}
    (h : vmAssertUnary s ex log d = .ok c) : c = unaryCond s d ex := by
  unfold vmAssertUnary at h
  have : (pure (unaryCond s d ex) : Except Err B) = .ok c := bind_msg_ok (m := pure (unaryCond s d ex)) h
  simp only [pure, Except.pure, Except.ok.injEq] at this
  exact this.symm

/-- `test(uint256(arg.get_word(4)), expected)`: "the word at offset 4 is non-zero" == expected -/
theorem unaryCond_eval {s : Simp} (hs : SimpSound s) (I : Interp) {d : Calldata} (hd : CDWF d) (ex : Bool) :
    (unaryCond s d ex).eval I = (decide (Assertions.beNat (zread (evalCD I d) 4 32) ≠ 0) == ex) := by
  have sp := extractBytes_spec hs I hd 4 32
  unfold unaryCond
  simp only [AssertTable.unaryOff]
  generalize extractBytes s d 4 32 = a at sp
  cases a with
  | bytes bs =>
    have := sp.int _ rfl
    simp only [B.eval]; rw [this]
  | num w n =>
    have := sp.int _ rfl
    simp only [B.eval]; rw [this]
  | term t =>
    have hw : t.width = 256 := sp.width
    have hwf : t.WF := sp.wf (by omega)
    have he : t.eval I = _ := sp.eval
    have hz : (B.cmp .eq (s.t t) (.lit 256 0)).WF := ⟨hs.wfT _ hwf, by simp [T.WF], by rw [hs.widthT _ hwf, hw]; rfl⟩
    have hzv : (B.cmp .eq (s.t t) (.lit 256 0)).eval I = decide (Assertions.beNat (zread (evalCD I d) 4 32) = 0) := by
      simp only [B.eval, CmpOp.eval, T.eval, hs.evalT I _ hwf, he]
      generalize Assertions.beNat (zread (evalCD I d) 4 32) = x
      by_cases hx : x = 0 <;> simp [hx]
    cases ex
    · simp only [Bool.false_eq_true, if_false]
      rw [hs.evalB I _ hz, hzv]; simp
    · simp only [if_true]
      rw [hs.evalB I (B.not (B.cmp .eq (s.t t) (.lit 256 0))) hz]
      show (!(B.cmp .eq (s.t t) (.lit 256 0)).eval I) = _
      rw [hzv]; simp

end HalmosVerif.Lemmas.Assertions
