/-
Lemmas.AssertionsBranch — helper lemmas for C13: `Path.append`, the `vm.assume` condition, the worklist run.
-/
import HalmosVerif.Lemmas.Assertions

namespace HalmosVerif.Lemmas.Assertions
open HalmosVerif.Model HalmosVerif.Model.Assertions HalmosVerif.Spec HalmosVerif.Gen

/-- an interpretation satisfies a path condition -/
def conj (I : Interp) (π : List B) : Prop := ∀ c ∈ π, c.eval I = true

/-- the structural membership test is only ever positive for a condition that is present -/
def MemSound (mem : B → List B → Bool) : Prop := ∀ c π, mem c π = true → c ∈ π

theorem conj_append (I : Interp) (π : List B) (c : B) : conj I (π ++ [c]) ↔ conj I π ∧ c.eval I = true := by
  simp only [conj, List.mem_append, List.mem_singleton]
  constructor
  · intro h; exact ⟨fun x hx => h x (Or.inl hx), h c (Or.inr rfl)⟩
  · rintro ⟨h1, h2⟩ x (hx | rfl)
    · exact h1 x hx
    · exact h2

/-- `Path.append(c)` means "and c" -/
theorem pathAppend_conj {s : Simp} (hs : SimpSound s) {mem : B → List B → Bool} (hm : MemSound mem) (I : Interp)
    (π : List B) {c : B} (hc : c.WF) : conj I (pathAppend s mem π c) ↔ conj I π ∧ c.eval I = true := by
  have hv : (s.b c).eval I = c.eval I := hs.evalB I c hc
  unfold pathAppend
  split
  · next heq =>
    rw [heq] at hv
    simp only [B.eval] at hv
    simp [← hv]
  · next hne =>
    by_cases hmm : mem (s.b c) π = true
    · simp only [hmm, if_true]
      have := hm _ _ hmm
      constructor
      · intro h; exact ⟨h, by rw [← hv]; exact h _ this⟩
      · exact fun h => h.1
    · simp only [hmm, Bool.false_eq_true, if_false]
      rw [conj_append, hv]

/-- the `vm.assume` condition says "the argument word is non-zero" -/
theorem assumeCond_eval {s : Simp} (hs : SimpSound s) (I : Interp) {d : Calldata} (hd : CDWF d) :
    (assumeCond s d).eval I = decide (Assertions.beNat (zread (evalCD I d) 4 32) ≠ 0) ∧ (assumeCond s d).WF := by
  have sp := extractBytes_spec hs I hd 4 32
  unfold assumeCond
  generalize extractBytes s d 4 32 = a at sp
  cases a with
  | bytes bs => have := sp.int _ rfl; simp only [B.eval, B.WF, and_true]; rw [this]
  | num w n => have := sp.int _ rfl; simp only [B.eval, B.WF, and_true]; rw [this]
  | term t =>
    have hw : t.width = 256 := sp.width
    have hwf : t.WF := sp.wf (by omega)
    have he : t.eval I = _ := sp.eval
    have hz : (B.not (B.cmp .eq (s.t t) (.lit 256 0))).WF :=
      ⟨hs.wfT _ hwf, by simp [T.WF], by rw [hs.widthT _ hwf, hw]; rfl⟩
    have hz1 := hs.wfB _ hz
    refine ⟨?_, hs.wfB _ hz1⟩
    simp only
    rw [hs.evalB I _ hz1, hs.evalB I _ hz]
    show (!(B.cmp .eq (s.t t) (.lit 256 0)).eval I) = _
    simp only [B.eval, CmpOp.eval, T.eval, hs.evalT I _ hwf, he]
    generalize Assertions.beNat (zread (evalCD I d) 4 32) = x
    by_cases hx : x = 0 <;> simp [hx]

/-- the Spec's `vm.assume` on calldata that holds the argument word -/
theorem runAssume_spec {buf : List Nat} (h : 36 ≤ buf.length) :
    Forge.runAssume buf = if Assertions.beNat (zread buf 4 32) ≠ 0 then .continues else .discarded := by
  have hr : Forge.readWord (buf.drop 4) 0 = some (Assertions.beNat (zread buf 4 32)) := by
    unfold Forge.readWord
    have : 0 + 32 ≤ (buf.drop 4).length := by simp; omega
    rw [if_pos this, zread_eq_slice (by omega), slice_drop]
    rfl
  unfold Forge.runAssume
  simp [Forge.decodeArgs, Forge.decodeArg, hr, Forge.Base.isDynamic]

/-! ### the worklist -/

theorem runN_mono (exec : Item → StepOut) : ∀ (n : Nat) (wl ys : List Item) (y : Item), y ∈ ys → y ∈ (runN exec n wl ys).2
  | 0, _, _, _, h => h
  | _ + 1, [], _, _, h => h
  | n + 1, it :: wl, ys, y, h => by
    unfold runN
    split
    · exact runN_mono exec n wl _ y (List.mem_append_left _ h)
    · exact runN_mono exec n wl _ y h
    · exact runN_mono exec n _ _ y h

theorem onFail_isFail (it : Item) (h : it.ctx.halted = true → it.ctx.error = some .failCheatcode) :
    isGlobalFailSet (onFailCheatcode it).ctx = true := by
  unfold onFailCheatcode
  by_cases hh : it.ctx.halted = true
  · simp only [hh, if_true]
    have := h hh
    cases hc : it.ctx with
    | mk e hl subs => rw [hc] at this; simp [Ctx.error] at this; simp [isGlobalFailSet, this]
  · simp only [hh, Bool.false_eq_true, if_false]
    cases hc : it.ctx with
    | mk e hl subs => simp [Ctx.haltFail, isGlobalFailSet]

end HalmosVerif.Lemmas.Assertions
