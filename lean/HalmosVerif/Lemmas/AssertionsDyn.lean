/-
Lemmas.AssertionsDyn — helper lemmas for C13, dynamic operands: `extract_bytes_argument` / `extract_bytes32_array_argument`
against the ABI decoder's `bytes` / `T[]` readers (concrete offsets and lengths).
-/
import HalmosVerif.Lemmas.Assertions

namespace HalmosVerif.Lemmas.Assertions
open HalmosVerif.Model HalmosVerif.Model.Assertions HalmosVerif.Spec HalmosVerif.Gen

/-! ### `bv_value_to_bytes` -/

theorem toBE_length (n x : Nat) : (toBE n x).length = n := by
  induction n with
  | zero => rfl
  | succ n ih => simp [toBE, ih]

theorem toBE_bytes (n x : Nat) : Bytes (toBE n x) := by
  induction n with
  | zero => intro b h; simp [toBE] at h
  | succ n ih =>
    intro b h
    simp only [toBE, List.mem_cons] at h
    rcases h with rfl | h
    · exact Nat.mod_lt _ (by omega)
    · exact ih b h

theorem beNat_toBE (n x : Nat) : Assertions.beNat (toBE n x) = x % 256 ^ n := by
  induction n with
  | zero => simp [toBE, beNat_nil, Nat.mod_one]
  | succ n ih =>
    simp only [toBE]
    rw [beNat_cons, toBE_length, ih, Nat.pow_succ, Nat.mod_mul]
    rw [Nat.mul_comm, Nat.add_comm]

theorem numToBytes_spec {I : Interp} {a : Arg} {l x : Nat} (h : ArgSpec I a l x) : ArgSpec I (numToBytes a) l x := by
  cases a with
  | bytes bs => exact h
  | term t => exact h
  | num w n =>
    have hw : w = 8 * l := h.width
    have hx : n % 2 ^ w = x := h.eval
    simp only [numToBytes]
    have hl : w / 8 = l := by omega
    rw [hl]
    have := bytes_argSpec I (toBE_bytes l (n % 2 ^ w))
    rw [toBE_length, beNat_toBE] at this
    have hmod : n % 2 ^ w % 256 ^ l = x := by
      rw [pow256, ← hw, Nat.mod_mod, hx]
    rw [hmod] at this
    exact this

/-! ### the extractors with concrete offset and length -/

theorem empty_argSpec (I : Interp) : ArgSpec I (.bytes []) 0 0 := by
  have := bytes_argSpec I (ns := []) (by intro b h; simp at h)
  simpa [beNat_nil] using this

theorem zread_zero (buf : List Nat) (off : Nat) : zread buf off 0 = [] := rfl

theorem extractBytesArgument_spec {s : Simp} (hs : SimpSound s) (I : Interp) {d : Calldata} (hd : CDWF d) (idx : Nat)
    {a : Arg} (h : extractBytesArgument s d idx = .ok a) :
    ArgSpec I a (Assertions.beNat (zread (evalCD I d) (4 + Assertions.beNat (zread (evalCD I d) (4 + idx * 32) 32)) 32))
      (Assertions.beNat (zread (evalCD I d) (4 + Assertions.beNat (zread (evalCD I d) (4 + idx * 32) 32) + 32)
        (Assertions.beNat (zread (evalCD I d) (4 + Assertions.beNat (zread (evalCD I d) (4 + idx * 32) 32)) 32)))) := by
  unfold extractBytesArgument at h
  cases ho : intOf (extractBytes s d (4 + idx * 32) 32) with
  | error e => simp [ho, bind, Except.bind] at h
  | ok off =>
    have hoff := (extractBytes_spec hs I hd (4 + idx * 32) 32).int _ ho
    subst hoff
    cases hl : intOf (extractBytes s d (4 + Assertions.beNat (zread (evalCD I d) (4 + idx * 32) 32)) 32) with
    | error e => simp [ho, hl, bind, Except.bind] at h
    | ok len =>
      have hlen := (extractBytes_spec hs I hd _ 32).int _ hl
      subst hlen
      simp only [ho, hl, bind, Except.bind] at h
      split at h
      · next hz =>
        simp only [pure, Except.pure, Except.ok.injEq] at h
        subst h
        rw [hz, zread_zero, beNat_nil]
        exact empty_argSpec I
      · next hz =>
        unfold extractDyn at h
        split at h
        · simp [Functor.map, Except.map] at h
        · simp only [Functor.map, Except.map, Except.ok.injEq] at h
          subst h
          exact numToBytes_spec (extractBytes_spec hs I hd _ _)

theorem extractBytes32Array_spec {s : Simp} (hs : SimpSound s) (I : Interp) {d : Calldata} (hd : CDWF d) (idx : Nat)
    {a : Arg} (h : extractBytes32Array s d idx = .ok a) :
    ArgSpec I a (Assertions.beNat (zread (evalCD I d) (4 + Assertions.beNat (zread (evalCD I d) (4 + idx * 32) 32)) 32) * 32)
      (Assertions.beNat (zread (evalCD I d) (4 + Assertions.beNat (zread (evalCD I d) (4 + idx * 32) 32) + 32)
        (Assertions.beNat (zread (evalCD I d) (4 + Assertions.beNat (zread (evalCD I d) (4 + idx * 32) 32)) 32) * 32))) := by
  unfold extractBytes32Array at h
  cases ho : intOf (extractBytes s d (4 + idx * 32) 32) with
  | error e => simp [ho, bind, Except.bind] at h
  | ok off =>
    have hoff := (extractBytes_spec hs I hd (4 + idx * 32) 32).int _ ho
    subst hoff
    cases hl : intOf (extractBytes s d (4 + Assertions.beNat (zread (evalCD I d) (4 + idx * 32) 32)) 32) with
    | error e => simp [ho, hl, bind, Except.bind] at h
    | ok len =>
      have hlen := (extractBytes_spec hs I hd _ 32).int _ hl
      subst hlen
      simp only [ho, hl, bind, Except.bind] at h
      split at h
      · next hz =>
        simp only [pure, Except.pure, Except.ok.injEq] at h
        subst h
        rw [hz, Nat.zero_mul, zread_zero, beNat_nil]
        exact empty_argSpec I
      · next hz =>
        unfold extractDyn at h
        split at h
        · simp at h
        · simp only [Except.ok.injEq] at h
          subst h
          exact extractBytes_spec hs I hd _ _


/-! ### the decoder's readers -/

theorem decodeArg_bytes {args : List Nat} {b : Forge.Base} (hb : b.isDynamic = true) {hp : Nat} {v : Forge.Val}
    (h : Forge.decodeArg args ⟨b, false⟩ hp = some v) :
    ∃ o n, Forge.readWord args hp = some o ∧ Forge.readWord args o = some n ∧ o + 32 + n ≤ args.length ∧
      v = .bytes (Forge.slice args (o + 32) n) := by
  unfold Forge.decodeArg at h
  cases hr : Forge.readWord args hp with
  | none => simp [hr] at h
  | some o =>
    simp only [hr, hb] at h
    unfold Forge.readBytes at h
    cases hn : Forge.readWord args o with
    | none => simp [hn] at h
    | some n =>
      simp only [hn] at h
      split at h
      · next hle => simp at h; exact ⟨o, n, rfl, hn, hle, h.symm⟩
      · simp at h

theorem decodeArg_arr {args : List Nat} {b : Forge.Base} (hb : b.isDynamic = false) {hp : Nat} {v : Forge.Val}
    (h : Forge.decodeArg args ⟨b, true⟩ hp = some v) :
    ∃ o n ws, Forge.readWord args hp = some o ∧ Forge.readWord args o = some n ∧
      Forge.readWords args (o + 32) n = some ws ∧ v = .words ws := by
  unfold Forge.decodeArg at h
  cases hr : Forge.readWord args hp with
  | none => simp [hr] at h
  | some o =>
    simp only [hr, hb] at h
    unfold Forge.readArr at h
    cases hn : Forge.readWord args o with
    | none => simp [hn] at h
    | some n =>
      simp only [hn] at h
      cases hw : Forge.readWords args (o + 32) n with
      | none => simp [hw] at h
      | some ws => simp [hw] at h; exact ⟨o, n, ws, rfl, hn, hw, h.symm⟩

theorem readWords_succ {a : List Nat} {p n : Nat} {ws : List Nat} (h : Forge.readWords a p (n + 1) = some ws) :
    ∃ w t, Forge.readWord a p = some w ∧ Forge.readWords a (p + 32) n = some t ∧ ws = w :: t := by
  simp only [Forge.readWords] at h
  cases hw : Forge.readWord a p with
  | none => simp [hw] at h
  | some w =>
    cases ht : Forge.readWords a (p + 32) n with
    | none => simp [hw, ht] at h
    | some t => simp [hw, ht] at h; exact ⟨w, t, rfl, rfl, h.symm⟩

theorem readWord_some {a : List Nat} {p w : Nat} (h : Forge.readWord a p = some w) :
    p + 32 ≤ a.length ∧ w = Assertions.beNat (Forge.slice a p 32) := by
  unfold Forge.readWord at h
  split at h
  · next hle => simp at h; exact ⟨hle, h.symm⟩
  · simp at h

theorem readWords_length {a : List Nat} : ∀ {n p : Nat} {ws : List Nat}, Forge.readWords a p n = some ws → ws.length = n
  | 0, _, _, h => by simp [Forge.readWords] at h; simp [← h]
  | n + 1, p, ws, h => by
    obtain ⟨w, t, _, ht, rfl⟩ := readWords_succ h
    simp [readWords_length ht]

theorem readWords_bound {a : List Nat} : ∀ {n p : Nat} {ws : List Nat}, Forge.readWords a p n = some ws → n ≠ 0 →
    p + 32 * n ≤ a.length
  | 0, _, _, _, h => absurd rfl h
  | n + 1, p, ws, h, _ => by
    obtain ⟨w, t, hw, ht, rfl⟩ := readWords_succ h
    have hb := (readWord_some hw).1
    by_cases hn : n = 0
    · subst hn; omega
    · have := readWords_bound ht hn; omega

theorem slice_split (a : List Nat) (p m : Nat) :
    Forge.slice a p (32 + m) = Forge.slice a p 32 ++ Forge.slice a (p + 32) m := by
  simp only [Forge.slice]
  rw [List.take_add, List.drop_drop]

/-- same number of words read at two places: the word lists agree iff the underlying byte blocks agree -/
theorem readWords_inj {a : List Nat} (ha : Bytes a) : ∀ {n p q : Nat} {ws1 ws2 : List Nat},
    Forge.readWords a p n = some ws1 → Forge.readWords a q n = some ws2 →
    (ws1 = ws2 ↔ Forge.slice a p (32 * n) = Forge.slice a q (32 * n))
  | 0, p, q, ws1, ws2, h1, h2 => by
    simp [Forge.readWords] at h1 h2
    subst h1 h2
    simp [Forge.slice]
  | n + 1, p, q, ws1, ws2, h1, h2 => by
    obtain ⟨w1, t1, hw1, ht1, rfl⟩ := readWords_succ h1
    obtain ⟨w2, t2, hw2, ht2, rfl⟩ := readWords_succ h2
    obtain ⟨hb1, rfl⟩ := readWord_some hw1
    obtain ⟨hb2, rfl⟩ := readWord_some hw2
    have ih := readWords_inj ha ht1 ht2
    have e : 32 * (n + 1) = 32 + 32 * n := by omega
    rw [e, slice_split, slice_split]
    have l1 := slice_length hb1
    have l2 := slice_length hb2
    constructor
    · intro h
      simp only [List.cons.injEq] at h
      have := beNat_inj (slice_bytes ha p 32) (slice_bytes ha q 32) (by rw [l1, l2]) h.1
      rw [this, ih.mp h.2]
    · intro h
      have := List.append_inj h (by rw [l1, l2])
      rw [this.1, ih.mpr this.2]

/-- byte strings: "same length and same big-endian value" is equality -/
theorem bytes_eq_iff {B1 B2 : List Nat} (h1 : Bytes B1) (h2 : Bytes B2) :
    (B1.length = B2.length ∧ Assertions.beNat B1 = Assertions.beNat B2) ↔ B1 = B2 :=
  ⟨fun h => beNat_inj h1 h2 h.1 h.2, fun h => by subst h; exact ⟨rfl, rfl⟩⟩


/-! ### the handlers on dynamic operands -/

theorem decodeArgs_two {args : List Nat} {t : Forge.Ty} {rest : List Forge.Ty} {vals : List Forge.Val}
    (h : Forge.decodeArgs args (t :: t :: rest) 0 = some vals) :
    ∃ v1 v2 tl, Forge.decodeArg args t 0 = some v1 ∧ Forge.decodeArg args t 32 = some v2 ∧ vals = v1 :: v2 :: tl := by
  simp only [Forge.decodeArgs] at h
  cases h1 : Forge.decodeArg args t 0 with
  | none => simp [h1] at h
  | some v1 =>
    cases h2 : Forge.decodeArg args t (0 + 32) with
    | none => simp [h1, h2] at h
    | some v2 =>
      cases h3 : Forge.decodeArgs args rest (0 + 32 + 32) with
      | none => simp [h1, h2, h3] at h
      | some tl => simp [h1, h2, h3] at h; exact ⟨v1, v2, tl, rfl, (by rw [Nat.zero_add] at h2), h.symm⟩

theorem bind3_ok {m1 m2 : Except Err Arg} {f : Arg → Arg → Except Err B} {k : Except Err Unit} {c : B}
    (h : (m1 >>= fun v1 => m2 >>= fun v2 => f v1 v2 >>= fun c => k >>= fun _ => pure c) = .ok c) :
    ∃ a1 a2, m1 = .ok a1 ∧ m2 = .ok a2 ∧ f a1 a2 = .ok c := by
  cases m1 with
  | error e => simp [bind, Except.bind] at h
  | ok a1 =>
    cases m2 with
    | error e => simp [bind, Except.bind] at h
    | ok a2 =>
      refine ⟨a1, a2, rfl, rfl, ?_⟩
      exact bind_msg_ok (m := f a1 a2) (k := k) h

theorem vmAssertBinary_bytes {s : Simp} {bop ty : String} {log : Bool} {d : Calldata} {c : B}
    (hty : (decide (ty = "bytes") || decide (ty = "string")) = true)
    (h : vmAssertBinary s bop ty false log d = .ok c) :
    ∃ a1 a2, extractBytesArgument s d 0 = .ok a1 ∧ extractBytesArgument s d 1 = .ok a2 ∧ mkCond bop a1 a2 = .ok c := by
  unfold vmAssertBinary at h
  simp only [hty, Bool.not_false, Bool.not_true, if_true, Bool.false_eq_true, if_false] at h
  exact bind3_ok h

theorem vmAssertBinary_array {s : Simp} {bop ty : String} {log : Bool} {d : Calldata} {c : B}
    (hty : (decide (ty = "bytes") || decide (ty = "string")) = false)
    (h : vmAssertBinary s bop ty true log d = .ok c) :
    ∃ a1 a2, extractBytes32Array s d 0 = .ok a1 ∧ extractBytes32Array s d 1 = .ok a2 ∧ mkCond bop a1 a2 = .ok c := by
  unfold vmAssertBinary at h
  simp only [hty, Bool.not_false, Bool.not_true, if_true, Bool.false_eq_true, if_false] at h
  exact bind3_ok h

theorem vmAssertBinary_bytesArray {s : Simp} {bop ty : String} {log : Bool} {d : Calldata} {c : B}
    (hty : (decide (ty = "bytes") || decide (ty = "string")) = true) :
    vmAssertBinary s bop ty true log d ≠ .ok c := by
  unfold vmAssertBinary
  simp [hty]

/-- a decoded `bytes` operand is the block the extractor reads -/
theorem dyn_block {buf : List Nat} {hp o n : Nat} (ho : Forge.readWord (buf.drop 4) hp = some o)
    (hn : Forge.readWord (buf.drop 4) o = some n) :
    o = Assertions.beNat (zread buf (4 + hp) 32) ∧ n = Assertions.beNat (zread buf (4 + o) 32) ∧ 4 ≤ buf.length :=
  ⟨(readWord_drop4 ho).1, (readWord_drop4 hn).1, by have := (readWord_drop4 ho).2; omega⟩


theorem arr_block {buf : List Nat} {o n : Nat} {ws : List Nat}
    (hw : Forge.readWords (buf.drop 4) (o + 32) n = some ws) (hl : 4 ≤ buf.length) :
    zread buf (4 + o + 32) (n * 32) = Forge.slice (buf.drop 4) (o + 32) (32 * n) ∧
      (Forge.slice (buf.drop 4) (o + 32) (32 * n)).length = n * 32 := by
  by_cases hn : n = 0
  · subst hn; simp [zread, Forge.slice]
  · have hb := readWords_bound hw hn
    simp only [List.length_drop] at hb
    constructor
    · rw [Nat.mul_comm n 32, zread_eq_slice (by omega), slice_drop]; congr 1 <;> omega
    · rw [slice_length (by simp; omega)]; omega

theorem words_eq_iff {a : List Nat} (ha : Bytes a) {p q n1 n2 : Nat} {ws1 ws2 : List Nat}
    (h1 : Forge.readWords a p n1 = some ws1) (h2 : Forge.readWords a q n2 = some ws2)
    (l1 : (Forge.slice a p (32 * n1)).length = n1 * 32) (l2 : (Forge.slice a q (32 * n2)).length = n2 * 32) :
    ws1 = ws2 ↔ Forge.slice a p (32 * n1) = Forge.slice a q (32 * n2) := by
  by_cases hn : n1 = n2
  · subst hn; exact readWords_inj ha h1 h2
  · have hl1 := readWords_length h1
    have hl2 := readWords_length h2
    constructor
    · intro h; rw [h] at hl1; omega
    · intro h; rw [h] at l1; omega

end HalmosVerif.Lemmas.Assertions
