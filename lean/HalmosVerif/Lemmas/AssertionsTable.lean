/-
Lemmas.AssertionsTable — the per-entry check `entryOk` holds over the whole generated table
(`Gen.AssertTable.entries`): every signature parses (Spec side) to the kind / operand types that the derived fields
(model side) name, and the derived `bop` is the one the relation and the type demand.  Evaluated by the kernel in four
chunks of 20 (modules AssertionsTableA/B, built in parallel); `entries_split` fails when the table outgrows them.
-/
import HalmosVerif.Lemmas.AssertionsTableA
import HalmosVerif.Lemmas.AssertionsTableB

namespace HalmosVerif.Lemmas.Assertions
open HalmosVerif.Gen

theorem entries_split : AssertTable.entries = chunk 0 ++ chunk 1 ++ chunkB 2 ++ chunkB 3 := by decide +kernel

theorem entries_ok : AssertTable.entries.all entryOk = true := by
  rw [entries_split]
  simp only [List.all_append, chunk0_ok, chunk1_ok, chunk2_ok, chunk3_ok, Bool.and_self]

end HalmosVerif.Lemmas.Assertions
