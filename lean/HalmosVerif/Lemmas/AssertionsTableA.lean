/-
Lemmas.AssertionsTableA — kernel evaluation of `entryOk` over the first two chunks of the generated assertion table
(see Lemmas/AssertionsTable.lean).
-/
import HalmosVerif.Lemmas.Assertions

namespace HalmosVerif.Lemmas.Assertions
open HalmosVerif.Gen

def chunk (k : Nat) : List AssertTable.Entry := (AssertTable.entries.drop (20 * k)).take 20

theorem chunk0_ok : (chunk 0).all entryOk = true := by decide +kernel
theorem chunk1_ok : (chunk 1).all entryOk = true := by decide +kernel

end HalmosVerif.Lemmas.Assertions
