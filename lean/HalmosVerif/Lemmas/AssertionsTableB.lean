/-
Lemmas.AssertionsTableB — kernel evaluation of `entryOk` over the last two chunks of the generated assertion table
(see Lemmas/AssertionsTable.lean).
-/
import HalmosVerif.Lemmas.Assertions

namespace HalmosVerif.Lemmas.Assertions
open HalmosVerif.Gen

def chunkB (k : Nat) : List AssertTable.Entry := (AssertTable.entries.drop (20 * k)).take 20

theorem chunk2_ok : (chunkB 2).all entryOk = true := by decide +kernel
theorem chunk3_ok : (chunkB 3).all entryOk = true := by decide +kernel

end HalmosVerif.Lemmas.Assertions
