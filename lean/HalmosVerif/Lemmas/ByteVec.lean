/-
Lemmas.ByteVec — helper lemmas for Props.C07: the key-sorted association list (`setKey`, `bisectRight`,
`delRange`) on contiguous chunk lists, lawful chunk operations, and the refinement of each `BVec` method
to the flat array `Spec.Flat`.
-/
import HalmosVerif.Model.ByteVec

namespace HalmosVerif.Model.BV
open HalmosVerif.Spec

/-! ## Lawful chunk operations -/

structure Lawful {C : Type} (O : ChunkOps C) : Prop where
  bytes_len : ∀ c, (O.bytes c).length = O.len c
  bytes_slice : ∀ c a b, a ≤ b → b ≤ O.len c → O.bytes (O.slice c a b) = ((O.bytes c).take b).drop a
  byteAt_eq : ∀ c i, i < O.len c → O.byteAt c i = (O.bytes c).getD i Byte.zero
  parts_bytes : ∀ c, (O.parts c).flatMap O.bytes = O.bytes c
  zeros_bytes : ∀ n, O.bytes (O.zeros n) = Flat.zeros n
  subst_bytes : ∀ σ c, O.bytes (O.subst σ c) = (O.bytes c).map (Byte.subst σ)

theorem Leaf.byteAt_slice (c : Leaf) (a b i : Nat) : (Leaf.slice c a b).byteAt i = c.byteAt (a + i) := by
  cases c <;> simp [Leaf.slice, Piece.byteAt, Nat.add_assoc]

theorem Leaf.len_slice (c : Leaf) (a b : Nat) : (Leaf.slice c a b).len = b - a := by
  cases c <;> simp [Leaf.slice, Piece.len]

theorem leafOps_lawful : Lawful leafOps where
  bytes_len := by intro c; simp [leafOps, Piece.bytes]
  bytes_slice := by
    intro c a b hab hb
    apply List.ext_getElem
    · simp [leafOps, Piece.bytes, Leaf.len_slice]; simp [leafOps] at hb; omega
    · intro i h1 h2
      simp [leafOps, Piece.bytes, Leaf.byteAt_slice]
  byteAt_eq := by
    intro c i hi
    simp [leafOps] at hi
    simp [leafOps, Piece.bytes, List.getD_eq_getElem?_getD, hi]
  parts_bytes := by intro c; simp [leafOps]
  zeros_bytes := by
    intro n
    apply List.ext_getElem
    · simp [leafOps, Piece.bytes, Leaf.zeros, Piece.len, Flat.zeros]
    · intro i h1 h2
      simp [leafOps, Piece.bytes, Leaf.zeros, Piece.len] at h1
      simp [leafOps, Piece.bytes, Leaf.zeros, Piece.byteAt, Flat.zeros, Byte.zero, h1]
  subst_bytes := by
    intro σ c
    cases c with
    | conc d s l => simp [leafOps, Leaf.subst, Piece.bytes, Piece.len, Piece.byteAt, Byte.subst]
    | symb x n s l =>
      simp only [leafOps, Leaf.subst]
      cases h : σ x <;> simp [Piece.bytes, Piece.len, Piece.byteAt, Byte.subst, h]

/-! ## Contiguous chunk lists -/

section
variable {C : Type} (O : ChunkOps C)

/-- chunk keys are contiguous from `o` and no chunk is empty -/
def Contig : Nat → List (Nat × C) → Prop
  | _, [] => True
  | o, (k, c) :: r => k = o ∧ 0 < O.len c ∧ Contig (o + O.len c) r

def total : List (Nat × C) → Nat
  | [] => 0
  | (_, c) :: r => O.len c + total r

/-- the flattened content of a chunk list -/
def flat (l : List (Nat × C)) : List Byte := l.flatMap fun e => O.bytes e.2

/-- `_well_formed` -/
def WF (bv : BVec C) : Prop := Contig O 0 bv.chunks ∧ total O bv.chunks = bv.length

@[simp] theorem total_nil : total O ([] : List (Nat × C)) = 0 := rfl
@[simp] theorem total_cons (e : Nat × C) (r) : total O (e :: r) = O.len e.2 + total O r := by
  cases e; rfl
@[simp] theorem flat_nil : flat O ([] : List (Nat × C)) = [] := rfl
@[simp] theorem flat_cons (e : Nat × C) (r) : flat O (e :: r) = O.bytes e.2 ++ flat O r := by
  simp [flat]
@[simp] theorem flat_append (a b : List (Nat × C)) : flat O (a ++ b) = flat O a ++ flat O b := by
  simp [flat]
@[simp] theorem total_append (a b : List (Nat × C)) : total O (a ++ b) = total O a + total O b := by
  induction a with
  | nil => simp
  | cons e r ih => simp [ih, Nat.add_assoc]

theorem contig_cons (o : Nat) (e : Nat × C) (r) :
    Contig O o (e :: r) ↔ e.1 = o ∧ 0 < O.len e.2 ∧ Contig O (o + O.len e.2) r := by
  cases e; rfl

theorem contig_append (o : Nat) (a b : List (Nat × C)) :
    Contig O o (a ++ b) ↔ Contig O o a ∧ Contig O (o + total O a) b := by
  induction a generalizing o with
  | nil => simp [Contig]
  | cons e r ih =>
    simp only [List.cons_append, contig_cons, ih, total_cons, Nat.add_assoc]
    constructor
    · rintro ⟨h1, h2, h3, h4⟩; exact ⟨⟨h1, h2, h3⟩, h4⟩
    · rintro ⟨⟨h1, h2, h3⟩, h4⟩; exact ⟨h1, h2, h3, h4⟩

theorem flat_length (hO : Lawful O) (l : List (Nat × C)) : (flat O l).length = total O l := by
  induction l with
  | nil => rfl
  | cons e r ih => simp [ih, hO.bytes_len]

/-- every key of a contiguous list lies in `[o, o + total)`, and its chunk ends within -/
theorem contig_mem {o : Nat} {l : List (Nat × C)} (h : Contig O o l) :
    ∀ e ∈ l, o ≤ e.1 ∧ e.1 + O.len e.2 ≤ o + total O l ∧ 0 < O.len e.2 := by
  induction l generalizing o with
  | nil => simp
  | cons x r ih =>
    rw [contig_cons] at h
    obtain ⟨h1, h2, h3⟩ := h
    intro e he
    rcases List.mem_cons.1 he with rfl | he
    · simp only [total_cons]; omega
    · have := ih h3 e he
      simp only [total_cons]; omega

theorem contig_key_lt {o : Nat} {l : List (Nat × C)} (h : Contig O o l) :
    ∀ e ∈ l, e.1 < o + total O l := by
  intro e he
  have := contig_mem O h e he
  omega

end

/-! ## The sorted dictionary -/

section
variable {C : Type}

theorem setKey_append_of_lt (P B : List (Nat × C)) (k : Nat) (v : C) (h : ∀ e ∈ P, e.1 < k) :
    setKey (P ++ B) k v = P ++ setKey B k v := by
  induction P with
  | nil => rfl
  | cons x r ih =>
    obtain ⟨k', v'⟩ := x
    have hk : k' < k := h (k', v') (by simp)
    have hr : ∀ e ∈ r, e.1 < k := fun e he => h e (by simp [he])
    simp only [List.cons_append, setKey]
    rw [if_neg (by omega), if_neg (by omega), ih hr]

theorem setKey_of_lt_all (B : List (Nat × C)) (k : Nat) (v : C) (h : ∀ e ∈ B, k < e.1) :
    setKey B k v = (k, v) :: B := by
  cases B with
  | nil => rfl
  | cons x r =>
    obtain ⟨k', v'⟩ := x
    have : k < k' := h (k', v') (by simp)
    simp [setKey, this]

/-- insertion between two blocks -/
theorem setKey_between (P B : List (Nat × C)) (k : Nat) (v : C)
    (hP : ∀ e ∈ P, e.1 < k) (hB : ∀ e ∈ B, k < e.1) :
    setKey (P ++ B) k v = P ++ (k, v) :: B := by
  rw [setKey_append_of_lt P B k v hP, setKey_of_lt_all B k v hB]

/-- replacement of an existing key -/
theorem setKey_replace (P B : List (Nat × C)) (k : Nat) (x v : C) (hP : ∀ e ∈ P, e.1 < k) :
    setKey (P ++ (k, x) :: B) k v = P ++ (k, v) :: B := by
  rw [setKey_append_of_lt P _ k v hP]
  simp [setKey]

theorem setKey_end (P : List (Nat × C)) (k : Nat) (v : C) (hP : ∀ e ∈ P, e.1 < k) :
    setKey P k v = P ++ [(k, v)] := by
  have := setKey_between P [] k v hP (by simp)
  simpa using this

/-- `bisect_right` on a contiguous list: the chunk containing `x` -/
theorem bisect_decomp (O : ChunkOps C) (A B : List (Nat × C)) (k : Nat) (c : C) (o x : Nat)
    (h : Contig O o (A ++ (k, c) :: B)) (h1 : k ≤ x) (h2 : x < k + O.len c) :
    bisectRight (A ++ (k, c) :: B) x = A.length + 1 := by
  induction A generalizing o with
  | nil =>
    simp only [List.nil_append] at h
    simp only [List.nil_append, bisectRight, if_pos h1, List.length_nil]
    rw [contig_cons] at h
    cases B with
    | nil => rfl
    | cons y r =>
      obtain ⟨k', c'⟩ := y
      have := h.2.2
      rw [contig_cons] at this
      simp only [bisectRight]
      rw [if_neg (by simp at this h; omega)]
  | cons y r ih =>
    obtain ⟨k', c'⟩ := y
    simp only [List.cons_append] at h ⊢
    rw [contig_cons] at h
    have hk := contig_mem O h.2.2 (k, c) (by simp)
    simp only [bisectRight]
    rw [if_pos (by simp at h hk; omega), ih _ h.2.2]
    simp

/-- a contiguous list can be split at any offset inside it -/
theorem exists_decomp (O : ChunkOps C) (l : List (Nat × C)) (o x : Nat)
    (h : Contig O o l) (h1 : o ≤ x) (h2 : x < o + total O l) :
    ∃ A k c B, l = A ++ (k, c) :: B ∧ k ≤ x ∧ x < k + O.len c := by
  induction l generalizing o with
  | nil => simp at h2; omega
  | cons y r ih =>
    obtain ⟨k, c⟩ := y
    rw [contig_cons] at h
    by_cases hx : x < k + O.len c
    · exact ⟨[], k, c, r, rfl, by simp at h; omega, hx⟩
    · obtain ⟨A, k', c', B, e, p1, p2⟩ := ih (o + O.len c) h.2.2 (by simp at h hx; omega)
        (by simp at h2; omega)
      exact ⟨(k, c) :: A, k', c', B, by simp [e], p1, p2⟩

end

/-! ## `_load_chunk`, `append` -/

section
variable {C : Type} (O : ChunkOps C)
open BVec

theorem flatten_eq (bv : BVec C) : flatten O bv = flat O bv.chunks := rfl

theorem WF.length_eq {O : ChunkOps C} (hO : Lawful O) {bv : BVec C} (h : WF O bv) :
    (flat O bv.chunks).length = bv.length := by
  rw [flat_length O hO, h.2]

theorem wf_empty : WF O (BVec.empty : BVec C) := ⟨trivial, rfl⟩

/-- what a decomposition of a well-formed chunk list gives -/
theorem decomp_facts {A B : List (Nat × C)} {k : Nat} {c : C}
    (h : Contig O 0 (A ++ (k, c) :: B)) :
    Contig O 0 A ∧ k = total O A ∧ 0 < O.len c ∧ Contig O (k + O.len c) B ∧
    (∀ e ∈ A, e.1 < k) ∧ (∀ e ∈ B, k + O.len c ≤ e.1) := by
  rw [contig_append, contig_cons] at h
  obtain ⟨hA, hk, hc, hB⟩ := h
  simp only [Nat.zero_add] at hk hB
  subst hk
  refine ⟨hA, rfl, hc, hB, ?_, ?_⟩
  · intro e he; have := contig_key_lt O hA e he; omega
  · intro e he; have := contig_mem O hB e he; omega

theorem loadChunk_decomp (A B : List (Nat × C)) (k : Nat) (c : C) (n x : Nat)
    (h : Contig O 0 (A ++ (k, c) :: B)) (hn : total O (A ++ (k, c) :: B) = n)
    (h1 : k ≤ x) (h2 : x < k + O.len c) :
    loadChunk O ⟨A ++ (k, c) :: B, n⟩ x = some (A.length, k, c, k + O.len c) := by
  have hm := contig_mem O h (k, c) (by simp)
  have hlt : ¬ x ≥ n := by simp at hm hn; omega
  simp only [loadChunk, if_neg hlt, bisect_decomp O A B k c 0 x h h1 h2, Nat.add_sub_cancel]
  simp

theorem loadChunk_none (bv : BVec C) (x : Nat) (h : bv.length ≤ x) : loadChunk O bv x = none := by
  simp [loadChunk, h]

theorem push_spec (hO : Lawful O) (bv : BVec C) (c : C) (h : WF O bv) :
    WF O (push O bv c) ∧ flat O (push O bv c).chunks = flat O bv.chunks ++ O.bytes c := by
  unfold push
  by_cases hc : O.len c = 0
  · have : O.bytes c = [] := List.eq_nil_of_length_eq_zero (by rw [hO.bytes_len, hc])
    simp [hc, h, this]
  · have hk : ∀ e ∈ bv.chunks, e.1 < bv.length := by
      intro e he; have := contig_key_lt O h.1 e he; rw [h.2] at this; omega
    rw [if_neg hc, setKey_end _ _ _ hk]
    refine ⟨⟨?_, ?_⟩, ?_⟩
    · rw [contig_append]
      refine ⟨h.1, ?_⟩
      simp only [Contig, and_true, h.2]; omega
    · simp [h.2]
    · simp

theorem foldl_push_spec (hO : Lawful O) (cs : List C) (bv : BVec C) (h : WF O bv) :
    WF O (cs.foldl (push O) bv) ∧
    flat O (cs.foldl (push O) bv).chunks = flat O bv.chunks ++ cs.flatMap O.bytes := by
  induction cs generalizing bv with
  | nil => simp [h]
  | cons c r ih =>
    have hp := push_spec O hO bv c h
    have := ih (push O bv c) hp.1
    simp only [List.foldl_cons, List.flatMap_cons]
    exact ⟨this.1, by rw [this.2, hp.2, List.append_assoc]⟩

theorem append_spec (hO : Lawful O) (bv : BVec C) (c : C) (h : WF O bv) :
    WF O (append O bv c) ∧ flat O (append O bv c).chunks = flat O bv.chunks ++ O.bytes c := by
  have := foldl_push_spec O hO (O.parts c) bv h
  rw [hO.parts_bytes] at this
  exact this

theorem appendAll_spec (hO : Lawful O) (v : List (Nat × C)) (bv : BVec C) (h : WF O bv) :
    WF O (appendAll O bv v) ∧ flat O (appendAll O bv v).chunks = flat O bv.chunks ++ flat O v := by
  unfold appendAll
  induction v generalizing bv with
  | nil => simp [h]
  | cons e r ih =>
    have hp := append_spec O hO bv e.2 h
    have := ih (append O bv e.2) hp.1
    simp only [List.foldl_cons, flat_cons]
    exact ⟨this.1, by rw [this.2, hp.2, List.append_assoc]⟩

theorem ofList_spec (hO : Lawful O) (cs : List C) :
    WF O (ofList O cs) ∧ flat O (ofList O cs).chunks = cs.flatMap O.bytes := by
  unfold ofList
  suffices ∀ (bv : BVec C), WF O bv → WF O (cs.foldl (append O) bv) ∧
      flat O (cs.foldl (append O) bv).chunks = flat O bv.chunks ++ cs.flatMap O.bytes by
    simpa [BVec.empty] using this BVec.empty (wf_empty O)
  induction cs with
  | nil => intro bv h; simp [h]
  | cons c r ih =>
    intro bv h
    have hp := append_spec O hO bv c h
    have := ih (append O bv c) hp.1
    simp only [List.foldl_cons, List.flatMap_cons]
    exact ⟨this.1, by rw [this.2, hp.2, List.append_assoc]⟩

end

/-! ## Lists and `Flat.write` -/

section

theorem take_mid {α} (X Y Z : List α) (i : Nat) (hi : i ≤ Y.length) :
    (X ++ Y ++ Z).take (X.length + i) = X ++ Y.take i := by
  rw [List.append_assoc, List.take_append, List.take_append]
  have : X.length + i - X.length = i := by omega
  simp [this, List.take_of_length_le, Nat.sub_eq_zero_of_le hi]

theorem drop_mid {α} (X Y Z : List α) (j : Nat) (hj : j ≤ Y.length) :
    (X ++ Y ++ Z).drop (X.length + j) = Y.drop j ++ Z := by
  rw [List.append_assoc, List.drop_append, List.drop_append]
  have : X.length + j - X.length = j := by omega
  simp [this, Nat.sub_eq_zero_of_le hj]

theorem Flat.write_nil (f : Flat) (s : Nat) : Flat.write f s [] = f := by simp [Flat.write]

theorem Flat.write_of_le (f : Flat) (s : Nat) (d : List Byte) (hd : d ≠ []) (h : s ≤ f.length) :
    Flat.write f s d = f.take s ++ d ++ f.drop (s + d.length) := by
  simp [Flat.write, hd, Nat.sub_eq_zero_of_le h, Flat.zeros]

theorem Flat.write_past (f : Flat) (s : Nat) (d : List Byte) (hd : d ≠ []) (h : f.length ≤ s) :
    Flat.write f s d = f ++ Flat.zeros (s - f.length) ++ d := by
  simp only [Flat.write, if_neg hd]
  have hl : (f ++ Flat.zeros (s - f.length)).length = s := by simp [Flat.zeros]; omega
  rw [List.take_of_length_le (by omega), List.drop_of_length_le (by omega)]
  simp

end

/-! ## Optional entries (`__set_chunk` ignores empty chunks) -/

section
variable {C : Type} (O : ChunkOps C)
open BVec

def optEntry (k : Nat) (c : C) : List (Nat × C) := if O.len c = 0 then [] else [(k, c)]

theorem flat_optEntry (hO : Lawful O) (k : Nat) (c : C) : flat O (optEntry O k c) = O.bytes c := by
  unfold optEntry
  by_cases h : O.len c = 0
  · have : O.bytes c = [] := List.eq_nil_of_length_eq_zero (by rw [hO.bytes_len, h])
    simp [h, this]
  · simp [h]

theorem total_optEntry (k : Nat) (c : C) : total O (optEntry O k c) = O.len c := by
  unfold optEntry
  by_cases h : O.len c = 0 <;> simp [h]

theorem contig_optEntry_append (k : Nat) (c : C) (r : List (Nat × C)) :
    Contig O k (optEntry O k c ++ r) ↔ Contig O (k + O.len c) r := by
  unfold optEntry
  by_cases h : O.len c = 0
  · simp [h]
  · simp [h, contig_cons]; omega

theorem optEntry_key (k : Nat) (c : C) : ∀ e ∈ optEntry O k c, e.1 = k := by
  unfold optEntry
  by_cases h : O.len c = 0 <;> simp [h]

theorem len_slice (hO : Lawful O) (c : C) (a b : Nat) (hab : a ≤ b) (hb : b ≤ O.len c) :
    O.len (O.slice c a b) = b - a := by
  rw [← hO.bytes_len, hO.bytes_slice c a b hab hb]
  simp [hO.bytes_len]; omega

theorem setChunk_eq (l : List (Nat × C)) (k : Nat) (c : C) :
    setChunk O l k c = if O.len c = 0 then l else setKey l k c := rfl

/-- `__set_chunk` between two blocks of keys -/
theorem setChunk_between (P B : List (Nat × C)) (k : Nat) (c : C)
    (hP : ∀ e ∈ P, e.1 < k) (hB : O.len c ≠ 0 → ∀ e ∈ B, k < e.1) :
    setChunk O (P ++ B) k c = P ++ optEntry O k c ++ B := by
  unfold setChunk optEntry
  by_cases h : O.len c = 0
  · simp [h]
  · simp [h, setKey_between P B k c hP (hB h)]

end

/-! ## `set_byte` -/

section
variable {C : Type} (O : ChunkOps C)
open BVec

theorem bytes_ne_nil (hO : Lawful O) (c : C) (h : 0 < O.len c) : O.bytes c ≠ [] := by
  intro e
  have := hO.bytes_len c
  rw [e] at this
  simp at this; omega

/-- the three `__set_chunk`/`__setitem__` steps of `set_byte` inside an existing chunk -/
theorem setByte_chunks (hO : Lawful O) (A B : List (Nat × C)) (k : Nat) (c v : C) (off : Nat)
    (h : Contig O 0 (A ++ (k, c) :: B)) (h1 : k ≤ off) (h2 : off < k + O.len c) :
    setChunk O (setKey (setChunk O (A ++ (k, c) :: B) k (O.slice c 0 (off - k))) off v) (off + 1)
        (O.slice c (off - k + 1) (O.len c))
      = A ++ optEntry O k (O.slice c 0 (off - k)) ++
          (off, v) :: (optEntry O (off + 1) (O.slice c (off - k + 1) (O.len c)) ++ B) := by
  obtain ⟨_, _, _, _, hA, hB⟩ := decomp_facts O h
  have hpre : O.len (O.slice c 0 (off - k)) = off - k := by
    rw [len_slice O hO c 0 (off - k) (by omega) (by omega)]; omega
  have hpost : O.len (O.slice c (off - k + 1) (O.len c)) = O.len c - (off - k + 1) :=
    len_slice O hO c _ _ (by omega) (by omega)
  -- after the first two steps
  have h12 : setKey (setChunk O (A ++ (k, c) :: B) k (O.slice c 0 (off - k))) off v
      = (A ++ optEntry O k (O.slice c 0 (off - k)) ++ [(off, v)]) ++ B := by
    by_cases hk : off = k
    · subst hk
      have : O.len (O.slice c 0 (off - off)) = 0 := by rw [hpre]; omega
      simp only [setChunk_eq, optEntry, this, if_true, List.append_nil]
      rw [setKey_replace A B off c v hA]; simp
    · have hne : O.len (O.slice c 0 (off - k)) ≠ 0 := by rw [hpre]; omega
      simp only [setChunk_eq, optEntry, if_neg hne]
      rw [setKey_replace A B k c _ hA]
      have : A ++ (k, O.slice c 0 (off - k)) :: B = (A ++ [(k, O.slice c 0 (off - k))]) ++ B := by simp
      rw [this, setKey_between _ B off v]
      · simp
      · intro e he
        rcases List.mem_append.1 he with he | he
        · have := hA e he; omega
        · simp at he; subst he; simp; omega
      · intro e he; have := hB e he; omega
  rw [h12, setChunk_between O _ B (off + 1)]
  · simp
  · intro e he
    rcases List.mem_append.1 he with he | he
    · rcases List.mem_append.1 he with he | he
      · have := hA e he; omega
      · have := optEntry_key O _ _ e he; omega
    · simp at he; subst he; simp
  · intro hz e he
    have := hB e he
    rw [hpost] at hz
    omega

end

section
variable {C : Type} (O : ChunkOps C)
open BVec

theorem setByte_err (bv : BVec C) (off : Nat) (v : C) (hv : O.len v ≠ 1) :
    setByte O bv off v = .error .assertion := by
  simp [setByte, hv]

theorem setByte_spec (hO : Lawful O) (bv : BVec C) (off : Nat) (v : C) (h : WF O bv) (hv : O.len v = 1) :
    ∃ bv', setByte O bv off v = .ok bv' ∧ WF O bv' ∧
      flat O bv'.chunks = Flat.write (flat O bv.chunks) off (O.bytes v) := by
  have hvne : O.bytes v ≠ [] := bytes_ne_nil O hO v (by omega)
  have hlen := WF.length_eq hO h
  unfold setByte
  rw [if_neg (by omega)]
  by_cases hoff : off ≥ bv.length
  · rw [if_pos hoff]
    have h1 := append_spec O hO bv (O.zeros (off - bv.length)) h
    have h2 := append_spec O hO _ v h1.1
    refine ⟨_, rfl, h2.1, ?_⟩
    rw [h2.2, h1.2, hO.zeros_bytes, Flat.write_past _ _ _ hvne (by omega), hlen]
  · rw [if_neg hoff]
    obtain ⟨l, n⟩ := bv
    obtain ⟨hc, ht⟩ := h
    simp only at hc ht hoff hlen
    obtain ⟨A, k, c, B, rfl, h1, h2⟩ := exists_decomp O l 0 off hc (by omega) (by omega)
    rw [loadChunk_decomp O A B k c n off hc ht h1 h2]
    simp only
    rw [if_neg (by simp; omega), setByte_chunks O hO A B k c v off hc h1 h2]
    obtain ⟨hA, hk, hcpos, hB, _, _⟩ := decomp_facts O hc
    have hpre : O.len (O.slice c 0 (off - k)) = off - k := by
      rw [len_slice O hO c 0 (off - k) (by omega) (by omega)]; omega
    have hpost : O.len (O.slice c (off - k + 1) (O.len c)) = O.len c - (off - k + 1) :=
      len_slice O hO c _ _ (by omega) (by omega)
    refine ⟨_, rfl, ⟨?_, ?_⟩, ?_⟩
    · simp only [List.append_assoc]
      rw [contig_append, ← hk, Nat.zero_add, contig_optEntry_append, hpre, contig_cons]
      refine ⟨hA, by simp; omega, by simp; omega, ?_⟩
      simp only
      rw [show k + (off - k) + O.len v = off + 1 by omega, contig_optEntry_append, hpost]
      rw [show off + 1 + (O.len c - (off - k + 1)) = k + O.len c by omega]
      exact hB
    · simp only [total_append, total_cons, total_optEntry, hpre, hpost] at ht ⊢
      omega
    · simp only [flat_append, flat_cons, flat_optEntry O hO]
      have hA' : (flat O A).length = k := by rw [flat_length O hO, ← hk]
      have hcl : (O.bytes c).length = O.len c := hO.bytes_len c
      have hvl : (O.bytes v).length = 1 := by rw [hO.bytes_len, hv]
      have hle : off ≤ (flat O A ++ (O.bytes c ++ flat O B)).length := by
        simp only [List.length_append, hA', hcl]; omega
      rw [Flat.write_of_le _ _ _ hvne hle, hvl]
      have e1 : (flat O A ++ (O.bytes c ++ flat O B)).take off = flat O A ++ (O.bytes c).take (off - k) := by
        have := take_mid (flat O A) (O.bytes c) (flat O B) (off - k) (by omega)
        rw [hA', show k + (off - k) = off by omega, List.append_assoc] at this
        exact this
      have e2 : (flat O A ++ (O.bytes c ++ flat O B)).drop (off + 1) =
          (O.bytes c).drop (off - k + 1) ++ flat O B := by
        have := drop_mid (flat O A) (O.bytes c) (flat O B) (off - k + 1) (by omega)
        rw [hA', show k + (off - k + 1) = off + 1 by omega, List.append_assoc] at this
        exact this
      rw [e1, e2, hO.bytes_slice c 0 (off - k) (by omega) (by omega),
        hO.bytes_slice c (off - k + 1) (O.len c) (by omega) (by omega)]
      have e3 : (O.bytes c).take (O.len c) = O.bytes c := List.take_of_length_le (by omega)
      rw [e3]
      simp

end

end HalmosVerif.Model.BV
