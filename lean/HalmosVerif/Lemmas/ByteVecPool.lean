/-
Lemmas.ByteVecPool — the refinement relation between the pool of (non-aliasing) ByteVec objects and the pool of
flat arrays, and the data arguments of operations.
-/
import HalmosVerif.Lemmas.ByteVecRead

namespace HalmosVerif.Model.BV
open HalmosVerif.Spec BVec

/-- every object is well formed and flattens to the corresponding flat array -/
def Inv (p : Pure.Pool) (q : FlatPool.Pool) : Prop :=
  ∀ a, WF leafOps (p a) ∧ flatten leafOps (p a) = q a

theorem inv_init : Inv Pure.init FlatPool.init := by
  intro a
  exact ⟨wf_empty leafOps, rfl⟩

theorem inv_set {p : Pure.Pool} {q : FlatPool.Pool} (h : Inv p q) (a : String) (v : BVec Leaf) (f : Flat)
    (hv : WF leafOps v) (hf : flatten leafOps v = f) : Inv (Pure.set p a v) (FlatPool.set q a f) := by
  intro x
  unfold Pure.set FlatPool.set
  by_cases hx : x = a
  · simp [hx, hv, hf]
  · simp [hx, h x]

theorem inv_set_left {p : Pure.Pool} {q : FlatPool.Pool} (h : Inv p q) (a : String) :
    Inv (Pure.set p a (p a)) q := by
  intro x
  unfold Pure.set
  by_cases hx : x = a
  · subst hx; simp [h x]
  · simp [hx, h x]

theorem dataValue_spec {p : Pure.Pool} {q : FlatPool.Pool} (h : Inv p q) (d : Data) :
    (Pure.dataValue p d).WF leafOps ∧ (Pure.dataValue p d).bytes leafOps = FlatPool.dataBytes q d := by
  cases d with
  | raw x => exact ⟨trivial, rfl⟩
  | vec qs =>
    have := ofList_spec leafOps leafOps_lawful qs
    refine ⟨⟨this.1.1, this.1.2, by intro c hc; cases hc⟩, ?_⟩
    simp only [Pure.dataValue, Value.bytes, FlatPool.dataBytes]
    rw [this.2]; rfl
  | obj b =>
    refine ⟨⟨(h b).1.1, (h b).1.2, by intro c hc; cases hc⟩, ?_⟩
    simp only [Pure.dataValue, Value.bytes, FlatPool.dataBytes]
    exact (h b).2
  | objSlice b s e =>
    have := slice_spec leafOps leafOps_lawful (p b) s e (h b).1
    refine ⟨⟨this.1.1, this.1.2, by intro c hc; cases hc⟩, ?_⟩
    simp only [Pure.dataValue, Value.bytes, FlatPool.dataBytes]
    rw [this.2, ← (h b).2]; rfl

theorem dataValue_len {p : Pure.Pool} {q : FlatPool.Pool} (h : Inv p q) (d : Data) :
    (Pure.dataValue p d).len leafOps = (FlatPool.dataBytes q d).length := by
  have := dataValue_spec h d
  rw [← this.2, Value.bytes_len leafOps leafOps_lawful _ this.1]

end HalmosVerif.Model.BV
