/-
Lemmas.ByteVecRead — refinement of `slice`, `get_byte`, `get_word`, `concretize` (continues Lemmas.ByteVecSlice).
-/
import HalmosVerif.Lemmas.ByteVecSlice

namespace HalmosVerif.Model.BV
open HalmosVerif.Spec

/-! ## Windows of lists and `Flat.read` -/

section

theorem window_append {α} (X Y : List α) (a b : Nat) :
    ((X ++ Y).take b).drop a = (X.take b).drop a ++ (Y.take (b - X.length)).drop (a - X.length) := by
  rw [List.take_append, List.drop_append]
  by_cases h : b ≤ X.length
  · have : b - X.length = 0 := by omega
    simp [this]
  · have : (X.take b).length = X.length := by simp; omega
    rw [this]

theorem Flat.get_eq (f : Flat) (i : Nat) : f.get i = f.getD i Byte.zero := rfl

theorem Flat.read_eq (f : Flat) (s e : Nat) :
    f.read s e = (f.take e).drop s ++ Flat.zeros ((e - s) - ((f.take e).drop s).length) := by
  apply List.ext_getElem
  · simp [Flat.read, Flat.zeros]; omega
  · intro i h1 h2
    simp only [Flat.read, List.length_map, List.length_range] at h1
    simp only [Flat.read, List.getElem_map, List.getElem_range, Flat.get]
    by_cases hi : i < ((f.take e).drop s).length
    · rw [List.getElem_append_left hi]
      simp only [List.length_drop, List.length_take] at hi
      simp only [List.getElem_drop, List.getElem_take]
      rw [List.getD_eq_getElem?_getD, List.getElem?_eq_getElem (by omega)]
      rfl
    · rw [List.getElem_append_right (by omega)]
      simp only [List.length_drop, List.length_take] at hi
      simp only [Flat.zeros, List.getElem_replicate]
      rw [List.getD_eq_getElem?_getD, List.getElem?_eq_none (by omega)]
      rfl

end

/-! ## `slice` -/

section
variable {C : Type} (O : ChunkOps C)
open BVec

/-- what one chunk contributes to the window `[start, stop)` -/
theorem sliceLoop_spec (hO : Lawful O) (start stop : Nat) (hss : start < stop) (D : List (Nat × C)) (o : Nat)
    (r : BVec C) (hD : Contig O o D) (hr : WF O r) (hst : ∀ e ∈ D, start < e.1 + O.len e.2) :
    WF O (sliceLoop O start stop D r) ∧
    flat O (sliceLoop O start stop D r).chunks
      = flat O r.chunks ++ ((flat O D).take (stop - o)).drop (start - o) := by
  induction D generalizing o r with
  | nil => simp [sliceLoop, hr]
  | cons e D' ih =>
    obtain ⟨k, c⟩ := e
    rw [contig_cons] at hD
    obtain ⟨hk, hc, hD'⟩ := hD
    simp only at hk hc hD'
    subst hk
    have hcl : (O.bytes c).length = O.len c := hO.bytes_len c
    have hst' : ∀ e ∈ D', start < e.1 + O.len e.2 := fun e he => hst e (by simp [he])
    have hsk : start < k + O.len c := hst (k, c) (by simp)
    simp only [sliceLoop]
    by_cases h1 : k ≥ stop
    · rw [if_pos h1]
      have : stop - k = 0 := by omega
      simp [this, hr]
    · rw [if_neg h1]
      rw [flat_cons, window_append, hcl, show stop - k - O.len c = stop - (k + O.len c) by omega,
        show start - k - O.len c = start - (k + O.len c) by omega]
      by_cases h2 : start ≤ k ∧ k + O.len c ≤ stop
      · rw [if_pos h2]
        have ha := append_spec O hO r c hr
        have := ih (k + O.len c) (append O r c) hD' ha.1 hst'
        refine ⟨this.1, ?_⟩
        have e1 : (O.bytes c).take (stop - k) = O.bytes c := List.take_of_length_le (by omega)
        rw [this.2, ha.2, e1, show start - k = 0 by omega]
        simp
      · rw [if_neg h2]
        have hsl : O.bytes (O.slice c (start - k) (min (O.len c) (stop - k)))
            = ((O.bytes c).take (stop - k)).drop (start - k) := by
          rw [hO.bytes_slice c _ _ (by omega) (by omega)]
          by_cases hm : O.len c ≤ stop - k
          · have e1 : (O.bytes c).take (stop - k) = O.bytes c := List.take_of_length_le (by omega)
            have e2 : (O.bytes c).take (O.len c) = O.bytes c := List.take_of_length_le (by omega)
            rw [Nat.min_eq_left hm, e1, e2]
          · rw [Nat.min_eq_right (by omega)]
        have ha := append_spec O hO r (O.slice c (start - k) (min (O.len c) (stop - k))) hr
        have := ih (k + O.len c) _ hD' ha.1 hst'
        refine ⟨this.1, ?_⟩
        rw [this.2, ha.2, hsl]
        simp

theorem slice_spec (hO : Lawful O) (bv : BVec C) (start stop : Nat) (h : WF O bv) :
    WF O (slice O bv start stop) ∧
    flat O (slice O bv start stop).chunks = Flat.read (flat O bv.chunks) start stop := by
  have hlen := WF.length_eq hO h
  unfold slice
  simp only
  by_cases hz : stop - start = 0
  · rw [if_pos hz]
    refine ⟨wf_empty O, ?_⟩
    simp [Flat.read, hz, BVec.empty]
  · rw [if_neg hz]
    rw [Flat.read_eq]
    by_cases hst : bv.length ≤ start
    · rw [loadChunk_none O bv start hst]
      simp only
      have ha := append_spec O hO BVec.empty (O.zeros (stop - start)) (wf_empty O)
      refine ⟨ha.1, ?_⟩
      rw [ha.2, hO.zeros_bytes]
      have : ((flat O bv.chunks).take stop).drop start = [] := by
        apply List.drop_of_length_le
        simp only [List.length_take]; omega
      simp [this, BVec.empty]
    · obtain ⟨l, n⟩ := bv
      obtain ⟨hc, ht⟩ := h
      simp only at hc ht hst hlen
      obtain ⟨A, fk, fc, R, rfl, h1, h2⟩ := exists_decomp O l 0 start hc (by omega) (by omega)
      rw [loadChunk_decomp O A R fk fc n start hc ht h1 h2]
      simp only
      obtain ⟨hA, hk, hcpos, hR, hAk, hRk⟩ := decomp_facts O hc
      have hdrop : (A ++ (fk, fc) :: R).drop A.length = (fk, fc) :: R := by simp
      rw [hdrop]
      have hD : Contig O fk ((fk, fc) :: R) := by
        rw [contig_cons]; exact ⟨rfl, hcpos, hR⟩
      have hstD : ∀ e ∈ (fk, fc) :: R, start < e.1 + O.len e.2 := by
        intro e he
        rcases List.mem_cons.1 he with rfl | he
        · exact h2
        · have := hRk e he; omega
      have hs := sliceLoop_spec O hO start stop (by omega) ((fk, fc) :: R) fk BVec.empty hD (wf_empty O) hstD
      have hA' : (flat O A).length = fk := by rw [flat_length O hO, ← hk]
      have hwin : ((flat O (A ++ (fk, fc) :: R)).take stop).drop start
          = ((flat O ((fk, fc) :: R)).take (stop - fk)).drop (start - fk) := by
        rw [flat_append, window_append, hA']
        have : ((flat O A).take stop).drop start = [] := by
          apply List.drop_of_length_le
          simp only [List.length_take]; omega
        rw [this]; rfl
      rw [hwin]
      have hrl : (sliceLoop O start stop ((fk, fc) :: R) BVec.empty).length
          = (((flat O ((fk, fc) :: R)).take (stop - fk)).drop (start - fk)).length := by
        rw [← WF.length_eq hO hs.1, hs.2]; simp [BVec.empty]
      by_cases hm : stop - start - (sliceLoop O start stop ((fk, fc) :: R) BVec.empty).length ≠ 0
      · rw [if_pos hm]
        have ha := append_spec O hO _ (O.zeros (stop - start - (sliceLoop O start stop ((fk, fc) :: R) BVec.empty).length)) hs.1
        refine ⟨ha.1, ?_⟩
        rw [ha.2, hs.2, hO.zeros_bytes, hrl]
        simp [BVec.empty]
      · rw [if_neg hm]
        refine ⟨hs.1, ?_⟩
        rw [hs.2]
        have : stop - start - (((flat O ((fk, fc) :: R)).take (stop - fk)).drop (start - fk)).length = 0 := by
          rw [← hrl]; omega
        rw [this]
        simp [BVec.empty, Flat.zeros]

/-! ## `get_byte`, `get_word`, `concretize` -/

theorem getByte_spec (hO : Lawful O) (bv : BVec C) (off : Nat) (h : WF O bv) :
    getByte O bv off = Flat.get (flat O bv.chunks) off := by
  have hlen := WF.length_eq hO h
  unfold getByte
  by_cases hst : bv.length ≤ off
  · rw [loadChunk_none O bv off hst]
    simp only [Flat.get]
    rw [List.getD_eq_getElem?_getD, List.getElem?_eq_none (by omega)]
    rfl
  · obtain ⟨l, n⟩ := bv
    obtain ⟨hc, ht⟩ := h
    simp only at hc ht hst hlen
    obtain ⟨A, k, c, B, rfl, h1, h2⟩ := exists_decomp O l 0 off hc (by omega) (by omega)
    rw [loadChunk_decomp O A B k c n off hc ht h1 h2]
    simp only
    obtain ⟨hA, hk, hcpos, hB, _, _⟩ := decomp_facts O hc
    have hA' : (flat O A).length = k := by rw [flat_length O hO, ← hk]
    have hcl : (O.bytes c).length = O.len c := hO.bytes_len c
    rw [hO.byteAt_eq c (off - k) (by omega)]
    simp only [Flat.get, flat_append, flat_cons, List.getD_eq_getElem?_getD]
    rw [List.getElem?_append_right (by omega), hA', List.getElem?_append_left (by omega)]

theorem getWord_spec (hO : Lawful O) (bv : BVec C) (off : Nat) (h : WF O bv) :
    getWord O bv off = Flat.word (flat O bv.chunks) off := by
  unfold getWord
  rw [flatten_eq, (slice_spec O hO bv off (off + 32) h).2]
  rfl

theorem concretize_spec (hO : Lawful O) (bv : BVec C) (σ : String → Option (List Nat)) :
    WF O (concretize O bv σ) ∧
    flat O (concretize O bv σ).chunks = Flat.subst σ (flat O bv.chunks) := by
  unfold concretize
  suffices ∀ (l : List (Nat × C)) (r : BVec C), WF O r →
      WF O (l.foldl (fun r e => append O r (O.subst σ e.2)) r) ∧
      flat O (l.foldl (fun r e => append O r (O.subst σ e.2)) r).chunks
        = flat O r.chunks ++ Flat.subst σ (flat O l) by
    simpa [BVec.empty] using this bv.chunks BVec.empty (wf_empty O)
  intro l
  induction l with
  | nil => intro r hr; simp [hr, Flat.subst]
  | cons e l' ih =>
    intro r hr
    have ha := append_spec O hO r (O.subst σ e.2) hr
    have := ih _ ha.1
    simp only [List.foldl_cons]
    refine ⟨this.1, ?_⟩
    rw [this.2, ha.2, hO.subst_bytes]
    simp [Flat.subst]

end

end HalmosVerif.Model.BV
