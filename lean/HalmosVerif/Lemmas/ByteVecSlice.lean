/-
Lemmas.ByteVecSlice — refinement of `set_slice`, `slice`, `get_byte`, `concretize` (continues Lemmas.ByteVec).
-/
import HalmosVerif.Lemmas.ByteVec

namespace HalmosVerif.Model.BV
open HalmosVerif.Spec

section
variable {C : Type} (O : ChunkOps C)
open BVec

/-! ## Values -/

def BVec.Value.bytes : Value C → List Byte
  | .one c => O.bytes c
  | .many _ v _ => flat O v

/-- the chunks `set_slice` stores on its general path -/
def BVec.Value.chunks : Value C → List (Nat × C)
  | .one c => [(0, c)]
  | .many _ v _ => v

/-- a ByteVec value is well formed, and the chunk that stands for the object itself (aliasing variant)
    has the object's length and content at the time of the call -/
def BVec.Value.WF : Value C → Prop
  | .one _ => True
  | .many a v n => Contig O 0 v ∧ total O v = n ∧ ∀ c, a = some c → O.len c = n ∧ O.bytes c = flat O v

theorem BVec.Value.bytes_len (hO : Lawful O) (v : Value C) (hv : v.WF O) : (v.bytes O).length = v.len O := by
  cases v with
  | one c => exact hO.bytes_len c
  | many a l n => simp only [Value.bytes, Value.len]; rw [flat_length O hO, hv.2.1]

theorem appendValue_spec (hO : Lawful O) (bv : BVec C) (v : Value C) (h : WF O bv) :
    WF O (appendValue O bv v) ∧ flat O (appendValue O bv v).chunks = flat O bv.chunks ++ v.bytes O := by
  cases v with
  | one c => exact append_spec O hO bv c h
  | many a l n => exact appendAll_spec O hO l bv h

/-! ## Shifted chunk lists -/

def shift (start : Nat) (v : List (Nat × C)) : List (Nat × C) := v.map fun e => (start + e.1, e.2)

@[simp] theorem flat_shift (start : Nat) (v : List (Nat × C)) : flat O (shift start v) = flat O v := by
  induction v with
  | nil => rfl
  | cons e r ih => simp [shift] at ih ⊢; exact ih

@[simp] theorem total_shift (start : Nat) (v : List (Nat × C)) : total O (shift start v) = total O v := by
  induction v with
  | nil => rfl
  | cons e r ih => simp [shift] at ih ⊢; exact ih

theorem contig_shift (start o : Nat) (v : List (Nat × C)) (h : Contig O o v) :
    Contig O (start + o) (shift start v) := by
  induction v generalizing o with
  | nil => trivial
  | cons e r ih =>
    rw [contig_cons] at h
    obtain ⟨h1, h2, h3⟩ := h
    simp only [shift, List.map_cons, contig_cons]
    refine ⟨by omega, h2, ?_⟩
    have := ih _ h3
    simpa [shift, Nat.add_assoc] using this

theorem shift_key_lt (start o : Nat) (v : List (Nat × C)) (h : Contig O o v) :
    ∀ e ∈ shift start v, e.1 < start + o + total O v := by
  intro e he
  have := contig_key_lt O (contig_shift O start o v h) e he
  simpa using this

/-- the loop `for inner_chunk_start, inner_chunk in value.chunks.items(): __set_chunk(start + …)` between
    a block of smaller keys and a block of larger keys, possibly overwriting the entry at its first key -/
theorem foldSet (start : Nat) (v : List (Nat × C)) (o : Nat) (P X B : List (Nat × C))
    (hV : Contig O o v) (hP : ∀ e ∈ P, e.1 < start + o)
    (hX : X = [] ∨ ∃ x, X = [(start + o, x)])
    (hB : ∀ e ∈ B, start + o + total O v ≤ e.1) (hne : v = [] → X = []) :
    v.foldl (fun l e => setChunk O l (start + e.1) e.2) (P ++ X ++ B) = P ++ shift start v ++ B := by
  induction v generalizing o P X with
  | nil => simp [hne rfl, shift]
  | cons e r ih =>
    obtain ⟨k, c⟩ := e
    rw [contig_cons] at hV
    obtain ⟨hk, hc, hr⟩ := hV
    simp only at hk hc hr
    subst hk
    simp only [total_cons] at hB
    have step : setChunk O (P ++ X ++ B) (start + k) c = (P ++ [(start + k, c)]) ++ [] ++ B := by
      rw [setChunk_eq, if_neg (by omega)]
      rcases hX with rfl | ⟨x, rfl⟩
      · rw [List.append_nil, setKey_between P B _ c hP (by intro e he; have := hB e he; omega)]
        simp
      · rw [List.append_assoc, List.singleton_append, setKey_replace P B _ x c hP]
        simp
    simp only [List.foldl_cons]
    rw [step, ih (k + O.len c) (P ++ [(start + k, c)]) [] hr]
    · simp [shift]
    · intro e he
      rcases List.mem_append.1 he with he | he
      · have := hP e he; omega
      · simp at he; subst he; simp; omega
    · exact Or.inl rfl
    · intro e he; have := hB e he; omega
    · intro _; rfl

/-- steps 2 and 3 of the general path of `set_slice`: truncate the first chunk, store the value's chunks -/
theorem steps23 (hO : Lawful O) (A B : List (Nat × C)) (fk : Nat) (fc : C) (start : Nat) (v : List (Nat × C))
    (hA : ∀ e ∈ A, e.1 < fk) (h1 : fk ≤ start) (h2 : start < fk + O.len fc)
    (hV : Contig O 0 v) (hVne : v ≠ []) (hB : ∀ e ∈ B, start + total O v ≤ e.1) :
    v.foldl (fun l e => setChunk O l (start + e.1) e.2)
        (setChunk O (A ++ (fk, fc) :: B) fk (O.slice fc 0 (start - fk)))
      = A ++ optEntry O fk (O.slice fc 0 (start - fk)) ++ shift start v ++ B := by
  have hpre : O.len (O.slice fc 0 (start - fk)) = start - fk := by
    rw [len_slice O hO fc 0 (start - fk) (by omega) (by omega)]; omega
  by_cases hk : start = fk
  · subst hk
    have hz : O.len (O.slice fc 0 (start - start)) = 0 := by rw [hpre]; omega
    have hset : setChunk O (A ++ (start, fc) :: B) start (O.slice fc 0 (start - start)) = A ++ (start, fc) :: B := by
      rw [setChunk_eq, if_pos hz]
    rw [hset]
    simp only [optEntry, hz, if_true, List.append_nil]
    have := foldSet O start v 0 A [(start + 0, fc)] B hV (by simpa using hA) (Or.inr ⟨fc, rfl⟩)
      (by simpa using hB) (by intro h; exact absurd h hVne)
    simpa using this
  · have hnz : O.len (O.slice fc 0 (start - fk)) ≠ 0 := by rw [hpre]; omega
    have hset : setChunk O (A ++ (fk, fc) :: B) fk (O.slice fc 0 (start - fk))
        = A ++ (fk, O.slice fc 0 (start - fk)) :: B := by
      rw [setChunk_eq, if_neg hnz, setKey_replace A B fk fc _ hA]
    rw [hset]
    simp only [optEntry, if_neg hnz]
    have := foldSet O start v 0 (A ++ [(fk, O.slice fc 0 (start - fk))]) [] B hV
      (by
        intro e he
        rcases List.mem_append.1 he with he | he
        · have := hA e he; omega
        · simp at he; subst he; simp; omega)
      (Or.inl rfl) (by simpa using hB) (by intro _; rfl)
    simpa using this

end

section
variable {C : Type} (O : ChunkOps C)
open BVec

/-- the final chunk list of the general path of `set_slice` is well formed and flattens to the write -/
theorem assemble (hO : Lawful O) (A R T : List (Nat × C)) (fk : Nat) (fc : C) (start stop n : Nat)
    (v : List (Nat × C))
    (hc : Contig O 0 (A ++ (fk, fc) :: R)) (hn : total O (A ++ (fk, fc) :: R) = n)
    (h1 : fk ≤ start) (h2 : start < fk + O.len fc) (hss : start < stop)
    (hV : Contig O 0 v) (hVt : total O v = stop - start)
    (hT : Contig O stop T) (hdrop : (flat O (A ++ (fk, fc) :: R)).drop stop = flat O T) :
    WF O ⟨A ++ optEntry O fk (O.slice fc 0 (start - fk)) ++ shift start v ++ T, max n stop⟩ ∧
    flat O (A ++ optEntry O fk (O.slice fc 0 (start - fk)) ++ shift start v ++ T)
      = Flat.write (flat O (A ++ (fk, fc) :: R)) start (flat O v) := by
  obtain ⟨hA, hk, hcpos, hR, _, _⟩ := decomp_facts O hc
  have hpre : O.len (O.slice fc 0 (start - fk)) = start - fk := by
    rw [len_slice O hO fc 0 (start - fk) (by omega) (by omega)]; omega
  have hlen : (flat O (A ++ (fk, fc) :: R)).length = n := by rw [flat_length O hO, hn]
  have hTt : total O T = n - stop := by
    have := congrArg List.length hdrop
    rw [List.length_drop, hlen, flat_length O hO] at this
    omega
  have hfe : fk + O.len fc ≤ n := by
    have := contig_mem O hc (fk, fc) (by simp)
    simp only [Nat.zero_add, hn] at this; omega
  refine ⟨⟨?_, ?_⟩, ?_⟩
  · simp only [List.append_assoc]
    rw [contig_append, ← hk, Nat.zero_add, contig_optEntry_append, hpre,
      show fk + (start - fk) = start by omega, contig_append, total_shift, hVt,
      show start + (stop - start) = stop by omega]
    exact ⟨hA, by simpa using contig_shift O start 0 v hV, hT⟩
  · simp only [total_append, total_optEntry, total_shift, hpre, hVt, hTt]
    omega
  · have hvl : (flat O v).length = stop - start := by rw [flat_length O hO, hVt]
    have hvne : flat O v ≠ [] := by
      intro e; rw [e] at hvl; simp at hvl; omega
    rw [Flat.write_of_le _ _ _ hvne (by rw [hlen]; omega), hvl,
      show start + (stop - start) = stop by omega, hdrop]
    have hA' : (flat O A).length = fk := by rw [flat_length O hO, ← hk]
    have e1 : (flat O (A ++ (fk, fc) :: R)).take start = flat O A ++ (O.bytes fc).take (start - fk) := by
      have := take_mid (flat O A) (O.bytes fc) (flat O R) (start - fk) (by rw [hO.bytes_len]; omega)
      rw [hA', show fk + (start - fk) = start by omega] at this
      simpa using this
    rw [e1, flat_append, flat_append, flat_append, flat_optEntry O hO, flat_shift,
      hO.bytes_slice fc 0 (start - fk) (by omega) (by omega)]
    simp

end

section
variable {C : Type} (O : ChunkOps C)
open BVec

theorem take_len_succ {α} (A R : List α) (x : α) : (A ++ x :: R).take (A.length + 1) = A ++ [x] := by
  have := take_mid A [x] R 1 (by simp)
  simpa using this

theorem drop_len_mid {α} (A M B : List α) (x y : α) :
    (A ++ x :: (M ++ y :: B)).drop (A.length + 1 + M.length + 1) = B := by
  have : A ++ x :: (M ++ y :: B) = (A ++ x :: M ++ [y]) ++ B := by simp
  rw [this, List.drop_append]
  have hl : (A ++ x :: M ++ [y]).length = A.length + 1 + M.length + 1 := by simp; omega
  rw [List.drop_of_length_le (by omega), hl]
  simp

theorem Value.chunks_facts (_hO : Lawful O) (v : Value C) (hv : v.WF O) (n : Nat) (hn : 0 < n)
    (hl : n = v.len O) :
    Contig O 0 (v.chunks) ∧ total O (v.chunks) = n ∧ v.chunks ≠ [] ∧ flat O (v.chunks) = v.bytes O := by
  cases v with
  | one c =>
    simp only [Value.len] at hl
    simp [Value.chunks, Value.bytes, Contig, ← hl, hn]
  | many a l m =>
    simp only [Value.len] at hl
    obtain ⟨h1, h2, _⟩ := hv
    refine ⟨h1, by simp [Value.chunks, h2, hl], ?_, rfl⟩
    intro e
    simp only [Value.chunks] at e
    subst e
    simp at h2; omega

theorem storeValue_eq (v : Value C) (l2 : List (Nat × C)) (start : Nat) :
    storeValue O l2 start v = (v.chunks).foldl (fun l e => setChunk O l (start + e.1) e.2) l2 := by
  cases v <;> simp [storeValue, Value.chunks]

/-- keys of the assembled prefix are below `stop` -/
theorem prefix_keys_lt (A : List (Nat × C)) (fk : Nat) (pre : C) (start stop : Nat) (v : List (Nat × C))
    (hA : ∀ e ∈ A, e.1 < fk) (h1 : fk ≤ start) (hss : start < stop)
    (hV : Contig O 0 v) (hVt : total O v = stop - start) :
    ∀ e ∈ A ++ optEntry O fk pre ++ shift start v, e.1 < stop := by
  intro e he
  rcases List.mem_append.1 he with he | he
  · rcases List.mem_append.1 he with he | he
    · have := hA e he; omega
    · have := optEntry_key O _ _ e he; omega
  · have := shift_key_lt O start 0 v hV e he; omega

/-- `keepTail` inserts the (possibly empty) rest of the last chunk between the new prefix and the kept tail -/
theorem keepTail_some (hO : Lawful O) (P B : List (Nat × C)) (stop li lk : Nat) (lc : C)
    (hP : ∀ e ∈ P, e.1 < stop) (hB : ∀ e ∈ B, lk + O.len lc ≤ e.1)
    (h1 : lk ≤ stop) (h2 : stop ≤ lk + O.len lc) :
    keepTail O (P ++ B) stop (some (li, lk, lc, lk + O.len lc))
      = P ++ (optEntry O stop (O.slice lc (stop - lk) (O.len lc)) ++ B) ∧
    O.len (O.slice lc (stop - lk) (O.len lc)) = lk + O.len lc - stop := by
  have hpost : O.len (O.slice lc (stop - lk) (O.len lc)) = lk + O.len lc - stop := by
    rw [len_slice O hO lc _ _ (by omega) (by omega)]; omega
  refine ⟨?_, hpost⟩
  simp only [keepTail]
  by_cases hlt : stop < lk + O.len lc
  · rw [if_pos hlt, setChunk_between O P B stop _ hP (by intro _ e he; have := hB e he; omega)]
    simp
  · rw [if_neg hlt]
    have : O.len (O.slice lc (stop - lk) (O.len lc)) = 0 := by rw [hpost]; omega
    simp [optEntry, this]

theorem general_spec (hO : Lawful O) (A R : List (Nat × C)) (fk : Nat) (fc : C) (n start stop : Nat)
    (v : Value C)
    (hc : Contig O 0 (A ++ (fk, fc) :: R)) (hn : total O (A ++ (fk, fc) :: R) = n)
    (h1 : fk ≤ start) (h2 : start < fk + O.len fc) (hss : start < stop)
    (hv : v.WF O) (hl : stop - start = v.len O) :
    WF O (setSliceGeneral O ⟨A ++ (fk, fc) :: R, n⟩ start stop v A.length fk fc) ∧
    flat O (setSliceGeneral O ⟨A ++ (fk, fc) :: R, n⟩ start stop v A.length fk fc).chunks
      = Flat.write (flat O (A ++ (fk, fc) :: R)) start (v.bytes O) := by
  obtain ⟨hV, hVt, hVne, hVb⟩ := Value.chunks_facts O hO v hv (stop - start) (by omega) hl
  obtain ⟨hA, hk, hcpos, hR, hAk, hRk⟩ := decomp_facts O hc
  have hlen : (flat O (A ++ (fk, fc) :: R)).length = n := by rw [flat_length O hO, hn]
  have hfe : fk + O.len fc + total O R = n := by
    simp only [total_append, total_cons] at hn; omega
  rw [← hVb]
  unfold setSliceGeneral
  simp only [storeValue_eq]
  by_cases hge : stop ≥ n
  · -- G1: the write reaches or passes the end; every later chunk is deleted, no tail is kept
    have hdel : delRange (A ++ (fk, fc) :: R) (A.length + 1) (A ++ (fk, fc) :: R).length
        = A ++ (fk, fc) :: [] := by
      unfold delRange
      rw [take_len_succ, List.drop_of_length_le (by omega)]; simp
    have hkeep : ∀ X, keepTail O X stop (loadChunk O ⟨A ++ (fk, fc) :: R, n⟩ (stop - 1)) = X := by
      intro X
      by_cases hs : stop - 1 < n
      · obtain ⟨A', lk, lc, B', e, p1, p2⟩ := exists_decomp O _ 0 (stop - 1) hc (by omega) (by omega)
        have hc' := hc; rw [e] at hc'
        have hn' := hn; rw [e] at hn'
        have hm := contig_mem O hc' (lk, lc) (by simp)
        rw [e, loadChunk_decomp O A' B' lk lc n (stop - 1) hc' hn' p1 p2]
        simp only [keepTail]
        rw [if_neg (by simp only [Nat.zero_add, hn'] at hm; omega)]
      · rw [loadChunk_none O _ _ (by simp; omega)]; rfl
    simp only [if_pos hge, hdel, hkeep]
    rw [steps23 O hO A [] fk fc start _ hAk h1 h2 hV hVne (by simp)]
    have := assemble O hO A R [] fk fc start stop n (v.chunks) hc hn h1 h2 hss hV hVt trivial
      (by rw [List.drop_of_length_le (by omega)]; rfl)
    simpa using this
  · -- the write ends inside the sequence: the chunk holding `stop - 1` exists
    simp only [if_neg hge]
    by_cases hsame : stop - 1 < fk + O.len fc
    · -- G2a: it is the first chunk
      rw [loadChunk_decomp O A R fk fc n (stop - 1) hc hn (by omega) hsame]
      simp only
      have hdel : delRange (A ++ (fk, fc) :: R) (A.length + 1) (A.length + 1) = A ++ (fk, fc) :: R := by
        unfold delRange; rw [Nat.max_self, List.take_append_drop]
      rw [hdel, steps23 O hO A R fk fc start _ hAk h1 h2 hV hVne
        (by intro e he; have := hRk e he; omega)]
      obtain ⟨hfin, hpost⟩ := keepTail_some O hO
        (A ++ optEntry O fk (O.slice fc 0 (start - fk)) ++ shift start (v.chunks)) R stop A.length fk fc
        (prefix_keys_lt O A fk _ start stop _ hAk h1 hss hV hVt) hRk (by omega) (by omega)
      rw [hfin]
      refine assemble O hO A R _ fk fc start stop n (v.chunks) hc hn h1 h2 hss hV hVt ?_ ?_
      · rw [contig_optEntry_append, hpost, show stop + (fk + O.len fc - stop) = fk + O.len fc by omega]
        exact hR
      · have hA' : (flat O A).length = fk := by rw [flat_length O hO, ← hk]
        have := drop_mid (flat O A) (O.bytes fc) (flat O R) (stop - fk) (by rw [hO.bytes_len]; omega)
        rw [hA', show fk + (stop - fk) = stop by omega] at this
        simp only [flat_append, flat_cons, flat_optEntry O hO]
        rw [hO.bytes_slice fc _ _ (by omega) (by omega),
          List.take_of_length_le (by rw [hO.bytes_len]; omega)]
        simpa using this
    · -- G2b: it is a later chunk
      obtain ⟨M, lk, lc, B, e, p1, p2⟩ := exists_decomp O R (fk + O.len fc) (stop - 1) hR (by omega) (by omega)
      subst e
      have hl' : A ++ (fk, fc) :: (M ++ (lk, lc) :: B) = (A ++ (fk, fc) :: M) ++ (lk, lc) :: B := by simp
      have hc' := hc; rw [hl'] at hc'
      have hn' := hn; rw [hl'] at hn'
      obtain ⟨_, hlk, hlcpos, hB, _, hBk⟩ := decomp_facts O hc'
      have hload : loadChunk O ⟨A ++ (fk, fc) :: (M ++ (lk, lc) :: B), n⟩ (stop - 1)
          = some (A.length + 1 + M.length, lk, lc, lk + O.len lc) := by
        have := loadChunk_decomp O (A ++ (fk, fc) :: M) B lk lc n (stop - 1) hc' hn' p1 p2
        rw [← hl'] at this
        rw [this]; simp; omega
      rw [hload]
      simp only
      have hdel : delRange (A ++ (fk, fc) :: (M ++ (lk, lc) :: B)) (A.length + 1) (A.length + 1 + M.length + 1)
          = A ++ (fk, fc) :: B := by
        unfold delRange
        rw [take_len_succ, show max (A.length + 1) (A.length + 1 + M.length + 1) = A.length + 1 + M.length + 1 by omega,
          drop_len_mid]
        simp
      rw [hdel, steps23 O hO A B fk fc start _ hAk h1 h2 hV hVne
        (by intro e he; have := hBk e he; omega)]
      obtain ⟨hfin, hpost⟩ := keepTail_some O hO
        (A ++ optEntry O fk (O.slice fc 0 (start - fk)) ++ shift start (v.chunks)) B stop
        (A.length + 1 + M.length) lk lc
        (prefix_keys_lt O A fk _ start stop _ hAk h1 hss hV hVt) hBk (by omega) (by omega)
      rw [hfin]
      refine assemble O hO A (M ++ (lk, lc) :: B) _ fk fc start stop n (v.chunks) hc hn h1 h2 hss hV hVt ?_ ?_
      · rw [contig_optEntry_append, hpost, show stop + (lk + O.len lc - stop) = lk + O.len lc by omega]
        exact hB
      · have hX : (flat O (A ++ (fk, fc) :: M)).length = lk := by rw [flat_length O hO, ← hlk]
        have := drop_mid (flat O (A ++ (fk, fc) :: M)) (O.bytes lc) (flat O B) (stop - lk)
          (by rw [hO.bytes_len]; omega)
        rw [hX, show lk + (stop - lk) = stop by omega] at this
        rw [hl']
        simp only [flat_append, flat_cons, flat_optEntry O hO]
        rw [hO.bytes_slice lc _ _ (by omega) (by omega),
          List.take_of_length_le (by rw [hO.bytes_len]; omega)]
        simpa using this

end

/-! ## `set_slice` -/

section
variable {C : Type} (O : ChunkOps C)
open BVec

theorem asChunk_facts (v : Value C) (hv : v.WF O) (c : C) (h : v.asChunk = some c) :
    O.len c = v.len O ∧ O.bytes c = v.bytes O := by
  cases v with
  | one c' => simp only [Value.asChunk, Option.some.injEq] at h; subst h; exact ⟨rfl, rfl⟩
  | many a l n => exact hv.2.2 c h

theorem setSlice_noop (bv : BVec C) (s : Nat) (v : Value C) : setSlice O bv s s v = .ok bv := by
  simp [setSlice]

theorem setSlice_err_order (bv : BVec C) (s e : Nat) (v : Value C) (h : s > e) :
    setSlice O bv s e v = .error .valueError := by
  unfold setSlice
  rw [if_neg (by omega), if_pos h]

theorem setSlice_err_len (bv : BVec C) (s e : Nat) (v : Value C) (h : s < e) (hl : e - s ≠ v.len O) :
    setSlice O bv s e v = .error .valueError := by
  unfold setSlice
  rw [if_neg (by omega), if_neg (by omega), if_pos hl]

theorem setSlice_spec (hO : Lawful O) (bv : BVec C) (start stop : Nat) (v : Value C)
    (h : WF O bv) (hv : v.WF O) (hss : start < stop) (hl : stop - start = v.len O) :
    ∃ bv', setSlice O bv start stop v = .ok bv' ∧ WF O bv' ∧
      flat O bv'.chunks = Flat.write (flat O bv.chunks) start (v.bytes O) := by
  have hvl : (v.bytes O).length = stop - start := by rw [Value.bytes_len O hO v hv, hl]
  have hvne : v.bytes O ≠ [] := by intro e; rw [e] at hvl; simp at hvl; omega
  have hlen := WF.length_eq hO h
  unfold setSlice
  rw [if_neg (by omega), if_neg (by omega), if_neg (by omega)]
  by_cases hst : start ≥ bv.length
  · rw [if_pos hst]
    have h1 := append_spec O hO bv (O.zeros (start - bv.length)) h
    have h2 := appendValue_spec O hO _ v h1.1
    refine ⟨_, rfl, h2.1, ?_⟩
    rw [h2.2, h1.2, hO.zeros_bytes, Flat.write_past _ _ _ hvne (by omega), hlen]
  · rw [if_neg hst]
    obtain ⟨l, n⟩ := bv
    obtain ⟨hc, ht⟩ := h
    simp only at hc ht hst hlen
    obtain ⟨A, fk, fc, R, rfl, h1, h2⟩ := exists_decomp O l 0 start hc (by omega) (by omega)
    rw [loadChunk_decomp O A R fk fc n start hc ht h1 h2]
    simp only
    have hgen := general_spec O hO A R fk fc n start stop v hc ht h1 h2 hss hv hl
    by_cases hal : start = fk ∧ stop = fk + O.len fc
    · rw [if_pos hal]
      cases hac : v.asChunk with
      | none => exact ⟨_, rfl, hgen.1, hgen.2⟩
      | some c =>
        simp only
        obtain ⟨hcl, hcb⟩ := asChunk_facts O v hv c hac
        obtain ⟨hA, hk, hcpos, hR, hAk, hRk⟩ := decomp_facts O hc
        obtain ⟨rfl, hstop⟩ := hal
        have hclen : O.len c = O.len fc := by omega
        have hset : setChunk O (A ++ (start, fc) :: R) start c = A ++ (start, c) :: R := by
          rw [setChunk_eq, if_neg (by omega), setKey_replace A R start fc c hAk]
        rw [hset]
        refine ⟨_, rfl, ⟨?_, ?_⟩, ?_⟩
        · rw [contig_append, contig_cons]
          rw [contig_append, contig_cons] at hc
          simp only [hclen]
          exact hc
        · simp only [total_append, total_cons, hclen] at ht ⊢
          exact ht
        · have hA' : (flat O A).length = start := by rw [flat_length O hO, ← hk]
          have hcl' : (O.bytes c).length = O.len fc := by rw [hO.bytes_len, hclen]
          have hle : start ≤ (flat O (A ++ (start, fc) :: R)).length := by rw [hlen]; omega
          rw [← hcb, Flat.write_of_le _ _ _ (by rw [hcb]; exact hvne) hle, hcl']
          have e1 := take_mid (flat O A) (O.bytes fc) (flat O R) 0 (by omega)
          have e2 := drop_mid (flat O A) (O.bytes fc) (flat O R) (O.len fc) (by rw [hO.bytes_len]; omega)
          rw [hA'] at e1 e2
          simp only [flat_append, flat_cons, ← List.append_assoc]
          simp only [Nat.add_zero, List.take_zero, List.append_nil] at e1
          rw [e1, e2, List.drop_of_length_le (by rw [hO.bytes_len]; omega)]
          simp
    · rw [if_neg hal]
      exact ⟨_, rfl, hgen.1, hgen.2⟩

end

end HalmosVerif.Model.BV
