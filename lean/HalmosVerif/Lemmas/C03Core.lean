/-
Lemmas.C03Core — what Props.C03Core needs to instantiate the composition theorem `Props.C03.pass_sound` with the
exploration-core machine (Model.Sevm) and the reference EVM (Spec.Evm):

  * `ofHalt`: the outcome `run_test` reads off a *concrete* halt of `Spec.Evm.exec` (success / `Panic(code)` decoded
    from 36 bytes of revert data `4e487b71 ‖ code` / any other revert or exceptional halt);
  * `endOutcome`: the outcome `run_test` reads off an *end state of the model* (`CallOutput.is_panic_of` on the byte
    terms the end state carries: the selector and the code are read only when they are literals);
  * `endLit`: the revert data of an end state is literal wherever `is_panic_of` looks at it, and
    `endOutcome_class`: for such an end state the two readings have the same classification, whatever the valuation;
  * `exec_det`: `Spec.Evm.exec` is deterministic in its fuel (from `exec_mono_le`).

The global fail flag (`vm.assert*`, the legacy `failed` slot) does not exist in the core machine (cheatcode calls are
outside its instruction set: the path ends stuck), so neither reading ever yields `.failFlag`.
-/
import HalmosVerif.Lemmas.SevmCallConc
import HalmosVerif.Lemmas.SevmStep
import HalmosVerif.Lemmas.Main

namespace HalmosVerif.Lemmas.C03Core
open HalmosVerif.Model HalmosVerif.Model.Sevm HalmosVerif.Spec HalmosVerif.Lemmas.Sevm
open HalmosVerif.Model.Main (Outcome Class classify isPanicOf)

/-! ### the concrete reading -/

/-- `bytes4(keccak256("Panic(uint256)"))` -/
def panicSelector : List Nat := [0x4e, 0x48, 0x7b, 0x71]

/-- `is_panic_of` on concrete revert data: exactly 36 bytes, the Panic selector, then the 32-byte big-endian code -/
def bytesOutcome (d : List Nat) : Outcome :=
  if d.length = 36 ∧ d.take 4 = panicSelector then .panic (Evm.bytesToNat (d.drop 4)) else .revert

/-- the outcome of a finished concrete execution, as `run_test` classifies it (fail flag: none in the core machine) -/
def ofHalt : Evm.Halt → Outcome
  | .success _ => .success
  | .revert d => bytesOutcome d
  | _ => .revert

/-! ### the symbolic reading -/

/-- the value of a literal term (what `unbox_int` / `bytes` give for a concrete byte), `none` for anything symbolic -/
def litVal? : T → Option Nat
  | .lit w n => some (n % 2 ^ w)
  | _ => none

def litBytes? : List T → Option (List Nat)
  | [] => some []
  | t :: ts =>
    match litVal? t, litBytes? ts with
    | some v, some vs => some (v :: vs)
    | _, _ => none

/-- `is_panic_of` on the byte terms `d` of a Revert (`codes`: the configured `--panic-error-codes`, empty = any):
    not 36 bytes → no; selector not the literal Panic selector → no; empty code set → yes without looking at the code;
    literal code → that code; symbolic code → "silently ignored" (NOTE in `is_panic_of`): no.
    A symbolic selector is outside `dataLit`; the value given here for it (`.revert`) is not claimed of the code. -/
def dataOutcome (codes : List Nat) (d : List T) : Outcome :=
  if d.length = 36 then
    match litBytes? (d.take 4) with
    | some sel =>
      if sel = panicSelector then
        match litBytes? (d.drop 4) with
        | some bs => .panic (Evm.bytesToNat bs)
        | none => if codes.isEmpty then .panic 0 else .revert
      else .revert
    | none => .revert
  else .revert

/-- the revert data is literal wherever `is_panic_of` reads it: 36 bytes ⇒ the selector is literal, and if it is the
    Panic selector and a code set is configured, the code is literal too -/
def dataLit (codes : List Nat) (d : List T) : Bool :=
  d.length != 36 ||
    match litBytes? (d.take 4) with
    | some sel => sel != panicSelector || codes.isEmpty || (litBytes? (d.drop 4)).isSome
    | none => false

/-- the outcome `run_test` reads off an end state: `is_stuck` (HalmosException) / no error / Revert with data / any
    other EVM error -/
def endOutcome (codes : List Nat) (e : EndState) : Outcome :=
  match e.out with
  | .stuck _ => .stuck
  | .halt (.success _) => .success
  | .halt (.revert _) => dataOutcome codes e.data
  | .halt _ => .revert

def endLit (codes : List Nat) (e : EndState) : Bool :=
  match e.out with
  | .halt (.revert _) => dataLit codes e.data
  | _ => true

/-! ### the two readings agree -/

theorem litVal?_eval {t : T} {v : Nat} (h : litVal? t = some v) (I : Interp) : t.eval I = v := by
  cases t <;> simp only [litVal?, Option.some.injEq, reduceCtorEq] at h
  simp only [T.eval]; exact h

theorem litBytes?_eval {ts : List T} {vs : List Nat} (h : litBytes? ts = some vs) (I : Interp) :
    ts.map (·.eval I) = vs := by
  induction ts generalizing vs with
  | nil => simp only [litBytes?, Option.some.injEq] at h; subst h; rfl
  | cons t ts ih =>
    unfold litBytes? at h
    split at h
    · rename_i v vs' hv hvs
      simp only [Option.some.injEq] at h
      subst h
      simp only [List.map_cons, litVal?_eval hv I, ih hvs]
    · cases h

theorem classify_panic_any (c : Nat) : classify [] (.panic c) = .potential := by
  simp [classify, isPanicOf]

/-- the fail flag is the only other way to be `potential`; neither reading produces it -/
theorem ofHalt_ne_failFlag (h : Evm.Halt) : ofHalt h ≠ .failFlag := by
  cases h <;> simp only [ofHalt, ne_eq, reduceCtorEq, not_false_eq_true]
  unfold bytesOutcome; split <;> simp

/-- **the readings agree on literal data**: same classification under every valuation (same outcome, even, unless the
    code is symbolic and the code set empty) -/
theorem dataOutcome_class {codes : List Nat} {d : List T} (hl : dataLit codes d = true) (I : Interp) :
    classify codes (dataOutcome codes d) = classify codes (bytesOutcome (d.map (·.eval I))) := by
  unfold dataOutcome bytesOutcome
  by_cases hlen : d.length = 36
  · simp only [hlen, List.length_map, true_and, if_true]
    have hl' : (match litBytes? (d.take 4) with
        | some sel => sel != panicSelector || codes.isEmpty || (litBytes? (d.drop 4)).isSome
        | none => false) = true := by
      unfold dataLit at hl
      simpa [hlen] using hl
    cases hsel : litBytes? (d.take 4) with
    | none => rw [hsel] at hl'; cases hl'
    | some sel =>
      rw [hsel] at hl'
      have htake : (d.map (·.eval I)).take 4 = sel := by
        rw [← List.map_take]; exact litBytes?_eval hsel I
      simp only [htake]
      by_cases hp : sel = panicSelector
      · simp only [hp, if_true]
        cases hcode : litBytes? (d.drop 4) with
        | some bs =>
          have hdrop : (d.map (·.eval I)).drop 4 = bs := by
            rw [← List.map_drop]; exact litBytes?_eval hcode I
          simp only [hdrop]
        | none =>
          have he : codes.isEmpty = true := by
            simpa [hp, hcode] using hl'
          have hc : codes = [] := List.isEmpty_iff.1 he
          subst hc
          simp only [List.isEmpty_nil, if_true, classify_panic_any]
      · simp only [hp, if_false]
  · simp only [hlen, List.length_map, false_and, if_false]

/-- **endOutcome_class.** An end state reporting the EVM outcome kind `h0` whose revert data is literal where it is
    read: the outcome read off the end state and the outcome read off the concrete halt `haltWith h0 (data under I)`
    have the same classification, for every valuation `I`. -/
theorem endOutcome_class {codes : List Nat} {e : EndState} {h0 : Evm.Halt} (hout : e.out = .halt h0)
    (hl : endLit codes e = true) (I : Interp) :
    classify codes (endOutcome codes e) = classify codes (ofHalt (haltWith h0 (e.data.map (·.eval I)))) := by
  unfold endOutcome endLit at *
  rw [hout] at hl ⊢
  cases h0 <;> simp only [haltWith, ofHalt] at hl ⊢
  exact dataOutcome_class hl I

/-! ### determinism of the reference interpreter in its fuel -/

theorem exec_det {p : Evm.Params} {n m : Nat} {w : Evm.World} {f : Evm.Frame} {r r' : Evm.World × Evm.Halt}
    (h : Evm.exec p n w f = some r) (h' : Evm.exec p m w f = some r') : r = r' := by
  have a := exec_mono_le (Nat.le_max_left n m) h
  have b := exec_mono_le (Nat.le_max_right n m) h'
  rw [a] at b
  exact Option.some.inj b

end HalmosVerif.Lemmas.C03Core
