/-
Lemmas for C12 (part 2): generality of the generalised encoding.

`assign cfg τ name v k` is the assignment of symbols *intended* for a value `v`: every size symbol of a dynamic part
present in `v` gets the length, every leaf symbol present in `v` gets the word / the zero-padded payload.  Symbols of
array elements beyond the actual length are left unconstrained.  `encode_block`: under any environment satisfying the
assignment, the decoder of the Spec reads `v` back from the instantiated encoding, wherever it is embedded.
-/
import HalmosVerif.Lemmas.C12Inv

namespace HalmosVerif.Model.Calldata
open HalmosVerif.Spec.Abi

/-! ### from the model's type trees to the types of the specification -/

/-- the ABI type named by a leaf type string (`none` for strings that name no elementary/bytes/string type) -/
def baseTy (typ : String) : Option Ty :=
  if typ = "bytes" then some .bytes
  else if typ = "string" then some .string
  else if typ = "address" then some .address
  else if typ = "bool" then some .bool
  else match stripPrefix? "uint".toList typ.toList with
    | some ds => if ds = [] then some (.uint 256) else some (.uint (digitsToNat ds))
    | none =>
      match stripPrefix? "int".toList typ.toList with
      | some ds => if ds = [] then some (.int 256) else some (.int (digitsToNat ds))
      | none =>
        match stripPrefix? "bytes".toList typ.toList with
        | some ds => some (.bytesN (digitsToNat ds))
        | none => none

mutual
def toTy : MTy → Option Ty
  | .base _ typ => baseTy typ
  | .farr _ b n => (toTy b).map (fun t => .farr t n)
  | .darr _ b => (toTy b).map .darr
  | .tuple _ items => (toTys items).map .tuple
def toTys : List MTy → Option (List Ty)
  | [] => some []
  | i :: r =>
    match toTy i, toTys r with
    | some t, some ts => some (t :: ts)
    | _, _ => none
end

def isElem : Ty → Bool
  | .uint _ | .int _ | .address | .bool | .bytesN _ => true
  | _ => false

theorem baseTy_bytesLike (typ : String) (t : Ty) (h : isBytesLike typ = true) (ht : baseTy typ = some t) :
    (typ = "bytes" ∧ t = .bytes) ∨ (typ = "string" ∧ t = .string) := by
  unfold baseTy at ht
  simp only [isBytesLike, Bool.or_eq_true, beq_iff_eq] at h
  rcases h with h | h
  · subst h; simp at ht; exact Or.inl ⟨rfl, ht.symm⟩
  · subst h; simp at ht; exact Or.inr ⟨rfl, ht.symm⟩

theorem baseTy_elem (typ : String) (t : Ty) (h : isBytesLike typ = false) (ht : baseTy typ = some t) : isElem t = true := by
  unfold baseTy at ht
  simp only [isBytesLike, Bool.or_eq_false_iff, beq_eq_false_iff_ne, ne_eq] at h
  simp only [h.1, h.2, ↓reduceIte] at ht
  repeat' split at ht
  all_goals first | (injection ht with ht; subst ht; rfl) | (exact absurd ht (by simp))

mutual
/-- no zero-length fixed array of a dynamic element type (not expressible in Solidity; see `zero_fixed_cex`) -/
def noZeroFarr : Ty → Bool
  | .farr t k => noZeroFarr t && (k != 0 || !isDyn t)
  | .darr t => noZeroFarr t
  | .tuple ts => noZeroFarrs ts
  | _ => true
def noZeroFarrs : List Ty → Bool
  | [] => true
  | t :: ts => noZeroFarr t && noZeroFarrs ts
end

/-! ### the intended assignment -/

/-- the 32-byte word of an elementary value -/
def leafBytes : Val → Bytes
  | .uint x => word x
  | .int x => word (ofInt256 x)
  | .addr x => word x
  | .bool b => word (if b then 1 else 0)
  | .fbytes bs => bs ++ zeros (32 - bs.length)
  | _ => []

def payload : Val → Bytes
  | .bytes bs => bs
  | .str bs => bs
  | _ => []

theorem enc_elem (t : Ty) (v : Val) (ht : isElem t = true) (hw : wt t v = true) : enc t v = leafBytes v := by
  cases t <;> simp [isElem] at ht <;> cases v <;> simp [wt] at hw <;> simp [enc, leafBytes]

abbrev Asg := List (SymId × Bytes)

/-- the assignments of consecutive array elements -/
def asgRange (fa : Nat → Val → Nat → Asg) (fk : Nat → Nat → Nat) : Nat → List Val → Nat → Asg
  | _, [], _ => []
  | i, v :: vs, k => fa i v k ++ asgRange fa fk (i + 1) vs (fk i k)

mutual
def assign (cfg : Cfg) : MTy → String → Val → Nat → Asg
  | .base _ typ, name, v, k =>
    if isBytesLike typ then
      let padded := (maxOf (cfg.sizes name false) + 31) / 32 * 32
      [(⟨name, typ, k⟩, payload v ++ zeros (padded - (payload v).length)),
       (⟨name, "length", k + 1⟩, word (payload v).length)]
    else [(⟨name, typ, k⟩, leafBytes v)]
  | .darr _ b, name, v, k =>
    match v with
    | .list vs =>
      (⟨name, "length", k⟩, word vs.length) ::
        asgRange (fun i v k => assign cfg b (idxName name i) v k) (fun i k => (encode cfg (idxName name i) b k).2) 0
          (vs.take (maxOf (cfg.sizes name true))) (k + 1)     -- (`take`: no-op for a fitting value)
    | _ => []
  | .farr _ b n, name, v, k =>
    match v with
    | .list vs =>
      asgRange (fun i v k => assign cfg b (idxName name i) v k) (fun i k => (encode cfg (idxName name i) b k).2) 0
        (vs.take n) k
    | _ => []
  | .tuple _ items, name, v, k =>
    match v with
    | .list vs => assignItems cfg items (tuplePrefix name) vs k
    | _ => []
def assignItems (cfg : Cfg) : List MTy → String → List Val → Nat → Asg
  | [], _, _, _ => []
  | it :: rest, pre, vs, k =>
    match vs with
    | [] => []
    | v :: vs => assign cfg it (pre ++ it.var) v k ++ assignItems cfg rest pre vs (encode cfg (pre ++ it.var) it k).2
end

/-- `env` gives every symbol of the assignment its intended bytes -/
def Sat (env : Env) (a : Asg) : Prop := ∀ p ∈ a, env p.1 = p.2

theorem Sat.left {env : Env} {a b : Asg} (h : Sat env (a ++ b)) : Sat env a := fun p hp => h p (by simp [hp])
theorem Sat.right {env : Env} {a b : Asg} (h : Sat env (a ++ b)) : Sat env b := fun p hp => h p (by simp [hp])

/-! ### "the dynamic lengths of `v` are among the configured candidates" -/

def FitsRange (P : Nat → Val → Prop) : Nat → List Val → Prop
  | _, [] => True
  | i, v :: vs => P i v ∧ FitsRange P (i + 1) vs

mutual
def Fits (cfg : Cfg) : MTy → String → Val → Prop
  | .base _ typ, name, v => isBytesLike typ = true → (payload v).length ∈ cfg.sizes name false
  | .darr _ b, name, v =>
    match v with
    | .list vs => vs.length ∈ cfg.sizes name true ∧ FitsRange (fun i v => Fits cfg b (idxName name i) v) 0 vs
    | _ => True
  | .farr _ b _, name, v =>
    match v with
    | .list vs => FitsRange (fun i v => Fits cfg b (idxName name i) v) 0 vs
    | _ => True
  | .tuple _ items, name, v =>
    match v with
    | .list vs => FitsItems cfg items (tuplePrefix name) vs
    | _ => True
def FitsItems (cfg : Cfg) : List MTy → String → List Val → Prop
  | [], _, _ => True
  | it :: rest, pre, vs =>
    match vs with
    | [] => True
    | v :: vs => Fits cfg it (pre ++ it.var) v ∧ FitsItems cfg rest pre vs
end

/-! ### evaluation of `encode_tuple` = the layout of the specification -/

def itemOf (env : Env) (e : Enc) : Bool × Bytes := (!e.static, evalBytes env e.data)

theorem evalBytes_tupleGo (env : Env) (es : List Enc) (hwf : ∀ e ∈ es, dataLen e.data = e.size) (tot : Nat) :
    evalBytes env (tupleGo es tot).1 = (layoutGo (es.map (itemOf env)) tot).1 ∧
    evalBytes env (tupleGo es tot).2.1 = (layoutGo (es.map (itemOf env)) tot).2 := by
  induction es generalizing tot with
  | nil => simp [tupleGo, layoutGo, evalBytes]
  | cons e es ih =>
    have hr : ∀ e' ∈ es, dataLen e'.data = e'.size := fun e' h => hwf e' (by simp [h])
    by_cases hs : e.static
    · obtain ⟨h1, h2⟩ := ih hr tot
      simp [tupleGo, hs, itemOf, layoutGo, evalBytes_append, h1, h2]
    · have he : (evalBytes env e.data).length = e.size := by rw [evalBytes_length]; exact hwf e (by simp)
      obtain ⟨h1, h2⟩ := ih hr (tot + e.size)
      simp [tupleGo, hs, itemOf, layoutGo, evalBytes_append, evalBytes, evalItem, h1, h2, he]

theorem headTotal_items (env : Env) (es : List Enc) (hwf : ∀ e ∈ es, dataLen e.data = e.size) :
    headTotal (es.map (itemOf env)) = totalHead es := by
  rw [totalHead_eq]
  induction es with
  | nil => rfl
  | cons e es ih =>
    have hr : ∀ e' ∈ es, dataLen e'.data = e'.size := fun e' h => hwf e' (by simp [h])
    have he : (evalBytes env e.data).length = e.size := by rw [evalBytes_length]; exact hwf e (by simp)
    by_cases hs : e.static <;> simp [itemOf, headTotal, sumHeadE, headSizeE, hs, ih hr, he]

theorem evalBytes_encodeTuple (env : Env) (es : List Enc) (hwf : ∀ e ∈ es, dataLen e.data = e.size) :
    evalBytes env (encodeTuple es).data = encSeq (es.map (itemOf env)) := by
  obtain ⟨h1, h2⟩ := evalBytes_tupleGo env es hwf (totalHead es)
  simp only [encodeTuple, encSeq, evalBytes_append, h1, h2, headTotal_items env es hwf]

/-- `static` flag of `encode_tuple`: no tails -/
theorem tupleGo_tails_nil (es : List Enc) (tot : Nat) (h : ∀ e ∈ es, e.static = true) : (tupleGo es tot).2.1 = [] := by
  induction es generalizing tot with
  | nil => rfl
  | cons e es ih =>
    simp only [tupleGo, h e (by simp), ↓reduceIte]
    exact ih tot (fun e' he => h e' (by simp [he]))

theorem tupleGo_tails_ne (es : List Enc) (tot : Nat) (e : Enc) (he : e ∈ es) (hs : e.static = false) (hd : e.data ≠ []) :
    (tupleGo es tot).2.1 ≠ [] := by
  induction es generalizing tot with
  | nil => simp at he
  | cons e' es ih =>
    simp only [List.mem_cons] at he
    by_cases hs' : e'.static
    · simp only [tupleGo, hs', ↓reduceIte]
      rcases he with rfl | he
      · simp [hs] at hs'
      · exact ih tot he
    · simp only [tupleGo, hs', Bool.false_eq_true, ↓reduceIte]
      rcases he with rfl | he
      · simp [hd]
      · have := ih (tot + e'.size) he
        simp [this]

/-! ### the main induction -/

theorem foldl_max_ge (l : List Nat) (a : Nat) : a ≤ l.foldl Nat.max a ∧ ∀ x ∈ l, x ≤ l.foldl Nat.max a := by
  induction l generalizing a with
  | nil => simp
  | cons y l ih =>
    obtain ⟨h1, h2⟩ := ih (Nat.max a y)
    refine ⟨Nat.le_trans (Nat.le_max_left a y) h1, ?_⟩
    intro x hx
    simp only [List.mem_cons] at hx
    rcases hx with rfl | hx
    · exact Nat.le_trans (Nat.le_max_right a x) h1
    · exact h2 x hx

theorem le_maxOf (l : List Nat) (x : Nat) (h : x ∈ l) : x ≤ maxOf l := (foldl_max_ge l 0).2 x h

/-- what the main induction establishes for one encoding -/
structure Good (env : Env) (t : Ty) (e : Enc) (v : Val) : Prop where
  ok : Comp.ok ⟨decOf t, evalBytes env e.data, v⟩
  static_eq : e.static = !isDyn t
  data_ne : e.static = false → e.data ≠ []

inductive GoodList (env : Env) : List Ty → List Enc → List Val → Prop
  | nil : GoodList env [] [] []
  | cons {t : Ty} {e : Enc} {v : Val} {ts : List Ty} {es : List Enc} {vs : List Val} :
      Good env t e v → GoodList env ts es vs → GoodList env (t :: ts) (e :: es) (v :: vs)

theorem GoodList.comps {env : Env} {ts : List Ty} {es : List Enc} {vs : List Val} (h : GoodList env ts es vs) :
    ∃ cs : List Comp, (∀ c ∈ cs, c.ok) ∧ cs.map (·.d) = decs ts ∧ compItems cs = es.map (itemOf env) ∧ cs.map (·.v) = vs := by
  induction h with
  | nil => exact ⟨[], by simp, by simp [decs], by simp [compItems], by simp⟩
  | @cons t e v ts es vs hg _ ih =>
    obtain ⟨cs, h1, h2, h3, h4⟩ := ih
    refine ⟨⟨decOf t, evalBytes env e.data, v⟩ :: cs, ?_, ?_, ?_, ?_⟩
    · intro c hc
      simp only [List.mem_cons] at hc
      rcases hc with rfl | hc
      · exact hg.ok
      · exact h1 c hc
    · simp [decs, h2, decOf]
    · simp only [compItems, List.map_cons] at h3 ⊢
      rw [h3]; simp [itemOf, decOf, hg.static_eq]
    · simp [h4]

theorem GoodList.static_items {env : Env} {ts : List Ty} {es : List Enc} {vs : List Val} (h : GoodList env ts es vs)
    (hd : anyDyn ts = false) :
    (∀ e ∈ es, e.static = true) ∧ headTotal (es.map (itemOf env)) = sumHead ts := by
  induction h with
  | nil => simp [headTotal, sumHead]
  | @cons t e v ts es vs hg _ ih =>
    simp only [anyDyn, Bool.or_eq_false_iff] at hd
    obtain ⟨h1, h2⟩ := ih hd.2
    have hs : e.static = true := by rw [hg.static_eq, hd.1]; rfl
    have hh := hg.ok.2 (by simp [decOf, hd.1])
    simp only [decOf] at hh
    refine ⟨?_, ?_⟩
    · intro e' he'
      simp only [List.mem_cons] at he'
      rcases he' with rfl | he'
      · exact hs
      · exact h1 e' he'
    · simp [itemOf, hs, headTotal, sumHead, h2, hh]

theorem GoodList.dyn_item {env : Env} {ts : List Ty} {es : List Enc} {vs : List Val} (h : GoodList env ts es vs)
    (hd : anyDyn ts = true) : ∃ e ∈ es, e.static = false ∧ e.data ≠ [] := by
  induction h with
  | nil => simp [anyDyn] at hd
  | @cons t e v ts es vs hg _ ih =>
    simp only [anyDyn, Bool.or_eq_true] at hd
    by_cases ht : isDyn t = true
    · have hs : e.static = false := by rw [hg.static_eq, ht]; rfl
      exact ⟨e, by simp, hs, hg.data_ne hs⟩
    · have := hd.resolve_left ht
      obtain ⟨e', he', h1, h2⟩ := ih this
      exact ⟨e', by simp [he'], h1, h2⟩

/-- a sequence of good encodings, followed by arbitrary further (well-sized) items, laid out by `encode_tuple` -/
theorem seq_decode {env : Env} {ts : List Ty} {es : List Enc} {vs : List Val} (h : GoodList env ts es vs)
    (es2 : List Enc) (hwf : ∀ e ∈ es ++ es2, dataLen e.data = e.size) (pre post : Bytes)
    (hl : pre.length + (evalBytes env (encodeTuple (es ++ es2)).data).length + post.length < 2 ^ 256) :
    decSeq (decs ts) (pre ++ evalBytes env (encodeTuple (es ++ es2)).data ++ post) pre.length pre.length = some vs := by
  obtain ⟨cs, h1, h2, h3, h4⟩ := h.comps
  rw [evalBytes_encodeTuple env _ hwf] at hl ⊢
  rw [List.map_append, ← h3] at hl ⊢
  rw [← h2, ← h4]
  exact decSeq_encSeq_prefix cs h1 _ pre post hl

theorem seq_static {env : Env} {ts : List Ty} {es : List Enc} {vs : List Val} (h : GoodList env ts es vs) :
    (encodeTuple es).static = !anyDyn ts ∧ ((encodeTuple es).static = false → (encodeTuple es).data ≠ []) := by
  cases hd : anyDyn ts with
  | false =>
    have := tupleGo_tails_nil es (totalHead es) (h.static_items hd).1
    simp [encodeTuple, this]
  | true =>
    obtain ⟨e, he, h1, h2⟩ := h.dyn_item hd
    have := tupleGo_tails_ne es (totalHead es) e he h1 h2
    simp [encodeTuple, this]

theorem seq_headsize {env : Env} {ts : List Ty} {es : List Enc} {vs : List Val} (h : GoodList env ts es vs)
    (hwf : ∀ e ∈ es, dataLen e.data = e.size) (hd : anyDyn ts = false) :
    sumHead ts = (evalBytes env (encodeTuple es).data).length := by
  obtain ⟨h1, h2⟩ := h.static_items hd
  rw [evalBytes_encodeTuple env es hwf, encSeq_length_static _ (by
    intro x hx
    simp only [List.mem_map] at hx
    obtain ⟨e, he, rfl⟩ := hx
    simp [itemOf, h1 e he]), h2]

/-! replicate facts -/
theorem decs_replicate (t : Ty) (n : Nat) : decs (List.replicate n t) = List.replicate n (decOf t) := by
  induction n with
  | zero => rfl
  | succ n ih => simp [List.replicate_succ, decs, ih, decOf]

theorem anyDyn_replicate (t : Ty) (n : Nat) : anyDyn (List.replicate n t) = (n != 0 && isDyn t) := by
  induction n with
  | zero => rfl
  | succ n ih => simp [List.replicate_succ, anyDyn, ih]

theorem sumHead_replicate (t : Ty) (n : Nat) : sumHead (List.replicate n t) = n * headSize t := by
  induction n with
  | zero => simp [sumHead]
  | succ n ih => simp [List.replicate_succ, sumHead, ih, Nat.succ_mul]; omega


theorem encRange_split (f : Nat → Nat → Enc × Nat) (a b i k : Nat) :
    (encRange f i (a + b) k).1 = (encRange f i a k).1 ++ (encRange f (i + a) b (encRange f i a k).2).1 := by
  induction a generalizing i k with
  | zero => simp [encRange]
  | succ a ih =>
    have : a + 1 + b = (a + b) + 1 := by omega
    rw [this]
    simp only [encRange, List.cons_append]
    rw [ih (i + 1) (f i k).2]
    have : i + 1 + a = i + (a + 1) := by omega
    rw [this]

/-- good encodings of consecutive array elements -/
theorem range_good (cfg : Cfg) (env : Env) (b : MTy) (name : String) (t : Ty)
    (ih : ∀ (nm : String) (k : Nat) (v : Val), wt t v = true → Fits cfg b nm v → Sat env (assign cfg b nm v k) →
      Good env t (encode cfg nm b k).1 v) :
    ∀ (vs : List Val) (i k : Nat), (∀ v ∈ vs, wt t v = true) →
      FitsRange (fun i v => Fits cfg b (idxName name i) v) i vs →
      Sat env (asgRange (fun i v k => assign cfg b (idxName name i) v k) (fun i k => (encode cfg (idxName name i) b k).2) i vs k) →
      GoodList env (List.replicate vs.length t) (encRange (fun i k => encode cfg (idxName name i) b k) i vs.length k).1 vs := by
  intro vs
  induction vs with
  | nil => intro i k _ _ _; exact GoodList.nil
  | cons v vs ihv =>
    intro i k hw hf hs
    simp only [FitsRange] at hf
    simp only [asgRange] at hs
    simp only [List.length_cons, List.replicate_succ, encRange]
    exact GoodList.cons (ih (idxName name i) k v (hw v (by simp)) hf.1 hs.left)
      (ihv (i + 1) _ (fun v' hv' => hw v' (by simp [hv'])) hf.2 hs.right)

theorem isElem_static (t : Ty) (h : isElem t = true) : isDyn t = false ∧ headSize t = 32 := by
  cases t <;> simp [isElem] at h <;> simp [isDyn, headSize]

mutual
theorem encode_good (cfg : Cfg) (env : Env) : ∀ (τ : MTy) (name : String) (k : Nat) (t : Ty) (v : Val),
    toTy τ = some t → t.valid = true → noZeroFarr t = true → wt t v = true → Fits cfg τ name v →
    Sat env (assign cfg τ name v k) → Good env t (encode cfg name τ k).1 v
  | .base _ typ, name, k, t, v, ht, hv, _, hw, hf, hs => by
    simp only [toTy] at ht
    simp only [Fits] at hf
    simp only [assign] at hs
    simp only [encode]
    cases hb : isBytesLike typ with
    | false =>
      simp only [hb, Bool.false_eq_true, ↓reduceIte] at hs ⊢
      have he := baseTy_elem typ t hb ht
      obtain ⟨hd, hh⟩ := isElem_static t he
      have hok := enc_ok t v hv hw
      have hlen : (enc t v).length = 32 := by
        have := hok.2 (by simp [decOf, hd]); simp only [decOf] at this; omega
      have henv : env ⟨name, typ, k⟩ = enc t v := by
        rw [hs (⟨name, typ, k⟩, leafBytes v) (by simp), enc_elem t v he hw]
      have hev : evalBytes env [Item.sym ⟨name, typ, k⟩ 256] = enc t v := by
        simp [evalBytes, evalItem, henv, fit_eq _ _ hlen]
      exact ⟨by rw [hev]; exact hok, by simp [hd], by simp⟩
    | true =>
      simp only [hb, ↓reduceIte] at hs ⊢
      have hmem := hf hb
      have hle := le_maxOf _ _ hmem
      generalize hM : maxOf (cfg.sizes name false) = M at *
      have hsym := hs (⟨name, typ, k⟩, payload v ++ zeros ((M + 31) / 32 * 32 - (payload v).length)) (by simp)
      have hsz := hs (⟨name, "length", k + 1⟩, word (payload v).length) (by simp)
      simp only at hsym hsz
      have hpad : M ≤ (M + 31) / 32 * 32 := by omega
      -- the instantiated bytes: length word, payload, padding
      have hev : ∃ junk, evalBytes env (Item.sizeVar ⟨name, "length", k + 1⟩ false ::
          (if M > 0 then [Item.sym ⟨name, typ, k⟩ (8 * ((M + 31) / 32 * 32))] else []))
          = word (payload v).length ++ payload v ++ junk := by
        by_cases hM0 : M > 0
        · refine ⟨zeros ((M + 31) / 32 * 32 - (payload v).length), ?_⟩
          simp only [hM0, ↓reduceIte, evalBytes, evalItem, hsz, hsym, List.append_nil]
          rw [fit_eq 32 _ (by simp), Nat.mul_div_cancel_left _ (by decide : 0 < 8),
            fit_eq _ _ (by simp [List.length_append]; omega)]
          simp [List.append_assoc]
        · refine ⟨[], ?_⟩
          have h0 : (payload v).length = 0 := by omega
          have hnil : payload v = [] := List.eq_nil_of_length_eq_zero h0
          simp only [hM0, ↓reduceIte, evalBytes, evalItem, hsz, List.append_nil]
          rw [fit_eq 32 _ (by simp), hnil]; simp
      obtain ⟨junk, hev⟩ := hev
      rcases baseTy_bytesLike typ t hb ht with ⟨_, rfl⟩ | ⟨_, rfl⟩
      · cases v <;> simp [wt] at hw
        refine ⟨?_, by simp [isDyn], by simp⟩
        rw [hev]
        exact ⟨block_bytes _ junk, by simp [decOf, isDyn]⟩
      · cases v <;> simp [wt] at hw
        refine ⟨?_, by simp [isDyn], by simp⟩
        rw [hev]
        exact ⟨block_string _ junk, by simp [decOf, isDyn]⟩
  | .darr _ b, name, k, t, v, ht, hv, hz, hw, hf, hs => by
    simp only [toTy, Option.map_eq_some_iff] at ht
    obtain ⟨tb, htb, rfl⟩ := ht
    cases v <;> simp [wt] at hw
    rename_i vs
    simp only [Ty.valid] at hv
    simp only [noZeroFarr] at hz
    simp only [Fits] at hf
    simp only [assign] at hs
    simp only [encode]
    obtain ⟨hmem, hfr⟩ := hf
    have hle := le_maxOf _ _ hmem
    generalize hM : maxOf (cfg.sizes name true) = M at *
    rw [List.take_of_length_le hle] at hs
    have hsz := hs (⟨name, "length", k⟩, word vs.length) (by simp)
    simp only at hsz
    have hs' : Sat env (asgRange (fun i v k => assign cfg b (idxName name i) v k)
        (fun i k => (encode cfg (idxName name i) b k).2) 0 vs (k + 1)) := fun p hp => hs p (by simp [hp])
    have hgl := range_good cfg env b name tb
      (fun nm k' v' hw' hf' hs'' => encode_good cfg env b nm k' tb v' htb hv hz hw' hf' hs'') vs 0 (k + 1) hw.2 hfr hs'
    -- split the max-many items into the present ones and the rest
    obtain ⟨r, hr⟩ : ∃ r, M = vs.length + r := ⟨M - vs.length, by omega⟩
    have hsplit := encRange_split (fun i k => encode cfg (idxName name i) b k) vs.length r 0 (k + 1)
    have hchain := encRange_chain (fun i k => encode cfg (idxName name i) b k)
      (fun i k => encode_inv cfg b (idxName name i) k) M 0 (k + 1)
    rw [hr] at hchain ⊢
    rw [hsplit] at hchain ⊢
    generalize (encRange (fun i k => encode cfg (idxName name i) b k) 0 vs.length (k + 1)).1 = es1 at *
    generalize (encRange (fun i k => encode cfg (idxName name i) b k) (0 + vs.length) r _).1 = es2 at *
    refine ⟨⟨?_, by simp [decOf, isDyn]⟩, by simp [isDyn], by simp⟩
    intro pre post hl
    simp only [evalBytes, evalItem, hsz, fit_eq 32 _ (word_length _)] at hl ⊢
    have hl' : pre.length + (32 + (evalBytes env (encodeTuple (es1 ++ es2)).data).length) + post.length < 2 ^ 256 := by
      have := hl; simp only [List.length_append, word_length] at this; omega
    have hb1 : pre ++ (word vs.length ++ evalBytes env (encodeTuple (es1 ++ es2)).data) ++ post
        = pre ++ word vs.length ++ (evalBytes env (encodeTuple (es1 ++ es2)).data ++ post) := by simp [List.append_assoc]
    have hb2 : pre ++ (word vs.length ++ evalBytes env (encodeTuple (es1 ++ es2)).data) ++ post
        = (pre ++ word vs.length) ++ evalBytes env (encodeTuple (es1 ++ es2)).data ++ post := by simp [List.append_assoc]
    simp only [decOf, decAt]
    rw [hb1, readWord_mid pre _ vs.length hw.1, ← hb1, hb2]
    simp only
    have hdr := decs_replicate tb vs.length
    simp only [decOf] at hdr
    rw [decRep_eq_decSeq, ← hdr]
    have := seq_decode hgl es2 hchain.wf (pre ++ word vs.length) post
      (by simp only [List.length_append, word_length]; omega)
    simp only [List.length_append, word_length] at this
    rw [this]; rfl
  | .farr _ b n, name, k, t, v, ht, hv, hz, hw, hf, hs => by
    simp only [toTy, Option.map_eq_some_iff] at ht
    obtain ⟨tb, htb, rfl⟩ := ht
    cases v <;> simp [wt] at hw
    rename_i vs
    simp only [Ty.valid] at hv
    simp only [noZeroFarr, Bool.and_eq_true, Bool.or_eq_true, bne_iff_ne, ne_eq, Bool.not_eq_eq_eq_not, Bool.not_true] at hz
    simp only [Fits] at hf
    simp only [assign] at hs
    simp only [encode]
    obtain ⟨hn, hwv⟩ := hw
    subst hn
    rw [List.take_of_length_le (Nat.le_refl _)] at hs
    have hgl := range_good cfg env b name tb
      (fun nm k' v' hw' hf' hs'' => encode_good cfg env b nm k' tb v' htb hv hz.1 hw' hf' hs'') vs 0 k hwv hf hs
    have hchain := encRange_chain (fun i k => encode cfg (idxName name i) b k)
      (fun i k => encode_inv cfg b (idxName name i) k) vs.length 0 k
    generalize (encRange (fun i k => encode cfg (idxName name i) b k) 0 vs.length k).1 = es at *
    have hany : anyDyn (List.replicate vs.length tb) = isDyn tb := by
      rw [anyDyn_replicate]
      rcases hz.2 with h | h
      · simp [h]
      · simp [h]
    obtain ⟨hst, hne⟩ := seq_static hgl
    refine ⟨⟨?_, ?_⟩, by rw [hst, hany]; simp [isDyn], hne⟩
    · intro pre post hl
      simp only [decOf, decAt]
      have hdr := decs_replicate tb vs.length
      simp only [decOf] at hdr
      rw [decRep_eq_decSeq, ← hdr]
      have := seq_decode hgl [] (by simpa using hchain.wf) pre post (by simpa using hl)
      simp only [List.append_nil] at this
      rw [this]; rfl
    · intro hd
      simp only [decOf, isDyn] at hd
      simp only [decOf, headSize, hd, Bool.false_eq_true, ↓reduceIte]
      rw [← seq_headsize hgl hchain.wf (by rw [hany]; exact hd), sumHead_replicate]
  | .tuple _ items, name, k, t, v, ht, hv, hz, hw, hf, hs => by
    simp only [toTy, Option.map_eq_some_iff] at ht
    obtain ⟨ts, hts, rfl⟩ := ht
    cases v <;> simp [wt] at hw
    rename_i vs
    simp only [Ty.valid] at hv
    simp only [noZeroFarr] at hz
    simp only [Fits] at hf
    simp only [assign] at hs
    simp only [encode]
    have hgl := encodeItems_good cfg env items (tuplePrefix name) k ts vs hts hv hz hw hf hs
    have hchain := encodeItems_chain cfg items (tuplePrefix name) k
    generalize (encodeItems cfg (tuplePrefix name) items k).1 = es at *
    obtain ⟨hst, hne⟩ := seq_static hgl
    refine ⟨⟨?_, ?_⟩, by rw [hst]; simp [isDyn], hne⟩
    · intro pre post hl
      simp only [decOf, decAt]
      have := seq_decode hgl [] (by simpa using hchain.wf) pre post (by simpa using hl)
      simp only [List.append_nil] at this
      rw [this]; rfl
    · intro hd
      simp only [decOf, isDyn] at hd
      simp only [decOf, headSize, hd, Bool.false_eq_true, ↓reduceIte]
      exact seq_headsize hgl hchain.wf hd
theorem encodeItems_good (cfg : Cfg) (env : Env) : ∀ (items : List MTy) (pre : String) (k : Nat) (ts : List Ty) (vs : List Val),
    toTys items = some ts → validList ts = true → noZeroFarrs ts = true → wtList ts vs = true → FitsItems cfg items pre vs →
    Sat env (assignItems cfg items pre vs k) → GoodList env ts (encodeItems cfg pre items k).1 vs
  | [], pre, k, ts, vs, ht, _, _, hw, _, _ => by
    simp only [toTys, Option.some.injEq] at ht
    subst ht
    cases vs <;> simp [wtList] at hw
    simp only [encodeItems]
    exact GoodList.nil
  | it :: rest, pre, k, ts, vs, ht, hv, hz, hw, hf, hs => by
    simp only [toTys] at ht
    split at ht
    · rename_i t ts' h1 h2
      simp only [Option.some.injEq] at ht
      subst ht
      cases vs with
      | nil => simp [wtList] at hw
      | cons v vs =>
        simp only [wtList, Bool.and_eq_true] at hw
        simp only [validList, Bool.and_eq_true] at hv
        simp only [noZeroFarrs, Bool.and_eq_true] at hz
        simp only [FitsItems] at hf
        simp only [assignItems] at hs
        simp only [encodeItems]
        exact GoodList.cons (encode_good cfg env it (pre ++ it.var) k t v h1 hv.1 hz.1 hw.1 hf.1 hs.left)
          (encodeItems_good cfg env rest pre _ ts' vs h2 hv.2 hz.2 hw.2 hf.2 hs.right)
    · simp at ht
end

end HalmosVerif.Model.Calldata
