/-
Lemmas for C12 (part 1): sizes and symbol indices of `Model.Calldata.encode`.
`encode_inv`: for every type, name and counter value the result satisfies `EncInv` — the declared size is the data
length, the creation counter only grows, and the symbols of the encoding carry pairwise different creation indices
inside `[k, k')`.
-/
import HalmosVerif.Model.Calldata
import HalmosVerif.Lemmas.Abi
namespace HalmosVerif.Model.Calldata
open HalmosVerif.Spec.Abi

/-! ### sizes -/

theorem fit_length (n : Nat) (bs : Bytes) : (fit n bs).length = n := by
  simp [fit]; omega

theorem fit_eq (n : Nat) (bs : Bytes) (h : bs.length = n) : fit n bs = bs := by
  subst h; simp [fit]

theorem evalItem_length (env : Env) (i : Item) : (evalItem env i).length = itemLen i := by
  cases i <;> simp [evalItem, itemLen, fit_length]

theorem evalBytes_length (env : Env) (l : List Item) : (evalBytes env l).length = dataLen l := by
  induction l with
  | nil => rfl
  | cons i l ih => simp [evalBytes, dataLen, evalItem_length, ih]

theorem evalBytes_append (env : Env) (a b : List Item) : evalBytes env (a ++ b) = evalBytes env a ++ evalBytes env b := by
  induction a with
  | nil => rfl
  | cons i a ih => simp [evalBytes, ih]

theorem dataLen_append (a b : List Item) : dataLen (a ++ b) = dataLen a + dataLen b := by
  induction a with
  | nil => simp [dataLen]
  | cons i a ih => simp [dataLen, ih]; omega

theorem syms_append (a b : List Item) : syms (a ++ b) = syms a ++ syms b := by
  induction a with
  | nil => rfl
  | cons i a ih => cases i <;> simp [syms, ih]

/-! ### the invariant of one encoding step: declared size = data length, the creation counter only grows, the symbols
of the encoding carry creation indices in `[k, k')`, pairwise different -/

structure EncInv (k : Nat) (e : Enc) (k' : Nat) : Prop where
  size_ok : dataLen e.data = e.size
  mono : k ≤ k'
  range : ∀ id ∈ syms e.data, k ≤ id.idx ∧ id.idx < k'
  nodup : ((syms e.data).map (·.idx)).Nodup

inductive Chain : Nat → List Enc → Nat → Prop
  | nil (k : Nat) : Chain k [] k
  | cons {k k1 k2 : Nat} {e : Enc} {es : List Enc} : EncInv k e k1 → Chain k1 es k2 → Chain k (e :: es) k2

theorem Chain.mono {k k' : Nat} {es : List Enc} (h : Chain k es k') : k ≤ k' := by
  induction h with
  | nil => exact Nat.le_refl _
  | cons h1 _ ih => exact Nat.le_trans h1.mono ih

def sumHeadE : List Enc → Nat
  | [] => 0
  | e :: es => headSizeE e + sumHeadE es

theorem foldl_head (es : List Enc) (a : Nat) : es.foldl (fun s x => s + headSizeE x) a = a + sumHeadE es := by
  induction es generalizing a with
  | nil => simp [sumHeadE]
  | cons e es ih => simp [List.foldl_cons, ih, sumHeadE]; omega

theorem totalHead_eq (es : List Enc) : totalHead es = sumHeadE es := by
  simp [totalHead, foldl_head]

/-- sizes in the loop of `encode_tuple` -/
theorem tupleGo_sizes (es : List Enc) (hwf : ∀ e ∈ es, dataLen e.data = e.size) (tot : Nat) :
    dataLen (tupleGo es tot).1 = sumHeadE es ∧ (tupleGo es tot).2.2 = tot + dataLen (tupleGo es tot).2.1 := by
  induction es generalizing tot with
  | nil => simp [tupleGo, dataLen, sumHeadE]
  | cons e es ih =>
    have he := hwf e (by simp)
    have hr : ∀ e' ∈ es, dataLen e'.data = e'.size := fun e' h => hwf e' (by simp [h])
    by_cases hs : e.static
    · obtain ⟨h1, h2⟩ := ih hr tot
      simp only [tupleGo, hs, ↓reduceIte, dataLen_append, sumHeadE, headSizeE, h1, h2, he, and_self]
    · obtain ⟨h1, h2⟩ := ih hr (tot + e.size)
      simp only [tupleGo, hs, Bool.false_eq_true, ↓reduceIte, dataLen, itemLen, dataLen_append, sumHeadE, headSizeE]
      omega

theorem encodeTuple_size (es : List Enc) (hwf : ∀ e ∈ es, dataLen e.data = e.size) :
    dataLen (encodeTuple es).data = (encodeTuple es).size := by
  obtain ⟨h1, h2⟩ := tupleGo_sizes es hwf (totalHead es)
  have ht := totalHead_eq es
  simp only [encodeTuple, dataLen_append]
  omega

/-- the symbols of a tuple encoding are those of its items, reordered -/
theorem syms_tupleGo_perm (es : List Enc) (tot : Nat) :
    (syms ((tupleGo es tot).1 ++ (tupleGo es tot).2.1)).Perm (es.flatMap (fun e => syms e.data)) := by
  induction es generalizing tot with
  | nil => simp [tupleGo, syms]
  | cons e es ih =>
    by_cases hs : e.static
    · simp only [tupleGo, hs, ↓reduceIte, List.flatMap_cons, List.append_assoc, syms_append]
      have := ih tot
      rw [syms_append] at this
      exact List.Perm.append_left _ this
    · simp only [tupleGo, hs, Bool.false_eq_true, ↓reduceIte, List.flatMap_cons, List.cons_append, syms, syms_append]
      have := ih (tot + e.size)
      rw [syms_append] at this
      refine List.Perm.trans ?_ (List.Perm.append_left _ this)
      rw [← List.append_assoc, ← List.append_assoc]
      exact List.Perm.append_right _ List.perm_append_comm

theorem Chain.wf {k k' : Nat} {es : List Enc} (h : Chain k es k') : ∀ e ∈ es, dataLen e.data = e.size := by
  induction h with
  | nil => intro e he; simp at he
  | cons h1 _ ih =>
    intro e he
    simp at he
    rcases he with rfl | he
    · exact h1.size_ok
    · exact ih e he

theorem Chain.syms {k k' : Nat} {es : List Enc} (h : Chain k es k') :
    (∀ id ∈ es.flatMap (fun e => syms e.data), k ≤ id.idx ∧ id.idx < k') ∧
    ((es.flatMap (fun e => syms e.data)).map (·.idx)).Nodup := by
  induction h with
  | nil => simp
  | @cons k k1 k2 e es h1 h2 ih =>
    have hm := h2.mono
    refine ⟨?_, ?_⟩
    · intro id hid
      simp only [List.flatMap_cons, List.mem_append] at hid
      rcases hid with hid | hid
      · have := h1.range id hid; omega
      · have := ih.1 id hid; have := h1.mono; omega
    · simp only [List.flatMap_cons, List.map_append]
      rw [List.nodup_append]
      refine ⟨h1.nodup, ih.2, ?_⟩
      intro a ha b hb
      simp only [List.mem_map] at ha hb
      obtain ⟨ia, hia, rfl⟩ := ha
      obtain ⟨ib, hib, rfl⟩ := hb
      have := h1.range ia hia
      have := ih.1 ib hib
      omega

theorem Chain.encodeTuple {k k' : Nat} {es : List Enc} (h : Chain k es k') : EncInv k (encodeTuple es) k' := by
  have hp := syms_tupleGo_perm es (totalHead es)
  refine ⟨encodeTuple_size es h.wf, h.mono, ?_, ?_⟩
  · intro id hid
    exact h.syms.1 id ((hp.mem_iff).1 hid)
  · exact ((hp.map (·.idx)).nodup_iff).2 h.syms.2

theorem encRange_chain (f : Nat → Nat → Enc × Nat) (hf : ∀ i k, EncInv k (f i k).1 (f i k).2) :
    ∀ (n i k : Nat), Chain k (encRange f i n k).1 (encRange f i n k).2 := by
  intro n
  induction n with
  | zero => intro i k; exact Chain.nil k
  | succ n ih => intro i k; exact Chain.cons (hf i k) (ih (i + 1) (f i k).2)

mutual
theorem encode_inv (cfg : Cfg) : ∀ (τ : MTy) (name : String) (k : Nat),
    EncInv k (encode cfg name τ k).1 (encode cfg name τ k).2
  | .tuple _ items, name, k => by
    simp only [encode]
    exact (encodeItems_chain cfg items (tuplePrefix name) k).encodeTuple
  | .farr _ b n, name, k => by
    simp only [encode]
    exact (encRange_chain (fun i k => encode cfg (idxName name i) b k) (fun i k => encode_inv cfg b (idxName name i) k) n 0 k).encodeTuple
  | .darr _ b, name, k => by
    simp only [encode]
    have h := (encRange_chain (fun i k => encode cfg (idxName name i) b k) (fun i k => encode_inv cfg b (idxName name i) k) (maxOf (cfg.sizes name true)) 0 (k + 1)).encodeTuple
    refine ⟨?_, by have := h.mono; omega, ?_, ?_⟩
    · simp [dataLen, itemLen, h.size_ok]
    · intro id hid
      simp only [syms, List.mem_cons] at hid
      rcases hid with rfl | hid
      · have := h.mono; simp; omega
      · have := h.range id hid; omega
    · simp only [syms, List.map_cons, List.nodup_cons]
      refine ⟨?_, h.nodup⟩
      intro hmem
      simp only [List.mem_map] at hmem
      obtain ⟨id, hid, hk⟩ := hmem
      have := h.range id hid
      have hk' : id.idx = k := hk
      omega
  | .base _ typ, name, k => by
    simp only [encode]
    split
    · refine ⟨?_, by simp, ?_, ?_⟩
      · split <;> simp [dataLen, itemLen] <;> omega
      · intro id hid
        split at hid <;> simp [syms] at hid
        · rcases hid with rfl | rfl <;> simp
        · subst hid; simp
      · split <;> simp [syms]
    · exact ⟨by simp [dataLen, itemLen], by simp, by simp [syms], by simp [syms]⟩
theorem encodeItems_chain (cfg : Cfg) : ∀ (items : List MTy) (pre : String) (k : Nat),
    Chain k (encodeItems cfg pre items k).1 (encodeItems cfg pre items k).2
  | [], pre, k => by simp only [encodeItems]; exact Chain.nil k
  | it :: rest, pre, k => by
    simp only [encodeItems]
    exact Chain.cons (encode_inv cfg it (pre ++ it.var) k) (encodeItems_chain cfg rest pre _)
end

theorem nodup_map_of_nodup_map {α β γ : Type} (f : α → β) (g : α → γ) (l : List α) (h : (l.map f).Nodup)
    (hfg : ∀ a b, f a ≠ f b → g a ≠ g b) : (l.map g).Nodup := by
  induction l with
  | nil => simp
  | cons a l ih =>
    simp only [List.map_cons, List.nodup_cons, List.mem_map, not_exists, not_and] at h ⊢
    refine ⟨?_, ih h.2⟩
    intro b hb heq
    exact hfg b a (fun e => h.1 b hb e) heq

end HalmosVerif.Model.Calldata
