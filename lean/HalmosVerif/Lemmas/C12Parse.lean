/-
Lemmas for C12 (part 4): `parse_type` rejects every type string that starts with `f` or `uf`
(`fixed<M>x<N>`, `ufixed<M>x<N>`, `fixed`, `ufixed`, `function`), with any number of array suffixes.
-/
import HalmosVerif.Model.Calldata

namespace HalmosVerif.Model.Calldata

/-- the type string starts with `f` or with `uf` -/
def Unsupported (cs : List Char) : Prop := (∃ r, cs = 'f' :: r) ∨ (∃ r, cs = 'u' :: 'f' :: r)

theorem body_cons_cons (a b : Char) (r : List Char) : ∃ r', body (a :: b :: r) = a :: r' ∧ (∀ c r'', r' = c :: r'' → c = b) := by
  unfold body
  split
  · refine ⟨(b :: r).dropLast, by simp [List.dropLast], ?_⟩
    intro c r'' h
    cases r with
    | nil => simp [List.dropLast] at h
    | cons x r => simp [List.dropLast] at h; exact h.1.symm
  · exact ⟨b :: r, rfl, by intro c r'' h; injection h with h1 _; exact h1.symm⟩

theorem Unsupported.body {cs : List Char} (h : Unsupported cs) : Unsupported (body cs) ∨ body cs = ['u'] := by
  rcases h with ⟨r, rfl⟩ | ⟨r, rfl⟩
  · cases r with
    | nil => left; left; exact ⟨[], by decide⟩
    | cons b r =>
      obtain ⟨r', h1, _⟩ := body_cons_cons 'f' b r
      left; left; exact ⟨r', h1⟩
  · obtain ⟨r', h1, h2⟩ := body_cons_cons 'u' 'f' r
    cases r' with
    | nil => right; exact h1
    | cons c r'' =>
      have := h2 c r'' rfl
      subst this
      left; right; exact ⟨r'', h1⟩

theorem isBaseBody_unsupported {b : List Char} (h : Unsupported b ∨ b = ['u']) : isBaseBody b = false := by
  rcases h with (⟨r, rfl⟩ | ⟨r, rfl⟩) | rfl
  · simp [isBaseBody, digitsAfter, stripPrefix?]
  · simp [isBaseBody, digitsAfter, stripPrefix?]
  · decide

theorem matchArrayBody_decomp {b base ds : List Char} (h : matchArrayBody b = some (base, ds)) :
    b = base ++ '[' :: (ds ++ [']']) := by
  unfold matchArrayBody at h
  split at h
  · rename_i r hr
    split at h
    · rename_i baseRev hd
      split at h
      · injection h with h
        injection h with h1 h2
        subst h1 h2
        have h3 : r = r.takeWhile isDigit ++ r.dropWhile isDigit := (List.takeWhile_append_dropWhile).symm
        rw [hd] at h3
        have h4 : b = (b.reverse).reverse := (List.reverse_reverse b).symm
        rw [hr, h3] at h4
        rw [h4]
        simp [List.reverse_cons, List.reverse_append]
      · exact absurd h (by simp)
    · exact absurd h (by simp)
  · exact absurd h (by simp)

theorem matchArrayBody_unsupported {b base ds : List Char} (hb : Unsupported b)
    (h : matchArrayBody b = some (base, ds)) : Unsupported base := by
  have hd := matchArrayBody_decomp h
  rcases hb with ⟨r, rfl⟩ | ⟨r, rfl⟩
  · cases base with
    | nil => simp at hd
    | cons c base => simp at hd; left; exact ⟨base, by rw [hd.1]⟩
  · cases base with
    | nil => simp at hd
    | cons c base =>
      cases base with
      | nil => simp at hd
      | cons c2 base => simp at hd; right; exact ⟨base, by rw [hd.1, hd.2.1]⟩

theorem matchArrayBody_u : matchArrayBody ['u'] = none := by decide

theorem parseType_unsupported : ∀ (fuel : Nat) (var : String) (typ : List Char) (item : AbiItem), Unsupported typ →
    ∀ τ, parseType fuel var typ item ≠ .ok τ := by
  intro fuel
  induction fuel with
  | zero => intro var typ item _ τ; simp [parseType]
  | succ fuel ih =>
    intro var typ item h τ
    simp only [parseType]
    cases hm : matchArray typ with
    | some p =>
      obtain ⟨base, ds⟩ := p
      simp only
      have hbase : Unsupported base := by
        unfold matchArray at hm
        rcases h.body with hb | hb
        · exact matchArrayBody_unsupported hb hm
        · rw [hb, matchArrayBody_u] at hm; exact absurd hm (by simp)
      cases hp : parseType fuel "" base item with
      | error e => simp
      | ok b => exact absurd hp (ih "" base item hbase b)
    | none =>
      simp only
      have : matchBase typ = false := isBaseBody_unsupported h.body
      simp [this]

end HalmosVerif.Model.Calldata
