/-
Lemmas for C12 (part 3): the intended assignment `assign` is satisfiable — its symbols carry strictly increasing
creation indices inside `[k, k')` (`assign_inv`), so the environment that looks a symbol up in the assignment satisfies
it (`sat_envOfAsg`).
-/
import HalmosVerif.Lemmas.C12Gen
namespace HalmosVerif.Model.Calldata
open HalmosVerif.Spec.Abi

/-! ### the intended assignment is satisfiable: its symbols carry strictly increasing creation indices -/

def AsgInv (k : Nat) (a : Asg) (k' : Nat) : Prop :=
  (∀ p ∈ a, k ≤ p.1.idx ∧ p.1.idx < k') ∧ a.Pairwise (fun p q => p.1.idx < q.1.idx)

theorem AsgInv.nil (k k' : Nat) : AsgInv k [] k' := ⟨by simp, List.Pairwise.nil⟩

theorem AsgInv.append {k k1 k2 : Nat} {a b : Asg} (ha : AsgInv k a k1) (hb : AsgInv k1 b k2) (h1 : k ≤ k1) (h2 : k1 ≤ k2) :
    AsgInv k (a ++ b) k2 := by
  refine ⟨?_, ?_⟩
  · intro p hp
    simp only [List.mem_append] at hp
    rcases hp with hp | hp
    · have := ha.1 p hp; omega
    · have := hb.1 p hp; omega
  · rw [List.pairwise_append]
    refine ⟨ha.2, hb.2, ?_⟩
    intro p hp q hq
    have := ha.1 p hp
    have := hb.1 q hq
    omega

theorem AsgInv.weaken {k k1 k2 : Nat} {a : Asg} (ha : AsgInv k a k1) (h : k1 ≤ k2) : AsgInv k a k2 :=
  ⟨fun p hp => by have := ha.1 p hp; omega, ha.2⟩

theorem encRange_snd_split (f : Nat → Nat → Enc × Nat) (a b i k : Nat) :
    (encRange f i (a + b) k).2 = (encRange f (i + a) b (encRange f i a k).2).2 := by
  induction a generalizing i k with
  | zero => simp [encRange]
  | succ a ih =>
    have : a + 1 + b = (a + b) + 1 := by omega
    rw [this]
    simp only [encRange]
    rw [ih (i + 1) (f i k).2]
    have : i + 1 + a = i + (a + 1) := by omega
    rw [this]

theorem asgRange_inv (fa : Nat → Val → Nat → Asg) (f : Nat → Nat → Enc × Nat)
    (hf : ∀ i k, EncInv k (f i k).1 (f i k).2) (hfa : ∀ i v k, AsgInv k (fa i v k) (f i k).2) :
    ∀ (vs : List Val) (i k : Nat), AsgInv k (asgRange fa (fun i k => (f i k).2) i vs k) (encRange f i vs.length k).2 := by
  intro vs
  induction vs with
  | nil => intro i k; exact AsgInv.nil _ _
  | cons v vs ih =>
    intro i k
    simp only [asgRange, List.length_cons, encRange]
    exact (hfa i v k).append (ih (i + 1) (f i k).2) (hf i k).mono (encRange_chain f hf vs.length (i + 1) (f i k).2).mono

theorem asgRange_inv_le (fa : Nat → Val → Nat → Asg) (f : Nat → Nat → Enc × Nat)
    (hf : ∀ i k, EncInv k (f i k).1 (f i k).2) (hfa : ∀ i v k, AsgInv k (fa i v k) (f i k).2)
    (ws : List Val) (n k : Nat) (hle : ws.length ≤ n) :
    AsgInv k (asgRange fa (fun i k => (f i k).2) 0 ws k) (encRange f 0 n k).2 := by
  obtain ⟨r, hr⟩ : ∃ r, n = ws.length + r := ⟨n - ws.length, by omega⟩
  rw [hr, encRange_snd_split]
  exact (asgRange_inv fa f hf hfa ws 0 k).weaken (encRange_chain f hf r (0 + ws.length) _).mono

mutual
theorem assign_inv (cfg : Cfg) : ∀ (τ : MTy) (name : String) (v : Val) (k : Nat),
    AsgInv k (assign cfg τ name v k) (encode cfg name τ k).2
  | .base _ typ, name, v, k => by
    simp only [assign, encode]
    split
    · refine ⟨?_, ?_⟩
      · intro p hp
        simp only [List.mem_cons, List.not_mem_nil, or_false] at hp
        rcases hp with rfl | rfl <;> simp
      · simp [List.pairwise_cons]
    · exact ⟨by simp, by simp⟩
  | .darr _ b, name, v, k => by
    simp only [assign, encode]
    cases v with
    | list vs =>
      simp only
      have hw := asgRange_inv_le (fun i v k => assign cfg b (idxName name i) v k) (fun i k => encode cfg (idxName name i) b k)
        (fun i k => encode_inv cfg b (idxName name i) k) (fun i v k => assign_inv cfg b (idxName name i) v k)
        (vs.take (maxOf (cfg.sizes name true))) (maxOf (cfg.sizes name true)) (k + 1) (by simp [List.length_take]; omega)
      refine ⟨?_, ?_⟩
      · intro p hp
        simp only [List.mem_cons] at hp
        rcases hp with rfl | hp
        · have := (encRange_chain (fun i k => encode cfg (idxName name i) b k)
            (fun i k => encode_inv cfg b (idxName name i) k) (maxOf (cfg.sizes name true)) 0 (k + 1)).mono
          simp; omega
        · have := hw.1 p hp; omega
      · rw [List.pairwise_cons]
        refine ⟨?_, hw.2⟩
        intro p hp
        have := hw.1 p hp
        simp; omega
    | _ => exact AsgInv.nil _ _
  | .farr _ b n, name, v, k => by
    simp only [assign, encode]
    cases v with
    | list vs =>
      exact asgRange_inv_le (fun i v k => assign cfg b (idxName name i) v k) (fun i k => encode cfg (idxName name i) b k)
        (fun i k => encode_inv cfg b (idxName name i) k) (fun i v k => assign_inv cfg b (idxName name i) v k)
        (vs.take n) n k (by simp [List.length_take]; omega)
    | _ => exact AsgInv.nil _ _
  | .tuple _ items, name, v, k => by
    simp only [assign, encode]
    cases v with
    | list vs => exact assignItems_inv cfg items (tuplePrefix name) vs k
    | _ => exact AsgInv.nil _ _
theorem assignItems_inv (cfg : Cfg) : ∀ (items : List MTy) (pre : String) (vs : List Val) (k : Nat),
    AsgInv k (assignItems cfg items pre vs k) (encodeItems cfg pre items k).2
  | [], pre, vs, k => by simp only [assignItems]; exact AsgInv.nil _ _
  | it :: rest, pre, vs, k => by
    cases vs with
    | nil => simp only [assignItems]; exact AsgInv.nil _ _
    | cons v vs =>
      simp only [assignItems, encodeItems]
      exact (assign_inv cfg it (pre ++ it.var) v k).append (assignItems_inv cfg rest pre vs _)
        (encode_inv cfg it (pre ++ it.var) k).mono (encodeItems_chain cfg rest pre _).mono
end

/-- an assignment whose keys are pairwise different is satisfied by the environment that looks the key up -/
def envOfAsg (a : Asg) : Env := fun id =>
  match a.find? (fun p => p.1 == id) with
  | some p => p.2
  | none => []

theorem sat_envOfAsg (a : Asg) (h : a.Pairwise (fun p q => p.1.idx < q.1.idx)) : Sat (envOfAsg a) a := by
  induction a with
  | nil => intro p hp; simp at hp
  | cons x a ih =>
    rw [List.pairwise_cons] at h
    intro p hp
    simp only [List.mem_cons] at hp
    rcases hp with rfl | hp
    · simp [envOfAsg, List.find?]
    · have hne : (x.1 == p.1) = false := by
        have := h.1 p hp
        simp only [beq_eq_false_iff_ne, ne_eq]
        intro heq
        rw [heq] at this
        exact Nat.lt_irrefl _ this
      have := ih h.2 p hp
      simp only [envOfAsg, List.find?, hne] at this ⊢
      exact this

end HalmosVerif.Model.Calldata
