/-
Lemmas for C14: the abstraction from the Model's prank machine (Python records) to the Spec's (Foundry state machine),
the well-formedness invariant, and the step-wise simulation.
-/
import HalmosVerif.Model.Prank

namespace HalmosVerif.Lemmas.C14
open HalmosVerif.Spec.Foundry HalmosVerif.Model.Prank HalmosVerif.Gen.Prank

/-! ### abstraction -/

def absPrank (p : Prank) : Option PrankS :=
  match p.active.sender with
  | some s => some { sender := s, origin := p.active.origin, single := !p.keep }
  | none => none

def absCtx (c : CallContext) : FrameS :=
  { self := c.message.target, sender := c.message.caller, origin := c.message.origin, prank := absPrank c.prank }

def absFrames (x : Option Exec) : List FrameS :=
  match x with
  | none => []
  | some x => absCtx x.context :: x.callbacks.map absCtx

def abs (s : State) : StateS := { frames := absFrames s.ex, obs := s.obs, failed := s.stuck }

/-- the only records `prank`/`stopPrank` ever build: an origin is never set without a sender -/
def WFp (p : Prank) : Prop := p.active.sender = none → p.active.origin = none

def WFx (x : Exec) : Prop := WFp x.context.prank ∧ ∀ c ∈ x.callbacks, WFp c.prank

def WF (s : State) : Prop := ∀ x, s.ex = some x → WFx x

/-- the Spec's endpoints instantiated with halmos' three addresses -/
def endpoints : Endpoints := { vm := hevmAddress, svm := halmosAddress, console := consoleAddress }

/-- the history never calls console.log's address -/
def NoConsole : Op → Prop
  | .call _ to _ => to ≠ consoleAddress
  | _ => True

instance (op : Op) : Decidable (NoConsole op) := by
  cases op <;> unfold NoConsole <;> infer_instance

/-! ### address tests -/

theorem excluded_iff (to : Nat) : lookupExcluded.contains to = true ↔ to = halmosAddress ∨ to = hevmAddress := by
  simp [lookupExcluded]

theorem cheat_iff (to : Nat) :
    cheatcodeAddresses.contains to = true ↔ to = hevmAddress ∨ to = halmosAddress ∨ to = consoleAddress := by
  simp [cheatcodeAddresses]

theorem isCheat_iff (to : Nat) :
    endpoints.isCheat to = true ↔ to = hevmAddress ∨ to = halmosAddress ∨ to = consoleAddress := by
  simp [Endpoints.isCheat, endpoints, or_assoc]

theorem excluded_eq_isCheat {to : Nat} (h : to ≠ consoleAddress) : lookupExcluded.contains to = endpoints.isCheat to := by
  rw [Bool.eq_iff_iff, excluded_iff, isCheat_iff]
  grind

theorem cheat_eq_isCheat (to : Nat) : cheatcodeAddresses.contains to = endpoints.isCheat to := by
  rw [Bool.eq_iff_iff, cheat_iff, isCheat_iff]

/-! ### lookup / resolve_prank -/

theorem lookup_excluded {p : Prank} {to : Nat} (h : lookupExcluded.contains to = true) : p.lookup to = (NO_PRANK, p) := by
  unfold Prank.lookup
  rw [h]
  simp

theorem resolve_excluded {c : CallContext} {to : Nat} (h : lookupExcluded.contains to = true) :
    resolvePrank c to = ((c.message.target, c.message.origin), c) := by
  simp [resolvePrank, lookup_excluded h, NO_PRANK]

theorem WFp_default : WFp {} := by simp [WFp, NO_PRANK]

theorem WFp_stop (p : Prank) : WFp (p.stopPrank).2 := by simp [WFp, Prank.stopPrank, NO_PRANK]

theorem absPrank_stop (p : Prank) : absPrank (p.stopPrank).2 = none := by simp [absPrank, Prank.stopPrank, NO_PRANK]

theorem absPrank_default : absPrank {} = none := by simp [absPrank, NO_PRANK]

/-- the heart of the simulation: for an eligible destination, `resolve_prank` computes the Spec's sender / origin and
    leaves the Spec's "after use" record -/
theorem resolve_eligible {c : CallContext} {to : Nat} (hw : WFp c.prank) (h : lookupExcluded.contains to = false) :
    (resolvePrank c to).1.1 = senderFor (absCtx c) ∧ (resolvePrank c to).1.2 = originFor (absCtx c) ∧
    absCtx (resolvePrank c to).2 = afterUse (absCtx c) ∧ WFp (resolvePrank c to).2.prank := by
  obtain ⟨msg, ⟨⟨snd, org⟩, keep⟩⟩ := c
  unfold resolvePrank Prank.lookup
  rw [h]
  cases snd with
  | none =>
    have ho : org = none := hw rfl
    subst ho
    simp [Prank.toBool, PrankResult.toBool, NO_PRANK, senderFor, originFor, afterUse, absCtx, absPrank, WFp]
  | some s =>
    cases keep <;> cases org <;>
      simp [Prank.toBool, PrankResult.toBool, NO_PRANK, senderFor, originFor, afterUse, absCtx, absPrank, WFp,
        Prank.stopPrank]

/-! ### prank / startPrank -/

theorem prank_active {p : Prank} (hw : WFp p) (a : Nat) (o : Option Nat) (k : Bool) :
    (absPrank p).isSome → p.prank a o k = (false, p) := by
  obtain ⟨⟨snd, org⟩, keep⟩ := p
  cases snd <;> simp [absPrank, Prank.prank, PrankResult.toBool]

theorem prank_inactive {p : Prank} (hw : WFp p) (a : Nat) (o : Option Nat) (k : Bool) :
    absPrank p = none → p.prank a o k = (true, { active := { sender := some a, origin := o }, keep := k }) := by
  obtain ⟨⟨snd, org⟩, keep⟩ := p
  cases snd with
  | none =>
    have ho : org = none := hw rfl
    subst ho
    simp [Prank.prank, PrankResult.toBool]
  | some s => simp [absPrank]

theorem afterPrank_abs {s : State} {x : Exec} (_hs : s.stuck = false) (hx : s.ex = some x) (hw : WFx x)
    (a : Nat) (o : Option Nat) (k : Bool) :
    abs (afterPrank s x (x.context.prank.prank a o k)) =
      setPrank (abs s) (absCtx x.context) (x.callbacks.map absCtx) { sender := a, origin := o, single := !k } ∧
    WF (afterPrank s x (x.context.prank.prank a o k)) := by
  cases hp : absPrank x.context.prank with
  | some q =>
    have := prank_active hw.1 a o k (by simp [hp])
    rw [this]
    constructor
    · simp [afterPrank, setPrank, abs, absCtx, hp, hx, absFrames]
    · intro y hy
      simp [afterPrank, hx] at hy
      subst hy; exact hw
  | none =>
    have := prank_inactive hw.1 a o k hp
    rw [this]
    constructor
    · have hq : (absCtx x.context).prank = none := hp
      simp only [setPrank, hq]
      simp [afterPrank, abs, absFrames, absCtx, absPrank]
    · intro y hy
      simp [afterPrank] at hy
      subst hy
      exact ⟨by simp [WFp], hw.2⟩

/-! ### one step -/

theorem abs_some {s : State} {x : Exec} (hx : s.ex = some x) :
    abs s = { frames := absCtx x.context :: x.callbacks.map absCtx, obs := s.obs, failed := s.stuck } := by
  simp [abs, absFrames, hx]

theorem WF_of_ex {s : State} {x : Exec} (h : s.ex = some x) (hw : WFx x) : WF s := by
  intro y hy
  rw [h] at hy
  cases hy
  exact hw

theorem WF_mk {s : State} (c : CallContext) (cbs : List CallContext) (h : s.ex = some { context := c, callbacks := cbs })
    (h1 : WFp c.prank) (h2 : ∀ c' ∈ cbs, WFp c'.prank) : WF s := WF_of_ex h ⟨h1, h2⟩

theorem WFp_cons {c : CallContext} {cbs : List CallContext} (h1 : WFp c.prank) (h2 : ∀ c' ∈ cbs, WFp c'.prank) :
    ∀ c' ∈ c :: cbs, WFp c'.prank := by
  intro c' hc'
  simp at hc'
  rcases hc' with rfl | hc'
  · exact h1
  · exact h2 c' hc'

theorem stepExec_sim {s : State} {x : Exec} {op : Op} (hst : s.stuck = false) (hx : s.ex = some x) (hwx : WFx x)
    (hc : NoConsole op) :
    abs (stepExec s x op) = stepFrame endpoints (abs s) (absCtx x.context) (x.callbacks.map absCtx) op ∧
    WF (stepExec s x op) := by
  cases op with
  | newTx a b t => exact ⟨rfl, WF_of_ex hx hwx⟩
  | prank a => exact afterPrank_abs hst hx hwx a none false
  | prank2 a o => exact afterPrank_abs hst hx hwx a (some o) false
  | startPrank a => exact afterPrank_abs hst hx hwx a none true
  | startPrank2 a o => exact afterPrank_abs hst hx hwx a (some o) true
  | stopPrank =>
    constructor
    · simp [stepExec, stepFrame, abs, absFrames, absCtx, absPrank_stop]
    · exact WF_mk { x.context with prank := (x.context.prank.stopPrank).2 } x.callbacks rfl
        (WFp_stop x.context.prank) hwx.2
  | ret =>
    obtain ⟨c, cbs⟩ := x
    cases cbs with
    | nil =>
      constructor
      · simp [stepExec, stepFrame, abs, absFrames]
      · intro y hy; simp [stepExec] at hy
    | cons p ps =>
      constructor
      · simp [stepExec, stepFrame, abs, absFrames]
      · exact WF_mk p ps rfl (hwx.2 p (by simp)) (fun c' hc' => hwx.2 c' (by simp [hc']))
  | create newAddr =>
    have hex : lookupExcluded.contains createLookupAddress = false := by decide
    obtain ⟨h1, h2, h3, h4⟩ := resolve_eligible (c := x.context) (to := createLookupAddress) hwx.1 hex
    constructor
    · simp only [stepExec, stepFrame, abs, absFrames, h1, h2, ← h3]
      simp [absCtx, absPrank_default]
    · refine WF_mk _ _ rfl ?_ (WFp_cons h4 hwx.2); exact WFp_default
  | call k to enters =>
    have hne : to ≠ consoleAddress := hc
    cases hex : lookupExcluded.contains to with
    | true =>
      have hch : endpoints.isCheat to = true := by rw [← excluded_eq_isCheat hne]; exact hex
      have hch' : cheatcodeAddresses.contains to = true := by rw [cheat_eq_isCheat]; exact hch
      constructor
      · simp only [stepExec, stepFrame, abs_some hx, resolve_excluded hex, hch, hch', Bool.true_or, ↓reduceIte]
        cases k <;> simp [abs, absFrames, absCtx, senderFor, originFor]
      · simp only [stepExec, resolve_excluded hex, hch', Bool.true_or, ↓reduceIte]
        exact WF_mk x.context x.callbacks rfl hwx.1 hwx.2
    | false =>
      have hch : endpoints.isCheat to = false := by rw [← excluded_eq_isCheat hne]; exact hex
      have hch' : cheatcodeAddresses.contains to = false := by rw [cheat_eq_isCheat]; exact hch
      obtain ⟨h1, h2, h3, h4⟩ := resolve_eligible (c := x.context) (to := to) hwx.1 hex
      cases enters with
      | false =>
        constructor
        · simp only [stepExec, stepFrame, abs_some hx, hch, hch', h1, h2, ← h3]
          cases k <;> simp [abs, absFrames, absCtx]
        · simp only [stepExec, hch', Bool.not_false, Bool.or_true, ↓reduceIte]
          exact WF_mk (resolvePrank x.context to).2 x.callbacks rfl h4 hwx.2
      | true =>
        constructor
        · simp only [stepExec, stepFrame, abs_some hx, hch, hch', h1, h2, ← h3]
          cases k <;> simp [abs, absFrames, absCtx, absPrank_default]
        · simp only [stepExec, hch', Bool.not_true, Bool.or_false, Bool.false_eq_true, ↓reduceIte]
          refine WF_mk _ _ rfl ?_ (WFp_cons h4 hwx.2); exact WFp_default

theorem step_sim {s : State} {op : Op} (hw : WF s) (hc : NoConsole op) :
    abs (Model.Prank.step s op) = Spec.Foundry.step endpoints (abs s) op ∧ WF (Model.Prank.step s op) := by
  unfold Model.Prank.step Spec.Foundry.step
  cases hst : s.stuck with
  | true => simp [abs, hst]; exact hw
  | false =>
    have hf : (abs s).failed = false := hst
    simp only [hf, Bool.false_eq_true, ↓reduceIte]
    cases hx : s.ex with
    | none =>
      have hfr : (abs s).frames = [] := by simp [abs, absFrames, hx]
      cases op with
      | newTx a b t =>
        simp only [hfr]
        refine ⟨by simp [abs, absFrames, absCtx, absPrank_default, hst], ?_⟩
        refine WF_mk _ [] rfl ?_ (by simp); exact WFp_default
      | _ => simp only [hfr]; exact ⟨trivial, hw⟩
    | some x =>
      have hwx : WFx x := hw x hx
      have hfr : (abs s).frames = absCtx x.context :: x.callbacks.map absCtx := by simp [abs, absFrames, hx]
      cases op with
      | newTx a b t =>
        simp only [hfr]
        refine ⟨by simp [abs, absFrames, absCtx, absPrank_default, hst], ?_⟩
        refine WF_mk _ [] rfl ?_ (by simp); exact WFp_default
      | prank a => simp only [hfr]; exact stepExec_sim hst hx hwx hc
      | prank2 a o => simp only [hfr]; exact stepExec_sim hst hx hwx hc
      | startPrank a => simp only [hfr]; exact stepExec_sim hst hx hwx hc
      | startPrank2 a o => simp only [hfr]; exact stepExec_sim hst hx hwx hc
      | stopPrank => simp only [hfr]; exact stepExec_sim hst hx hwx hc
      | call k to e => simp only [hfr]; exact stepExec_sim hst hx hwx hc
      | create n => simp only [hfr]; exact stepExec_sim hst hx hwx hc
      | ret => simp only [hfr]; exact stepExec_sim hst hx hwx hc

theorem run_sim (h : List Op) : ∀ (s : State), WF s → (∀ op ∈ h, NoConsole op) →
    abs (Model.Prank.run s h) = Spec.Foundry.run endpoints (abs s) h ∧ WF (Model.Prank.run s h) := by
  induction h with
  | nil => intro s hw _; exact ⟨rfl, hw⟩
  | cons op rest ih =>
    intro s hw hc
    have h1 := step_sim (s := s) (op := op) hw (hc op (by simp))
    have h2 := ih (Model.Prank.step s op) h1.2 (fun o ho => hc o (by simp [ho]))
    simp only [Model.Prank.run, Spec.Foundry.run, List.foldl_cons] at h2 ⊢
    rw [← h1.1]
    exact h2

theorem WF_init : WF {} := by intro x hx; simp at hx

end HalmosVerif.Lemmas.C14
