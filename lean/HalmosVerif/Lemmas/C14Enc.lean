/-
Lemmas for C14: the create_* encoders (zero / sign extension, padding), the label of `create_generic`, the state cheatcodes.
-/
import HalmosVerif.Model.Prank

namespace HalmosVerif.Lemmas.C14
open HalmosVerif.Spec.Foundry HalmosVerif.Model.Prank

/-! ### zero / sign extension -/

theorem zext256_eq {bits : Nat} (hb : bits ≤ 256) (v : Nat) : zext256 bits v = v % 2 ^ bits := by
  have h2 : 2 ^ bits ≤ 2 ^ 256 := Nat.pow_le_pow_right (by decide) hb
  have h3 : v % 2 ^ bits < 2 ^ bits := Nat.mod_lt _ (Nat.two_pow_pos bits)
  simp only [zext256, BitVec.toNat_setWidth, BitVec.toNat_ofNat]
  exact Nat.mod_eq_of_lt (by omega)

theorem sext256_eq {bits : Nat} (_h1 : 1 ≤ bits) (hb : bits ≤ 256) (v : Nat) :
    sext256 bits v = v % 2 ^ bits + (if 2 ^ (bits - 1) ≤ v % 2 ^ bits then 2 ^ 256 - 2 ^ bits else 0) := by
  have h2 : 2 ^ bits ≤ 2 ^ 256 := Nat.pow_le_pow_right (by decide) hb
  have h3 : v % 2 ^ bits < 2 ^ bits := Nat.mod_lt _ (Nat.two_pow_pos bits)
  simp only [sext256, BitVec.toNat_signExtend, BitVec.msb_eq_decide, BitVec.toNat_setWidth, BitVec.toNat_ofNat]
  rw [Nat.mod_eq_of_lt (show v % 2 ^ bits < 2 ^ 256 by omega)]
  by_cases hc : 2 ^ (bits - 1) ≤ v % 2 ^ bits <;> simp [hc]

theorem two_pow_pred {bits : Nat} (h1 : 1 ≤ bits) : 2 ^ (bits - 1) * 2 = 2 ^ bits := by
  rw [← Nat.pow_succ]
  congr 1
  omega

theorem sext256_isInt {bits : Nat} (h1 : 1 ≤ bits) (hb : bits ≤ 256) (v : Nat) : IsInt bits (sext256 bits v) := by
  have h2 : 2 ^ bits ≤ 2 ^ 256 := Nat.pow_le_pow_right (by decide) hb
  have h3 : v % 2 ^ bits < 2 ^ bits := Nat.mod_lt _ (Nat.two_pow_pos bits)
  have h4 := two_pow_pred h1
  rw [sext256_eq h1 hb]
  unfold IsInt
  split <;> omega

/-- the 256-bit word read as `int256` is the `bits`-wide variable read as `intN` -/
theorem sext256_toInt {bits : Nat} (hb : bits ≤ 256) (x : BitVec bits) : (x.signExtend 256).toInt = x.toInt :=
  BitVec.toInt_signExtend_of_le hb

/-! ### big-endian bytes -/

theorem beBytes_length (n v : Nat) : (beBytes n v).length = n := by simp [beBytes]

theorem beBytes_eq_natToBytes (n v : Nat) : beBytes n v = HalmosVerif.Spec.Evm.natToBytes n v := rfl

theorem beBytes_lt (n v : Nat) : ∀ b ∈ beBytes n v, b < 256 := by
  intro b hb
  simp only [beBytes, List.mem_map] at hb
  obtain ⟨i, _, rfl⟩ := hb
  exact Nat.mod_lt _ (by decide)

theorem encodeTupleBytes_decodes (n v : Nat) : DecodesToBytes (encodeTupleBytes n (beBytes n v)) (beBytes n v) := by
  have hl : (beBytes 32 32).length = 32 := beBytes_length 32 32
  have hl2 : (beBytes 32 n).length = 32 := beBytes_length 32 n
  have hl3 : (beBytes n v).length = n := beBytes_length n v
  refine ⟨?_, ?_, ?_, ?_, beBytes_lt n v⟩
  · simp [encodeTupleBytes, word, ← beBytes_eq_natToBytes, List.take_append_of_le_length, hl]
  · simp [encodeTupleBytes, word, ← beBytes_eq_natToBytes, hl, hl2, hl3, List.append_assoc, List.drop_append_of_le_length,
      List.take_append_of_le_length]
  · have : 64 = (beBytes 32 32 ++ beBytes 32 n).length := by simp [hl, hl2]
    simp only [encodeTupleBytes]
    rw [this, List.drop_left]
    exact List.take_length
  · simp [encodeTupleBytes, hl, hl2, hl3]
    omega

/-! ### labels -/

theorem pad2_no_underscore (n : Nat) : '_' ∉ pad2 n := by
  simp [pad2, List.mem_replicate]

theorem pad2_value (n : Nat) : Nat.ofDigitChars 10 (pad2 n) 0 = n := by
  simp [pad2, Nat.ofDigitChars_append]

theorem pad2_injective {m n : Nat} (h : pad2 m = pad2 n) : m = n := by
  have := congrArg (fun l => Nat.ofDigitChars 10 l 0) h
  simpa [pad2_value] using this

/-- the part of a string after its last underscore -/
theorem suffix_unique {p q d e : List Char} (hd : '_' ∉ d) (he : '_' ∉ e) (h : p ++ '_' :: d = q ++ '_' :: e) : d = e := by
  have hr := congrArg List.reverse h
  simp only [List.reverse_append, List.reverse_cons, List.append_assoc, List.singleton_append] at hr
  have key : ∀ (a b x y : List Char), '_' ∉ a → '_' ∉ b → a ++ '_' :: x = b ++ '_' :: y → a = b := by
    intro a
    induction a with
    | nil =>
      intro b x y _ hb hab
      cases b with
      | nil => rfl
      | cons c cs =>
        simp at hab
        exact absurd (by simp [← hab.1]) hb
    | cons c cs ih =>
      intro b x y ha hb hab
      cases b with
      | nil =>
        simp at hab
        exact absurd (by simp [hab.1]) ha
      | cons c' cs' =>
        simp at hab
        rw [hab.1, ih cs' x y (fun hm => ha (by simp [hm])) (fun hm => hb (by simp [hm])) hab.2]
  have := key d.reverse e.reverse p.reverse q.reverse (by simpa using hd) (by simpa using he) hr
  simpa using congrArg List.reverse this

theorem label_injective_counter {n1 t1 u1 n2 t2 u2 : List Char} {c1 c2 : Nat}
    (h : label n1 t1 u1 c1 = label n2 t2 u2 c2) : c1 = c2 := by
  unfold label at h
  have h' : ("halmos_".toList ++ n1 ++ ['_'] ++ t1 ++ ['_'] ++ u1) ++ '_' :: pad2 c1 =
            ("halmos_".toList ++ n2 ++ ['_'] ++ t2 ++ ['_'] ++ u2) ++ '_' :: pad2 c2 := by
    simpa [List.append_assoc] using h
  exact pad2_injective (suffix_unique (pad2_no_underscore c1) (pad2_no_underscore c2) h')

/-! ### state cheatcodes -/

theorem find_filter_ne {α} [BEq α] [LawfulBEq α] (m : List (α × Nat)) (k k' : α) (h : k' ≠ k) :
    (m.filter (fun p => !(p.1 == k))).find? (fun p => p.1 == k') = m.find? (fun p => p.1 == k') := by
  induction m with
  | nil => rfl
  | cons a t ih =>
    by_cases h1 : a.1 == k
    · have h2 : (a.1 == k') = false := by
        have := eq_of_beq h1
        simp [this, Ne.symm h]
      simp [List.filter_cons, h1, List.find?_cons, h2, ih]
    · by_cases h2 : a.1 == k' <;> simp [List.filter_cons, h1, List.find?_cons, h2, ih]

theorem lookupD_insert {α} [BEq α] [LawfulBEq α] [DecidableEq α] (m : List (α × Nat)) (k k' : α) (v d : Nat) :
    Spec.Evm.lookupD (Spec.Evm.insert m k v) k' d = if k' = k then v else Spec.Evm.lookupD m k' d := by
  unfold Spec.Evm.lookupD Spec.Evm.insert
  by_cases h : k' = k
  · subst h; simp
  · have hne : (k == k') = false := by simp [Ne.symm h]
    simp only [List.find?_cons, hne, h, ↓reduceIte]
    rw [find_filter_ne m k k' h]

open HalmosVerif.Spec.Evm (World) in
theorem codeOf_setCode (w : World) (a a' : Nat) (c : List Nat) :
    (w.setCode a c).codeOf a' = if a' = a then some c else w.codeOf a' := by
  unfold World.setCode World.codeOf
  by_cases h : a' = a
  · subst h; simp
  · have hne : (a == a') = false := by simp [Ne.symm h]
    simp only [List.find?_cons, hne, h, ↓reduceIte]
    congr 1
    induction w.code with
    | nil => rfl
    | cons e t ih =>
      by_cases h1 : e.1 == a
      · have h2 : (e.1 == a') = false := by
          have := eq_of_beq h1
          simp [this, Ne.symm h]
        simp [List.filter_cons, h1, List.find?_cons, h2, ih]
      · by_cases h2 : e.1 == a' <;> simp [List.filter_cons, h1, List.find?_cons, h2, ih]


/-! ### successive creations -/

/-- a path's successive creations: the counter never decreases, so a new label differs from every earlier one -/
def createMany (cnt : Nat) : List (Nat × List Char × List Char × List Char) → List Sym × Nat
  | [] => ([], cnt)
  | (bits, name, type, uid) :: rest =>
    let g := createGeneric cnt bits name type uid
    let r := createMany g.2 rest
    (match g.1 with | some s => s :: r.1 | none => r.1, r.2)

theorem createMany_labels (reqs : List (Nat × List Char × List Char × List Char)) :
    ∀ cnt, cnt ≤ (createMany cnt reqs).2 ∧
      ∀ s ∈ (createMany cnt reqs).1, ∃ n t u c, s.label = label n t u c ∧ cnt < c ∧ c ≤ (createMany cnt reqs).2 := by
  induction reqs with
  | nil => intro cnt; simp [createMany]
  | cons r rest ih =>
    intro cnt
    obtain ⟨bits, name, type, uid⟩ := r
    by_cases hb : bits = 0
    · have := ih cnt
      simpa [createMany, createGeneric, hb] using this
    · have := ih (cnt + 1)
      simp only [createMany, createGeneric, hb, ↓reduceIte]
      refine ⟨by omega, ?_⟩
      intro s hs
      simp at hs
      rcases hs with rfl | hs
      · exact ⟨name, type, uid, cnt + 1, rfl, by omega, this.1⟩
      · obtain ⟨n, t, u, c, h1, h2, h3⟩ := this.2 s hs
        exact ⟨n, t, u, c, h1, by omega, h3⟩


end HalmosVerif.Lemmas.C14
