/-
Lemmas for C14: what a callee does — any balanced history executed in a nested frame — cannot touch the caller's record.
-/
import HalmosVerif.Lemmas.C14

namespace HalmosVerif.Lemmas.C14
open HalmosVerif.Spec.Foundry HalmosVerif.Model.Prank HalmosVerif.Gen.Prank

/-- events that neither enter nor leave a frame -/
def Simple : Op → Prop
  | .prank _ | .prank2 .. | .startPrank _ | .startPrank2 .. | .stopPrank => True
  | .call _ to enters => cheatcodeAddresses.contains to = true ∨ enters = false
  | _ => False

/-- the history of one frame's body: every frame it enters returns, and it does not return itself -/
inductive Body : List Op → Prop
  | nil : Body []
  | simple (op : Op) (rest : List Op) : Simple op → Body rest → Body (op :: rest)
  | nest (k : CallKind) (to : Nat) (inner rest : List Op) : cheatcodeAddresses.contains to = false → Body inner → Body rest →
      Body (.call k to true :: (inner ++ .ret :: rest))
  | nestCreate (a : Nat) (inner rest : List Op) : Body inner → Body rest → Body (.create a :: (inner ++ .ret :: rest))

theorem run_append (s : State) (a b : List Op) : Model.Prank.run s (a ++ b) = Model.Prank.run (Model.Prank.run s a) b := by
  simp [Model.Prank.run, List.foldl_append]

theorem step_stuck {s : State} (h : s.stuck = true) (op : Op) : Model.Prank.step s op = s := by
  simp [Model.Prank.step, h]

theorem run_stuck {s : State} (h : s.stuck = true) (l : List Op) : Model.Prank.run s l = s := by
  induction l with
  | nil => rfl
  | cons op rest ih => simp only [Model.Prank.run, List.foldl_cons, step_stuck h] at ih ⊢; exact ih

/-- the shape a body preserves: same suspended callers, same message in the running frame -/
def Same (x : Exec) (s' : State) : Prop :=
  s'.stuck = true ∨ (s'.stuck = false ∧ ∃ c', s'.ex = some { context := c', callbacks := x.callbacks } ∧ c'.message = x.context.message)

theorem step_simple {s : State} {x : Exec} (hst : s.stuck = false) (hx : s.ex = some x) {op : Op} (hs : Simple op) :
    Same x (Model.Prank.step s op) := by
  cases op with
  | newTx a b t => exact absurd hs (by simp [Simple])
  | create a => exact absurd hs (by simp [Simple])
  | ret => exact absurd hs (by simp [Simple])
  | stopPrank => right; simp [Model.Prank.step, hst, hx, stepExec]
  | call k to enters =>
    right
    have hc : (cheatcodeAddresses.contains to || !enters) = true := by
      rcases hs with h | h
      · rw [h, Bool.true_or]
      · rw [h]; simp
    simp only [Model.Prank.step, hst, hx, stepExec, hc]
    simp [resolvePrank]
  | prank a =>
    simp only [Model.Prank.step, hst, hx, stepExec, afterPrank, Bool.false_eq_true, ↓reduceIte]
    split
    · right; simp [hst]
    · left; rfl
  | prank2 a o =>
    simp only [Model.Prank.step, hst, hx, stepExec, afterPrank, Bool.false_eq_true, ↓reduceIte]
    split
    · right; simp [hst]
    · left; rfl
  | startPrank a =>
    simp only [Model.Prank.step, hst, hx, stepExec, afterPrank, Bool.false_eq_true, ↓reduceIte]
    split
    · right; simp [hst]
    · left; rfl
  | startPrank2 a o =>
    simp only [Model.Prank.step, hst, hx, stepExec, afterPrank, Bool.false_eq_true, ↓reduceIte]
    split
    · right; simp [hst]
    · left; rfl

theorem body_same {l : List Op} (hb : Body l) : ∀ (s : State) (x : Exec), s.stuck = false → s.ex = some x →
    Same x (Model.Prank.run s l) := by
  induction hb with
  | nil => intro s x hst hx; right; exact ⟨hst, x.context, by simp [Model.Prank.run, hx], rfl⟩
  | simple op rest hs _ ih =>
    intro s x hst hx
    have h1 := step_simple hst hx hs
    simp only [Model.Prank.run, List.foldl_cons]
    rcases h1 with h1 | ⟨h1, c', h2, h3⟩
    · left; have := run_stuck h1 rest; simp only [Model.Prank.run] at this; rw [this]; exact h1
    · have := ih (Model.Prank.step s op) { context := c', callbacks := x.callbacks } h1 h2
      rcases this with h | ⟨h4, c'', h5, h6⟩
      · left; exact h
      · right; exact ⟨h4, c'', h5, by rw [h6]; exact h3⟩
  | nest k to inner rest hto _ _ ihi ihr =>
    intro s x hst hx
    -- enter
    have hm : (cheatcodeAddresses.contains to || !true) = false := by rw [hto]; rfl
    have hent : ∃ msg, (Model.Prank.step s (.call k to true)).stuck = false ∧ (Model.Prank.step s (.call k to true)).ex =
        some { context := { message := msg }, callbacks := (resolvePrank x.context to).2 :: x.callbacks } := by
      refine ⟨{ target := match k with | .call | .staticcall => to | _ => x.context.message.target
                caller := match k with | .delegatecall => x.context.message.caller | _ => (resolvePrank x.context to).1.1
                origin := (resolvePrank x.context to).1.2 }, ?_, ?_⟩ <;>
        simp only [Model.Prank.step, hst, hx, stepExec, hm, Bool.false_eq_true, ↓reduceIte] <;> cases k <;> rfl
    obtain ⟨msg, hst1, hex1⟩ := hent
    obtain ⟨s1, hs1⟩ : ∃ s1 : State, s1 = Model.Prank.step s (.call k to true) := ⟨_, rfl⟩
    rw [← hs1] at hst1 hex1
    simp only [Model.Prank.run, List.foldl_cons]
    rw [← hs1]
    have hrun := run_append s1 inner (.ret :: rest)
    simp only [Model.Prank.run] at hrun
    rw [hrun]
    have hin := ihi s1 _ hst1 hex1
    simp only [Model.Prank.run] at hin
    rcases hin with h | ⟨h4, c', h5, _⟩
    · left; have := run_stuck h (.ret :: rest); simp only [Model.Prank.run] at this; rw [this]; exact h
    · simp only [List.foldl_cons]
      -- return
      have hret : ∃ s2 : State, Model.Prank.step (List.foldl Model.Prank.step s1 inner) .ret = s2 ∧ s2.stuck = false ∧
            s2.ex = some { context := (resolvePrank x.context to).2, callbacks := x.callbacks } := by
        refine ⟨_, rfl, ?_, ?_⟩ <;> simp [Model.Prank.step, h4, h5, stepExec]
      obtain ⟨s2, hs2, hst2, hex2⟩ := hret
      rw [hs2]
      have := ihr s2 { context := (resolvePrank x.context to).2, callbacks := x.callbacks } hst2 hex2
      simp only [Model.Prank.run] at this
      rcases this with h | ⟨h6, c'', h7, h8⟩
      · left; exact h
      · right; exact ⟨h6, c'', h7, by rw [h8]; simp [resolvePrank]⟩
  | nestCreate a inner rest _ _ ihi ihr =>
    intro s x hst hx
    have hent : ∃ msg, (Model.Prank.step s (.create a)).stuck = false ∧ (Model.Prank.step s (.create a)).ex =
        some { context := { message := msg }, callbacks := (resolvePrank x.context createLookupAddress).2 :: x.callbacks } := by
      refine ⟨{ target := a, caller := (resolvePrank x.context createLookupAddress).1.1,
                origin := (resolvePrank x.context createLookupAddress).1.2 }, ?_, ?_⟩ <;>
        simp only [Model.Prank.step, hst, hx, stepExec, Bool.false_eq_true, ↓reduceIte]
    obtain ⟨msg, hst1, hex1⟩ := hent
    obtain ⟨s1, hs1⟩ : ∃ s1 : State, s1 = Model.Prank.step s (.create a) := ⟨_, rfl⟩
    rw [← hs1] at hst1 hex1
    simp only [Model.Prank.run, List.foldl_cons]
    rw [← hs1]
    have hrun := run_append s1 inner (.ret :: rest)
    simp only [Model.Prank.run] at hrun
    rw [hrun]
    have hin := ihi s1 _ hst1 hex1
    simp only [Model.Prank.run] at hin
    rcases hin with h | ⟨h4, c', h5, _⟩
    · left; have := run_stuck h (.ret :: rest); simp only [Model.Prank.run] at this; rw [this]; exact h
    · simp only [List.foldl_cons]
      have hret : ∃ s2 : State, Model.Prank.step (List.foldl Model.Prank.step s1 inner) .ret = s2 ∧ s2.stuck = false ∧
            s2.ex = some { context := (resolvePrank x.context createLookupAddress).2, callbacks := x.callbacks } := by
        refine ⟨_, rfl, ?_, ?_⟩ <;> simp [Model.Prank.step, h4, h5, stepExec]
      obtain ⟨s2, hs2, hst2, hex2⟩ := hret
      rw [hs2]
      have := ihr s2 { context := (resolvePrank x.context createLookupAddress).2, callbacks := x.callbacks } hst2 hex2
      simp only [Model.Prank.run] at this
      rcases this with h | ⟨h6, c'', h7, h8⟩
      · left; exact h
      · right; exact ⟨h6, c'', h7, by rw [h8]; simp [resolvePrank]⟩

theorem nested_returns (s : State) (x : Exec) (hst : s.stuck = false) (hx : s.ex = some x) (k : CallKind) (to : Nat)
    (hto : cheatcodeAddresses.contains to = false) (inner : List Op) (hb : Body inner) :
    (Model.Prank.run s (.call k to true :: (inner ++ [.ret]))).stuck = true ∨
    (Model.Prank.run s (.call k to true :: (inner ++ [.ret]))).ex =
      some { context := (resolvePrank x.context to).2, callbacks := x.callbacks } := by
  have hm : (cheatcodeAddresses.contains to || !true) = false := by rw [hto]; rfl
  have hent : ∃ msg, (Model.Prank.step s (.call k to true)).stuck = false ∧ (Model.Prank.step s (.call k to true)).ex =
      some { context := { message := msg }, callbacks := (resolvePrank x.context to).2 :: x.callbacks } := by
    refine ⟨{ target := match k with | .call | .staticcall => to | _ => x.context.message.target
              caller := match k with | .delegatecall => x.context.message.caller | _ => (resolvePrank x.context to).1.1
              origin := (resolvePrank x.context to).1.2 }, ?_, ?_⟩ <;>
      simp only [Model.Prank.step, hst, hx, stepExec, hm, Bool.false_eq_true, ↓reduceIte] <;> cases k <;> rfl
  obtain ⟨msg, hst1, hex1⟩ := hent
  obtain ⟨s1, hs1⟩ : ∃ s1 : State, s1 = Model.Prank.step s (.call k to true) := ⟨_, rfl⟩
  rw [← hs1] at hst1 hex1
  have hrun : Model.Prank.run s (.call k to true :: (inner ++ [.ret])) = Model.Prank.step (Model.Prank.run s1 inner) .ret := by
    simp only [Model.Prank.run, List.foldl_cons, List.foldl_append, List.foldl_nil, hs1]
  rw [hrun]
  rcases body_same hb s1 _ hst1 hex1 with h | ⟨h4, c', h5, _⟩
  · left; rw [step_stuck h]; exact h
  · right; simp [Model.Prank.step, h4, h5, stepExec]

end HalmosVerif.Lemmas.C14
