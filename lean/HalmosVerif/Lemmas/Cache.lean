/-
Lemmas.Cache — the invariant of the unsat-core cache along a history (helpers for Props.C16).
-/
import HalmosVerif.Model.Cache

namespace HalmosVerif.Lemmas.Cache
open HalmosVerif.Model.Cache

variable {ι κ : Type} [DecidableEq ι]

/-- every stored core is an unsatisfiable set of conditions of some earlier query -/
def Inv (Unsat : List κ → Prop) (past : List (Query ι κ)) (cores : List (List ι)) : Prop :=
  ∀ core ∈ cores, ∃ q ∈ past, Unsat (q.restrict core)

theorem hit_sound (Unsat : List κ → Prop) (hmono : Monotone Unsat) (past : List (Query ι κ)) (cores : List (List ι))
    (q' : Query ι κ) (hinv : Inv Unsat past cores)
    (hst : ∀ q ∈ past, ∀ i c1 c2, (i, c1) ∈ q → (i, c2) ∈ q' → c1 = c2)
    (hit : checkUnsatCores q'.ids cores = true) : Unsat q'.conds := by
  simp only [checkUnsatCores, List.any_eq_true, List.all_eq_true, List.contains_iff_mem] at hit
  obtain ⟨core, hcore, hall⟩ := hit
  obtain ⟨q, hq, hun⟩ := hinv core hcore
  refine hmono _ _ ?_ hun
  intro c hc
  simp only [Query.restrict, List.mem_map, List.mem_filter, List.contains_iff_mem] at hc
  obtain ⟨e, ⟨heq, hein⟩, rfl⟩ := hc
  have := hall e.1 hein
  simp only [Query.ids, List.mem_map] at this
  obtain ⟨e', he', h1⟩ := this
  have heq2 : e.2 = e'.2 := hst q hq e.1 e.2 e'.2 (by simpa using heq) (by rw [← h1]; simpa using he')
  simp only [Query.conds, List.mem_map]
  exact ⟨e', he', heq2.symm⟩

theorem step_inv (Unsat : List κ → Prop) (solver : Solver ι κ) (hs : SolverOk Unsat solver)
    (past : List (Query ι κ)) (cores : List (List ι)) (q : Query ι κ) (hinv : Inv Unsat past cores) :
    Inv Unsat (past ++ [q]) (step solver cores q).2 := by
  have hweak : Inv Unsat (past ++ [q]) cores := by
    intro core hc
    obtain ⟨q0, hq0, h⟩ := hinv core hc
    exact ⟨q0, List.mem_append_left _ hq0, h⟩
  unfold step
  split
  · exact hweak
  · split
    · rename_i core hsol
      split
      · exact hweak
      · intro c hc
        rcases List.mem_append.1 hc with hc | hc
        · exact hweak c hc
        · simp only [List.mem_singleton] at hc
          subst hc
          exact ⟨q, List.mem_append_right _ (List.mem_singleton.2 rfl), hs.core_unsat q c hsol⟩
    · exact hweak

theorem step_verdict_sound (Unsat : List κ → Prop) (hmono : Monotone Unsat) (solver : Solver ι κ)
    (hs : SolverOk Unsat solver) (past : List (Query ι κ)) (cores : List (List ι)) (q : Query ι κ)
    (hinv : Inv Unsat past cores) (hst : ∀ q0 ∈ past, ∀ i c1 c2, (i, c1) ∈ q0 → (i, c2) ∈ q → c1 = c2)
    (hv : (step solver cores q).1 = .unsat) : Unsat q.conds := by
  unfold step at hv
  split at hv
  · rename_i hit
    exact hit_sound Unsat hmono past cores q hinv hst hit
  · exact hs.unsat_sound q hv

end HalmosVerif.Lemmas.Cache
