/-
Lemmas.Calls — helper lemmas for C09 about `Model.Calls`: the world record, sums of balances over a finite address
set, one-instruction facts about `callStep` / `createStep` (for an arbitrary callee behaviour `run`), and the
structural inductions over `Frame` (address counter monotone, value conservation, static frames).
-/
import HalmosVerif.Model.Calls

namespace HalmosVerif.Model.Calls

/-! ### the world record -/

theorem W.ext' {a b : W} (h1 : a.code = b.code) (h2 : a.storage = b.storage) (h3 : a.transient = b.transient)
    (h4 : a.balance = b.balance) : a = b := by
  cases a; cases b; simp_all

theorem restore_eq (cur orig : W) : restore cur orig = orig := by
  cases orig; rfl

theorem upd_same {β : Type} (f : Addr → β) (a : Addr) (v : β) : upd f a v a = v := by simp [upd]

theorem upd_other {β : Type} (f : Addr → β) {a c : Addr} (v : β) (h : c ≠ a) : upd f a v c = f c := by simp [upd, h]

/-! ### sums of balances over a finite address set -/

def sumBal (S : List Addr) (b : Addr → Nat) : Nat := (S.map b).sum

theorem sumBal_nil (b : Addr → Nat) : sumBal [] b = 0 := rfl

theorem sumBal_cons (a : Addr) (S : List Addr) (b : Addr → Nat) : sumBal (a :: S) b = b a + sumBal S b := by
  simp [sumBal]

theorem sumBal_upd_notin {S : List Addr} {a : Addr} (b : Addr → Nat) (x : Nat) (h : a ∉ S) :
    sumBal S (upd b a x) = sumBal S b := by
  induction S with
  | nil => rfl
  | cons c S ih =>
    simp only [List.mem_cons, not_or] at h
    rw [sumBal_cons, sumBal_cons, ih h.2, upd_other b x (fun e => h.1 e.symm)]

theorem sumBal_upd_mem {S : List Addr} {a : Addr} (b : Addr → Nat) (x : Nat) (hS : S.Nodup) (h : a ∈ S) :
    sumBal S (upd b a x) + b a = sumBal S b + x := by
  induction S with
  | nil => cases h
  | cons c S ih =>
    rw [List.nodup_cons] at hS
    rw [sumBal_cons, sumBal_cons]
    by_cases hca : c = a
    · subst hca
      rw [sumBal_upd_notin b x hS.1, upd_same]; omega
    · have hin : a ∈ S := by
        cases h with
        | head => exact absurd rfl hca
        | tail _ h => exact h
      have := ih hS.2 hin
      rw [upd_other b x hca]; omega

theorem le_sumBal {S : List Addr} {a : Addr} (b : Addr → Nat) (h : a ∈ S) : b a ≤ sumBal S b := by
  induction S with
  | nil => cases h
  | cons c S ih =>
    rw [sumBal_cons]
    cases h with
    | head => omega
    | tail _ h => have := ih h; omega

/-! ### `transferValue` -/

theorem transferValue_code (w : W) (src dst v : Nat) : (transferValue w src dst v).code = w.code := by
  unfold transferValue; split <;> rfl

theorem transferValue_storage (w : W) (src dst v : Nat) : (transferValue w src dst v).storage = w.storage := by
  unfold transferValue; split <;> rfl

theorem transferValue_transient (w : W) (src dst v : Nat) : (transferValue w src dst v).transient = w.transient := by
  unfold transferValue; split <;> rfl

theorem transferValue_zero (w : W) (src dst : Nat) : transferValue w src dst 0 = w := by
  simp [transferValue]

theorem transferValue_sum {S : List Addr} (w : W) {src dst : Addr} {v : Nat} (hS : S.Nodup) (hs : src ∈ S) (hd : dst ∈ S)
    (hv : v ≤ w.balance src) (hlt : sumBal S w.balance < WORD) :
    sumBal S (transferValue w src dst v).balance = sumBal S w.balance := by
  unfold transferValue
  by_cases h0 : v = 0
  · simp [h0]
  · simp only [h0, if_false]
    have h1 := sumBal_upd_mem w.balance (w.balance src - v) hS hs
    have hle := le_sumBal (upd w.balance src (w.balance src - v)) (S := S) hd
    have hmod : (upd w.balance src (w.balance src - v) dst + v) % WORD
        = upd w.balance src (w.balance src - v) dst + v := by
      apply Nat.mod_eq_of_lt; omega
    rw [hmod]
    have h2 := sumBal_upd_mem (upd w.balance src (w.balance src - v))
      (upd w.balance src (w.balance src - v) dst + v) hS hd
    omega

theorem sendValue_code (sch : Scheme) (w : W) (a b v : Nat) : (sendValue sch w a b v).code = w.code := by
  cases sch <;> simp [sendValue, transferValue_code]

theorem sendValue_storage (sch : Scheme) (w : W) (a b v : Nat) : (sendValue sch w a b v).storage = w.storage := by
  cases sch <;> simp [sendValue, transferValue_storage]

theorem sendValue_transient (sch : Scheme) (w : W) (a b v : Nat) : (sendValue sch w a b v).transient = w.transient := by
  cases sch <;> simp [sendValue, transferValue_transient]

theorem sendValue_zero (sch : Scheme) (w : W) (a b : Nat) : sendValue sch w a b 0 = w := by
  cases sch <;> simp [sendValue, transferValue_zero]

theorem sendValue_noncall {sch : Scheme} (h : sch ≠ .call) (w : W) (a b v : Nat) : sendValue sch w a b v = w := by
  cases sch <;> simp_all [sendValue]

/-! ### `finishCall` / `finishCreate` -/

theorem finishCall_cnt (orig : W) (rs : Nat) (r : St × Outcome) : (finishCall orig rs r).1.cnt = r.1.cnt := by
  unfold finishCall; split <;> rfl

theorem finishCall_seen (orig : W) (rs : Nat) (r : St × Outcome) :
    (finishCall orig rs r).2 = { success := r.2.isSuccess, flag := if r.2.isSuccess then 1 else 0,
                                 returndata := r.2.data, memCopy := memCopyOf rs r.2.data } := by
  unfold finishCall; split <;> rfl

theorem finishCall_w (orig : W) (rs : Nat) (r : St × Outcome) :
    (finishCall orig rs r).1.w = if r.2.isSuccess then r.1.w else orig := by
  unfold finishCall; split <;> simp [*, restore_eq]

theorem finishCreate_cnt (orig : W) (a : Addr) (r : St × Outcome) : (finishCreate orig a r).1.cnt = r.1.cnt := by
  unfold finishCreate; split <;> rfl

theorem finishCreate_success (orig : W) (a : Addr) (r : St × Outcome) :
    (finishCreate orig a r).2.success = r.2.isSuccess := by
  unfold finishCreate; split
  · next h => simp [h, Outcome.isSuccess]
  · next h =>
    cases hr : r.2 with
    | ret d => exact absurd hr (h d)
    | revert d => rfl
    | fail e => rfl

theorem finishCreate_w_fail (orig : W) (a : Addr) (r : St × Outcome) (h : r.2.isSuccess = false) :
    (finishCreate orig a r).1.w = orig := by
  unfold finishCreate; split
  · next h' => simp [h', Outcome.isSuccess] at h
  · exact restore_eq r.1.w orig

theorem finishCreate_balance (orig : W) (a : Addr) (r : St × Outcome) :
    (finishCreate orig a r).1.w.balance = if r.2.isSuccess then r.1.w.balance else orig.balance := by
  unfold finishCreate; split
  · next h => simp [h, Outcome.isSuccess]
  · next h =>
    cases hr : r.2 with
    | ret d => exact absurd hr (h d)
    | revert d => simp [Outcome.isSuccess, restore]
    | fail e => simp [Outcome.isSuccess, restore]

/-! ### `guarded` -/

theorem guarded_deep (run : Ctx → St → St × Outcome) (ctx : Ctx) (s : St) (h : ctx.depth > MAX_CALL_DEPTH) :
    guarded run ctx s = (s, .fail .depthLimit) := by simp [guarded, h]

theorem guarded_ok (run : Ctx → St → St × Outcome) (ctx : Ctx) (s : St) (h : ¬ ctx.depth > MAX_CALL_DEPTH) :
    guarded run ctx s = run ctx s := by simp [guarded, h]

/-- a property of every end state of `run` from `s` that also holds of `s` itself survives the depth guard -/
theorem guarded_rel (R : St → St → Prop) (run : Ctx → St → St × Outcome) (ctx : Ctx) (s : St)
    (hrefl : R s s) (hrun : ¬ ctx.depth > MAX_CALL_DEPTH → R s (run ctx s).1) : R s (guarded run ctx s).1 := by
  unfold guarded; split
  · exact hrefl
  · next h => exact hrun h

/-! ### the three branches of `callStep` -/

/-- the insufficient-funds condition of `handle_insufficient_fund_case` for a CALL-family instruction -/
def callInsufficient (sch : Scheme) (fund0 : Nat) (pr : Prank) (ctx : Ctx) (s : St) : Prop :=
  fundOf sch fund0 ≠ 0 ∧ s.w.balance (pr.sender.getD ctx.this) < fundOf sch fund0

instance (sch : Scheme) (fund0 : Nat) (pr : Prank) (ctx : Ctx) (s : St) : Decidable (callInsufficient sch fund0 pr ctx s) := by
  unfold callInsufficient; infer_instance

/-- the state in which the callee starts: the value has been sent -/
def afterSend (sch : Scheme) (to fund0 : Nat) (pr : Prank) (ctx : Ctx) (s : St) : St :=
  { s with w := sendValue sch s.w (pr.sender.getD ctx.this) to (fundOf sch fund0) }

theorem callStep_insufficient (run : Ctx → St → St × Outcome) (sch : Scheme) (to fund0 rs : Nat) (pr : Prank) (ctx : Ctx)
    (s : St) (h : callInsufficient sch fund0 pr ctx s) :
    callStep run sch to fund0 rs pr ctx s = (s, Seen.failedEmpty) := by
  unfold callInsufficient at h
  simp only [callStep, h, and_self, ne_eq, not_false_eq_true, if_true]

theorem callStep_unknown (run : Ctx → St → St × Outcome) (sch : Scheme) (to fund0 rs : Nat) (pr : Prank) (ctx : Ctx)
    (s : St) (h : ¬ callInsufficient sch fund0 pr ctx s) (hc : s.w.code to = none) :
    callStep run sch to fund0 rs pr ctx s
      = (afterSend sch to fund0 pr ctx s, { success := true, flag := 1, returndata := [], memCopy := [] }) := by
  unfold callInsufficient at h
  simp only [callStep, h, if_false, hc, afterSend]

theorem callStep_known (run : Ctx → St → St × Outcome) (sch : Scheme) (to fund0 rs : Nat) (pr : Prank) (ctx : Ctx)
    (s : St) (h : ¬ callInsufficient sch fund0 pr ctx s) (hc : (s.w.code to).isSome) :
    callStep run sch to fund0 rs pr ctx s
      = finishCall s.w rs (guarded run (mkMessage sch to (fundOf sch fund0) pr ctx) (afterSend sch to fund0 pr ctx s)) := by
  unfold callInsufficient at h
  obtain ⟨c, hc'⟩ := Option.isSome_iff_exists.mp hc
  simp only [callStep, h, if_false, hc', afterSend]

theorem afterSend_cnt (sch : Scheme) (to fund0 : Nat) (pr : Prank) (ctx : Ctx) (s : St) :
    (afterSend sch to fund0 pr ctx s).cnt = s.cnt := rfl

/-- a relation between the state before and after one call instruction, from the same relation for the callee -/
theorem callStep_cnt_le (run : Ctx → St → St × Outcome) (sch : Scheme) (to fund0 rs : Nat) (pr : Prank) (ctx : Ctx) (s : St)
    (hrun : ∀ c s, s.cnt ≤ (run c s).1.cnt) : s.cnt ≤ (callStep run sch to fund0 rs pr ctx s).1.cnt := by
  by_cases h : callInsufficient sch fund0 pr ctx s
  · rw [callStep_insufficient run sch to fund0 rs pr ctx s h]; exact Nat.le_refl _
  · cases hc : s.w.code to with
    | none => rw [callStep_unknown run sch to fund0 rs pr ctx s h hc]; exact Nat.le_refl _
    | some c =>
      rw [callStep_known run sch to fund0 rs pr ctx s h (by simp [hc]), finishCall_cnt]
      exact guarded_rel (fun _ b => s.cnt ≤ b.cnt) run _ (afterSend sch to fund0 pr ctx s) (Nat.le_refl _)
        (fun _ => hrun _ (afterSend sch to fund0 pr ctx s))

/-- when the callee runs, its final counter is the counter after the instruction -/
theorem callStep_known_cnt (run : Ctx → St → St × Outcome) (sch : Scheme) (to fund0 rs : Nat) (pr : Prank) (ctx : Ctx)
    (s : St) (h : ¬ callInsufficient sch fund0 pr ctx s) (hc : (s.w.code to).isSome)
    (hd : ¬ (mkMessage sch to (fundOf sch fund0) pr ctx).depth > MAX_CALL_DEPTH) :
    (callStep run sch to fund0 rs pr ctx s).1.cnt
      = (run (mkMessage sch to (fundOf sch fund0) pr ctx) (afterSend sch to fund0 pr ctx s)).1.cnt := by
  rw [callStep_known run sch to fund0 rs pr ctx s h hc, finishCall_cnt, guarded_ok _ _ _ hd]

/-! ### the branches of `createStep` -/

/-- the address a CREATE / CREATE2 deploys to, and the state after the counter was advanced -/
def createAddr (addr2 : Option Addr) (s : St) : Addr :=
  match addr2 with
  | none => newAddress (s.cnt + 1)
  | some a => a

def createBump (addr2 : Option Addr) (s : St) : St :=
  match addr2 with
  | none => { s with cnt := s.cnt + 1 }
  | some _ => s

def createInsufficient (value : Nat) (pr : Prank) (ctx : Ctx) (s : St) : Prop :=
  value ≠ 0 ∧ s.w.balance (pr.sender.getD ctx.this) < value

instance (value : Nat) (pr : Prank) (ctx : Ctx) (s : St) : Decidable (createInsufficient value pr ctx s) := by
  unfold createInsufficient; infer_instance

/-- the state in which the init code starts -/
def createStart (addr2 : Option Addr) (value : Nat) (pr : Prank) (ctx : Ctx) (s : St) : St :=
  { createBump addr2 s with
    w := transferValue (setupAccount s.w (createAddr addr2 s)) (pr.sender.getD ctx.this) (createAddr addr2 s) value }

theorem createBump_w (addr2 : Option Addr) (s : St) : (createBump addr2 s).w = s.w := by
  cases addr2 <;> rfl

theorem createBump_cnt_le (addr2 : Option Addr) (s : St) : s.cnt ≤ (createBump addr2 s).cnt := by
  cases addr2 <;> simp [createBump]

theorem createBump_cnt_le_succ (addr2 : Option Addr) (s : St) : (createBump addr2 s).cnt ≤ s.cnt + 1 := by
  cases addr2 <;> simp [createBump]

theorem createStep_insufficient (run : Ctx → St → St × Outcome) (addr2 : Option Addr) (value : Nat) (pr : Prank) (ctx : Ctx)
    (s : St) (h : createInsufficient value pr ctx s) :
    createStep run addr2 value pr ctx s = (createBump addr2 s, Seen.failedEmpty) := by
  unfold createInsufficient at h
  cases addr2 <;> simp only [createStep, createBump, h, and_self, ne_eq, not_false_eq_true, if_true]

theorem createStep_collision (run : Ctx → St → St × Outcome) (addr2 : Option Addr) (value : Nat) (pr : Prank) (ctx : Ctx)
    (s : St) (h : ¬ createInsufficient value pr ctx s) (hc : (s.w.code (createAddr addr2 s)).isSome) :
    createStep run addr2 value pr ctx s = (createBump addr2 s, Seen.failedEmpty) := by
  unfold createInsufficient at h
  cases addr2 <;> simp only [createAddr] at hc <;> simp only [createStep, createBump, h, if_false, hc, if_true]

theorem createStep_runs (run : Ctx → St → St × Outcome) (addr2 : Option Addr) (value : Nat) (pr : Prank) (ctx : Ctx)
    (s : St) (h : ¬ createInsufficient value pr ctx s) (hc : ¬ (s.w.code (createAddr addr2 s)).isSome) :
    createStep run addr2 value pr ctx s
      = finishCreate s.w (createAddr addr2 s)
          (guarded run (mkCreateMessage (createAddr addr2 s) value pr ctx) (createStart addr2 value pr ctx s)) := by
  unfold createInsufficient at h
  cases addr2 <;> simp only [createAddr] at hc <;>
    simp only [createStep, createBump, createAddr, createStart, h, if_false, hc, Bool.false_eq_true]

theorem createStep_cnt_le (run : Ctx → St → St × Outcome) (addr2 : Option Addr) (value : Nat) (pr : Prank) (ctx : Ctx) (s : St)
    (hrun : ∀ c s, s.cnt ≤ (run c s).1.cnt) : s.cnt ≤ (createStep run addr2 value pr ctx s).1.cnt := by
  by_cases h : createInsufficient value pr ctx s
  · rw [createStep_insufficient run addr2 value pr ctx s h]; exact createBump_cnt_le _ _
  · by_cases hc : (s.w.code (createAddr addr2 s)).isSome
    · rw [createStep_collision run addr2 value pr ctx s h hc]; exact createBump_cnt_le _ _
    · rw [createStep_runs run addr2 value pr ctx s h hc, finishCreate_cnt]
      have h0 : s.cnt ≤ (createStart addr2 value pr ctx s).cnt := createBump_cnt_le _ _
      exact guarded_rel (fun a b => s.cnt ≤ b.cnt) run _ _ h0 (fun _ => Nat.le_trans h0 (hrun _ _))

/-- the counter after a create instruction is at least the bumped one -/
theorem createStep_bump_le (run : Ctx → St → St × Outcome) (addr2 : Option Addr) (value : Nat) (pr : Prank) (ctx : Ctx) (s : St)
    (hrun : ∀ c s, s.cnt ≤ (run c s).1.cnt) : (createBump addr2 s).cnt ≤ (createStep run addr2 value pr ctx s).1.cnt := by
  by_cases h : createInsufficient value pr ctx s
  · rw [createStep_insufficient run addr2 value pr ctx s h]; exact Nat.le_refl _
  · by_cases hc : (s.w.code (createAddr addr2 s)).isSome
    · rw [createStep_collision run addr2 value pr ctx s h hc]; exact Nat.le_refl _
    · rw [createStep_runs run addr2 value pr ctx s h hc, finishCreate_cnt]
      have h0 : (createBump addr2 s).cnt ≤ (createStart addr2 value pr ctx s).cnt := Nat.le_refl _
      exact guarded_rel (fun a b => (createBump addr2 s).cnt ≤ b.cnt) run _ _ h0 (fun _ => Nat.le_trans h0 (hrun _ _))

/-! ### the address counter only grows -/

theorem runBody_cnt_le (f : Frame) : ∀ (ctx : Ctx) (s : St), s.cnt ≤ (runBody f ctx s).1.cnt := by
  induction f with
  | done o => intro ctx s; exact Nat.le_refl _
  | read k ih => intro ctx s; rw [runBody]; exact ih _ _ _ _
  | eff e rest ih =>
    intro ctx s; rw [runBody]; split
    · exact Nat.le_refl _
    · exact ih ctx ⟨e.apply ctx.this s.w, s.cnt⟩
  | call sch to fund rs pr callee k ihc ihk =>
    intro ctx s; rw [runBody]
    exact Nat.le_trans (callStep_cnt_le _ sch to fund rs pr ctx s ihc) (ihk _ _ _)
  | create a2 v pr init k ihi ihk =>
    intro ctx s; rw [runBody]; split
    · exact Nat.le_refl _
    · exact Nat.le_trans (createStep_cnt_le _ a2 v pr ctx s ihi) (ihk _ _ _)

/-! ### value conservation -/

/-- every address a frame can name as the endpoint of a transfer lies in `S`: call targets, pranked senders, CREATE2
addresses (addresses handed out by the allocator are covered separately, through the counter) -/
def Closed (S : List Addr) : Frame → Prop
  | .done _ => True
  | .read k => ∀ c w, Closed S (k c w)
  | .eff _ rest => Closed S rest
  | .call _ to _ _ pr callee k =>
    to ∈ S ∧ (∀ a, pr.sender = some a → a ∈ S) ∧ Closed S callee ∧ ∀ seen, Closed S (k seen)
  | .create a2 _ pr init k =>
    (∀ a, a2 = some a → a ∈ S) ∧ (∀ a, pr.sender = some a → a ∈ S) ∧ Closed S init ∧ ∀ seen, Closed S (k seen)

theorem sender_mem {S : List Addr} {pr : Prank} {ctx : Ctx} (ht : ctx.this ∈ S) (hp : ∀ a, pr.sender = some a → a ∈ S) :
    pr.sender.getD ctx.this ∈ S := by
  cases h : pr.sender with
  | none => simpa using ht
  | some a => simpa using hp a h

theorem mkMessage_this_mem {S : List Addr} (sch : Scheme) (to fund : Nat) (pr : Prank) (ctx : Ctx) (ht : ctx.this ∈ S)
    (hto : to ∈ S) : (mkMessage sch to fund pr ctx).this ∈ S := by
  cases sch <;> simpa [mkMessage]

theorem afterSend_sum {S : List Addr} (hS : S.Nodup) (sch : Scheme) (to fund0 : Nat) (pr : Prank) (ctx : Ctx) (s : St)
    (hsender : pr.sender.getD ctx.this ∈ S) (hto : to ∈ S) (h : ¬ callInsufficient sch fund0 pr ctx s)
    (hlt : sumBal S s.w.balance < WORD) :
    sumBal S (afterSend sch to fund0 pr ctx s).w.balance = sumBal S s.w.balance := by
  unfold afterSend
  by_cases hc : sch = .call
  · subst hc
    simp only [sendValue]
    by_cases h0 : fundOf .call fund0 = 0
    · rw [h0, transferValue_zero]
    · apply transferValue_sum s.w hS hsender hto _ hlt
      unfold callInsufficient at h
      simp only [h0, ne_eq, not_false_eq_true, true_and, Nat.not_lt] at h
      exact h
  · rw [sendValue_noncall hc]

/-- conservation across one call instruction, given conservation for the callee from its start state -/
theorem callStep_sum {S : List Addr} (hS : S.Nodup) (run : Ctx → St → St × Outcome) (sch : Scheme) (to fund0 rs : Nat)
    (pr : Prank) (ctx : Ctx) (s : St) (hsender : pr.sender.getD ctx.this ∈ S) (hto : to ∈ S)
    (hlt : sumBal S s.w.balance < WORD)
    (hrun : ¬ callInsufficient sch fund0 pr ctx s → (s.w.code to).isSome →
      ¬ (mkMessage sch to (fundOf sch fund0) pr ctx).depth > MAX_CALL_DEPTH →
      sumBal S (run (mkMessage sch to (fundOf sch fund0) pr ctx) (afterSend sch to fund0 pr ctx s)).1.w.balance
        = sumBal S (afterSend sch to fund0 pr ctx s).w.balance) :
    sumBal S (callStep run sch to fund0 rs pr ctx s).1.w.balance = sumBal S s.w.balance := by
  by_cases h : callInsufficient sch fund0 pr ctx s
  · rw [callStep_insufficient run sch to fund0 rs pr ctx s h]
  · have hsend := afterSend_sum hS sch to fund0 pr ctx s hsender hto h hlt
    cases hc : s.w.code to with
    | none => rw [callStep_unknown run sch to fund0 rs pr ctx s h hc]; exact hsend
    | some c =>
      have hc' : (s.w.code to).isSome := by simp [hc]
      rw [callStep_known run sch to fund0 rs pr ctx s h hc', finishCall_w]
      split
      · by_cases hd : (mkMessage sch to (fundOf sch fund0) pr ctx).depth > MAX_CALL_DEPTH
        · rw [guarded_deep _ _ _ hd]; exact hsend
        · rw [guarded_ok _ _ _ hd, hrun h hc' hd]; exact hsend
      · rfl

theorem createStart_sum {S : List Addr} (hS : S.Nodup) (addr2 : Option Addr) (value : Nat) (pr : Prank) (ctx : Ctx) (s : St)
    (hsender : pr.sender.getD ctx.this ∈ S) (hnew : createAddr addr2 s ∈ S) (h : ¬ createInsufficient value pr ctx s)
    (hlt : sumBal S s.w.balance < WORD) :
    sumBal S (createStart addr2 value pr ctx s).w.balance = sumBal S s.w.balance := by
  unfold createStart
  by_cases h0 : value = 0
  · subst h0; simp only [transferValue_zero]; rfl
  · show sumBal S (transferValue (setupAccount s.w (createAddr addr2 s)) _ _ value).balance = _
    have : (setupAccount s.w (createAddr addr2 s)).balance = s.w.balance := rfl
    rw [transferValue_sum (setupAccount s.w (createAddr addr2 s)) hS hsender hnew _ (by rw [this]; exact hlt), this]
    unfold createInsufficient at h
    simp only [h0, ne_eq, not_false_eq_true, true_and, Nat.not_lt] at h
    rw [this]; exact h

theorem createStep_sum {S : List Addr} (hS : S.Nodup) (run : Ctx → St → St × Outcome) (addr2 : Option Addr) (value : Nat)
    (pr : Prank) (ctx : Ctx) (s : St) (hsender : pr.sender.getD ctx.this ∈ S)
    (hnew : ¬ createInsufficient value pr ctx s → ¬ (s.w.code (createAddr addr2 s)).isSome → createAddr addr2 s ∈ S)
    (hlt : sumBal S s.w.balance < WORD)
    (hrun : ¬ createInsufficient value pr ctx s → ¬ (s.w.code (createAddr addr2 s)).isSome →
      ¬ (mkCreateMessage (createAddr addr2 s) value pr ctx).depth > MAX_CALL_DEPTH →
      sumBal S (run (mkCreateMessage (createAddr addr2 s) value pr ctx) (createStart addr2 value pr ctx s)).1.w.balance
        = sumBal S (createStart addr2 value pr ctx s).w.balance) :
    sumBal S (createStep run addr2 value pr ctx s).1.w.balance = sumBal S s.w.balance := by
  by_cases h : createInsufficient value pr ctx s
  · rw [createStep_insufficient run addr2 value pr ctx s h, createBump_w]
  · by_cases hc : (s.w.code (createAddr addr2 s)).isSome
    · rw [createStep_collision run addr2 value pr ctx s h hc, createBump_w]
    · have hstart := createStart_sum hS addr2 value pr ctx s hsender (hnew h hc) h hlt
      rw [createStep_runs run addr2 value pr ctx s h hc, finishCreate_balance]
      split
      · by_cases hd : (mkCreateMessage (createAddr addr2 s) value pr ctx).depth > MAX_CALL_DEPTH
        · rw [guarded_deep _ _ _ hd]; exact hstart
        · rw [guarded_ok _ _ _ hd, hrun h hc hd]; exact hstart
      · rfl

theorem createStep_runs_cnt (run : Ctx → St → St × Outcome) (addr2 : Option Addr) (value : Nat) (pr : Prank) (ctx : Ctx)
    (s : St) (h : ¬ createInsufficient value pr ctx s) (hc : ¬ (s.w.code (createAddr addr2 s)).isSome)
    (hd : ¬ (mkCreateMessage (createAddr addr2 s) value pr ctx).depth > MAX_CALL_DEPTH) :
    (createStep run addr2 value pr ctx s).1.cnt
      = (run (mkCreateMessage (createAddr addr2 s) value pr ctx) (createStart addr2 value pr ctx s)).1.cnt := by
  rw [createStep_runs run addr2 value pr ctx s h hc, finishCreate_cnt, guarded_ok _ _ _ hd]

theorem Eff.apply_balance (e : Eff) (this : Addr) (w : W) : (e.apply this w).balance = w.balance := by
  cases e <;> rfl

theorem Eff.apply_code (e : Eff) (this : Addr) (w : W) : (e.apply this w).code = w.code := by
  cases e <;> rfl

/-- value conservation for every tree (structural induction; `S` must contain the addresses the allocator hands out
during this very run, which is expressed through the counter) -/
theorem runBody_sum {S : List Addr} (hS : S.Nodup) (f : Frame) : ∀ (ctx : Ctx) (s : St), ctx.this ∈ S → Closed S f →
    sumBal S s.w.balance < WORD →
    (∀ n, s.cnt < n → n ≤ (runBody f ctx s).1.cnt → newAddress n ∈ S) →
    sumBal S (runBody f ctx s).1.w.balance = sumBal S s.w.balance := by
  induction f with
  | done o => intros; rfl
  | read k ih =>
    intro ctx s ht hc hlt ha
    simp only [runBody] at ha ⊢
    exact ih _ _ ctx s ht (hc _ _) hlt ha
  | eff e rest ih =>
    intro ctx s ht hc hlt ha
    by_cases hst : ctx.isStatic = true
    · simp only [runBody, hst, if_true]
    · simp only [runBody, hst, Bool.false_eq_true, if_false] at ha ⊢
      have hb : (⟨e.apply ctx.this s.w, s.cnt⟩ : St).w.balance = s.w.balance := Eff.apply_balance e ctx.this s.w
      have := ih ctx ⟨e.apply ctx.this s.w, s.cnt⟩ ht hc (by rw [hb]; exact hlt) ha
      rw [this, hb]
  | call sch to fund rs pr callee k ihc ihk =>
    intro ctx s ht hc hlt ha
    obtain ⟨hto, hpr, hcc, hck⟩ := hc
    simp only [runBody] at ha ⊢
    have hsender := sender_mem ht hpr
    have hmono_k := runBody_cnt_le (k (callStep (runBody callee) sch to fund rs pr ctx s).2) ctx
      (callStep (runBody callee) sch to fund rs pr ctx s).1
    have hstep : sumBal S (callStep (runBody callee) sch to fund rs pr ctx s).1.w.balance = sumBal S s.w.balance := by
      apply callStep_sum hS _ sch to fund rs pr ctx s hsender hto hlt
      intro hins hcode hd
      have hsend := afterSend_sum hS sch to fund pr ctx s hsender hto hins hlt
      apply ihc _ _ (mkMessage_this_mem sch to _ pr ctx ht hto) hcc (by rw [hsend]; exact hlt)
      intro n h1 h2
      apply ha n h1
      rw [← callStep_known_cnt _ sch to fund rs pr ctx s hins hcode hd] at h2
      exact Nat.le_trans h2 hmono_k
    rw [ihk _ ctx _ ht (hck _) (by rw [hstep]; exact hlt) ?_, hstep]
    intro n h1 h2
    exact ha n (Nat.lt_of_le_of_lt (callStep_cnt_le _ sch to fund rs pr ctx s (runBody_cnt_le callee)) h1) h2
  | create a2 v pr init k ihi ihk =>
    intro ctx s ht hc hlt ha
    obtain ⟨ha2, hpr, hci, hck⟩ := hc
    by_cases hst : ctx.isStatic = true
    · simp only [runBody, hst, if_true]
    · simp only [runBody, hst, Bool.false_eq_true, if_false] at ha ⊢
      have hsender := sender_mem ht hpr
      have hmono_k := runBody_cnt_le (k (createStep (runBody init) a2 v pr ctx s).2) ctx
        (createStep (runBody init) a2 v pr ctx s).1
      have hbump := createStep_bump_le (runBody init) a2 v pr ctx s (runBody_cnt_le init)
      have hnew : createAddr a2 s ∈ S := by
        cases a2 with
        | some a => exact ha2 a rfl
        | none => exact ha (s.cnt + 1) (Nat.lt_succ_self _) (Nat.le_trans hbump hmono_k)
      have hstep : sumBal S (createStep (runBody init) a2 v pr ctx s).1.w.balance = sumBal S s.w.balance := by
        apply createStep_sum hS _ a2 v pr ctx s hsender (fun _ _ => hnew) hlt
        intro hins hcode hd
        have hstart := createStart_sum hS a2 v pr ctx s hsender hnew hins hlt
        apply ihi _ _ hnew hci (by rw [hstart]; exact hlt)
        intro n h1 h2
        have h1' : s.cnt < n := Nat.lt_of_le_of_lt (createBump_cnt_le a2 s) h1
        apply ha n h1'
        rw [← createStep_runs_cnt _ a2 v pr ctx s hins hcode hd] at h2
        exact Nat.le_trans h2 hmono_k
      rw [ihk _ ctx _ ht (hck _) (by rw [hstep]; exact hlt) ?_, hstep]
      intro n h1 h2
      exact ha n (Nat.lt_of_le_of_lt (createStep_cnt_le _ a2 v pr ctx s (runBody_cnt_le init)) h1) h2

/-! ### static frames -/

/-- code, storage and transient storage agree -/
def Same3 (a b : W) : Prop := a.code = b.code ∧ a.storage = b.storage ∧ a.transient = b.transient

theorem Same3.refl (a : W) : Same3 a a := ⟨rfl, rfl, rfl⟩

theorem Same3.trans {a b c : W} (h1 : Same3 a b) (h2 : Same3 b c) : Same3 a c :=
  ⟨h1.1.trans h2.1, h1.2.1.trans h2.2.1, h1.2.2.trans h2.2.2⟩

theorem afterSend_same3 (sch : Scheme) (to fund0 : Nat) (pr : Prank) (ctx : Ctx) (s : St) :
    Same3 (afterSend sch to fund0 pr ctx s).w s.w :=
  ⟨sendValue_code .., sendValue_storage .., sendValue_transient ..⟩

theorem mkMessage_static (sch : Scheme) (to fund : Nat) (pr : Prank) (ctx : Ctx) (h : ctx.isStatic = true) :
    (mkMessage sch to fund pr ctx).isStatic = true := by simp [mkMessage, h]

theorem mkMessage_staticcall (to fund : Nat) (pr : Prank) (ctx : Ctx) :
    (mkMessage .staticcall to fund pr ctx).isStatic = true := by simp [mkMessage]

/-- one call instruction leaves code / storage / transient storage alone if the callee does -/
theorem callStep_same3 (run : Ctx → St → St × Outcome) (sch : Scheme) (to fund0 rs : Nat) (pr : Prank) (ctx : Ctx) (s : St)
    (hrun : ∀ s1, Same3 (run (mkMessage sch to (fundOf sch fund0) pr ctx) s1).1.w s1.w) :
    Same3 (callStep run sch to fund0 rs pr ctx s).1.w s.w := by
  by_cases h : callInsufficient sch fund0 pr ctx s
  · rw [callStep_insufficient run sch to fund0 rs pr ctx s h]; exact Same3.refl _
  · cases hc : s.w.code to with
    | none => rw [callStep_unknown run sch to fund0 rs pr ctx s h hc]; exact afterSend_same3 ..
    | some c =>
      rw [callStep_known run sch to fund0 rs pr ctx s h (by simp [hc]), finishCall_w]
      split
      · refine Same3.trans ?_ (afterSend_same3 sch to fund0 pr ctx s)
        exact guarded_rel (fun a b => Same3 b.w a.w) run _ _ (Same3.refl _) (fun _ => hrun _)
      · exact Same3.refl _

/-- a frame running in a static context never changes code, storage or transient storage — for every tree -/
theorem runBody_static_same3 (f : Frame) : ∀ (ctx : Ctx) (s : St), ctx.isStatic = true → Same3 (runBody f ctx s).1.w s.w := by
  induction f with
  | done o => intros; exact Same3.refl _
  | read k ih => intro ctx s h; simp only [runBody]; exact ih _ _ ctx s h
  | eff e rest ih => intro ctx s h; simp only [runBody, h, if_true]; exact Same3.refl _
  | call sch to fund rs pr callee k ihc ihk =>
    intro ctx s h
    simp only [runBody]
    refine Same3.trans (ihk _ ctx _ h) ?_
    exact callStep_same3 _ sch to fund rs pr ctx s (fun s1 => ihc _ s1 (mkMessage_static sch to _ pr ctx h))
  | create a2 v pr init k ihi ihk => intro ctx s h; simp only [runBody, h, if_true]; exact Same3.refl _

/-- no CALL in the tree carries value -/
def NoValueCall : Frame → Prop
  | .done _ => True
  | .read k => ∀ c w, NoValueCall (k c w)
  | .eff _ rest => NoValueCall rest
  | .call sch _ fund _ _ callee k => (sch = .call → fund = 0) ∧ NoValueCall callee ∧ ∀ seen, NoValueCall (k seen)
  | .create _ _ _ init k => NoValueCall init ∧ ∀ seen, NoValueCall (k seen)

theorem afterSend_novalue (sch : Scheme) (to fund0 : Nat) (pr : Prank) (ctx : Ctx) (s : St) (h : sch = .call → fund0 = 0) :
    afterSend sch to fund0 pr ctx s = s := by
  unfold afterSend
  by_cases hc : sch = .call
  · subst hc; simp [h rfl, fundOf, sendValue, transferValue_zero]
  · rw [sendValue_noncall hc]

theorem callStep_balance (run : Ctx → St → St × Outcome) (sch : Scheme) (to fund0 rs : Nat) (pr : Prank) (ctx : Ctx) (s : St)
    (hnv : sch = .call → fund0 = 0)
    (hrun : ∀ s1, (run (mkMessage sch to (fundOf sch fund0) pr ctx) s1).1.w.balance = s1.w.balance) :
    (callStep run sch to fund0 rs pr ctx s).1.w.balance = s.w.balance := by
  by_cases h : callInsufficient sch fund0 pr ctx s
  · rw [callStep_insufficient run sch to fund0 rs pr ctx s h]
  · cases hc : s.w.code to with
    | none => rw [callStep_unknown run sch to fund0 rs pr ctx s h hc, afterSend_novalue _ _ _ _ _ _ hnv]
    | some c =>
      rw [callStep_known run sch to fund0 rs pr ctx s h (by simp [hc]), finishCall_w, afterSend_novalue _ _ _ _ _ _ hnv]
      split
      · exact guarded_rel (fun a b => b.w.balance = a.w.balance) run _ _ rfl (fun _ => hrun _)
      · rfl

/-- … and, when no CALL in the tree carries value, balances neither -/
theorem runBody_static_balance (f : Frame) : ∀ (ctx : Ctx) (s : St), ctx.isStatic = true → NoValueCall f →
    (runBody f ctx s).1.w.balance = s.w.balance := by
  induction f with
  | done o => intros; rfl
  | read k ih => intro ctx s h hn; simp only [runBody]; exact ih _ _ ctx s h (hn _ _)
  | eff e rest ih => intro ctx s h hn; simp only [runBody, h, if_true]
  | call sch to fund rs pr callee k ihc ihk =>
    intro ctx s h hn
    obtain ⟨hv, hnc, hnk⟩ := hn
    simp only [runBody]
    rw [ihk _ ctx _ h (hnk _)]
    exact callStep_balance _ sch to fund rs pr ctx s hv (fun s1 => ihc _ s1 (mkMessage_static sch to _ pr ctx h) hnc)
  | create a2 v pr init k ihi ihk => intro ctx s h hn; simp only [runBody, h, if_true]

/-! ### straight-line frames: the end state is the composition of the actions' contributions -/

/-- one action of a straight-line frame (its continuation does not look at what came back); callees are arbitrary trees -/
inductive Act where
  | eff (e : Eff)
  | call (sch : Scheme) (to fund retSize : Nat) (pr : Prank) (callee : Frame)
  | create (addr2 : Option Addr) (value : Nat) (pr : Prank) (init : Frame)

def ofScript : List Act → Outcome → Frame
  | [], o => .done o
  | .eff e :: r, o => .eff e (ofScript r o)
  | .call sch to fund rs pr callee :: r, o => .call sch to fund rs pr callee (fun _ => ofScript r o)
  | .create a2 v pr init :: r, o => .create a2 v pr init (fun _ => ofScript r o)

/-- what one action contributes to the state of its (non-static) frame, written without snapshots: a sub-frame that
fails contributes nothing (only the address counter keeps its advance), one that succeeds contributes its whole end
state, value transfer included -/
def Act.effect (ctx : Ctx) (s : St) : Act → St
  | .eff e => { s with w := e.apply ctx.this s.w }
  | .call sch to fund _ pr callee =>
    if callInsufficient sch fund pr ctx s then s
    else if (s.w.code to).isSome then
      let r := runFrame callee (mkMessage sch to (fundOf sch fund) pr ctx) (afterSend sch to fund pr ctx s)
      if r.2.isSuccess then r.1 else { w := s.w, cnt := r.1.cnt }
    else afterSend sch to fund pr ctx s
  | .create a2 v pr init =>
    if createInsufficient v pr ctx s ∨ (s.w.code (createAddr a2 s)).isSome then createBump a2 s
    else
      let r := runFrame init (mkCreateMessage (createAddr a2 s) v pr ctx) (createStart a2 v pr ctx s)
      match r.2 with
      | .ret code => { r.1 with w := { r.1.w with code := upd r.1.w.code (createAddr a2 s) (some code) } }
      | _ => { w := s.w, cnt := r.1.cnt }

theorem finishCall_st (orig : W) (rs : Nat) (r : St × Outcome) :
    (finishCall orig rs r).1 = if r.2.isSuccess then r.1 else { w := orig, cnt := r.1.cnt } := by
  unfold finishCall; split <;> simp [*, restore_eq]

theorem callStep_effect (callee : Frame) (sch : Scheme) (to fund rs : Nat) (pr : Prank) (ctx : Ctx) (s : St) :
    (callStep (runBody callee) sch to fund rs pr ctx s).1 = Act.effect ctx s (.call sch to fund rs pr callee) := by
  simp only [Act.effect]
  by_cases h : callInsufficient sch fund pr ctx s
  · rw [callStep_insufficient _ sch to fund rs pr ctx s h, if_pos h]
  · rw [if_neg h]
    cases hc : s.w.code to with
    | none => rw [callStep_unknown _ sch to fund rs pr ctx s h hc]; simp
    | some c =>
      rw [callStep_known _ sch to fund rs pr ctx s h (by simp [hc]), finishCall_st]
      simp only [Option.isSome_some, if_true, runFrame]
      split <;> simp [*]

theorem createStep_effect (init : Frame) (a2 : Option Addr) (v : Nat) (pr : Prank) (ctx : Ctx) (s : St) :
    (createStep (runBody init) a2 v pr ctx s).1 = Act.effect ctx s (.create a2 v pr init) := by
  simp only [Act.effect]
  by_cases h : createInsufficient v pr ctx s
  · rw [createStep_insufficient _ a2 v pr ctx s h, if_pos (Or.inl h)]
  · by_cases hc : (s.w.code (createAddr a2 s)).isSome
    · rw [createStep_collision _ a2 v pr ctx s h hc, if_pos (Or.inr hc)]
    · rw [createStep_runs _ a2 v pr ctx s h hc, if_neg (by simp [h, hc])]
      simp only [runFrame, finishCreate]
      split <;> simp_all [restore_eq]

theorem runBody_ofScript (acts : List Act) (o : Outcome) (ctx : Ctx) (hns : ctx.isStatic = false) : ∀ s : St,
    runBody (ofScript acts o) ctx s = (acts.foldl (fun s a => Act.effect ctx s a) s, o) := by
  induction acts with
  | nil => intro s; rfl
  | cons a r ih =>
    intro s
    cases a with
    | eff e => simp only [ofScript, runBody, hns, Bool.false_eq_true, if_false, List.foldl_cons, ih]; rfl
    | call sch to fund rs pr callee =>
      simp only [ofScript, runBody, List.foldl_cons, ih, callStep_effect]
    | create a2 v pr init =>
      simp only [ofScript, runBody, hns, Bool.false_eq_true, if_false, List.foldl_cons, ih, createStep_effect]

end HalmosVerif.Model.Calls
