/-
Lemmas.CallsExamples — the concrete scenery used by the non-vacuity examples and the reference-EVM agreement
theorems of Props/C09.lean (accounts, worlds, call trees, the probe callee, the two bytecode programs).
-/
import HalmosVerif.Lemmas.Calls
import HalmosVerif.Spec.Evm

namespace HalmosVerif.Props.C09
open HalmosVerif.Model.Calls

def A : Addr := 0x1000
def B : Addr := 0x2000
def C : Addr := 0x3000

/-- three accounts with code; `A` owns 10 wei -/
def w0 : W :=
  { code := fun a => if a = A ∨ a = B ∨ a = C then some [] else none
    storage := fun _ _ => 0
    transient := fun _ _ => 0
    balance := fun a => if a = A then 10 else 0 }

def s0 : St := { w := w0, cnt := 0 }

def ctxA : Ctx := { this := A, caller := 0xCAFE, origin := 0xCAFE, value := 0, codeAddr := A, isStatic := false, depth := 1 }

/-- innermost frame: writes, returns one byte -/
def inner : Frame := .eff (.sstore 1 9) (.eff (.tstore 4 4) (.done (.ret [0x2a])))

/-- middle frame: writes, calls `C` with 2 wei, then reverts or returns depending on `ok` -/
def middle (ok : Bool) : Frame :=
  .eff (.sstore 1 7) (.call .call C 2 32 {} inner fun seen =>
    .done (if ok then .ret [seen.flag, 0xaa] else .revert [seen.flag, 0xde]))

/-- outer frame: writes, calls `B` with 3 wei, records the flag it saw, returns flag and returndata -/
def outer (ok : Bool) : Frame :=
  .eff (.sstore 1 5) (.call .call B 3 1 {} (middle ok) fun seen =>
    .eff (.sstore 2 (seen.flag + 100)) (.done (.ret (seen.flag :: seen.returndata ++ seen.memCopy))))

/-- what the examples look at: storage slot 1 of A, B, C, slot 2 of A, transient slot 4 of C, the three balances -/
def observe (r : St × Outcome) : List Nat × Outcome :=
  ([r.1.w.storage A 1, r.1.w.storage B 1, r.1.w.storage C 1, r.1.w.storage A 2, r.1.w.transient C 4,
    r.1.w.balance A, r.1.w.balance B, r.1.w.balance C], r.2)

/-- a callee that reports the context it runs in -/
def probe : Frame := .read fun c _ => .done (.ret [c.this, c.caller, c.origin, c.value, c.codeAddr, if c.isStatic then 1 else 0, c.depth])

def report (c : Ctx) : Bytes := [c.this, c.caller, c.origin, c.value, c.codeAddr, if c.isStatic then 1 else 0, c.depth]

/-- the body of the callee at 0x2000 in the directed scenario "static-call-with-value" (tools/vlib/sevm_corpus.py):
`CALL(0x2222, value 1)`, then return the flag -/
def svcCallee : Frame := .call .call 0x2222 1 0 {} (.done (.ret [])) fun seen => .done (.ret [seen.flag])

def svcWorld : W :=
  { code := fun a => if a = 0x1000 ∨ a = 0x2000 then some [] else none
    storage := fun _ _ => 0, transient := fun _ _ => 0
    balance := fun a => if a = 0x2000 then 1 else 0 }

def svcStaticCtx : Ctx :=
  { this := 0x2000, caller := 0x1000, origin := 0xCAFE, value := 0, codeAddr := 0x2000, isStatic := true, depth := 2 }

/-- a tree that moves value through three levels and creates a contract with an endowment -/
def mover : Frame :=
  .call .call B 3 0 {} (.call .call C 2 0 {} (.done (.ret [])) fun _ => .done (.ret [])) fun _ =>
    .create none 4 {} (.done (.ret [0xfe])) fun _ => .done (.ret [])

open HalmosVerif.Spec in
/-- observations of a reference-EVM run: the listed storage cells, transient cells and balances, then success -/
def specObs (codes : List (Nat × List Nat)) (bal : List (Nat × Nat)) (cells tcells : List (Nat × Nat)) (addrs : List Nat) :
    Option (List Nat × Bool) :=
  let w : Evm.World := { code := codes, storage := [], transient := [], balance := bal }
  let f : Evm.Frame := { this := 0x1000, caller := 0xCAFE, value := 0, calldata := [], code := (w.codeOf 0x1000).getD [],
                         codeAddr := 0x1000, depth := 1 }
  (Evm.exec { origin := 0xCAFE } 200 w f).map fun r =>
    (cells.map (fun c => Evm.lookupD r.1.storage c) ++ tcells.map (fun c => Evm.lookupD r.1.transient c)
      ++ addrs.map r.1.balanceOf, r.2.isSuccess)

def modelObs (f : Frame) (code : Addr → Option Bytes) (bal : Addr → Nat) (cells tcells : List (Nat × Nat)) (addrs : List Nat) :
    List Nat × Bool :=
  let r := runFrame f { this := 0x1000, caller := 0xCAFE, origin := 0xCAFE, value := 0, codeAddr := 0x1000, isStatic := false, depth := 1 }
    ⟨{ code := code, storage := fun _ _ => 0, transient := fun _ _ => 0, balance := bal }, 0⟩
  (cells.map (fun c => r.1.w.storage c.1 c.2) ++ tcells.map (fun c => r.1.w.transient c.1 c.2) ++ addrs.map r.1.w.balance,
   r.2.isSuccess)

open HalmosVerif.Spec in
/-- the 32-byte word MLOAD reads at `ret_loc` after the copy into zeroed memory -/
def retWord (seen : Seen) : Nat := Evm.bytesToNat ((seen.memCopy ++ List.replicate 32 0).take 32)

/-- program 1: `SSTORE(1,5); CALL(0x2000, value 3, ret 0x40..0x60); SSTORE(2,flag); SSTORE(3,RETURNDATASIZE);
SSTORE(4,MLOAD(0x40))`; the callee does `SSTORE(1,9)` and reverts with its CALLVALUE as a word -/
def prog1 : List (Nat × List Nat) :=
  [(0x1000, [0x60, 0x5, 0x60, 0x1, 0x55, 0x60, 0x20, 0x60, 0x40, 0x5f, 0x5f, 0x60, 0x3, 0x61, 0x20, 0x0, 0x61, 0xff, 0xff, 0xf1,
             0x60, 0x2, 0x55, 0x3d, 0x60, 0x3, 0x55, 0x60, 0x40, 0x51, 0x60, 0x4, 0x55, 0x0]),
   (0x2000, [0x60, 0x9, 0x60, 0x1, 0x55, 0x34, 0x5f, 0x52, 0x60, 0x20, 0x5f, 0xfd])]

open HalmosVerif.Spec in
def tree1 : Frame :=
  .eff (.sstore 1 5) (.call .call 0x2000 3 0x20 {}
    (.eff (.sstore 1 9) (.read fun c _ => .done (.revert (Evm.natToBytes 32 c.value))))
    fun seen => .eff (.sstore 2 seen.flag) (.eff (.sstore 3 seen.returndata.length) (.eff (.sstore 4 (retWord seen)) (.done (.ret [])))))

/-- program 2: DELEGATECALL 0x2000 (stores CALLER in slot 7, returns the two bytes ab cd; ret_size 1), STATICCALL 0x3000
(whose code starts with SSTORE), CALL 0x3000 with 4 wei (`SSTORE(1,CALLVALUE); TSTORE(2,ADDRESS)`) -/
def prog2 : List (Nat × List Nat) :=
  [(0x1000, [0x60, 0x1, 0x60, 0x40, 0x5f, 0x5f, 0x61, 0x20, 0x0, 0x61, 0xff, 0xff, 0xf4, 0x60, 0x2, 0x55, 0x3d, 0x60, 0x3, 0x55,
             0x60, 0x40, 0x51, 0x60, 0x4, 0x55, 0x5f, 0x5f, 0x5f, 0x5f, 0x61, 0x30, 0x0, 0x61, 0xff, 0xff, 0xfa, 0x60, 0x5, 0x55,
             0x5f, 0x5f, 0x5f, 0x5f, 0x60, 0x4, 0x61, 0x30, 0x0, 0x61, 0xff, 0xff, 0xf1, 0x60, 0x6, 0x55, 0x0]),
   (0x2000, [0x33, 0x60, 0x7, 0x55, 0x61, 0xab, 0xcd, 0x5f, 0x52, 0x60, 0x2, 0x60, 0x1e, 0xf3]),
   (0x3000, [0x34, 0x60, 0x1, 0x55, 0x30, 0x60, 0x2, 0x5d, 0x0])]

def callee3 : Frame := .read fun c _ => .eff (.sstore 1 c.value) (.eff (.tstore 2 c.this) (.done (.ret [])))

def tree2 : Frame :=
  .call .delegatecall 0x2000 0 1 {} (.read fun c _ => .eff (.sstore 7 c.caller) (.done (.ret [0xab, 0xcd]))) fun s1 =>
    .eff (.sstore 2 s1.flag) (.eff (.sstore 3 s1.returndata.length) (.eff (.sstore 4 (retWord s1))
      (.call .staticcall 0x3000 0 0 {} callee3 fun s2 =>
        .eff (.sstore 5 s2.flag)
          (.call .call 0x3000 4 0 {} callee3 fun s3 => .eff (.sstore 6 s3.flag) (.done (.ret []))))))

end HalmosVerif.Props.C09
