/-
Lemmas.Config — helper lemmas for property C18 (precedence, solver-command rule, annotation scoping).
String/number round-trip lemmas are in Lemmas.ConfigStrings.
-/
import HalmosVerif.Lemmas.ConfigBridge

namespace HalmosVerif.Lemmas.Config
open HalmosVerif.Model.Config
open HalmosVerif.Spec.Precedence
open HalmosVerif.Bridge

variable {α : Type}

theorem rank_toOrigin (s : Source) : originRank (toOrigin s) = s.ord := by
  cases s <;> rfl

/-- rank of a layer for `name`, in model terms -/
theorem rankFor_toSetting (l : Layer α) (name : String) :
    (toSetting l).rankFor name = match l.get name with | some _ => l.source.ord | none => 0 := by
  unfold Setting.rankFor toSetting
  cases h : l.get name <;> cases hs : l.source <;> simp [toOrigin, Origin.rank, Source.ord, h]

/-- the layer the Spec selects, read as a model result -/
def pick (name : String) (c : Config α) (r : Nat) : Option α × Source :=
  match c.find? (fun l => (toSetting l).rankFor name = r) with
  | some l => (l.get name, l.source)
  | none => (none, Source.void)

def maxRankM (name : String) (c : Config α) : Nat := maxRank name (toSpec c)

theorem maxRankM_nil (name : String) : maxRankM name ([] : Config α) = 0 := rfl
theorem maxRankM_cons (name : String) (l : Layer α) (c : Config α) :
    maxRankM name (l :: c) = max ((toSetting l).rankFor name) (maxRankM name c) := by
  simp [maxRankM, maxRank, toSpec]

theorem pick_cons_ne (name : String) (l : Layer α) (c : Config α) (r : Nat)
    (h : (toSetting l).rankFor name ≠ r) : pick name (l :: c) r = pick name c r := by
  unfold pick
  rw [List.find?_cons]
  simp [h]

theorem pick_cons_eq (name : String) (l : Layer α) (c : Config α) (r : Nat)
    (h : (toSetting l).rankFor name = r) : pick name (l :: c) r = (l.get name, l.source) := by
  unfold pick
  rw [List.find?_cons]
  simp [h]

/-- the loop of `value_with_source`, started from any `best`, returns the Spec's choice when that beats `best` -/
theorem foldl_step (name : String) (c : Config α) :
    ∀ best : Option α × Source,
      c.foldl (step name) best =
        if maxRankM name c > best.2.ord then pick name c (maxRankM name c) else best := by
  induction c with
  | nil => intro best; simp [maxRankM_nil]
  | cons l c ih =>
    intro best
    rw [List.foldl_cons, ih, maxRankM_cons]
    have hr := rankFor_toSetting l name
    unfold step
    cases hg : l.get name with
    | none =>
      simp only [hg] at hr ⊢
      rw [hr]
      have hmax : max 0 (maxRankM name c) = maxRankM name c := by omega
      rw [hmax]
      by_cases hm : maxRankM name c > best.2.ord
      · rw [if_pos hm, if_pos hm, pick_cons_ne]
        rw [hr]; omega
      · rw [if_neg hm, if_neg hm]
    | some v =>
      simp only [hg] at hr ⊢
      rw [hr]
      by_cases ho : l.source.ord > best.2.ord
      · rw [if_pos ho]
        have h1 : max l.source.ord (maxRankM name c) > best.2.ord := by omega
        rw [if_pos h1]
        by_cases hm : maxRankM name c > l.source.ord
        · have h2 : max l.source.ord (maxRankM name c) = maxRankM name c := by omega
          rw [if_pos hm, h2, pick_cons_ne]
          rw [hr]; omega
        · have h2 : max l.source.ord (maxRankM name c) = l.source.ord := by omega
          rw [if_neg hm, h2, pick_cons_eq _ _ _ _ hr, hg]
      · rw [if_neg ho]
        by_cases hm : maxRankM name c > best.2.ord
        · have h1 : max l.source.ord (maxRankM name c) > best.2.ord := by omega
          have h2 : max l.source.ord (maxRankM name c) = maxRankM name c := by omega
          rw [if_pos hm, if_pos h1, h2, pick_cons_ne]
          rw [hr]; omega
        · have h1 : ¬ (max l.source.ord (maxRankM name c) > best.2.ord) := by omega
          rw [if_neg hm, if_neg h1]

theorem valueWithSource_eq (name : String) (c : Config α) :
    valueWithSource name c = if maxRankM name c > 0 then pick name c (maxRankM name c) else (none, Source.void) := by
  unfold valueWithSource
  rw [foldl_step]
  rfl

/-- Model = Spec -/
theorem toSpecResult_valueWithSource (name : String) (c : Config α) :
    toSpecResult (valueWithSource name c) = effective name (toSpec c) := by
  rw [valueWithSource_eq]
  unfold effective
  have hM : maxRank name (toSpec c) = maxRankM name c := rfl
  simp only [hM]
  by_cases h0 : maxRankM name c = 0
  · simp [h0, toSpecResult, toOrigin]
  · have hpos : maxRankM name c > 0 := by omega
    rw [if_pos hpos, if_neg h0]
    have hfind : (toSpec c).find? (fun s => decide (s.rankFor name = maxRankM name c))
        = (c.find? (fun l => decide ((toSetting l).rankFor name = maxRankM name c))).map toSetting := by
      unfold toSpec
      rw [List.find?_map]
      rfl
    rw [hfind]
    unfold pick
    cases hf : c.find? (fun l => decide ((toSetting l).rankFor name = maxRankM name c)) with
    | none => simp [toSpecResult, toOrigin]
    | some l => simp [toSpecResult, toSetting]

/-- a value is never reported with source `void` -/
theorem source_pos_of_value (name : String) (c : Config α) (v : α)
    (h : (valueWithSource name c).1 = some v) : (valueWithSource name c).2.ord ≠ 0 := by
  rw [valueWithSource_eq] at h ⊢
  by_cases hpos : maxRankM name c > 0
  · simp only [hpos, if_true] at h ⊢
    unfold pick at h ⊢
    cases hf : List.find? (fun l => decide ((toSetting l).rankFor name = maxRankM name c)) c with
    | none => simp [hf] at h
    | some l =>
      simp only [hf] at h ⊢
      have hp := List.find?_some hf
      simp only [decide_eq_true_eq] at hp
      rw [rankFor_toSetting] at hp
      have h' : l.get name = some v := h
      rw [h'] at hp
      show l.source.ord ≠ 0
      simp only [] at hp
      omega
  · simp [hpos] at h

/-! ### facts about the Spec's choice (what "argmax, newest first" means) -/

theorem le_maxRank (name : String) (stack : List (Setting α)) (s : Setting α) (hs : s ∈ stack) :
    s.rankFor name ≤ maxRank name stack := by
  induction stack with
  | nil => cases hs
  | cons a rest ih =>
    simp only [maxRank, List.map_cons, List.foldr_cons] at ih ⊢
    cases hs with
    | head => omega
    | tail _ h => have := ih h; omega

theorem maxRank_cons (name : String) (a : Setting α) (rest : List (Setting α)) :
    maxRank name (a :: rest) = max (a.rankFor name) (maxRank name rest) := by
  simp [maxRank]

theorem exists_attains (name : String) (stack : List (Setting α)) (hpos : maxRank name stack ≠ 0) :
    ∃ s ∈ stack, s.rankFor name = maxRank name stack := by
  induction stack with
  | nil => exact absurd rfl hpos
  | cons a rest ih =>
    rw [maxRank_cons] at hpos ⊢
    by_cases h : maxRank name rest ≤ a.rankFor name
    · exact ⟨a, List.mem_cons_self .., by omega⟩
    · obtain ⟨s, hs, hr⟩ := ih (by omega)
      exact ⟨s, List.mem_cons_of_mem _ hs, by omega⟩

/-- the Spec's choice, spelled out: the chosen setting counts, nothing ranks higher, nothing newer ranks as high -/
theorem effective_some (name : String) (stack : List (Setting α)) (v : Option α) (o : Option Origin)
    (hpos : maxRank name stack ≠ 0) (h : effective name stack = (v, o)) :
    ∃ newer s older, stack = newer ++ s :: older ∧ s.value name = v ∧ s.origin = o ∧
      s.rankFor name = maxRank name stack ∧
      (∀ t ∈ stack, t.rankFor name ≤ s.rankFor name) ∧
      (∀ t ∈ newer, t.rankFor name < s.rankFor name) := by
  unfold effective at h
  simp only [hpos, if_false] at h
  cases hf : stack.find? (fun s => decide (s.rankFor name = maxRank name stack)) with
  | none =>
    -- impossible: some setting attains the maximum
    exfalso
    have hall := List.find?_eq_none.mp hf
    obtain ⟨s, hs, hr⟩ := exists_attains name stack hpos
    have := hall s hs
    simp [hr] at this
  | some s =>
    rw [hf] at h
    simp only [Prod.mk.injEq] at h
    obtain ⟨newer, older, hsplit, hnewer⟩ := (List.find?_eq_some_iff_append.mp hf).2
    have hs : s.rankFor name = maxRank name stack := by
      have := (List.find?_eq_some_iff_append.mp hf).1
      simpa using this
    refine ⟨newer, s, older, hsplit, h.1, h.2, hs, ?_, ?_⟩
    · intro t ht; rw [hs]; exact le_maxRank name stack t ht
    · intro t ht
      have hne := hnewer t ht
      have hle := le_maxRank name stack t (by rw [hsplit]; exact List.mem_append_left _ ht)
      simp only [Bool.not_eq_true', decide_eq_false_iff_not] at hne
      omega

/-! ### `with_overrides`, annotations -/

theorem withOverrides_ok {c cfg : Config α} {src : Source} {ov : List (String × Option α)} {lab : Label}
    (h : withOverrides c src ov lab = .ok cfg) : cfg = ⟨src, ov, lab⟩ :: c := by
  unfold withOverrides at h
  split at h
  · injection h with h; exact h.symm
  · cases h

theorem withDevdocG_ok (parse : Str → Except Err (List (String × Option α))) {args cfg : Config α} {lab : Label}
    {dd : Option Str} (h : withDevdocG parse args lab dd = .ok cfg) :
    (cfg = args ∧ (dd = none ∨ dd = some [])) ∨
    (∃ t ov, dd = some t ∧ t ≠ [] ∧ parse t = .ok ov ∧ cfg = ⟨.functionAnnotation, ov, lab⟩ :: args) := by
  unfold withDevdocG at h
  cases dd with
  | none => left; injection h with h; exact ⟨h.symm, Or.inl rfl⟩
  | some t =>
    simp only at h
    cases t with
    | nil => left; simp at h; exact ⟨h.symm, Or.inr rfl⟩
    | cons a t' =>
      right
      simp only [List.isEmpty_cons, Bool.false_eq_true, if_false] at h
      cases hp : parse (a :: t') with
      | error e => rw [hp] at h; cases h
      | ok ov =>
        rw [hp] at h
        exact ⟨a :: t', ov, rfl, by simp, hp, withOverrides_ok h⟩

theorem withNatspecG_ok (parse : Str → Except Err (List (String × Option α))) {args cfg : Config α} {lab : Label}
    {ns : Option Str} (h : withNatspecG parse args lab ns = .ok cfg) :
    (cfg = args ∧ (ns = none ∨ ∃ t, ns = some t ∧ parseNatspec t = [])) ∨
    (∃ t ov, ns = some t ∧ parseNatspec t ≠ [] ∧ parse (parseNatspec t) = .ok ov ∧
      cfg = ⟨.contractAnnotation, ov, lab⟩ :: args) := by
  unfold withNatspecG at h
  cases ns with
  | none => left; injection h with h; exact ⟨h.symm, Or.inl rfl⟩
  | some t =>
    simp only at h
    cases hn : parseNatspec t with
    | nil => left; rw [hn] at h; simp at h; exact ⟨h.symm, Or.inr ⟨t, rfl, hn⟩⟩
    | cons a t' =>
      right
      rw [hn] at h
      simp only [List.isEmpty_cons, Bool.false_eq_true, if_false] at h
      cases hp : parse (a :: t') with
      | error e => rw [hp] at h; cases h
      | ok ov =>
        rw [hp] at h
        exact ⟨t, ov, rfl, by simp [hn], by rw [hn]; exact hp, withOverrides_ok h⟩

end HalmosVerif.Lemmas.Config
