/-
Lemmas.ConfigBridge — how a Model stack of layers is read as a Spec stack of settings (used by the theorems of C18 and
by the driver's `spec` requests).  `void` is not an origin: "no source, before defaults are applied".
-/
import HalmosVerif.Model.Config
import HalmosVerif.Spec.Precedence

namespace HalmosVerif.Bridge
open HalmosVerif.Model.Config
open HalmosVerif.Spec.Precedence

def toOrigin : Source → Option Origin
  | .void => none
  | .default => some .default
  | .configFile => some .configFile
  | .contractAnnotation => some .contractAnnotation
  | .functionAnnotation => some .functionAnnotation
  | .commandLine => some .commandLine

def toSetting {α} (l : Layer α) : Setting α := ⟨toOrigin l.source, l.get⟩

def toSpec {α} (c : Config α) : List (Setting α) := c.map toSetting

/-- the source reported by `value_with_source`, read as a Spec origin -/
def toSpecResult {α} (r : Option α × Source) : Option α × Option Origin := (r.1, toOrigin r.2)

end HalmosVerif.Bridge
