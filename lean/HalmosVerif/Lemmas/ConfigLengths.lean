/-
Lemmas.ConfigLengths — `ParseArrayLengths` on the strings its `unparse` produces (property C18).
-/
import HalmosVerif.Lemmas.ConfigTime

namespace HalmosVerif.Lemmas.ConfigLengths
open HalmosVerif.Model.Config
open HalmosVerif.Lemmas.ConfigStrings
open HalmosVerif.Lemmas.ConfigTime

/-- a name `parse` can produce: non-empty, without `= , { }` and without white space -/
def GoodKey (k : Str) : Prop := k ≠ [] ∧ ∀ c ∈ k, isNameChar c = true ∧ isSpace c = false
/-- a size list `parse` can produce: non-empty, natural numbers -/
def GoodSizes (vs : List Int) : Prop := vs ≠ [] ∧ ∀ v ∈ vs, 0 ≤ v

def body (vs : List Int) : Str := join [','] (vs.map showInt)
def item (kv : Str × List Int) : Str := kv.1 ++ '=' :: '{' :: body kv.2 ++ ['}']

theorem unparse_eq (d : List (Str × List Int)) : unparseArrayLengths d = join [','] (d.map item) := rfl

theorem showInt_nonneg_chars (v : Int) (h : 0 ≤ v) : ∀ c ∈ showInt v, isDigit c = true ∧ isSpace c = false ∧ c ≠ ',' := by
  cases v with
  | negSucc n => exact absurd h (by omega)
  | ofNat n =>
    intro c hc
    obtain ⟨d, hd, rfl⟩ := showNat_chars n c hc
    exact ⟨(digitChar_more ⟨d, hd⟩).1, (digitChar_facts ⟨d, hd⟩).2.1, (digitChar_facts ⟨d, hd⟩).2.2.1⟩

theorem join_ne_nil (sep : Str) (p : Str) (ps : List Str) (hp : p ≠ []) : join sep (p :: ps) ≠ [] := by
  cases ps with
  | nil => simpa [join] using hp
  | cons q r => simp [join, hp]

theorem body_facts (vs : List Int) (h : GoodSizes vs) :
    body vs ≠ [] ∧ (∀ c ∈ body vs, isSizesChar c = true ∧ isSpace c = false) := by
  obtain ⟨hne, hnn⟩ := h
  constructor
  · obtain ⟨v, t, rfl⟩ := List.exists_cons_of_ne_nil hne
    exact join_ne_nil _ _ _ (showInt_ne_nil v)
  · intro c hc
    rcases join_chars _ _ c hc with h | ⟨p, hp, hcp⟩
    · simp only [List.mem_singleton] at h; rw [h]; exact ⟨by decide, by decide⟩
    · obtain ⟨v, hv, rfl⟩ := List.mem_map.mp hp
      have := showInt_nonneg_chars v (hnn v hv) c hcp
      exact ⟨by simp [isSizesChar, this.1], this.2.1⟩

theorem parseItem_item (k : Str) (vs : List Int) (hk : GoodKey k) (hv : GoodSizes vs) (rest : Str) :
    parseItem (item (k, vs) ++ rest) = some (k, body vs, rest) := by
  obtain ⟨hb1, hb2⟩ := body_facts vs hv
  have e : item (k, vs) ++ rest = k ++ ('=' :: '{' :: (body vs ++ '}' :: rest)) := by simp [item]
  rw [e]
  have h1 := takeWhile_append_stop (p := isNameChar) k ('=' :: '{' :: (body vs ++ '}' :: rest)) (fun c hc => (hk.2 c hc).1)
    (Or.inr ⟨'=', _, rfl, by decide⟩)
  have h2 := takeWhile_append_stop (p := isSizesChar) (body vs) ('}' :: rest) (fun c hc => (hb2 c hc).1)
    (Or.inr ⟨'}', _, rfl, by decide⟩)
  unfold parseItem
  simp only [h1.1, h1.2, h2.1, h2.2]
  have hk' : k.isEmpty = false := by cases k with | nil => exact absurd rfl hk.1 | cons _ _ => rfl
  have hb' : (body vs).isEmpty = false := by cases hb : body vs with | nil => exact absurd hb hb1 | cons _ _ => rfl
  simp [hk', hb']

theorem item_cons (k : Str) (vs : List Int) (hk : GoodKey k) : ∃ c cs, item (k, vs) = c :: cs := by
  obtain ⟨c, cs, rfl⟩ := List.exists_cons_of_ne_nil hk.1
  exact ⟨c, _, rfl⟩

theorem parseItems_join (d : List (Str × List Int)) (h : ∀ kv ∈ d, GoodKey kv.1 ∧ GoodSizes kv.2) :
    ∀ fuel, d.length ≤ fuel → parseItems fuel (join [','] (d.map item)) = some (d.map (fun kv => (kv.1, body kv.2))) := by
  induction d with
  | nil => intro fuel _; cases fuel <;> rfl
  | cons kv rest ih =>
    intro fuel hf
    obtain ⟨f, rfl⟩ : ∃ f, fuel = f + 1 := ⟨fuel - 1, by simp at hf; omega⟩
    have hkv := h kv (List.mem_cons_self ..)
    obtain ⟨k, vs⟩ := kv
    cases rest with
    | nil =>
      simp only [List.map_cons, List.map_nil, join]
      obtain ⟨c, cs, hc⟩ := item_cons k vs hkv.1
      have hp := parseItem_item k vs hkv.1 hkv.2 []
      rw [List.append_nil] at hp
      rw [hc] at hp ⊢
      simp only [parseItems, hp]
    | cons kv2 rest' =>
      simp only [List.map_cons, join]
      have ih' := ih (fun x hx => h x (List.mem_cons_of_mem _ hx)) f (by simp at hf ⊢; omega)
      simp only [List.map_cons] at ih'
      obtain ⟨c, cs, hc⟩ := item_cons k vs hkv.1
      have hp := parseItem_item k vs hkv.1 hkv.2 (',' :: join [','] (item kv2 :: rest'.map item))
      have e : item (k, vs) ++ [','] ++ join [','] (item kv2 :: List.map item rest') =
          item (k, vs) ++ ',' :: join [','] (item kv2 :: List.map item rest') := by simp
      rw [e]
      rw [hc] at hp ⊢
      simp only [List.cons_append] at hp ⊢
      simp only [parseItems, hp, ih', Option.map_some]

theorem dictInsert_fresh {β : Type} (acc : List (Str × β)) (k : Str) (v : β) (h : ∀ kv ∈ acc, kv.1 ≠ k) :
    dictInsert acc k v = acc ++ [(k, v)] := by
  unfold dictInsert
  have : acc.any (fun kv => decide (kv.1 = k)) = false := by
    rw [List.any_eq_false]
    intro kv hkv
    simpa using h kv hkv
  rw [this]; rfl

theorem buildDict_ok (d : List (Str × List Int)) (h : ∀ kv ∈ d, GoodKey kv.1 ∧ GoodSizes kv.2)
    (hd : (d.map (·.1)).Nodup) :
    ∀ acc : List (Str × List Int), (∀ a ∈ acc, ∀ kv ∈ d, a.1 ≠ kv.1) →
      buildDict (d.map (fun kv => (kv.1, body kv.2))) acc = .ok (acc ++ d) := by
  induction d with
  | nil => intro acc _; simp [buildDict]
  | cons kv rest ih =>
    intro acc hacc
    obtain ⟨k, vs⟩ := kv
    have hkv := h (k, vs) (List.mem_cons_self ..)
    simp only [List.map_cons, List.nodup_cons] at hd
    simp only [List.map_cons, buildDict]
    have hcsv : parseCsv (body vs) = vs.map showInt := by
      apply parseCsv_join
      intro p hp
      obtain ⟨v, hv, rfl⟩ := List.mem_map.mp hp
      exact ⟨showInt_ne_nil v, fun c hc => (showInt_nonneg_chars v (hkv.2.2 v hv) c hc).2⟩
    rw [hcsv, mapM?_map pyInt10 showInt vs (fun v _ => pyInt10_showInt v)]
    have hvs : vs.isEmpty = false := by cases vs with | nil => exact absurd rfl hkv.2.1 | cons _ _ => rfl
    simp only [hvs, Bool.false_eq_true, if_false]
    rw [strip_id k (fun c hc => (hkv.1.2 c hc).2)]
    rw [dictInsert_fresh acc k vs (fun a ha => hacc a ha (k, vs) (List.mem_cons_self ..))]
    rw [ih (fun x hx => h x (List.mem_cons_of_mem _ hx)) hd.2]
    · simp
    · intro a ha kv hkv'
      rcases List.mem_append.mp ha with ha | ha
      · exact hacc a ha kv (List.mem_cons_of_mem _ hkv')
      · simp only [List.mem_singleton] at ha
        rw [ha]
        intro e
        exact hd.1 (List.mem_map.mpr ⟨kv, hkv', e.symm⟩)

theorem item_chars (k : Str) (vs : List Int) (hk : GoodKey k) (hv : GoodSizes vs) : ∀ c ∈ item (k, vs), isSpace c = false := by
  intro c hc
  simp only [item, List.mem_append, List.mem_cons] at hc
  rcases hc with (hc | rfl | rfl | hc) | hc
  · exact (hk.2 c hc).2
  · decide
  · decide
  · exact ((body_facts vs hv).2 c hc).2
  · simp only [List.mem_nil_iff, or_false] at hc; rw [hc]; decide

theorem lengths_roundtrip (d : List (Str × List Int)) (h : ∀ kv ∈ d, GoodKey kv.1 ∧ GoodSizes kv.2)
    (hd : (d.map (·.1)).Nodup) : parseArrayLengths (unparseArrayLengths d) = .ok d := by
  rw [unparse_eq]
  unfold parseArrayLengths
  cases hd0 : d with
  | nil => rfl
  | cons kv rest =>
    rw [← hd0]
    have hne : (join [','] (d.map item)).isEmpty = false := by
      rw [hd0]
      obtain ⟨c, cs, hc⟩ := item_cons kv.1 kv.2 (h kv (by rw [hd0]; exact List.mem_cons_self ..)).1
      have : join [','] (List.map item (kv :: rest)) ≠ [] := by
        simp only [List.map_cons]
        exact join_ne_nil _ _ _ (by rw [show item kv = item (kv.1, kv.2) from rfl, hc]; simp)
      cases hj : join [','] (List.map item (kv :: rest)) with
      | nil => exact absurd hj this
      | cons _ _ => rfl
    rw [hne]
    simp only [Bool.false_eq_true, if_false]
    have hfilt : (join [','] (d.map item)).filter (fun c => !isSpace c) = join [','] (d.map item) := by
      apply List.filter_eq_self.mpr
      intro c hc
      rcases join_chars _ _ c hc with h1 | ⟨p, hp, hcp⟩
      · simp only [List.mem_singleton] at h1; rw [h1]; decide
      · obtain ⟨x, hx, rfl⟩ := List.mem_map.mp hp
        have := item_chars x.1 x.2 (h x hx).1 (h x hx).2 c hcp
        simp [this]
    rw [hfilt]
    have hlen : d.length ≤ (join [','] (d.map item)).length + 1 := by
      have : ∀ l : List (Str × List Int), (∀ kv ∈ l, GoodKey kv.1) → l.length ≤ (join [','] (l.map item)).length + 1 := by
        intro l
        induction l with
        | nil => intro _; simp
        | cons a t iht =>
          intro hl
          have := iht (fun x hx => hl x (List.mem_cons_of_mem _ hx))
          cases t with
          | nil => simp [join]
          | cons b t' =>
            simp only [List.map_cons, join, List.length_append, List.length_cons, List.length_nil] at this ⊢
            omega
      exact this d (fun kv hkv => (h kv hkv).1)
    rw [parseItems_join d h _ hlen]
    simp only []
    have := buildDict_ok d h hd [] (fun a ha => by cases ha)
    simpa using this

end HalmosVerif.Lemmas.ConfigLengths
