/-
Lemmas.ConfigStrings — number/string round-trip lemmas for property C18.
-/
import HalmosVerif.Model.Config

namespace HalmosVerif.Lemmas.ConfigStrings
open HalmosVerif.Model.Config

/-! ### digit characters -/

theorem digitChar_facts : ∀ d : Fin 10,
    digitVal (digitChar d.val) = some d.val ∧ isSpace (digitChar d.val) = false ∧ digitChar d.val ≠ ',' ∧
    digitChar d.val ≠ '_' ∧ digitChar d.val ≠ '-' ∧ digitChar d.val ≠ '+' ∧ digitChar d.val ≠ '*' ∧
    digitChar d.val ≠ '.' ∧ isNameChar (digitChar d.val) = true := by decide

theorem hexChar_facts : ∀ d : Fin 16,
    litDigit (hexChar d.val) = some d.val ∧ isSpace (hexChar d.val) = false ∧ hexChar d.val ≠ ',' ∧
    hexChar d.val ≠ '_' := by decide

theorem digitVal_digitChar {d : Nat} (h : d < 10) : digitVal (digitChar d) = some d := (digitChar_facts ⟨d, h⟩).1
theorem litDigit_digitChar {d : Nat} (h : d < 10) : litDigit (digitChar d) = some d := by
  unfold litDigit; rw [digitVal_digitChar h]
theorem litDigit_hexChar {d : Nat} (h : d < 16) : litDigit (hexChar d) = some d := (hexChar_facts ⟨d, h⟩).1

/-! ### `digits` -/

theorem digits_ne_nil (b n : Nat) : digits b n ≠ [] := by
  fun_induction digits b n <;> simp

theorem digits_lt (b n : Nat) : ∀ d ∈ digits b n, d < b + 2 := by
  fun_induction digits b n with
  | case1 n h => intro d hd; simp at hd; omega
  | case2 n h ih =>
    intro d hd
    simp only [List.mem_append, List.mem_singleton] at hd
    rcases hd with hd | hd
    · exact ih d hd
    · rw [hd]; exact Nat.mod_lt _ (by omega)

/-- reading the digits of `n` after `acc` -/
def shiftIn (b acc : Nat) (ds : List Nat) : Nat := ds.foldl (fun a d => a * (b + 2) + d) acc

theorem shiftIn_digits (b n : Nat) : shiftIn b 0 (digits b n) = n := by
  fun_induction digits b n with
  | case1 n h => simp [shiftIn]
  | case2 n h ih =>
    unfold shiftIn at ih ⊢
    rw [List.foldl_append, ih]
    simp only [List.foldl_cons, List.foldl_nil]
    have := Nat.div_add_mod n (b + 2)
    rw [Nat.mul_comm]; exact this

/-- `readDigits` consumes a run of plain digits -/
theorem readDigits_map (b : Nat) (ch : Nat → Char) (hlit : ∀ d, d < b + 2 → litDigit (ch d) = some d)
    (hus : ∀ d, d < b + 2 → ch d ≠ '_') :
    ∀ (ds : List Nat), (∀ d ∈ ds, d < b + 2) → ∀ (rest : Str) (acc : Nat) (prev : Bool),
      readDigits (b + 2) (ds.map ch ++ rest) acc prev =
        readDigits (b + 2) rest (shiftIn b acc ds) (if ds.isEmpty then prev else true) := by
  intro ds
  induction ds with
  | nil => intro _ rest acc prev; simp [shiftIn]
  | cons d ds ih =>
    intro hds rest acc prev
    have hd := hds d (List.mem_cons_self ..)
    simp only [List.map_cons, List.cons_append]
    rw [readDigits]
    simp only [hus d hd, if_false, hlit d hd, hd, if_true]
    rw [ih (fun x hx => hds x (List.mem_cons_of_mem _ hx))]
    simp only [shiftIn, List.foldl_cons, List.isEmpty_cons]
    cases ds <;> simp

theorem readDigits_showNat (n : Nat) : readDigits 10 (showNat n) 0 false = some n := by
  have := readDigits_map 8 digitChar (fun d h => litDigit_digitChar h) (fun d h => (digitChar_facts ⟨d, h⟩).2.2.2.1)
    (digits 8 n) (digits_lt 8 n) [] 0 false
  simp only [List.append_nil] at this
  unfold showNat
  rw [this, shiftIn_digits]
  have hne := digits_ne_nil 8 n
  cases h : digits 8 n with
  | nil => exact absurd h hne
  | cons a t => simp [readDigits]

theorem showNat_chars (n : Nat) : ∀ c ∈ showNat n, ∃ d, d < 10 ∧ c = digitChar d := by
  intro c hc
  unfold showNat at hc
  obtain ⟨d, hd, rfl⟩ := List.mem_map.mp hc
  exact ⟨d, digits_lt 8 n d hd, rfl⟩

theorem showNat_ne_nil (n : Nat) : showNat n ≠ [] := by
  unfold showNat
  simp [digits_ne_nil]

/-! ### `showInt` / `int()` -/

theorem splitSign_plain (c : Char) (cs : Str) (h1 : c ≠ '-') (h2 : c ≠ '+') : splitSign (c :: cs) = (false, c :: cs) := by
  unfold splitSign
  split
  · rename_i heq; injection heq with h _; exact absurd h h1
  · rename_i heq; injection heq with h _; exact absurd h h2
  · rfl

theorem pyInt10_showNat (n : Nat) : pyInt10 (showNat n) = some (n : Int) := by
  unfold pyInt10
  cases h : showNat n with
  | nil => exact absurd h (showNat_ne_nil n)
  | cons c cs =>
    obtain ⟨d, hd, hc⟩ := showNat_chars n c (by rw [h]; exact List.mem_cons_self ..)
    have f := digitChar_facts ⟨d, hd⟩
    rw [splitSign_plain c cs (by rw [hc]; exact f.2.2.2.2.1) (by rw [hc]; exact f.2.2.2.2.2.1)]
    simp only []
    rw [← h, readDigits_showNat]
    simp [applySign]

theorem pyInt10_showInt (i : Int) : pyInt10 (showInt i) = some i := by
  cases i with
  | ofNat n => exact pyInt10_showNat n
  | negSucc n =>
    unfold showInt pyInt10 splitSign
    simp only []
    rw [readDigits_showNat]
    simp only [Option.map_some, applySign, if_true]
    congr 1

theorem showInt_chars (i : Int) : ∀ c ∈ showInt i, isSpace c = false ∧ c ≠ ',' := by
  intro c hc
  have hn : ∀ n, ∀ c ∈ showNat n, isSpace c = false ∧ c ≠ ',' := by
    intro n c hc
    obtain ⟨d, hd, rfl⟩ := showNat_chars n c hc
    have f := digitChar_facts ⟨d, hd⟩
    exact ⟨f.2.1, f.2.2.1⟩
  cases i with
  | ofNat n => exact hn n c hc
  | negSucc n =>
    unfold showInt at hc
    simp only [List.mem_cons] at hc
    rcases hc with rfl | hc
    · exact ⟨by decide, by decide⟩
    · exact hn _ c hc

theorem showInt_ne_nil (i : Int) : showInt i ≠ [] := by
  cases i with
  | ofNat n => exact showNat_ne_nil n
  | negSucc n => simp [showInt]

/-! ### `split` / `join` / `strip` / `parse_csv` -/

theorem splitOn_ne_nil (sep : Char) (s : Str) : splitOn sep s ≠ [] := by
  induction s with
  | nil => simp [splitOn]
  | cons c cs ih =>
    unfold splitOn
    split
    · simp
    · cases h : splitOn sep cs <;> simp

theorem splitOn_no_sep (sep : Char) (p : Str) (h : sep ∉ p) : splitOn sep p = [p] := by
  induction p with
  | nil => rfl
  | cons c cs ih =>
    have hc : c ≠ sep := fun e => h (by rw [e]; exact List.mem_cons_self ..)
    have hcs : sep ∉ cs := fun m => h (List.mem_cons_of_mem _ m)
    unfold splitOn
    rw [if_neg hc, ih hcs]

theorem splitOn_append (sep : Char) (p rest : Str) (h : sep ∉ p) :
    splitOn sep (p ++ sep :: rest) = p :: splitOn sep rest := by
  induction p with
  | nil => simp [splitOn]
  | cons c cs ih =>
    have hc : c ≠ sep := fun e => h (by rw [e]; exact List.mem_cons_self ..)
    have hcs : sep ∉ cs := fun m => h (List.mem_cons_of_mem _ m)
    simp only [List.cons_append]
    rw [splitOn, if_neg hc, ih hcs]

theorem splitOn_join (sep : Char) (ps : List Str) (hne : ps ≠ []) (h : ∀ p ∈ ps, sep ∉ p) :
    splitOn sep (join [sep] ps) = ps := by
  induction ps with
  | nil => exact absurd rfl hne
  | cons p rest ih =>
    cases rest with
    | nil => simp only [join]; exact splitOn_no_sep sep p (h p (List.mem_cons_self ..))
    | cons q rest' =>
      simp only [join]
      rw [List.append_assoc, List.singleton_append, splitOn_append sep p _ (h p (List.mem_cons_self ..))]
      rw [ih (by simp) (fun x hx => h x (List.mem_cons_of_mem _ hx))]

theorem dropWhile_none (p : Char → Bool) (s : Str) (h : ∀ c ∈ s, p c = false) : s.dropWhile p = s := by
  cases s with
  | nil => rfl
  | cons c cs => simp [List.dropWhile, h c (List.mem_cons_self ..)]

theorem strip_id (s : Str) (h : ∀ c ∈ s, isSpace c = false) : strip s = s := by
  unfold strip
  rw [dropWhile_none isSpace s h, dropWhile_none isSpace s.reverse (fun c hc => h c (List.mem_reverse.mp hc))]
  simp

/-- a list of clean tokens (non-empty, no separator, no white space) survives `join` then `parse_csv` -/
theorem parseCsv_join (ps : List Str) (h : ∀ p ∈ ps, p ≠ [] ∧ ∀ c ∈ p, isSpace c = false ∧ c ≠ ',') :
    parseCsv (join [','] ps) = ps := by
  unfold parseCsv
  cases ps with
  | nil => simp [join, splitOn, strip]
  | cons p rest =>
    rw [splitOn_join ',' (p :: rest) (by simp) (fun q hq hm => ((h q hq).2 ',' hm).2 rfl)]
    have hstrip : (p :: rest).map strip = p :: rest := by
      have : ∀ (l : List Str), (∀ q ∈ l, strip q = q) → l.map strip = l := by
        intro l hl
        induction l with
        | nil => rfl
        | cons a t iht =>
          simp only [List.map_cons]
          rw [hl a (List.mem_cons_self ..), iht (fun q hq => hl q (List.mem_cons_of_mem _ hq))]
      exact this _ (fun q hq => strip_id q (fun c hc => ((h q hq).2 c hc).1))
    rw [hstrip]
    apply List.filter_eq_self.mpr
    intro q hq
    have := (h q hq).1
    cases q with
    | nil => exact absurd rfl this
    | cons _ _ => rfl

theorem mapM?_map {β γ : Type} (f : β → Option γ) (g : γ → β) (xs : List γ) (h : ∀ x ∈ xs, f (g x) = some x) :
    mapM? f (xs.map g) = some xs := by
  induction xs with
  | nil => rfl
  | cons x xs ih =>
    simp only [List.map_cons, mapM?]
    rw [h x (List.mem_cons_self ..), ih (fun y hy => h y (List.mem_cons_of_mem _ hy))]

deriving instance DecidableEq for Except

theorem join_chars (sep : Str) (ps : List Str) : ∀ c ∈ join sep ps, c ∈ sep ∨ ∃ p ∈ ps, c ∈ p := by
  induction ps with
  | nil => intro c hc; simp [join] at hc
  | cons p rest ih =>
    intro c hc
    cases rest with
    | nil => simp only [join] at hc; exact Or.inr ⟨p, List.mem_cons_self .., hc⟩
    | cons q rest' =>
      simp only [join, List.mem_append] at hc
      rcases hc with (hc | hc) | hc
      · exact Or.inr ⟨p, List.mem_cons_self .., hc⟩
      · exact Or.inl hc
      · rcases ih c hc with h | ⟨x, hx, hcx⟩
        · exact Or.inl h
        · exact Or.inr ⟨x, List.mem_cons_of_mem _ hx, hcx⟩

/-! ### error codes -/

theorem showHex2_spec (n : Nat) : ∃ ds : List Nat, ds ≠ [] ∧ (∀ d ∈ ds, d < 16) ∧ showHex2 n = ds.map hexChar ∧ shiftIn 14 0 ds = n := by
  unfold showHex2
  simp only []
  by_cases h : ((digits 14 n).map hexChar).length < 2
  · rw [if_pos h]
    refine ⟨0 :: digits 14 n, by simp, ?_, ?_, ?_⟩
    · intro d hd
      simp only [List.mem_cons] at hd
      rcases hd with rfl | hd
      · omega
      · exact digits_lt 14 n d hd
    · simp [hexChar]
    · have := shiftIn_digits 14 n
      simp only [shiftIn, List.foldl_cons] at this ⊢
      simpa using this
  · rw [if_neg h]
    exact ⟨digits 14 n, digits_ne_nil 14 n, digits_lt 14 n, rfl, shiftIn_digits 14 n⟩

theorem readDigits16_showHex2 (n : Nat) : readDigits 16 (showHex2 n) 0 false = some n := by
  obtain ⟨ds, hne, hlt, hs, hv⟩ := showHex2_spec n
  have := readDigits_map 14 hexChar (fun d h => litDigit_hexChar h) (fun d h => (hexChar_facts ⟨d, h⟩).2.2.2) ds hlt [] 0 false
  simp only [List.append_nil] at this
  rw [hs, this, hv]
  cases ds with
  | nil => exact absurd rfl hne
  | cons a t => simp [readDigits]

theorem showHex2_chars (n : Nat) : ∀ c ∈ showHex2 n, isSpace c = false ∧ c ≠ ',' ∧ c ≠ '_' := by
  obtain ⟨ds, _, hlt, hs, _⟩ := showHex2_spec n
  intro c hc
  rw [hs] at hc
  obtain ⟨d, hd, rfl⟩ := List.mem_map.mp hc
  have f := hexChar_facts ⟨d, hlt d hd⟩
  exact ⟨f.2.1, f.2.2.1, f.2.2.2⟩

theorem pyInt0_showHexInt (n : Nat) : pyInt0 (showHexInt (Int.ofNat n)) = some (Int.ofNat n) := by
  obtain ⟨ds, hne, _, hs, _⟩ := showHex2_spec n
  have hr := readDigits16_showHex2 n
  have hch := showHex2_chars n
  unfold showHexInt
  simp only []
  cases hb : showHex2 n with
  | nil => rw [hs] at hb; simp at hb; exact absurd hb hne
  | cons c cs =>
    have hc : c ≠ '_' := (hch c (by rw [hb]; exact List.mem_cons_self ..)).2.2
    rw [hb] at hr
    unfold pyInt0
    rw [splitSign_plain '0' _ (by decide) (by decide)]
    simp only []
    have h0 : digitVal '0' = some 0 := by decide
    simp only [h0, if_true, true_or]
    have h16 : ¬ ((16 : Nat) = 0) := by omega
    simp only [h16, if_false]
    split
    · rename_i heq; injection heq with h _; exact absurd h hc
    · rw [hr]; simp [applySign]

theorem showHexInt_chars (n : Nat) : ∀ c ∈ showHexInt (Int.ofNat n), isSpace c = false ∧ c ≠ ',' := by
  intro c hc
  unfold showHexInt at hc
  simp only [List.mem_cons] at hc
  rcases hc with rfl | rfl | hc
  · exact ⟨by decide, by decide⟩
  · exact ⟨by decide, by decide⟩
  · have := showHex2_chars n c hc; exact ⟨this.1, this.2.1⟩

theorem dedup_nodup {β : Type} [DecidableEq β] (l : List β) (h : l.Nodup) : dedup l = l := by
  induction l with
  | nil => rfl
  | cons x xs ih =>
    rw [List.nodup_cons] at h
    unfold dedup
    rw [ih h.2]
    congr 1
    apply List.filter_eq_self.mpr
    intro y hy
    have : y ≠ x := fun e => h.1 (e ▸ hy)
    simp [this]

theorem mapM?_none {β γ : Type} (f : β → Option γ) (l : List β) (h : ∃ x ∈ l, f x = none) : mapM? f l = none := by
  induction l with
  | nil => obtain ⟨x, hx, _⟩ := h; cases hx
  | cons a t ih =>
    obtain ⟨x, hx, hfx⟩ := h
    simp only [mapM?]
    cases hx with
    | head => rw [hfx]
    | tail _ hx' => rw [ih ⟨x, hx', hfx⟩]; cases f a <;> rfl

def errIs {β : Type} (r : Except Err β) (e : Err) : Bool :=
  match r with
  | .error e' => e' == e
  | .ok _ => false

theorem errIs_eq {β : Type} {r : Except Err β} {e : Err} (h : errIs r e = true) : r = .error e := by
  cases r with
  | error e' => simp [errIs] at h; rw [h]
  | ok _ => simp [errIs] at h

end HalmosVerif.Lemmas.ConfigStrings
