/-
Lemmas.ConfigTime — `float()` / `parse_time` on the strings the repaired `ParseTimeout.unparse` produces (property C18).
-/
import HalmosVerif.Lemmas.ConfigStrings

namespace HalmosVerif.Lemmas.ConfigTime
open HalmosVerif.Model.Config
open HalmosVerif.Lemmas.ConfigStrings

theorem digitChar_more : ∀ d : Fin 10,
    isDigit (digitChar d.val) = true ∧ lower (digitChar d.val) ≠ 'i' ∧ lower (digitChar d.val) ≠ 'n' ∧
    digitChar d.val ≠ 'm' ∧ isFloatSpace (digitChar d.val) = false := by decide

/-! ### lists -/

theorem takeWhile_append_stop {p : Char → Bool} (xs ys : Str) (hall : ∀ x ∈ xs, p x = true)
    (hstop : ys = [] ∨ ∃ y t, ys = y :: t ∧ p y = false) :
    (xs ++ ys).takeWhile p = xs ∧ (xs ++ ys).dropWhile p = ys := by
  induction xs with
  | nil =>
    rcases hstop with rfl | ⟨y, t, rfl, hy⟩
    · simp
    · simp [hy]
  | cons x xs ih =>
    have hx := hall x (List.mem_cons_self ..)
    have := ih (fun z hz => hall z (List.mem_cons_of_mem _ hz))
    simp [hx, this.1, this.2]

theorem endsWith_append (a b : Str) : endsWith (a ++ b) b = true := by
  unfold endsWith
  rw [List.reverse_append]
  exact List.isPrefixOf_iff_prefix.mpr (List.prefix_append _ _)

theorem dropRight_append (a b : Str) : dropRight b.length (a ++ b) = a := by
  unfold dropRight
  simp

theorem not_endsWith_ms (pre : Str) (c : Char) (hc : c ≠ 'm') : endsWith (pre ++ [c] ++ ['s']) ['m', 's'] = false := by
  unfold endsWith
  simp [List.isPrefixOf, Ne.symm hc]

/-! ### digits and values -/

theorem shiftIn_acc (b : Nat) (ds : List Nat) : ∀ acc, shiftIn b acc ds = acc * (b + 2) ^ ds.length + shiftIn b 0 ds := by
  induction ds with
  | nil => intro acc; simp [shiftIn]
  | cons d ds ih =>
    intro acc
    simp only [shiftIn, List.foldl_cons, List.length_cons] at ih ⊢
    rw [ih (acc * (b + 2) + d), ih (0 * (b + 2) + d)]
    rw [Nat.pow_succ]
    have e : (acc * (b + 2) + d) * (b + 2) ^ ds.length = acc * ((b + 2) ^ ds.length * (b + 2)) + d * (b + 2) ^ ds.length := by
      rw [Nat.add_mul, Nat.mul_assoc, Nat.mul_comm (b + 2) ((b + 2) ^ ds.length)]
    rw [e]
    simp only [Nat.zero_mul, Nat.zero_add]
    omega

theorem shiftIn_append (b acc : Nat) (xs ys : List Nat) : shiftIn b acc (xs ++ ys) = shiftIn b (shiftIn b acc xs) ys := by
  simp [shiftIn, List.foldl_append]

theorem shiftIn_zeros (b k : Nat) : shiftIn b 0 (List.replicate k 0) = 0 := by
  induction k with
  | zero => rfl
  | succ k ih => simp only [List.replicate_succ, shiftIn, List.foldl_cons] at ih ⊢; simpa using ih

theorem digits_length_le (n : Nat) : ∀ k, 1 ≤ k → n < 10 ^ k → (digits 8 n).length ≤ k := by
  fun_induction digits 8 n with
  | case1 n h => intro k hk _; simpa using hk
  | case2 n h ih =>
    intro k hk hn
    have hk2 : 2 ≤ k := by
      rcases Nat.lt_or_ge k 2 with h1 | h1
      · have : k = 1 := by omega
        subst this; simp at hn; omega
      · exact h1
    have : n / 10 < 10 ^ (k - 1) := by
      have hp : 10 ^ k = 10 ^ (k - 1) * 10 := by rw [← Nat.pow_succ]; congr 1; omega
      rw [hp] at hn
      exact Nat.div_lt_of_lt_mul (by rw [Nat.mul_comm]; exact hn)
    have := ih (k - 1) (by omega) this
    simp only [List.length_append, List.length_singleton]
    omega

theorem digitsValue_map (ds : List Nat) (h : ∀ d ∈ ds, d < 10) : ∀ acc,
    (ds.map digitChar).foldl (fun acc c => acc * 10 + (digitVal c).getD 0) acc = shiftIn 8 acc ds := by
  induction ds with
  | nil => intro acc; rfl
  | cons d ds ih =>
    intro acc
    simp only [List.map_cons, List.foldl_cons, shiftIn]
    rw [digitVal_digitChar (h d (List.mem_cons_self ..))]
    exact ih (fun x hx => h x (List.mem_cons_of_mem _ hx)) _

theorem dropUnderscores_id (s : Str) (h : ∀ c ∈ s, c ≠ '_') : ∀ b, dropUnderscores s b = some s := by
  induction s with
  | nil => intro b; rfl
  | cons c cs ih =>
    intro b
    unfold dropUnderscores
    rw [if_neg (h c (List.mem_cons_self ..)), ih (fun x hx => h x (List.mem_cons_of_mem _ hx))]
    rfl

/-! ### `float()` on `[-]digits[.digits]` -/

def signStr (neg : Bool) : Str := if neg then ['-'] else []
def fracStr (fp : List Nat) : Str := if fp.isEmpty then [] else '.' :: fp.map digitChar

theorem pyFloat_decimal (neg : Bool) (ip fp : List Nat) (hip : ∀ d ∈ ip, d < 10) (hfp : ∀ d ∈ fp, d < 10) (hne : ip ≠ []) :
    pyFloat (signStr neg ++ ip.map digitChar ++ fracStr fp) =
      some (.fin (Dec.normalize (applySign neg (shiftIn 8 0 (ip ++ fp))) fp.length)) := by
  -- character facts
  have hI : ∀ c ∈ ip.map digitChar, isDigit c = true ∧ c ≠ '_' ∧ isFloatSpace c = false := by
    intro c hc
    obtain ⟨d, hd, rfl⟩ := List.mem_map.mp hc
    exact ⟨(digitChar_more ⟨d, hip d hd⟩).1, (digitChar_facts ⟨d, hip d hd⟩).2.2.2.1, (digitChar_more ⟨d, hip d hd⟩).2.2.2.2⟩
  have hF : ∀ c ∈ fp.map digitChar, isDigit c = true ∧ c ≠ '_' ∧ isFloatSpace c = false := by
    intro c hc
    obtain ⟨d, hd, rfl⟩ := List.mem_map.mp hc
    exact ⟨(digitChar_more ⟨d, hfp d hd⟩).1, (digitChar_facts ⟨d, hfp d hd⟩).2.2.2.1, (digitChar_more ⟨d, hfp d hd⟩).2.2.2.2⟩
  have hall : ∀ c ∈ signStr neg ++ ip.map digitChar ++ fracStr fp, c ≠ '_' ∧ isFloatSpace c = false := by
    intro c hc
    simp only [List.mem_append] at hc
    rcases hc with (hc | hc) | hc
    · unfold signStr at hc; cases neg <;> simp at hc; rw [hc]; exact ⟨by decide, by decide⟩
    · exact (hI c hc).2
    · unfold fracStr at hc
      split at hc
      · cases hc
      · simp only [List.mem_cons] at hc
        rcases hc with rfl | hc
        · exact ⟨by decide, by decide⟩
        · exact (hF c hc).2
  obtain ⟨d0, ip', rfl⟩ := List.exists_cons_of_ne_nil hne
  have hd0 := hip d0 (List.mem_cons_self ..)
  unfold pyFloat
  have hstrip : floatStrip (signStr neg ++ (d0 :: ip').map digitChar ++ fracStr fp) = signStr neg ++ (d0 :: ip').map digitChar ++ fracStr fp := by
    unfold floatStrip
    rw [dropWhile_none _ _ (fun c hc => (hall c hc).2), dropWhile_none _ _ (fun c hc => (hall c (List.mem_reverse.mp hc)).2)]
    simp
  rw [hstrip, dropUnderscores_id _ (fun c hc => (hall c hc).1)]
  simp only []
  have hsplit : splitSign (signStr neg ++ (d0 :: ip').map digitChar ++ fracStr fp) = (neg, (d0 :: ip').map digitChar ++ fracStr fp) := by
    cases neg
    · simp only [signStr, Bool.false_eq_true, if_false, List.nil_append, List.map_cons, List.cons_append]
      exact splitSign_plain _ _ (digitChar_facts ⟨d0, hd0⟩).2.2.2.2.1 (digitChar_facts ⟨d0, hd0⟩).2.2.2.2.2.1
    · simp [signStr, splitSign]
  rw [hsplit]
  simp only []
  have hw1 : ¬ (((d0 :: ip').map digitChar ++ fracStr fp).map lower = "inf".toList ∨
      ((d0 :: ip').map digitChar ++ fracStr fp).map lower = "infinity".toList) := by
    have := (digitChar_more ⟨d0, hd0⟩).2.1
    intro h
    rcases h with h | h <;> simp only [List.map_cons, List.cons_append, List.map_append] at h <;>
      (injection h with h _; exact this h)
  have hw2 : ¬ (((d0 :: ip').map digitChar ++ fracStr fp).map lower = "nan".toList) := by
    have := (digitChar_more ⟨d0, hd0⟩).2.2.1
    intro h
    simp only [List.map_cons, List.cons_append, List.map_append] at h
    injection h with h _; exact this h
  rw [if_neg hw1, if_neg hw2]
  -- parseDecimal
  have hstop : fracStr fp = [] ∨ ∃ y t, fracStr fp = y :: t ∧ isDigit y = false := by
    unfold fracStr
    split
    · left; rfl
    · right; exact ⟨'.', _, rfl, by decide⟩
  have htd := takeWhile_append_stop ((d0 :: ip').map digitChar) (fracStr fp) (fun c hc => (hI c hc).1) hstop
  unfold parseDecimal
  simp only [htd.1, htd.2]
  by_cases hfe : fp = []
  · subst hfe
    simp only [fracStr, List.isEmpty_nil, if_true, List.append_nil]
    simp only [List.map_cons, List.isEmpty_cons, Bool.false_and, Bool.false_eq_true, if_false, List.length_nil]
    have := digitsValue_map (d0 :: ip') hip 0
    simp only [List.map_cons] at this
    simp only [digitsValue, this, Option.map_some]
  · have hfe' : fp.isEmpty = false := by cases fp with | nil => exact absurd rfl hfe | cons _ _ => rfl
    simp only [fracStr, hfe', Bool.false_eq_true, if_false]
    have htd2 := takeWhile_append_stop (fp.map digitChar) [] (fun c hc => (hF c hc).1) (Or.inl rfl)
    simp only [List.append_nil] at htd2
    simp only [htd2.1, htd2.2]
    simp only [List.map_cons, List.isEmpty_cons, Bool.false_and, Bool.false_eq_true, if_false, List.length_map]
    have := digitsValue_map ((d0 :: ip') ++ fp) (by
      intro d hd
      rcases List.mem_append.mp hd with h | h
      · exact hip d h
      · exact hfp d h) 0
    simp only [List.map_append, List.map_cons] at this
    simp only [digitsValue, this, Option.map_some]

/-! ### `parse_time` on `body ++ unit` -/

theorem parseTimeout_s (pre : Str) (c : Char) (hc : c ≠ 'm') (v : TimeVal) (h : pyFloat (pre ++ [c]) = some v) :
    parseTimeout (pre ++ [c] ++ ['s']) = .ok v := by
  unfold parseTimeout parseTime parseTimeSuffixed
  have h1 : endsWith (pre ++ [c] ++ ['s']) "ms".toList = false := not_endsWith_ms pre c hc
  have h2 : endsWith (pre ++ [c] ++ ['s']) "s".toList = true := endsWith_append _ _
  have h3 : dropRight 1 (pre ++ [c] ++ ['s']) = pre ++ [c] := dropRight_append _ ['s']
  simp only [h1, h2, h3, h, Bool.false_eq_true, if_false, if_true]

theorem parseTimeout_ms (body : Str) (v : TimeVal) (h : pyFloat body = some v) :
    parseTimeout (body ++ ['m', 's']) = .ok v.div1000 := by
  unfold parseTimeout parseTime parseTimeSuffixed
  have h2 : endsWith (body ++ ['m', 's']) "ms".toList = true := endsWith_append _ _
  have h3 : dropRight 2 (body ++ ['m', 's']) = body := dropRight_append _ ['m', 's']
  simp only [h2, h3, h, if_true, Option.map_some]

theorem map_digitChar_last (ds : List Nat) (hne : ds ≠ []) (h : ∀ d ∈ ds, d < 10) :
    ∃ pre d, d < 10 ∧ ds.map digitChar = pre ++ [digitChar d] := by
  refine ⟨(ds.dropLast).map digitChar, ds.getLast hne, h _ (List.getLast_mem hne), ?_⟩
  have : ds = ds.dropLast ++ [ds.getLast hne] := (List.dropLast_concat_getLast hne).symm
  conv => lhs; rw [this]
  simp

/-- the body `[-]digits[.digits]` ends with a digit -/
theorem body_last (neg : Bool) (ip fp : List Nat) (hip : ∀ d ∈ ip, d < 10) (hfp : ∀ d ∈ fp, d < 10) (hne : ip ≠ []) :
    ∃ pre c, c ≠ 'm' ∧ signStr neg ++ ip.map digitChar ++ fracStr fp = pre ++ [c] := by
  by_cases hf : fp = []
  · obtain ⟨pre, d, hd, he⟩ := map_digitChar_last ip hne hip
    refine ⟨signStr neg ++ pre, digitChar d, (digitChar_more ⟨d, hd⟩).2.2.2.1, ?_⟩
    subst hf
    simp [fracStr, he]
  · obtain ⟨pre, d, hd, he⟩ := map_digitChar_last fp hf hfp
    refine ⟨signStr neg ++ ip.map digitChar ++ '.' :: pre, digitChar d, (digitChar_more ⟨d, hd⟩).2.2.2.1, ?_⟩
    have : fp.isEmpty = false := by cases fp with | nil => exact absurd rfl hf | cons _ _ => rfl
    simp [fracStr, this, he]

/-! ### integers and `Dec` -/

theorem showInt_eq (m : Int) : showInt m = signStr (decide (m < 0)) ++ (digits 8 m.natAbs).map digitChar := by
  cases m with
  | ofNat n =>
    have : ¬ (Int.ofNat n < 0) := by simp
    simp [showInt, showNat, signStr]
  | negSucc n =>
    have : Int.negSucc n < 0 := Int.negSucc_lt_zero n
    simp [showInt, showNat, signStr, this, Int.natAbs]

theorem applySign_natAbs (m : Int) : applySign (decide (m < 0)) m.natAbs = m := by
  unfold applySign
  by_cases h : m < 0
  · simp only [h, decide_true, if_true]; omega
  · simp only [h, decide_false, Bool.false_eq_true, if_false]; omega

theorem normalize_normal (d : Dec) (h : d.Normal) : Dec.normalize d.mant d.scale = d := by
  obtain ⟨m, s⟩ := d
  cases s with
  | zero => rfl
  | succ s =>
    unfold Dec.Normal at h
    simp only [Nat.succ_ne_zero, false_or] at h
    simp only [Dec.normalize, h, if_false]

theorem normalize_mul10 (m : Int) (s : Nat) : Dec.normalize (m * 10) (s + 1) = Dec.normalize m s := by
  have h1 : (m * 10) % 10 = 0 := Int.mul_emod_left m 10
  have h2 : (m * 10) / 10 = m := Int.mul_ediv_cancel m (by decide)
  simp only [Dec.normalize, h1, if_true, h2]

theorem normalize_ms (d : Dec) (h : d.Normal) (h1 : d.scale ≠ 0) (h3 : d.scale ≤ 3) :
    Dec.normalize (d.mant * (10 : Int) ^ (3 - d.scale)) 3 = d := by
  obtain ⟨m, s⟩ := d
  simp only at h1 h3 ⊢
  have hs : s = 1 ∨ s = 2 ∨ s = 3 := by omega
  rcases hs with rfl | rfl | rfl
  · have : m * (10 : Int) ^ (3 - 1) = m * 10 * 10 := by rw [Int.mul_assoc]; rfl
    rw [this, normalize_mul10, normalize_mul10]; exact normalize_normal ⟨m, 1⟩ h
  · have : m * (10 : Int) ^ (3 - 2) = m * 10 := by rfl
    rw [this, normalize_mul10]; exact normalize_normal ⟨m, 2⟩ h
  · have : m * (10 : Int) ^ (3 - 3) = m := by simp
    rw [this]; exact normalize_normal ⟨m, 3⟩ h

theorem parse_body_s (neg : Bool) (ip fp : List Nat) (hip : ∀ d ∈ ip, d < 10) (hfp : ∀ d ∈ fp, d < 10) (hne : ip ≠ []) :
    parseTimeout (signStr neg ++ ip.map digitChar ++ fracStr fp ++ ['s']) =
      .ok (.fin (Dec.normalize (applySign neg (shiftIn 8 0 (ip ++ fp))) fp.length)) := by
  obtain ⟨pre, c, hc, he⟩ := body_last neg ip fp hip hfp hne
  have hf := pyFloat_decimal neg ip fp hip hfp hne
  rw [he] at hf ⊢
  exact parseTimeout_s pre c hc _ hf

theorem parse_body_ms (neg : Bool) (ip : List Nat) (hip : ∀ d ∈ ip, d < 10) (hne : ip ≠ []) :
    parseTimeout (signStr neg ++ ip.map digitChar ++ ['m', 's']) =
      .ok (.fin (Dec.normalize (applySign neg (shiftIn 8 0 ip)) 3)) := by
  have hf := pyFloat_decimal neg ip [] hip (fun _ h => by cases h) hne
  simp only [fracStr, List.isEmpty_nil, if_true, List.append_nil, List.length_nil] at hf
  have := parseTimeout_ms _ _ hf
  rw [this]
  rfl

/-- **whole seconds / whole milliseconds** -/
theorem parse_showInt_s (m : Int) : parseTimeout (showInt m ++ ['s']) = .ok (.fin ⟨m, 0⟩) := by
  rw [showInt_eq]
  have := parse_body_s (decide (m < 0)) (digits 8 m.natAbs) [] (digits_lt 8 _) (fun _ h => by cases h) (digits_ne_nil 8 _)
  simp only [fracStr, List.isEmpty_nil, if_true, List.append_nil, List.length_nil, shiftIn_digits, applySign_natAbs] at this
  rw [this]; rfl

theorem parse_showInt_ms (m : Int) : parseTimeout (showInt m ++ ['m', 's']) = .ok (.fin (Dec.normalize m 3)) := by
  rw [showInt_eq]
  have := parse_body_ms (decide (m < 0)) (digits 8 m.natAbs) (digits_lt 8 _) (digits_ne_nil 8 _)
  simp only [shiftIn_digits, applySign_natAbs] at this
  exact this

/-- **exact decimal rendering** of a value with `scale ≥ 1` -/
theorem parse_showDec (d : Dec) (hs : 1 ≤ d.scale) :
    parseTimeout (showDec d ++ ['s']) = .ok (.fin (Dec.normalize d.mant d.scale)) := by
  obtain ⟨m, sc⟩ := d
  simp only at hs ⊢
  let a := m.natAbs
  let p := 10 ^ sc
  have hp : 0 < p := Nat.pow_pos (by decide)
  let lo := digits 8 (a % p)
  have hlen : lo.length ≤ sc := digits_length_le (a % p) sc hs (Nat.mod_lt _ hp)
  let fp := List.replicate (sc - lo.length) 0 ++ lo
  have hfp : ∀ x ∈ fp, x < 10 := by
    intro x hx
    rcases List.mem_append.mp hx with h | h
    · have := (List.mem_replicate.mp h).2; omega
    · exact digits_lt 8 _ x h
  have hfplen : fp.length = sc := by simp [fp]; omega
  have hfpne : fp.isEmpty = false := by
    have : fp ≠ [] := by intro h; rw [h] at hfplen; simp at hfplen; omega
    cases hf : fp with | nil => exact absurd hf this | cons _ _ => rfl
  have hstr : showDec ⟨m, sc⟩ = signStr (decide (m < 0)) ++ (digits 8 (a / p)).map digitChar ++ fracStr fp := by
    unfold showDec fracStr
    rw [hfpne]
    have h0 : digitChar 0 = '0' := by decide
    simp only [Bool.false_eq_true, if_false, padLeft, showNat, List.length_map, fp, List.map_append, List.map_replicate, h0,
      signStr, decide_eq_true_eq]
    simp [a, p, lo]
  have hval : shiftIn 8 0 (digits 8 (a / p) ++ fp) = a := by
    rw [shiftIn_append, shiftIn_digits, shiftIn_acc, hfplen]
    have : shiftIn 8 0 fp = a % p := by
      simp only [fp]
      rw [shiftIn_append, shiftIn_zeros, shiftIn_digits]
    rw [this]
    show a / p * 10 ^ sc + a % p = a
    have := Nat.div_add_mod a p
    rw [Nat.mul_comm] at this
    exact this
  rw [hstr, parse_body_s _ _ _ (digits_lt 8 _) hfp (digits_ne_nil 8 _), hval, hfplen, applySign_natAbs]

end HalmosVerif.Lemmas.ConfigTime
