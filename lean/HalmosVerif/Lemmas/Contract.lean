import HalmosVerif.Model.Contract
import HalmosVerif.Spec.Code
/-
Lemmas.Contract — helper lemmas for Props.C19.
-/
namespace HalmosVerif.Lemmas.Contract
open HalmosVerif.Gen HalmosVerif.Model.Contract
open HalmosVerif.Spec (Code.pushLen Code.jumpdestsFrom Code.validJumpdests Code.sweepFrom Code.byteAt Code.read Code.beVal)
open HalmosVerif.Spec.Code (pushLen)

/-- the generated `insn_len` rule is the Yellow Paper's `N(i, w) − i` -/
theorem insnLen_eq (w : Nat) : insnLen w = 1 + pushLen w := by
  unfold insnLen insnLenInt pushLen OP_PUSH0 OP_PUSH1 OP_PUSH32 Spec.Code.PUSH1 Spec.Code.PUSH32
  split <;> split <;> omega

end HalmosVerif.Lemmas.Contract
