import HalmosVerif.Model.Contract
import HalmosVerif.Spec.Code
/-
Lemmas.Contract — helper lemmas for Props.C19.
-/
namespace HalmosVerif.Lemmas.Contract
open HalmosVerif.Gen HalmosVerif.Model.Contract
open HalmosVerif.Spec.Code

/-- the generated `insn_len` rule is the Yellow Paper's `N(i, w) − i` -/
theorem insnLen_eq (w : Nat) : insnLen w = 1 + pushLen w := by
  unfold insnLen insnLenInt pushLen OP_PUSH0 OP_PUSH1 OP_PUSH32 PUSH1 PUSH32
  split <;> split <;> omega

theorem jumpdest_eq : OP_JUMPDEST = JUMPDEST := rfl

theorem pushLen_jumpdest : pushLen JUMPDEST = 0 := by decide

/-! ### views of a model byte -/

/-- what a byte is *for `type(x) is int`*: only bytes of concrete chunks -/
def strict : CodeByte → Option Nat
  | .lit b => some b
  | _ => none

/-- what is known about a byte: numerals inside symbolic chunks are known too -/
def known : CodeByte → Option Nat
  | .lit b => some b
  | .num b => some b
  | .sym _ => none

/-- the byte under a valuation of the unknown bytes -/
def conc (σ : Nat → Nat) : CodeByte → Nat
  | .lit b => b
  | .num b => b
  | .sym i => σ i

/-! ### the Spec sweep: skipping, monotonicity, splitting at an all-known prefix -/

theorem sweepFrom_skip (p : List (Option Nat)) (pc k : Nat) :
    sweepFrom p pc k = sweepFrom (p.drop k) (pc + k) 0 := by
  induction k generalizing p pc with
  | zero => simp
  | succ k ih =>
    cases p with
    | nil => simp [sweepFrom]
    | cons x r =>
      rw [sweepFrom, ih r (pc + 1)]
      · simp only [List.drop_succ_cons]; congr 1; omega

theorem stopFrom_skip (p : List (Option Nat)) (pc k : Nat) :
    stopFrom p pc k = stopFrom (p.drop k) (pc + k) 0 := by
  induction k generalizing p pc with
  | zero => simp
  | succ k ih =>
    cases p with
    | nil => simp [stopFrom]
    | cons x r =>
      rw [stopFrom, ih r (pc + 1)]
      · simp only [List.drop_succ_cons]; congr 1; omega

theorem stopFrom_ge (p : List (Option Nat)) (pc k : Nat) : pc ≤ stopFrom p pc k := by
  induction p generalizing pc k with
  | nil => simp [stopFrom]
  | cons x r ih =>
    cases k with
    | zero =>
      cases x with
      | none => simp [stopFrom]
      | some b =>
        simp only [stopFrom]
        split
        · have := ih (pc + 1) 0; omega
        · have := ih (pc + 1) (pushLen b); omega
    | succ k => simp only [stopFrom]; have := ih (pc + 1) k; omega

/-- sweeping `p₁ ++ q` where `p₁` has no unknown byte = sweeping `p₁`, then resuming in `q` where the sweep of `p₁` ended
(possibly some bytes into `q`: a PUSH that straddles the boundary). -/
theorem sweepFrom_append (p₁ q : List (Option Nat)) (h : ∀ x ∈ p₁, x ≠ none) (pc k : Nat) :
    sweepFrom (p₁ ++ q) pc k
      = sweepFrom p₁ pc k ++ sweepFrom ((p₁ ++ q).drop (stopFrom p₁ pc k - pc)) (stopFrom p₁ pc k) 0 := by
  induction p₁ generalizing pc k with
  | nil =>
    simp only [List.nil_append, stopFrom, sweepFrom]
    rw [sweepFrom_skip q pc k]; congr 2; omega
  | cons x r ih =>
    have hr : ∀ y ∈ r, y ≠ none := fun y hy => h y (List.mem_cons_of_mem _ hy)
    have hdrop : ∀ (E : Nat), pc + 1 ≤ E →
        (x :: (r ++ q)).drop (E - pc) = (r ++ q).drop (E - (pc + 1)) := by
      intro E hE
      have : E - pc = (E - (pc + 1)) + 1 := by omega
      rw [this]; rfl
    cases k with
    | zero =>
      cases x with
      | none => exact absurd rfl (h none (List.mem_cons_self))
      | some b =>
        simp only [List.cons_append, sweepFrom, stopFrom]
        split
        · rw [ih hr (pc + 1) 0, hdrop _ (stopFrom_ge r (pc + 1) 0)]; simp
        · rw [ih hr (pc + 1) (pushLen b), hdrop _ (stopFrom_ge r (pc + 1) _)]
    | succ k =>
      simp only [List.cons_append, sweepFrom, stopFrom]
      rw [ih hr (pc + 1) k, hdrop _ (stopFrom_ge r (pc + 1) _)]

/-! ### the `while` loop of `__get_jumpdests` is the sweep -/

/-- one loop of `__get_jumpdests` over the bytes `l`, started at `pc`: it ends where the Spec sweep of the
*strict* view of `l` (only native-int bytes are opcodes it can look at) ends, having added exactly that sweep. -/
theorem scanLoop_eq (l : List CodeByte) (get : Nat → CodeByte)
    (hget : ∀ i, i < l.length → get i = l.getD i (.lit 0)) :
    ∀ (fuel pc : Nat) (acc : List Nat), l.length - pc < fuel →
      scanLoop get l.length fuel pc acc
        = some (stopFrom ((l.drop pc).map strict) pc 0, acc ++ sweepFrom ((l.drop pc).map strict) pc 0) := by
  intro fuel
  induction fuel with
  | zero => intro pc acc h; omega
  | succ fuel ih =>
    intro pc acc hf
    unfold scanLoop
    by_cases hpc : pc < l.length
    · rw [if_pos hpc, hget pc hpc]
      have hd : l.drop pc = l[pc] :: l.drop (pc + 1) := List.drop_eq_getElem_cons hpc
      have hg : l.getD pc (.lit 0) = l[pc] := by simp [hpc]
      rw [hg, hd]
      cases hb : l[pc] with
      | lit op =>
        simp only [List.map_cons, strict, sweepFrom, stopFrom]
        by_cases hj : op = OP_JUMPDEST
        · have hj' : op = JUMPDEST := hj
          rw [if_pos hj, ih (pc + 1) _ (by omega), if_pos hj', if_pos hj']
          simp
        · have hj' : ¬ op = JUMPDEST := hj
          have e : pc + insnLen op = pc + 1 + pushLen op := by rw [insnLen_eq]; omega
          rw [if_neg hj, ih (pc + insnLen op) _ (by omega), if_neg hj', if_neg hj',
            sweepFrom_skip _ (pc + 1) (pushLen op), stopFrom_skip _ (pc + 1) (pushLen op),
            ← List.map_drop, List.drop_drop, e]
      | num b => simp [strict, sweepFrom, stopFrom]
      | sym i => simp [strict, sweepFrom, stopFrom]
    · rw [if_neg hpc]
      have : l.drop pc = [] := List.drop_eq_nil_of_le (by omega)
      simp [this, sweepFrom, stopFrom]

/-! ### well-formedness established by `Contract.__init__` -/

/-- `_fastcode`, when present, is non-empty and is a prefix of the code, all of it native ints -/
def WF (c : Contract) : Prop :=
  ∀ f, c.fast = some f → f ≠ [] ∧ ∃ rest, c.code = f.map CodeByte.lit ++ rest

theorem flatMap_filter_nonempty (cs : List Chunk) :
    (cs.filter (fun c => !c.isEmpty)).flatMap Chunk.bytes = cs.flatMap Chunk.bytes := by
  induction cs with
  | nil => rfl
  | cons c r ih =>
    by_cases hc : c.isEmpty = true
    · have : c.bytes = [] := by
        cases c with
        | conc bs => simp [Chunk.isEmpty] at hc; simp [Chunk.bytes, hc]
        | symb bs => simp [Chunk.isEmpty] at hc; simp [Chunk.bytes, hc]
      simp [hc, ih, this]
    · simp [hc, ih]

theorem ofChunks_code (cs : List Chunk) : (ofChunks cs).code = cs.flatMap Chunk.bytes := by
  simp only [ofChunks]; exact flatMap_filter_nonempty cs

theorem ofChunks_wf (cs : List Chunk) : WF (ofChunks cs) := by
  intro f hf
  simp only [ofChunks] at hf ⊢
  generalize hcs : cs.filter (fun c => !c.isEmpty) = cs' at hf ⊢
  cases cs' with
  | nil => simp at hf
  | cons c tl =>
    cases c with
    | symb bs => simp at hf
    | conc bs =>
      simp only [Option.some.injEq] at hf
      subst hf
      have hmem : Chunk.conc bs ∈ cs.filter (fun c => !c.isEmpty) := by rw [hcs]; exact List.mem_cons_self
      have hne := (List.mem_filter.mp hmem).2
      refine ⟨?_, tl.flatMap Chunk.bytes, ?_⟩
      · intro h; subst h; simp [Chunk.isEmpty] at hne
      · simp [List.flatMap_cons, Chunk.bytes]

theorem bvGetByte_eq (l : List CodeByte) (i : Nat) (h : i < l.length) : bvGetByte l i = l.getD i (.lit 0) := by
  simp [bvGetByte, h]

/-- `__get_jumpdests` (two loops, `pc` carried across) = one Spec sweep over the strict view of the whole code -/
theorem jumpdests_eq_sweep (c : Contract) (h : WF c) :
    jumpdests c = some (sweepFrom (c.code.map strict) 0 0) := by
  unfold jumpdests
  cases hf : c.fast with
  | none =>
    by_cases he : c.code.isEmpty = true
    · have : c.code = [] := by simpa using he
      simp [this, sweepFrom]
    · have := scanLoop_eq c.code (bvGetByte c.code) (bvGetByte_eq c.code) (c.code.length + 1) 0 [] (by omega)
      simp [he, this]
  | some f =>
    obtain ⟨hne, rest, hcode⟩ := h f hf
    have hfe : f.isEmpty = false := by cases f with | nil => exact absurd rfl hne | cons _ _ => rfl
    have h1 := scanLoop_eq (f.map CodeByte.lit) (fun i => CodeByte.lit (f.getD i 0))
      (by intro i hi; simp at hi; simp [hi]) (f.length + 1) 0 [] (by simp)
    simp only [List.length_map, List.drop_zero, List.nil_append] at h1
    have hce : c.code.isEmpty = false := by
      rw [hcode]; cases f with | nil => exact absurd rfl hne | cons _ _ => rfl
    have h2 := scanLoop_eq c.code (bvGetByte c.code) (bvGetByte_eq c.code) (c.code.length + 1)
      (stopFrom ((f.map CodeByte.lit).map strict) 0 0) (sweepFrom ((f.map CodeByte.lit).map strict) 0 0) (by omega)
    have hall : ∀ x ∈ (f.map CodeByte.lit).map strict, x ≠ none := by
      intro x hx; simp [strict] at hx; obtain ⟨a, _, rfl⟩ := hx; simp
    have h3 := sweepFrom_append ((f.map CodeByte.lit).map strict) (rest.map strict) hall 0 0
    simp only [Nat.sub_zero, ← List.map_append, ← hcode] at h3
    rw [h3]
    simp only [hfe, hce, Bool.false_eq_true, ↓reduceIte, h1, Option.bind_eq_bind, Option.bind_some, h2, List.map_drop]

/-! ### Spec-level facts about `D(c)` and the partial sweep -/

theorem sweepFrom_map_some (c : List Nat) (pc k : Nat) :
    sweepFrom (c.map some) pc k = jumpdestsFrom c pc k := by
  induction c generalizing pc k with
  | nil => simp [sweepFrom, jumpdestsFrom]
  | cons b r ih =>
    cases k with
    | zero => simp only [List.map_cons, sweepFrom, jumpdestsFrom, ih]
    | succ k => simp only [List.map_cons, sweepFrom, jumpdestsFrom, ih]

/-- positions skipped as PUSH data are never destinations -/
theorem jumpdestsFrom_ge (c : List Nat) (pc k d : Nat) (h : d ∈ jumpdestsFrom c pc k) : pc + k ≤ d := by
  induction c generalizing pc k with
  | nil => simp [jumpdestsFrom] at h
  | cons b r ih =>
    cases k with
    | zero =>
      simp only [jumpdestsFrom] at h
      split at h
      · rcases List.mem_cons.mp h with h | h
        · omega
        · have := ih _ _ h; omega
      · have := ih _ _ h; omega
    | succ k => simp only [jumpdestsFrom] at h; have := ih _ _ h; omega

/-- every destination is a JUMPDEST byte of the code -/
theorem jumpdestsFrom_byte (c : List Nat) (pc k d : Nat) (h : d ∈ jumpdestsFrom c pc k) :
    pc ≤ d ∧ d - pc < c.length ∧ c.getD (d - pc) 0 = JUMPDEST := by
  induction c generalizing pc k with
  | nil => simp [jumpdestsFrom] at h
  | cons b r ih =>
    have step : ∀ k', d ∈ jumpdestsFrom r (pc + 1) k' →
        pc ≤ d ∧ d - pc < (b :: r).length ∧ (b :: r).getD (d - pc) 0 = JUMPDEST := by
      intro k' h'
      obtain ⟨h1, h2, h3⟩ := ih _ _ h'
      have e : d - pc = (d - (pc + 1)) + 1 := by omega
      refine ⟨by omega, by simp; omega, ?_⟩
      rw [e]; simpa using h3
    cases k with
    | zero =>
      simp only [jumpdestsFrom] at h
      split at h
      · rcases List.mem_cons.mp h with h | h
        · subst h; simp [*]
        · exact step _ h
      · exact step _ h
    | succ k => simp only [jumpdestsFrom] at h; exact step _ h

/-- soundness of the partial sweep: whatever the unknown bytes are, it only yields genuine destinations -/
theorem sweepFrom_sound (p : List (Option Nat)) (c : List Nat) (hm : Matches p c) (pc k d : Nat)
    (h : d ∈ sweepFrom p pc k) : d ∈ jumpdestsFrom c pc k := by
  induction p generalizing c pc k with
  | nil => simp [sweepFrom] at h
  | cons x r ih =>
    cases c with
    | nil => simp [Matches] at hm
    | cons b c' =>
      obtain ⟨hx, hm'⟩ := hm
      cases k with
      | zero =>
        cases x with
        | none => simp [sweepFrom] at h
        | some y =>
          have : y = b := hx y rfl
          subst this
          simp only [sweepFrom, jumpdestsFrom] at h ⊢
          split at h
          · rename_i hj
            rw [if_pos hj]
            rcases List.mem_cons.mp h with h | h
            · exact List.mem_cons.mpr (Or.inl h)
            · exact List.mem_cons.mpr (Or.inr (ih c' hm' _ _ h))
          · rename_i hj
            rw [if_neg hj]; exact ih c' hm' _ _ h
      | succ k => simp only [sweepFrom, jumpdestsFrom] at h ⊢; exact ih c' hm' _ _ h

/-- completeness of the partial sweep when it meets no unknown opcode -/
theorem sweepFrom_complete (p : List (Option Nat)) (c : List Nat) (hm : Matches p c) (pc k : Nat)
    (hb : blockedFrom p k = false) : sweepFrom p pc k = jumpdestsFrom c pc k := by
  induction p generalizing c pc k with
  | nil => cases c with
    | nil => simp [sweepFrom, jumpdestsFrom]
    | cons _ _ => simp [Matches] at hm
  | cons x r ih =>
    cases c with
    | nil => simp [Matches] at hm
    | cons b c' =>
      obtain ⟨hx, hm'⟩ := hm
      cases k with
      | zero =>
        cases x with
        | none => simp [blockedFrom] at hb
        | some y =>
          have : y = b := hx y rfl
          subst this
          simp only [blockedFrom] at hb
          simp only [sweepFrom, jumpdestsFrom]
          split
          · rename_i hj; rw [if_pos hj] at hb; rw [ih c' hm' _ _ hb]
          · rename_i hj; rw [if_neg hj] at hb; rw [ih c' hm' _ _ hb]
      | succ k => simp only [blockedFrom] at hb; simp only [sweepFrom, jumpdestsFrom]; exact ih c' hm' _ _ hb

/-- the sweep never passes the first unknown opcode -/
theorem sweepFrom_lt_stop (p : List (Option Nat)) (pc k d : Nat) (h : d ∈ sweepFrom p pc k) : d < stopFrom p pc k := by
  induction p generalizing pc k with
  | nil => simp [sweepFrom] at h
  | cons x r ih =>
    cases k with
    | zero =>
      cases x with
      | none => simp [sweepFrom] at h
      | some y =>
        simp only [sweepFrom, stopFrom] at h ⊢
        split at h
        · rename_i hj
          rw [if_pos hj]
          rcases List.mem_cons.mp h with h | h
          · have := stopFrom_ge r (pc + 1) 0; omega
          · exact ih _ _ h
        · rename_i hj
          rw [if_neg hj]; exact ih _ _ h
    | succ k => simp only [sweepFrom, stopFrom] at h ⊢; exact ih _ _ h

theorem matches_strict (σ : Nat → Nat) (l : List CodeByte) : Matches (l.map strict) (l.map (conc σ)) := by
  induction l with
  | nil => simp [Matches]
  | cons b r ih =>
    refine ⟨?_, ih⟩
    intro x hx
    cases b <;> simp [strict, conc] at hx ⊢
    exact hx.symm

theorem matches_known (σ : Nat → Nat) (l : List CodeByte) : Matches (l.map known) (l.map (conc σ)) := by
  induction l with
  | nil => simp [Matches]
  | cons b r ih =>
    refine ⟨?_, ih⟩
    intro x hx
    cases b <;> simp [known, conc] at hx ⊢ <;> exact hx.symm

theorem strict_eq_known (l : List CodeByte) (h : ∀ b ∈ l, ∀ x, b ≠ CodeByte.num x) : l.map strict = l.map known := by
  apply List.map_congr_left
  intro b hb
  cases b with
  | lit _ => rfl
  | num x => exact absurd rfl (h _ hb x)
  | sym _ => rfl

/-! ### byte reads, slices, instruction decoding, the `_insn` cache -/

theorem read_getElem? (cc : List Nat) (s n i : Nat) :
    (Spec.Code.read cc s n)[i]? = if i < n then some (cc.getD (s + i) 0) else none := by
  unfold Spec.Code.read byteAt
  by_cases h : i < n <;> simp [h]

theorem read_length (cc : List Nat) (s n : Nat) : (Spec.Code.read cc s n).length = n := by simp [Spec.Code.read]

theorem bvSlice_conc (σ : Nat → Nat) (code : List CodeByte) (s e : Nat) :
    (bvSlice code s e).map (conc σ) = Spec.Code.read (code.map (conc σ)) s (e - s) := by
  apply List.ext_getElem?
  intro i
  rw [read_getElem?]
  unfold bvSlice
  split
  · simp; omega
  · split
    · by_cases h : i < e - s
      · have : code.length ≤ s + i := by omega
        simp [h, conc, this]
      · simp [h]
    · by_cases h : i < e - s
      · simp only [List.getElem?_map, h, if_true]
        by_cases h2 : s + i < code.length
        · rw [List.getElem?_append_left (by simp; omega)]
          simp [h, h2]
        · rw [List.getElem?_append_right (by simp; omega)]
          simp [conc]
          refine ⟨CodeByte.lit 0, ?_, ?_⟩
          · rw [List.getElem?_replicate]; rw [if_pos]; omega
          · have : code.length ≤ s + i := by omega
            simp [this]
      · simp [h]; omega

theorem getD_conc_prefix (σ : Nat → Nat) (f : List Nat) (rest : List CodeByte) (j : Nat) (h : j < f.length) :
    ((f.map CodeByte.lit ++ rest).map (conc σ)).getD j 0 = f.getD j 0 := by
  have hl : j < (List.map (conc σ ∘ CodeByte.lit) f).length := by simpa using h
  simp only [List.map_append, List.map_map, List.getD_eq_getElem?_getD, List.getElem?_append_left hl]
  simp [h, conc]

/-- the fast path of `slice` / `unwrapped_slice`: a Python slice of `_fastcode` strictly inside it -/
theorem fastSlice_conc (σ : Nat → Nat) (f : List Nat) (rest : List CodeByte) (s e : Nat) (he : e < f.length) :
    ((pySlice f s e).map CodeByte.lit).map (conc σ)
      = Spec.Code.read ((f.map CodeByte.lit ++ rest).map (conc σ)) s (e - s) := by
  apply List.ext_getElem?
  intro i
  rw [read_getElem?]
  unfold pySlice
  by_cases h : i < e - s
  · rw [if_pos h, getD_conc_prefix σ f rest (s + i) (by omega)]
    have h1 : s + i < e := by omega
    have h2 : s + i < f.length := by omega
    simp [h1, h2, conc]
  · rw [if_neg h]
    simp; omega

theorem getitem_conc (σ : Nat → Nat) (c : Contract) (h : WF c) (k : Nat) :
    conc σ (getitem c k) = byteAt (c.code.map (conc σ)) k := by
  have slow : conc σ (bvGetByte c.code k) = byteAt (c.code.map (conc σ)) k := by
    unfold bvGetByte byteAt
    by_cases hk : k < c.code.length
    · simp [hk]
    · have : c.code.length ≤ k := by omega
      simp [hk, conc]
  unfold getitem
  cases hf : c.fast with
  | none => exact slow
  | some f =>
    obtain ⟨_, rest, hcode⟩ := h f hf
    simp only
    split
    · rename_i hk
      rw [hcode]; unfold byteAt; rw [getD_conc_prefix σ f rest k hk]; rfl
    · exact slow

theorem unwrappedSlice_conc (σ : Nat → Nat) (c : Contract) (h : WF c) (s e : Nat) :
    (unwrappedSlice c s e).map (conc σ) = Spec.Code.read (c.code.map (conc σ)) s (e - s) := by
  unfold unwrappedSlice
  cases hf : c.fast with
  | none => exact bvSlice_conc σ c.code s e
  | some f =>
    obtain ⟨_, rest, hcode⟩ := h f hf
    simp only
    split
    · rename_i hc
      simp only [Bool.and_eq_true, decide_eq_true_eq] at hc
      rw [hcode]; exact fastSlice_conc σ f rest s e hc.2
    · exact bvSlice_conc σ c.code s e

theorem slice_conc (σ : Nat → Nat) (c : Contract) (h : WF c) (s n : Nat) :
    (n ≤ MAX_MEMORY_SIZE → ∃ bs, slice c s n = .ok bs ∧ bs.map (conc σ) = Spec.Code.read (c.code.map (conc σ)) s n) ∧
    (MAX_MEMORY_SIZE < n → slice c s n = .error .outOfGas) := by
  constructor
  · intro hn
    unfold slice
    rw [if_neg (by omega)]
    cases hf : c.fast with
    | none => exact ⟨_, rfl, by simpa using bvSlice_conc σ c.code s (s + n)⟩
    | some f =>
      obtain ⟨_, rest, hcode⟩ := h f hf
      simp only
      split
      · rename_i hc
        simp only [Bool.and_eq_true, decide_eq_true_eq] at hc
        refine ⟨_, rfl, ?_⟩
        rw [hcode]; simpa using fastSlice_conc σ f rest s (s + n) hc.2
      · exact ⟨_, rfl, by simpa using bvSlice_conc σ c.code s (s + n)⟩
  · intro hn
    unfold slice
    rw [if_pos hn]

/-- value of an operand: big-endian value of its bytes under the valuation -/
def operandVal (σ : Nat → Nat) (bs : List CodeByte) : Nat := beVal (bs.map (conc σ))

/-- `_decode_instruction` against the Spec, for a known opcode byte `op` -/
theorem decodeRaw_known (σ : Nat → Nat) (c : Contract) (h : WF c) (pc op : Nat)
    (hg : getitem c pc = .lit op ∨ getitem c pc = .num op) :
    ∃ insn, decodeRaw c pc = .ok insn ∧
      insn.opcode = (Spec.Code.decode (c.code.map (conc σ)) pc).opcode ∧
      insn.pc = pc ∧
      insn.nextPc = (Spec.Code.decode (c.code.map (conc σ)) pc).nextPc ∧
      insn.operand.map (operandVal σ) = (Spec.Code.decode (c.code.map (conc σ)) pc).operand := by
  have hop : byteAt (c.code.map (conc σ)) pc = op := by
    rw [← getitem_conc σ c h pc]; rcases hg with hg | hg <;> simp [hg, conc]
  have hl := insnLen_eq op
  have hraw : decodeRaw c pc =
      (if insnLen op > 1 then
        .ok { opcode := op, pc := pc, nextPc := ((pc + insnLen op : Nat) : Int),
              operand := some (unwrappedSlice c (pc + 1) (pc + insnLen op)) }
      else .ok { opcode := op, pc := pc, nextPc := ((pc + insnLen op : Nat) : Int), operand := none }) := by
    unfold decodeRaw
    rcases hg with hg | hg <;> simp [hg]
  rw [hraw]
  unfold Spec.Code.decode
  simp only [hop]
  by_cases hp : pushLen op = 0
  · rw [if_neg (by omega)]
    refine ⟨_, rfl, rfl, rfl, ?_, ?_⟩
    · simp [hl, hp]
    · simp [hp]
  · rw [if_pos (by omega)]
    refine ⟨_, rfl, rfl, rfl, ?_, ?_⟩
    · simp [hl]; omega
    · simp only [Option.map_some, if_neg hp, operandVal, unwrappedSlice_conc σ c h]
      congr 3; omega

theorem decodeRaw_sym (c : Contract) (pc i : Nat) (hg : getitem c pc = .sym i) :
    decodeRaw c pc = .error .notConcrete := by
  unfold decodeRaw; simp [hg]

theorem decode_eq (c : Contract) (pc : Nat) :
    Model.Contract.decode c pc = if pc < c.code.length then decodeRaw c pc else .ok Insn.stop := by
  unfold Model.Contract.decode decodeInstruction Cache.empty
  by_cases hpc : pc < c.code.length
  · simp [hpc]
    cases decodeRaw c pc <;> rfl
  · simp [hpc]

/-- the `_insn` cache only ever holds what `_decode_instruction` returns for that slot -/
def CacheOK (c : Contract) (cache : Cache) : Prop :=
  cache.length = c.code.length ∧ ∀ pc insn, cache[pc]? = some (some insn) → decodeRaw c pc = .ok insn

theorem cacheOK_empty (c : Contract) : CacheOK c (Cache.empty c) := by
  refine ⟨by simp [Cache.empty], ?_⟩
  intro pc insn h
  simp [Cache.empty, List.getElem?_replicate] at h

theorem decodeInstruction_cached (c : Contract) (cache : Cache) (hc : CacheOK c cache) (pc : Nat) :
    (decodeInstruction c cache pc).1 = Model.Contract.decode c pc ∧ CacheOK c (decodeInstruction c cache pc).2 := by
  obtain ⟨hlen, hok⟩ := hc
  rw [decode_eq]
  unfold decodeInstruction
  by_cases hpc : pc < cache.length
  · rw [if_pos hpc, if_pos (by omega)]
    cases hget : cache.getD pc none with
    | some insn =>
      have : cache[pc]? = some (some insn) := by
        simp [List.getD_eq_getElem?_getD, hpc] at hget; simp [hpc, hget]
      simp only
      exact ⟨(hok pc insn this).symm, hlen, hok⟩
    | none =>
      simp only
      cases hraw : decodeRaw c pc with
      | error e => exact ⟨rfl, hlen, hok⟩
      | ok insn =>
        refine ⟨rfl, by simpa using hlen, ?_⟩
        intro pc' insn' h'
        by_cases hpp : pc = pc'
        · subst hpp
          simp [hpc] at h'
          subst h'; exact hraw
        · rw [List.getElem?_set_ne hpp] at h'
          exact hok pc' insn' h'
  · rw [if_neg hpc, if_neg (by omega)]
    exact ⟨rfl, hlen, hok⟩

end HalmosVerif.Lemmas.Contract
