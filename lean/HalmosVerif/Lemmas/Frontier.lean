/-
Lemmas.Frontier — the bookkeeping of `addStates` / `frontier`: every processed post-state is either appended (refreshed) or
its digest belongs to a state kept earlier.
-/
import HalmosVerif.Model.Frontier

namespace HalmosVerif.Model.Frontier

variable {Sym D : Type} [DecidableEq D]

theorem addStates_rep (dig : Sym → D) (refresh : Sym → Sym) (vis0 : List D) :
    ∀ (ss : List Sym) (next : List Sym) (vis : List D),
      (∀ x ∈ vis, x ∈ vis0 ∨ ∃ t, dig t = x ∧ refresh t ∈ next) →
      (∀ y ∈ next, y ∈ (addStates dig refresh ss (next, vis)).1) ∧
      (∀ x ∈ (addStates dig refresh ss (next, vis)).2, x ∈ vis0 ∨ ∃ t, dig t = x ∧ refresh t ∈ (addStates dig refresh ss (next, vis)).1) ∧
      (∀ s ∈ ss, dig s ∈ vis0 ∨ ∃ t, dig t = dig s ∧ refresh t ∈ (addStates dig refresh ss (next, vis)).1) ∧
      (∀ y ∈ (addStates dig refresh ss (next, vis)).1, y ∈ next ∨ ∃ s ∈ ss, y = refresh s) := by
  intro ss
  induction ss with
  | nil =>
    intro next vis inv
    refine ⟨fun y hy => hy, inv, ?_, fun y hy => Or.inl hy⟩
    intro s hs
    cases hs
  | cons s ss ih =>
    intro next vis inv
    by_cases hc : vis.contains (dig s) = true
    · have hm : dig s ∈ vis := by simpa using hc
      have e : addStates dig refresh (s :: ss) (next, vis) = addStates dig refresh ss (next, vis) := by
        simp [addStates, hm]
      rw [e]
      obtain ⟨a, b, c, d⟩ := ih next vis inv
      refine ⟨a, b, ?_, ?_⟩
      · intro s' hs'
        rcases List.mem_cons.mp hs' with h | h
        · subst h
          have : dig s' ∈ vis := by simpa using hc
          rcases inv _ this with h1 | ⟨t, ht, hn⟩
          · exact Or.inl h1
          · exact Or.inr ⟨t, ht, a _ hn⟩
        · exact c s' h
      · intro y hy
        rcases d y hy with h | ⟨s', hs', e'⟩
        · exact Or.inl h
        · exact Or.inr ⟨s', List.mem_cons_of_mem _ hs', e'⟩
    · have hm : ¬ dig s ∈ vis := by simpa using hc
      have e : addStates dig refresh (s :: ss) (next, vis) = addStates dig refresh ss (next ++ [refresh s], dig s :: vis) := by
        simp [addStates, hm]
      rw [e]
      have inv' : ∀ x ∈ dig s :: vis, x ∈ vis0 ∨ ∃ t, dig t = x ∧ refresh t ∈ next ++ [refresh s] := by
        intro x hx
        rcases List.mem_cons.mp hx with h | h
        · exact Or.inr ⟨s, h.symm, by simp⟩
        · rcases inv x h with h1 | ⟨t, ht, hn⟩
          · exact Or.inl h1
          · exact Or.inr ⟨t, ht, List.mem_append_left _ hn⟩
      obtain ⟨a, b, c, d⟩ := ih (next ++ [refresh s]) (dig s :: vis) inv'
      refine ⟨fun y hy => a y (List.mem_append_left _ hy), b, ?_, ?_⟩
      · intro s' hs'
        rcases List.mem_cons.mp hs' with h | h
        · subst h
          exact Or.inr ⟨s', rfl, a _ (by simp)⟩
        · exact c s' h
      · intro y hy
        rcases d y hy with h | ⟨s', hs', e'⟩
        · rcases List.mem_append.mp h with h1 | h1
          · exact Or.inl h1
          · have : y = refresh s := by simpa using h1
            exact Or.inr ⟨s, List.mem_cons_self, this⟩
        · exact Or.inr ⟨s', List.mem_cons_of_mem _ hs', e'⟩

/-- a state whose (refreshed) copy sits in some frontier level ≤ d, or the setUp state itself -/
def Kept (post : Sym → List Sym) (dig : Sym → D) (refresh : Sym → Sym) (s0 : Sym) (d : Nat) (t : Sym) : Prop :=
  t = s0 ∨ ∃ j, j ≤ d ∧ refresh t ∈ (frontier post dig refresh s0 j).1

theorem kept_mono {post : Sym → List Sym} {dig : Sym → D} {refresh : Sym → Sym} {s0 t : Sym} {d e : Nat} (h : d ≤ e) :
    Kept post dig refresh s0 d t → Kept post dig refresh s0 e t := by
  rintro (h0 | ⟨j, hj, hm⟩)
  · exact Or.inl h0
  · exact Or.inr ⟨j, Nat.le_trans hj h, hm⟩

/-- every visited digest is the digest of a kept state -/
theorem visited_rep (post : Sym → List Sym) (dig : Sym → D) (refresh : Sym → Sym) (s0 : Sym) :
    ∀ d, ∀ x ∈ (frontier post dig refresh s0 d).2, ∃ t, dig t = x ∧ Kept post dig refresh s0 d t := by
  intro d
  induction d with
  | zero =>
    intro x hx
    have : x = dig s0 := by simpa [frontier] using hx
    exact ⟨s0, this.symm, Or.inl rfl⟩
  | succ d ih =>
    intro x hx
    have key := (addStates_rep dig refresh (frontier post dig refresh s0 d).2
      ((frontier post dig refresh s0 d).1.flatMap post) [] (frontier post dig refresh s0 d).2
      (fun x hx => Or.inl hx)).2.1
    rcases key x hx with h | ⟨t, ht, hn⟩
    · obtain ⟨t, ht, hk⟩ := ih x h
      exact ⟨t, ht, kept_mono (Nat.le_succ d) hk⟩
    · exact ⟨t, ht, Or.inr ⟨d + 1, Nat.le_refl _, hn⟩⟩

/-- each post-state of a level is appended (refreshed) to the next level or has the digest of a kept state -/
theorem post_kept_or_merged (post : Sym → List Sym) (dig : Sym → D) (refresh : Sym → Sym) (s0 : Sym) (d : Nat)
    (s : Sym) (hs : s ∈ (frontier post dig refresh s0 d).1.flatMap post) :
    ∃ t, dig t = dig s ∧ Kept post dig refresh s0 (d + 1) t := by
  have key := (addStates_rep dig refresh (frontier post dig refresh s0 d).2
    ((frontier post dig refresh s0 d).1.flatMap post) [] (frontier post dig refresh s0 d).2
    (fun x hx => Or.inl hx)).2.2.1
  rcases key s hs with h | ⟨t, ht, hn⟩
  · obtain ⟨t, ht, hk⟩ := visited_rep post dig refresh s0 d _ h
    exact ⟨t, ht, kept_mono (Nat.le_succ d) hk⟩
  · exact ⟨t, ht, Or.inr ⟨d + 1, Nat.le_refl _, hn⟩⟩

/-- nothing enters a frontier level except refreshed post-states of the previous level -/
theorem frontier_origin (post : Sym → List Sym) (dig : Sym → D) (refresh : Sym → Sym) (s0 : Sym) (d : Nat)
    (y : Sym) (hy : y ∈ (frontier post dig refresh s0 (d + 1)).1) :
    ∃ s ∈ (frontier post dig refresh s0 d).1.flatMap post, y = refresh s := by
  have key := (addStates_rep dig refresh (frontier post dig refresh s0 d).2
    ((frontier post dig refresh s0 d).1.flatMap post) [] (frontier post dig refresh s0 d).2
    (fun x hx => Or.inl hx)).2.2.2
  rcases key y hy with h | h
  · cases h
  · exact h

end HalmosVerif.Model.Frontier
