/-
Lemmas.Heap — the child's execution keeps `Model.Heap.Inv`: nothing below the fork bound is ever written.
-/
import HalmosVerif.Model.Heap

namespace HalmosVerif.Model.Heap

open HalmosVerif.Gen.CopyTable (Mode)

theorem fnUpd_ne {α} (g : Nat → α) (k x : Nat) (v : α) (h : x ≠ k) : fnUpd g k v x = g x := by
  simp [fnUpd, h]

theorem fnUpd_eq {α} (g : Nat → α) (k : Nat) (v : α) : fnUpd g k v k = v := by
  simp [fnUpd]

theorem applyOp_setInner_none (h : Heap) (r : Rec) (f i v : Nat) (e : (h.h1 (r f))[i]? = none) :
    applyOp h r (.setInner f i v) = (h, r) := by
  simp [applyOp, e]

theorem applyOp_setInner_some (h : Heap) (r : Rec) (f i v l : Nat) (e : (h.h1 (r f))[i]? = some l) :
    applyOp h r (.setInner f i v) = ({ h with h2 := fnUpd h.h2 l v }, r) := by
  simp [applyOp, e]

theorem inv_of_forked {mode bound h parent child} (F : Forked mode bound h parent child) : Inv mode bound h h child :=
  { nextAbove := F.nextAbove, ownContainer := F.ownContainer, ownItems := F.ownItems,
    frame1 := fun _ _ => rfl, frame2 := fun _ _ => rfl }

theorem inv_step {mode : Nat → Mode} {bound : Nat} {h0 h : Heap} {r : Rec} (I : Inv mode bound h0 h r) (op : Op)
    (A : Allowed mode op) : Inv mode bound h0 (applyOp h r op).1 (applyOp h r op).2 := by
  cases op with
  | rebind f =>
    refine ⟨?_, ?_, ?_, ?_, ?_⟩
    · show bound ≤ h.next + 1
      have := I.nextAbove; omega
    · intro g hg
      show bound ≤ fnUpd r f h.next g
      by_cases e : g = f
      · subst e; rw [fnUpd_eq]; exact I.nextAbove
      · rw [fnUpd_ne _ _ _ _ e]; exact I.ownContainer g hg
    · intro g hg x hx
      have hx' : x ∈ fnUpd h.h1 h.next [] (fnUpd r f h.next g) := hx
      by_cases e : fnUpd r f h.next g = h.next
      · rw [e, fnUpd_eq] at hx'; cases hx'
      · rw [fnUpd_ne _ _ _ _ e] at hx'
        by_cases e2 : g = f
        · subst e2; rw [fnUpd_eq] at e; exact absurd rfl e
        · rw [fnUpd_ne _ _ _ _ e2] at hx'; exact I.ownItems g hg x hx'
    · intro l hl
      show fnUpd h.h1 h.next [] l = h0.h1 l
      have : l ≠ h.next := by have := I.nextAbove; omega
      rw [fnUpd_ne _ _ _ _ this]; exact I.frame1 l hl
    · intro l hl; exact I.frame2 l hl
  | push f v =>
    have hf : bound ≤ r f := I.ownContainer f (by simpa [Allowed, Op.depth, Op.field] using A)
    refine ⟨?_, ?_, ?_, ?_, ?_⟩
    · show bound ≤ h.next + 1
      have := I.nextAbove; omega
    · exact I.ownContainer
    · intro g hg x hx
      have hx' : x ∈ fnUpd h.h1 (r f) (h.h1 (r f) ++ [h.next]) (r g) := hx
      by_cases e : r g = r f
      · rw [e, fnUpd_eq] at hx'
        rcases List.mem_append.mp hx' with h1 | h1
        · exact I.ownItems g hg x (by rw [e]; exact h1)
        · have : x = h.next := by simpa using h1
          rw [this]; exact I.nextAbove
      · rw [fnUpd_ne _ _ _ _ e] at hx'; exact I.ownItems g hg x hx'
    · intro l hl
      show fnUpd h.h1 (r f) _ l = h0.h1 l
      have : l ≠ r f := by omega
      rw [fnUpd_ne _ _ _ _ this]; exact I.frame1 l hl
    · intro l hl
      show fnUpd h.h2 h.next v l = h0.h2 l
      have : l ≠ h.next := by have := I.nextAbove; omega
      rw [fnUpd_ne _ _ _ _ this]; exact I.frame2 l hl
  | clear f =>
    have hf : bound ≤ r f := I.ownContainer f (by simpa [Allowed, Op.depth, Op.field] using A)
    refine ⟨I.nextAbove, I.ownContainer, ?_, ?_, I.frame2⟩
    · intro g hg x hx
      have hx' : x ∈ fnUpd h.h1 (r f) [] (r g) := hx
      by_cases e : r g = r f
      · rw [e, fnUpd_eq] at hx'; cases hx'
      · rw [fnUpd_ne _ _ _ _ e] at hx'; exact I.ownItems g hg x hx'
    · intro l hl
      show fnUpd h.h1 (r f) [] l = h0.h1 l
      have : l ≠ r f := by omega
      rw [fnUpd_ne _ _ _ _ this]; exact I.frame1 l hl
  | setInner f i v =>
    have hd : copyDepth (mode f) = 2 := by
      have : 2 ≤ copyDepth (mode f) := by simpa [Allowed, Op.depth, Op.field] using A
      have : copyDepth (mode f) ≤ 2 := by cases mode f <;> simp [copyDepth]
      omega
    cases hget : (h.h1 (r f))[i]? with
    | none => rw [applyOp_setInner_none h r f i v hget]; exact I
    | some l =>
      have hl : bound ≤ l := I.ownItems f hd l (List.mem_of_getElem? hget)
      rw [applyOp_setInner_some h r f i v l hget]
      refine ⟨I.nextAbove, I.ownContainer, I.ownItems, I.frame1, ?_⟩
      intro l' hl'
      show fnUpd h.h2 l v l' = h0.h2 l'
      have : l' ≠ l := by omega
      rw [fnUpd_ne _ _ _ _ this]; exact I.frame2 l' hl'

theorem inv_run {mode : Nat → Mode} {bound : Nat} {h0 : Heap} (ops : List Op) :
    ∀ {h : Heap} {r : Rec}, Inv mode bound h0 h r → (∀ op ∈ ops, Allowed mode op) →
      Inv mode bound h0 (run h r ops).1 (run h r ops).2 := by
  induction ops with
  | nil => intro h r I _; exact I
  | cons op ops ih =>
    intro h r I A
    have I' := inv_step I op (A op (List.mem_cons_self))
    exact ih I' (fun o ho => A o (List.mem_cons_of_mem _ ho))

end HalmosVerif.Model.Heap
