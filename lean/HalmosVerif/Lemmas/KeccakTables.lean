/-
Lemmas.KeccakTables — boolean checkers for the generated selector / hash tables (evaluated per chunk by the kernel),
the lemmas lifting a checked chunk to `∀ e ∈ chunk`, and the lemmas relating the packed entry point
`keccak256BE len v` (no byte list) to `keccak256 (bytesBE len v)` (the Keccak of the big-endian encoding).
-/
import HalmosVerif.Spec.Keccak

namespace HalmosVerif.Lemmas.KeccakTables
open HalmosVerif.Spec.Keccak

/-! ### checkers -/

/-- a (selector, signature) entry is right -/
def selOk (e : Nat × String) : Bool := selector e.2 == e.1

/-- a `keccak256_256` entry (hash, x) is right: x is a 256-bit word and hash = keccak256(32-byte big-endian x) -/
def h256Ok (e : Nat × Nat) : Bool := decide (e.2 < 2 ^ 256) && keccak256BE 32 e.2 == e.1

/-- a `keccak256_512` entry (hash, a, b) is right; the preimage term halmos registers is `con((a << 256) + b, 512)` -/
def h512Ok (e : Nat × Nat × Nat) : Bool :=
  decide (e.2.1 < 2 ^ 256) && decide (e.2.2 < 2 ^ 256) && keccak256BE 64 ((e.2.1 <<< 256) + e.2.2) == e.1

theorem all_mem {α : Type} {p : α → Bool} {l : List α} (h : l.all p = true) : ∀ e ∈ l, p e = true :=
  List.all_eq_true.mp h

theorem forall_mem_append {α : Type} {P : α → Prop} {s t : List α}
    (hs : ∀ e ∈ s, P e) (ht : ∀ e ∈ t, P e) : ∀ e ∈ s ++ t, P e := by
  intro e he
  rcases List.mem_append.mp he with h | h
  · exact hs e h
  · exact ht e h

/-- a chunk is checked in four pieces of `n` entries: every `by decide +kernel` is its own kernel run (its own auxiliary
lemma), which keeps the kernel's caches — ≈ 11 MB per hash — small -/
theorem all_quarters {α : Type} {p : α → Bool} {l : List α} (n : Nat)
    (h0 : (l.take n).all p = true) (h1 : ((l.drop n).take n).all p = true)
    (h2 : ((l.drop (2 * n)).take n).all p = true) (h3 : (l.drop (3 * n)).all p = true) : l.all p = true := by
  have e : l = l.take n ++ ((l.drop n).take n ++ ((l.drop (2 * n)).take n ++ l.drop (3 * n))) := by
    have a := (List.take_append_drop n l).symm
    have b := (List.take_append_drop n (l.drop n)).symm
    have c := (List.take_append_drop n (l.drop (2 * n))).symm
    rw [List.drop_drop] at b c
    rw [show n + n = 2 * n by omega] at b
    rw [show 2 * n + n = 3 * n by omega] at c
    rw [← c, ← b]
    exact a
  rw [e]
  simp only [List.all_append, h0, h1, h2, h3, Bool.and_self]

/-! ### `byteSwap` is the little-endian reading of the big-endian bytes -/

theorem length_bytesLE (n v : Nat) : (bytesLE n v).length = n := by
  induction n generalizing v with
  | zero => rfl
  | succ n ih => simp [bytesLE, ih]

theorem length_bytesBE (n v : Nat) : (bytesBE n v).length = n := by
  simp [bytesBE, length_bytesLE]

theorem leOfBytes_append_singleton (l : List Nat) (b : Nat) :
    leOfBytes (l ++ [b]) = leOfBytes l + 256 ^ l.length * (b % 256) := by
  induction l with
  | nil => simp [leOfBytes]
  | cons a l ih =>
    simp only [List.cons_append, leOfBytes, ih, List.length_cons, Nat.pow_succ]
    rw [Nat.mul_add, Nat.add_assoc, Nat.mul_comm (256 ^ l.length) 256, Nat.mul_assoc]

theorem leOfBytes_lt (l : List Nat) : leOfBytes l < 256 ^ l.length := by
  induction l with
  | nil => simp [leOfBytes]
  | cons a l ih =>
    simp only [leOfBytes, List.length_cons, Nat.pow_succ]
    have : a % 256 < 256 := Nat.mod_lt _ (by decide)
    omega

theorem byteSwap_eq (n v : Nat) : byteSwap n v = leOfBytes (bytesBE n v) := by
  induction n generalizing v with
  | zero => rfl
  | succ n ih =>
    have hlen : (bytesLE n (v / 256)).reverse.length = n := by simp [length_bytesLE]
    have hlt : leOfBytes (bytesLE n (v / 256)).reverse < 2 ^ (8 * n) := by
      have := leOfBytes_lt (bytesLE n (v / 256)).reverse
      rw [hlen] at this
      rwa [show (256 : Nat) ^ n = 2 ^ (8 * n) by rw [Nat.pow_mul]] at this
    simp only [byteSwap, bytesBE, bytesLE, List.reverse_cons]
    rw [leOfBytes_append_singleton, hlen, ih (v / 256)]
    simp only [bytesBE]
    rw [← Nat.shiftLeft_add_eq_or_of_lt hlt, Nat.shiftLeft_eq, Nat.mod_mod,
      show (256 : Nat) ^ n = 2 ^ (8 * n) by rw [Nat.pow_mul]]
    rw [Nat.add_comm, Nat.mul_comm]

/-- the packed entry point hashes the `len`-byte big-endian encoding of `v` -/
theorem keccak256BE_eq (len v : Nat) : keccak256BE len v = keccak256 (bytesBE len v) := by
  simp only [keccak256BE, keccak256, Fast.keccak256, byteSwap_eq, length_bytesBE]

/-! ### a 64-byte encoding is the concatenation of two 32-byte words -/

theorem bytesLE_add (m n v : Nat) : bytesLE (m + n) v = bytesLE m v ++ bytesLE n (v / 256 ^ m) := by
  induction m generalizing v with
  | zero => simp [bytesLE]
  | succ m ih =>
    rw [show m + 1 + n = (m + n) + 1 by omega]
    simp only [bytesLE, ih, List.cons_append, Nat.pow_succ]
    rw [Nat.div_div_eq_div_mul, Nat.mul_comm 256]

theorem bytesLE_mod (n v : Nat) : bytesLE n (v % 256 ^ n) = bytesLE n v := by
  induction n generalizing v with
  | zero => rfl
  | succ n ih =>
    simp only [bytesLE]
    have h1 : v % 256 ^ (n + 1) % 256 = v % 256 := by
      rw [Nat.pow_succ, Nat.mul_comm]; exact Nat.mod_mul_right_mod v 256 (256 ^ n)
    have h2 : v % 256 ^ (n + 1) / 256 = (v / 256) % 256 ^ n := by
      rw [Nat.pow_succ, Nat.mul_comm, Nat.mod_mul_right_div_self]
    rw [h1, h2, ih]

theorem bytesBE_pair (a b : Nat) (hb : b < 2 ^ 256) :
    bytesBE 64 ((a <<< 256) + b) = bytesBE 32 a ++ bytesBE 32 b := by
  have h256 : (256 : Nat) ^ 32 = 2 ^ 256 := by rw [show (256 : Nat) = 2 ^ 8 by rfl, ← Nat.pow_mul]
  simp only [bytesBE]
  rw [show (64 : Nat) = 32 + 32 by rfl, bytesLE_add, List.reverse_append, h256]
  have hlo : bytesLE 32 ((a <<< 256) + b) = bytesLE 32 b := by
    rw [← bytesLE_mod, h256, Nat.shiftLeft_eq, Nat.add_comm, Nat.add_mul_mod_self_right, Nat.mod_eq_of_lt hb,
      ]
  have hhi : ((a <<< 256) + b) / 2 ^ 256 = a := by
    rw [Nat.shiftLeft_eq, Nat.add_comm, Nat.add_mul_div_right _ _ (Nat.two_pow_pos 256), Nat.div_eq_of_lt hb,
      Nat.zero_add]
  rw [hlo, hhi]

/-! ### what a checked entry means -/

theorem selOk_iff (e : Nat × String) : selOk e = true ↔ selector e.2 = e.1 := by
  simp [selOk]

theorem h256Ok_spec {e : Nat × Nat} (h : h256Ok e = true) :
    e.2 < 2 ^ 256 ∧ keccak256 (bytesBE 32 e.2) = e.1 := by
  simp only [h256Ok, Bool.and_eq_true, decide_eq_true_eq, beq_iff_eq] at h
  exact ⟨h.1, by rw [← keccak256BE_eq]; exact h.2⟩

theorem h512Ok_spec {e : Nat × Nat × Nat} (h : h512Ok e = true) :
    e.2.1 < 2 ^ 256 ∧ e.2.2 < 2 ^ 256 ∧ keccak256 (bytesBE 32 e.2.1 ++ bytesBE 32 e.2.2) = e.1 := by
  simp only [h512Ok, Bool.and_eq_true, decide_eq_true_eq, beq_iff_eq] at h
  refine ⟨h.1.1, h.1.2, ?_⟩
  rw [← bytesBE_pair _ _ h.1.2, ← keccak256BE_eq]
  exact h.2

end HalmosVerif.Lemmas.KeccakTables
