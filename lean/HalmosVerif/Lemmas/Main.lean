/-
Lemmas.Main — facts about the verdict chain, `setup` and `runTests` of Model.Main.
-/
import HalmosVerif.Model.Main

namespace HalmosVerif.Model.Main

theorem pass_potential_unsat {Input} (codes : List Nat) (ps : List (PathRec Input)) (h : verdict codes ps = .pass) :
    ∀ p ∈ ps, classify codes p.outcome = .potential → p.query = .unsat := by
  intro p hp hc
  have hm : p ∈ potentials codes ps := by
    unfold potentials
    rw [List.mem_filter]
    exact ⟨hp, by simp [hc]⟩
  unfold verdict at h
  simp only at h
  split at h
  · cases h
  · rename_i h1
    split at h
    · cases h
    · rename_i h2
      split at h
      · cases h
      · rename_i h3
        rw [Bool.not_eq_true, List.any_eq_false] at h1 h2 h3
        have a := h1 p hm
        have b := h2 p hm
        have c := h3 p hm
        cases hq : p.query <;> simp [hq] at a b c ⊢

theorem pass_no_stuck {Input} (codes : List Nat) (ps : List (PathRec Input)) (h : verdict codes ps = .pass) :
    ∀ p ∈ ps, classify codes p.outcome = .stuck → p.query = .unsat := by
  intro p hp hc
  unfold verdict at h
  simp only at h
  split at h
  · cases h
  · split at h
    · cases h
    · split at h
      · cases h
      · split at h
        · cases h
        · rename_i h4
          rw [Bool.not_eq_true, List.any_eq_false] at h4
          have a := h4 p hp
          cases hq : p.query <;> simp [hq, hc] at a ⊢

theorem pass_has_normal {Input} (codes : List Nat) (ps : List (PathRec Input)) (h : verdict codes ps = .pass) :
    ∃ p ∈ ps, classify codes p.outcome = .normal := by
  unfold verdict at h
  simp only at h
  split at h
  · cases h
  · split at h
    · cases h
    · split at h
      · cases h
      · split at h
        · cases h
        · split at h
          · cases h
          · rename_i h5
            simp only [Bool.not_eq_true, Bool.not_eq_false'] at h5
            rw [List.any_eq_true] at h5
            obtain ⟨p, hp, hc⟩ := h5
            exact ⟨p, hp, by simpa using hc⟩

theorem fail_has_sat {Input} (codes : List Nat) (ps : List (PathRec Input)) (h : verdict codes ps = .fail) :
    ∃ p ∈ ps, classify codes p.outcome = .potential ∧ p.query = .sat := by
  unfold verdict at h
  simp only at h
  split at h
  · rename_i h1
    rw [List.any_eq_true] at h1
    obtain ⟨p, hp, hq⟩ := h1
    unfold potentials at hp
    rw [List.mem_filter] at hp
    exact ⟨p, hp.1, by simpa using hp.2, by simpa using hq⟩
  · split at h
    · cases h
    · split at h
      · cases h
      · split at h
        · cases h
        · split at h <;> cases h

/-! `runTests` -/

theorem runTests_results {C S F R : Type} (runTest : C → S → F → R × C) (c0 : C) (s : S)
    (T : CacheTransparent runTest c0 s) (fs : List F) :
    ∀ c, Reach runTest c0 s c → (runTests runTest c s fs).map (·.2) = fs.map (fun f => (runTest c0 s f).1) := by
  induction fs with
  | nil => intro c _; rfl
  | cons f fs ih =>
    intro c hc
    simp only [runTests, List.map_cons]
    rw [T c hc f, ih _ (Reach.step f hc)]

theorem runTests_mem {C S F R : Type} (runTest : C → S → F → R × C) (c0 : C) (s : S)
    (T : CacheTransparent runTest c0 s) (fs : List F) :
    ∀ c, Reach runTest c0 s c → ∀ f r, (f, r) ∈ runTests runTest c s fs → r = (runTest c0 s f).1 := by
  induction fs with
  | nil => intro c _ f r h; cases h
  | cons g fs ih =>
    intro c hc f r h
    simp only [runTests, List.mem_cons] at h
    rcases h with h | h
    · have h1 : f = g := congrArg Prod.fst h
      have h2 : r = (runTest c s g).1 := congrArg Prod.snd h
      rw [h2, h1, T c hc g]
    · exact ih _ (Reach.step g hc) f r h

theorem runTests_names {C S F R : Type} (runTest : C → S → F → R × C) (s : S) (fs : List F) :
    ∀ c, (runTests runTest c s fs).map (·.1) = fs := by
  induction fs with
  | nil => intro c; rfl
  | cons f fs ih => intro c; simp only [runTests, List.map_cons, ih]

end HalmosVerif.Model.Main
