/-
Lemmas.ModelParse — digits, padding, whitespace splitting: helpers for Props.C04.
-/
import HalmosVerif.Model.ModelParse

namespace HalmosVerif.Lemmas.ModelParse
open HalmosVerif.Model.ReBT HalmosVerif.Model.Rx HalmosVerif.Model.ModelParse

theorem digitVal_digitChar : ∀ d, d < 16 → digitVal (Nat.digitChar d) = d := by decide

theorem isWs_digitChar : ∀ d, d < 16 → isWs (Nat.digitChar d) = false := by decide

theorem mem_toDigits (b : Nat) (hb : 1 < b) (n : Nat) (c : Char) :
    c ∈ Nat.toDigits b n → ∃ d, d < b ∧ c = Nat.digitChar d := by
  induction n using Nat.strongRecOn with
  | _ n ih =>
    rw [Nat.toDigits_eq_if hb]
    split
    · intro h
      simp only [List.mem_singleton] at h
      exact ⟨n, by assumption, h⟩
    · intro h
      simp only [List.mem_append, List.mem_singleton] at h
      rcases h with h | h
      · exact ih (n / b) (Nat.div_lt_self (by omega) hb) h
      · exact ⟨n % b, Nat.mod_lt n (by omega), h⟩

/-- the digits of `n` in base `b ≤ 16` are valid digits of the base and read back to `n` -/
theorem digits_ok (b : Nat) (hb : 1 < b) (hb16 : b ≤ 16) (n : Nat) :
    (Nat.toDigits b n).all (validDigit b) = true ∧
      (Nat.toDigits b n).foldl (fun acc c => b * acc + digitVal c) 0 = n := by
  induction n using Nat.strongRecOn with
  | _ n ih =>
    rw [Nat.toDigits_eq_if hb]
    split
    · rename_i hn
      have hd := digitVal_digitChar n (by omega)
      simp [validDigit, hd, hn]
    · have h1 := ih (n / b) (Nat.div_lt_self (by omega) hb)
      have hm : n % b < b := Nat.mod_lt n (by omega)
      have hd := digitVal_digitChar (n % b) (by omega)
      simp only [List.all_append, List.foldl_append, h1.1, h1.2, List.all_cons, List.all_nil, List.foldl_cons,
        List.foldl_nil, validDigit, hd, Bool.and_true, Bool.true_and, decide_eq_true_eq]
      exact ⟨hm, Nat.div_add_mod n b⟩

theorem foldl_zeros (b k : Nat) :
    (List.replicate k '0').foldl (fun acc c => b * acc + digitVal c) 0 = 0 := by
  induction k with
  | zero => rfl
  | succ k ih =>
    simp only [List.replicate_succ, List.foldl_cons]
    have h0 : digitVal '0' = 0 := by decide
    have : b * 0 + digitVal '0' = 0 := by rw [h0]; simp
    rw [this]; exact ih

theorem pyInt_padded (b : Nat) (hb : 1 < b) (hb16 : b ≤ 16) (k n : Nat) :
    pyInt b (padLeft k (Nat.toDigits b n)) = .ok n := by
  have hd := digits_ok b hb hb16 n
  have hne : Nat.toDigits b n ≠ [] := Nat.toDigits_ne_nil
  have hz : validDigit b '0' = true := by
    have : digitVal '0' = 0 := by decide
    simp [validDigit, this]; omega
  unfold pyInt padLeft
  have h1 : (List.replicate (k - (Nat.toDigits b n).length) '0' ++ Nat.toDigits b n).isEmpty = false := by
    cases h : Nat.toDigits b n with
    | nil => exact absurd h hne
    | cons c cs => simp
  have h2 : (List.replicate (k - (Nat.toDigits b n).length) '0' ++ Nat.toDigits b n).all (validDigit b) = true := by
    rw [List.all_append, hd.1, Bool.and_true, List.all_replicate]
    simp [hz]
  rw [h1, h2]
  simp only [Bool.false_eq_true, if_false, if_true, List.foldl_append, foldl_zeros, hd.2]

theorem pyInt_digits (b : Nat) (hb : 1 < b) (hb16 : b ≤ 16) (n : Nat) : pyInt b (Nat.toDigits b n) = .ok n := by
  have := pyInt_padded b hb hb16 0 n
  simpa [padLeft] using this

theorem splitWsGo_nonws (d : List Char) : ∀ (cur rest : List Char), (∀ c ∈ d, isWs c = false) →
    splitWsGo cur (d ++ rest) = splitWsGo (cur ++ d) rest := by
  induction d with
  | nil => intro cur rest _; simp
  | cons c cs ih =>
    intro cur rest h
    have hc : isWs c = false := h c List.mem_cons_self
    simp only [List.cons_append, splitWsGo, hc, Bool.false_eq_true, if_false]
    rw [ih (cur ++ [c]) rest (fun x hx => h x (List.mem_cons_of_mem _ hx))]
    simp

theorem digits10_nonws (n : Nat) : ∀ c ∈ Nat.toDigits 10 n, isWs c = false := by
  intro c hc
  obtain ⟨d, hd, rfl⟩ := mem_toDigits 10 (by decide) n c hc
  exact isWs_digitChar d (by omega)

theorem stripPrefix_eq_some (p : List Char) : ∀ (s r : List Char), stripPrefix p s = some r ↔ s = p ++ r := by
  induction p with
  | nil => intro s r; simp [stripPrefix]
  | cons a p ih =>
    intro s r
    cases s with
    | nil => simp [stripPrefix]
    | cons c cs =>
      simp only [stripPrefix, List.cons_append, List.cons.injEq]
      split
      · rename_i h; subst h; simp [ih]
      · rename_i h
        constructor
        · intro h'; cases h'
        · rintro ⟨h', _⟩; exact absurd h'.symm h

/-- `isInfix` is Python's `needle in s` -/
theorem isInfix_iff (n : List Char) : ∀ s, isInfix n s = true ↔ ∃ a b, s = a ++ n ++ b := by
  intro s
  induction s with
  | nil =>
    simp only [isInfix, List.isEmpty_iff]
    constructor
    · rintro rfl; exact ⟨[], [], rfl⟩
    · rintro ⟨a, b, h⟩
      have := congrArg List.length h
      simp at this
      exact List.eq_nil_of_length_eq_zero (by omega)
  | cons c cs ih =>
    simp only [isInfix, Bool.or_eq_true, Option.isSome_iff_exists, stripPrefix_eq_some, ih]
    constructor
    · rintro (⟨r, h⟩ | ⟨a, b, h⟩)
      · exact ⟨[], r, by simpa using h⟩
      · exact ⟨c :: a, b, by simp [h]⟩
    · rintro ⟨a, b, h⟩
      cases a with
      | nil => exact Or.inl ⟨b, by simpa using h⟩
      | cons x a =>
        simp only [List.cons_append, List.cons.injEq] at h
        exact Or.inr ⟨a, b, h.2⟩

end HalmosVerif.Lemmas.ModelParse
