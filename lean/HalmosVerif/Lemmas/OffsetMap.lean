/-
Lemmas.OffsetMap — arithmetic of the high/low key split and `find` after `set`, used by Props/C08OffsetMap.
-/
import HalmosVerif.Model.OffsetMap

namespace HalmosVerif.Lemmas.OffsetMap
open HalmosVerif.Model HalmosVerif.Model.OffsetMap

theorem shr_eq_div (k b : Nat) : k >>> b = k / 2 ^ b := Nat.shiftRight_eq_div_pow k b

theorem and_mask_eq_mod (k b : Nat) : k &&& ((1 <<< b) - 1) = k % 2 ^ b := by
  rw [Nat.one_shiftLeft, Nat.and_two_pow_sub_one_eq_mod]

/-- no bucket crossing: `k % P + d < P` -/
theorem split_same (k d P : Nat) (hP : 0 < P) (h : k % P + d < P) :
    (k + d) / P = k / P ∧ (k + d) % P = k % P + d := by
  have hk : k + d = (k % P + d) + P * (k / P) := by
    have := Nat.mod_add_div k P; omega
  rw [hk]
  constructor
  · rw [Nat.add_mul_div_left _ _ hP, Nat.div_eq_of_lt h, Nat.zero_add]
  · rw [Nat.add_mul_mod_self_left, Nat.mod_eq_of_lt h]

/-- one bucket crossing: `P ≤ k % P + d`, `d < P` -/
theorem split_cross (k d P : Nat) (hP : 0 < P) (h : P ≤ k % P + d) (hd : d < P) :
    (k + d) / P = k / P + 1 ∧ (k + d) % P = k % P + d - P := by
  have hlt : k % P < P := Nat.mod_lt _ hP
  have hk : k + d = (k % P + d - P) + P * (k / P + 1) := by
    have := Nat.mod_add_div k P
    rw [Nat.mul_add, Nat.mul_one]; omega
  have hr : k % P + d - P < P := by omega
  rw [hk]
  constructor
  · rw [Nat.add_mul_div_left _ _ hP, Nat.div_eq_of_lt hr, Nat.zero_add]
  · rw [Nat.add_mul_mod_self_left, Nat.mod_eq_of_lt hr]

/-- going down inside the bucket: `d ≤ k % P` -/
theorem split_down (k d P : Nat) (hP : 0 < P) (h : d ≤ k % P) :
    (k - d) / P = k / P ∧ (k - d) % P = k % P - d := by
  have hlt : k % P < P := Nat.mod_lt _ hP
  have hk : k - d = (k % P - d) + P * (k / P) := by
    have := Nat.mod_add_div k P; omega
  have hr : k % P - d < P := by omega
  rw [hk]
  constructor
  · rw [Nat.add_mul_div_left _ _ hP, Nat.div_eq_of_lt hr, Nat.zero_add]
  · rw [Nat.add_mul_mod_self_left, Nat.mod_eq_of_lt hr]

variable {α : Type} [DecidableEq α]

theorem set_eq (m : OffsetMap α) (k : Nat) (v : α) :
    m.set k v = (match m.find (k >>> m.bits) with
      | none => some { m with entries := (k >>> m.bits, (v, k &&& m.mask)) :: m.entries }
      | some existing => if existing = (v, k &&& m.mask) then some m else none) := rfl

theorem bits_of_set {m m' : OffsetMap α} {k : Nat} {v : α} (h : m.set k v = some m') : m'.bits = m.bits := by
  rw [set_eq] at h
  split at h
  · cases h; rfl
  · split at h
    · cases h; rfl
    · cases h

theorem mask_of_set {m m' : OffsetMap α} {k : Nat} {v : α} (h : m.set k v = some m') : m'.mask = m.mask := by
  simp only [OffsetMap.mask, bits_of_set h]

/-- after a successful `m[k] = v`, the bucket of `k` holds `(v, k & mask)` -/
theorem find_set_self {m m' : OffsetMap α} {k : Nat} {v : α} (h : m.set k v = some m') :
    m'.find (k >>> m.bits) = some (v, k &&& m.mask) := by
  rw [set_eq] at h
  split at h
  · cases h
    simp [OffsetMap.find, List.find?]
  · rename_i existing hex
    split at h
    · rename_i heq
      cases h
      rw [hex, heq]
    · cases h

/-- … and every other bucket is unchanged -/
theorem find_set_other {m m' : OffsetMap α} {k : Nat} {v : α} (h : m.set k v = some m') {rk : Nat}
    (hne : rk ≠ k >>> m.bits) : m'.find rk = m.find rk := by
  rw [set_eq] at h
  split at h
  · cases h
    have : ((k >>> m.bits) == rk) = false := by
      simp only [beq_eq_false_iff_ne, ne_eq]; exact fun e => hne e.symm
    simp [OffsetMap.find, List.find?, this]
  · split at h
    · cases h; rfl
    · cases h

end HalmosVerif.Lemmas.OffsetMap
