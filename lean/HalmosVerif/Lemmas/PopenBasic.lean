/-
Lemmas.PopenBasic — case analysis of one step of Model.Popen and the invariants that hold for every variant
(lock discipline, monotone shutdown flag, one worker per submitter, `set_result` count, process/worker relation,
cancel tasks).
-/
import HalmosVerif.Model.Popen

namespace HalmosVerif.Model.Popen

theorem step_eq {v c σ l σ'} (h : step v c σ l = some σ') : ∃ op, stepOp v c σ l = some (op, σ') := by
  simp only [step, Option.map_eq_some_iff] at h
  obtain ⟨⟨op, σ1⟩, h, rfl⟩ := h
  exact ⟨op, h⟩

/-- split `h : step v c σ l = some σ'` into one goal per (thread, program counter, branch), with `σ'` replaced by
the updated state and the guards of the branch in the context -/
macro "step_all " h:ident : tactic => `(tactic| (
  replace $h:ident := step_eq $h:ident
  obtain ⟨op, $h:ident⟩ := $h:ident
  unfold stepOp at $h:ident
  split at $h:ident <;> split at $h:ident <;> (try (cases $h:ident; done)) <;>
  (try unfold subStep at $h:ident) <;> (try unfold wStep at $h:ident) <;> (try unfold shStep at $h:ident) <;>
  (try unfold cStep at $h:ident) <;> (try simp only [joinResume] at $h:ident) <;>
  (repeat' split at $h:ident) <;> cases $h:ident))

/-! program-counter classes -/

def SubPc.crit : SubPc → Bool
  | .inChk | .inApp | .inStart | .inRel | .rejRel => true
  | _ => false

def ShPc.crit : ShPc → Bool
  | .snapT | .poolWait | .rel | .jSnapL | .jRel => true
  | _ => false

/-- the worker thread has been created -/
def SubPc.afterStart : SubPc → Bool
  | .inRel | .accepted | .waiting | .done => true
  | _ => false

/-- the future is in `_futures` -/
def SubPc.appended : SubPc → Bool
  | .inStart | .inRel | .accepted | .waiting | .done => true
  | _ => false

def WPc.prePopen : WPc → Bool
  | .notStarted | .sAcq | .popen => true
  | _ => false

def WPc.postComm : WPc → Bool
  | .cMark | .cPoll | .cTerm | .cKill | .setRes | .fin => true
  | _ => false

/-- the shutdown caller has created its cancel tasks -/
def ShPc.tasked : ShPc → Bool
  | .poolWait | .rel | .ret => true
  | _ => false

/-- invariants of every variant -/
structure Inv (σ : State) : Prop where
  lock_sub : ∀ s, (σ.sub s).crit = true → σ.lock = some (.sub s)
  lock_sh : ∀ k, (σ.sh k).crit = true → σ.lock = some (.sh k)
  flag : ∀ k, σ.sh k ≠ .start → σ.flag = true
  once : ∀ s, σ.wpc s ≠ .notStarted → (σ.sub s).afterStart = true
  mem : ∀ s, (σ.sub s).appended = true → s ∈ σ.futs
  memconv : ∀ s, s ∈ σ.futs → (σ.sub s).appended = true
  results : ∀ i, σ.results i = if σ.wpc i = .fin then 1 else 0
  pre : ∀ i, (σ.wpc i).prePopen = true → σ.proc i = .none
  exn : ∀ i, σ.exn i ≠ .none → (σ.wpc i).postComm = true
  notask : ∀ k i, (σ.sh k).tasked = false → σ.task k i = .absent
  alldone : ∀ k i, σ.sh k = .rel ∨ σ.sh k = .ret → i ∈ σ.snap k → σ.task k i = .done
  dead : ∀ i, σ.wpc i = .setRes ∨ σ.wpc i = .fin → σ.proc i ≠ .running

theorem inv_init : Inv init := by
  constructor <;> simp [init, SubPc.crit, ShPc.crit, SubPc.appended, ShPc.tasked, WPc.prePopen]

theorem inv_lock_sub {v c σ l σ'} (h : step v c σ l = some σ') (I : Inv σ) :
    ∀ s, (σ'.sub s).crit = true → σ'.lock = some (.sub s) := by
  have h1 := I.lock_sub
  have h2 := I.lock_sh
  step_all h <;> intro s' <;> simp only [upd_apply] <;> grind [SubPc.crit, ShPc.crit]

theorem inv_lock_sh {v c σ l σ'} (h : step v c σ l = some σ') (I : Inv σ) :
    ∀ k, (σ'.sh k).crit = true → σ'.lock = some (.sh k) := by
  have h1 := I.lock_sub
  have h2 := I.lock_sh
  step_all h <;> intro s' <;> simp only [upd_apply] <;> grind [SubPc.crit, ShPc.crit, joinNext]

theorem inv_flag {v c σ l σ'} (h : step v c σ l = some σ') (I : Inv σ) :
    ∀ k, σ'.sh k ≠ .start → σ'.flag = true := by
  have h1 := I.flag
  step_all h <;> intro s' <;> simp only [upd_apply] <;> grind [joinNext]

theorem inv_once {v c σ l σ'} (h : step v c σ l = some σ') (I : Inv σ) :
    ∀ s, σ'.wpc s ≠ .notStarted → (σ'.sub s).afterStart = true := by
  have h1 := I.once
  step_all h <;> intro s' <;> simp only [upd_apply] <;> grind [SubPc.afterStart]

theorem inv_mem {v c σ l σ'} (h : step v c σ l = some σ') (I : Inv σ) :
    ∀ s, (σ'.sub s).appended = true → s ∈ σ'.futs := by
  have h1 := I.mem
  step_all h <;> intro s' <;> simp only [upd_apply, List.mem_append, List.mem_singleton] <;> grind [SubPc.appended]

theorem inv_memconv {v c σ l σ'} (h : step v c σ l = some σ') (I : Inv σ) :
    ∀ s, s ∈ σ'.futs → (σ'.sub s).appended = true := by
  have h1 := I.memconv
  step_all h <;> intro s' <;> simp only [upd_apply, List.mem_append, List.mem_singleton] <;> grind [SubPc.appended]

theorem inv_results {v c σ l σ'} (h : step v c σ l = some σ') (I : Inv σ) :
    ∀ i, σ'.results i = if σ'.wpc i = .fin then 1 else 0 := by
  have h1 := I.results
  have h2 := I.once
  step_all h <;> intro s' <;> simp only [upd_apply] <;> grind [SubPc.afterStart]

theorem inv_pre {v c σ l σ'} (h : step v c σ l = some σ') (I : Inv σ) :
    ∀ i, (σ'.wpc i).prePopen = true → σ'.proc i = .none := by
  have h1 := I.pre
  have h2 := I.once
  step_all h <;> intro s' <;> simp only [upd_apply] <;> grind [WPc.prePopen, termProc, killProc, SubPc.afterStart]

theorem inv_exn {v c σ l σ'} (h : step v c σ l = some σ') (I : Inv σ) :
    ∀ i, σ'.exn i ≠ .none → (σ'.wpc i).postComm = true := by
  have h1 := I.exn
  have h2 := I.once
  step_all h <;> intro s' <;> simp only [upd_apply] <;> grind [WPc.postComm, SubPc.afterStart]

theorem inv_notask {v c σ l σ'} (h : step v c σ l = some σ') (I : Inv σ) :
    ∀ k i, (σ'.sh k).tasked = false → σ'.task k i = .absent := by
  have h1 := I.notask
  step_all h <;> intro k' i' <;> simp only [upd_apply, upd2_apply] <;> grind [ShPc.tasked, joinNext]

theorem inv_alldone {v c σ l σ'} (h : step v c σ l = some σ') (I : Inv σ) :
    ∀ k i, σ'.sh k = .rel ∨ σ'.sh k = .ret → i ∈ σ'.snap k → σ'.task k i = .done := by
  have h1 := I.alldone
  step_all h <;> intro k' i' <;> simp only [upd_apply, upd2_apply] <;>
    (try simp only [List.all_eq_true, beq_iff_eq] at *) <;> grind [joinNext]

theorem inv_dead {v c σ l σ'} (h : step v c σ l = some σ') (I : Inv σ) :
    ∀ i, σ'.wpc i = .setRes ∨ σ'.wpc i = .fin → σ'.proc i ≠ .running := by
  have h1 := I.dead
  have h2 := I.pre
  have h3 := I.once
  step_all h <;> intro s' <;> simp only [upd_apply] <;> grind [WPc.prePopen, termProc, killProc, SubPc.afterStart]

theorem inv_step {v c σ l σ'} (h : step v c σ l = some σ') (I : Inv σ) : Inv σ' :=
  ⟨inv_lock_sub h I, inv_lock_sh h I, inv_flag h I, inv_once h I, inv_mem h I, inv_memconv h I, inv_results h I, inv_pre h I,
   inv_exn h I, inv_notask h I, inv_alldone h I, inv_dead h I⟩

theorem inv_reach {v c σ} (h : Reach v c σ) : Inv σ := by
  induction h with
  | init => exact inv_init
  | step l _ hs ih => exact inv_step hs ih

theorem steps_reach {v c σ σ'} (h0 : Reach v c σ) (h : Steps v c σ σ') : Reach v c σ' := by
  induction h with
  | refl => exact h0
  | step l _ hs ih => exact Reach.step l ih hs

end HalmosVerif.Model.Popen
