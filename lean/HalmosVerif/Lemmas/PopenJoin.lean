/-
Lemmas.PopenJoin — `shutdown(wait=True)` of the repaired code (`submit` reads the flag under `_lock`; `_join` snapshots
under `_lock` and waits for all futures): when it returns every registered job has delivered and nothing runs.
-/
import HalmosVerif.Lemmas.PopenShutdown

namespace HalmosVerif.Model.Popen

/-- shutdown caller (wait=True, repaired) holds or has held `_lock` -/
def ShPc.jPast : ShPc → Bool
  | .jSnapL | .jRel | .jWaitAll | .jret => true
  | _ => false

def ShPc.jSnapped : ShPc → Bool
  | .jRel | .jWaitAll | .jret => true
  | _ => false

/-- program counters of the current `_join` -/
def ShPc.oldJoin : ShPc → Bool
  | .jSnap | .jRes | .jWait | .raised => true
  | _ => false

structure JInv (σ : State) : Prop where
  nojoin : ∀ k, (σ.sh k).oldJoin = false
  jclosed : ∀ k s, (σ.sh k).jPast = true → σ.sub s ≠ .inApp ∧ σ.sub s ≠ .inStart
  jsnapeq : ∀ k, (σ.sh k).jSnapped = true → σ.snap k = σ.futs
  jdone : ∀ k i, σ.sh k = .jret → i ∈ σ.snap k → σ.wpc i = .fin

theorem jinv_init : JInv init := by
  constructor <;> simp [init, ShPc.jPast, ShPc.jSnapped, ShPc.oldJoin]

theorem jinv_nojoin {v c σ l σ'} (hv : v.joinFixed = true) (h : step v c σ l = some σ') (J : JInv σ) :
    ∀ k, (σ'.sh k).oldJoin = false := by
  have h1 := J.nojoin
  step_all h <;> intro k' <;> simp only [upd_apply] <;> grind [ShPc.oldJoin, joinNext]

theorem jinv_jclosed {v c σ l σ'} (h : step v c σ l = some σ') (I : Inv σ) (F : FInv σ) (J : JInv σ) :
    ∀ k s, (σ'.sh k).jPast = true → σ'.sub s ≠ .inApp ∧ σ'.sub s ≠ .inStart := by
  have h1 := F.nopre
  have h2 := J.jclosed
  have h3 := I.lock_sub
  have h4 := I.flag
  have h5 := J.nojoin
  step_all h <;> intro k' s' <;> simp only [upd_apply] <;>
    grind [ShPc.jPast, ShPc.oldJoin, SubPc.crit, joinNext]

theorem jSnapped_jPast {pc : ShPc} (h : pc.jSnapped = true) : pc.jPast = true := by
  cases pc <;> simp_all [ShPc.jSnapped, ShPc.jPast]

theorem jinv_jsnapeq {v c σ l σ'} (h : step v c σ l = some σ') (J : JInv σ) :
    ∀ k, (σ'.sh k).jSnapped = true → σ'.snap k = σ'.futs := by
  have h2 := J.jclosed
  have h3 := J.jsnapeq
  have h4 : ∀ k, (σ.sh k).jSnapped = true → (σ.sh k).jPast = true := fun k => jSnapped_jPast
  have h5 := J.nojoin
  step_all h <;> intro k' <;> simp only [upd_apply] <;>
    grind [ShPc.jPast, ShPc.jSnapped, ShPc.oldJoin, joinNext]

theorem jinv_jdone {v c σ l σ'} (h : step v c σ l = some σ') (I : Inv σ) (J : JInv σ) :
    ∀ k i, σ'.sh k = .jret → i ∈ σ'.snap k → σ'.wpc i = .fin := by
  have h1 := J.jdone
  have h2 := I.once
  have h5 := J.nojoin
  step_all h <;> intro k' i' <;> simp only [upd_apply] <;>
    (try simp only [List.all_eq_true, finished, beq_iff_eq] at *) <;>
    grind [ShPc.oldJoin, SubPc.afterStart, joinNext]

theorem jinv_reach {v c σ} (hv1 : v.submitLocked = true) (hv3 : v.joinFixed = true) (h : Reach v c σ) : JInv σ := by
  induction h with
  | init => exact jinv_init
  | step l hr hs ih =>
    have I := inv_reach hr
    have F := finv_reach hv1 hr
    exact ⟨jinv_nojoin hv3 hs ih, jinv_jclosed hs I F ih, jinv_jsnapeq hs ih, jinv_jdone hs I ih⟩

theorem jret_stable {v c σ l σ' k} (h : step v c σ l = some σ') (hk : σ.sh k = .jret) : σ'.sh k = .jret := by
  step_all h <;> simp only [upd_apply] <;> grind [joinNext]

/-- repaired code: when `shutdown(wait=True)` has returned every registered job has delivered its result and no
process is running -/
theorem fixed_join_quiescent {v c σ k} (hv1 : v.submitLocked = true) (hv3 : v.joinFixed = true)
    (hr : Reach v c σ) (hk : σ.sh k = .jret) :
    (∀ i, i ∈ σ.futs → σ.wpc i = .fin) ∧ ∀ i, σ.proc i ≠ .running := by
  have I := inv_reach hr
  have J := jinv_reach hv1 hv3 hr
  have hs : σ.snap k = σ.futs := J.jsnapeq k (by simp [hk, ShPc.jSnapped])
  have hfin : ∀ i, i ∈ σ.futs → σ.wpc i = .fin := fun i hi => J.jdone k i hk (hs ▸ hi)
  refine ⟨hfin, fun i => ?_⟩
  by_cases hi : i ∈ σ.futs
  · exact I.dead i (Or.inr (hfin i hi))
  · simp [(unregistered_idle I hi).2]

theorem fixed_join_closed {v c σ σ' k} (hv1 : v.submitLocked = true) (hv3 : v.joinFixed = true)
    (hr : Reach v c σ) (hk : σ.sh k = .jret) (hs : Steps v c σ σ') : σ'.sh k = .jret ∧ σ'.futs = σ.futs := by
  induction hs with
  | refl => exact ⟨hk, rfl⟩
  | step l hst h1 ih =>
    have J := jinv_reach hv1 hv3 (steps_reach hr hst)
    refine ⟨jret_stable h1 ih.1, ?_⟩
    rw [← ih.2]
    exact futs_stable h1 (fun s => (J.jclosed k s (by simp [ih.1, ShPc.jPast])).1)

end HalmosVerif.Model.Popen
