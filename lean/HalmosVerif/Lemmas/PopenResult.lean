/-
Lemmas.PopenResult — the worker thread: rank, frame, progress; stability of a stored TimeoutExpired; executing a
concrete trace gives a reachable state.
-/
import HalmosVerif.Lemmas.PopenBasic

namespace HalmosVerif.Model.Popen

/-- number of steps the worker thread has at most left (+1) -/
def wrank : WPc → Nat
  | .notStarted => 10 | .sAcq => 9 | .popen => 8 | .comm => 7 | .cMark => 6 | .cPoll => 5
  | .cTerm => 4 | .cKill => 3 | .setRes => 2 | .fin => 1

def Label.isWorker (i : Nat) : Label → Bool
  | .w j _ => j == i
  | _ => false

/-- every step of worker `i` lowers its rank -/
theorem worker_step_rank {v c σ σ' i t} (h : step v c σ (.w i t) = some σ') :
    wrank (σ'.wpc i) < wrank (σ.wpc i) := by
  step_all h <;> simp only [upd_apply] <;> grind [wrank]

/-- nobody else touches the program counter of a started worker -/
theorem worker_frame {v c σ σ' l i} (h : step v c σ l = some σ') (I : Inv σ) (hw : σ.wpc i ≠ .notStarted)
    (hl : l.isWorker i = false) : σ'.wpc i = σ.wpc i := by
  have h1 := I.once i
  step_all h <;> simp only [upd_apply] <;> grind [Label.isWorker, SubPc.afterStart]

theorem fin_stable {v c σ σ' l i} (h : step v c σ l = some σ') (I : Inv σ) (hw : σ.wpc i = .fin) :
    σ'.wpc i = .fin := by
  have h1 := I.once i
  step_all h <;> simp only [upd_apply] <;> grind [SubPc.afterStart]

/-- a started, unfinished worker can move, unless it is blocked in `communicate` on a live process without timeout -/
theorem worker_enabled {v c σ i} (hi : i < c.nsub) (h1 : σ.wpc i ≠ .notStarted) (h2 : σ.wpc i ≠ .fin) :
    (∃ t, enabled v c σ (.w i t) = true) ∨
    (σ.wpc i = .comm ∧ σ.proc i = .running ∧ (c.job i).hasTimeout = false ∧ enabled v c σ (.exit i) = true) := by
  cases hw : σ.wpc i
  case notStarted => exact absurd hw h1
  case fin => exact absurd hw h2
  case comm =>
    by_cases hp : σ.proc i = .running
    · cases ht : (c.job i).hasTimeout
      · right; simp [enabled, stepOp, hi, hp]
      · left; exact ⟨true, by simp [enabled, stepOp, wStep, hi, hw, hp, ht]⟩
    · left; exact ⟨false, by simp [enabled, stepOp, wStep, hi, hw, hp]⟩
  all_goals (left; refine ⟨false, ?_⟩; simp only [enabled, stepOp, wStep, hi, hw, if_true]; repeat' split) <;> simp_all

/-- once the process is gone `communicate` returns -/
theorem comm_returns {v c σ i} (hi : i < c.nsub) (hw : σ.wpc i = .comm) (hp : σ.proc i ≠ .running) :
    enabled v c σ (.w i false) = true := by
  simp [enabled, stepOp, wStep, hi, hw, hp]

/-- `result()` returns once `set_result` was executed (submitter side) -/
theorem result_returns {v c σ s} (hs : s < c.nsub) (hw : σ.wpc s = .fin)
    (hp : σ.sub s = .accepted ∨ σ.sub s = .waiting) :
    ∃ σ', step v c σ (.sub s) = some σ' ∧ σ'.sub s = .done := by
  rcases hp with hp | hp <;> simp [step, stepOp, subStep, hs, hp, finished, hw]

/-- a stored TimeoutExpired is never overwritten -/
theorem timeout_stable {v c σ σ' l i} (h : step v c σ l = some σ') (I : Inv σ) (he : σ.exn i = .timeout) :
    σ'.exn i = .timeout := by
  have h1 := I.exn i
  have h2 := I.once i
  step_all h <;> simp only [upd_apply] <;> grind [WPc.postComm, SubPc.afterStart]

theorem timeout_stored {v c σ σ' i} (h : step v c σ (.w i true) = some σ') : σ'.exn i = .timeout := by
  step_all h <;> simp only [upd_apply] <;> grind

theorem timeout_steps {v c σ σ' i} (hr : Reach v c σ) (he : σ.exn i = .timeout) (hs : Steps v c σ σ') :
    σ'.exn i = .timeout := by
  induction hs with
  | refl => exact he
  | step l hst h1 ih => exact timeout_stable h1 (inv_reach (steps_reach hr hst)) ih

theorem reach_run_from {v c σ σ'} (tr : List Label) (hr : Reach v c σ) (h : run v c σ tr = some σ') :
    Reach v c σ' := by
  induction tr generalizing σ with
  | nil => simp [run] at h; exact h ▸ hr
  | cons l ls ih =>
    simp only [run] at h
    split at h
    · next σ1 h1 => exact ih (Reach.step l hr h1) h
    · cases h

theorem reach_run {v c σ'} (tr : List Label) (h : run v c init tr = some σ') : Reach v c σ' :=
  reach_run_from tr Reach.init h

theorem steps_run {v c σ σ'} (tr : List Label) (h : run v c σ tr = some σ') : Steps v c σ σ' := by
  induction tr generalizing σ with
  | nil => simp [run] at h; exact h ▸ Steps.refl σ
  | cons l ls ih =>
    simp only [run] at h
    split at h
    · next σ1 h1 =>
      have := ih h
      -- prepend the first step
      clear ih h
      induction this with
      | refl => exact Steps.step l (Steps.refl σ) h1
      | step l' _ h2 ih2 => exact Steps.step l' ih2 h2
    · cases h

end HalmosVerif.Model.Popen
