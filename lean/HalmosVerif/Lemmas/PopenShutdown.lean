/-
Lemmas.PopenShutdown — invariants of the repaired variants (flag read under the lock; cancel flag checked under the
per-future start lock) and of the current code under the side condition `Calm`, leading to quiescence after
`shutdown(wait=False)` returned.
-/
import HalmosVerif.Lemmas.PopenBasic

namespace HalmosVerif.Model.Popen

/-- shutdown caller (wait=False) holds or has held `_lock` -/
def ShPc.pastAcq : ShPc → Bool
  | .snapT | .poolWait | .rel | .ret => true
  | _ => false

def CPc.marked : CPc → Bool
  | .poll | .term | .kill | .done => true
  | _ => false

theorem tasked_pastAcq {pc : ShPc} (h : pc.tasked = true) : pc.pastAcq = true := by
  cases pc <;> simp_all [ShPc.tasked, ShPc.pastAcq]

/-- invariants when `submit` reads the flag under the lock -/
structure FInv (σ : State) : Prop where
  nopre : ∀ s, σ.sub s ≠ .preAcq
  closed : ∀ k s, (σ.sh k).pastAcq = true → σ.sub s ≠ .inApp ∧ σ.sub s ≠ .inStart
  snapeq : ∀ k, (σ.sh k).tasked = true → σ.snap k = σ.futs

theorem finv_init : FInv init := by
  constructor <;> simp [init, ShPc.pastAcq, ShPc.tasked]

theorem finv_nopre {v c σ l σ'} (hv : v.submitLocked = true) (h : step v c σ l = some σ') (F : FInv σ) :
    ∀ s, σ'.sub s ≠ .preAcq := by
  have h1 := F.nopre
  step_all h <;> intro s' <;> simp only [upd_apply] <;> grind

theorem finv_closed {v c σ l σ'} (hv : v.submitLocked = true) (h : step v c σ l = some σ') (I : Inv σ)
    (F : FInv σ) : ∀ k s, (σ'.sh k).pastAcq = true → σ'.sub s ≠ .inApp ∧ σ'.sub s ≠ .inStart := by
  have h1 := F.nopre
  have h2 := F.closed
  have h3 := I.lock_sub
  have h4 := I.flag
  step_all h <;> intro k' s' <;> simp only [upd_apply] <;> grind [ShPc.pastAcq, SubPc.crit, joinNext]

theorem finv_snapeq {v c σ l σ'} (h : step v c σ l = some σ') (F : FInv σ) :
    ∀ k, (σ'.sh k).tasked = true → σ'.snap k = σ'.futs := by
  have h2 := F.closed
  have h3 := F.snapeq
  have h4 : ∀ k, (σ.sh k).tasked = true → (σ.sh k).pastAcq = true := fun k => tasked_pastAcq
  step_all h <;> intro k' <;> simp only [upd_apply] <;> grind [ShPc.pastAcq, ShPc.tasked, joinNext]

theorem finv_step {v c σ l σ'} (hv : v.submitLocked = true) (h : step v c σ l = some σ') (I : Inv σ)
    (F : FInv σ) : FInv σ' :=
  ⟨finv_nopre hv h F, finv_closed hv h I F, finv_snapeq h F⟩

theorem finv_reach {v c σ} (hv : v.submitLocked = true) (h : Reach v c σ) : FInv σ := by
  induction h with
  | init => exact finv_init
  | step l hr hs ih => exact finv_step hv hs (inv_reach hr) ih

/-- invariants when `cancel()` sets the flag that `run` checks under the start lock -/
structure CInv (σ : State) : Prop where
  marked : ∀ k i, (σ.task k i).marked = true → σ.creq i = true
  killed : ∀ k i, σ.task k i = .done → σ.proc i ≠ .running
  held : ∀ i, σ.wpc i = .popen → σ.creq i = false

theorem cinv_init : CInv init := by
  constructor <;> simp [init, CPc.marked]

theorem cinv_marked {v c σ l σ'} (hv : v.cancelFlag = true) (h : step v c σ l = some σ') (C : CInv σ) :
    ∀ k i, (σ'.task k i).marked = true → σ'.creq i = true := by
  have h1 := C.marked
  step_all h <;> intro k' i' <;> simp only [upd_apply, upd2_apply] <;> grind [CPc.marked]

theorem cinv_killed {v c σ l σ'} (hv : v.cancelFlag = true) (h : step v c σ l = some σ') (C : CInv σ) :
    ∀ k i, σ'.task k i = .done → σ'.proc i ≠ .running := by
  have h1 := C.marked
  have h2 := C.killed
  have h3 := C.held
  step_all h <;> intro k' i' <;> simp only [upd_apply, upd2_apply] <;> grind [CPc.marked, termProc, killProc]

theorem cinv_held {v c σ l σ'} (hv : v.cancelFlag = true) (h : step v c σ l = some σ') (C : CInv σ) :
    ∀ i, σ'.wpc i = .popen → σ'.creq i = false := by
  have h3 := C.held
  step_all h <;> intro i' <;> simp only [upd_apply] <;> grind

theorem cinv_reach {v c σ} (hv : v.cancelFlag = true) (h : Reach v c σ) : CInv σ := by
  induction h with
  | init => exact cinv_init
  | step l _ hs ih => exact ⟨cinv_marked hv hs ih, cinv_killed hv hs ih, cinv_held hv hs ih⟩

/-- a job that is not registered has no worker and no process -/
theorem unregistered_idle {σ : State} (I : Inv σ) {i : Nat} (hi : i ∉ σ.futs) :
    σ.wpc i = .notStarted ∧ σ.proc i = .none := by
  have h1 := I.mem i
  have h2 := I.once i
  have h3 := I.pre i
  have : σ.wpc i = .notStarted := by
    cases hs : σ.sub i <;> cases hw : σ.wpc i <;> simp_all [SubPc.appended, SubPc.afterStart]
  exact ⟨this, h3 (by simp [this, WPc.prePopen])⟩

/-- repaired code: when `shutdown(wait=False)` has returned no process is running -/
theorem fixed_quiescent {v c σ k} (hv1 : v.submitLocked = true) (hv2 : v.cancelFlag = true)
    (hr : Reach v c σ) (hk : σ.sh k = .ret) : ∀ i, σ.proc i ≠ .running := by
  intro i
  have I := inv_reach hr
  have F := finv_reach hv1 hr
  have C := cinv_reach hv2 hr
  by_cases hi : i ∈ σ.futs
  · have hs : σ.snap k = σ.futs := F.snapeq k (by simp [hk, ShPc.tasked])
    exact C.killed k i (I.alldone k i (Or.inr hk) (hs ▸ hi))
  · simp [(unregistered_idle I hi).2]

/-- a returned shutdown caller stays returned -/
theorem ret_stable {v c σ l σ' k} (h : step v c σ l = some σ') (hk : σ.sh k = .ret) : σ'.sh k = .ret := by
  step_all h <;> simp only [upd_apply] <;> grind [joinNext]

/-- `_futures` only changes by the `append` of a submitter at `inApp` -/
theorem futs_stable {v c σ l σ'} (h : step v c σ l = some σ') (hs : ∀ s, σ.sub s ≠ .inApp) : σ'.futs = σ.futs := by
  step_all h <;> grind

theorem fixed_closed {v c σ σ' k} (hv1 : v.submitLocked = true) (hr : Reach v c σ) (hk : σ.sh k = .ret)
    (hs : Steps v c σ σ') : σ'.sh k = .ret ∧ σ'.futs = σ.futs := by
  induction hs with
  | refl => exact ⟨hk, rfl⟩
  | step l hst h1 ih =>
    have hr' := steps_reach hr hst
    have F := finv_reach hv1 hr'
    refine ⟨ret_stable h1 ih.1, ?_⟩
    rw [← ih.2]
    exact futs_stable h1 (fun s => (F.closed k s (by simp [ih.1, ShPc.pastAcq])).1)

/-! ### the current code under the side condition -/

/-- no submit is between its flag read and its `Thread.start`, no worker thread is still before `Popen`,
and the shutdown flag is set -/
def Calm (σ : State) : Prop :=
  σ.flag = true ∧ (∀ s, σ.sub s ≠ .preAcq ∧ σ.sub s ≠ .inApp ∧ σ.sub s ≠ .inStart) ∧
  (∀ i, σ.wpc i ≠ .sAcq ∧ σ.wpc i ≠ .popen)

theorem calm_step {v c σ l σ'} (h : step v c σ l = some σ') (hc : Calm σ) : Calm σ' := by
  obtain ⟨h1, h2, h3⟩ := hc
  refine ⟨?_, ?_, ?_⟩
  · step_all h <;> grind
  · step_all h <;> intro s' <;> simp only [upd_apply] <;> grind
  · step_all h <;> intro s' <;> simp only [upd_apply] <;> grind

/-- what the cancel tasks of caller `k` achieve when nothing can start any more -/
structure KInv (k : Nat) (σ : State) : Prop where
  killed : ∀ i, σ.task k i = .done → σ.proc i ≠ .running
  snapeq : (σ.sh k).tasked = true → σ.snap k = σ.futs

theorem kinv_step {v c σ l σ' k} (h : step v c σ l = some σ') (hc : Calm σ) (K : KInv k σ) : KInv k σ' := by
  obtain ⟨h1, h2, h3⟩ := hc
  have h4 := K.killed
  have h5 := K.snapeq
  constructor
  · step_all h <;> intro i' <;> simp only [upd_apply, upd2_apply] <;> grind [termProc, killProc]
  · step_all h <;> simp only [upd_apply] <;> grind [ShPc.tasked, joinNext]

theorem calm_quiescent {v c σ0 σ k} (hr : Reach v c σ0) (hk0 : σ0.sh k = .acq) (hc : Calm σ0)
    (hs : Steps v c σ0 σ) :
    σ.futs = σ0.futs ∧ (σ.sh k = .ret → ∀ i, σ.proc i ≠ .running) := by
  have key : Calm σ ∧ KInv k σ ∧ σ.futs = σ0.futs := by
    induction hs with
    | refl =>
      have I := inv_reach hr
      refine ⟨hc, ⟨?_, ?_⟩, rfl⟩
      · intro i hi
        have := I.notask k i (by simp [hk0, ShPc.tasked])
        simp [this] at hi
      · simp [hk0, ShPc.tasked]
    | step l _ h1 ih =>
      obtain ⟨c1, c2, c3⟩ := ih
      exact ⟨calm_step h1 c1, kinv_step h1 c1 c2, by rw [← c3]; exact futs_stable h1 (fun s => (c1.2.1 s).2.1)⟩
  obtain ⟨_, K, hf⟩ := key
  refine ⟨hf, fun hk i => ?_⟩
  have I := inv_reach (steps_reach hr hs)
  by_cases hi : i ∈ σ.futs
  · have hsn : σ.snap k = σ.futs := K.snapeq (by simp [hk, ShPc.tasked])
    exact K.killed i (I.alldone k i (Or.inr hk) (hsn ▸ hi))
  · simp [(unregistered_idle I hi).2]

end HalmosVerif.Model.Popen
