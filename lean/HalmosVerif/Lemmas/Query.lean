/-
Lemmas.Query — helper lemmas for Props.C11 (paths, script models, refine on commands).
-/
import HalmosVerif.Model.Query

namespace HalmosVerif.Lemmas.Query
open HalmosVerif.Spec HalmosVerif.Model HalmosVerif.Model.Rx HalmosVerif.Model.Query HalmosVerif.Gen.SolveTables

variable {α : Type}

theorem mem_append_conditions [DecidableEq α] (p : Path α) (c x : α) :
    x ∈ (p.append c).conditions ↔ x ∈ p.conditions ∨ x = c := by
  unfold Path.append
  split
  · constructor
    · intro h; exact Or.inl h
    · rintro (h | rfl)
      · exact h
      · assumption
  · simp

theorem mem_extend_conditions [DecidableEq α] (cs : List α) : ∀ (p : Path α) (x : α),
    x ∈ (p.extend cs).conditions ↔ x ∈ p.conditions ∨ x ∈ cs := by
  induction cs with
  | nil => intro p x; simp [Path.extend]
  | cons c cs ih =>
    intro p x
    simp only [Path.extend, ih, mem_append_conditions, List.mem_cons]
    constructor
    · rintro ((h | h) | h)
      · exact Or.inl h
      · exact Or.inr (Or.inl h)
      · exact Or.inr (Or.inr h)
    · rintro (h | h | h)
      · exact Or.inl (Or.inl h)
      · exact Or.inl (Or.inr h)
      · exact Or.inr h

theorem plain_models (id : α → Nat) (den : α → Formula) (p : Path α) (I : Interp) :
    (dumpScript false (toSmt2 false id den p)).models I ↔ ∀ c ∈ p.conditions, den c I := by
  simp only [dumpScript, toSmt2, Script.models, List.mem_map, Bool.false_eq_true, if_false]
  constructor
  · intro h c hc
    exact h (Cmd.assert (den c)) ⟨c, hc, rfl⟩
  · rintro h _ ⟨c, hc, rfl⟩
    exact h c hc

theorem cached_models (id : α → Nat) (den : α → Formula) (p : Path α) (I : Interp) :
    (dumpScript true (toSmt2 true id den p)).models I ↔
      ∀ c ∈ p.conditions, I.bool (toString (id c)) = true ∧ den c I := by
  simp only [dumpScript, toSmt2, Script.models, List.mem_map, List.mem_append, if_true, List.map_map]
  constructor
  · intro h c hc
    have h1 := h (Cmd.assertNamed (toString (id c))) (Or.inr ⟨c, hc, rfl⟩)
    have h2 := h (Cmd.assertImp (toString (id c)) (den c)) (Or.inl ⟨c, hc, rfl⟩)
    exact ⟨h1, h2 h1⟩
  · rintro h _ (⟨c, hc, rfl⟩ | ⟨c, hc, rfl⟩)
    · intro _; exact (h c hc).2
    · exact (h c hc).1

theorem findOp_mem : ∀ (rules : List Rule) (name : String) (w : Nat) (op : List Char) (body : Body),
    findOp rules name w = some (op, body) → ∃ r ∈ rules, op ∈ r.ops ∧ body = r.body ∧ name.toList = absName op w := by
  intro rules
  induction rules with
  | nil => intro name w op body h; simp [findOp] at h
  | cons r rs ih =>
    intro name w op body h
    unfold findOp at h
    split at h
    · rename_i op' hf
      simp only [Option.some.injEq, Prod.mk.injEq] at h
      obtain ⟨rfl, rfl⟩ := h
      have hm := List.mem_of_find?_eq_some hf
      have hp := List.find?_some hf
      exact ⟨r, List.mem_cons_self, hm, rfl, by simpa using hp⟩
    · obtain ⟨r', hr', h1, h2, h3⟩ := ih name w op body h
      exact ⟨r', List.mem_cons_of_mem _ hr', h1, h2, h3⟩

/-- every definition `refine` can write denotes the exact EVM operation: `(\1 x y)` for `bvmul`, and the guarded
    `(ite (= y 0) 0 (\1 x y))` for the four division-like operators (SMT-LIB's own by-zero results never show) -/
theorem body_is_evm : ∀ r ∈ refineRules, ∀ op ∈ r.ops, ∀ bop, smtOp op = some bop →
    ∀ w x y, bodyEval bop w x y r.body = evmOp bop w x y := by
  intro r hr op hop bop hb w x y
  simp only [refineRules, List.mem_cons, List.not_mem_nil, or_false] at hr
  rcases hr with rfl | rfl
  · simp only [List.mem_cons, List.not_mem_nil, or_false] at hop
    subst hop
    simp [smtOp] at hb
    subst hb
    simp [bodyEval, evmOp, BinOp.eval]
  · simp only [List.mem_cons, List.not_mem_nil, or_false] at hop
    rcases hop with rfl | rfl | rfl | rfl <;>
      (simp [smtOp] at hb; subst hb; simp only [bodyEval, evmOp, BinOp.eval]; split <;> simp_all)

end HalmosVerif.Lemmas.Query
