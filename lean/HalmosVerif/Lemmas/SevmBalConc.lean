/-
Lemmas.SevmBalConc — balances on the reference side: `World.transfer` account by account, and the bound on the total
balance (`BalBound`) that keeps halmos' practical assumption `balance <= MAX_ETH` true along a concrete run.
-/
import HalmosVerif.Lemmas.SevmCallConc
import HalmosVerif.Model.SevmCalls

set_option linter.unusedSectionVars false
set_option linter.unusedSimpArgs false
set_option linter.unusedVariables false

namespace HalmosVerif.Lemmas.Sevm
open HalmosVerif.Model HalmosVerif.Model.Sevm HalmosVerif.Spec

/-! ### the reference's transfer, account by account -/

theorem lookupD_insert_nat (m : List (Nat × Nat)) (k k' v d : Nat) :
    Evm.lookupD (Evm.insert m k v) k' d = if k' = k then v else Evm.lookupD m k' d := by
  unfold Evm.lookupD Evm.insert
  by_cases h : k' = k
  · subst h; simp
  · have h1 : (k == k') = false := by rw [beq_eq_false_iff_ne]; exact fun e => h e.symm
    simp only [List.find?_cons, h1, if_neg h]
    have : ∀ l : List (Nat × Nat), (l.filter (fun p => !(p.1 == k))).find? (fun p => p.1 == k') =
        l.find? (fun p => p.1 == k') := by
      intro l
      induction l with
      | nil => rfl
      | cons e l ih =>
        by_cases h2 : e.1 = k
        · have : (e.1 == k') = false := by rw [beq_eq_false_iff_ne, h2]; exact fun e => h e.symm
          simp [List.filter_cons, h2, List.find?_cons, h1, ih]
        · have h3 : (e.1 == k) = false := by rw [beq_eq_false_iff_ne]; exact h2
          simp only [List.filter_cons, h3, Bool.not_false, if_true, List.find?_cons]
          cases (e.1 == k') <;> simp [ih]
    rw [this]

theorem balanceOf_setBalance (w : Evm.World) (a v c : Nat) :
    (w.setBalance a v).balanceOf c = if c = a then v else w.balanceOf c := by
  unfold Evm.World.setBalance Evm.World.balanceOf
  exact lookupD_insert_nat _ _ _ _ _

theorem balanceOf_transfer (w : Evm.World) (a b v c : Nat) :
    (w.transfer a b v).balanceOf c =
      if c = b then ((if b = a then w.balanceOf a - v else w.balanceOf b) + v) % Evm.W
      else if c = a then w.balanceOf a - v else w.balanceOf c := by
  unfold Evm.World.transfer
  simp only [balanceOf_setBalance]

/-! ### the bound on the total balance -/

/-- finitely many accounts hold all the ether, and together not more than halmos' `MAX_ETH` -/
def BalBound (w : Evm.World) : Prop :=
  ∃ L : List Nat, L.Nodup ∧ (∀ a, a ∉ L → w.balanceOf a = 0) ∧ (L.map w.balanceOf).sum ≤ MAX_ETH

theorem sum_map_erase (g : Nat → Nat) : ∀ {L : List Nat} {a : Nat}, a ∈ L →
    (L.map g).sum = g a + ((L.erase a).map g).sum
  | x :: L, a, h => by
    by_cases e : x = a
    · subst e; simp
    · have hm : a ∈ L := by
        rcases List.mem_cons.1 h with h | h
        · exact absurd h.symm e
        · exact h
      have hx : (x == a) = false := by rw [beq_eq_false_iff_ne]; exact e
      simp only [List.erase_cons, hx, List.map_cons, List.sum_cons, sum_map_erase g hm]
      simp only [Bool.false_eq_true, if_false, List.map_cons, List.sum_cons]
      omega

theorem sum_map_congr {g g' : Nat → Nat} {L : List Nat} (h : ∀ a ∈ L, g' a = g a) :
    (L.map g').sum = (L.map g).sum := by
  congr 1
  exact List.map_congr_left h

theorem le_sum_map (g : Nat → Nat) {L : List Nat} {a : Nat} (h : a ∈ L) : g a ≤ (L.map g).sum := by
  rw [sum_map_erase g h]; omega

theorem BalBound.le {w : Evm.World} (h : BalBound w) (a : Nat) : w.balanceOf a ≤ MAX_ETH := by
  obtain ⟨L, _, hz, hs⟩ := h
  by_cases hm : a ∈ L
  · exact le_trans (le_sum_map _ hm) hs
  · rw [hz a hm]; exact Nat.zero_le _

theorem BalBound.congr {w w' : Evm.World} (h : BalBound w) (he : ∀ a, w'.balanceOf a = w.balanceOf a) :
    BalBound w' := by
  obtain ⟨L, hn, hz, hs⟩ := h
  refine ⟨L, hn, fun a ha => by rw [he, hz a ha], ?_⟩
  rw [sum_map_congr (g := w.balanceOf) (fun a _ => he a)]; exact hs

/-- a transfer the sender can pay keeps the bound (and never wraps around) -/
theorem BalBound.transfer {w : Evm.World} (h : BalBound w) {a b v : Nat} (hv : v ≤ w.balanceOf a) :
    BalBound (w.transfer a b v) ∧
      ∀ c, (w.transfer a b v).balanceOf c =
        if c = b then (if b = a then w.balanceOf a - v else w.balanceOf b) + v
        else if c = a then w.balanceOf a - v else w.balanceOf c := by
  have hle := h.le
  obtain ⟨L, hn, hz, hs⟩ := h
  have hW : MAX_ETH < Evm.W := by unfold MAX_ETH Evm.W; norm_num
  -- no wrap-around
  have hnw : (if b = a then w.balanceOf a - v else w.balanceOf b) + v < Evm.W := by
    by_cases e : b = a
    · rw [if_pos e]; have := hle a; omega
    · rw [if_neg e]
      by_cases hv0 : v = 0
      · have := hle b; omega
      · have ha : a ∈ L := by
          by_contra hna
          rw [hz a hna] at hv; omega
        by_cases hb : b ∈ L
        · have hb' : b ∈ L.erase a := (hn.mem_erase_iff).2 ⟨e, hb⟩
          have h1 := sum_map_erase w.balanceOf ha
          have h2 := le_sum_map w.balanceOf hb'
          omega
        · rw [hz b hb]; have := hle a; omega
  have hbal : ∀ c, (w.transfer a b v).balanceOf c =
      if c = b then (if b = a then w.balanceOf a - v else w.balanceOf b) + v
      else if c = a then w.balanceOf a - v else w.balanceOf c := by
    intro c
    rw [balanceOf_transfer, Nat.mod_eq_of_lt hnw]
  refine ⟨?_, hbal⟩
  by_cases e : b = a
  · -- a self-transfer changes nothing
    refine BalBound.congr ⟨L, hn, hz, hs⟩ (fun c => ?_)
    rw [hbal c]
    subst e
    by_cases ec : c = b
    · subst ec; simp only [if_true]; omega
    · simp only [if_neg ec]
  by_cases hv0 : v = 0
  · refine BalBound.congr ⟨L, hn, hz, hs⟩ (fun c => ?_)
    rw [hbal c, if_neg e]
    subst hv0
    by_cases ec : c = b
    · subst ec; simp
    · by_cases eca : c = a
      · subst eca; simp [ec]
      · simp [ec, eca]
  have ha : a ∈ L := by
    by_contra hna
    rw [hz a hna] at hv; omega
  have hab : a ≠ b := fun h => e h.symm
  -- the accounts other than the two
  have hrest : ∀ (M : List Nat), a ∉ M → b ∉ M →
      (M.map (w.transfer a b v).balanceOf).sum = (M.map w.balanceOf).sum := by
    intro M h1 h2
    refine sum_map_congr (fun c hc => ?_)
    rw [hbal c, if_neg (fun (h : c = b) => h2 (h ▸ hc)), if_neg (fun (h : c = a) => h1 (h ▸ hc))]
  have hnew_a : (w.transfer a b v).balanceOf a = w.balanceOf a - v := by
    rw [hbal a, if_neg hab]; simp
  have hnew_b : (w.transfer a b v).balanceOf b = w.balanceOf b + v := by
    rw [hbal b]; simp [e]
  by_cases hb : b ∈ L
  · refine ⟨L, hn, fun c hc => ?_, ?_⟩
    · rw [hbal c, if_neg (fun (h : c = b) => hc (h ▸ hb)), if_neg (fun (h : c = a) => hc (h ▸ ha))]; exact hz c hc
    · have hb' : b ∈ L.erase a := (hn.mem_erase_iff).2 ⟨e, hb⟩
      have hn' := hn.erase a
      have n1 : a ∉ (L.erase a).erase b := fun h => by
        have := List.mem_of_mem_erase h
        exact ((hn.mem_erase_iff).1 this).1 rfl
      have n2 : b ∉ (L.erase a).erase b := fun h => ((hn'.mem_erase_iff).1 h).1 rfl
      rw [sum_map_erase _ ha, sum_map_erase _ hb', hrest _ n1 n2, hnew_a, hnew_b]
      have := sum_map_erase w.balanceOf ha
      have := sum_map_erase w.balanceOf hb'
      omega
  · have hnb : (b :: L).Nodup := List.nodup_cons.2 ⟨hb, hn⟩
    refine ⟨b :: L, hnb, fun c hc => ?_, ?_⟩
    · have hcb : c ≠ b := fun h => hc (h ▸ List.mem_cons_self ..)
      have hcL : c ∉ L := fun h => hc (List.mem_cons_of_mem _ h)
      rw [hbal c, if_neg hcb, if_neg (fun (h : c = a) => hcL (h ▸ ha))]; exact hz c hcL
    · have n1 : a ∉ L.erase a := fun h => ((hn.mem_erase_iff).1 h).1 rfl
      have n2 : b ∉ L.erase a := fun h => hb (List.mem_of_mem_erase h)
      simp only [List.map_cons, List.sum_cons]
      rw [sum_map_erase _ ha, hrest _ n1 n2, hnew_a, hnew_b, hz b hb]
      have := sum_map_erase w.balanceOf ha
      omega

/-- the bound for the running world and for the worlds saved by the suspended callers (a failing callee hands its
    caller's world back) — required only under the condition `C` (balances are followed) -/
def BBAllT (w : Evm.World) (kcs : List CCont) : Prop := BalBound w ∧ ∀ kc ∈ kcs, BalBound kc.w

/-- … required only under the condition `C` (balances are followed) -/
def BBAll (C : Prop) (w : Evm.World) (kcs : List CCont) : Prop := C → BBAllT w kcs

end HalmosVerif.Lemmas.Sevm
