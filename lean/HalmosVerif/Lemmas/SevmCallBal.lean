/-
Lemmas.SevmCallBal — balances of the frame-stack machine: what a read of the model's balance array (`selectBal`,
`balanceOfM`) denotes under a valuation that agrees with the start world on the initial balances.
-/
import HalmosVerif.Lemmas.SevmCallRel

set_option linter.unusedSectionVars false
set_option linter.unusedSimpArgs false
set_option linter.unusedVariables false

namespace HalmosVerif.Lemmas.Sevm
open HalmosVerif.Model HalmosVerif.Model.Sevm HalmosVerif.Spec HalmosVerif.Lemmas.Word

/-! ### the valuation and the initial balances -/

/-- what `I` says about the initial balance array at the address `a` -/
def baseVal (I : Interp) (cfg : Cfg) (a : Nat) : Nat :=
  if cfg.balZero then 0 else I.uf1 "balance_0" 256 a % 2 ^ 256

/-- the valuation agrees with the start world on the initial balances, and interprets `balance_00` as the empty
    array (the axiom `balance_of` appends for every index it reads) -/
structure BalHyp (I : Interp) (cfg : Cfg) (w0 : Evm.World) : Prop where
  base : ∀ a, baseVal I cfg a = w0.balanceOf a
  empty : ∀ a, I.uf1 "balance_00" 256 a % 2 ^ 256 = 0

section
variable {I : Interp} {cfg : Cfg} {w0 : Evm.World} {s : Simp} {o : Oracle}

theorem balBaseT_ok (hb : BalHyp I cfg w0) {k : T} (hk : k.WF) :
    (balBaseT cfg k).WF ∧ (balBaseT cfg k).width = 256 ∧ (balBaseT cfg k).eval I = w0.balanceOf (k.eval I) := by
  unfold balBaseT
  have := hb.base (k.eval I)
  unfold baseVal at this
  split
  · rename_i hz
    rw [if_pos hz] at this
    exact ⟨(by decide : 0 < 256), rfl, by simpa [T.eval] using this⟩
  · rename_i hz
    rw [if_neg hz] at this
    exact ⟨⟨(by decide : 0 < 256), hk⟩, rfl, this⟩

theorem iteChain_ok (hb : BalHyp I cfg w0) : ∀ {chain : List (T × T)}, ChainWF chain → ∀ {k : T}, k.WF → k.width = 160 →
    (iteChain cfg chain k).WF ∧ (iteChain cfg chain k).width = 256 ∧
      (iteChain cfg chain k).eval I = balSem I w0 chain (k.eval I)
  | [], _, k, hk, _ => balBaseT_ok hb hk
  | (k0, v0) :: rest, hc, k, hk, hkw => by
    obtain ⟨a1, a2, a3, a4⟩ := hc (k0, v0) (List.mem_cons_self ..)
    obtain ⟨b1, b2, b3⟩ := iteChain_ok hb (fun kv hm => hc kv (List.mem_cons_of_mem _ hm)) hk hkw (chain := rest)
    refine ⟨⟨⟨hk, a1, by rw [hkw, a2]⟩, a3, b1, by rw [a4, b2]⟩, a4, ?_⟩
    simp only [iteChain, T.eval, B.eval, CmpOp.eval, balSem, b3]
    by_cases e : k.eval I = k0.eval I
    · simp [e]
    · have e' : ¬ k0.eval I = k.eval I := fun h => e h.symm
      simp [e, e']

/-- `Exec.select` on the balance array: the term denotes the model's balance at the key -/
theorem selectBal_ok (hs : SimpSound s) (ho : OracleSound o) (hb : BalHyp I cfg w0) {path : List B}
    (hsat : Sat I path) : ∀ {chain : List (T × T)}, ChainWF chain → ∀ {k : T}, k.WF → k.width = 160 →
    (selectBal s o cfg path chain k).WF ∧ (selectBal s o cfg path chain k).width = 256 ∧
      (selectBal s o cfg path chain k).eval I = balSem I w0 chain (k.eval I)
  | [], _, k, hk, _ => balBaseT_ok hb hk
  | (k0, v0) :: rest, hc, k, hk, hkw => by
    obtain ⟨a1, a2, a3, a4⟩ := hc (k0, v0) (List.mem_cons_self ..)
    have hrest : ChainWF rest := fun kv hm => hc kv (List.mem_cons_of_mem _ hm)
    have hcwf : (B.cmp .eq k k0).WF := ⟨hk, a1, by rw [hkw, a2]⟩
    simp only [selectBal, balSem]
    split
    · rename_i he
      subst he
      exact ⟨a3, a4, by simp⟩
    · split
      · rename_i hu
        have := exCheck_sound hs ho hcwf hu I hsat
        simp only [B.eval, CmpOp.eval, beq_eq_false_iff_ne, ne_eq] at this
        have e' : ¬ k0.eval I = k.eval I := fun h => this h.symm
        rw [if_neg e']
        exact selectBal_ok hs ho hb hsat hrest hk hkw
      · split
        · rename_i hu
          have := exCheck_sound hs ho (c := .not (.cmp .eq k k0)) hcwf hu I hsat
          simp only [B.eval, CmpOp.eval, Bool.not_eq_false', beq_iff_eq] at this
          rw [if_pos this.symm]
          exact ⟨a3, a4, rfl⟩
        · have := iteChain_ok hb hc hk hkw (chain := (k0, v0) :: rest)
          simpa only [balSem] using this

/-- `Exec.balance_of`: the value denotes the balance; the appended conditions are well-formed, and true when the
    balance respects halmos' bound -/
theorem balanceOfM_ok (hs : SimpSound s) (ho : OracleSound o) (hb : BalHyp I cfg w0) {path : List B}
    (hsat : Sat I path) {chain : List (T × T)} (hc : ChainWF chain) {k : T} (hk : k.WF) (hkw : k.width = 160)
    {v : T} {conds : List B} (h : balanceOfM s o cfg path chain k = some (v, conds)) :
    v.WF ∧ v.width = 256 ∧ v.eval I = balSem I w0 chain (k.eval I) ∧ (∀ c ∈ conds, c.WF) ∧
      (balSem I w0 chain (k.eval I) ≤ MAX_ETH → ∀ c ∈ conds, c.eval I = true) := by
  obtain ⟨s1, s2, s3⟩ := selectBal_ok hs ho hb hsat hc hk hkw
  have hax : (B.cmp .eq (.uf1 "balance_00" 256 k) (.lit 256 0)).WF ∧
      (B.cmp .eq (.uf1 "balance_00" 256 k) (.lit 256 0)).eval I = true := by
    refine ⟨⟨⟨(by decide : 0 < 256), hk⟩, (by decide : 0 < 256), rfl⟩, ?_⟩
    have := hb.empty (k.eval I)
    simp only [B.eval, CmpOp.eval, T.eval, this]
    rfl
  unfold balanceOfM at h
  simp only at h
  split at h
  · rename_i w n hv
    split at h
    · cases h
    · simp only [Option.some.injEq, Prod.mk.injEq] at h
      obtain ⟨rfl, rfl⟩ := h
      refine ⟨s1, s2, s3, ?_, fun _ => ?_⟩
      · intro c hm; rw [List.mem_singleton.1 hm]; exact hax.1
      · intro c hm; rw [List.mem_singleton.1 hm]; exact hax.2
  · split at h
    · cases h
    · simp only [Option.some.injEq, Prod.mk.injEq] at h
      obtain ⟨rfl, rfl⟩ := h
      have hcw : (B.cmp .ule (selectBal s o cfg path chain k) (.lit 256 MAX_ETH)).WF :=
        ⟨s1, (by decide : 0 < 256), s2⟩
      refine ⟨s1, s2, s3, ?_, fun hle => ?_⟩
      · intro c hm
        rcases List.mem_cons.1 hm with rfl | hm
        · exact hax.1
        · rw [List.mem_singleton.1 hm]; exact hs.wfB _ hcw
      · intro c hm
        rcases List.mem_cons.1 hm with rfl | hm
        · exact hax.2
        · rw [List.mem_singleton.1 hm, hs.evalB I _ hcw]
          simp only [B.eval, CmpOp.eval, T.eval, s3, decide_eq_true_eq]
          exact le_trans hle (le_of_eq (Nat.mod_eq_of_lt (by unfold MAX_ETH; norm_num)).symm)

end

end HalmosVerif.Lemmas.Sevm
