/-
Lemmas.SevmCallBal — balances of the frame-stack machine: what a read of the model's balance array (`selectBal`,
`balanceOfM`) denotes under a valuation that agrees with the start world on the initial balances.
-/
import HalmosVerif.Lemmas.SevmCallRel

set_option linter.unusedSectionVars false
set_option linter.unusedSimpArgs false
set_option linter.unusedVariables false

namespace HalmosVerif.Lemmas.Sevm
open HalmosVerif.Model HalmosVerif.Model.Sevm HalmosVerif.Spec HalmosVerif.Lemmas.Word

/-! ### the valuation and the initial balances -/

/-- what `I` says about the initial balance array at the address `a` -/
def baseVal (I : Interp) (cfg : Cfg) (a : Nat) : Nat :=
  if cfg.balZero then 0 else I.uf1 "balance_0" 256 a % 2 ^ 256

/-- the valuation agrees with the start world on the initial balances, and interprets `balance_00` as the empty
    array (the condition `balance_of` appends for every index it reads) -/
structure BalHyp (I : Interp) (cfg : Cfg) (w0 : Evm.World) : Prop where
  base : ∀ a, baseVal I cfg a = w0.balanceOf a
  empty : ∀ a, I.uf1 "balance_00" 256 a % 2 ^ 256 = 0

section
variable {I : Interp} {cfg : Cfg} {w0 : Evm.World} {s : Simp} {o : Oracle}

theorem balBaseT_ok (hb : BalHyp I cfg w0) {k : T} (hk : k.WF) :
    (balBaseT cfg k).WF ∧ (balBaseT cfg k).width = 256 ∧ (balBaseT cfg k).eval I = w0.balanceOf (k.eval I) := by
  unfold balBaseT
  have := hb.base (k.eval I)
  unfold baseVal at this
  split
  · rename_i hz
    rw [if_pos hz] at this
    exact ⟨(by decide : 0 < 256), rfl, by simpa [T.eval] using this⟩
  · rename_i hz
    rw [if_neg hz] at this
    exact ⟨⟨(by decide : 0 < 256), hk⟩, rfl, this⟩

theorem iteChain_ok (hb : BalHyp I cfg w0) : ∀ {chain : List (T × T)}, ChainWF chain → ∀ {k : T}, k.WF → k.width = 160 →
    (iteChain cfg chain k).WF ∧ (iteChain cfg chain k).width = 256 ∧
      (iteChain cfg chain k).eval I = balSem I w0 chain (k.eval I)
  | [], _, k, hk, _ => balBaseT_ok hb hk
  | (k0, v0) :: rest, hc, k, hk, hkw => by
    obtain ⟨a1, a2, a3, a4⟩ := hc (k0, v0) (List.mem_cons_self ..)
    obtain ⟨b1, b2, b3⟩ := iteChain_ok hb (fun kv hm => hc kv (List.mem_cons_of_mem _ hm)) hk hkw (chain := rest)
    refine ⟨⟨⟨hk, a1, by rw [hkw, a2]⟩, a3, b1, by rw [a4, b2]⟩, a4, ?_⟩
    simp only [iteChain, T.eval, B.eval, CmpOp.eval, balSem, b3]
    by_cases e : k.eval I = k0.eval I
    · simp [e]
    · have e' : ¬ k0.eval I = k.eval I := fun h => e h.symm
      simp [e, e']

/-- `Exec.select` on the balance array: the term denotes the model's balance at the key -/
theorem selectBal_ok (hs : SimpSound s) (ho : OracleSound o) (hb : BalHyp I cfg w0) {path : List B}
    (hsat : Sat I path) : ∀ {chain : List (T × T)}, ChainWF chain → ∀ {k : T}, k.WF → k.width = 160 →
    (selectBal s o cfg path chain k).WF ∧ (selectBal s o cfg path chain k).width = 256 ∧
      (selectBal s o cfg path chain k).eval I = balSem I w0 chain (k.eval I)
  | [], _, k, hk, _ => balBaseT_ok hb hk
  | (k0, v0) :: rest, hc, k, hk, hkw => by
    obtain ⟨a1, a2, a3, a4⟩ := hc (k0, v0) (List.mem_cons_self ..)
    have hrest : ChainWF rest := fun kv hm => hc kv (List.mem_cons_of_mem _ hm)
    have hcwf : (B.cmp .eq k k0).WF := ⟨hk, a1, by rw [hkw, a2]⟩
    simp only [selectBal, balSem]
    split
    · rename_i he
      subst he
      exact ⟨a3, a4, by simp⟩
    · split
      · rename_i hu
        have := exCheck_sound hs ho hcwf hu I hsat
        simp only [B.eval, CmpOp.eval, beq_eq_false_iff_ne, ne_eq] at this
        have e' : ¬ k0.eval I = k.eval I := fun h => this h.symm
        rw [if_neg e']
        exact selectBal_ok hs ho hb hsat hrest hk hkw
      · split
        · rename_i hu
          have := exCheck_sound hs ho (c := .not (.cmp .eq k k0)) hcwf hu I hsat
          simp only [B.eval, CmpOp.eval, Bool.not_eq_false', beq_iff_eq] at this
          rw [if_pos this.symm]
          exact ⟨a3, a4, rfl⟩
        · have := iteChain_ok hb hc hk hkw (chain := (k0, v0) :: rest)
          simpa only [balSem] using this

/-- `Exec.balance_of`: the value denotes the balance; the appended conditions are well-formed, and true when the
    balance respects halmos' bound -/
theorem balanceOfM_ok (hs : SimpSound s) (ho : OracleSound o) (hb : BalHyp I cfg w0) {path : List B}
    (hsat : Sat I path) {chain : List (T × T)} (hc : ChainWF chain) {k : T} (hk : k.WF) (hkw : k.width = 160)
    {v : T} {conds : List B} (h : balanceOfM s o cfg path chain k = some (v, conds)) :
    v.WF ∧ v.width = 256 ∧ v.eval I = balSem I w0 chain (k.eval I) ∧ (∀ c ∈ conds, c.WF) ∧
      (balSem I w0 chain (k.eval I) ≤ MAX_ETH → ∀ c ∈ conds, c.eval I = true) := by
  obtain ⟨s1, s2, s3⟩ := selectBal_ok hs ho hb hsat hc hk hkw
  have hax : (B.cmp .eq (.uf1 "balance_00" 256 k) (.lit 256 0)).WF ∧
      (B.cmp .eq (.uf1 "balance_00" 256 k) (.lit 256 0)).eval I = true := by
    refine ⟨⟨⟨(by decide : 0 < 256), hk⟩, (by decide : 0 < 256), rfl⟩, ?_⟩
    have := hb.empty (k.eval I)
    simp only [B.eval, CmpOp.eval, T.eval, this]
    rfl
  unfold balanceOfM at h
  simp only at h
  split at h
  · rename_i w n hv
    split at h
    · cases h
    · simp only [Option.some.injEq, Prod.mk.injEq] at h
      obtain ⟨rfl, rfl⟩ := h
      refine ⟨s1, s2, s3, ?_, fun _ => ?_⟩
      · intro c hm; rw [List.mem_singleton.1 hm]; exact hax.1
      · intro c hm; rw [List.mem_singleton.1 hm]; exact hax.2
  · split at h
    · cases h
    · simp only [Option.some.injEq, Prod.mk.injEq] at h
      obtain ⟨rfl, rfl⟩ := h
      have hcw : (B.cmp .ule (selectBal s o cfg path chain k) (.lit 256 MAX_ETH)).WF :=
        ⟨s1, (by decide : 0 < 256), s2⟩
      refine ⟨s1, s2, s3, ?_, fun hle => ?_⟩
      · intro c hm
        rcases List.mem_cons.1 hm with rfl | hm
        · exact hax.1
        · rw [List.mem_singleton.1 hm]; exact hs.wfB _ hcw
      · intro c hm
        rcases List.mem_cons.1 hm with rfl | hm
        · exact hax.2
        · rw [List.mem_singleton.1 hm, hs.evalB I _ hcw]
          simp only [B.eval, CmpOp.eval, T.eval, s3, decide_eq_true_eq]
          exact le_trans hle (le_of_eq (Nat.mod_eq_of_lt (by unfold MAX_ETH; norm_num)).symm)

end

/-! ### the model's transfer against the reference's -/

section
variable {I : Interp} {cfg : Cfg} {w0 : Evm.World}

theorem balSem_lt (hb : BalHyp I cfg w0) : ∀ {chain : List (T × T)}, ChainWF chain → ∀ a,
    balSem I w0 chain a < 2 ^ 256
  | [], _, a => by
    have := hb.base a
    unfold baseVal at this
    simp only [balSem, ← this]
    split
    · norm_num
    · exact Nat.mod_lt _ (by norm_num)
  | (k, v) :: rest, hc, a => by
    obtain ⟨_, _, a3, a4⟩ := hc (k, v) (List.mem_cons_self ..)
    simp only [balSem]
    split
    · have := T.eval_lt I v a3
      rw [a4] at this; exact this
    · exact balSem_lt hb (fun kv hm => hc kv (List.mem_cons_of_mem _ hm)) a

theorem sub_eval {I : Interp} {bc fv : T} (hw : bc.width = 256) {x v : Nat} (hx : bc.eval I = x) (hv : fv.eval I = v)
    (hle : v ≤ x) (hlt : x < 2 ^ 256) : (T.bin .sub bc fv).eval I = x - v := by
  simp only [T.eval, BinOp.eval, hw, hx, hv]
  have hv' : v % 2 ^ 256 = v := Nat.mod_eq_of_lt (by omega)
  rw [hv']
  have : x + (2 ^ 256 - v) = (x - v) + 2 ^ 256 := by omega
  rw [this, Nat.add_mod_right]
  exact Nat.mod_eq_of_lt (by omega)

theorem add_eval {I : Interp} {bt fv : T} (hw : bt.width = 256) {x v : Nat} (hx : bt.eval I = x) (hv : fv.eval I = v) :
    (T.bin .add bt fv).eval I = (x + v) % 2 ^ 256 := by
  simp only [T.eval, BinOp.eval, hw, hx, hv]

/-- `transfer_value` on the model's chain is `World.transfer` (or nothing, for the value 0) on the world -/
theorem transfer_bal (hb : BalHyp I cfg w0) {w : Evm.World} {chain : List (T × T)} (hc : ChainWF chain)
    (hbal : ∀ c, w.balanceOf c = balSem I w0 chain c) {me toK bc fv bt : T} {a t v : Nat}
    (hme : me.eval I = a) (hto : toK.eval I = t) (hbc : bc.eval I = w.balanceOf a) (hbcw : bc.width = 256)
    (hfv : fv.eval I = v) (hle : v ≤ w.balanceOf a) (hbtw : bt.width = 256)
    (hbt : bt.eval I = balSem I w0 ((me, .bin .sub bc fv) :: chain) t) :
    ∀ c, (callWorld 0xf1 w a t v).balanceOf c =
      balSem I w0 ((toK, .bin .add bt fv) :: (me, .bin .sub bc fv) :: chain) c := by
  have hlt : ∀ c, w.balanceOf c < 2 ^ 256 := fun c => by rw [hbal c]; exact balSem_lt hb hc c
  have hsub := sub_eval hbcw hbc hfv hle (hlt a)
  have hbt' : bt.eval I = if a = t then w.balanceOf a - v else w.balanceOf t := by
    rw [hbt]; simp only [balSem, hme, hsub, ← hbal t]
  have hadd := add_eval (I := I) hbtw hbt' hfv
  intro c
  simp only [balSem, hme, hto, hsub, hadd, ← hbal c]
  unfold callWorld
  by_cases hv0 : v = 0
  · subst hv0
    simp only [ne_eq, not_true_eq_false, decide_false, Bool.and_false, Bool.false_eq_true, if_false, Nat.sub_zero,
      Nat.add_zero]
    by_cases e1 : t = c
    · subst e1
      rw [if_pos rfl]
      by_cases e2 : a = t
      · subst e2; simp only [if_true]; exact (Nat.mod_eq_of_lt (hlt a)).symm
      · simp only [if_neg e2]; exact (Nat.mod_eq_of_lt (hlt t)).symm
    · rw [if_neg e1]
      by_cases e2 : a = c
      · subst e2; simp
      · simp [e2]
  · have : (decide (0xf1 = 0xf1) && decide (v ≠ 0)) = true := by simp [hv0]
    rw [if_pos this, balanceOf_transfer]
    by_cases e1 : t = c
    · subst e1
      simp only [if_true]
      by_cases e2 : a = t
      · subst e2; simp [Evm.W]
      · have e2' : ¬ t = a := fun h => e2 h.symm
        simp [e2, e2', Evm.W]
    · have e1' : ¬ c = t := fun h => e1 h.symm
      rw [if_neg e1, if_neg e1']
      by_cases e2 : a = c
      · subst e2; simp
      · have e2' : ¬ c = a := fun h => e2 h.symm
        simp [e2, e2']

end

end HalmosVerif.Lemmas.Sevm
