/-
Lemmas.SevmCallConc — message calls on the reference side (`Spec.Evm.exec`), in the form the simulation needs:
  * `exec` is monotone in its fuel;
  * a zero-value CALL / CALLCODE / DELEGATECALL / STATICCALL that passes the memory and depth checks runs the callee to
    completion and then resumes the caller (`exec_call0`), as statements about `Halts` in both directions;
  * `RunStack p w f ks r`: the frame `f` (world `w`) with the suspended callers `ks` runs to the final result `r`,
    with the lemmas that move one concrete step, one halt-and-resume, or one call across it.
-/
import HalmosVerif.Lemmas.SevmEvm

set_option linter.unusedSectionVars false
set_option linter.unusedSimpArgs false
set_option linter.unusedVariables false
set_option maxRecDepth 2000

namespace HalmosVerif.Lemmas.Sevm
open HalmosVerif.Spec

/-! ### fuel monotonicity -/

theorem exec_mono {p : Evm.Params} : ∀ (n : Nat) (w : Evm.World) (f : Evm.Frame) (r : Evm.World × Evm.Halt),
    Evm.exec p n w f = some r → Evm.exec p (n + 1) w f = some r := by
  intro n
  induction n with
  | zero => intro w f r h; simp [Evm.exec] at h
  | succ n ih =>
    intro w f r h
    rw [Evm.exec] at h ⊢
    cases hs : Evm.step p w f with
    | next w' f' => simp only [hs] at h ⊢; exact ih _ _ _ h
    | halt w' h' => simp only [hs] at h ⊢; exact h
    | call kind w1 f1 tgt value ao al ro rl =>
      simp only [hs] at h ⊢
      split at h
      · rename_i hc; simp only [hc, if_true]; exact h
      · rename_i hc
        simp only [hc, if_false] at ⊢
        split at h
        · rename_i hc2; simp only [hc2, if_true]; exact h
        · rename_i hc2
          simp only [hc2, if_false]
          split at h
          · rename_i hc3; simp only [hc3, if_true]; exact ih _ _ _ h
          · rename_i hc3
            simp only [hc3, if_false]
            split at h
            · rename_i hc4; simp only [hc4, if_true]; exact ih _ _ _ h
            · rename_i hc4
              simp only [hc4, if_false]
              split at h
              · cases h
              · rename_i w2 h2 heq
                rw [ih _ _ _ heq]
                exact ih _ _ _ h
    | create kind w1 f1 value off len salt =>
      simp only [hs] at h ⊢
      by_cases hk : kind = 0xf0
      · simp only [hk, if_true] at h ⊢
        split at h
        · rename_i hc; simp only [hc, if_true]; exact h
        · rename_i hc
          simp only [hc, if_false]
          split at h
          · rename_i hc2; simp only [hc2, if_true]; exact ih _ _ _ h
          · rename_i hc2
            simp only [hc2, if_false]
            split at h
            · rename_i hc3; simp only [hc3, if_true]; exact ih _ _ _ h
            · rename_i hc3
              simp only [hc3, if_false]
              split at h
              · rename_i hc4; simp only [hc4, if_true]; exact ih _ _ _ h
              · rename_i hc4
                simp only [hc4, if_false]
                split at h
                · cases h
                · rename_i w2 h2 heq
                  rw [ih _ _ _ heq]
                  simp only
                  split at h
                  · exact ih _ _ _ h
                  · rename_i hne
                    cases h2 <;> first | exact absurd rfl (hne _) | exact ih _ _ _ h
      · simp only [hk, if_false] at h ⊢
        split at h
        · rename_i hc; simp only [hc, if_true]; exact h
        · rename_i hc
          simp only [hc, if_false]
          split at h
          · rename_i hc2; simp only [hc2, if_true]; exact ih _ _ _ h
          · rename_i hc2
            simp only [hc2, if_false]
            split at h
            · rename_i hc3; simp only [hc3, if_true]; exact ih _ _ _ h
            · rename_i hc3
              simp only [hc3, if_false]
              split at h
              · rename_i hc4; simp only [hc4, if_true]; exact ih _ _ _ h
              · rename_i hc4
                simp only [hc4, if_false]
                split at h
                · cases h
                · rename_i w2 h2 heq
                  rw [ih _ _ _ heq]
                  simp only
                  split at h
                  · exact ih _ _ _ h
                  · rename_i hne
                    cases h2 <;> first | exact absurd rfl (hne _) | exact ih _ _ _ h

theorem exec_mono_le {p : Evm.Params} {n m : Nat} (hnm : n ≤ m) {w : Evm.World} {f : Evm.Frame}
    {r : Evm.World × Evm.Halt} (h : Evm.exec p n w f = some r) : Evm.exec p m w f = some r := by
  induction hnm with
  | refl => exact h
  | step _ ih => exact exec_mono _ _ _ _ ih

/-! ### every non-halting step keeps the call depth -/

theorem touch_depth (f : Evm.Frame) (off n : Nat) : (f.touch off n).depth = f.depth := by
  unfold Evm.Frame.touch; split <;> rfl

theorem copyToMem_depth {p : Evm.Params} {w w' : Evm.World} {f f' : Evm.Frame} {s src : List Nat} {dst so len : Nat}
    (h : Evm.copyToMem p w f s src dst so len = .next w' f') : f'.depth = f.depth := by
  unfold Evm.copyToMem at h
  split at h
  · cases h
  · cases h; simp [touch_depth]

theorem step_next_depth {p : Evm.Params} {w w' : Evm.World} {f f' : Evm.Frame}
    (h : Evm.step p w f = .next w' f') : f'.depth = f.depth := by
  unfold Evm.step at h
  simp only [Evm.op1, Evm.op2, Evm.op3, Evm.push] at h
  split at h
  · cases h
  · split at h <;> (repeat' split at h) <;>
      first
        | (cases h; done)
        | (cases h; rfl)
        | (cases h; simp only [touch_depth]; done)
        | exact (copyToMem_depth h)

theorem creach_depth {p : Evm.Params} {x y : Evm.World × Evm.Frame} (h : CReach p x y) : y.2.depth = x.2.depth := by
  induction h with
  | refl => rfl
  | tail _ hs ih => exact (step_next_depth hs).trans ih

/-! ### the call instructions -/

section
variable {p : Evm.Params} {w : Evm.World} {f : Evm.Frame}

theorem evm_call7 {op : Nat} (hop : (f.code[f.pc]?).getD 0 = op) (h : op = 0xf1 ∨ op = 0xf2)
    (hl : ¬ f.stack.length > 1024) {g tgt v ao al ro rl : Nat} {s : List Nat}
    (hst : f.stack = g :: tgt :: v :: ao :: al :: ro :: rl :: s) :
    Evm.step p w f = .call op w { f with stack := s } (Evm.addrMask tgt) v ao al ro rl := by
  rcases h with rfl | rfl <;> (unfold Evm.step; simp only [hop, hl, ↓reduceIte]; simp only [hst])

theorem evm_call6 {op : Nat} (hop : (f.code[f.pc]?).getD 0 = op) (h : op = 0xf4 ∨ op = 0xfa)
    (hl : ¬ f.stack.length > 1024) {g tgt ao al ro rl : Nat} {s : List Nat}
    (hst : f.stack = g :: tgt :: ao :: al :: ro :: rl :: s) :
    Evm.step p w f = .call op w { f with stack := s } (Evm.addrMask tgt) 0 ao al ro rl := by
  rcases h with rfl | rfl <;> (unfold Evm.step; simp only [hop, hl, ↓reduceIte]; simp only [hst])

theorem evm_call7_short {op : Nat} (hop : (f.code[f.pc]?).getD 0 = op) (h : op = 0xf1 ∨ op = 0xf2)
    (hl : ¬ f.stack.length > 1024) (hst : f.stack.length < 7) : Evm.step p w f = .halt w .stackUnderflow := by
  rcases h with rfl | rfl <;>
    (unfold Evm.step; simp only [hop, hl, ↓reduceIte]
     match h : f.stack, hst with
     | [], _ => rfl
     | [_], _ => rfl
     | [_, _], _ => rfl
     | [_, _, _], _ => rfl
     | [_, _, _, _], _ => rfl
     | [_, _, _, _, _], _ => rfl
     | [_, _, _, _, _, _], _ => rfl)

theorem evm_call6_short {op : Nat} (hop : (f.code[f.pc]?).getD 0 = op) (h : op = 0xf4 ∨ op = 0xfa)
    (hl : ¬ f.stack.length > 1024) (hst : f.stack.length < 6) : Evm.step p w f = .halt w .stackUnderflow := by
  rcases h with rfl | rfl <;>
    (unfold Evm.step; simp only [hop, hl, ↓reduceIte]
     match h : f.stack, hst with
     | [], _ => rfl
     | [_], _ => rfl
     | [_, _], _ => rfl
     | [_, _, _], _ => rfl
     | [_, _, _, _], _ => rfl
     | [_, _, _, _, _], _ => rfl)

/-! ### LOG0..LOG4, EXTCODESIZE, EXTCODECOPY -/

def IsLog (op : Nat) : Prop := op = 0xa0 ∨ op = 0xa1 ∨ op = 0xa2 ∨ op = 0xa3 ∨ op = 0xa4

theorem evm_log_short {op : Nat} (hop : (f.code[f.pc]?).getD 0 = op) (h : IsLog op)
    (hl : ¬ f.stack.length > 1024) (hst : f.stack.length < op - 0xa0 + 2) :
    Evm.step p w f = .halt w .stackUnderflow := by
  rcases h with rfl | rfl | rfl | rfl | rfl <;>
    (unfold Evm.step; simp only [hop, hl, ↓reduceIte]
     match h : f.stack, hst with
     | [], _ => rfl
     | [_], _ => rfl
     | _ :: _ :: s, hst =>
       simp only [List.length_cons, Nat.reduceSub] at hst
       first
         | (exfalso; omega)
         | (have hs : s.length < 1 := by omega
            simp [Evm.isPush, hs])
         | (have hs : s.length < 2 := by omega
            simp [Evm.isPush, hs])
         | (have hs : s.length < 3 := by omega
            simp [Evm.isPush, hs])
         | (have hs : s.length < 4 := by omega
            simp [Evm.isPush, hs]))

theorem evm_log_static {op : Nat} (hop : (f.code[f.pc]?).getD 0 = op) (h : IsLog op)
    (hl : ¬ f.stack.length > 1024) {off len : Nat} {s : List Nat} (hst : f.stack = off :: len :: s)
    (hn : ¬ s.length < op - 0xa0) (hs : f.isStatic = true) :
    Evm.step p w f = .halt w .writeInStatic := by
  rcases h with rfl | rfl | rfl | rfl | rfl <;>
    (unfold Evm.step; simp only [hop, hl, ↓reduceIte]; simp only [hst]
     simp only [Nat.reduceSub] at hn
     simp [Evm.isPush, hn, hs])

theorem evm_log_ok {op : Nat} (hop : (f.code[f.pc]?).getD 0 = op) (h : IsLog op)
    (hl : ¬ f.stack.length > 1024) {off len : Nat} {s : List Nat} (hst : f.stack = off :: len :: s)
    (hn : ¬ s.length < op - 0xa0) (hs : f.isStatic = false) (hok : len = 0 ∨ off + len ≤ p.memLimit) :
    Evm.step p w f =
      .next { w with logs := w.logs ++ [(f.this, s.take (op - 0xa0), Evm.readBytes f.mem off len)] }
        { f.touch off len with stack := s.drop (op - 0xa0), pc := f.pc + 1 } := by
  have hm := memOk_of hok
  rcases h with rfl | rfl | rfl | rfl | rfl <;>
    (unfold Evm.step; simp only [hop, hl, ↓reduceIte]; simp only [hst]
     simp only [Nat.reduceSub] at hn
     simp [Evm.isPush, hn, hs, hm, touch_this, touch_mem, touch_pc])

theorem evm_sha3 (hop : (f.code[f.pc]?).getD 0 = 0x20) (hl : ¬ f.stack.length > 1024) {off len : Nat} {s : List Nat}
    (hst : f.stack = off :: len :: s) (hok : len = 0 ∨ off + len ≤ p.memLimit) :
    Evm.step p w f = .next w { f.touch off len with
      stack := p.keccak (Evm.readBytes f.mem off len) % Evm.W :: s, pc := f.pc + 1 } := by
  have hm := memOk_of hok
  unfold Evm.step; simp only [hop, hl, ↓reduceIte]; simp only [hst]
  simp [hm, touch_mem, touch_pc]

theorem evm_sha3_short (hop : (f.code[f.pc]?).getD 0 = 0x20) (hl : ¬ f.stack.length > 1024)
    (hst : f.stack.length < 2) : Evm.step p w f = .halt w .stackUnderflow := by
  unfold Evm.step; simp only [hop, hl, ↓reduceIte]
  match h : f.stack, hst with
  | [], _ => rfl
  | [_], _ => rfl

theorem evm_extcodesize (hop : (f.code[f.pc]?).getD 0 = 0x3b) (hl : ¬ f.stack.length > 1024) :
    Evm.step p w f = Evm.op1 w f fun a => ((w.codeOf (Evm.addrMask a)).getD []).length := by
  unfold Evm.step; simp only [hop, hl, ↓reduceIte]

theorem evm_extcodecopy (hop : (f.code[f.pc]?).getD 0 = 0x3c) (hl : ¬ f.stack.length > 1024) {a dst src len s}
    (hst : f.stack = a :: dst :: src :: len :: s) (hok : len = 0 ∨ dst + len ≤ p.memLimit) :
    ∃ f', Evm.step p w f = .next w f' ∧ SameCtx f' f ∧ f'.pc = f.pc + 1 ∧ f'.stack = s ∧
      f'.mem = Evm.writeBytes f.mem dst (Evm.readBytes ((w.codeOf (Evm.addrMask a)).getD []) src len) := by
  have : Evm.step p w f = Evm.copyToMem p w f s ((w.codeOf (Evm.addrMask a)).getD []) dst src len := by
    unfold Evm.step; simp only [hop, hl, ↓reduceIte]; simp only [hst]
  rw [this]; exact copyToMem_ok hok

theorem evm_extcodecopy_short (hop : (f.code[f.pc]?).getD 0 = 0x3c) (hl : ¬ f.stack.length > 1024)
    (hst : f.stack.length < 4) : Evm.step p w f = .halt w .stackUnderflow := by
  unfold Evm.step; simp only [hop, hl, ↓reduceIte]
  match h : f.stack, hst with
  | [], _ => rfl
  | [_], _ => rfl
  | [_, _], _ => rfl
  | [_, _, _], _ => rfl

/-- a frame without code halts at once: success, no data -/
theorem halts_empty_code (hc : f.code = []) (hs : f.stack.length ≤ 1024) {r : Evm.World × Evm.Halt} :
    Halts p w f r ↔ r = (w, .success []) := by
  have : Evm.step p w f = .halt w (.success []) := by
    apply evm_stop
    · rw [hc]; simp
    · omega
  exact halts_halt this

end

/-! ### a zero-value call -/

/-- a suspended concrete caller: the world when the call was made, the frame with the operands popped and the memory
    areas touched, the return area -/
structure CCont where
  w : Evm.World
  f : Evm.Frame
  ro : Nat
  rl : Nat
  cr : Option Nat := none   -- the callee is the constructor of this new account (CREATE), else a message call

/-- the world the caller continues in: the callee's on success (a constructor's output installed as the code of the
    new account), the call-time world otherwise (rollback) -/
def resumeWorld (k : CCont) (r : Evm.World × Evm.Halt) : Evm.World :=
  if r.2.isSuccess then (match k.cr with | none => r.1 | some a => r.1.setCode a r.2.data)
  else { k.w with logs := k.w.logs, created := r.1.created }

/-- the caller after the call: success flag, return area, return data; after a CREATE: the new address or 0, and
    the return data only of a failed constructor (EIP-211) -/
def resumeFrame (k : CCont) (h : Evm.Halt) : Evm.Frame :=
  match k.cr with
  | none =>
    { k.f with stack := (if h.isSuccess then 1 else 0) :: k.f.stack
               mem := Evm.writeBytes k.f.mem k.ro (h.data.take (min k.rl h.data.length))
               returndata := h.data
               pc := k.f.pc + 1 }
  | some a =>
    { k.f with stack := (if h.isSuccess then a else 0) :: k.f.stack
               returndata := if h.isSuccess then [] else h.data
               pc := k.f.pc + 1 }

/-- the frame of a call of the given kind and value from `f` (touched) to `to` -/
def calleeFrameV (kind : Nat) (f : Evm.Frame) (w : Evm.World) (tgt v ao al : Nat) : Evm.Frame :=
  { this := if kind = 0xf1 || kind = 0xfa then tgt else f.this
    caller := if kind = 0xf4 then f.caller else f.this
    value := if kind = 0xf4 then f.value else v
    calldata := Evm.readBytes f.mem ao al
    code := (w.codeOf tgt).getD []
    codeAddr := tgt
    isStatic := f.isStatic || kind = 0xfa
    depth := f.depth + 1 }

/-- the zero-value case -/
def calleeFrame (kind : Nat) (f : Evm.Frame) (w : Evm.World) (tgt ao al : Nat) : Evm.Frame :=
  calleeFrameV kind f w tgt 0 ao al

theorem exec_call0 {p : Evm.Params} {w w1 : Evm.World} {f f1 : Evm.Frame} {kind tgt ao al ro rl : Nat}
    (hs : Evm.step p w f = .call kind w1 f1 tgt 0 ao al ro rl) (hm1 : Evm.memOk p ao al = true)
    (hm2 : Evm.memOk p ro rl = true) (hd : ¬ ((f1.touch ao al).touch ro rl).depth + 1 > p.maxDepth) (n : Nat) :
    Evm.exec p (n + 1) w f =
      (Evm.exec p n w1 (calleeFrame kind ((f1.touch ao al).touch ro rl) w1 tgt ao al)).bind fun r =>
        Evm.exec p n (resumeWorld ⟨w1, (f1.touch ao al).touch ro rl, ro, rl, none⟩ r)
          (resumeFrame ⟨w1, (f1.touch ao al).touch ro rl, ro, rl, none⟩ r.2) := by
  rw [Evm.exec]
  simp only [hs, hm1, hm2, hd, Bool.not_true, Bool.or_self, Bool.false_eq_true, if_false, ne_eq, not_true_eq_false,
    decide_false, Bool.and_false, Bool.false_and, calleeFrame, calleeFrameV, resumeWorld, resumeFrame]
  split
  · rename_i heq; rw [heq]; rfl
  · rename_i w2 h heq; rw [heq]; rfl

/-- the call fails the memory check of the reference: the *caller* halts with OutOfGas -/
theorem exec_call_oog {p : Evm.Params} {w w1 : Evm.World} {f f1 : Evm.Frame} {kind tgt v ao al ro rl : Nat}
    (hs : Evm.step p w f = .call kind w1 f1 tgt v ao al ro rl)
    (hm : ¬ (Evm.memOk p ao al = true ∧ Evm.memOk p ro rl = true)) (n : Nat) :
    Evm.exec p (n + 1) w f = some (w1, .outOfGas) := by
  rw [Evm.exec]
  have : (!Evm.memOk p ao al || !Evm.memOk p ro rl) = true := by
    cases h1 : Evm.memOk p ao al <;> cases h2 : Evm.memOk p ro rl <;> simp_all
  simp only [hs, this, if_true]

/-! ### termination across a call -/

section
variable {p : Evm.Params} {w w1 : Evm.World} {f f1 : Evm.Frame} {kind tgt ao al ro rl : Nat}

/-- the callee terminates and then the resumed caller terminates: so does the caller -/
theorem halts_call (hs : Evm.step p w f = .call kind w1 f1 tgt 0 ao al ro rl) (hm1 : Evm.memOk p ao al = true)
    (hm2 : Evm.memOk p ro rl = true) (hd : ¬ ((f1.touch ao al).touch ro rl).depth + 1 > p.maxDepth)
    {r1 r : Evm.World × Evm.Halt}
    (h1 : Halts p w1 (calleeFrame kind ((f1.touch ao al).touch ro rl) w1 tgt ao al) r1)
    (h2 : Halts p (resumeWorld ⟨w1, (f1.touch ao al).touch ro rl, ro, rl, none⟩ r1)
      (resumeFrame ⟨w1, (f1.touch ao al).touch ro rl, ro, rl, none⟩ r1.2) r) :
    Halts p w f r := by
  obtain ⟨n1, e1⟩ := h1
  obtain ⟨n2, e2⟩ := h2
  refine ⟨max n1 n2 + 1, ?_⟩
  rw [exec_call0 hs hm1 hm2 hd, exec_mono_le (Nat.le_max_left n1 n2) e1]
  exact exec_mono_le (Nat.le_max_right n1 n2) e2

/-- conversely -/
theorem halts_call_inv (hs : Evm.step p w f = .call kind w1 f1 tgt 0 ao al ro rl) (hm1 : Evm.memOk p ao al = true)
    (hm2 : Evm.memOk p ro rl = true) (hd : ¬ ((f1.touch ao al).touch ro rl).depth + 1 > p.maxDepth)
    {r : Evm.World × Evm.Halt} (h : Halts p w f r) :
    ∃ r1, Halts p w1 (calleeFrame kind ((f1.touch ao al).touch ro rl) w1 tgt ao al) r1 ∧
      Halts p (resumeWorld ⟨w1, (f1.touch ao al).touch ro rl, ro, rl, none⟩ r1)
        (resumeFrame ⟨w1, (f1.touch ao al).touch ro rl, ro, rl, none⟩ r1.2) r := by
  obtain ⟨n, e⟩ := h
  cases n with
  | zero => simp [Evm.exec] at e
  | succ n =>
    rw [exec_call0 hs hm1 hm2 hd] at e
    cases hx : Evm.exec p n w1 (calleeFrame kind ((f1.touch ao al).touch ro rl) w1 tgt ao al) with
    | none => rw [hx] at e; cases e
    | some r1 =>
      rw [hx] at e
      exact ⟨r1, ⟨n, hx⟩, ⟨n, e⟩⟩

theorem halts_call_oog {v : Nat} (hs : Evm.step p w f = .call kind w1 f1 tgt v ao al ro rl)
    (hm : ¬ (Evm.memOk p ao al = true ∧ Evm.memOk p ro rl = true)) {r : Evm.World × Evm.Halt} :
    Halts p w f r ↔ r = (w1, .outOfGas) := by
  constructor
  · rintro ⟨n, e⟩
    cases n with
    | zero => simp [Evm.exec] at e
    | succ n => rw [exec_call_oog hs hm] at e; exact (Option.some.inj e).symm
  · rintro rfl; exact ⟨1, exec_call_oog hs hm 0⟩

end

/-! ### a call with a value -/

/-- the world the callee starts in: a CALL with a non-zero value has moved it -/
def callWorld (kind : Nat) (w : Evm.World) (me tgt v : Nat) : Evm.World :=
  if (decide (kind = 0xf1) && decide (v ≠ 0)) = true then w.transfer me tgt v else w

/-- the caller after a call that could not be made (insufficient funds, depth): flag 0, no return data -/
def failFrame (f : Evm.Frame) : Evm.Frame :=
  { f with stack := 0 :: f.stack, returndata := [], pc := f.pc + 1 }

section
variable {p : Evm.Params} {w w1 : Evm.World} {f f1 : Evm.Frame} {kind tgt v ao al ro rl : Nat}

theorem exec_callv (hs : Evm.step p w f = .call kind w1 f1 tgt v ao al ro rl) (hm1 : Evm.memOk p ao al = true)
    (hm2 : Evm.memOk p ro rl = true)
    (hstat : (decide (kind = 0xf1) && ((f1.touch ao al).touch ro rl).isStatic && decide (v ≠ 0)) = false)
    (hfund : ((decide (kind = 0xf1) || decide (kind = 0xf2)) && decide (v ≠ 0) &&
      decide (w1.balanceOf ((f1.touch ao al).touch ro rl).this < v)) = false)
    (hd : ¬ ((f1.touch ao al).touch ro rl).depth + 1 > p.maxDepth) (n : Nat) :
    Evm.exec p (n + 1) w f =
      (Evm.exec p n (callWorld kind w1 ((f1.touch ao al).touch ro rl).this tgt v)
          (calleeFrameV kind ((f1.touch ao al).touch ro rl) w1 tgt v ao al)).bind fun r =>
        Evm.exec p n (resumeWorld ⟨w1, (f1.touch ao al).touch ro rl, ro, rl, none⟩ r)
          (resumeFrame ⟨w1, (f1.touch ao al).touch ro rl, ro, rl, none⟩ r.2) := by
  rw [Evm.exec]
  simp only [hs, hm1, hm2, hstat, hfund, hd, Bool.not_true, Bool.or_self, Bool.false_eq_true, if_false,
    calleeFrameV, callWorld, resumeWorld, resumeFrame]
  split
  · rename_i heq; rw [heq]; rfl
  · rename_i w2 h heq; rw [heq]; rfl

/-- insufficient funds: the caller continues with flag 0 -/
theorem exec_call_insufficient (hs : Evm.step p w f = .call kind w1 f1 tgt v ao al ro rl)
    (hm1 : Evm.memOk p ao al = true) (hm2 : Evm.memOk p ro rl = true)
    (hstat : (decide (kind = 0xf1) && ((f1.touch ao al).touch ro rl).isStatic && decide (v ≠ 0)) = false)
    (hfund : ((decide (kind = 0xf1) || decide (kind = 0xf2)) && decide (v ≠ 0) &&
      decide (w1.balanceOf ((f1.touch ao al).touch ro rl).this < v)) = true) (n : Nat) :
    Evm.exec p (n + 1) w f = Evm.exec p n w1 (failFrame ((f1.touch ao al).touch ro rl)) := by
  rw [Evm.exec]
  simp only [hs, hm1, hm2, hstat, hfund, Bool.not_true, Bool.or_self, Bool.false_eq_true, if_false, if_true,
    failFrame]

theorem halts_call_insufficient (hs : Evm.step p w f = .call kind w1 f1 tgt v ao al ro rl)
    (hm1 : Evm.memOk p ao al = true) (hm2 : Evm.memOk p ro rl = true)
    (hstat : (decide (kind = 0xf1) && ((f1.touch ao al).touch ro rl).isStatic && decide (v ≠ 0)) = false)
    (hfund : ((decide (kind = 0xf1) || decide (kind = 0xf2)) && decide (v ≠ 0) &&
      decide (w1.balanceOf ((f1.touch ao al).touch ro rl).this < v)) = true) (r : Evm.World × Evm.Halt) :
    Halts p w f r ↔ Halts p w1 (failFrame ((f1.touch ao al).touch ro rl)) r := by
  constructor
  · rintro ⟨n, e⟩
    cases n with
    | zero => simp [Evm.exec] at e
    | succ n => rw [exec_call_insufficient hs hm1 hm2 hstat hfund] at e; exact ⟨n, e⟩
  · rintro ⟨n, e⟩
    exact ⟨n + 1, by rw [exec_call_insufficient hs hm1 hm2 hstat hfund]; exact e⟩

theorem halts_callv (hs : Evm.step p w f = .call kind w1 f1 tgt v ao al ro rl) (hm1 : Evm.memOk p ao al = true)
    (hm2 : Evm.memOk p ro rl = true)
    (hstat : (decide (kind = 0xf1) && ((f1.touch ao al).touch ro rl).isStatic && decide (v ≠ 0)) = false)
    (hfund : ((decide (kind = 0xf1) || decide (kind = 0xf2)) && decide (v ≠ 0) &&
      decide (w1.balanceOf ((f1.touch ao al).touch ro rl).this < v)) = false)
    (hd : ¬ ((f1.touch ao al).touch ro rl).depth + 1 > p.maxDepth) {r1 r : Evm.World × Evm.Halt}
    (h1 : Halts p (callWorld kind w1 ((f1.touch ao al).touch ro rl).this tgt v)
      (calleeFrameV kind ((f1.touch ao al).touch ro rl) w1 tgt v ao al) r1)
    (h2 : Halts p (resumeWorld ⟨w1, (f1.touch ao al).touch ro rl, ro, rl, none⟩ r1)
      (resumeFrame ⟨w1, (f1.touch ao al).touch ro rl, ro, rl, none⟩ r1.2) r) :
    Halts p w f r := by
  obtain ⟨n1, e1⟩ := h1
  obtain ⟨n2, e2⟩ := h2
  refine ⟨max n1 n2 + 1, ?_⟩
  rw [exec_callv hs hm1 hm2 hstat hfund hd, exec_mono_le (Nat.le_max_left n1 n2) e1]
  exact exec_mono_le (Nat.le_max_right n1 n2) e2

theorem halts_callv_inv (hs : Evm.step p w f = .call kind w1 f1 tgt v ao al ro rl) (hm1 : Evm.memOk p ao al = true)
    (hm2 : Evm.memOk p ro rl = true)
    (hstat : (decide (kind = 0xf1) && ((f1.touch ao al).touch ro rl).isStatic && decide (v ≠ 0)) = false)
    (hfund : ((decide (kind = 0xf1) || decide (kind = 0xf2)) && decide (v ≠ 0) &&
      decide (w1.balanceOf ((f1.touch ao al).touch ro rl).this < v)) = false)
    (hd : ¬ ((f1.touch ao al).touch ro rl).depth + 1 > p.maxDepth) {r : Evm.World × Evm.Halt}
    (h : Halts p w f r) :
    ∃ r1, Halts p (callWorld kind w1 ((f1.touch ao al).touch ro rl).this tgt v)
        (calleeFrameV kind ((f1.touch ao al).touch ro rl) w1 tgt v ao al) r1 ∧
      Halts p (resumeWorld ⟨w1, (f1.touch ao al).touch ro rl, ro, rl, none⟩ r1)
        (resumeFrame ⟨w1, (f1.touch ao al).touch ro rl, ro, rl, none⟩ r1.2) r := by
  obtain ⟨n, e⟩ := h
  cases n with
  | zero => simp [Evm.exec] at e
  | succ n =>
    rw [exec_callv hs hm1 hm2 hstat hfund hd] at e
    cases hx : Evm.exec p n (callWorld kind w1 ((f1.touch ao al).touch ro rl).this tgt v)
        (calleeFrameV kind ((f1.touch ao al).touch ro rl) w1 tgt v ao al) with
    | none => rw [hx] at e; cases e
    | some r1 =>
      rw [hx] at e
      exact ⟨r1, ⟨n, hx⟩, ⟨n, e⟩⟩

end


/-! ### CREATE -/

theorem codeOf_setCode (w : Evm.World) (a : Nat) (c : List Nat) (x : Nat) :
    (w.setCode a c).codeOf x = if x = a then some c else w.codeOf x := by
  unfold Evm.World.setCode Evm.World.codeOf
  by_cases h : x = a
  · subst h; simp
  · have h1 : ((a, c).1 == x) = false := by simpa using fun e => h e.symm
    simp only [List.find?_cons, h1, if_neg h]
    congr 1
    induction w.code with
    | nil => rfl
    | cons e l ih =>
      by_cases h2 : e.1 = a
      · have h3 : (e.1 == x) = false := by rw [beq_eq_false_iff_ne, h2]; exact fun e' => h e'.symm
        have h4 : (a == x) = false := by rw [← h2]; exact h3
        simp [List.filter_cons, h2, List.find?_cons, h4, ih]
      · have h3 : (e.1 == a) = false := by rw [beq_eq_false_iff_ne]; exact h2
        simp only [List.filter_cons, h3, Bool.not_false, if_true, List.find?_cons]
        cases (e.1 == x) <;> simp [ih]

/-- the world the constructor of `addr` starts in: the account exists with empty code, the value is moved, its
    storage and transient storage are empty -/
def createWorld (w : Evm.World) (me addr v : Nat) : Evm.World :=
  { (w.setCode addr []).transfer me addr v with
    storage := ((w.setCode addr []).transfer me addr v).storage.filter (fun e => e.1.1 != addr),
    transient := ((w.setCode addr []).transfer me addr v).transient.filter (fun e => e.1.1 != addr) }

/-- the constructor frame -/
def createFrameC (f : Evm.Frame) (addr v : Nat) (init : List Nat) : Evm.Frame :=
  { this := addr, caller := f.this, value := v, calldata := [], code := init, codeAddr := addr, depth := f.depth + 1 }

section
variable {p : Evm.Params} {w w1 : Evm.World} {f f1 : Evm.Frame} {v off len salt : Nat}

theorem evm_create (hop : (f.code[f.pc]?).getD 0 = 0xf0) (hl : ¬ f.stack.length > 1024) {s : List Nat}
    (hst : f.stack = v :: off :: len :: s) (hns : f.isStatic = false) :
    Evm.step p w f = .create 0xf0 w { f with stack := s } v off len 0 := by
  unfold Evm.step; simp only [hop, hl, ↓reduceIte]; simp only [hst, hns, Bool.false_eq_true, ↓reduceIte]

theorem evm_create_static (hop : (f.code[f.pc]?).getD 0 = 0xf0) (hl : ¬ f.stack.length > 1024)
    (hst : 3 ≤ f.stack.length) (hs : f.isStatic = true) : Evm.step p w f = .halt w .writeInStatic := by
  unfold Evm.step; simp only [hop, hl, ↓reduceIte]
  match h : f.stack, hst with
  | _ :: _ :: _ :: _, _ => simp only [hs, ↓reduceIte]

theorem evm_create_short (hop : (f.code[f.pc]?).getD 0 = 0xf0) (hl : ¬ f.stack.length > 1024)
    (hst : f.stack.length < 3) : Evm.step p w f = .halt w .stackUnderflow := by
  unfold Evm.step; simp only [hop, hl, ↓reduceIte]
  match h : f.stack, hst with
  | [], _ => rfl
  | [_], _ => rfl
  | [_, _], _ => rfl

/-- the memory check fails: OutOfGas -/
theorem exec_create_oog (hs : Evm.step p w f = .create 0xf0 w1 f1 v off len salt) (hm : Evm.memOk p off len = false)
    (n : Nat) : Evm.exec p (n + 1) w f = some (w1, .outOfGas) := by
  rw [Evm.exec]; simp only [hs, hm, Bool.not_false, if_true]

/-- a CREATE that is not carried out (insufficient funds, depth, address taken): 0, no return data; the attempt
    still uses up an address -/
theorem exec_create_fail (hs : Evm.step p w f = .create 0xf0 w1 f1 v off len salt) (hm : Evm.memOk p off len = true)
    (hc : w1.balanceOf (f1.touch off len).this < v ∨ (f1.touch off len).depth + 1 > p.maxDepth ∨
      (({ w1 with created := w1.created + 1 } : Evm.World).codeOf (p.newAddress (w1.created + 1))).isSome = true)
    (n : Nat) :
    Evm.exec p (n + 1) w f =
      Evm.exec p n { w1 with created := w1.created + 1 } (failFrame (f1.touch off len)) := by
  rw [Evm.exec]
  simp only [hs, hm, Bool.not_true, Bool.false_eq_true, if_false, if_true, failFrame]
  by_cases h1 : w1.balanceOf (f1.touch off len).this < v
  · simp only [h1, if_true]
  · simp only [h1, if_false]
    by_cases h2 : (f1.touch off len).depth + 1 > p.maxDepth
    · simp only [h2, if_true]
    · simp only [h2, if_false]
      rcases hc with hc | hc | hc
      · exact absurd hc h1
      · exact absurd hc h2
      · simp only [hc, if_true]

theorem exec_create (hs : Evm.step p w f = .create 0xf0 w1 f1 v off len salt) (hm : Evm.memOk p off len = true)
    (hfund : ¬ w1.balanceOf (f1.touch off len).this < v) (hd : ¬ (f1.touch off len).depth + 1 > p.maxDepth)
    (hcol : (({ w1 with created := w1.created + 1 } : Evm.World).codeOf (p.newAddress (w1.created + 1))).isSome = false)
    (n : Nat) :
    Evm.exec p (n + 1) w f =
      (Evm.exec p n (createWorld { w1 with created := w1.created + 1 } (f1.touch off len).this
          (p.newAddress (w1.created + 1)) v)
        (createFrameC (f1.touch off len) (p.newAddress (w1.created + 1)) v
          (Evm.readBytes (f1.touch off len).mem off len))).bind fun r =>
        Evm.exec p n (resumeWorld ⟨{ w1 with created := w1.created + 1 }, f1.touch off len, 0, 0,
            some (p.newAddress (w1.created + 1))⟩ r)
          (resumeFrame ⟨{ w1 with created := w1.created + 1 }, f1.touch off len, 0, 0,
            some (p.newAddress (w1.created + 1))⟩ r.2) := by
  rw [Evm.exec]
  simp only [hs, hm, hfund, hd, hcol, Bool.not_true, Bool.false_eq_true, if_false, if_true, createWorld, createFrameC,
    resumeWorld, resumeFrame]
  split
  · rename_i heq; rw [heq]; rfl
  · rename_i w2 h heq
    rw [heq]
    cases h <;> rfl

theorem halts_create_oog (hs : Evm.step p w f = .create 0xf0 w1 f1 v off len salt) (hm : Evm.memOk p off len = false)
    (r : Evm.World × Evm.Halt) : Halts p w f r ↔ r = (w1, .outOfGas) := by
  constructor
  · rintro ⟨n, e⟩
    cases n with
    | zero => simp [Evm.exec] at e
    | succ n => rw [exec_create_oog hs hm] at e; exact (Option.some.inj e).symm
  · rintro rfl; exact ⟨1, exec_create_oog hs hm 0⟩

theorem halts_create_fail (hs : Evm.step p w f = .create 0xf0 w1 f1 v off len salt) (hm : Evm.memOk p off len = true)
    (hc : w1.balanceOf (f1.touch off len).this < v ∨ (f1.touch off len).depth + 1 > p.maxDepth ∨
      (({ w1 with created := w1.created + 1 } : Evm.World).codeOf (p.newAddress (w1.created + 1))).isSome = true)
    (r : Evm.World × Evm.Halt) :
    Halts p w f r ↔ Halts p { w1 with created := w1.created + 1 } (failFrame (f1.touch off len)) r := by
  constructor
  · rintro ⟨n, e⟩
    cases n with
    | zero => simp [Evm.exec] at e
    | succ n => rw [exec_create_fail hs hm hc] at e; exact ⟨n, e⟩
  · rintro ⟨n, e⟩
    exact ⟨n + 1, by rw [exec_create_fail hs hm hc]; exact e⟩

theorem halts_create (hs : Evm.step p w f = .create 0xf0 w1 f1 v off len salt) (hm : Evm.memOk p off len = true)
    (hfund : ¬ w1.balanceOf (f1.touch off len).this < v) (hd : ¬ (f1.touch off len).depth + 1 > p.maxDepth)
    (hcol : (({ w1 with created := w1.created + 1 } : Evm.World).codeOf (p.newAddress (w1.created + 1))).isSome = false)
    (r : Evm.World × Evm.Halt) :
    Halts p w f r ↔
      ∃ r1, Halts p (createWorld { w1 with created := w1.created + 1 } (f1.touch off len).this
            (p.newAddress (w1.created + 1)) v)
          (createFrameC (f1.touch off len) (p.newAddress (w1.created + 1)) v
            (Evm.readBytes (f1.touch off len).mem off len)) r1 ∧
        Halts p (resumeWorld ⟨{ w1 with created := w1.created + 1 }, f1.touch off len, 0, 0,
            some (p.newAddress (w1.created + 1))⟩ r1)
          (resumeFrame ⟨{ w1 with created := w1.created + 1 }, f1.touch off len, 0, 0,
            some (p.newAddress (w1.created + 1))⟩ r1.2) r := by
  constructor
  · rintro ⟨n, e⟩
    cases n with
    | zero => simp [Evm.exec] at e
    | succ n =>
      rw [exec_create hs hm hfund hd hcol] at e
      cases hx : Evm.exec p n (createWorld { w1 with created := w1.created + 1 } (f1.touch off len).this
            (p.newAddress (w1.created + 1)) v)
          (createFrameC (f1.touch off len) (p.newAddress (w1.created + 1)) v
            (Evm.readBytes (f1.touch off len).mem off len)) with
      | none => rw [hx] at e; cases e
      | some r1 =>
        rw [hx] at e
        exact ⟨r1, ⟨n, hx⟩, ⟨n, e⟩⟩
  · rintro ⟨r1, ⟨n1, e1⟩, ⟨n2, e2⟩⟩
    refine ⟨max n1 n2 + 1, ?_⟩
    rw [exec_create hs hm hfund hd hcol, exec_mono_le (Nat.le_max_left n1 n2) e1]
    exact exec_mono_le (Nat.le_max_right n1 n2) e2

end

/-! ### a frame with its suspended callers -/

/-- `f` in `w` runs to completion, its result resumes the innermost suspended caller, and so on; the outermost frame
    completes with `r` -/
def RunStack (p : Evm.Params) : Evm.World → Evm.Frame → List CCont → Evm.World × Evm.Halt → Prop
  | w, f, [], r => Halts p w f r
  | w, f, k :: ks, r => ∃ r1, Halts p w f r1 ∧ RunStack p (resumeWorld k r1) (resumeFrame k r1.2) ks r

section
variable {p : Evm.Params}

theorem runStack_next {w w' : Evm.World} {f f' : Evm.Frame} (h : Evm.step p w f = .next w' f') (ks : List CCont)
    (r : Evm.World × Evm.Halt) : RunStack p w f ks r ↔ RunStack p w' f' ks r := by
  cases ks with
  | nil => exact halts_next h
  | cons k ks =>
    simp only [RunStack]
    constructor
    · rintro ⟨r1, h1, h2⟩; exact ⟨r1, (halts_next h).1 h1, h2⟩
    · rintro ⟨r1, h1, h2⟩; exact ⟨r1, (halts_next h).2 h1, h2⟩

theorem runStack_reach {x y : Evm.World × Evm.Frame} (h : CReach p x y) (ks : List CCont)
    (r : Evm.World × Evm.Halt) : RunStack p x.1 x.2 ks r ↔ RunStack p y.1 y.2 ks r := by
  induction h with
  | refl => exact Iff.rfl
  | tail _ hs ih => exact ih.trans (runStack_next hs ks r)

/-- the running frame halts: a top-level frame has its result; a callee's result resumes its caller -/
theorem runStack_halt_nil {w w' : Evm.World} {f : Evm.Frame} {h : Evm.Halt} (hs : Evm.step p w f = .halt w' h)
    (r : Evm.World × Evm.Halt) : RunStack p w f [] r ↔ r = (w', h) := halts_halt hs

theorem runStack_halt_cons {w w' : Evm.World} {f : Evm.Frame} {h : Evm.Halt} (hs : Evm.step p w f = .halt w' h)
    (k : CCont) (ks : List CCont) (r : Evm.World × Evm.Halt) :
    RunStack p w f (k :: ks) r ↔ RunStack p (resumeWorld k (w', h)) (resumeFrame k h) ks r := by
  simp only [RunStack]
  constructor
  · rintro ⟨r1, h1, h2⟩
    have := (halts_halt hs).1 h1
    subst this; exact h2
  · intro h2
    exact ⟨(w', h), (halts_halt hs).2 rfl, h2⟩

/-- a call: the callee runs on top of the suspended caller -/
theorem runStack_call {w w1 : Evm.World} {f f1 : Evm.Frame} {kind tgt ao al ro rl : Nat}
    (hs : Evm.step p w f = .call kind w1 f1 tgt 0 ao al ro rl) (hm1 : Evm.memOk p ao al = true)
    (hm2 : Evm.memOk p ro rl = true) (hd : ¬ ((f1.touch ao al).touch ro rl).depth + 1 > p.maxDepth)
    (ks : List CCont) (r : Evm.World × Evm.Halt) :
    RunStack p w f ks r ↔
      RunStack p w1 (calleeFrame kind ((f1.touch ao al).touch ro rl) w1 tgt ao al)
        (⟨w1, (f1.touch ao al).touch ro rl, ro, rl, none⟩ :: ks) r := by
  cases ks with
  | nil =>
    simp only [RunStack]
    constructor
    · exact halts_call_inv hs hm1 hm2 hd
    · rintro ⟨r1, h1, h2⟩; exact halts_call hs hm1 hm2 hd h1 h2
  | cons k ks =>
    simp only [RunStack]
    constructor
    · rintro ⟨r2, h2, h3⟩
      obtain ⟨r1, h1, h1'⟩ := halts_call_inv hs hm1 hm2 hd h2
      exact ⟨r1, h1, r2, h1', h3⟩
    · rintro ⟨r1, h1, r2, h1', h3⟩
      exact ⟨r2, halts_call hs hm1 hm2 hd h1 h1', h3⟩

/-- a call with a value: the callee runs in the world after the transfer, on top of the suspended caller (whose saved
    world is the one before it) -/
theorem runStack_callv {w w1 : Evm.World} {f f1 : Evm.Frame} {kind tgt v ao al ro rl : Nat}
    (hs : Evm.step p w f = .call kind w1 f1 tgt v ao al ro rl) (hm1 : Evm.memOk p ao al = true)
    (hm2 : Evm.memOk p ro rl = true)
    (hstat : (decide (kind = 0xf1) && ((f1.touch ao al).touch ro rl).isStatic && decide (v ≠ 0)) = false)
    (hfund : ((decide (kind = 0xf1) || decide (kind = 0xf2)) && decide (v ≠ 0) &&
      decide (w1.balanceOf ((f1.touch ao al).touch ro rl).this < v)) = false)
    (hd : ¬ ((f1.touch ao al).touch ro rl).depth + 1 > p.maxDepth)
    (ks : List CCont) (r : Evm.World × Evm.Halt) :
    RunStack p w f ks r ↔
      RunStack p (callWorld kind w1 ((f1.touch ao al).touch ro rl).this tgt v)
        (calleeFrameV kind ((f1.touch ao al).touch ro rl) w1 tgt v ao al)
        (⟨w1, (f1.touch ao al).touch ro rl, ro, rl, none⟩ :: ks) r := by
  cases ks with
  | nil =>
    simp only [RunStack]
    constructor
    · exact halts_callv_inv hs hm1 hm2 hstat hfund hd
    · rintro ⟨r1, h1, h2⟩; exact halts_callv hs hm1 hm2 hstat hfund hd h1 h2
  | cons k ks =>
    simp only [RunStack]
    constructor
    · rintro ⟨r2, h2, h3⟩
      obtain ⟨r1, h1, h1'⟩ := halts_callv_inv hs hm1 hm2 hstat hfund hd h2
      exact ⟨r1, h1, r2, h1', h3⟩
    · rintro ⟨r1, h1, r2, h1', h3⟩
      exact ⟨r2, halts_callv hs hm1 hm2 hstat hfund hd h1 h1', h3⟩

/-- a call the caller cannot pay for: it goes on with flag 0 -/
theorem runStack_call_insufficient {w w1 : Evm.World} {f f1 : Evm.Frame} {kind tgt v ao al ro rl : Nat}
    (hs : Evm.step p w f = .call kind w1 f1 tgt v ao al ro rl) (hm1 : Evm.memOk p ao al = true)
    (hm2 : Evm.memOk p ro rl = true)
    (hstat : (decide (kind = 0xf1) && ((f1.touch ao al).touch ro rl).isStatic && decide (v ≠ 0)) = false)
    (hfund : ((decide (kind = 0xf1) || decide (kind = 0xf2)) && decide (v ≠ 0) &&
      decide (w1.balanceOf ((f1.touch ao al).touch ro rl).this < v)) = true)
    (ks : List CCont) (r : Evm.World × Evm.Halt) :
    RunStack p w f ks r ↔ RunStack p w1 (failFrame ((f1.touch ao al).touch ro rl)) ks r := by
  cases ks with
  | nil => exact halts_call_insufficient hs hm1 hm2 hstat hfund r
  | cons k ks =>
    simp only [RunStack]
    constructor
    · rintro ⟨r1, h1, h2⟩; exact ⟨r1, (halts_call_insufficient hs hm1 hm2 hstat hfund r1).1 h1, h2⟩
    · rintro ⟨r1, h1, h2⟩; exact ⟨r1, (halts_call_insufficient hs hm1 hm2 hstat hfund r1).2 h1, h2⟩


/-- generic: an equivalence of `Halts` of the running frame lifts to the frame stack -/
theorem runStack_of_halts {w w' : Evm.World} {f f' : Evm.Frame}
    (h : ∀ r, Halts p w f r ↔ Halts p w' f' r) (ks : List CCont) (r : Evm.World × Evm.Halt) :
    RunStack p w f ks r ↔ RunStack p w' f' ks r := by
  cases ks with
  | nil => exact h r
  | cons k ks =>
    simp only [RunStack]
    constructor
    · rintro ⟨r1, h1, h2⟩; exact ⟨r1, (h r1).1 h1, h2⟩
    · rintro ⟨r1, h1, h2⟩; exact ⟨r1, (h r1).2 h1, h2⟩

/-- generic: a step that runs a sub-frame and resumes pushes a suspended caller -/
theorem runStack_push {w w' : Evm.World} {f f' : Evm.Frame} {kc : CCont}
    (h : ∀ r, Halts p w f r ↔ ∃ r1, Halts p w' f' r1 ∧ Halts p (resumeWorld kc r1) (resumeFrame kc r1.2) r)
    (ks : List CCont) (r : Evm.World × Evm.Halt) :
    RunStack p w f ks r ↔ RunStack p w' f' (kc :: ks) r := by
  cases ks with
  | nil => simp only [RunStack]; exact h r
  | cons k ks =>
    simp only [RunStack]
    constructor
    · rintro ⟨r2, h2, h3⟩
      obtain ⟨r1, h1, h1'⟩ := (h r2).1 h2
      exact ⟨r1, h1, r2, h1', h3⟩
    · rintro ⟨r1, h1, r2, h1', h3⟩
      exact ⟨r2, (h r2).2 ⟨r1, h1, h1'⟩, h3⟩

/-- a call that fails the reference's memory check: the running frame halts with OutOfGas -/
theorem runStack_call_oog_nil {w w1 : Evm.World} {f f1 : Evm.Frame} {kind tgt v ao al ro rl : Nat}
    (hs : Evm.step p w f = .call kind w1 f1 tgt v ao al ro rl)
    (hm : ¬ (Evm.memOk p ao al = true ∧ Evm.memOk p ro rl = true)) (r : Evm.World × Evm.Halt) :
    RunStack p w f [] r ↔ r = (w1, .outOfGas) := halts_call_oog hs hm

end
end HalmosVerif.Lemmas.Sevm
