/-
Lemmas.SevmCallExplore — the worklist loop of the frame-stack machine (`exploreC`): soundness and completeness by
induction on the model's fuel, as Lemmas.SevmExplore does for the one-frame machine. The invariant of a worklist state
speaks about *completions*: every completion of the related concrete configuration (running frame + suspended callers)
is a result of the whole transaction (soundness); the transaction's result is a completion of the related concrete
configuration (completeness).
-/
import HalmosVerif.Lemmas.SevmCallStep

set_option linter.unusedSectionVars false
set_option linter.unusedSimpArgs false
set_option linter.unusedVariables false

namespace HalmosVerif.Lemmas.Sevm
open HalmosVerif.Model HalmosVerif.Model.Sevm HalmosVerif.Spec HalmosVerif.Lemmas.Word

/-- the state `runC` starts from -/
def initC (env : Env) (codes : List (Nat × List Nat)) (this : Nat) : CState :=
  { st := { pc := 0, stack := [], path := [] }, env, code := (codeOf codes this).getD [], this, depth := 0,
    conts := [], stores := [] }

/-- the accounts whose storage the run tracks: the transaction's target and every account with known code -/
def Modelled (codes : List (Nat × List Nat)) (this : Nat) (a : Nat) : Prop :=
  a = this ∨ (codeOf codes a).isSome = true

theorem exploreC_nil (s : Simp) (o : Oracle) (cfg : Cfg) (codes : List (Nat × List Nat)) (fuel steps : Nat)
    (acc : ResultC) : exploreC s o cfg codes fuel steps [] acc = acc := by
  cases fuel <;> rfl

theorem exploreC_zero (s : Simp) (o : Oracle) (cfg : Cfg) (codes : List (Nat × List Nat)) (steps : Nat)
    (cs : CState) (wl : List CState) (acc : ResultC) :
    exploreC s o cfg codes 0 steps (cs :: wl) acc = { acc with outOfFuel := true } := rfl

theorem exploreC_succ (s : Simp) (o : Oracle) (cfg : Cfg) (codes : List (Nat × List Nat)) (fuel steps : Nat)
    (cs : CState) (wl : List CState) (acc : ResultC) :
    exploreC s o cfg codes (fuel + 1) steps (cs :: wl) acc =
      if cfg.depth ≠ 0 ∧ steps + 1 > cfg.depth then
        exploreC s o cfg codes fuel (steps + 1) wl { acc with depthCut := true }
      else
        exploreC s o cfg codes fuel (steps + 1) ((stepC s o cfg codes cs).next.reverse ++ wl)
          { acc with ends := acc.ends ++ (stepC s o cfg codes cs).ends,
                     boundedLoops := acc.boundedLoops ++ (stepC s o cfg codes cs).bounded } := rfl

/-! ### with CREATE off nothing is ever created -/

/-- no account has been created, no address handed out, and no suspended caller says otherwise -/
def NoCr (cs : CState) : Prop :=
  cs.created = [] ∧ cs.nonce = 0 ∧ ∀ k ∈ cs.conts, k.snapCreated = [] ∧ k.create = none

section
variable {s : Simp} {o : Oracle} {cfg : Cfg} {codes : List (Nat × List Nat)} {cs : CState}

theorem stepC_cr (hnc : cfg.create = false) : ∃ lo, stepC s o cfg codes cs = finish cs lo ∧ LocalCr cs lo := by
  rw [stepC_eq]
  split
  · rw [createOut_off hnc]; exact ⟨_, rfl, localCr_end⟩
  split
  · exact ⟨_, rfl, callOut_cr⟩
  · split
    · exact ⟨_, rfl, balOut_cr⟩
    · split
      · exact ⟨_, rfl, shaOut_cr⟩
      · split
        · exact ⟨_, rfl, logOut_cr⟩
        · split
          · exact ⟨_, rfl, extOut_cr⟩
          · cases hp : hstoPick s o cfg cs with
            | some lo =>
              refine ⟨lo, rfl, hstoOut_cr (s := s) (o := o) (cfg := cfg) (op := opAt cs.code cs.st.pc) ?_⟩
              unfold hstoPick at hp
              split at hp
              · cases hp
              · split at hp
                · exact hp
                · cases hp
            | none => exact ⟨_, rfl, localCr_lift⟩

theorem noCr_init {env : Env} {this : Nat} : NoCr (initC env codes this) :=
  ⟨rfl, rfl, fun k hk => by cases hk⟩

/-- **stepC_noCr.** One step of the machine with CREATE off keeps `NoCr`, and its ends have no created accounts -/
theorem stepC_noCr (hnc : cfg.create = false) (h : NoCr cs) :
    (∀ cs' ∈ (stepC s o cfg codes cs).next, NoCr cs') ∧
    (∀ ce ∈ (stepC s o cfg codes cs).ends, ce.created = [] ∧ ce.nonce = 0) := by
  obtain ⟨lo, e, hcr⟩ := stepC_cr (s := s) (o := o) (codes := codes) (cs := cs) hnc
  obtain ⟨h1, h2, h3⟩ := h
  rw [e]
  refine ⟨fun cs' hm => ?_, fun ce hm => ?_⟩
  · rcases mem_finish_next hm with hm | ⟨e', _, k, ks, h', hc, _, _, hm⟩
    · obtain ⟨a, b, c⟩ := hcr cs' hm
      refine ⟨a.trans h1, b.trans h2, fun k hk => ?_⟩
      rcases c with c | ⟨k0, c, c1, c2⟩
      · rw [c] at hk; exact h3 k hk
      · rw [c] at hk
        rcases List.mem_cons.1 hk with rfl | hk
        · exact ⟨c1.trans h1, c2⟩
        · exact h3 k hk
    · have hk := h3 k (by rw [hc]; exact List.mem_cons_self)
      unfold frameEndH at hm
      rw [hk.2] at hm
      simp only [List.mem_singleton] at hm
      subst hm
      refine ⟨?_, h2, fun k' hk' => h3 k' (by rw [hc]; exact List.mem_cons_of_mem _ hk')⟩
      show (if haltOk h' then cs.created else k.snapCreated) = []
      rw [h1, hk.1]; simp
  · rw [finish_ends] at hm
    obtain ⟨e', _, hm⟩ := List.mem_flatMap.1 hm
    cases hc : cs.conts with
    | nil =>
      rw [frameEnd_nil hc] at hm
      simp only [List.mem_singleton] at hm
      subst hm; exact ⟨h1, h2⟩
    | cons k ks =>
      by_cases hn : ∃ h, e'.out = .halt h ∧ e'.tag = .normal
      · obtain ⟨h', ho, ht⟩ := hn
        rw [frameEnd_halt hc ho ht] at hm
        have hk := h3 k (by rw [hc]; exact List.mem_cons_self)
        unfold frameEndH at hm
        rw [hk.2] at hm
        cases hm
      · rw [frameEnd_other hn] at hm
        simp only [List.mem_singleton] at hm
        subst hm; exact ⟨h1, h2⟩

/-- **exploreC_noCr.** -/
theorem exploreC_noCr (hnc : cfg.create = false) (fuel : Nat) : ∀ (steps : Nat) (wl : List CState) (acc : ResultC),
    (∀ cs ∈ wl, NoCr cs) → (∀ ce ∈ acc.ends, ce.created = [] ∧ ce.nonce = 0) →
    ∀ ce ∈ (exploreC s o cfg codes fuel steps wl acc).ends, ce.created = [] ∧ ce.nonce = 0 := by
  induction fuel with
  | zero =>
    intro steps wl acc hwl hacc
    cases wl with
    | nil => rw [exploreC_nil]; exact hacc
    | cons cs wl => rw [exploreC_zero]; exact hacc
  | succ fuel ih =>
    intro steps wl acc hwl hacc
    cases wl with
    | nil => rw [exploreC_nil]; exact hacc
    | cons cs wl =>
      rw [exploreC_succ]
      split
      · exact ih _ _ _ (fun x hx => hwl x (List.mem_cons_of_mem _ hx)) hacc
      · obtain ⟨hn, he⟩ := stepC_noCr (s := s) (o := o) (codes := codes) hnc (hwl cs (List.mem_cons_self ..))
        refine ih _ _ _ ?_ ?_
        · intro x hx
          rcases List.mem_append.1 hx with hx | hx
          · exact hn x (List.mem_reverse.1 hx)
          · exact hwl x (List.mem_cons_of_mem _ hx)
        · intro ce hm
          rcases List.mem_append.1 hm with hm | hm
          · exact hacc ce hm
          · exact he ce hm

/-- the ends of a run with CREATE off -/
theorem runC_noCr (hnc : cfg.create = false) {env : Env} {this fuel : Nat} :
    ∀ ce ∈ (runC s o cfg env codes this fuel).ends, ce.created = [] ∧ ce.nonce = 0 :=
  exploreC_noCr hnc fuel 0 [initC env codes this] {} (fun cs hm => by
    rw [List.mem_singleton.1 hm]; exact noCr_init) (fun ce hm => by cases hm)

end

/-- the states the exploration can put on its worklist, starting from `cs0` -/
inductive VisitedC (s : Simp) (o : Oracle) (cfg : Cfg) (codes : List (Nat × List Nat)) (cs0 : CState) : CState → Prop where
  | start : VisitedC s o cfg codes cs0 cs0
  | step {cs cs'} : VisitedC s o cfg codes cs0 cs → cs' ∈ (stepC s o cfg codes cs).next → VisitedC s o cfg codes cs0 cs'

/-! ### soundness -/

section
variable (p : Evm.Params) (S : Nat → Prop) (w0 ws : Evm.World) (cs0 : CState) (H : Interp → Prop)

/-- a worklist state is *good*: for every valuation satisfying its path and every initial frame related to the
    initial state, it is related to a concrete configuration every completion of which is a result of the whole
    transaction -/
def GoodC (cs : CState) : Prop :=
  ∀ I : Interp, I.Std → H I → ∀ f0, RelC I p S w0 cs0 ws f0 [] → Sat I cs.st.path →
    ∃ w f kcs, RelC I p S w0 cs w f kcs ∧ ∀ r, RunStack p w f kcs r → Halts p ws f0 r

/-- an end is *good*: an untagged EVM outcome of kind `h` is — with its data evaluated — the outcome of the whole
    transaction under every valuation satisfying its path, in the world its maps describe -/
def GoodEndC (ce : CEnd) : Prop :=
  ce.e.tag = .normal → ∀ h, ce.e.out = .halt h → ∀ I : Interp, I.Std → H I → ∀ f0, RelC I p S w0 cs0 ws f0 [] →
    Sat I ce.e.st.path →
      ∃ w', Halts p ws f0 (w', haltWith h (ce.e.data.map (·.eval I))) ∧
        WRelM I S (wd w0 ce.created ce.nonce) w' (stoOf ce.stores) (evalLogs I ce.logs) (balSem I w0 ce.bal) ∧
        HRel I p S w' ce.hsto ∧ EndInv I S ce

end

section
variable {p : Evm.Params} {S : Nat → Prop} {w0 ws : Evm.World} {cs0 : CState} {H : Interp → Prop}
variable {s : Simp} {o : Oracle} {cfg : Cfg} {codes : List (Nat × List Nat)}

theorem goodC_init : GoodC p S w0 ws cs0 H cs0 :=
  fun _ _ _ f0 h0 _ => ⟨ws, f0, [], h0, fun _ hr => hr⟩

theorem stepC_good (hs : SimpSound s) (hmem : cfg.maxMem + 32 ≤ p.memLimit) (hdep : 1024 ≤ p.maxDepth)
    (hcodes : ∀ a, w0.codeOf a = codeOf codes a) (hS : ∀ a prog, codeOf codes a = some prog → S a)
    (hcb : ∀ a prog, codeOf codes a = some prog → ∀ b ∈ prog, b < 256)
    (hob : cfg.balances = true → OracleSound o)
    (hH : ∀ I, H I → (cfg.balances = true → BalHyp I cfg w0) ∧ (cfg.sha3 = true → ShaInterp I p cfg))
    (hch : CreateHyp cfg p S w0) (hoh : cfg.hsto = true → OracleSound o ∧ cfg.sha3 = true)
    (hhs : ∀ I, I.Std → H I → ∀ cs, VisitedC s o cfg codes cs0 cs → Sat I cs.st.path → HstoOK I p s cfg cs)
    {cs : CState} (hv : VisitedC s o cfg codes cs0 cs)
    (hg : GoodC p S w0 ws cs0 H cs) :
    (∀ cs' ∈ (stepC s o cfg codes cs).next, GoodC p S w0 ws cs0 H cs') ∧
    (∀ ce ∈ (stepC s o cfg codes cs).ends, GoodEndC p S w0 ws cs0 H ce) := by
  refine ⟨?_, ?_⟩
  · intro cs' hm I hI hHI f0 h0 hsat'
    obtain ⟨ext, hp⟩ := stepC_next_path hm
    have hsat : Sat I cs.st.path := by rw [hp] at hsat'; exact (sat_append.1 hsat').1
    obtain ⟨w, f, kcs, hrel, hback⟩ := hg I hI hHI f0 h0 hsat
    obtain ⟨w', f', kcs', hrel', hb'⟩ :=
      (stepC_sound (o := o) hs hI hmem hdep hcodes hS hcb (fun hbal => ⟨hob hbal, (hH I hHI).1 hbal⟩) (hH I hHI).2 hch hoh (hhs I hI hHI cs hv hsat) hrel hsat).1 cs' hm
        hsat'
    exact ⟨w', f', kcs', hrel', fun r hr => hback r (hb' r hr)⟩
  · intro ce hm htag h hout I hI hHI f0 h0 hsat'
    have hsat : Sat I cs.st.path := by rw [← stepC_end_path hm]; exact hsat'
    obtain ⟨w, f, kcs, hrel, hback⟩ := hg I hI hHI f0 h0 hsat
    obtain ⟨w', hrun, hW⟩ := (stepC_sound (o := o) hs hI hmem hdep hcodes hS hcb
      (fun hbal => ⟨hob hbal, (hH I hHI).1 hbal⟩) (hH I hHI).2 hch hoh (hhs I hI hHI cs hv hsat) hrel hsat).2 ce hm htag h hout
    exact ⟨w', hback _ hrun, hW⟩

/-- **exploreC_sound.** -/
theorem exploreC_sound (hs : SimpSound s) (hmem : cfg.maxMem + 32 ≤ p.memLimit) (hdep : 1024 ≤ p.maxDepth)
    (hcodes : ∀ a, w0.codeOf a = codeOf codes a) (hS : ∀ a prog, codeOf codes a = some prog → S a)
    (hcb : ∀ a prog, codeOf codes a = some prog → ∀ b ∈ prog, b < 256)
    (hob : cfg.balances = true → OracleSound o)
    (hH : ∀ I, H I → (cfg.balances = true → BalHyp I cfg w0) ∧ (cfg.sha3 = true → ShaInterp I p cfg))
    (hch : CreateHyp cfg p S w0) (hoh : cfg.hsto = true → OracleSound o ∧ cfg.sha3 = true)
    (hhs : ∀ I, I.Std → H I → ∀ cs, VisitedC s o cfg codes cs0 cs → Sat I cs.st.path → HstoOK I p s cfg cs)
    (fuel : Nat) : ∀ (steps : Nat) (wl : List CState) (acc : ResultC),
    (∀ cs ∈ wl, GoodC p S w0 ws cs0 H cs ∧ VisitedC s o cfg codes cs0 cs) →
    (∀ ce ∈ acc.ends, GoodEndC p S w0 ws cs0 H ce) →
    ∀ ce ∈ (exploreC s o cfg codes fuel steps wl acc).ends, GoodEndC p S w0 ws cs0 H ce := by
  induction fuel with
  | zero =>
    intro steps wl acc hwl hacc
    cases wl with
    | nil => rw [exploreC_nil]; exact hacc
    | cons cs wl => rw [exploreC_zero]; exact hacc
  | succ fuel ih =>
    intro steps wl acc hwl hacc
    cases wl with
    | nil => rw [exploreC_nil]; exact hacc
    | cons cs wl =>
      rw [exploreC_succ]
      split
      · exact ih _ _ _ (fun x hx => hwl x (List.mem_cons_of_mem _ hx)) hacc
      · obtain ⟨hg, hv⟩ := hwl cs (List.mem_cons_self ..)
        obtain ⟨hn, he⟩ := stepC_good (o := o) hs hmem hdep hcodes hS hcb hob hH hch hoh hhs hv hg
        refine ih _ _ _ ?_ ?_
        · intro x hx
          rcases List.mem_append.1 hx with hx | hx
          · exact ⟨hn x (List.mem_reverse.1 hx), .step hv (List.mem_reverse.1 hx)⟩
          · exact hwl x (List.mem_cons_of_mem _ hx)
        · intro e hm
          rcases List.mem_append.1 hm with hm | hm
          · exact hacc e hm
          · exact he e hm

end

/-! ### completeness -/

/-- the run reports that it did not explore everything -/
def FlaggedC (res : ResultC) : Prop :=
  res.boundedLoops ≠ [] ∨ res.depthCut = true ∨ res.outOfFuel = true

/-- the concrete result `r` of the valuation `I` is accounted for by the run's result -/
def CoveredC (I : Interp) (p : Evm.Params) (S : Nat → Prop) (w0 : Evm.World) (r : Evm.World × Evm.Halt)
    (res : ResultC) : Prop :=
  (∃ ce ∈ res.ends, EndCoversC I p S w0 r ce) ∨ FlaggedC res

theorem CoveredC.mono {I : Interp} {p : Evm.Params} {S : Nat → Prop} {w0 : Evm.World} {r : Evm.World × Evm.Halt} {a b : ResultC}
    (he : ∀ e ∈ a.ends, e ∈ b.ends)
    (hb : a.boundedLoops ≠ [] → b.boundedLoops ≠ []) (hd : a.depthCut = true → b.depthCut = true)
    (hf : a.outOfFuel = true → b.outOfFuel = true) (hc : CoveredC I p S w0 r a) : CoveredC I p S w0 r b := by
  rcases hc with ⟨e, hm, hcov⟩ | hb' | hd' | hf'
  · exact Or.inl ⟨e, he e hm, hcov⟩
  · exact Or.inr (Or.inl (hb hb'))
  · exact Or.inr (Or.inr (Or.inl (hd hd')))
  · exact Or.inr (Or.inr (Or.inr (hf hf')))

section
variable {p : Evm.Params} {S : Nat → Prop} {w0 : Evm.World}
variable {s : Simp} {o : Oracle} {cfg : Cfg} {codes : List (Nat × List Nat)}

theorem exploreC_mono {I : Interp} {r : Evm.World × Evm.Halt} (fuel : Nat) :
    ∀ (steps : Nat) (wl : List CState) (acc : ResultC),
    CoveredC I p S w0 r acc → CoveredC I p S w0 r (exploreC s o cfg codes fuel steps wl acc) := by
  induction fuel with
  | zero =>
    intro steps wl acc hc
    cases wl with
    | nil => rw [exploreC_nil]; exact hc
    | cons st wl =>
      rw [exploreC_zero]
      exact CoveredC.mono (a := acc) (fun _ h => h) (fun h => h) (fun h => h) (fun _ => rfl) hc
  | succ fuel ih =>
    intro steps wl acc hc
    cases wl with
    | nil => rw [exploreC_nil]; exact hc
    | cons st wl =>
      rw [exploreC_succ]
      split
      · exact ih _ _ _ (CoveredC.mono (a := acc) (fun _ h => h) (fun h => h) (fun _ => rfl) (fun h => h) hc)
      · refine ih _ _ _ (CoveredC.mono (a := acc) ?_ ?_ (fun h => h) (fun h => h) hc)
        · intro e hm; exact List.mem_append_left _ hm
        · intro hb; simp only [ne_eq, List.append_eq_nil_iff, not_and]; intro h0; exact absurd h0 hb

/-- **exploreC_complete.** -/
theorem exploreC_complete (hs : SimpSound s) (ho : OracleSound o) (hmem : cfg.maxMem + 32 ≤ p.memLimit)
    (hdep : 1024 ≤ p.maxDepth) (hcodes : ∀ a, w0.codeOf a = codeOf codes a)
    (hS : ∀ a prog, codeOf codes a = some prog → S a)
    (hcb : ∀ a prog, codeOf codes a = some prog → ∀ b ∈ prog, b < 256)
    {I : Interp} (hI : I.Std) (hb : cfg.balances = true → BalHyp I cfg w0)
    (hsi : cfg.sha3 = true → ShaInterp I p cfg) (hch : CreateHyp cfg p S w0)
    (hoh : cfg.hsto = true → cfg.sha3 = true ∧ HEmptyZero I) {cs0 : CState}
    (hsok : ∀ cs, VisitedC s o cfg codes cs0 cs → ShaOK I s cfg cs)
    (hhs : ∀ cs, VisitedC s o cfg codes cs0 cs → Sat I cs.st.path → HstoOK I p s cfg cs)
    {r : Evm.World × Evm.Halt} (fuel : Nat) :
    ∀ (steps : Nat) (wl : List CState) (acc : ResultC), (∀ cs ∈ wl, VisitedC s o cfg codes cs0 cs) →
    (∃ cs ∈ wl, Sat I cs.st.path ∧ ∃ w f kcs, RelC I p S w0 cs w f kcs ∧ RunStack p w f kcs r ∧
        BBAll (cfg.balances = true) w kcs) →
    CoveredC I p S w0 r (exploreC s o cfg codes fuel steps wl acc) := by
  induction fuel with
  | zero =>
    intro steps wl acc _ ⟨cs, hm, _⟩
    cases wl with
    | nil => cases hm
    | cons cs1 wl => rw [exploreC_zero]; exact Or.inr (Or.inr (Or.inr rfl))
  | succ fuel ih =>
    intro steps wl acc hvis ⟨cs, hm, hsat, w, f, kcs, hrel, hrun, hbb⟩
    cases wl with
    | nil => cases hm
    | cons cs1 wl =>
      rw [exploreC_succ]
      split
      · exact exploreC_mono _ _ _ _ (Or.inr (Or.inr (Or.inl rfl)))
      · have hvis' : ∀ x ∈ (stepC s o cfg codes cs1).next.reverse ++ wl, VisitedC s o cfg codes cs0 x := by
          intro x hx
          rcases List.mem_append.1 hx with hx | hx
          · exact .step (hvis cs1 (List.mem_cons_self ..)) (List.mem_reverse.1 hx)
          · exact hvis x (List.mem_cons_of_mem _ hx)
        rcases List.mem_cons.1 hm with rfl | hm
        · rcases stepC_complete (o := o) hs ho hI hmem hdep hcodes hS hcb hb hsi
              (hsok _ (hvis _ (List.mem_cons_self ..))) hch hoh (hhs _ (hvis _ (List.mem_cons_self ..)) hsat) hrel hsat
              hrun hbb with
            ⟨cs', hm', hsat', w', f', kcs', hrel', hrun', hbb'⟩ | ⟨ce, hme, hcov⟩ | hb
          · exact ih _ _ _ hvis' ⟨cs', List.mem_append_left _ (List.mem_reverse.2 hm'), hsat', w', f', kcs', hrel',
              hrun', hbb'⟩
          · exact exploreC_mono _ _ _ _ (Or.inl ⟨ce, List.mem_append_right _ hme, hcov⟩)
          · refine exploreC_mono _ _ _ _ (Or.inr (Or.inl ?_))
            simp only [ne_eq, List.append_eq_nil_iff, not_and]
            intro _; exact hb
        · exact ih _ _ _ hvis' ⟨cs, List.mem_append_right _ hm, hsat, w, f, kcs, hrel, hrun, hbb⟩

end

/-! ### the initial configuration -/

section
variable {I : Interp} {p : Evm.Params} {w0 : Evm.World} {env : Env} {codes : List (Nat × List Nat)} {this : Nat}

theorem modelled_of_code {a : Nat} {prog : List Nat} (h : codeOf codes a = some prog) : Modelled codes this a :=
  Or.inr (by rw [h]; rfl)

/-- the modelled accounts of a run: the account under test, the accounts with code and — when CREATE is followed —
    the addresses the allocator hands out -/
def ModelledC (cfg : Cfg) (codes : List (Nat × List Nat)) (this : Nat) (a : Nat) : Prop :=
  Modelled codes this a ∨ (cfg.create = true ∧ ∃ n, a = (cfg.allocBase + n) % 2 ^ 160)

/-- the transaction's first frame, in a world where every modelled account has zero storage -/
theorem relC_init {S : Nat → Prop} {f0 : Evm.Frame} (hR0 : R I env ((codeOf codes this).getD []) p initState f0)
    (hthis : f0.this = this) (hd0 : f0.depth = 0)
    (hcb : ∀ a prog, codeOf codes a = some prog → ∀ b ∈ prog, b < 256) (hS0 : S this)
    (hz : ∀ a, S a → ∀ slot, Evm.lookupD w0.storage (a, slot) = 0 ∧
      Evm.lookupD w0.transient (a, slot) = 0) :
    RelC I p S w0 (initC env codes this) w0 f0 [] := by
  refine ⟨hR0, hthis, hS0, hd0, ?_, ?_, ChainWF.nil, CrOK.nil, ⟨fun c hc => absurd hc List.not_mem_nil, fun a ha slot _ => (hz a ha slot).1⟩, List.Forall₂.nil⟩
  · show ∀ b ∈ (codeOf codes this).getD [], b < 256
    cases hc : codeOf codes this with
    | none => intro b hb; simp at hb
    | some prog => exact hcb this prog hc
  · show WRelM I S (wd w0 [] 0) w0 _ _ _
    rw [wd_zero]
    refine (WRelM.init hz).congr (fun a _ => ?_)
    show (if a = this then ({} : AcctSto) else stoOf [] a) = {}
    by_cases e : a = this
    · rw [if_pos e]
    · rw [if_neg e]; rfl

end
end HalmosVerif.Lemmas.Sevm
