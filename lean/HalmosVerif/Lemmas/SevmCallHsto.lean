/-
Lemmas.SevmCallHsto — the location words of storage cells at mapping / dynamic-array locations (Model.SevmCalls
`decodeSlot`) against the reference's locations (`hLoc`, Lemmas.SevmCallRel):
  * `ShaInterp`: the valuation interprets `f_sha3_<8n>` as the reference's Keccak-256 (used by SHA3 too);
  * bytes and numbers: `bytesToNat_natToBytes`, `natToBytes_bytesToNat`, `bytesToNat_append` (round trips of the
    big-endian encodings of the reference);
  * `sha512_eval`: under `ShaInterp`, `f_sha3_512(d)` for 64 bytes denotes Keccak-256 of the bytes;
  * `lookupHash_ok`, `lookupArray_ok`: a literal location that the path conditions name as a hash (`f_sha3_512(k‖b) = loc`,
    `f_sha3_256(b) = loc − delta`) is `hLoc` of that cell on every valuation that satisfies the path;
  * `splitKB_ok`: the 512-bit preimage `key ‖ base` split into its halves;
  * `decodeSlot_ok` (**the location tie**): whatever shape `decodeSlot` accepts — literal, `f_sha3_512(key ‖ base)`,
    `lit + i`, `i + lit` — the location word denotes `hLoc p kind (key.eval I) base` and the key is a well-formed
    256-bit term.
The cell-level facts (`hSelect_ok`, `hFlat_store`, …) and the simulation are in Lemmas.SevmCallStep.
-/
import HalmosVerif.Lemmas.SevmCallRel
import Mathlib.Tactic.Ring

set_option linter.unusedSectionVars false
set_option linter.unusedSimpArgs false
set_option linter.unusedVariables false

namespace HalmosVerif.Lemmas.Sevm
open HalmosVerif.Model HalmosVerif.Model.Sevm HalmosVerif.Spec HalmosVerif.Lemmas.Word

/-! ### helpers -/

section
variable {I : Interp} {s : Simp}

/-- `uint160(peek(2))` returned the literal `k`: the masked concrete word -/
theorem reBV160_con (hs : SimpSound s) {v : HV} {n : Nat} (hw : WordRel I v n) {sz k : Nat}
    (h : reBV s v 160 = .bv sz (.con k)) : k = n % 2 ^ 160 ∧ k < 2 ^ 160 := by
  cases v with
  | bv size r =>
    obtain ⟨r', e, wf, d⟩ := (reBV_bv_ok hs I (by decide : 0 < 160) hw.1).ok_inj
    rw [h] at e
    cases e
    exact ⟨by rw [← hw.2.2, ← d]; rfl, wf.2⟩
  | bool r =>
    obtain ⟨r', e, wf, d⟩ := (reBV_bool_ok hs I (by decide : 0 < 160) hw.1).ok_inj
    rw [h] at e
    cases e
    have hk : k = n := by rw [← hw.2.2, ← d]; rfl
    exact ⟨by rw [← hk]; exact (Nat.mod_eq_of_lt wf.2).symm, wf.2⟩

/-- a word of the callee's calldata -/
theorem wordOfBytes_rel (hs : SimpSound s) {bs : List T} (hb : ∀ b ∈ bs, b.WF ∧ b.width = 8)
    (hlen : bs.length = 32) :
    (s.t (wordOfBytes bs)).WF ∧ (s.t (wordOfBytes bs)).width = 256 ∧
      (s.t (wordOfBytes bs)).eval I = Evm.bytesToNat (bs.map (·.eval I)) := by
  have key : (wordOfBytes bs).WF ∧ (wordOfBytes bs).width = 256 ∧
      (wordOfBytes bs).eval I = Evm.bytesToNat (bs.map (·.eval I)) := by
    unfold wordOfBytes
    cases hl : litBytes? bs with
    | some ns =>
      obtain ⟨h1, h2⟩ := litBytes_ok (I := I) hl
      simp only
      refine ⟨(by decide : 0 < 256), rfl, ?_⟩
      rw [h2]
      have := bytesToNat_lt ns
      rw [h1, hlen] at this
      exact Nat.mod_eq_of_lt (Nat.lt_of_lt_of_le this (by norm_num))
    | none =>
      simp only
      match bs, hlen, hb with
      | b :: rest, hlen, hb =>
        obtain ⟨bwf, bw⟩ := hb b (List.mem_cons_self ..)
        obtain ⟨h1, h2, h3⟩ := concat_foldl_ok (I := I) rest b bwf (fun x hx => hb x (List.mem_cons_of_mem _ hx))
        refine ⟨h1, ?_, ?_⟩
        · simp only [concatBytes, h2, bw]
          simp only [List.length_cons] at hlen
          omega
        · simp only [concatBytes, h3, Evm.bytesToNat, List.map_cons, List.foldl_cons]
          have hlt := T.eval_lt I b bwf
          rw [bw] at hlt
          rw [Nat.mod_eq_of_lt hlt]; norm_num
  exact ⟨hs.wfT _ key.1, (hs.widthT _ key.1).trans key.2.1, (hs.evalT I _ key.1).trans key.2.2⟩

theorem MemRel.getD {sm : List T} {cm : List Nat} (h : MemRel I sm cm) (i : Nat) :
    ((sm[i]?).getD zeroByte).WF ∧ ((sm[i]?).getD zeroByte).width = 8 ∧
      ((sm[i]?).getD zeroByte).eval I = (cm[i]?).getD 0 := by
  obtain ⟨hwf, hm⟩ := h
  subst hm
  by_cases hi : i < sm.length
  · have : sm[i]? = some sm[i] := List.getElem?_eq_getElem hi
    simp only [this, Option.getD_some, List.getElem?_map, Option.map_some]
    exact ⟨(hwf _ (List.getElem_mem hi)).1, (hwf _ (List.getElem_mem hi)).2, trivial⟩
  · have : sm[i]? = none := List.getElem?_eq_none (by omega)
    simp only [this, Option.getD_none, List.getElem?_map, Option.map_none]
    exact zeroByte_ok I

end

/-- the valuation interprets `f_sha3_<8n>` as the reference's hash of the `n` bytes (`f_sha3_0`: of no bytes), and
    the model hashes concrete data with the reference's hash -/
structure ShaInterp (I : Interp) (p : Evm.Params) (cfg : Cfg) : Prop where
  empty : I.bv "f_sha3_0" 256 % 2 ^ 256 = p.keccak [] % Evm.W
  app : ∀ bs : List Nat, (∀ b ∈ bs, b < 256) → bs ≠ [] →
    I.uf1 (shaName (8 * bs.length)) 256 (Evm.bytesToNat bs) % 2 ^ 256 = p.keccak bs % Evm.W
  conc : ∀ bs : List Nat, (∀ b ∈ bs, b < 256) → cfg.keccak bs % 2 ^ 256 = p.keccak bs % Evm.W


/-! ### the location term -/

section
variable {I : Interp} {p : Evm.Params} {cfg : Cfg}

/-- under `ShaInterp`, `f_sha3_512(d)` for 64 bytes `bs` (`d` their value) denotes Keccak-256 of the bytes -/
theorem sha512_eval (hsi : ShaInterp I p cfg) {bs : List Nat} (hb : ∀ b ∈ bs, b < 256) (hl : bs.length = 64) {d : T}
    (hd : d.eval I = Evm.bytesToNat bs) :
    (shaExpr 512 d).eval I = p.keccak bs % Evm.W := by
  have hne : bs ≠ [] := by intro h; rw [h] at hl; cases hl
  have := hsi.app bs hb hne
  rw [hl] at this
  have hne0 : ¬ (512 : Nat) = 0 := by decide
  simp only [shaExpr, if_neg hne0, T.eval, hd]
  exact this

end

/-! ### bytes and numbers -/

theorem bytes_foldl_acc (bs : List Nat) (acc : Nat) :
    bs.foldl (fun acc b => acc * 256 + b % 256) acc = acc * 256 ^ bs.length + Evm.bytesToNat bs := by
  induction bs generalizing acc with
  | nil => simp [Evm.bytesToNat]
  | cons b bs ih =>
    unfold Evm.bytesToNat
    simp only [List.foldl_cons, List.length_cons]
    rw [ih, ih (0 * 256 + b % 256)]
    ring

theorem bytesToNat_cons (b : Nat) (bs : List Nat) :
    Evm.bytesToNat (b :: bs) = b % 256 * 256 ^ bs.length + Evm.bytesToNat bs := by
  unfold Evm.bytesToNat
  simp only [List.foldl_cons]
  rw [bytes_foldl_acc]; simp [Evm.bytesToNat]

theorem bytesToNat_append (xs ys : List Nat) :
    Evm.bytesToNat (xs ++ ys) = Evm.bytesToNat xs * 256 ^ ys.length + Evm.bytesToNat ys := by
  unfold Evm.bytesToNat
  rw [List.foldl_append, bytes_foldl_acc]; rfl

theorem natToBytes_succ (n v : Nat) :
    Evm.natToBytes (n + 1) v = (v / 2 ^ (8 * n) % 256) :: Evm.natToBytes n v := by
  unfold Evm.natToBytes
  rw [List.range_succ_eq_map]
  simp only [List.map_cons, List.map_map]
  congr 1
  apply List.map_congr_left
  intro i hi
  have : i < n := List.mem_range.1 hi
  simp only [Function.comp]
  congr 3
  omega

theorem natToBytes_length (n v : Nat) : (Evm.natToBytes n v).length = n := by simp [Evm.natToBytes]

theorem natToBytes_lt (n v : Nat) : ∀ b ∈ Evm.natToBytes n v, b < 256 := by
  intro b hb
  unfold Evm.natToBytes at hb
  obtain ⟨i, _, rfl⟩ := List.mem_map.1 hb
  exact Nat.mod_lt _ (by norm_num)

theorem bytesToNat_natToBytes (n v : Nat) : Evm.bytesToNat (Evm.natToBytes n v) = v % 256 ^ n := by
  induction n with
  | zero => simp [Evm.natToBytes, Evm.bytesToNat, Nat.mod_one]
  | succ n ih =>
    rw [natToBytes_succ, bytesToNat_cons, natToBytes_length, ih, Nat.mod_mod]
    have h8 : 2 ^ (8 * n) = 256 ^ n := by rw [pow_mul]; norm_num
    rw [h8, pow_succ, Nat.mod_mul, Nat.add_comm, Nat.mul_comm]

theorem bytesToNat_inj : ∀ {xs ys : List Nat}, xs.length = ys.length → (∀ b ∈ xs, b < 256) → (∀ b ∈ ys, b < 256) →
    Evm.bytesToNat xs = Evm.bytesToNat ys → xs = ys
  | [], [], _, _, _, _ => rfl
  | [], _ :: _, h, _, _, _ => by simp at h
  | _ :: _, [], h, _, _, _ => by simp at h
  | x :: xs, y :: ys, hl, hx, hy, he => by
    have hl' : xs.length = ys.length := by simpa using hl
    rw [bytesToNat_cons, bytesToNat_cons, hl'] at he
    have h1 := bytesToNat_lt xs
    have h2 := bytesToNat_lt ys
    rw [hl'] at h1
    have hx0 : x % 256 = x := Nat.mod_eq_of_lt (hx x (List.mem_cons_self ..))
    have hy0 : y % 256 = y := Nat.mod_eq_of_lt (hy y (List.mem_cons_self ..))
    rw [hx0, hy0] at he
    have hpos : 0 < 256 ^ ys.length := Nat.pow_pos (by norm_num)
    have hxy : x = y := by
      have e1 : (x * 256 ^ ys.length + Evm.bytesToNat xs) / 256 ^ ys.length = x := by
        rw [Nat.add_comm, Nat.add_mul_div_right _ _ hpos, Nat.div_eq_of_lt h1, Nat.zero_add]
      have e2 : (y * 256 ^ ys.length + Evm.bytesToNat ys) / 256 ^ ys.length = y := by
        rw [Nat.add_comm, Nat.add_mul_div_right _ _ hpos, Nat.div_eq_of_lt h2, Nat.zero_add]
      rw [← e1, ← e2, he]
    subst hxy
    have : Evm.bytesToNat xs = Evm.bytesToNat ys := by omega
    rw [bytesToNat_inj hl' (fun b hb => hx b (List.mem_cons_of_mem _ hb)) (fun b hb => hy b (List.mem_cons_of_mem _ hb)) this]

/-- the bytes of the value of a byte string are the byte string -/
theorem natToBytes_bytesToNat {xs : List Nat} (hx : ∀ b ∈ xs, b < 256) :
    Evm.natToBytes xs.length (Evm.bytesToNat xs) = xs := by
  apply bytesToNat_inj (natToBytes_length _ _) (natToBytes_lt _ _) hx
  rw [bytesToNat_natToBytes]
  exact Nat.mod_eq_of_lt (bytesToNat_lt xs)

/-! ### the locations the model decodes are the locations of the cells -/

section
variable {I : Interp} {p : Evm.Params} {cfg : Cfg}

theorem offsetDelta_ok {d loc delta : Nat} (h : offsetDelta d loc = some delta) : loc = d + delta ∧ delta < 2 ^ 17 := by
  unfold offsetDelta at h
  have hd := Nat.div_add_mod d (2 ^ 16)
  have hl := Nat.div_add_mod loc (2 ^ 16)
  have h1 : d % 2 ^ 16 < 2 ^ 16 := Nat.mod_lt _ (by norm_num)
  have h2 : loc % 2 ^ 16 < 2 ^ 16 := Nat.mod_lt _ (by norm_num)
  split at h
  · rename_i he
    split at h
    · rename_i hle
      simp only [Option.some.injEq] at h
      subst h
      constructor
      · rw [he] at hl; omega
      · omega
    · cases h
  · split at h
    · rename_i he
      simp only [Option.some.injEq] at h
      subst h
      constructor
      · rw [he] at hl
        have : 2 ^ 16 * (d / 2 ^ 16 + 1) = 2 ^ 16 * (d / 2 ^ 16) + 2 ^ 16 := by ring
        omega
      · omega
    · cases h

/-- a hash of a plain slot registered on the path: the literal is Keccak-256 of the 32 bytes of the slot -/
theorem lookupArray_ok (hsi : ShaInterp I p cfg) {path : List B} (hsat : Sat I path) {loc b delta : Nat}
    (h : lookupArray path loc = some (b, delta)) (hloc : loc < 2 ^ 256) :
    b < 2 ^ 64 ∧ loc = p.keccak (Evm.natToBytes 32 b) % Evm.W + delta ∧ delta < 2 ^ 17 := by
  unfold lookupArray at h
  obtain ⟨c, hc, hf⟩ := List.exists_of_findSome?_eq_some h
  split at hf
  · rename_i n b' d
    split at hf
    · rename_i hcond
      obtain ⟨hn, hb'⟩ := hcond
      cases hod : offsetDelta d loc with
      | none => rw [hod] at hf; cases hf
      | some dl =>
        rw [hod] at hf
        simp only [Option.map_some, Option.some.injEq, Prod.mk.injEq] at hf
        obtain ⟨rfl, rfl⟩ := hf
        obtain ⟨hl, hdl⟩ := offsetDelta_ok hod
        have hce := hsat _ hc
        simp only [B.eval, CmpOp.eval, T.eval, beq_iff_eq] at hce
        have happ := hsi.app (Evm.natToBytes 32 b') (natToBytes_lt _ _)
          (by intro e; have := natToBytes_length 32 b'; rw [e] at this; cases this)
        rw [natToBytes_length, bytesToNat_natToBytes] at happ
        have hb256 : b' % 256 ^ 32 = b' := Nat.mod_eq_of_lt (lt_of_lt_of_le hb' (by norm_num))
        have hb2 : b' % 2 ^ 256 = b' := Nat.mod_eq_of_lt (lt_of_lt_of_le hb' (by norm_num))
        rw [hb256] at happ
        rw [hb2, hn] at hce
        have hdlt : d < 2 ^ 256 := by omega
        rw [Nat.mod_eq_of_lt hdlt] at hce
        have : (8 * 32 : Nat) = 256 := by norm_num
        rw [this] at happ
        refine ⟨hb', ?_, hdl⟩
        rw [← happ, hce]; exact hl
    · cases hf
  · cases hf

/-- a mapping-cell hash of concrete key and base registered on the path -/
theorem lookupHash_ok (hsi : ShaInterp I p cfg) {path : List B} (hsat : Sat I path) {loc b : Nat} {k : T}
    (h : lookupHash path loc = some (b, k)) (hloc : loc < 2 ^ 256) :
    ∃ key, k = .lit 256 key ∧ key < 2 ^ 256 ∧ b < 2 ^ 64 ∧ loc = hLoc p 2 key b := by
  unfold lookupHash at h
  obtain ⟨c, hc, hf⟩ := List.exists_of_findSome?_eq_some h
  split at hf
  · rename_i n d l
    split at hf
    · rename_i hcond
      obtain ⟨hn, hl, hb⟩ := hcond
      simp only [Option.some.injEq, Prod.mk.injEq] at hf
      obtain ⟨rfl, rfl⟩ := hf
      refine ⟨d / 2 ^ 256 % 2 ^ 256, rfl, Nat.mod_lt _ (by norm_num), hb, ?_⟩
      have hce := hsat _ hc
      simp only [B.eval, CmpOp.eval, T.eval, beq_iff_eq] at hce
      rw [hn, hl, Nat.mod_eq_of_lt hloc] at hce
      have happ := hsi.app (Evm.natToBytes 64 (d % 2 ^ 512)) (natToBytes_lt _ _)
        (by intro e; have := natToBytes_length 64 (d % 2 ^ 512); rw [e] at this; cases this)
      rw [natToBytes_length, bytesToNat_natToBytes] at happ
      have h512 : (256 : Nat) ^ 64 = 2 ^ 512 := by rw [show (256 : Nat) = 2 ^ 8 from rfl, ← pow_mul]
      rw [h512, Nat.mod_mod] at happ
      have : (8 * 64 : Nat) = 512 := by norm_num
      rw [this, hce] at happ
      -- the 64 bytes are the 32 bytes of the key and the 32 bytes of the base
      have hsplit : Evm.natToBytes 64 (d % 2 ^ 512) =
          Evm.natToBytes 32 (d / 2 ^ 256 % 2 ^ 256) ++ Evm.natToBytes 32 (d % 2 ^ 256) := by
        apply bytesToNat_inj
        · simp [natToBytes_length]
        · exact natToBytes_lt _ _
        · intro x hx
          rcases List.mem_append.1 hx with hx | hx <;> exact natToBytes_lt _ _ x hx
        · rw [bytesToNat_append, bytesToNat_natToBytes, bytesToNat_natToBytes, bytesToNat_natToBytes,
            natToBytes_length]
          have h256 : (256 : Nat) ^ 32 = 2 ^ 256 := by norm_num
          rw [h512, h256, Nat.mod_mod, Nat.mod_mod, Nat.mod_mod]
          have : (2 : Nat) ^ 512 = 2 ^ 256 * 2 ^ 256 := by rw [← pow_add]
          rw [this, Nat.mod_mul]
          ring
      unfold hLoc
      rw [if_pos rfl, ← hsplit]
      exact happ
    · cases hf
  · cases hf

theorem flatConcat_leaf (t : T) (h : ∀ a b, t ≠ .concat a b) : flatConcat t = [t] := by
  cases t <;> first | rfl | exact absurd rfl (h _ _)

/-- a concatenation of bytes denotes the value of the byte string -/
theorem flatConcat_eval (t : T) (hwf : t.WF) (h8 : ∀ l ∈ flatConcat t, l.width = 8) :
    (∀ l ∈ flatConcat t, l.WF) ∧ t.width = 8 * (flatConcat t).length ∧
      t.eval I = Evm.bytesToNat ((flatConcat t).map (·.eval I)) := by
  by_cases h : ∃ a b, t = .concat a b
  · obtain ⟨a, b, hab⟩ := h
    have hfl : flatConcat t = flatConcat a ++ flatConcat b := by rw [hab]; rfl
    have hwf' : a.WF ∧ b.WF := by rw [hab] at hwf; exact hwf
    rw [hfl] at h8
    obtain ⟨a1, a2, a3⟩ := flatConcat_eval a hwf'.1 (fun l hl => h8 l (List.mem_append_left _ hl))
    obtain ⟨b1, b2, b3⟩ := flatConcat_eval b hwf'.2 (fun l hl => h8 l (List.mem_append_right _ hl))
    rw [hfl]
    subst hab
    refine ⟨fun l hl => ?_, ?_, ?_⟩
    · rcases List.mem_append.1 hl with hl | hl
      · exact a1 l hl
      · exact b1 l hl
    · simp only [T.width, a2, b2, List.length_append]; ring
    · simp only [T.eval, a3, b3, b2, List.map_append, bytesToNat_append, List.length_map]
      rw [pow_mul]; norm_num
  · have hl := flatConcat_leaf t (fun a b e => h ⟨a, b, e⟩)
    rw [hl] at h8 ⊢
    have hw : t.width = 8 := h8 t (List.mem_singleton.2 rfl)
    refine ⟨fun l hl' => by rw [List.mem_singleton.1 hl']; exact hwf, by rw [hw]; rfl, ?_⟩
    simp only [List.map_cons, List.map_nil, bytesToNat_cons, List.length_nil, pow_zero, Nat.mul_one]
    have := T.eval_lt I t hwf
    rw [hw] at this
    simp [Evm.bytesToNat, Nat.mod_eq_of_lt this]
termination_by sizeOf t
decreasing_by
  all_goals first | (simp_wf; rw [hab]; simp; omega) | (simp_wf; rw [hab]; simp)

theorem flatConcat_length_pos (t : T) : 0 < (flatConcat t).length := by
  by_cases h : ∃ a b, t = .concat a b
  · obtain ⟨a, b, hab⟩ := h
    have := flatConcat_length_pos a
    rw [hab]
    show 0 < (flatConcat a ++ flatConcat b).length
    rw [List.length_append]; omega
  · rw [flatConcat_leaf t (fun a b e => h ⟨a, b, e⟩)]; simp
termination_by sizeOf t
decreasing_by all_goals first | (simp_wf; rw [hab]; simp; omega) | (simp_wf; rw [hab]; simp)

/-- the two halves of the hashed data of a mapping location: the hash term denotes `hLoc` of the decoded cell -/
theorem splitKB_ok {s : Simp} (hs : SimpSound s) (hsi : ShaInterp I p cfg) {data : T} (hdwf : data.WF) {b : Nat} {k : T}
    (h : splitKB s data = some (b, k)) :
    k.WF ∧ k.width = 256 ∧ I.uf1 (shaName 512) 256 (data.eval I) % 2 ^ 256 = hLoc p 2 (k.eval I) b := by
  unfold splitKB at h
  simp only at h
  split at h
  · rename_i hc
    obtain ⟨hlen, hall⟩ := hc
    have h8 : ∀ l ∈ flatConcat data, l.width = 8 := by
      intro l hl
      have := List.all_eq_true.1 hall l hl
      simpa using this
    obtain ⟨lwf, _, hev⟩ := flatConcat_eval (I := I) data hdwf h8
    cases hlb : litBytes? ((flatConcat data).drop 32) with
    | none => rw [hlb] at h; cases h
    | some ns =>
      rw [hlb] at h
      simp only at h
      split at h
      · rename_i hb64
        simp only [Option.some.injEq, Prod.mk.injEq] at h
        obtain ⟨rfl, rfl⟩ := h
        have htake : ∀ x ∈ (flatConcat data).take 32, x.WF ∧ x.width = 8 :=
          fun x hx => ⟨lwf x (List.mem_of_mem_take hx), h8 x (List.mem_of_mem_take hx)⟩
        have htl : ((flatConcat data).take 32).length = 32 := by rw [List.length_take, hlen]; rfl
        obtain ⟨k1, k2, k3⟩ := wordOfBytes_rel (I := I) hs htake htl
        refine ⟨k1, k2, ?_⟩
        -- the 64 bytes
        have hbs : ∀ x ∈ (flatConcat data).map (·.eval I), x < 256 := by
          intro x hx
          obtain ⟨l, hl, rfl⟩ := List.mem_map.1 hx
          have := T.eval_lt I l (lwf l hl)
          rw [h8 l hl] at this; exact this
        have hbl : ((flatConcat data).map (·.eval I)).length = 64 := by rw [List.length_map, hlen]
        have happ := hsi.app _ hbs (by intro e; rw [e] at hbl; cases hbl)
        rw [hbl, ← hev] at happ
        have : (8 * 64 : Nat) = 512 := by norm_num
        rw [this] at happ
        rw [happ]
        unfold hLoc
        rw [if_pos rfl]
        congr 2
        have hsplit : (flatConcat data).map (·.eval I) =
            ((flatConcat data).take 32).map (·.eval I) ++ ((flatConcat data).drop 32).map (·.eval I) := by
          rw [← List.map_append, List.take_append_drop]
        rw [hsplit, k3]
        have hdrop := litBytes_mod (I := I) hlb
        have hl1 : (((flatConcat data).take 32).map (·.eval I)).length = 32 := by rw [List.length_map, htl]
        have hl2 : (ns.map (· % 256)).length = 32 := by
          rw [← hdrop, List.length_map, List.length_drop, hlen]
        congr 1
        · have := natToBytes_bytesToNat (xs := ((flatConcat data).take 32).map (·.eval I))
            (fun x hx => hbs x (by rw [hsplit]; exact List.mem_append_left _ hx))
          rw [hl1] at this; exact this.symm
        · rw [hdrop]
          have := natToBytes_bytesToNat (xs := ns.map (· % 256)) (mod256_lt ns)
          rw [hl2] at this; exact this.symm
      · cases h
  · -- two words
    split at h
    · rename_i k' b' hleaves
      split at h
      · rename_i hc
        simp only [Option.some.injEq, Prod.mk.injEq] at h
        obtain ⟨rfl, rfl⟩ := h
        -- the data is the concatenation of the two leaves
        have hdata : data = .concat k' (.lit 256 b') := by
          by_cases hcc : ∃ a c, data = .concat a c
          · obtain ⟨a, c, rfl⟩ := hcc
            have hfl : flatConcat a ++ flatConcat c = [k', .lit 256 b'] := hleaves
            have ha := flatConcat_length_pos a
            have hc' := flatConcat_length_pos c
            have hlen : (flatConcat a).length + (flatConcat c).length = 2 := by
              rw [← List.length_append, hfl]; rfl
            have ha1 : (flatConcat a).length = 1 := by omega
            have hc1 : (flatConcat c).length = 1 := by omega
            obtain ⟨x, hx⟩ := List.length_eq_one_iff.1 ha1
            obtain ⟨y, hy⟩ := List.length_eq_one_iff.1 hc1
            rw [hx, hy] at hfl
            simp only [List.cons_append, List.nil_append, List.cons.injEq, and_true] at hfl
            obtain ⟨hxk, hyb⟩ := hfl
            have hax : a = x := by
              by_cases h2 : ∃ a1 a2, a = .concat a1 a2
              · obtain ⟨a1, a2, rfl⟩ := h2
                have : (flatConcat a1 ++ flatConcat a2).length = 1 := ha1
                have p1 := flatConcat_length_pos a1
                have p2 := flatConcat_length_pos a2
                rw [List.length_append] at this; omega
              · rw [flatConcat_leaf a (fun a1 a2 e => h2 ⟨a1, a2, e⟩)] at hx
                exact (List.cons.inj hx).1
            have hcy : c = y := by
              by_cases h2 : ∃ a1 a2, c = .concat a1 a2
              · obtain ⟨a1, a2, rfl⟩ := h2
                have : (flatConcat a1 ++ flatConcat a2).length = 1 := hc1
                have p1 := flatConcat_length_pos a1
                have p2 := flatConcat_length_pos a2
                rw [List.length_append] at this; omega
              · rw [flatConcat_leaf c (fun a1 a2 e => h2 ⟨a1, a2, e⟩)] at hy
                exact (List.cons.inj hy).1
            rw [hax, hcy, hxk, hyb]
          · rw [flatConcat_leaf data (fun a c e => hcc ⟨a, c, e⟩)] at hleaves
            simp at hleaves
        subst hdata
        obtain ⟨hkw, hb64⟩ := hc
        have hkwf : k'.WF := hdwf.1
        refine ⟨hkwf, hkw, ?_⟩
        have hklt : k'.eval I < 2 ^ 256 := by have := T.eval_lt I k' hkwf; rw [hkw] at this; exact this
        have hblt : b' < 2 ^ 256 := lt_of_lt_of_le hb64 (by norm_num)
        have happ := hsi.app (Evm.natToBytes 32 (k'.eval I) ++ Evm.natToBytes 32 b')
          (fun x hx => by rcases List.mem_append.1 hx with hx | hx <;> exact natToBytes_lt _ _ x hx)
          (by intro e; have := congrArg List.length e; simp [natToBytes_length] at this)
        have hl64 : (Evm.natToBytes 32 (k'.eval I) ++ Evm.natToBytes 32 b').length = 64 := by
          simp [natToBytes_length]
        rw [hl64, bytesToNat_append, bytesToNat_natToBytes, bytesToNat_natToBytes, natToBytes_length] at happ
        have h256 : (256 : Nat) ^ 32 = 2 ^ 256 := by norm_num
        rw [h256, Nat.mod_eq_of_lt hklt, Nat.mod_eq_of_lt hblt] at happ
        have : (8 * 64 : Nat) = 512 := by norm_num
        rw [this] at happ
        simp only [T.eval, T.width, Nat.mod_eq_of_lt hblt]
        rw [happ]
        unfold hLoc
        rw [if_pos rfl]
      · cases h
    · cases h

/-- **the location tie.** Under `ShaInterp`, on a satisfied path, the location word the model decodes as the cell
    `(kind, base, key)` denotes `hLoc` of that cell, and the key is a well-formed 256-bit term -/
theorem decodeSlot_ok {s : Simp} (hs : SimpSound s) (hsi : ShaInterp I p cfg) {path : List B} (hsat : Sat I path)
    {kv : HV} {n : Nat} (hw : WordRel I kv n) {kind base : Nat} {key : T}
    (h : decodeSlot s path kv = some (kind, base, key)) :
    key.WF ∧ key.width = 256 ∧ n = hLoc p kind (key.eval I) base := by
  obtain ⟨r, er, wf, d⟩ := (toBV256_ok hs I hw.1 hw.2.1).ok_inj
  rw [hw.2.2] at d
  unfold decodeSlot at h
  rw [er] at h
  have h256 : (0 : Nat) < 256 := by decide
  split at h
  · -- a literal location
    rename_i sz loc heq
    simp only [HV.bv.injEq] at heq
    obtain ⟨rfl, rfl⟩ := heq
    have hloc : loc < 2 ^ 256 := wf.2
    have hn : n = loc := d.symm
    split at h
    · cases h
    · cases hlh : lookupHash path loc with
      | some bk =>
        obtain ⟨b, k⟩ := bk
        rw [hlh] at h
        simp only [Option.some.injEq, Prod.mk.injEq] at h
        obtain ⟨rfl, rfl, rfl⟩ := h
        obtain ⟨key', rfl, hk, _, hl⟩ := lookupHash_ok hsi hsat hlh hloc
        refine ⟨h256, rfl, ?_⟩
        simp only [T.eval, Nat.mod_eq_of_lt hk]
        rw [hn]; exact hl
      | none =>
        rw [hlh] at h
        simp only at h
        cases hla : lookupArray path loc with
        | none => rw [hla] at h; cases h
        | some bd =>
          obtain ⟨b, delta⟩ := bd
          obtain ⟨_, hl, hdl⟩ := lookupArray_ok hsi hsat hla hloc
          rw [hla] at h
          cases delta with
          | zero =>
            simp only [Option.some.injEq, Prod.mk.injEq] at h
            obtain ⟨rfl, rfl, rfl⟩ := h
            refine ⟨h256, rfl, ?_⟩
            unfold hLoc
            simp only [T.eval, Nat.zero_mod, Nat.add_zero]
            rw [if_neg (by decide), hn, hl, Nat.add_zero]
          | succ dl =>
            simp only [Option.some.injEq, Prod.mk.injEq] at h
            obtain ⟨rfl, rfl, rfl⟩ := h
            refine ⟨⟨h256, h256, rfl⟩, rfl, ?_⟩
            have hdl' : (dl + 1) % 2 ^ 256 = dl + 1 := Nat.mod_eq_of_lt (lt_trans hdl (by norm_num))
            unfold hLoc
            simp only [arrKey, T.eval, BinOp.eval, T.width, Nat.zero_mod, Nat.zero_add, hdl', Nat.mod_mod]
            rw [if_neg (by decide), hn]
            have hdw : (dl + 1) % Evm.W = dl + 1 := hdl'
            rw [Nat.add_mod, hdw, ← hl]; exact (Nat.mod_eq_of_lt hloc).symm
  · -- the term `f_sha3_512(data)`
    rename_i sz nm data heq
    simp only [HV.bv.injEq, Rep.sym.injEq] at heq
    obtain ⟨rfl, rfl⟩ := heq
    obtain ⟨_, twf, _⟩ := wf
    split at h
    · rename_i hnm
      cases hsk : splitKB s data with
      | none => rw [hsk] at h; cases h
      | some bk =>
        obtain ⟨b, k⟩ := bk
        rw [hsk] at h
        simp only [Option.map_some, Option.some.injEq, Prod.mk.injEq] at h
        obtain ⟨rfl, rfl, rfl⟩ := h
        obtain ⟨k1, k2, k3⟩ := splitKB_ok hs hsi twf.2 hsk
        refine ⟨k1, k2, ?_⟩
        rw [← k3, ← d, hnm]; rfl
    · cases h
  · -- `d + i`
    rename_i dd i heq
    simp only [HV.bv.injEq] at heq
    obtain ⟨_, rfl⟩ := heq
    obtain ⟨_, twf, tw⟩ := wf
    obtain ⟨_, iwf, hwi⟩ := twf
    have hiw : i.width = 256 := hwi.symm
    split at h
    · rename_i b hla
      simp only [Option.some.injEq, Prod.mk.injEq] at h
      obtain ⟨rfl, rfl, rfl⟩ := h
      obtain ⟨_, hl, _⟩ := lookupArray_ok hsi hsat hla (Nat.mod_lt _ (by norm_num))
      refine ⟨⟨h256, iwf, hiw.symm⟩, rfl, ?_⟩
      have hil : i.eval I < 2 ^ 256 := by have := T.eval_lt I i iwf; rw [hiw] at this; exact this
      unfold hLoc
      simp only [HV.denote, arrKey, T.eval, BinOp.eval, T.width, Nat.zero_mod, Nat.zero_add, Nat.mod_eq_of_lt hil] at d ⊢
      rw [if_neg (by decide), ← d, hl, Nat.add_zero]
      show (_ % Evm.W + i.eval I) % Evm.W = _
      rw [Nat.mod_add_mod]
    · cases h
  · -- `i + d`
    rename_i i dd _ heq
    simp only [HV.bv.injEq] at heq
    obtain ⟨_, rfl⟩ := heq
    obtain ⟨_, twf, tw⟩ := wf
    obtain ⟨iwf, _, hwi⟩ := twf
    have hiw : i.width = 256 := by simpa [T.width] using tw
    split at h
    · rename_i b hla
      simp only [Option.some.injEq, Prod.mk.injEq] at h
      obtain ⟨rfl, rfl, rfl⟩ := h
      obtain ⟨_, hl, _⟩ := lookupArray_ok hsi hsat hla (Nat.mod_lt _ (by norm_num))
      refine ⟨⟨h256, iwf, hiw.symm⟩, rfl, ?_⟩
      have hil : i.eval I < 2 ^ 256 := by have := T.eval_lt I i iwf; rw [hiw] at this; exact this
      unfold hLoc
      simp only [HV.denote, arrKey, T.eval, BinOp.eval, T.width, hiw, Nat.zero_mod, Nat.zero_add, Nat.mod_eq_of_lt hil] at d ⊢
      rw [if_neg (by decide), ← d, hl, Nat.add_zero]
      show (i.eval I + _ % Evm.W) % Evm.W = _
      rw [Nat.add_mod_mod, Nat.add_comm]
    · cases h
  · cases h

end
end HalmosVerif.Lemmas.Sevm
