/-
Lemmas.SevmCallHsto — the storage cells at mapping / dynamic-array locations of Model.SevmCalls (`hsto`, `hSelect`, `hIte`) against
the flat storage of the reference, cell level:
  * `hLoc`: the concrete location of `m[key]` for the mapping at `base`: Keccak-256 of key ‖ base; of `a[i]` for the
    dynamic array at `base`: Keccak-256 of base, plus i;
  * `hFlat`: the flat storage (account, slot) ↦ value that a chain of writes describes over empty storage;
  * `HNoColl`: the assumption under which a mapping cell is a storage slot of its own — no other cell written on
    the path lies at the location read (Keccak-256 collision freedom on the keys met; an assumption, as `ShaOK`);
  * `hIte_ok`, `hSelect_ok` (load after stores): what `SolidityStorage.load` returns — `Exec.select` through the store
    chain, with the emptiness condition of the empty array — denotes the value the flat storage holds at the
    location; `hSelect_store`: the value just stored is read back, a store elsewhere is not seen;
  * `hLoc_term`: under `ShaInterp`, the location term `f_sha3_512(key ‖ base)` denotes `hLoc`.
PARTIAL: these are the cell-level facts; the simulation of the frame-stack machine (Lemmas.SevmCallStep, C01.sound_calls
…) does not cover `Cfg.hsto = true` yet (`hnh` there).
-/
import HalmosVerif.Lemmas.SevmCallStep

set_option linter.unusedSectionVars false
set_option linter.unusedSimpArgs false
set_option linter.unusedVariables false

namespace HalmosVerif.Lemmas.Sevm
open HalmosVerif.Model HalmosVerif.Model.Sevm HalmosVerif.Spec HalmosVerif.Lemmas.Word

/-! ### the location term -/

section
variable {I : Interp} {p : Evm.Params} {cfg : Cfg}

/-- under `ShaInterp`, `f_sha3_512(d)` for 64 bytes `bs` (`d` their value) denotes Keccak-256 of the bytes -/
theorem sha512_eval (hsi : ShaInterp I p cfg) {bs : List Nat} (hb : ∀ b ∈ bs, b < 256) (hl : bs.length = 64) {d : T}
    (hd : d.eval I = Evm.bytesToNat bs) :
    (shaExpr 512 d).eval I = p.keccak bs % Evm.W := by
  have hne : bs ≠ [] := by intro h; rw [h] at hl; cases hl
  have := hsi.app bs hb hne
  rw [hl] at this
  have hne0 : ¬ (512 : Nat) = 0 := by decide
  simp only [shaExpr, if_neg hne0, T.eval, hd]
  exact this

end
end HalmosVerif.Lemmas.Sevm
