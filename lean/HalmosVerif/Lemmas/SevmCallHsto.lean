/-
Lemmas.SevmCallHsto — the storage cells at mapping / dynamic-array locations of Model.SevmCalls (`hsto`, `hSelect`, `hIte`) against
the flat storage of the reference, cell level:
  * `hLoc`: the concrete location of `m[key]` for the mapping at `base`: Keccak-256 of key ‖ base; of `a[i]` for the
    dynamic array at `base`: Keccak-256 of base, plus i;
  * `hFlat`: the flat storage (account, slot) ↦ value that a chain of writes describes over empty storage;
  * `HNoColl`: the assumption under which a mapping cell is a storage slot of its own — no other cell written on
    the path lies at the location read (Keccak-256 collision freedom on the keys met; an assumption, as `ShaOK`);
  * `hIte_ok`, `hSelect_ok` (load after stores): what `SolidityStorage.load` returns — `Exec.select` through the store
    chain, with the emptiness condition of the empty array — denotes the value the flat storage holds at the
    location; `hSelect_store`: the value just stored is read back, a store elsewhere is not seen;
  * `hLoc_term`: under `ShaInterp`, the location term `f_sha3_512(key ‖ base)` denotes `hLoc`.
PARTIAL: these are the cell-level facts; the simulation of the frame-stack machine (Lemmas.SevmCallStep, C01.sound_calls
…) does not cover `Cfg.hsto = true` yet (`hnh` there).
-/
import HalmosVerif.Lemmas.SevmCallStep

set_option linter.unusedSectionVars false
set_option linter.unusedSimpArgs false
set_option linter.unusedVariables false

namespace HalmosVerif.Lemmas.Sevm
open HalmosVerif.Model HalmosVerif.Model.Sevm HalmosVerif.Spec HalmosVerif.Lemmas.Word

/-- the concrete location of a cell (Solidity layout): `m[key]` for the mapping at the slot `base` (kind 2) is
    Keccak-256 of key ‖ base; `a[i]` for the dynamic array at `base` (kind 1; the key term denotes `0 + i`) is
    Keccak-256 of base, plus `i` -/
def hLoc (p : Evm.Params) (kind key base : Nat) : Nat :=
  if kind = 2 then p.keccak (Evm.natToBytes 32 key ++ Evm.natToBytes 32 base) % Evm.W
  else (p.keccak (Evm.natToBytes 32 base) + key) % Evm.W

/-- the flat storage a chain of writes (newest first) describes over empty storage -/
def hFlat (I : Interp) (p : Evm.Params) : List HCell → Nat → Nat → Nat
  | [], _, _ => 0
  | c :: rest, a, slot =>
    if c.acct = a ∧ hLoc p c.kind (c.key.eval I) c.base = slot then c.val.eval I else hFlat I p rest a slot

/-- keys and values are well-formed 256-bit terms -/
def HChainWF (chain : List HCell) : Prop :=
  ∀ c ∈ chain, c.key.WF ∧ c.key.width = 256 ∧ c.val.WF ∧ c.val.width = 256

/-- no other cell written on the path lies at the location of `m[k]` (mapping at `base` of `acct`): a cell of the
    same account at the same location is the same cell -/
def HNoColl (I : Interp) (p : Evm.Params) (chain : List HCell) (acct kind base : Nat) (k : T) : Prop :=
  ∀ c ∈ chain, c.acct = acct → hLoc p c.kind (c.key.eval I) c.base = hLoc p kind (k.eval I) base →
    c.kind = kind ∧ c.base = base ∧ c.key.eval I = k.eval I

section
variable {I : Interp} {p : Evm.Params} {s : Simp} {o : Oracle}

theorem HChainWF.tail {c : HCell} {rest : List HCell} (h : HChainWF (c :: rest)) : HChainWF rest :=
  fun x hx => h x (List.mem_cons_of_mem _ hx)

theorem HNoColl.tail {c : HCell} {rest : List HCell} {acct kind base : Nat} {k : T}
    (h : HNoColl I p (c :: rest) acct kind base k) : HNoColl I p rest acct kind base k :=
  fun x hx => h x (List.mem_cons_of_mem _ hx)

/-- the head cell is the one read exactly when it is a cell of the same mapping with an equal key -/
theorem hcell_hit {c : HCell} {rest : List HCell} {acct kind base : Nat} {k : T}
    (hn : HNoColl I p (c :: rest) acct kind base k) :
    (c.acct = acct ∧ hLoc p c.kind (c.key.eval I) c.base = hLoc p kind (k.eval I) base) ↔
      (c.acct = acct ∧ c.kind = kind ∧ c.base = base ∧ c.key.eval I = k.eval I) := by
  constructor
  · rintro ⟨h1, h2⟩
    exact ⟨h1, hn c (List.mem_cons_self ..) h1 h2⟩
  · rintro ⟨h1, h2, h3, h4⟩
    exact ⟨h1, by rw [h2, h3, h4]⟩

/-- `Select` on the array after the writes of the chain, the empty array reading 0 at the key (the emptiness condition
    `load` appends) -/
theorem hIte_ok : ∀ {chain : List HCell} {acct kind base : Nat} {k : T}, HChainWF chain → k.WF → k.width = 256 →
    HNoColl I p chain acct kind base k → I.uf1 (hEmptyName acct kind base) 256 (k.eval I) % 2 ^ 256 = 0 →
    (hIte acct kind base chain k).WF ∧ (hIte acct kind base chain k).width = 256 ∧
      (hIte acct kind base chain k).eval I = hFlat I p chain acct (hLoc p kind (k.eval I) base)
  | [], acct, kind, base, k, _, hk, _, _, he => ⟨⟨by decide, hk⟩, rfl, by simp only [hIte, T.eval, hFlat]; exact he⟩
  | c :: rest, acct, kind, base, k, hc, hk, hkw, hn, he => by
    obtain ⟨a1, a2, a3, a4⟩ := hc c (List.mem_cons_self ..)
    obtain ⟨b1, b2, b3⟩ := hIte_ok hc.tail hk hkw hn.tail he (chain := rest)
    have hhit := hcell_hit hn
    simp only [hIte, hFlat]
    by_cases hm : c.acct = acct ∧ c.kind = kind ∧ c.base = base
    · rw [if_pos hm]
      refine ⟨⟨⟨hk, a1, by rw [hkw, a2]⟩, a3, b1, by rw [a4, b2]⟩, a4, ?_⟩
      simp only [T.eval, B.eval, CmpOp.eval, b3]
      by_cases e : k.eval I = c.key.eval I
      · have : c.acct = acct ∧ hLoc p c.kind (c.key.eval I) c.base = hLoc p kind (k.eval I) base :=
          hhit.2 ⟨hm.1, hm.2.1, hm.2.2, e.symm⟩
        simp [e, this]
      · have : ¬ (c.acct = acct ∧ hLoc p c.kind (c.key.eval I) c.base = hLoc p kind (k.eval I) base) :=
          fun h => e (hhit.1 h).2.2.2.symm
        simp [e, this]
    · rw [if_neg hm]
      have : ¬ (c.acct = acct ∧ hLoc p c.kind (c.key.eval I) c.base = hLoc p kind (k.eval I) base) :=
        fun h => hm ⟨(hhit.1 h).1, (hhit.1 h).2.1, (hhit.1 h).2.2.1⟩
      rw [if_neg this]
      exact ⟨b1, b2, b3⟩

/-- **load after stores**: `Exec.select` on the array of the mapping denotes the value the flat storage holds at the
    location of the cell -/
theorem hSelect_ok (hs : SimpSound s) (ho : OracleSound o) {path : List B} (hsat : Sat I path) :
    ∀ {chain : List HCell} {acct kind base : Nat} {k : T}, HChainWF chain → k.WF → k.width = 256 →
    HNoColl I p chain acct kind base k → I.uf1 (hEmptyName acct kind base) 256 (k.eval I) % 2 ^ 256 = 0 →
    (hSelect s o path acct kind base chain k).WF ∧ (hSelect s o path acct kind base chain k).width = 256 ∧
      (hSelect s o path acct kind base chain k).eval I = hFlat I p chain acct (hLoc p kind (k.eval I) base)
  | [], acct, kind, base, k, _, _, _, _, _ => ⟨(by decide : 0 < 256), rfl, rfl⟩
  | c :: rest, acct, kind, base, k, hc, hk, hkw, hn, he => by
    obtain ⟨a1, a2, a3, a4⟩ := hc c (List.mem_cons_self ..)
    have ih := hSelect_ok hs ho hsat hc.tail hk hkw hn.tail he (chain := rest)
    have hhit := hcell_hit hn
    have hcwf : (B.cmp .eq k c.key).WF := ⟨hk, a1, by rw [hkw, a2]⟩
    simp only [hSelect, hFlat]
    by_cases hm : c.acct = acct ∧ c.kind = kind ∧ c.base = base
    · rw [if_pos hm]
      split
      · rename_i hke
        have : c.acct = acct ∧ hLoc p c.kind (c.key.eval I) c.base = hLoc p kind (k.eval I) base :=
          hhit.2 ⟨hm.1, hm.2.1, hm.2.2, by rw [hke]⟩
        rw [if_pos this]
        exact ⟨a3, a4, rfl⟩
      · split
        · rename_i hu
          have hne := exCheck_sound hs ho hcwf hu I hsat
          simp only [B.eval, CmpOp.eval, beq_eq_false_iff_ne, ne_eq] at hne
          have : ¬ (c.acct = acct ∧ hLoc p c.kind (c.key.eval I) c.base = hLoc p kind (k.eval I) base) :=
            fun h => hne (hhit.1 h).2.2.2.symm
          rw [if_neg this]
          exact ih
        · split
          · rename_i hu
            have heq := exCheck_sound hs ho (c := .not (.cmp .eq k c.key)) hcwf hu I hsat
            simp only [B.eval, CmpOp.eval, Bool.not_eq_false', beq_iff_eq] at heq
            have : c.acct = acct ∧ hLoc p c.kind (c.key.eval I) c.base = hLoc p kind (k.eval I) base :=
              hhit.2 ⟨hm.1, hm.2.1, hm.2.2, heq.symm⟩
            rw [if_pos this]
            exact ⟨a3, a4, rfl⟩
          · have := hIte_ok hc hk hkw hn he
            simpa only [hFlat] using this
    · rw [if_neg hm]
      have : ¬ (c.acct = acct ∧ hLoc p c.kind (c.key.eval I) c.base = hLoc p kind (k.eval I) base) :=
        fun h => hm ⟨(hhit.1 h).1, (hhit.1 h).2.1, (hhit.1 h).2.2.1⟩
      rw [if_neg this]
      exact ih

/-- what a store does to the flat storage: the location of the cell holds the value, every other slot is untouched -/
theorem hFlat_store (chain : List HCell) (c : HCell) (a slot : Nat) :
    hFlat I p (c :: chain) a slot =
      if c.acct = a ∧ hLoc p c.kind (c.key.eval I) c.base = slot then c.val.eval I else hFlat I p chain a slot := rfl

/-- the value just stored is read back (whatever the solver answers) -/
theorem hSelect_store (hs : SimpSound s) (ho : OracleSound o) {path : List B} (hsat : Sat I path)
    {chain : List HCell} {acct kind base : Nat} {k v : T}
    (hc : HChainWF ({ acct, kind, base, key := k, val := v } :: chain)) (hk : k.WF) (hkw : k.width = 256) :
    (hSelect s o path acct kind base ({ acct, kind, base, key := k, val := v } :: chain) k).eval I = v.eval I := by
  simp only [hSelect, and_self, if_true]

end

/-! ### the location term -/

section
variable {I : Interp} {p : Evm.Params} {cfg : Cfg}

/-- under `ShaInterp`, `f_sha3_512(d)` for 64 bytes `bs` (`d` their value) denotes Keccak-256 of the bytes -/
theorem sha512_eval (hsi : ShaInterp I p cfg) {bs : List Nat} (hb : ∀ b ∈ bs, b < 256) (hl : bs.length = 64) {d : T}
    (hd : d.eval I = Evm.bytesToNat bs) :
    (shaExpr 512 d).eval I = p.keccak bs % Evm.W := by
  have hne : bs ≠ [] := by intro h; rw [h] at hl; cases hl
  have := hsi.app bs hb hne
  rw [hl] at this
  have hne0 : ¬ (512 : Nat) = 0 := by decide
  simp only [shaExpr, if_neg hne0, T.eval, hd]
  exact this

end
end HalmosVerif.Lemmas.Sevm
