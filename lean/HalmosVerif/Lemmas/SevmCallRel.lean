/-
Lemmas.SevmCallRel — the simulation relation of the frame-stack machine (Model.SevmCalls) against the reference EVM
with nested message calls:
  * `WRelM`: the storage maps of *all* modelled accounts against a concrete world, and the bridge to the one-account
    relation `WRel` the per-frame lemmas speak about;
  * `RelC`: the running frame (`R`), its account, its call depth, the world, and — pointwise — the suspended callers
    (`ContRel`) against the suspended concrete callers (`CCont`);
  * CREATE: the relation is stated against `wd w0 created nonce` — the start world with the code of the accounts created
    on the path and the allocator counter advanced —, suspended creators (`Cont.create`, `CCont.cr`) resume through
    `createEnd_rel` (code installation / rollback / EIP-211 return data);
  * the three ways a step of the frame-stack machine moves: an ordinary instruction of the running frame, the end of
    the running frame (`frameEnd`: a result, or the caller resumed), a call instruction (`callOut`).
-/
import HalmosVerif.Lemmas.SevmExplore
import HalmosVerif.Lemmas.SevmCallConc
import HalmosVerif.Lemmas.SevmBalConc

set_option linter.unusedSectionVars false
set_option linter.unusedSimpArgs false
set_option linter.unusedVariables false
set_option maxRecDepth 2000

namespace HalmosVerif.Lemmas.Sevm
open HalmosVerif.Model HalmosVerif.Model.Sevm HalmosVerif.Spec HalmosVerif.Lemmas.Word

/-! ### the per-account maps -/

theorem stoOf_nil (a : Nat) : stoOf [] a = {} := rfl

theorem stoOf_stoSet (ss : Stores) (a : Nat) (x : AcctSto) (b : Nat) :
    stoOf (stoSet ss a x) b = if b = a then x else stoOf ss b := by
  unfold stoOf stoSet
  by_cases h : b = a
  · subst h; simp
  · have h1 : (a == b) = false := by rw [beq_eq_false_iff_ne]; exact fun e => h e.symm
    simp only [List.find?_cons, h1, if_neg h]
    congr 2
    induction ss with
    | nil => rfl
    | cons e ss ih =>
      by_cases h2 : e.1 = a
      · have : (e.1 == b) = false := by rw [beq_eq_false_iff_ne, h2]; exact fun e => h e.symm
        simp [List.filter_cons, h2, List.find?_cons, h1, ih]
      · have h3 : (e.1 == a) = false := by rw [beq_eq_false_iff_ne]; exact h2
        simp only [List.filter_cons, h3, Bool.not_false, if_true, List.find?_cons]
        cases (e.1 == b) <;> simp [ih]

theorem lookupD_filter_acct (m : List ((Nat × Nat) × Nat)) (a b slot : Nat) :
    Evm.lookupD (m.filter (fun e => e.1.1 != a)) (b, slot) = if b = a then 0 else Evm.lookupD m (b, slot) := by
  unfold Evm.lookupD
  induction m with
  | nil => simp
  | cons e m ih =>
    by_cases h : e.1.1 = a
    · have h1 : (e.1.1 != a) = false := by simp [h]
      simp only [List.filter_cons, h1, Bool.false_eq_true, if_false]
      rw [ih]
      by_cases hb : b = a
      · simp [hb]
      · have : (e.1 == (b, slot)) = false := by
          rw [beq_eq_false_iff_ne]; intro e'; rw [e'] at h; exact hb h
        simp [hb, List.find?_cons, this]
    · have h1 : (e.1.1 != a) = true := by simp [h]
      simp only [List.filter_cons, h1, if_true, List.find?_cons]
      cases hk : (e.1 == (b, slot))
      · simp only [ih]
      · simp only
        have : e.1 = (b, slot) := by simpa using hk
        have hb : ¬ b = a := by intro e'; apply h; rw [this]; exact e'
        simp [hb]

/-- erasing the entries whose key satisfies `P` -/
theorem lookupD_filter_not (P : Nat × Nat → Bool) (m : List ((Nat × Nat) × Nat)) (k : Nat × Nat) :
    Evm.lookupD (m.filter (fun e => !P e.1)) k = if P k = true then 0 else Evm.lookupD m k := by
  unfold Evm.lookupD
  induction m with
  | nil => simp
  | cons e m ih =>
    cases hp : P e.1
    · simp only [List.filter_cons, hp, Bool.not_false, if_true, List.find?_cons]
      cases hk : (e.1 == k)
      · simp only [ih]
      · have : e.1 = k := by simpa using hk
        rw [← this, hp]; simp
    · simp only [List.filter_cons, hp, Bool.not_true, Bool.false_eq_true, if_false]
      rw [ih]
      cases hq : P k
      · have : (e.1 == k) = false := by
          rw [beq_eq_false_iff_ne]; intro e'; rw [e', hq] at hp; cases hp
        simp [List.find?_cons, this]
      · simp

/-- the keys `zeroAcct` erases -/
def lowKey (a : Nat) (k : Nat × Nat) : Bool := k.1 == a && decide (k.2 < 2 ^ 64)

theorem lowKey_iff (a : Nat) (k : Nat × Nat) : lowKey a k = true ↔ k.1 = a ∧ k.2 < 2 ^ 64 := by
  unfold lowKey
  rw [Bool.and_eq_true, beq_iff_eq, decide_eq_true_iff]

theorem lookupD_filter_low (m : List ((Nat × Nat) × Nat)) (a b slot : Nat) :
    Evm.lookupD (m.filter (fun e => !lowKey a e.1)) (b, slot) =
      if b = a ∧ slot < 2 ^ 64 then 0 else Evm.lookupD m (b, slot) := by
  rw [lookupD_filter_not (lowKey a)]
  by_cases h : b = a ∧ slot < 2 ^ 64
  · rw [if_pos ((lowKey_iff a (b, slot)).2 h), if_pos h]
  · rw [if_neg (fun h' => h ((lowKey_iff a (b, slot)).1 h')), if_neg h]

/-- the world with the plain slots (below 2^64) and the transient storage of the account `a` erased; the account's
    cells at hashed locations stay -/
def zeroAcct (w : Evm.World) (a : Nat) : Evm.World :=
  { w with storage := w.storage.filter (fun e => !lowKey a e.1),
           transient := w.transient.filter (fun e => e.1.1 != a) }

/-- the storage maps `v` of the modelled accounts (`S`) against the concrete world `w`, for a run started in the world
    `w0`: every plain slot (below 2^64) of a modelled account holds the value of the term last stored (zero if never
    written) — the cells at hashed locations are the business of `HRel` —, every bound term is a well-formed 256-bit
    term bound to a plain slot, and nothing else of the world differs from `w0` -/
structure WRelM (I : Interp) (S : Nat → Prop) (w0 w : Evm.World) (v : Nat → AcctSto)
    (lg : List (Nat × List Nat × List Nat)) (bs : Nat → Nat) : Prop where
  hsto : ∀ a, S a → ∀ slot, slot < 2 ^ 64 → Evm.lookupD w.storage (a, slot) = (stoGet (v a).storage slot).eval I
  htr : ∀ a, S a → ∀ slot, Evm.lookupD w.transient (a, slot) = (stoGet (v a).transient slot).eval I
  wf : ∀ a, S a → ∀ kv, kv ∈ (v a).storage ∨ kv ∈ (v a).transient → kv.2.WF ∧ kv.2.width = 256
  other : ∀ a slot, ¬ S a → Evm.lookupD w.storage (a, slot) = Evm.lookupD w0.storage (a, slot) ∧
            Evm.lookupD w.transient (a, slot) = Evm.lookupD w0.transient (a, slot)
  code : ∀ a, w.codeOf a = w0.codeOf a
  created : w.created = w0.created
  logs : w.logs = w0.logs ++ lg
  bal : ∀ a, w.balanceOf a = bs a
  keys : ∀ a, S a → ∀ kv ∈ (v a).storage, kv.1 < 2 ^ 64

/-- an event of the model under `I`: emitting account, topics, data bytes -/
def evalLog (I : Interp) (l : LogT) : Nat × List Nat × List Nat :=
  (l.addr.eval I, l.topics.map (·.denote I), l.data.map (·.eval I))

def evalLogs (I : Interp) (lg : List LogT) : List (Nat × List Nat × List Nat) := lg.map (evalLog I)

/-- the balance array of the model under `I`: the chain of `Store`s over the balances of the start world -/
def balSem (I : Interp) (w0 : Evm.World) : List (T × T) → Nat → Nat
  | [], a => w0.balanceOf a
  | (k, v) :: rest, a => if k.eval I = a then v.eval I else balSem I w0 rest a

/-- keys are well-formed 160-bit terms, values well-formed 256-bit terms -/
def ChainWF (chain : List (T × T)) : Prop :=
  ∀ kv ∈ chain, kv.1.WF ∧ kv.1.width = 160 ∧ kv.2.WF ∧ kv.2.width = 256

theorem ChainWF.nil : ChainWF [] := fun _ h => absurd h List.not_mem_nil

theorem ChainWF.cons {k v : T} {chain : List (T × T)} (hk : k.WF ∧ k.width = 160) (hv : v.WF ∧ v.width = 256)
    (h : ChainWF chain) : ChainWF ((k, v) :: chain) := by
  intro kv hm
  rcases List.mem_cons.1 hm with rfl | hm
  · exact ⟨hk.1, hk.2, hv.1, hv.2⟩
  · exact h kv hm

/-- the start world as far as CREATE has changed what does not depend on the valuation: the accounts `cr` created on
    the path (newest first) and the `n` addresses handed out -/
def wd (w0 : Evm.World) (cr : List (Nat × List Nat)) (n : Nat) : Evm.World :=
  { w0 with code := cr ++ w0.code, created := w0.created + n }

theorem wd_codeOf (w0 : Evm.World) (cr : List (Nat × List Nat)) (n : Nat) (a : Nat) :
    (wd w0 cr n).codeOf a = (codeOf cr a).or (w0.codeOf a) := by
  unfold Evm.World.codeOf codeOf wd
  simp only [List.find?_append]
  cases cr.find? (fun p => p.1 == a) <;> rfl

theorem codeOf_append (cr codes : List (Nat × List Nat)) (a : Nat) :
    codeOf (cr ++ codes) a = (codeOf cr a).or (codeOf codes a) := by
  unfold codeOf
  simp only [List.find?_append]
  cases cr.find? (fun p => p.1 == a) <;> rfl

theorem wd_zero (w0 : Evm.World) : wd w0 [] 0 = w0 := rfl

/-- the created accounts are modelled accounts and their code is bytes -/
def CrOK (S : Nat → Prop) (cr : List (Nat × List Nat)) : Prop :=
  ∀ a prog, codeOf cr a = some prog → S a ∧ ∀ b ∈ prog, b < 256

theorem CrOK.nil {S : Nat → Prop} : CrOK S [] := fun _ _ h => by simp [codeOf] at h

theorem CrOK.cons {S : Nat → Prop} {cr : List (Nat × List Nat)} (h : CrOK S cr) {a : Nat} {code : List Nat}
    (ha : S a) (hc : ∀ b ∈ code, b < 256) : CrOK S ((a, code) :: cr) := by
  intro x prog hx
  unfold codeOf at hx
  by_cases e : a = x
  · subst e
    simp only [List.find?_cons, beq_self_eq_true, Option.map_some, Option.some.injEq] at hx
    subst hx; exact ⟨ha, hc⟩
  · have : ((a, code).1 == x) = false := by simpa using e
    simp only [List.find?_cons, this] at hx
    exact h x prog hx

section
variable {I : Interp} {S : Nat → Prop} {w0 w : Evm.World} {v : Nat → AcctSto} {lg : List (Nat × List Nat × List Nat)}
variable {bs : Nat → Nat}

/-- the allocator counter is not part of what the maps describe -/
theorem WRelM.setCreated (h : WRelM I S w0 w v lg bs) (c : Nat) :
    WRelM I S { w0 with created := c } { w with created := c } v lg bs :=
  ⟨h.hsto, h.htr, h.wf, h.other, h.code, rfl, h.logs, h.bal, h.keys⟩

/-- every modelled account starts with zero storage: the empty maps describe the start world -/
theorem WRelM.init (hz : ∀ a, S a → ∀ slot, Evm.lookupD w0.storage (a, slot) = 0 ∧
    Evm.lookupD w0.transient (a, slot) = 0) : WRelM I S w0 w0 (fun _ => {}) [] (balSem I w0 []) :=
  ⟨fun a ha slot _ => (hz a ha slot).1, fun a ha slot => (hz a ha slot).2,
   fun a _ kv h => by rcases h with h | h <;> exact absurd h List.not_mem_nil, fun _ _ _ => ⟨rfl, rfl⟩,
   fun _ => rfl, rfl, (List.append_nil _).symm, fun _ => rfl, fun _ _ kv h => absurd h List.not_mem_nil⟩

theorem WRelM.congr (h : WRelM I S w0 w v lg bs) {v' : Nat → AcctSto} (hv : ∀ a, S a → v' a = v a) :
    WRelM I S w0 w v' lg bs :=
  ⟨fun a ha slot hlt => by rw [hv a ha]; exact h.hsto a ha slot hlt,
   fun a ha slot => by rw [hv a ha]; exact h.htr a ha slot,
   fun a ha kv hk => by rw [hv a ha] at hk; exact h.wf a ha kv hk, h.other, h.code, h.created, h.logs, h.bal,
   fun a ha kv hk => by rw [hv a ha] at hk; exact h.keys a ha kv hk⟩

/-- the one-account view of a modelled account, relative to the world with that account's plain slots erased -/
theorem WRelM.toWRel (h : WRelM I S w0 w v lg bs) {a : Nat} (ha : S a) :
    WRel I (zeroAcct w a) w a (v a).storage (v a).transient := by
  refine ⟨fun slot => ⟨fun hlt => ?_, ?_⟩, fun slot => ?_, h.htr a ha, h.wf a ha, h.keys a ha, fun b slot hb => ?_,
    ⟨rfl, rfl, rfl, rfl, rfl⟩⟩
  · simp [zeroAcct, lookupD_filter_low, hlt]
  · simp [zeroAcct, lookupD_filter_acct]
  · show _ = if _ then _ else Evm.lookupD (w.storage.filter _) (a, slot)
    rw [lookupD_filter_low]
    cases hf : (v a).storage.find? (fun kv => kv.1 == slot) with
    | some kv =>
      have hlt : slot < 2 ^ 64 := by
        have hm := List.mem_of_find?_eq_some hf
        have hk := List.find?_some hf
        have : kv.1 = slot := by simpa using hk
        rw [← this]; exact h.keys a ha kv hm
      rw [if_pos (by simp)]
      exact h.hsto a ha slot hlt
    | none =>
      rw [if_neg (by simp)]
      by_cases hlt : slot < 2 ^ 64
      · rw [if_pos ⟨rfl, hlt⟩, h.hsto a ha slot hlt]
        unfold stoGet; rw [hf]; rfl
      · rw [if_neg (fun h' => hlt h'.2)]
  · have : ¬ (b = a ∧ slot < 2 ^ 64) := fun h' => hb h'.1
    simp [zeroAcct, lookupD_filter_low, lookupD_filter_acct, hb, this]

/-- what a run of the frame of the account `a` leaves of the rest of the world: the other accounts and the slots of
    `a` from 2^64 on -/
theorem WRel.frame {w w' : Evm.World} {a : Nat} {sto tr : List (Nat × T)} (h' : WRel I (zeroAcct w a) w' a sto tr) :
    (∀ b slot, b ≠ a → Evm.lookupD w'.storage (b, slot) = Evm.lookupD w.storage (b, slot) ∧
      Evm.lookupD w'.transient (b, slot) = Evm.lookupD w.transient (b, slot)) ∧
    (∀ slot, 2 ^ 64 ≤ slot → Evm.lookupD w'.storage (a, slot) = Evm.lookupD w.storage (a, slot)) := by
  refine ⟨fun b slot hb => ?_, fun slot hge => ?_⟩
  · have := h'.other b slot hb
    have hn : ¬ (b = a ∧ slot < 2 ^ 64) := fun h => hb h.1
    simpa [zeroAcct, lookupD_filter_low, lookupD_filter_acct, hb, hn] using this
  · rw [h'.hsto slot]
    cases hf : sto.find? (fun kv => kv.1 == slot) with
    | some kv =>
      have hm := List.mem_of_find?_eq_some hf
      have hk := List.find?_some hf
      have : kv.1 = slot := by simpa using hk
      have := h'.keys kv hm
      omega
    | none =>
      simp only [Option.isSome_none, Bool.false_eq_true, if_false]
      show Evm.lookupD (w.storage.filter _) (a, slot) = _
      rw [lookupD_filter_low, if_neg (fun h => by omega)]

/-- and back: whatever the running frame of the account `a` did to the world and to its two maps -/
theorem WRelM.ofWRel (h : WRelM I S w0 w v lg bs) {a : Nat} (ha : S a) {w' : Evm.World} {sto tr : List (Nat × T)}
    (h' : WRel I (zeroAcct w a) w' a sto tr) :
    WRelM I S w0 w' (fun b => if b = a then { storage := sto, transient := tr } else v b) lg bs := by
  obtain ⟨hoth, _⟩ := h'.frame
  obtain ⟨r1, r2, r3, r4, r5⟩ := h'.rest
  refine ⟨fun b hb slot hlt => ?_, fun b hb slot => ?_, fun b hb kv hk => ?_, fun b slot hb => ?_,
    fun x => (show w'.codeOf x = w.codeOf x by unfold Evm.World.codeOf; rw [r1]; rfl).trans (h.code x),
    r4.trans h.created, r5.trans h.logs, fun b => ?_, fun b hb kv hk => ?_⟩
  · by_cases e : b = a
    · subst e; simp only [if_true]; exact h'.hsto_lt hlt
    · simp only [if_neg e]; rw [(hoth b slot e).1]; exact h.hsto b hb slot hlt
  · by_cases e : b = a
    · subst e; simp only [if_true]; exact h'.htr slot
    · simp only [if_neg e]; rw [(hoth b slot e).2]; exact h.htr b hb slot
  · by_cases e : b = a
    · subst e; simp only [if_true] at hk; exact h'.wf kv hk
    · simp only [if_neg e] at hk; exact h.wf b hb kv hk
  · have e : b ≠ a := fun e => hb (e ▸ ha)
    rw [(hoth b slot e).1, (hoth b slot e).2]; exact h.other b slot hb
  · rw [← h.bal b]
    unfold Evm.World.balanceOf
    rw [r2, r3]; rfl
  · by_cases e : b = a
    · subst e; simp only [if_true] at hk; exact h'.keys kv hk
    · simp only [if_neg e] at hk; exact h.keys b hb kv hk

end

/-! ### the cells at hashed locations -/

/-- the concrete location of a cell (Solidity layout): `m[key]` for the mapping at the slot `base` (kind 2) is
    Keccak-256 of key ‖ base; `a[i]` for the dynamic array at `base` (kind 1; the key term denotes `0 + i`) is
    Keccak-256 of base, plus `i` -/
def hLoc (p : Evm.Params) (kind key base : Nat) : Nat :=
  if kind = 2 then p.keccak (Evm.natToBytes 32 key ++ Evm.natToBytes 32 base) % Evm.W
  else (p.keccak (Evm.natToBytes 32 base) + key) % Evm.W

/-- the flat storage a chain of writes (newest first) describes over empty storage -/
def hFlat (I : Interp) (p : Evm.Params) : List HCell → Nat → Nat → Nat
  | [], _, _ => 0
  | c :: rest, a, slot =>
    if c.acct = a ∧ hLoc p c.kind (c.key.eval I) c.base = slot then c.val.eval I else hFlat I p rest a slot

/-- keys and values of the cells are well-formed 256-bit terms -/
def HChainWF (chain : List HCell) : Prop :=
  ∀ c ∈ chain, c.key.WF ∧ c.key.width = 256 ∧ c.val.WF ∧ c.val.width = 256

/-- the chain of writes is well-formed, and
    the slots from 2^64 on of the modelled accounts hold what the chain of writes to hashed locations says -/
def HRel (I : Interp) (p : Evm.Params) (S : Nat → Prop) (w : Evm.World) (chain : List HCell) : Prop :=
  HChainWF chain ∧
  ∀ a, S a → ∀ slot, 2 ^ 64 ≤ slot → Evm.lookupD w.storage (a, slot) = hFlat I p chain a slot

/-- a run of the frame of the account `a` does not touch the slots from 2^64 on -/
theorem HRel.ofWRel {I : Interp} {p : Evm.Params} {S : Nat → Prop} {w w' : Evm.World} {chain : List HCell}
    (h : HRel I p S w chain) {a : Nat} {sto tr : List (Nat × T)} (h' : WRel I (zeroAcct w a) w' a sto tr) :
    HRel I p S w' chain := by
  obtain ⟨f1, f2⟩ := h'.frame
  refine ⟨h.1, fun b hb slot hge => ?_⟩
  by_cases e : b = a
  · subst e; rw [f2 slot hge]; exact h.2 b hb slot hge
  · rw [(f1 b slot e).1]; exact h.2 b hb slot hge

theorem HRel.mono_world {I : Interp} {p : Evm.Params} {S : Nat → Prop} {w w' : Evm.World} {chain : List HCell}
    (h : HRel I p S w chain) (hs : w'.storage = w.storage) : HRel I p S w' chain :=
  ⟨h.1, fun a ha slot hge => by rw [hs]; exact h.2 a ha slot hge⟩

theorem HRel.congr {I : Interp} {p : Evm.Params} {S : Nat → Prop} {w w' : Evm.World} {chain : List HCell}
    (h : HRel I p S w chain) (hs : ∀ a slot, Evm.lookupD w'.storage (a, slot) = Evm.lookupD w.storage (a, slot)) :
    HRel I p S w' chain := ⟨h.1, fun a ha slot hge => (hs a slot).trans (h.2 a ha slot hge)⟩

/-! ### the relation -/

/-- the maps of every account as the frame-stack state sees them: the running account's live in the frame -/
def viewOf (cs : CState) : Nat → AcctSto :=
  fun a => if a = cs.this then { storage := cs.st.storage, transient := cs.st.transient } else stoOf cs.stores a

section
variable (I : Interp) (p : Evm.Params) (S : Nat → Prop) (w0 : Evm.World)

/-- a suspended caller against a suspended concrete caller -/
structure ContRel (k : Cont) (kc : CCont) : Prop where
  hR : R I k.env k.code p k.st kc.f
  this : kc.f.this = k.this
  inS : S k.this
  depth : kc.f.depth = k.depth
  hcode : ∀ b ∈ k.code, b < 256
  ro : kc.ro = k.retLoc
  rl : kc.rl = k.retSize
  hW : WRelM I S (wd w0 k.snapCreated 0) { kc.w with created := w0.created } (stoOf k.snapshot)
    (evalLogs I k.snapLogs) (balSem I w0 k.snapBal)
  hbal : ChainWF k.snapBal
  cr : kc.cr = k.create         -- a message call, or the constructor of the same new account
  crS : ∀ a, k.create = some a → S a ∧ a < 2 ^ 160
  hcr : CrOK S k.snapCreated
  hH : HRel I p S kc.w k.snapHsto

/-- a frame-stack state against the running concrete frame, the world and the suspended concrete callers -/
structure RelC (cs : CState) (w : Evm.World) (f : Evm.Frame) (kcs : List CCont) : Prop where
  hR : R I cs.env cs.code p cs.st f
  this : f.this = cs.this
  inS : S cs.this
  depth : f.depth = cs.depth
  hcode : ∀ b ∈ cs.code, b < 256
  hW : WRelM I S (wd w0 cs.created cs.nonce) w (viewOf cs) (evalLogs I cs.logs) (balSem I w0 cs.bal)
  hbal : ChainWF cs.bal
  hcr : CrOK S cs.created
  hH : HRel I p S w cs.hsto
  conts : List.Forall₂ (ContRel I p S w0) cs.conts kcs

end

theorem haltWith_isSuccess (h : Evm.Halt) (d : List Nat) : (haltWith h d).isSuccess = haltOk h := by
  cases h <;> rfl

theorem haltWith_data (I : Interp) (h : Evm.Halt) (d : List T) :
    (haltWith h (d.map (·.eval I))).data = (haltData h d).map (·.eval I) := by
  cases h <;> rfl

theorem haltData_wf {h : Evm.Halt} {d : List T} (hd : ∀ b ∈ d, b.WF ∧ b.width = 8) :
    ∀ b ∈ haltData h d, b.WF ∧ b.width = 8 := by
  cases h <;> first | exact hd | (intro b hb; exact absurd hb List.not_mem_nil)

theorem MemRel.take {I : Interp} {sm : List T} {cm : List Nat} (h : MemRel I sm cm) (n : Nat) :
    MemRel I (sm.take n) (cm.take n) :=
  ⟨fun b hb => h.1 b (List.mem_of_mem_take hb), by rw [← h.2, List.map_take]⟩

theorem MemRel.length {I : Interp} {sm : List T} {cm : List Nat} (h : MemRel I sm cm) : sm.length = cm.length := by
  rw [← h.2, List.length_map]

section
variable {I : Interp} {p : Evm.Params} {S : Nat → Prop} {w0 : Evm.World}

theorem litBytes_mod {I : Interp} : ∀ {bs : List T} {ns : List Nat}, litBytes? bs = some ns →
    bs.map (·.eval I) = ns.map (· % 256)
  | [], ns, h => by simp only [litBytes?, Option.some.injEq] at h; subst h; rfl
  | b :: rest, ns, h => by
    simp only [litBytes?] at h
    cases hb : litByte? b with
    | none => simp [hb] at h
    | some n =>
      cases hr : litBytes? rest with
      | none => simp [hb, hr] at h
      | some ms =>
        simp only [hb, hr, Option.some.injEq] at h
        subst h
        have : b = .lit 8 n := by
          unfold litByte? at hb
          split at hb
          · rename_i b'; simp only [Option.some.injEq] at hb; subst hb; rfl
          · cases hb
        subst this
        simp only [List.map_cons, litBytes_mod hr]
        rfl

theorem mod256_lt (ns : List Nat) : ∀ b ∈ ns.map (· % 256), b < 256 := by
  intro b hb
  obtain ⟨n, _, rfl⟩ := List.mem_map.1 hb
  exact Nat.mod_lt _ (by norm_num)

/-- the rolled-back world of a failed callee / constructor, whatever the allocator has handed out meanwhile -/
theorem resume_world {k : Cont} {kc : CCont} (hk : ContRel I p S w0 k kc) {r1 : Evm.World × Evm.Halt} {h : Evm.Halt}
    (hsucc : r1.2.isSuccess = haltOk h) (hok : haltOk h = false) {n : Nat} (hcn : r1.1.created = w0.created + n) :
    WRelM I S (wd w0 k.snapCreated n) (resumeWorld kc r1) (stoOf k.snapshot) (evalLogs I k.snapLogs)
      (balSem I w0 k.snapBal) := by
  unfold resumeWorld
  rw [hsucc, hok]
  simp only [Bool.false_eq_true, if_false]
  rw [hcn]
  exact hk.hW.setCreated (w0.created + n)

/-- the caller resumed by the model against the caller resumed by the reference (a message call): `r1` is the callee's
    concrete result, `h` / `e` the end state that reports it, `full` the maps of all accounts describing the callee's
    final world, `cr` / `n` the accounts created and the addresses handed out so far -/
theorem resume_rel {k : Cont} {kc : CCont} {ks : List Cont} {kcs : List CCont} (hk : ContRel I p S w0 k kc)
    (hks : List.Forall₂ (ContRel I p S w0) ks kcs) (hnc : k.create = none) {r1 : Evm.World × Evm.Halt} {h : Evm.Halt}
    {e : EndState} {full : Stores} {lg : List LogT} {bl : List (T × T)} {cr : List (Nat × List Nat)} {n : Nat}
    {hc : List HCell} (hres : haltWith h (e.data.map (·.eval I)) = r1.2)
    (hdwf : ∀ b ∈ e.data, b.WF ∧ b.width = 8)
    (hsub : SubstOk I e.st) (hW : WRelM I S (wd w0 cr n) r1.1 (stoOf full) (evalLogs I lg) (balSem I w0 bl))
    (hbl : ChainWF bl) (hcr : CrOK S cr) (hHr : HRel I p S r1.1 hc) :
    RelC I p S w0 (resume full lg bl cr n hc k ks h e) (resumeWorld kc r1) (resumeFrame kc r1.2) kcs := by
  have hsucc : r1.2.isSuccess = haltOk h := by rw [← hres]; exact haltWith_isSuccess _ _
  have hdata : MemRel I (haltData h e.data) r1.2.data :=
    ⟨haltData_wf hdwf, by rw [← hres]; exact (haltWith_data I h e.data).symm⟩
  have hR := hk.hR
  have hkc : kc.cr = none := hk.cr.trans hnc
  have hrf : resumeFrame kc r1.2 =
      { kc.f with stack := (if r1.2.isSuccess then 1 else 0) :: kc.f.stack
                  mem := Evm.writeBytes kc.f.mem kc.ro (r1.2.data.take (min kc.rl r1.2.data.length))
                  returndata := r1.2.data
                  pc := kc.f.pc + 1 } := by
    unfold resumeFrame; rw [hkc]
  rw [hrf]
  have hHres : HRel I p S (resumeWorld kc r1) (if haltOk h then hc else k.snapHsto) := by
    unfold resumeWorld
    rw [hsucc]
    cases haltOk h
    · exact hk.hH.mono_world rfl
    · simp only [if_true, hkc]; exact hHr
  refine ⟨⟨hR.code, ?_, ?_, ?_, ?_, ?_, ?_⟩, hk.this, hk.inS, hk.depth, hk.hcode, ?_, ?_, ?_, hHres, hks⟩
  · show kc.f.pc + 1 = k.st.pc + 1
    rw [hR.pc]
  · show StackRel I (_ :: k.st.stack) (_ :: kc.f.stack)
    refine StackRel.cons ?_ hR.stack
    rw [hsucc]
    cases haltOk h
    · exact wordRel_con (by norm_num)
    · exact wordRel_con (by norm_num)
  · exact hR.env.congr rfl rfl rfl rfl rfl
  · exact hsub.same rfl rfl
  · show MemRel I (writeMem k.st.mem k.retLoc ((haltData h e.data).take (min k.retSize (haltData h e.data).length)))
      (Evm.writeBytes kc.f.mem kc.ro (r1.2.data.take (min kc.rl r1.2.data.length)))
    rw [hk.ro, hk.rl, ← hdata.length]
    exact writeMem_rel hR.mem (hdata.take _) _
  · exact hdata
  · -- the world
    cases hok : haltOk h
    · -- the callee failed: the call-time world and the snapshot
      have hlg : (resume full lg bl cr n hc k ks h e).logs = k.snapLogs := by simp [resume, hok]
      have hbl' : (resume full lg bl cr n hc k ks h e).bal = k.snapBal := by simp [resume, hok]
      have hcr' : (resume full lg bl cr n hc k ks h e).created = k.snapCreated := by simp [resume, hok]
      have hn' : (resume full lg bl cr n hc k ks h e).nonce = n := rfl
      rw [hlg, hbl', hcr', hn']
      refine (resume_world hk hsucc hok hW.created).congr (fun a _ => ?_)
      simp only [viewOf, resume, hok, Bool.false_eq_true, if_false]
      split
      · rename_i e'; rw [e']
      · rfl
    · have hlg : (resume full lg bl cr n hc k ks h e).logs = lg := by simp [resume, hok]
      have hbl' : (resume full lg bl cr n hc k ks h e).bal = bl := by simp [resume, hok]
      have hcr' : (resume full lg bl cr n hc k ks h e).created = cr := by simp [resume, hok]
      have hn' : (resume full lg bl cr n hc k ks h e).nonce = n := rfl
      have hrw : resumeWorld kc r1 = r1.1 := by
        unfold resumeWorld; rw [hsucc, hok, hkc]; rfl
      rw [hlg, hbl', hcr', hn', hrw]
      refine hW.congr (fun a _ => ?_)
      simp only [viewOf, resume, hok, if_true]
      split
      · rename_i e'; rw [e']
      · rfl
  · -- the balance chain
    show ChainWF (if haltOk h then bl else k.snapBal)
    cases haltOk h
    · exact hk.hbal
    · exact hbl
  · show CrOK S (if haltOk h then cr else k.snapCreated)
    cases haltOk h
    · exact hk.hcr
    · exact hcr

end

/-! ### `finish` and `frameEnd`, relation-free -/

/-- the maps of all accounts when the running frame ends with `e` -/
def fullOf (cs : CState) (e : EndState) : Stores :=
  stoSet cs.stores cs.this { storage := e.st.storage, transient := e.st.transient }

theorem stoOf_fullOf (cs : CState) (e : EndState) (a : Nat) :
    stoOf (fullOf cs e) a =
      if a = cs.this then { storage := e.st.storage, transient := e.st.transient } else stoOf cs.stores a :=
  stoOf_stoSet _ _ _ _

/-- the end of the run the frame `cs` reports with the end state `e` -/
def endOf (cs : CState) (e : EndState) : CEnd :=
  { e, this := cs.this, stores := fullOf cs e, logs := cs.logs, bal := cs.bal, created := cs.created,
    nonce := cs.nonce, hsto := cs.hsto }

/-- what `frameEnd` does when a callee or a constructor halts (untagged) -/
def frameEndH (cs : CState) (k : Cont) (ks : List Cont) (h : Evm.Halt) (e : EndState) : StepOutC :=
  match k.create with
  | none => { next := [resume (fullOf cs e) cs.logs cs.bal cs.created cs.nonce cs.hsto k ks h e] }
  | some addr => createEnd cs (fullOf cs e) k ks h e addr

theorem frameEnd_nil {cs : CState} {e : EndState} (h : cs.conts = []) :
    frameEnd cs e = { ends := [endOf cs e] } := by
  unfold frameEnd; simp only [h]; rfl

theorem frameEnd_halt {cs : CState} {e : EndState} {k : Cont} {ks : List Cont} {h : Evm.Halt}
    (hc : cs.conts = k :: ks) (ho : e.out = .halt h) (ht : e.tag = .normal) :
    frameEnd cs e = frameEndH cs k ks h e := by
  unfold frameEnd; simp only [hc, ho, ht]; rfl

theorem frameEnd_resume {cs : CState} {e : EndState} {k : Cont} {ks : List Cont} {h : Evm.Halt}
    (hc : cs.conts = k :: ks) (ho : e.out = .halt h) (ht : e.tag = .normal) (hk : k.create = none) :
    frameEnd cs e = { next := [resume (fullOf cs e) cs.logs cs.bal cs.created cs.nonce cs.hsto k ks h e] } := by
  rw [frameEnd_halt hc ho ht]; unfold frameEndH; rw [hk]

theorem frameEnd_other {cs : CState} {e : EndState} (hn : ¬ ∃ h, e.out = .halt h ∧ e.tag = .normal) :
    frameEnd cs e = { ends := [endOf cs e] } := by
  unfold frameEnd
  cases hc : cs.conts with
  | nil => rfl
  | cons k ks =>
    simp only
    split
    · rename_i h ho ht; exact absurd ⟨h, ho, ht⟩ hn
    · rfl

/-- a halting callee / constructor produces one successor, or (a constructor whose output is not concrete bytes) one
    end that is an error report about the same path -/
theorem frameEndH_cases (cs : CState) (k : Cont) (ks : List Cont) (h : Evm.Halt) (e : EndState) :
    ((∃ cs', (frameEndH cs k ks h e).next = [cs']) ∧ (frameEndH cs k ks h e).ends = []) ∨
    ((frameEndH cs k ks h e).next = [] ∧
      ∃ ce, (frameEndH cs k ks h e).ends = [ce] ∧ (∃ r, ce.e.out = .stuck r) ∧ ce.e.st = e.st) := by
  unfold frameEndH
  cases k.create with
  | none => exact Or.inl ⟨⟨_, rfl⟩, rfl⟩
  | some a =>
    simp only [createEnd]
    split
    · split
      · exact Or.inr ⟨rfl, _, rfl, ⟨_, rfl⟩, rfl⟩
      · exact Or.inl ⟨⟨_, rfl⟩, rfl⟩
    · exact Or.inl ⟨⟨_, rfl⟩, rfl⟩

theorem finish_foldl (cs : CState) (es : List EndState) (acc : StepOutC) :
    (es.foldl (fun acc e =>
      let r := frameEnd cs e
      { acc with next := acc.next ++ r.next, ends := acc.ends ++ r.ends }) acc) =
    { next := acc.next ++ es.flatMap (fun e => (frameEnd cs e).next),
      ends := acc.ends ++ es.flatMap (fun e => (frameEnd cs e).ends),
      bounded := acc.bounded } := by
  induction es generalizing acc with
  | nil => simp
  | cons e es ih => simp only [List.foldl_cons, ih, List.flatMap_cons, List.append_assoc]

theorem finish_next (cs : CState) (lo : LocalOut) :
    (finish cs lo).next = lo.next ++ lo.ends.flatMap (fun e => (frameEnd cs e).next) := by
  unfold finish; rw [finish_foldl]

theorem finish_ends (cs : CState) (lo : LocalOut) :
    (finish cs lo).ends = lo.ends.flatMap (fun e => (frameEnd cs e).ends) := by
  unfold finish; rw [finish_foldl]; simp

theorem finish_bounded (cs : CState) (lo : LocalOut) : (finish cs lo).bounded = lo.bounded := by
  unfold finish; rw [finish_foldl]

/-- a successor of `finish`: a successor of the running frame, or a caller resumed by one of its end states -/
theorem mem_finish_next {cs : CState} {lo : LocalOut} {cs' : CState} (h : cs' ∈ (finish cs lo).next) :
    cs' ∈ lo.next ∨ ∃ e ∈ lo.ends, ∃ k ks h, cs.conts = k :: ks ∧ e.out = .halt h ∧ e.tag = .normal ∧
      cs' ∈ (frameEndH cs k ks h e).next := by
  rw [finish_next] at h
  rcases List.mem_append.1 h with h | h
  · exact Or.inl h
  · right
    obtain ⟨e, he, hm⟩ := List.mem_flatMap.1 h
    refine ⟨e, he, ?_⟩
    cases hc : cs.conts with
    | nil => rw [frameEnd_nil hc] at hm; simp at hm
    | cons k ks =>
      by_cases hn : ∃ h, e.out = .halt h ∧ e.tag = .normal
      · obtain ⟨h, ho, ht⟩ := hn
        rw [frameEnd_halt hc ho ht] at hm
        exact ⟨k, ks, h, rfl, ho, ht, hm⟩
      · rw [frameEnd_other hn] at hm; simp at hm

/-- an end of `finish`: an end state of the running frame that does not resume a caller, or the error report of a
    constructor whose output is not concrete -/
theorem mem_finish_ends {cs : CState} {lo : LocalOut} {ce : CEnd} (h : ce ∈ (finish cs lo).ends) :
    ∃ e ∈ lo.ends, (ce = endOf cs e ∧ (cs.conts = [] ∨ ¬ ∃ h, e.out = .halt h ∧ e.tag = .normal)) ∨
      (∃ r, ce.e.out = .stuck r) := by
  rw [finish_ends] at h
  obtain ⟨e, he, hm⟩ := List.mem_flatMap.1 h
  refine ⟨e, he, ?_⟩
  cases hc : cs.conts with
  | nil =>
    rw [frameEnd_nil hc] at hm
    simp only [List.mem_singleton] at hm
    exact Or.inl ⟨hm, Or.inl rfl⟩
  | cons k ks =>
    by_cases hn : ∃ h, e.out = .halt h ∧ e.tag = .normal
    · obtain ⟨h, ho, ht⟩ := hn
      rw [frameEnd_halt hc ho ht] at hm
      rcases frameEndH_cases cs k ks h e with ⟨_, h0⟩ | ⟨_, ce', h1, hst, _⟩
      · rw [h0] at hm; cases hm
      · rw [h1] at hm
        simp only [List.mem_singleton] at hm
        subst hm; exact Or.inr hst
    · rw [frameEnd_other hn] at hm
      simp only [List.mem_singleton] at hm
      exact Or.inl ⟨hm, Or.inr hn⟩

theorem finish_next_of_local {cs : CState} {lo : LocalOut} {cs' : CState} (h : cs' ∈ lo.next) :
    cs' ∈ (finish cs lo).next := by
  rw [finish_next]; exact List.mem_append_left _ h

theorem finish_next_of_halt {cs : CState} {lo : LocalOut} {e : EndState} (he : e ∈ lo.ends) {k : Cont}
    {ks : List Cont} {h : Evm.Halt} (hc : cs.conts = k :: ks) (ho : e.out = .halt h) (ht : e.tag = .normal)
    {cs' : CState} (hm : cs' ∈ (frameEndH cs k ks h e).next) : cs' ∈ (finish cs lo).next := by
  rw [finish_next]
  refine List.mem_append_right _ (List.mem_flatMap.2 ⟨e, he, ?_⟩)
  rw [frameEnd_halt hc ho ht]; exact hm

theorem finish_ends_of_halt {cs : CState} {lo : LocalOut} {e : EndState} (he : e ∈ lo.ends) {k : Cont}
    {ks : List Cont} {h : Evm.Halt} (hc : cs.conts = k :: ks) (ho : e.out = .halt h) (ht : e.tag = .normal)
    {ce : CEnd} (hm : ce ∈ (frameEndH cs k ks h e).ends) : ce ∈ (finish cs lo).ends := by
  rw [finish_ends]
  refine List.mem_flatMap.2 ⟨e, he, ?_⟩
  rw [frameEnd_halt hc ho ht]; exact hm

theorem finish_ends_of_nil {cs : CState} {lo : LocalOut} {e : EndState} (he : e ∈ lo.ends) (hc : cs.conts = []) :
    endOf cs e ∈ (finish cs lo).ends := by
  rw [finish_ends]
  refine List.mem_flatMap.2 ⟨e, he, ?_⟩
  rw [frameEnd_nil hc]; simp

theorem finish_ends_of_other {cs : CState} {lo : LocalOut} {e : EndState} (he : e ∈ lo.ends)
    (hn : ¬ ∃ h, e.out = .halt h ∧ e.tag = .normal) :
    endOf cs e ∈ (finish cs lo).ends := by
  rw [finish_ends]
  refine List.mem_flatMap.2 ⟨e, he, ?_⟩
  rw [frameEnd_other hn]; simp

/-- what every way of ending a frame keeps, constructor frames included: the path, and the suspended callers but one -/
theorem frameEnd_shape (cs : CState) (e : EndState) :
    (∀ cs' ∈ (frameEnd cs e).next, cs'.st.path = e.st.path ∧ ∃ k, cs.conts = k :: cs'.conts) ∧
    (∀ ce ∈ (frameEnd cs e).ends, ce.e.st.path = e.st.path) := by
  unfold frameEnd
  cases hc : cs.conts with
  | nil => simp
  | cons k ks =>
    simp only
    split
    · cases hk : k.create with
      | none => simp [resume]
      | some a =>
        simp only [createEnd]
        split
        · split <;> simp [resume]
        · simp [resume]
    · simp

theorem mem_finish_next_shape {cs : CState} {lo : LocalOut} {cs' : CState} (h : cs' ∈ (finish cs lo).next) :
    cs' ∈ lo.next ∨ ∃ e ∈ lo.ends, cs'.st.path = e.st.path ∧ ∃ k, cs.conts = k :: cs'.conts := by
  rw [finish_next] at h
  rcases List.mem_append.1 h with h | h
  · exact Or.inl h
  · obtain ⟨e, he, hm⟩ := List.mem_flatMap.1 h
    exact Or.inr ⟨e, he, (frameEnd_shape cs e).1 cs' hm⟩

theorem mem_finish_ends_shape {cs : CState} {lo : LocalOut} {ce : CEnd} (h : ce ∈ (finish cs lo).ends) :
    ∃ e ∈ lo.ends, ce.e.st.path = e.st.path := by
  rw [finish_ends] at h
  obtain ⟨e, he, hm⟩ := List.mem_flatMap.1 h
  exact ⟨e, he, (frameEnd_shape cs e).2 ce hm⟩

/-! ### the end of the running frame -/

theorem halts_unique {p : Evm.Params} {w : Evm.World} {f : Evm.Frame} {r1 r2 : Evm.World × Evm.Halt}
    (h1 : Halts p w f r1) (h2 : Halts p w f r2) : r1 = r2 := by
  obtain ⟨n1, e1⟩ := h1
  obtain ⟨n2, e2⟩ := h2
  have a := exec_mono_le (Nat.le_max_left n1 n2) e1
  have b := exec_mono_le (Nat.le_max_right n1 n2) e2
  rw [a] at b; exact Option.some.inj b

section
variable {I : Interp} {p : Evm.Params} {S : Nat → Prop} {w0 : Evm.World}
variable {cs : CState} {w : Evm.World} {f : Evm.Frame} {kcs : List CCont}

/-- the maps of all accounts at the end of the frame describe the world the frame's own maps describe -/
theorem wrelM_fullOf {wa : Evm.World} {e : EndState} {w' : Evm.World} {lg : List (Nat × List Nat × List Nat)}
    {bs : Nat → Nat}
    (h : WRelM I S wa w' (fun b => if b = cs.this then { storage := e.st.storage, transient := e.st.transient }
      else viewOf cs b) lg bs) : WRelM I S wa w' (stoOf (fullOf cs e)) lg bs := by
  refine h.congr (fun a _ => ?_)
  rw [stoOf_fullOf]
  by_cases e' : a = cs.this
  · simp only [if_pos e']
  · simp only [if_neg e', viewOf]

theorem wrelM_fullOf_keeps (hrel : RelC I p S w0 cs w f kcs) {e : EndState} (hk : Keeps e.st cs.st) :
    WRelM I S (wd w0 cs.created cs.nonce) w (stoOf (fullOf cs e)) (evalLogs I cs.logs) (balSem I w0 cs.bal) := by
  refine hrel.hW.congr (fun a _ => ?_)
  rw [stoOf_fullOf, hk.2.2.1, hk.2.2.2]; rfl

/-- installing code at `a` on both sides -/
theorem WRelM.setCode {cr : List (Nat × List Nat)} {n : Nat} {w' : Evm.World} {v : Nat → AcctSto}
    {lg : List (Nat × List Nat × List Nat)} {bs : Nat → Nat} (h : WRelM I S (wd w0 cr n) w' v lg bs) (a : Nat)
    (code : List Nat) : WRelM I S (wd w0 ((a, code) :: cr) n) (w'.setCode a code) v lg bs := by
  refine ⟨h.hsto, h.htr, h.wf, h.other, fun x => ?_, h.created, h.logs, h.bal, h.keys⟩
  rw [codeOf_setCode, wd_codeOf, h.code x, wd_codeOf]
  unfold codeOf
  by_cases e : x = a
  · subst e; simp
  · have : ((a, code).1 == x) = false := by simpa using fun e' => e e'.symm
    simp only [if_neg e, List.find?_cons, this]

/-- the creator resumed by the model against the creator resumed by the reference: the constructor of `a` ended -/
theorem createEnd_rel {k : Cont} {kc : CCont} {ks : List Cont} {kcs' : List CCont} (hk : ContRel I p S w0 k kc)
    (hks : List.Forall₂ (ContRel I p S w0) ks kcs') {a : Nat} (hc : k.create = some a)
    {r1 : Evm.World × Evm.Halt} {h : Evm.Halt} {e : EndState}
    (hres : haltWith h (e.data.map (·.eval I)) = r1.2) (hdwf : ∀ b ∈ e.data, b.WF ∧ b.width = 8)
    (hsub : SubstOk I e.st)
    (hW : WRelM I S (wd w0 cs.created cs.nonce) r1.1 (stoOf (fullOf cs e)) (evalLogs I cs.logs) (balSem I w0 cs.bal))
    (hbl : ChainWF cs.bal) (hcr : CrOK S cs.created) (hHr : HRel I p S r1.1 cs.hsto) :
    ∀ cs' ∈ (createEnd cs (fullOf cs e) k ks h e a).next,
      RelC I p S w0 cs' (resumeWorld kc r1) (resumeFrame kc r1.2) kcs' := by
  have hsucc : r1.2.isSuccess = haltOk h := by rw [← hres]; exact haltWith_isSuccess _ _
  have hdata : MemRel I (haltData h e.data) r1.2.data :=
    ⟨haltData_wf hdwf, by rw [← hres]; exact (haltWith_data I h e.data).symm⟩
  have hR := hk.hR
  have hkc : kc.cr = some a := hk.cr.trans hc
  have hrf : resumeFrame kc r1.2 =
      { kc.f with stack := (if r1.2.isSuccess then a else 0) :: kc.f.stack
                  returndata := if r1.2.isSuccess then [] else r1.2.data
                  pc := kc.f.pc + 1 } := by
    unfold resumeFrame; rw [hkc]
  intro cs' hm
  unfold createEnd at hm
  cases hok : haltOk h
  · -- the constructor failed
    rw [hok] at hm
    simp only [Bool.false_eq_true, if_false, List.mem_singleton] at hm
    subst hm
    rw [hrf, hsucc, hok]
    have hHres : HRel I p S (resumeWorld kc r1) k.snapHsto := by
      unfold resumeWorld
      rw [hsucc, hok]
      exact hk.hH.mono_world rfl
    refine ⟨⟨hR.code, ?_, ?_, ?_, ?_, ?_, ?_⟩, hk.this, hk.inS, hk.depth, hk.hcode, ?_, ?_, ?_, ?_, hks⟩
    rotate_left 9
    · show HRel I p S _ (if haltOk h then cs.hsto else k.snapHsto)
      rw [hok]; exact hHres
    · show kc.f.pc + 1 = k.st.pc + 1
      rw [hR.pc]
    · show StackRel I (_ :: k.st.stack) (_ :: kc.f.stack)
      simp only [hok, Bool.false_eq_true, if_false]
      exact StackRel.cons (wordRel_con (by norm_num)) hR.stack
    · exact hR.env.congr rfl rfl rfl rfl rfl
    · exact hsub.same rfl rfl
    · exact hR.mem
    · simp only [Bool.false_eq_true, if_false]; exact hdata
    · have hlg : (resume (fullOf cs e) cs.logs cs.bal cs.created cs.nonce cs.hsto k ks h e).logs = k.snapLogs := by
        simp [resume, hok]
      have hbl' : (resume (fullOf cs e) cs.logs cs.bal cs.created cs.nonce cs.hsto k ks h e).bal = k.snapBal := by
        simp [resume, hok]
      have hcr' : (resume (fullOf cs e) cs.logs cs.bal cs.created cs.nonce cs.hsto k ks h e).created = k.snapCreated := by
        simp [resume, hok]
      show WRelM I S (wd w0 (resume (fullOf cs e) cs.logs cs.bal cs.created cs.nonce cs.hsto k ks h e).created cs.nonce) _ _
        (evalLogs I (resume (fullOf cs e) cs.logs cs.bal cs.created cs.nonce cs.hsto k ks h e).logs)
        (balSem I w0 (resume (fullOf cs e) cs.logs cs.bal cs.created cs.nonce cs.hsto k ks h e).bal)
      rw [hlg, hbl', hcr']
      refine (resume_world hk hsucc hok hW.created).congr (fun x _ => ?_)
      simp only [viewOf, resume, hok, Bool.false_eq_true, if_false]
      split
      · rename_i e'; rw [e']
      · rfl
    · show ChainWF (if haltOk h then cs.bal else k.snapBal)
      rw [hok]; exact hk.hbal
    · show CrOK S (if haltOk h then cs.created else k.snapCreated)
      rw [hok]; exact hk.hcr
  · -- it returned
    rw [hok] at hm
    simp only [if_true] at hm
    cases hl : litBytes? e.data with
    | none => rw [hl] at hm; cases hm
    | some code =>
      rw [hl] at hm
      simp only [List.mem_singleton] at hm
      subst hm
      have hd : r1.2.data = code.map (· % 256) := by
        rw [← hres, haltWith_data]
        have : haltData h e.data = e.data := by cases h <;> first | rfl | cases hok
        rw [this]; exact litBytes_mod hl
      have hrw : resumeWorld kc r1 = r1.1.setCode a (code.map (· % 256)) := by
        unfold resumeWorld; rw [hsucc, hok, hkc, hd]; rfl
      rw [hrf, hsucc, hok, hrw]
      obtain ⟨haS, ha⟩ := hk.crS a hc
      have hHres : HRel I p S (r1.1.setCode a (code.map (· % 256)))
          (if haltOk h then cs.hsto else k.snapHsto) := by
        rw [hok]; exact hHr.mono_world rfl
      refine ⟨⟨hR.code, ?_, ?_, ?_, ?_, ?_, ?_⟩, hk.this, hk.inS, hk.depth, hk.hcode, ?_, ?_, ?_, hHres, hks⟩
      · show kc.f.pc + 1 = k.st.pc + 1
        rw [hR.pc]
      · show StackRel I (_ :: k.st.stack) (_ :: kc.f.stack)
        simp only [if_true]
        exact StackRel.cons (wordRel_con (lt_of_lt_of_le ha (by norm_num))) hR.stack
      · exact hR.env.congr rfl rfl rfl rfl rfl
      · exact hsub.same rfl rfl
      · exact hR.mem
      · simp only [if_true]; exact MemRel.nil I
      · show WRelM I S (wd w0 ((a, code.map (· % 256)) :: cs.created) cs.nonce) _ _
          (evalLogs I (resume (fullOf cs e) cs.logs cs.bal cs.created cs.nonce cs.hsto k ks h e).logs)
          (balSem I w0 (resume (fullOf cs e) cs.logs cs.bal cs.created cs.nonce cs.hsto k ks h e).bal)
        have hlg : (resume (fullOf cs e) cs.logs cs.bal cs.created cs.nonce cs.hsto k ks h e).logs = cs.logs := by
          simp [resume, hok]
        have hbl' : (resume (fullOf cs e) cs.logs cs.bal cs.created cs.nonce cs.hsto k ks h e).bal = cs.bal := by
          simp [resume, hok]
        rw [hlg, hbl']
        refine (hW.setCode a _).congr (fun x _ => ?_)
        simp only [viewOf, resume, hok, if_true]
        split
        · rename_i e'; rw [e']
        · rfl
      · show ChainWF (if haltOk h then cs.bal else k.snapBal)
        rw [hok]; exact hbl
      · exact hcr.cons haS (mod256_lt code)

/-- the running frame terminates with `r1`, reported by the end state `e`: a top-level frame is done; otherwise the
    model's resumed caller (if the model goes on) is related to the reference's resumed caller, and the rest of the
    run is the same -/
theorem frame_end (hrel : RelC I p S w0 cs w f kcs) {r1 : Evm.World × Evm.Halt} (hh : Halts p w f r1)
    {h : Evm.Halt} {e : EndState} (hres : haltWith h (e.data.map (·.eval I)) = r1.2)
    (hdwf : ∀ b ∈ e.data, b.WF ∧ b.width = 8) (hk : Keeps e.st cs.st)
    (hW : WRelM I S (wd w0 cs.created cs.nonce) r1.1 (stoOf (fullOf cs e)) (evalLogs I cs.logs)
      (balSem I w0 cs.bal)) (hHr : HRel I p S r1.1 cs.hsto) :
    (cs.conts = [] → kcs = []) ∧
    (∀ k ks, cs.conts = k :: ks → ∃ kc kcs', kcs = kc :: kcs' ∧
      (∀ cs' ∈ (frameEndH cs k ks h e).next,
        RelC I p S w0 cs' (resumeWorld kc r1) (resumeFrame kc r1.2) kcs') ∧
      ∀ r, RunStack p w f kcs r ↔ RunStack p (resumeWorld kc r1) (resumeFrame kc r1.2) kcs' r) := by
  have hc := hrel.conts
  refine ⟨fun h0 => ?_, fun k ks h0 => ?_⟩
  · rw [h0] at hc; cases hc; rfl
  · rw [h0] at hc
    cases hc with
    | cons hk1 hks =>
      rename_i kc kcs'
      refine ⟨kc, kcs', rfl, ?_, fun r => ?_⟩
      · unfold frameEndH
        cases hcr : k.create with
        | none =>
          intro cs' hm
          simp only [List.mem_singleton] at hm
          subst hm
          exact resume_rel hk1 hks hcr hres hdwf (hrel.hR.subst.same hk.2.1 hk.1) hW hrel.hbal hrel.hcr hHr
        | some a =>
          exact createEnd_rel hk1 hks hcr hres hdwf (hrel.hR.subst.same hk.2.1 hk.1) hW hrel.hbal hrel.hcr hHr
      · simp only [RunStack]
        constructor
        · rintro ⟨r2, h2, h3⟩
          rw [halts_unique hh h2]; exact h3
        · intro h3; exact ⟨r1, hh, h3⟩

end

/-! ### from the running frame to the frame stack -/

/-- an end of the run covers the concrete result `r` (cf. `EndCovers`): its path is satisfied and it reports exactly
    that outcome, untagged, its maps — of all modelled accounts — describing exactly that world; or it is an error
    report; or it is tagged -/
def EndCoversC (I : Interp) (p : Evm.Params) (S : Nat → Prop) (w0 : Evm.World) (r : Evm.World × Evm.Halt)
    (ce : CEnd) : Prop :=
  Sat I ce.e.st.path ∧
    ((∃ h0, ce.e.out = .halt h0 ∧ haltWith h0 (ce.e.data.map (·.eval I)) = r.2 ∧ ce.e.tag = .normal ∧
        WRelM I S (wd w0 ce.created ce.nonce) r.1 (stoOf ce.stores) (evalLogs I ce.logs) (balSem I w0 ce.bal) ∧
        (∀ b ∈ ce.e.data, b.WF ∧ b.width = 8) ∧ HRel I p S r.1 ce.hsto) ∨
     (∃ r', ce.e.out = .stuck r') ∨ ce.e.tag ≠ .normal)

/-- what the simulation knows of an end besides the world it describes, and what the next transaction started from
    it (`nextTx`) needs: the concretization map is justified by the path, the balance chain and the created accounts
    are well-formed -/
def EndInv (I : Interp) (S : Nat → Prop) (ce : CEnd) : Prop :=
  SubstOk I ce.e.st ∧ ChainWF ce.bal ∧ CrOK S ce.created

section
variable (I : Interp) (p : Evm.Params) (S : Nat → Prop) (w0 : Evm.World) (C : Prop)
variable (cs : CState) (w : Evm.World) (f : Evm.Frame) (kcs : List CCont)

/-- what the running frame produced is sound: successors are related to concrete configurations whose completion is
    a completion of the present one; untagged halting end states are halts of the running concrete frame -/
def LocalSound (lo : LocalOut) : Prop :=
  (∀ cs' ∈ lo.next, Sat I cs'.st.path → ∃ w' f' kcs', RelC I p S w0 cs' w' f' kcs' ∧
      ∀ r, RunStack p w' f' kcs' r → RunStack p w f kcs r) ∧
  (∀ e ∈ lo.ends, Keeps e.st cs.st ∧ (e.tag = .normal → ∀ h, e.out = .halt h →
      Evm.step p w f = .halt w (haltWith h (e.data.map (·.eval I))) ∧ ∀ b ∈ e.data, b.WF ∧ b.width = 8))

/-- what the running frame produced accounts for the completion `r` of the present configuration -/
def LocalComplete (r : Evm.World × Evm.Halt) (lo : LocalOut) : Prop :=
  (∃ cs' ∈ lo.next, Sat I cs'.st.path ∧ ∃ w' f' kcs', RelC I p S w0 cs' w' f' kcs' ∧ RunStack p w' f' kcs' r ∧
      BBAll C w' kcs') ∨
  (∃ e ∈ lo.ends, Keeps e.st cs.st ∧
    ((∃ h r1, e.out = .halt h ∧ e.tag = .normal ∧ Halts p w f r1 ∧ haltWith h (e.data.map (·.eval I)) = r1.2 ∧
        (∀ b ∈ e.data, b.WF ∧ b.width = 8) ∧
        WRelM I S (wd w0 cs.created cs.nonce) r1.1 (stoOf (fullOf cs e)) (evalLogs I cs.logs)
          (balSem I w0 cs.bal) ∧ HRel I p S r1.1 cs.hsto) ∨
     (∃ r', e.out = .stuck r') ∨ e.tag ≠ .normal)) ∨
  lo.bounded ≠ []

end

section
variable {I : Interp} {p : Evm.Params} {S : Nat → Prop} {w0 : Evm.World} {C : Prop}
variable {cs : CState} {w : Evm.World} {f : Evm.Frame} {kcs : List CCont}

theorem finish_sound (hrel : RelC I p S w0 cs w f kcs) (hsat : Sat I cs.st.path) {lo : LocalOut}
    (hl : LocalSound I p S w0 cs w f kcs lo) :
    (∀ cs' ∈ (finish cs lo).next, Sat I cs'.st.path → ∃ w' f' kcs', RelC I p S w0 cs' w' f' kcs' ∧
        ∀ r, RunStack p w' f' kcs' r → RunStack p w f kcs r) ∧
    (∀ ce ∈ (finish cs lo).ends, ce.e.tag = .normal → ∀ h, ce.e.out = .halt h →
        ∃ w', RunStack p w f kcs (w', haltWith h (ce.e.data.map (·.eval I))) ∧
          WRelM I S (wd w0 ce.created ce.nonce) w' (stoOf ce.stores) (evalLogs I ce.logs)
            (balSem I w0 ce.bal) ∧ HRel I p S w' ce.hsto ∧ EndInv I S ce) := by
  refine ⟨fun cs' hm hsat' => ?_, fun ce hm ht h ho => ?_⟩
  · rcases mem_finish_next hm with hm | ⟨e, he, k, ks, h, hc, ho, ht, hm⟩
    · exact hl.1 cs' hm hsat'
    · obtain ⟨hk, hstep⟩ := hl.2 e he
      obtain ⟨hstep, hdwf⟩ := hstep ht h ho
      obtain ⟨kc, kcs', hkc, hrel', hiff⟩ :=
        (frame_end hrel (r1 := (w, _)) ((halts_halt hstep).2 rfl) (h := h) rfl hdwf hk
          (wrelM_fullOf_keeps hrel hk) hrel.hH).2 k ks hc
      exact ⟨_, _, kcs', hrel' cs' hm, fun r hr => (hiff r).2 hr⟩
  · obtain ⟨e, he, hcase⟩ := mem_finish_ends hm
    rcases hcase with ⟨rfl, hcase⟩ | ⟨r', hr'⟩
    · obtain ⟨hk, hstep⟩ := hl.2 e he
      obtain ⟨hstep, hdwf⟩ := hstep ht h ho
      rcases hcase with hc | hn
      · have hkcs : kcs = [] := by
          have := hrel.conts; rw [hc] at this; cases this; rfl
        subst hkcs
        exact ⟨w, (halts_halt hstep).2 rfl, wrelM_fullOf_keeps hrel hk, hrel.hH,
          hrel.hR.subst.same hk.2.1 hk.1, hrel.hbal, hrel.hcr⟩
      · exact absurd ⟨h, ho, ht⟩ hn
    · rw [hr'] at ho; cases ho

theorem finish_complete (hrel : RelC I p S w0 cs w f kcs) (hsat : Sat I cs.st.path) {r : Evm.World × Evm.Halt}
    (hrun : RunStack p w f kcs r) (hbb : BBAll C w kcs) {lo : LocalOut} (hl : LocalComplete I p S w0 C cs w f r lo) :
    (∃ cs' ∈ (finish cs lo).next, Sat I cs'.st.path ∧ ∃ w' f' kcs', RelC I p S w0 cs' w' f' kcs' ∧
        RunStack p w' f' kcs' r ∧ BBAll C w' kcs') ∨
    (∃ ce ∈ (finish cs lo).ends, EndCoversC I p S w0 r ce) ∨
    (finish cs lo).bounded ≠ [] := by
  rcases hl with ⟨cs', hm, hsat', hx⟩ | ⟨e, he, hk, hcase⟩ | hb
  · exact Or.inl ⟨cs', finish_next_of_local hm, hsat', hx⟩
  · have hsate : Sat I e.st.path := by rw [hk.1]; exact hsat
    rcases hcase with ⟨h, r1, ho, ht, hh, hres, hdwf, hW, hHr⟩ | hstuck | htag
    · obtain ⟨hnil, hcons⟩ := frame_end hrel hh hres hdwf hk hW hHr
      cases hc : cs.conts with
      | nil =>
        have hkcs := hnil hc
        subst hkcs
        have : r = r1 := halts_unique hrun hh
        subst this
        exact Or.inr (Or.inl ⟨_, finish_ends_of_nil he hc, hsate, Or.inl ⟨h, ho, hres, ht, hW, hdwf, hHr⟩⟩)
      | cons k ks =>
        obtain ⟨kc, kcs', hkc, hrel', hiff⟩ := hcons k ks hc
        subst hkc
        have hbw : C → BalBound (resumeWorld kc r1) := by
          intro hC
          unfold resumeWorld
          split
          · split
            · exact (hbb hC).1.congr (fun a => (hW.bal a).trans (hrel.hW.bal a).symm)
            · exact (hbb hC).1.congr (fun a => (hW.bal a).trans (hrel.hW.bal a).symm)
          · exact ((hbb hC).2 kc (List.mem_cons_self ..)).congr (fun a => rfl)
        rcases frameEndH_cases cs k ks h e with ⟨⟨cs', h1⟩, _⟩ | ⟨_, ce, h1, hst, hst'⟩
        · have hm : cs' ∈ (frameEndH cs k ks h e).next := by rw [h1]; exact List.mem_singleton.2 rfl
          have hp : cs'.st.path = e.st.path :=
            ((frameEnd_shape cs e).1 cs' (by rw [frameEnd_halt hc ho ht]; exact hm)).1
          exact Or.inl ⟨cs', finish_next_of_halt he hc ho ht hm, by rw [hp]; exact hsate, _, _, kcs', hrel' cs' hm,
            (hiff r).1 hrun, fun hC => ⟨hbw hC, fun kc' hm => (hbb hC).2 kc' (List.mem_cons_of_mem _ hm)⟩⟩
        · have hm : ce ∈ (frameEndH cs k ks h e).ends := by rw [h1]; exact List.mem_singleton.2 rfl
          exact Or.inr (Or.inl ⟨ce, finish_ends_of_halt he hc ho ht hm, by rw [hst']; exact hsate,
            Or.inr (Or.inl hst)⟩)
    · refine Or.inr (Or.inl ⟨_, finish_ends_of_other he ?_, hsate, Or.inr (Or.inl hstuck)⟩)
      rintro ⟨h, ho, _⟩
      obtain ⟨r', hr'⟩ := hstuck
      rw [hr'] at ho; cases ho
    · refine Or.inr (Or.inl ⟨_, finish_ends_of_other he ?_, hsate, Or.inr (Or.inr htag)⟩)
      rintro ⟨h, _, ht⟩
      exact htag ht
  · exact Or.inr (Or.inr (by rw [finish_bounded]; exact hb))

end

/-! ### an ordinary instruction of the running frame -/

theorem runStack_halts {p : Evm.Params} {w : Evm.World} {f : Evm.Frame} {kcs : List CCont}
    {r : Evm.World × Evm.Halt} (h : RunStack p w f kcs r) : ∃ r1, Halts p w f r1 := by
  cases kcs with
  | nil => exact ⟨r, h⟩
  | cons k ks => obtain ⟨r1, h1, _⟩ := h; exact ⟨r1, h1⟩

section
variable {I : Interp} {p : Evm.Params} {S : Nat → Prop} {w0 : Evm.World} {C : Prop}
variable {cs : CState} {w : Evm.World} {f : Evm.Frame} {kcs : List CCont}
variable {s : Simp} {o : Oracle} {cfg : Cfg}

theorem RelC.wrel (hrel : RelC I p S w0 cs w f kcs) :
    WRel I (zeroAcct w cs.this) w f.this cs.st.storage cs.st.transient := by
  have := hrel.hW.toWRel hrel.inS
  rw [hrel.this]
  simpa [viewOf] using this

/-- the running frame moved on by ordinary instructions -/
theorem RelC.step (hrel : RelC I p S w0 cs w f kcs) {st' : SState} {w' : Evm.World} {f' : Evm.Frame}
    (hreach : CReach p (w, f) (w', f')) (hR' : R I cs.env cs.code p st' f')
    (hW' : WRel I (zeroAcct w cs.this) w' f.this st'.storage st'.transient) :
    RelC I p S w0 { cs with st := st' } w' f' kcs := by
  rw [hrel.this] at hW'
  refine ⟨hR', (R.this_eq hrel.hR hR').trans hrel.this, hrel.inS, (creach_depth hreach).trans hrel.depth, hrel.hcode,
    ?_, hrel.hbal, hrel.hcr, hrel.hH.ofWRel hW', hrel.conts⟩
  refine (hrel.hW.ofWRel hrel.inS hW').congr (fun a _ => ?_)
  by_cases e : a = cs.this
  · simp [viewOf, e]
  · simp [viewOf, e]

theorem local_step_sound (hs : SimpSound s) (hI : I.Std) (hmem : cfg.maxMem + 32 ≤ p.memLimit)
    (hrel : RelC I p S w0 cs w f kcs) (hsat : Sat I cs.st.path) :
    LocalSound I p S w0 cs w f kcs (liftOut cs (stepL s o cfg cs.env cs.code cs.st)) := by
  obtain ⟨hn, he⟩ := stepL_sound (o := o) (cfg := cfg) hs hI hrel.hR hsat hmem hrel.hcode hrel.wrel
  refine ⟨fun cs' hm hsat' => ?_, fun e hm => ⟨stepL_end_keeps hm, fun ht h ho => ?_⟩⟩
  · obtain ⟨st', hm', rfl⟩ := List.mem_map.1 hm
    obtain ⟨w', f', hreach, hR', hW'⟩ := hn st' hm' hsat'
    exact ⟨w', f', kcs, hrel.step hreach hR' hW', fun r hr => (runStack_reach hreach kcs r).2 hr⟩
  · obtain ⟨hstep, _, _, hdwf⟩ := he e hm ht h ho
    exact ⟨hstep, hdwf⟩

/-- the same from any one-step correspondence of the running frame (used for the instructions the frame-stack machine
    decodes itself) -/
theorem local_corr_sound (hs : SimpSound s) (hrel : RelC I p S w0 cs w f kcs) {out : StepOut}
    (hc : Corr I cs.env cs.code p w s o cfg cs.st f out) (hsh : Shape s o cfg cs.code cs.st out) :
    LocalSound I p S w0 cs w f kcs (liftOut cs out) := by
  obtain ⟨hn, he⟩ := corr_sound hs hc hrel.wrel
  refine ⟨fun cs' hm hsat' => ?_, fun e hm => ⟨shape_end_keeps hsh hm, fun ht h ho => ?_⟩⟩
  · obtain ⟨st', hm', rfl⟩ := List.mem_map.1 hm
    obtain ⟨w', f', hreach, hR', hW'⟩ := hn st' hm' hsat'
    exact ⟨w', f', kcs, hrel.step hreach hR' hW', fun r hr => (runStack_reach hreach kcs r).2 hr⟩
  · obtain ⟨hstep, _, _, hdwf⟩ := he e hm ht h ho
    exact ⟨hstep, hdwf⟩

theorem runStack_same_result {w' : Evm.World} {f' : Evm.Frame} {r1 r : Evm.World × Evm.Halt}
    (h1 : Halts p w f r1) (h2 : Halts p w' f' r1) (hr : RunStack p w f kcs r) : RunStack p w' f' kcs r := by
  cases kcs with
  | nil => rw [show r = r1 from halts_unique hr h1]; exact h2
  | cons k ks =>
    obtain ⟨r2, h3, h4⟩ := hr
    rw [halts_unique h3 h1] at h4
    exact ⟨r1, h2, h4⟩

/-- two related worlds of states with the same balance array have the same balances -/
theorem RelC.bb_of {cs' : CState} {w' : Evm.World} {f' : Evm.Frame} {kcs' : List CCont}
    (hrel : RelC I p S w0 cs w f kcs) (hrel' : RelC I p S w0 cs' w' f' kcs') (hb : cs'.bal = cs.bal)
    (hbb : BalBound w) : BalBound w' :=
  hbb.congr (fun a => (hrel'.hW.bal a).trans (by rw [hb]; exact (hrel.hW.bal a).symm))

theorem local_step_complete (hs : SimpSound s) (ho : OracleSound o) (hI : I.Std)
    (hmem : cfg.maxMem + 32 ≤ p.memLimit) (hrel : RelC I p S w0 cs w f kcs) (hsat : Sat I cs.st.path)
    {r : Evm.World × Evm.Halt} (hrun : RunStack p w f kcs r) (hbb : BBAll C w kcs) :
    LocalComplete I p S w0 C cs w f r (liftOut cs (stepL s o cfg cs.env cs.code cs.st)) := by
  obtain ⟨r1, hh⟩ := runStack_halts hrun
  rcases stepL_complete (cfg := cfg) hs ho hI hrel.hR hmem hrel.hcode hrel.wrel hsat hh with
    ⟨st', hm', hsat', w', f', hreach, hR', hW', hh'⟩ | ⟨e, hme, hsate, hcov⟩ | hb
  · exact Or.inl ⟨{ cs with st := st' }, List.mem_map.2 ⟨st', hm', rfl⟩, hsat', w', f', kcs,
      hrel.step hreach hR' hW', runStack_same_result hh hh' hrun,
      fun hC => ⟨hrel.bb_of (hrel.step hreach hR' hW') rfl (hbb hC).1, (hbb hC).2⟩⟩
  · refine Or.inr (Or.inl ⟨e, hme, stepL_end_keeps hme, ?_⟩)
    rcases hcov with ⟨h0, ho', hres, ht, hW, hdwf⟩ | hstuck | htag
    · rw [hrel.this] at hW
      exact Or.inl ⟨h0, r1, ho', ht, hh, hres, hdwf, wrelM_fullOf (hrel.hW.ofWRel hrel.inS hW), hrel.hH.ofWRel hW⟩
    · exact Or.inr (Or.inl hstuck)
    · exact Or.inr (Or.inr htag)
  · exact Or.inr (Or.inr hb)


theorem local_corr_complete (hs : SimpSound s) (ho : OracleSound o) (hrel : RelC I p S w0 cs w f kcs)
    (hsat : Sat I cs.st.path) {r : Evm.World × Evm.Halt} (hrun : RunStack p w f kcs r) (hbb : BBAll C w kcs)
    {out : StepOut}
    (hc : Corr I cs.env cs.code p w s o cfg cs.st f out) (hsh : Shape s o cfg cs.code cs.st out) :
    LocalComplete I p S w0 C cs w f r (liftOut cs out) := by
  obtain ⟨r1, hh⟩ := runStack_halts hrun
  rcases corr_complete hs ho hc hrel.wrel hsat hh with
    ⟨st', hm', hsat', w', f', hreach, hR', hW', hh'⟩ | ⟨e, hme, hsate, hcov⟩ | hb
  · exact Or.inl ⟨{ cs with st := st' }, List.mem_map.2 ⟨st', hm', rfl⟩, hsat', w', f', kcs,
      hrel.step hreach hR' hW', runStack_same_result hh hh' hrun,
      fun hC => ⟨hrel.bb_of (hrel.step hreach hR' hW') rfl (hbb hC).1, (hbb hC).2⟩⟩
  · refine Or.inr (Or.inl ⟨e, hme, shape_end_keeps hsh hme, ?_⟩)
    rcases hcov with ⟨h0, ho', hres, ht, hW, hdwf⟩ | hstuck | htag
    · rw [hrel.this] at hW
      exact Or.inl ⟨h0, r1, ho', ht, hh, hres, hdwf, wrelM_fullOf (hrel.hW.ofWRel hrel.inS hW), hrel.hH.ofWRel hW⟩
    · exact Or.inr (Or.inl hstuck)
    · exact Or.inr (Or.inr htag)
  · exact Or.inr (Or.inr hb)
end

end HalmosVerif.Lemmas.Sevm
