/-
Lemmas.SevmCallStep — the call instructions of the frame-stack machine (`callOut`) against CALL / CALLCODE /
DELEGATECALL / STATICCALL of the reference EVM, and with it one whole step of the frame-stack machine (`stepC`) in both
directions.
-/
import HalmosVerif.Lemmas.SevmCallRel
import HalmosVerif.Lemmas.SevmCallBal

set_option linter.unusedSectionVars false
set_option linter.unusedSimpArgs false
set_option linter.unusedVariables false
set_option maxRecDepth 2000

namespace HalmosVerif.Lemmas.Sevm
open HalmosVerif.Model HalmosVerif.Model.Sevm HalmosVerif.Spec HalmosVerif.Lemmas.Word

/-! ### helpers -/

section
variable {I : Interp} {s : Simp}

/-- `uint160(peek(2))` returned the literal `k`: the masked concrete word -/
theorem reBV160_con (hs : SimpSound s) {v : HV} {n : Nat} (hw : WordRel I v n) {sz k : Nat}
    (h : reBV s v 160 = .bv sz (.con k)) : k = n % 2 ^ 160 ∧ k < 2 ^ 160 := by
  cases v with
  | bv size r =>
    obtain ⟨r', e, wf, d⟩ := (reBV_bv_ok hs I (by decide : 0 < 160) hw.1).ok_inj
    rw [h] at e
    cases e
    exact ⟨by rw [← hw.2.2, ← d]; rfl, wf.2⟩
  | bool r =>
    obtain ⟨r', e, wf, d⟩ := (reBV_bool_ok hs I (by decide : 0 < 160) hw.1).ok_inj
    rw [h] at e
    cases e
    have hk : k = n := by rw [← hw.2.2, ← d]; rfl
    exact ⟨by rw [← hk]; exact (Nat.mod_eq_of_lt wf.2).symm, wf.2⟩

/-- a word of the callee's calldata -/
theorem wordOfBytes_rel (hs : SimpSound s) {bs : List T} (hb : ∀ b ∈ bs, b.WF ∧ b.width = 8)
    (hlen : bs.length = 32) :
    (s.t (wordOfBytes bs)).WF ∧ (s.t (wordOfBytes bs)).width = 256 ∧
      (s.t (wordOfBytes bs)).eval I = Evm.bytesToNat (bs.map (·.eval I)) := by
  have key : (wordOfBytes bs).WF ∧ (wordOfBytes bs).width = 256 ∧
      (wordOfBytes bs).eval I = Evm.bytesToNat (bs.map (·.eval I)) := by
    unfold wordOfBytes
    cases hl : litBytes? bs with
    | some ns =>
      obtain ⟨h1, h2⟩ := litBytes_ok (I := I) hl
      simp only
      refine ⟨(by decide : 0 < 256), rfl, ?_⟩
      rw [h2]
      have := bytesToNat_lt ns
      rw [h1, hlen] at this
      exact Nat.mod_eq_of_lt (Nat.lt_of_lt_of_le this (by norm_num))
    | none =>
      simp only
      match bs, hlen, hb with
      | b :: rest, hlen, hb =>
        obtain ⟨bwf, bw⟩ := hb b (List.mem_cons_self ..)
        obtain ⟨h1, h2, h3⟩ := concat_foldl_ok (I := I) rest b bwf (fun x hx => hb x (List.mem_cons_of_mem _ hx))
        refine ⟨h1, ?_, ?_⟩
        · simp only [concatBytes, h2, bw]
          simp only [List.length_cons] at hlen
          omega
        · simp only [concatBytes, h3, Evm.bytesToNat, List.map_cons, List.foldl_cons]
          have hlt := T.eval_lt I b bwf
          rw [bw] at hlt
          rw [Nat.mod_eq_of_lt hlt]; norm_num
  exact ⟨hs.wfT _ key.1, (hs.widthT _ key.1).trans key.2.1, (hs.evalT I _ key.1).trans key.2.2⟩

theorem MemRel.getD {sm : List T} {cm : List Nat} (h : MemRel I sm cm) (i : Nat) :
    ((sm[i]?).getD zeroByte).WF ∧ ((sm[i]?).getD zeroByte).width = 8 ∧
      ((sm[i]?).getD zeroByte).eval I = (cm[i]?).getD 0 := by
  obtain ⟨hwf, hm⟩ := h
  subst hm
  by_cases hi : i < sm.length
  · have : sm[i]? = some sm[i] := List.getElem?_eq_getElem hi
    simp only [this, Option.getD_some, List.getElem?_map, Option.map_some]
    exact ⟨(hwf _ (List.getElem_mem hi)).1, (hwf _ (List.getElem_mem hi)).2, trivial⟩
  · have : sm[i]? = none := List.getElem?_eq_none (by omega)
    simp only [this, Option.getD_none, List.getElem?_map, Option.map_none]
    exact zeroByte_ok I

end

/-! ### the operands of a call -/

section
variable {I : Interp} {s : Simp} {cfg : Cfg} {codes : List (Nat × List Nat)} {cs : CState} {op t : Nat}
variable {fund : Option T} {o : Oracle}

theorem callArgs_cases (hs : SimpSound s) {r : List HV} {cr : List Nat} (hr : StackRel I r cr) :
    (callArgs s o cfg codes cs op t fund r = localHalt cs.st .stackUnderflow ∧ cr.length < 4) ∨
    (callArgs s o cfg codes cs op t fund r = localStuck cs.st .notConcrete) ∨
    (∃ ao al ro rl rest crest, cr = ao :: al :: ro :: rl :: crest ∧ StackRel I rest crest ∧
      callArgs s o cfg codes cs op t fund r = callGo s o cfg codes cs op t fund ao al ro rl rest) := by
  cases r with
  | nil => left; rw [hr.nil_inv]; exact ⟨rfl, by simp⟩
  | cons alv r1 =>
    obtain ⟨ao, cr1, rfl, hwa, hr1⟩ := hr.cons_inv
    unfold callArgs
    simp only
    split
    · rename_i sz1 aloc heq1
      have e1 := toBV256_con hs hwa heq1
      subst e1
      cases r1 with
      | nil => left; rw [hr1.nil_inv]; exact ⟨rfl, by simp⟩
      | cons asv r2 =>
        obtain ⟨al, cr2, rfl, hwb, hr2⟩ := hr1.cons_inv
        simp only
        split
        · rename_i sz2 asize heq2
          have e2 := toBV256_con hs hwb heq2
          subst e2
          cases r2 with
          | nil => left; rw [hr2.nil_inv]; exact ⟨rfl, by simp⟩
          | cons rlv r3 =>
            obtain ⟨ro, cr3, rfl, hwc, hr3⟩ := hr2.cons_inv
            simp only
            split
            · rename_i sz3 rloc heq3
              have e3 := toBV256_con hs hwc heq3
              subst e3
              cases r3 with
              | nil => left; rw [hr3.nil_inv]; exact ⟨rfl, by simp⟩
              | cons rsv rest =>
                obtain ⟨rl, crest, rfl, hwd, hrest⟩ := hr3.cons_inv
                simp only
                split
                · rename_i sz4 rsize heq4
                  have e4 := toBV256_con hs hwd heq4
                  subst e4
                  exact Or.inr (Or.inr ⟨_, _, _, _, rest, crest, rfl, hrest, rfl⟩)
                · exact Or.inr (Or.inl rfl)
            · exact Or.inr (Or.inl rfl)
        · exact Or.inr (Or.inl rfl)
    · exact Or.inr (Or.inl rfl)

end

/-! ### the call itself -/

theorem touch_stack (f : Evm.Frame) (off n : Nat) : (f.touch off n).stack = f.stack := by
  unfold Evm.Frame.touch; split <;> rfl

theorem view_eta (X : Stores) (c a : Nat) :
    (if a = c then ({ storage := (stoOf X c).storage, transient := (stoOf X c).transient } : AcctSto)
      else stoOf X a) = stoOf X a := by
  by_cases e : a = c
  · subst e; simp
  · simp [e]

section
variable (I : Interp) (p : Evm.Params) (S : Nat → Prop) (w0 : Evm.World)
variable (cs : CState) (w : Evm.World) (f : Evm.Frame) (kcs : List CCont)

/-- what an instruction the frame-stack machine decodes itself (a call, a LOG, EXTCODESIZE) amounts to on the reference
    side: no claim (an error report or a tagged end); an exceptional halt of the running concrete frame (stack
    underflow, a write in a static frame); or one successor, related to a concrete configuration with exactly the same
    completions -/
def CallCorr (lo : LocalOut) : Prop :=
  (∃ e, lo = { ends := [e] } ∧ e.st = cs.st ∧ ((∃ r', e.out = .stuck r') ∨ e.tag ≠ .normal)) ∨
  (∃ h, lo = localHalt cs.st h ∧ haltWith h [] = h ∧ Evm.step p w f = .halt w h) ∨
  (∃ cs' w' f' kcs', lo = { next := [cs'] } ∧ cs'.st.path = cs.st.path ∧ RelC I p S w0 cs' w' f' kcs' ∧
      (∀ r, RunStack p w f kcs r ↔ RunStack p w' f' kcs' r) ∧ (BBAll w kcs → BBAll w' kcs'))

end

section
variable {I : Interp} {p : Evm.Params} {S : Nat → Prop} {w0 : Evm.World}
variable {cs : CState} {w : Evm.World} {f : Evm.Frame} {kcs : List CCont}
variable {s : Simp} {cfg : Cfg} {codes : List (Nat × List Nat)}

/-- the context of the callee: the symbolic environment `call_known` builds (msg.sender, address(this), msg.value,
    calldata, static flag — per call kind) denotes the context of the frame the reference starts -/
theorem calleeOfG_envRel (hs : SimpSound s) {op t ao al ro rl : Nat} {rest : List HV} {prog : List Nat}
    {cv : T} {v : Nat} {sb : List (T × T)}
    {g : Evm.Frame} (hRk : R I cs.env cs.code p { cs.st with stack := rest } g)
    (hcall : op = 0xf1 ∨ op = 0xf2 ∨ op = 0xf4 ∨ op = 0xfa) (ht : t < 2 ^ 160)
    (hcv : cv.WF ∧ cv.width ≤ 256 ∧ cv.eval I = v) :
    EnvRel I (calleeOfG s cs op t ao al ro rl rest prog cv sb).env p (calleeFrameV op g w t v ao al) := by
  have hargs : MemRel I (readMem cs.st.mem ao al) (Evm.readBytes g.mem ao al) := readMem_rel hRk.mem ao al
  have haddr := hRk.env.address
  have hcaller := hRk.env.caller
  have hval := hRk.env.callvalue
  simp only [calleeOfG]
  refine ⟨?_, hRk.env.origin, ?_, ?_, fun off => ?_, fun i => ?_, ?_, ?_⟩
  · rcases hcall with rfl | rfl | rfl | rfl <;>
      simp only [calleeFrameV, Nat.reduceEqDiff, if_true, if_false] <;>
      first | exact haddr | exact hcaller
  · rcases hcall with rfl | rfl | rfl | rfl <;>
      simp only [calleeFrameV, Nat.reduceEqDiff, if_true, if_false] <;>
      first | exact hval | exact hcv
  · have hlit : (T.lit 160 t).WF ∧ (T.lit 160 t).width ≤ 256 ∧ (T.lit 160 t).eval I = t :=
      ⟨(by decide : 0 < 160), (by decide : 160 ≤ 256), Nat.mod_eq_of_lt ht⟩
    rcases hcall with rfl | rfl | rfl | rfl <;>
      simp [calleeFrameV] <;>
      first | exact hlit | exact haddr
  · have hw := readMem_rel hargs off 32
    obtain ⟨a1, a2, a3⟩ := wordOfBytes_rel (I := I) hs hw.1 (readMem_length _ _ _)
    refine ⟨a1, a2, ?_⟩
    rw [a3, hw.2]; rfl
  · exact hargs.getD i
  · simp [calleeFrameV, Evm.readBytes]
  · rcases hcall with rfl | rfl | rfl | rfl <;> simp [calleeFrameV, hRk.env.isStatic]

theorem calleeOf_envRel (hs : SimpSound s) {op t ao al ro rl : Nat} {rest : List HV} {prog : List Nat}
    {g : Evm.Frame} (hRk : R I cs.env cs.code p { cs.st with stack := rest } g)
    (hcall : op = 0xf1 ∨ op = 0xf2 ∨ op = 0xf4 ∨ op = 0xfa) (ht : t < 2 ^ 160) :
    EnvRel I (calleeOf s cs op t ao al ro rl rest prog).env p (calleeFrame op g w t ao al) :=
  calleeOfG_envRel hs hRk hcall ht ⟨(by decide : 0 < 256), Nat.le_refl _, rfl⟩

/-- the callee `call_known` starts against the frame the reference starts: `csx` is the caller at the call (operands
    still on its stack, conditions appended, value moved), `g` the concrete caller with the operands popped and the
    memory areas touched, `wS` the world saved for a rollback, `wT` the world the callee starts in -/
theorem relC_callee (hs : SimpSound s) (hS : ∀ a prog, codeOf codes a = some prog → S a)
    (hcb : ∀ a prog, codeOf codes a = some prog → ∀ b ∈ prog, b < 256)
    {csx : CState} {wS wT : Evm.World} {g : Evm.Frame} {op t ao al ro rl : Nat} {rest : List HV} {prog : List Nat}
    {cv : T} {v : Nat} {sb : List (T × T)}
    (hRk : R I csx.env csx.code p { csx.st with stack := rest } g) (hthis : g.this = csx.this) (hinS : S csx.this)
    (hdepth : g.depth = csx.depth) (hcode : ∀ b ∈ csx.code, b < 256)
    (hWT : WRelM I S w0 wT (viewOf csx) (evalLogs I csx.logs) (balSem I w0 csx.bal)) (hbal : ChainWF csx.bal)
    (hWS : WRelM I S w0 wS (viewOf csx) (evalLogs I csx.logs) (balSem I w0 sb)) (hsb : ChainWF sb)
    (hconts : List.Forall₂ (ContRel I p S w0) csx.conts kcs) (hc : codeOf codes t = some prog)
    (hwcode : wS.codeOf t = codeOf codes t) (hcall : op = 0xf1 ∨ op = 0xf2 ∨ op = 0xf4 ∨ op = 0xfa)
    (ht : t < 2 ^ 160) (hcv : cv.WF ∧ cv.width ≤ 256 ∧ cv.eval I = v) :
    RelC I p S w0 (calleeOfG s csx op t ao al ro rl rest prog cv sb) wT (calleeFrameV op g wS t v ao al)
      (⟨wS, g, ro, rl⟩ :: kcs) := by
  have hstores : ∀ a, stoOf (stoSet csx.stores csx.this
      { storage := csx.st.storage, transient := csx.st.transient }) a = viewOf csx a := by
    intro a; rw [stoOf_stoSet]; rfl
  have henv := calleeOfG_envRel (w := wS) (ao := ao) (al := al) (ro := ro) (rl := rl) (prog := prog) (sb := sb)
    hs hRk hcall ht hcv
  simp only [calleeOfG] at henv ⊢
  refine ⟨⟨?_, rfl, StackRel.nil, henv, hRk.subst.same rfl rfl, MemRel.nil I, MemRel.nil I⟩, ?_, ?_, ?_,
    hcb t prog hc, ?_, hbal,
    List.Forall₂.cons ⟨hRk, hthis, hinS, hdepth, hcode, rfl, rfl, hWS.congr (fun a _ => hstores a), hsb⟩ hconts⟩
  · simp [calleeFrameV, hwcode, hc]
  · rcases hcall with rfl | rfl | rfl | rfl <;> simp [calleeFrameV, hthis]
  · rcases hcall with rfl | rfl | rfl | rfl <;>
      simp only [Nat.reduceEqDiff, or_true, true_or, or_self, if_true, if_false] <;>
      first | exact hS t prog hc | exact hinS
  · show g.depth + 1 = csx.depth + 1
    rw [hdepth]
  · exact (hWT.congr (fun a _ => hstores a)).congr (fun a _ => view_eta _ _ a)

/-- the caller going on after a call that returned nothing (a target without code: `ok = true`, or a call that could
    not be paid: `ok = false`), against the concrete caller `g'` -/
theorem relC_goOn {csx : CState} {w' : Evm.World} {g g' : Evm.Frame} {rest : List HV} {ok : Bool}
    (hRk : R I csx.env csx.code p { csx.st with stack := rest } g) (hthis : g.this = csx.this) (hinS : S csx.this)
    (hdepth : g.depth = csx.depth) (hcode : ∀ b ∈ csx.code, b < 256)
    (hW : WRelM I S w0 w' (viewOf csx) (evalLogs I csx.logs) (balSem I w0 csx.bal)) (hbal : ChainWF csx.bal)
    (hconts : List.Forall₂ (ContRel I p S w0) csx.conts kcs)
    (hctx : g'.code = g.code ∧ g'.caller = g.caller ∧ g'.value = g.value ∧ g'.this = g.this ∧
      g'.calldata = g.calldata ∧ g'.isStatic = g.isStatic ∧ g'.depth = g.depth)
    (hpc : g'.pc = g.pc + 1) (hstk : g'.stack = (if ok then 1 else 0) :: g.stack) (hmem : g'.mem = g.mem)
    (hrd : g'.returndata = []) {pc0 : Nat} (hpc0 : pc0 = csx.st.pc) :
    RelC I p S w0 { csx with st := { csx.st with pc := pc0 + 1, stack := .bv 256 (.con (if ok then 1 else 0)) :: rest,
                                                 returndata := [] } } w' g' kcs := by
  obtain ⟨c1, c2, c3, c4, c5, c6, c7⟩ := hctx
  subst hpc0
  refine ⟨⟨c1.trans hRk.code, ?_, ?_, hRk.env.congr c2 c3 c4 c5 c6, hRk.subst.same rfl rfl, ?_, ?_⟩, c4.trans hthis,
    hinS, c7.trans hdepth, hcode, hW.congr (fun a _ => rfl), hbal, hconts⟩
  · show g'.pc = csx.st.pc + 1
    rw [hpc, hRk.pc]
  · rw [hstk]
    refine StackRel.cons ?_ hRk.stack
    cases ok
    · exact wordRel_con (by norm_num)
    · exact wordRel_con (by norm_num)
  · rw [hmem]; exact hRk.mem
  · rw [hrd]; exact MemRel.nil I

theorem callGo_corr (hs : SimpSound s) (hmem : cfg.maxMem + 32 ≤ p.memLimit) (hdep : 1024 ≤ p.maxDepth)
    (hcodes : ∀ a, w0.codeOf a = codeOf codes a) (hS : ∀ a prog, codeOf codes a = some prog → S a)
    (hcb : ∀ a prog, codeOf codes a = some prog → ∀ b ∈ prog, b < 256)
    (hrel : RelC I p S w0 cs w f kcs) {op : Nat} (hcall : op = 0xf1 ∨ op = 0xf2 ∨ op = 0xf4 ∨ op = 0xfa)
    {t ao al ro rl : Nat} {rest : List HV} {crest : List Nat} (hrest : StackRel I rest crest) (ht : t < 2 ^ 160)
    {o : Oracle}
    (hstep : Evm.step p w f = .call op w { f with stack := crest } t 0 ao al ro rl) :
    CallCorr I p S w0 cs w f kcs (callGo s o cfg codes cs op t none ao al ro rl rest) := by
  unfold callGo
  simp only
  by_cases h1 : al ≠ 0 ∧ ao + al > cfg.maxMem
  · rw [if_pos h1]; exact Or.inl ⟨_, rfl, rfl, Or.inr (fun h => Tag.noConfusion h)⟩
  rw [if_neg h1]
  by_cases h2 : rl ≠ 0 ∧ ro + rl > cfg.maxMem
  · rw [if_pos h2]; exact Or.inl ⟨_, rfl, rfl, Or.inr (fun h => Tag.noConfusion h)⟩
  rw [if_neg h2]
  simp only [Option.isSome_none, Bool.false_eq_true, if_false]
  by_cases h4 : specialAddr t = true
  · rw [if_pos h4]; exact Or.inl ⟨_, rfl, rfl, Or.inl ⟨_, rfl⟩⟩
  rw [if_neg h4]
  by_cases h5 : cs.depth + 1 > 1024
  · rw [if_pos h5]; exact Or.inl ⟨_, rfl, rfl, Or.inl ⟨_, rfl⟩⟩
  rw [if_neg h5]
  -- the reference makes the call
  have hm1 : Evm.memOk p ao al = true := memOk_of (by
    by_cases h0 : al = 0
    · exact Or.inl h0
    · right; have : ¬ ao + al > cfg.maxMem := fun h => h1 ⟨h0, h⟩
      omega)
  have hm2 : Evm.memOk p ro rl = true := memOk_of (by
    by_cases h0 : rl = 0
    · exact Or.inl h0
    · right; have : ¬ ro + rl > cfg.maxMem := fun h => h2 ⟨h0, h⟩
      omega)
  generalize hf1t : (({ f with stack := crest } : Evm.Frame).touch ao al).touch ro rl = f1t at *
  have e_code : f1t.code = f.code := by rw [← hf1t, touch_code, touch_code]
  have e_caller : f1t.caller = f.caller := by rw [← hf1t, touch_caller, touch_caller]
  have e_value : f1t.value = f.value := by rw [← hf1t, touch_value, touch_value]
  have e_this : f1t.this = f.this := by rw [← hf1t, touch_this, touch_this]
  have e_cd : f1t.calldata = f.calldata := by rw [← hf1t, touch_calldata, touch_calldata]
  have e_static : f1t.isStatic = f.isStatic := by rw [← hf1t, touch_isStatic, touch_isStatic]
  have e_rd : f1t.returndata = f.returndata := by rw [← hf1t, touch_returndata, touch_returndata]
  have e_mem : f1t.mem = f.mem := by rw [← hf1t, touch_mem, touch_mem]
  have e_pc : f1t.pc = f.pc := by rw [← hf1t, touch_pc, touch_pc]
  have e_depth : f1t.depth = f.depth := by rw [← hf1t, touch_depth, touch_depth]
  have hd : ¬ f1t.depth + 1 > p.maxDepth := by rw [e_depth, hrel.depth]; omega
  have hiff := fun r => runStack_call (p := p) hstep hm1 hm2 (by rw [hf1t]; exact hd) kcs r
  rw [hf1t] at hiff
  have hwcode : w.codeOf t = codeOf codes t := by
    have := hcodes t
    unfold Evm.World.codeOf at this ⊢
    rw [hrel.hW.code]; exact this
  have hR := hrel.hR
  -- the suspended caller
  have hRk : R I cs.env cs.code p { cs.st with stack := rest } f1t :=
    hR.next' ⟨e_code, e_caller, e_value, e_this, e_cd, e_static, e_rd⟩ rfl rfl rfl e_mem rfl
      (by rw [e_pc]; exact hR.pc) (by rw [← hf1t, touch_stack, touch_stack]; exact hrest)
  cases hc : codeOf codes t with
  | none =>
    simp only
    refine Or.inr (Or.inr ⟨_, w, resumeFrame ⟨w, f1t, ro, rl⟩ (.success []), kcs, rfl, rfl, ?_, fun r => ?_,
      fun hbb => hbb⟩)
    · exact relC_goOn (ok := true) (g' := resumeFrame ⟨w, f1t, ro, rl⟩ (.success [])) hRk (e_this.trans hrel.this)
        hrel.inS (e_depth.trans hrel.depth) hrel.hcode hrel.hW hrel.hbal hrel.conts
        ⟨rfl, rfl, rfl, rfl, rfl, rfl, rfl⟩ rfl rfl (by simp [resumeFrame, Evm.Halt.data, writeBytes_nil]) rfl rfl
    · refine (hiff r).trans ?_
      have hstop : Evm.step p w (calleeFrame op f1t w t ao al) = .halt w (.success []) := by
        apply evm_stop
        · simp [calleeFrame, calleeFrameV, hwcode, hc]
        · simp [calleeFrame, calleeFrameV]
      exact runStack_halt_cons hstop _ kcs r
  | some prog =>
    simp only
    refine Or.inr (Or.inr ⟨_, w, calleeFrame op f1t w t ao al, ⟨w, f1t, ro, rl⟩ :: kcs, rfl, rfl, ?_, hiff,
      fun hbb => ⟨hbb.1, fun kc hm => by
        rcases List.mem_cons.1 hm with rfl | hm
        · exact hbb.1
        · exact hbb.2 kc hm⟩⟩)
    exact relC_callee hs hS hcb hRk (e_this.trans hrel.this) hrel.inS (e_depth.trans hrel.depth) hrel.hcode
      hrel.hW hrel.hbal hrel.hW hrel.hbal hrel.conts hc hwcode hcall ht ⟨(by decide : 0 < 256), Nat.le_refl _, rfl⟩

end

section
variable {I : Interp} {p : Evm.Params} {S : Nat → Prop} {w0 : Evm.World}
variable {cs : CState} {w : Evm.World} {f : Evm.Frame} {kcs : List CCont}
variable {s : Simp} {cfg : Cfg} {codes : List (Nat × List Nat)}

/-- a CALL / CALLCODE whose value is not the literal 0, all operands decoded: the value term `fv` denotes the concrete
    value `v`, and the reference is at the call -/
def ValueCase (I : Interp) (p : Evm.Params) (s : Simp) (o : Oracle) (cfg : Cfg) (codes : List (Nat × List Nat))
    (cs : CState) (w : Evm.World) (f : Evm.Frame) (op : Nat) (lo : LocalOut) : Prop :=
  ∃ (t v : Nat) (fv : T) (ao al ro rl : Nat) (rest : List HV) (crest : List Nat),
    lo = callGo s o cfg codes cs op t (some fv) ao al ro rl rest ∧ (op = 0xf1 ∨ op = 0xf2) ∧
    StackRel I rest crest ∧ t < 2 ^ 160 ∧ fv.WF ∧ fv.width = 256 ∧ fv.eval I = v ∧
    Evm.step p w f = .call op w { f with stack := crest } t v ao al ro rl

/-- **the call instructions**: a zero-value call (`CallCorr`) or a value-bearing one (`ValueCase`). -/
theorem callOut_corr {o : Oracle} (hs : SimpSound s) (hmem : cfg.maxMem + 32 ≤ p.memLimit) (hdep : 1024 ≤ p.maxDepth)
    (hcodes : ∀ a, w0.codeOf a = codeOf codes a) (hS : ∀ a prog, codeOf codes a = some prog → S a)
    (hcb : ∀ a prog, codeOf codes a = some prog → ∀ b ∈ prog, b < 256)
    (hrel : RelC I p S w0 cs w f kcs) {op : Nat} (hop : opAt cs.code cs.st.pc = op)
    (hcall : op = 0xf1 ∨ op = 0xf2 ∨ op = 0xf4 ∨ op = 0xfa) (hl : ¬ cs.st.stack.length > 1024) :
    CallCorr I p S w0 cs w f kcs (callOut s o cfg codes cs op) ∨
      ValueCase I p s o cfg codes cs w f op (callOut s o cfg codes cs op) := by
  have hR := hrel.hR
  have hopc : (f.code[f.pc]?).getD 0 = op := hR.op_eq.trans hop
  have hlen := hR.stack.length
  have hlc : ¬ f.stack.length > 1024 := by rw [← hlen]; exact hl
  have hstk := hR.stack
  have hunder : f.stack.length < 6 → Evm.step p w f = .halt w .stackUnderflow := by
    intro hlt
    rcases hcall with h | h | h | h
    · exact evm_call7_short hopc (Or.inl h) hlc (by omega)
    · exact evm_call7_short hopc (Or.inr h) hlc (by omega)
    · exact evm_call6_short hopc (Or.inl h) hlc hlt
    · exact evm_call6_short hopc (Or.inr h) hlc hlt
  unfold callOut
  simp only
  cases hst : cs.st.stack with
  | nil => exact Or.inl (Or.inr (Or.inl ⟨_, rfl, rfl, hunder (by rw [← hlen, hst]; simp)⟩))
  | cons gv r =>
    cases r with
    | nil => exact Or.inl (Or.inr (Or.inl ⟨_, rfl, rfl, hunder (by rw [← hlen, hst]; simp)⟩))
    | cons tov r0 =>
      simp only
      rw [hst] at hstk
      obtain ⟨g, c1, hc1, _, hs1⟩ := hstk.cons_inv
      obtain ⟨tgt, c0, hc0, hwt, hr0⟩ := hs1.cons_inv
      subst hc0
      split
      · rename_i sz t heq
        obtain ⟨et, ht⟩ := reBV160_con hs hwt heq
        by_cases h7 : op = 0xf1 ∨ op = 0xf2
        · rw [if_pos h7]
          cases r0 with
          | nil =>
            have := hr0.nil_inv
            subst this
            exact Or.inl (Or.inr (Or.inl ⟨_, rfl, rfl, hunder (by rw [hc1]; simp)⟩))
          | cons fv r1 =>
            obtain ⟨v, c2, hc2, hwv, hr1⟩ := hr0.cons_inv
            subst hc2
            simp only
            generalize hfund : fundOf s fv = fund
            rcases callArgs_cases (o := o) (cfg := cfg) (codes := codes) (cs := cs) (op := op) (t := t) (fund := fund)
                hs hr1 with ⟨e, hlt⟩ | e | ⟨ao, al, ro, rl, rest, crest, hcr, hrest, e⟩
            · rw [e]
              exact Or.inl (Or.inr (Or.inl ⟨_, rfl, rfl, evm_call7_short hopc h7 hlc (by rw [hc1]; simp; omega)⟩))
            · rw [e]; exact Or.inl (Or.inl ⟨_, rfl, rfl, Or.inl ⟨_, rfl⟩⟩)
            · rw [e]
              subst hcr
              have hstep7 := evm_call7 (p := p) (w := w) hopc h7 hlc hc1
              have hmask : Evm.addrMask tgt = t := by rw [et]; rfl
              rw [hmask] at hstep7
              obtain ⟨r', er, wf, d⟩ := (toBV256_ok hs I hwv.1 hwv.2.1).ok_inj
              unfold fundOf at hfund
              rw [er] at hfund
              cases fund with
              | none =>
                have hv0 : v = 0 := by
                  cases r' with
                  | con n =>
                    cases n with
                    | zero => rw [← hwv.2.2, ← d]; rfl
                    | succ n => simp at hfund
                  | sym t' => simp at hfund
                subst hv0
                exact Or.inl (callGo_corr hs hmem hdep hcodes hS hcb hrel hcall hrest ht hstep7)
              | some fvt =>
                have hfv : fvt = asZ3 256 r' := by
                  cases r' with
                  | con n =>
                    cases n with
                    | zero => simp at hfund
                    | succ n => simpa using hfund.symm
                  | sym t' => simpa using hfund.symm
                obtain ⟨z1, z2, z3⟩ := asZ3_ok (I := I) wf
                exact Or.inr ⟨t, v, fvt, ao, al, ro, rl, rest, crest, rfl, h7, hrest, ht, by rw [hfv]; exact z1,
                  by rw [hfv]; exact z2, by rw [hfv, z3, d, hwv.2.2], hstep7⟩
        · rw [if_neg h7]
          have h6 : op = 0xf4 ∨ op = 0xfa := by
            rcases hcall with h | h | h | h
            · exact absurd (Or.inl h) h7
            · exact absurd (Or.inr h) h7
            · exact Or.inl h
            · exact Or.inr h
          rcases callArgs_cases (o := o) (cfg := cfg) (codes := codes) (cs := cs) (op := op) (t := t) (fund := none)
              hs hr0 with ⟨e, hlt⟩ | e | ⟨ao, al, ro, rl, rest, crest, hcr, hrest, e⟩
          · rw [e]
            exact Or.inl (Or.inr (Or.inl ⟨_, rfl, rfl, evm_call6_short hopc h6 hlc (by rw [hc1]; simp; omega)⟩))
          · rw [e]; exact Or.inl (Or.inl ⟨_, rfl, rfl, Or.inl ⟨_, rfl⟩⟩)
          · rw [e]
            subst hcr
            refine Or.inl (callGo_corr hs hmem hdep hcodes hS hcb hrel hcall hrest ht ?_)
            rw [et]; exact evm_call6 hopc h6 hlc hc1
      · exact Or.inl (Or.inl ⟨_, rfl, rfl, Or.inl ⟨_, rfl⟩⟩)

end

/-! ### BALANCE / SELFBALANCE -/

theorem isBalOp_iff (op : Nat) : isBalOp op = true ↔ (op = 0x31 ∨ op = 0x47) := by
  simp [isBalOp]

theorem evm_balance {p : Evm.Params} {w : Evm.World} {f : Evm.Frame} (hop : (f.code[f.pc]?).getD 0 = 0x31)
    (hl : ¬ f.stack.length > 1024) :
    Evm.step p w f = Evm.op1 w f fun a => w.balanceOf (Evm.addrMask a) := by
  unfold Evm.step; simp only [hop, hl, ↓reduceIte]

theorem evm_selfbalance {p : Evm.Params} {w : Evm.World} {f : Evm.Frame} (hop : (f.code[f.pc]?).getD 0 = 0x47)
    (hl : ¬ f.stack.length > 1024) :
    Evm.step p w f = .next w (Evm.push f (w.balanceOf f.this)) := by
  unfold Evm.step; simp only [hop, hl, ↓reduceIte]

section
variable {I : Interp} {s : Simp}

/-- `uint160(pop()).as_z3()`: a well-formed 160-bit term denoting the masked word -/
theorem reBV160_term (hs : SimpSound s) {v : HV} {n : Nat} (hw : WordRel I v n) {sz : Nat} {r : Rep}
    (h : reBV s v 160 = .bv sz r) :
    (asZ3 160 r).WF ∧ (asZ3 160 r).width = 160 ∧ (asZ3 160 r).eval I = Evm.addrMask n := by
  cases v with
  | bv size r0 =>
    obtain ⟨r', e, wf, d⟩ := (reBV_bv_ok hs I (by decide : 0 < 160) hw.1).ok_inj
    rw [h] at e
    cases e
    obtain ⟨z1, z2, z3⟩ := asZ3_ok (I := I) wf
    exact ⟨z1, z2, by rw [z3, d, hw.2.2]; rfl⟩
  | bool r0 =>
    obtain ⟨r', e, wf, d⟩ := (reBV_bool_ok hs I (by decide : 0 < 160) hw.1).ok_inj
    rw [h] at e
    cases e
    obtain ⟨z1, z2, z3⟩ := asZ3_ok (I := I) wf
    refine ⟨z1, z2, ?_⟩
    rw [z3, d, hw.2.2]
    have hlt : n < 2 ^ 160 := by
      have := denote_lt wf
      rw [d, hw.2.2] at this
      exact this
    exact (Nat.mod_eq_of_lt hlt).symm

end

section
variable {I : Interp} {p : Evm.Params} {S : Nat → Prop} {w0 : Evm.World}
variable {cs : CState} {w : Evm.World} {f : Evm.Frame} {kcs : List CCont}
variable {s : Simp} {o : Oracle} {cfg : Cfg}

/-- the running state with conditions appended to its path (and whatever happened to pc / stack / memory / return
    data, as described by `f'`) -/
theorem RelC.withConds (hs : SimpSound s) (hrel : RelC I p S w0 cs w f kcs) {conds : List B}
    (hwf : ∀ c ∈ conds, c.WF) {X : SState} (hXs : X.subst = cs.st.subst) (hXp : X.path = cs.st.path)
    (hXsto : X.storage = cs.st.storage) (hXtr : X.transient = cs.st.transient) {st' : SState}
    (hst : ∃ Y : SState, Y = conds.foldl (addCond s) X ∧ st'.subst = Y.subst ∧ st'.path = Y.path ∧
      st'.storage = Y.storage ∧ st'.transient = Y.transient)
    {f' : Evm.Frame} (hctx : f'.code = f.code ∧ f'.caller = f.caller ∧ f'.value = f.value ∧ f'.this = f.this ∧
      f'.calldata = f.calldata ∧ f'.isStatic = f.isStatic ∧ f'.depth = f.depth)
    (hpc : f'.pc = st'.pc) (hstk : StackRel I st'.stack f'.stack) (hm : MemRel I st'.mem f'.mem)
    (hrd : MemRel I st'.returndata f'.returndata) :
    RelC I p S w0 { cs with st := st' } w f' kcs := by
  obtain ⟨Y, hY, y1, y2, y3, y4⟩ := hst
  obtain ⟨c1, c2, c3, c4, c5, c6, c7⟩ := hctx
  have hR := hrel.hR
  have hsubX : SubstOk I X := hR.subst.same hXs hXp
  have hsubY : SubstOk I Y := by rw [hY]; exact addConds_substOk hs hwf hsubX
  refine ⟨⟨c1.trans hR.code, hpc, hstk, hR.env.congr c2 c3 c4 c5 c6, hsubY.same y1 y2, hm, hrd⟩, c4.trans hrel.this,
    hrel.inS, c7.trans hrel.depth, hrel.hcode, hrel.hW.congr (fun a _ => ?_), hrel.hbal, hrel.conts⟩
  have e1 : st'.storage = cs.st.storage := by rw [y3, hY, (addConds_storage s conds X).1, hXsto]
  have e2 : st'.transient = cs.st.transient := by rw [y4, hY, (addConds_storage s conds X).2, hXtr]
  simp only [viewOf, e1, e2]

/-- BALANCE / SELFBALANCE: no claim, a stack underflow, or one successor whose path is the old one with the
    conditions `balance_of` appends -/
def BalCorr (I : Interp) (p : Evm.Params) (S : Nat → Prop) (w0 : Evm.World) (s : Simp) (cs : CState) (w : Evm.World)
    (f : Evm.Frame) (kcs : List CCont) (lo : LocalOut) : Prop :=
  (∃ e, lo = { ends := [e] } ∧ e.st = cs.st ∧ ((∃ r', e.out = .stuck r') ∨ e.tag ≠ .normal)) ∨
  (∃ h, lo = localHalt cs.st h ∧ haltWith h [] = h ∧ Evm.step p w f = .halt w h) ∨
  (∃ cs' f' conds X, lo = { next := [cs'] } ∧ (∀ c ∈ conds, c.WF) ∧ X.path = cs.st.path ∧
      cs'.st.path = (conds.foldl (addCond s) X).path ∧ cs'.conts = cs.conts ∧
      RelC I p S w0 cs' w f' kcs ∧ (∀ r, RunStack p w f kcs r ↔ RunStack p w f' kcs r) ∧
      (BalBound w → ∀ c ∈ conds, c.eval I = true))

theorem balOut_corr (hs : SimpSound s) (ho : OracleSound o) (hb : BalHyp I cfg w0)
    (hrel : RelC I p S w0 cs w f kcs) (hsat : Sat I cs.st.path) {op : Nat} (hop : opAt cs.code cs.st.pc = op)
    (hbalop : op = 0x31 ∨ op = 0x47) (hl : ¬ cs.st.stack.length > 1024) :
    BalCorr I p S w0 s cs w f kcs (balOut s o cfg cs op) := by
  have hR := hrel.hR
  have hopc : (f.code[f.pc]?).getD 0 = op := hR.op_eq.trans hop
  have hlen := hR.stack.length
  have hlc : ¬ f.stack.length > 1024 := by rw [← hlen]; exact hl
  -- the common tail: the key `k` denotes the address `a`, the concrete step pushes its balance
  have go : ∀ (k : T) (rest : List HV) (crest : List Nat) (a : Nat), k.WF → k.width = 160 → k.eval I = a →
      StackRel I rest crest →
      Evm.step p w f = .next w { f with stack := w.balanceOf a % Evm.W :: crest, pc := f.pc + 1 } →
      BalCorr I p S w0 s cs w f kcs
        (match balanceOfM s o cfg cs.st.path cs.bal k with
         | none => localStuck cs.st (.unsupported op)
         | some (v, conds) =>
           { next := [{ cs with st := pushTerm s (conds.foldl (addCond s) { cs.st with stack := rest }) v }] }) := by
    intro k rest crest a hk hkw hka hrest hstep
    cases hbo : balanceOfM s o cfg cs.st.path cs.bal k with
    | none => exact Or.inl ⟨_, rfl, rfl, Or.inl ⟨_, rfl⟩⟩
    | some vc =>
      obtain ⟨v, conds⟩ := vc
      obtain ⟨v1, v2, v3, cwf, ctrue⟩ := balanceOfM_ok hs ho hb hsat hrel.hbal hk hkw hbo
      simp only
      refine Or.inr (Or.inr ⟨_, _, conds, { cs.st with stack := rest }, rfl, cwf, rfl, rfl, rfl, ?_,
        fun r => runStack_next hstep kcs r, fun hbb c hc => ?_⟩)
      · refine hrel.withConds hs cwf (X := { cs.st with stack := rest }) rfl rfl rfl rfl
          ⟨_, rfl, rfl, rfl, rfl, rfl⟩ ⟨rfl, rfl, rfl, rfl, rfl, rfl, rfl⟩ ?_ ?_ ?_ ?_
        · show f.pc + 1 = (conds.foldl (addCond s) { cs.st with stack := rest }).pc + 1
          rw [addConds_pc, hR.pc]
        · show StackRel I (mkBV s (.term v) 256 :: (conds.foldl (addCond s) { cs.st with stack := rest }).stack) _
          rw [addConds_stack]
          refine StackRel.cons (wordRel_mkBV hs v1 ?_) hrest
          rw [v3, hka, ← hrel.hW.bal a]; rfl
        · show MemRel I (conds.foldl (addCond s) { cs.st with stack := rest }).mem f.mem
          rw [addConds_mem]; exact hR.mem
        · show MemRel I (conds.foldl (addCond s) { cs.st with stack := rest }).returndata f.returndata
          rw [addConds_returndata]; exact hR.retdata
      · refine ctrue ?_ c hc
        rw [hka, ← hrel.hW.bal a]; exact hbb.le a
  unfold balOut
  simp only
  by_cases hbal : cfg.balances = true
  swap
  · have : (!cfg.balances) = true := by simpa using hbal
    rw [if_pos this]; exact Or.inl ⟨_, rfl, rfl, Or.inl ⟨_, rfl⟩⟩
  have : ¬ (!cfg.balances) = true := by simp [hbal]
  rw [if_neg this]
  by_cases h47 : op = 0x47
  · rw [if_pos h47]
    subst h47
    by_cases hw160 : cs.env.address.width ≠ 160
    · rw [if_pos hw160]; exact Or.inl ⟨_, rfl, rfl, Or.inl ⟨_, rfl⟩⟩
    rw [if_neg hw160]
    have hstep := evm_selfbalance (p := p) (w := w) hopc hlc
    rw [push_eq] at hstep
    have := go cs.env.address cs.st.stack f.stack f.this hR.env.address.1 (by omega) hR.env.address.2.2 hR.stack hstep
    simpa using this
  · rw [if_neg h47]
    have h31 : op = 0x31 := by rcases hbalop with h | h; exact h; exact absurd h h47
    subst h31
    cases hcs : cs.st.stack with
    | nil =>
      refine Or.inr (Or.inl ⟨.stackUnderflow, rfl, rfl, ?_⟩)
      have h0 : f.stack = [] := by
        have := hlen; rw [hcs] at this; exact List.eq_nil_of_length_eq_zero this.symm
      rw [evm_balance hopc hlc]; unfold Evm.op1; rw [h0]
    | cons av rest =>
      have hstk := hR.stack
      rw [hcs] at hstk
      obtain ⟨a, crest, hc0, hwa, hrest⟩ := hstk.cons_inv
      simp only
      split
      · rename_i sz r heq
        obtain ⟨k1, k2, k3⟩ := reBV160_term hs hwa heq
        have hstep : Evm.step p w f = .next w { f with
            stack := w.balanceOf (Evm.addrMask a) % Evm.W :: crest, pc := f.pc + 1 } := by
          rw [evm_balance hopc hlc]; unfold Evm.op1; rw [hc0]
        have := go (asZ3 160 r) rest crest (Evm.addrMask a) k1 k2 k3 hrest hstep
        rw [hcs] at this
        exact this
      · exact Or.inl ⟨_, rfl, rfl, Or.inl ⟨_, rfl⟩⟩

end

/-! ### LOG0..LOG4 -/

theorem isLogOp_iff (op : Nat) : isLogOp op = true ↔ IsLog op := by
  unfold isLogOp IsLog
  simp only [Bool.and_eq_true, decide_eq_true_eq]
  omega

/-- one more event in the world's log and in the model's -/
theorem WRelM.log {I : Interp} {S : Nat → Prop} {w0 w : Evm.World} {v : Nat → AcctSto}
    {lg : List (Nat × List Nat × List Nat)} {bs : Nat → Nat} (h : WRelM I S w0 w v lg bs)
    (x : Nat × List Nat × List Nat) :
    WRelM I S w0 { w with logs := w.logs ++ [x] } v (lg ++ [x]) bs :=
  ⟨h.hsto, h.htr, h.wf, h.other, h.code, h.created,
   by show w.logs ++ [x] = w0.logs ++ (lg ++ [x]); rw [h.logs, List.append_assoc], h.bal⟩

section
variable {I : Interp} {p : Evm.Params} {S : Nat → Prop} {w0 : Evm.World}
variable {cs : CState} {w : Evm.World} {f : Evm.Frame} {kcs : List CCont}
variable {s : Simp} {cfg : Cfg}

/-- **LOG.** -/
theorem logOut_corr (hs : SimpSound s) (hmem : cfg.maxMem + 32 ≤ p.memLimit)
    (hrel : RelC I p S w0 cs w f kcs) {op : Nat} (hop : opAt cs.code cs.st.pc = op) (hlog : IsLog op)
    (hl : ¬ cs.st.stack.length > 1024) :
    CallCorr I p S w0 cs w f kcs (logOut s cfg cs op) := by
  have hR := hrel.hR
  have hopc : (f.code[f.pc]?).getD 0 = op := hR.op_eq.trans hop
  have hlen := hR.stack.length
  have hlc : ¬ f.stack.length > 1024 := by rw [← hlen]; exact hl
  have hstk := hR.stack
  unfold logOut
  simp only
  by_cases hst : cs.env.isStatic = true
  · rw [if_pos hst]
    by_cases hshort : cs.st.stack.length < op - 0xa0 + 2
    · rw [if_pos hshort]
      exact Or.inl ⟨_, rfl, rfl, Or.inr (fun h => Tag.noConfusion h)⟩
    · rw [if_neg hshort]
      refine Or.inr (Or.inl ⟨.writeInStatic, rfl, rfl, ?_⟩)
      rw [hlen] at hshort
      match hfs : f.stack, hshort with
      | [], h0 => simp at h0
      | [_], h0 => simp at h0
      | off :: len :: s', h0 =>
        simp only [List.length_cons] at h0
        exact evm_log_static hopc hlog hlc hfs (by omega) (by rw [← hR.env.isStatic]; exact hst)
  · rw [if_neg hst]
    have hns : f.isStatic = false := by
      rw [← hR.env.isStatic]; simpa using hst
    cases hcs : cs.st.stack with
    | nil =>
      refine Or.inr (Or.inl ⟨.stackUnderflow, rfl, rfl, evm_log_short hopc hlog hlc ?_⟩)
      rw [← hlen, hcs]; simp
    | cons lv r1 =>
      rw [hcs] at hstk
      obtain ⟨off, c1, hc1, hwo, hr1⟩ := hstk.cons_inv
      simp only
      split
      · rename_i sz1 loc heq1
        have e1 := toBV256_con hs hwo heq1
        subst e1
        cases r1 with
        | nil =>
          have := hr1.nil_inv
          subst this
          refine Or.inr (Or.inl ⟨.stackUnderflow, rfl, rfl, evm_log_short hopc hlog hlc ?_⟩)
          rw [hc1]; simp
        | cons zv r2 =>
          obtain ⟨len, c2, hc2, hwl, hr2⟩ := hr1.cons_inv
          subst hc2
          simp only
          split
          · rename_i sz2 size heq2
            have e2 := toBV256_con hs hwl heq2
            subst e2
            by_cases hn : r2.length < op - 0xa0
            · rw [if_pos hn]
              refine Or.inr (Or.inl ⟨.stackUnderflow, rfl, rfl, evm_log_short hopc hlog hlc ?_⟩)
              rw [hc1]; simp only [List.length_cons]; rw [← hr2.length]; omega
            rw [if_neg hn]
            by_cases hm : size ≠ 0 ∧ loc + size > cfg.maxMem
            · rw [if_pos hm]
              exact Or.inl ⟨_, rfl, rfl, Or.inr (fun h => Tag.noConfusion h)⟩
            rw [if_neg hm]
            have hok : size = 0 ∨ loc + size ≤ p.memLimit := by
              by_cases h0 : size = 0
              · exact Or.inl h0
              · right; have : ¬ loc + size > cfg.maxMem := fun h => hm ⟨h0, h⟩
                omega
            have hstep := evm_log_ok (p := p) (w := w) hopc hlog hlc hc1 (by rw [← hr2.length]; exact hn) hns hok
            refine Or.inr (Or.inr ⟨_, _, _, kcs, rfl, rfl, ?_, fun r => runStack_next hstep kcs r,
              fun hbb => ⟨hbb.1.congr (fun a => rfl), hbb.2⟩⟩)
            refine ⟨?_, ?_, hrel.inS, ?_, hrel.hcode, ?_, hrel.hbal, hrel.conts⟩
            · exact hR.next' ⟨touch_code .., touch_caller .., touch_value .., touch_this .., touch_calldata ..,
                touch_isStatic .., touch_returndata ..⟩ rfl rfl rfl (touch_mem ..) rfl (by show f.pc + 1 = _; rw [hR.pc])
                (hr2.drop _)
            · show (f.touch loc size).this = cs.this
              rw [touch_this]; exact hrel.this
            · show (f.touch loc size).depth = cs.depth
              rw [touch_depth]; exact hrel.depth
            · have hx : evalLog I ⟨cs.env.address, r2.take (op - 0xa0), readMem cs.st.mem loc size⟩ =
                  (f.this, c2.take (op - 0xa0), Evm.readBytes f.mem loc size) := by
                simp only [evalLog]
                rw [hR.env.address.2.2, (hr2.take _).denote_map, (readMem_rel hR.mem loc size).2]
              have := (hrel.hW.log (f.this, c2.take (op - 0xa0), Evm.readBytes f.mem loc size))
              simp only [evalLogs, List.map_append, List.map_cons, List.map_nil]
              rw [hx]
              exact this.congr (fun a _ => rfl)
          · exact Or.inl ⟨_, rfl, rfl, Or.inl ⟨_, rfl⟩⟩
      · exact Or.inl ⟨_, rfl, rfl, Or.inl ⟨_, rfl⟩⟩

end

/-! ### EXTCODESIZE / EXTCODECOPY -/

theorem isExtOp_iff (op : Nat) : isExtOp op = true ↔ (op = 0x3b ∨ op = 0x3c) := by
  simp [isExtOp]

/-- literal bytes against themselves -/
theorem bytes_lit_rel {I : Interp} {prog : List Nat} (hb : ∀ b ∈ prog, b < 256) (off size : Nat) :
    MemRel I ((List.range size).map fun i => T.lit 8 ((prog[off + i]?).getD 0)) (Evm.readBytes prog off size) := by
  refine ⟨?_, ?_⟩
  · intro b hb'
    simp only [List.mem_map] at hb'
    obtain ⟨i, _, rfl⟩ := hb'
    exact ⟨(by decide : 0 < 8), rfl⟩
  · simp only [Evm.readBytes, List.map_map]
    apply List.map_congr_left
    intro i _
    simp only [Function.comp, T.eval]
    have : (prog[off + i]?).getD 0 < 256 := by
      cases hg : prog[off + i]? with
      | none => simp
      | some b => simp only [Option.getD_some]; exact hb b (List.mem_of_getElem? hg)
    exact Nat.mod_eq_of_lt (by simpa using this)

theorem zero_bytes_rel {I : Interp} (off size : Nat) :
    MemRel I ((List.range size).map fun _ => T.lit 8 0) (Evm.readBytes [] off size) := by
  have := bytes_lit_rel (I := I) (prog := []) (fun b hb => absurd hb List.not_mem_nil) off size
  simpa using this

section
variable (I : Interp) (p : Evm.Params) (S : Nat → Prop) (w0 : Evm.World)
variable (cs : CState) (w : Evm.World) (f : Evm.Frame) (kcs : List CCont) (s : Simp) (o : Oracle) (cfg : Cfg)

/-- EXTCODESIZE / EXTCODECOPY: as `CallCorr`, or the copy tail shared with CALLDATACOPY / CODECOPY -/
def ExtCorr (lo : LocalOut) : Prop :=
  CallCorr I p S w0 cs w f kcs lo ∨
  ∃ out, lo = liftOut cs out ∧ Corr I cs.env cs.code p w s o cfg cs.st f out ∧ Shape s o cfg cs.code cs.st out

end

section
variable {I : Interp} {p : Evm.Params} {S : Nat → Prop} {w0 : Evm.World}
variable {cs : CState} {w : Evm.World} {f : Evm.Frame} {kcs : List CCont}
variable {s : Simp} {o : Oracle} {cfg : Cfg} {codes : List (Nat × List Nat)}

theorem extOut_corr (hs : SimpSound s) (hmem : cfg.maxMem + 32 ≤ p.memLimit)
    (hcodes : ∀ a, w0.codeOf a = codeOf codes a)
    (hcb : ∀ a prog, codeOf codes a = some prog → ∀ b ∈ prog, b < 256)
    (hrel : RelC I p S w0 cs w f kcs) (hsat : Sat I cs.st.path) {op : Nat} (hop : opAt cs.code cs.st.pc = op)
    (hext : op = 0x3b ∨ op = 0x3c) (hl : ¬ cs.st.stack.length > 1024) :
    ExtCorr I p S w0 cs w f kcs s o cfg (extOut s cfg codes cs op) := by
  have hR := hrel.hR
  have hopc : (f.code[f.pc]?).getD 0 = op := hR.op_eq.trans hop
  have hlen := hR.stack.length
  have hlc : ¬ f.stack.length > 1024 := by rw [← hlen]; exact hl
  have hstk := hR.stack
  have hwcode : ∀ t, w.codeOf t = codeOf codes t := by
    intro t
    have := hcodes t
    unfold Evm.World.codeOf at this ⊢
    rw [hrel.hW.code]; exact this
  unfold extOut
  simp only
  cases hcs : cs.st.stack with
  | nil =>
    refine Or.inl (Or.inr (Or.inl ⟨.stackUnderflow, rfl, rfl, ?_⟩))
    have h0 : f.stack = [] := by
      have := hlen; rw [hcs] at this; exact List.eq_nil_of_length_eq_zero this.symm
    rcases hext with rfl | rfl
    · rw [evm_extcodesize hopc hlc]; unfold Evm.op1; rw [h0]
    · exact evm_extcodecopy_short hopc hlc (by rw [h0]; simp)
  | cons av r0 =>
    rw [hcs] at hstk
    obtain ⟨a, c0, hc0, hwa, hr0⟩ := hstk.cons_inv
    simp only
    split
    · rename_i sz t heq
      obtain ⟨et, ht⟩ := reBV160_con hs hwa heq
      by_cases hch : (t == hevmAddr || t == svmAddr) = true
      · rw [if_pos hch]; exact Or.inl (Or.inl ⟨_, rfl, rfl, Or.inl ⟨_, rfl⟩⟩)
      rw [if_neg hch]
      by_cases h3b : op = 0x3b
      · rw [if_pos h3b]
        subst h3b
        have hstep : Evm.step p w f = .next w { f with
            stack := ((w.codeOf (Evm.addrMask a)).getD []).length % Evm.W :: c0, pc := f.pc + 1 } := by
          rw [evm_extcodesize hopc hlc]; unfold Evm.op1; rw [hc0]
        refine Or.inl (Or.inr (Or.inr ⟨_, w, _, kcs, rfl, rfl, ?_, fun r => runStack_next hstep kcs r,
          fun hbb => hbb⟩))
        refine hrel.step (CReach.single hstep) ?_ hrel.wrel
        refine hR.next' ⟨rfl, rfl, rfl, rfl, rfl, rfl, rfl⟩ rfl rfl rfl rfl rfl (by show f.pc + 1 = _; rw [hR.pc]) ?_
        refine StackRel.cons ?_ hr0
        have : Evm.addrMask a = t := by rw [et]; rfl
        rw [this, hwcode t]
        exact wordRel_con (Nat.mod_lt _ (by decide))
      rw [if_neg h3b]
      have h3c : op = 0x3c := by rcases hext with h | h; exact absurd h h3b; exact h
      subst h3c
      have hshort : f.stack.length < 4 → Evm.step p w f = .halt w .stackUnderflow :=
        evm_extcodecopy_short hopc hlc
      cases r0 with
      | nil =>
        have := hr0.nil_inv; subst this
        exact Or.inl (Or.inr (Or.inl ⟨.stackUnderflow, rfl, rfl, hshort (by rw [hc0]; simp)⟩))
      | cons lv r1 =>
        obtain ⟨loc', c1, hc1, hwl, hr1⟩ := hr0.cons_inv
        subst hc1
        simp only
        split
        · rename_i sz1 loc heq1
          have e1 := toBV256_con hs hwl heq1
          subst e1
          cases r1 with
          | nil =>
            have := hr1.nil_inv; subst this
            exact Or.inl (Or.inr (Or.inl ⟨.stackUnderflow, rfl, rfl, hshort (by rw [hc0]; simp)⟩))
          | cons ov r2 =>
            obtain ⟨off', c2, hc2, hwo, hr2⟩ := hr1.cons_inv
            subst hc2
            simp only
            split
            · rename_i sz2 off heq2
              have e2 := toBV256_con hs hwo heq2
              subst e2
              cases r2 with
              | nil =>
                have := hr2.nil_inv; subst this
                exact Or.inl (Or.inr (Or.inl ⟨.stackUnderflow, rfl, rfl, hshort (by rw [hc0]; simp)⟩))
              | cons sv rest =>
                obtain ⟨size', crest, hc3, hwz, hrest⟩ := hr2.cons_inv
                subst hc3
                simp only
                split
                · rename_i sz3 size heq3
                  have e3 := toBV256_con hs hwz heq3
                  subst e3
                  have hmask : Evm.addrMask a = t := by rw [et]; rfl
                  have hcstep := fun hok => evm_extcodecopy (p := p) (w := w) hopc hlc hc0 hok
                  rw [hmask, hwcode t] at hcstep
                  cases hc : codeOf codes t with
                  | some prog =>
                    simp only
                    rw [hc] at hcstep
                    exact Or.inr ⟨_, rfl, corr_copyToMem hR hsat hmem hrest (bytes_lit_rel (hcb t prog hc) off size)
                      hcstep, Shape.copy⟩
                  | none =>
                    simp only
                    rw [hc] at hcstep
                    exact Or.inr ⟨_, rfl, corr_copyToMem hR hsat hmem hrest (zero_bytes_rel off size) hcstep,
                      Shape.copy⟩
                · exact Or.inl (Or.inl ⟨_, rfl, rfl, Or.inl ⟨_, rfl⟩⟩)
            · exact Or.inl (Or.inl ⟨_, rfl, rfl, Or.inl ⟨_, rfl⟩⟩)
        · exact Or.inl (Or.inl ⟨_, rfl, rfl, Or.inl ⟨_, rfl⟩⟩)
    · exact Or.inl (Or.inl ⟨_, rfl, rfl, Or.inl ⟨_, rfl⟩⟩)

end

/-! ### the shape of a call, relation-free -/

/-- a call instruction ends the path in the state it was made in, or has one successor with the same path — the same
    frame one instruction later, or a callee on top of the suspended caller -/
def CallShape (cs : CState) (lo : LocalOut) : Prop :=
  (∃ e, lo = { ends := [e] } ∧ e.st = cs.st) ∨
  (∃ cs', lo = { next := [cs'] } ∧ cs'.st.path = cs.st.path ∧ (cs'.conts = cs.conts ∨ ∃ k, cs'.conts = k :: cs.conts))

section
variable {s : Simp} {cfg : Cfg} {codes : List (Nat × List Nat)} {cs : CState} {op t : Nat} {fund : Option T} {o : Oracle}

macro "call_leaf" : tactic =>
  `(tactic| first | exact Or.inl ⟨_, rfl, rfl⟩ | exact Or.inr ⟨_, rfl, rfl, Or.inl rfl⟩
                  | exact Or.inr ⟨_, rfl, rfl, Or.inr ⟨_, rfl⟩⟩)

theorem callGo_shape {ao al ro rl : Nat} {rest : List HV} :
    CallShape cs (callGo s o cfg codes cs op t fund ao al ro rl rest) := by
  unfold callGo
  simp only
  (repeat' split) <;> call_leaf

theorem callArgs_shape {r : List HV} : CallShape cs (callArgs s o cfg codes cs op t fund r) := by
  unfold callArgs
  simp only
  (repeat' split) <;> first | call_leaf | exact callGo_shape

theorem callOut_shape : CallShape cs (callOut s o cfg codes cs op) := by
  unfold callOut
  simp only
  (repeat' split) <;> first | call_leaf | exact callArgs_shape

end

/-- a LOG, relation-free -/
theorem logOut_shape {s : Simp} {cfg : Cfg} {cs : CState} {op : Nat} : CallShape cs (logOut s cfg cs op) := by
  unfold logOut
  simp only
  (repeat' split) <;> call_leaf

/-- EXTCODESIZE / EXTCODECOPY, relation-free: as a call, or the copy tail -/
def ExtShape (s : Simp) (o : Oracle) (cfg : Cfg) (cs : CState) (lo : LocalOut) : Prop :=
  CallShape cs lo ∨ ∃ out, lo = liftOut cs out ∧ Shape s o cfg cs.code cs.st out

theorem extOut_shape {s : Simp} {o : Oracle} {cfg : Cfg} {codes : List (Nat × List Nat)} {cs : CState} {op : Nat} :
    ExtShape s o cfg cs (extOut s cfg codes cs op) := by
  unfold extOut
  simp only
  (repeat' split) <;>
    first
      | exact Or.inl (Or.inl ⟨_, rfl, rfl⟩)
      | exact Or.inl (Or.inr ⟨_, rfl, rfl, Or.inl rfl⟩)
      | exact Or.inr ⟨_, rfl, Shape.copy⟩

/-! ### one step of the frame-stack machine -/

theorem isCallOp_iff (op : Nat) : isCallOp op = true ↔ (op = 0xf1 ∨ op = 0xf2 ∨ op = 0xf4 ∨ op = 0xfa) := by
  simp [isCallOp, or_assoc]

section
variable {s : Simp} {o : Oracle} {cfg : Cfg} {codes : List (Nat × List Nat)} {cs : CState}

/-- `stepC` is `finish` of an instruction it decodes itself, or of the per-frame step (with its stack limit) -/
theorem stepC_eq :
    stepC s o cfg codes cs =
      if ¬ cs.st.stack.length > 1024 ∧ isCallOp (opAt cs.code cs.st.pc) = true then
        finish cs (callOut s o cfg codes cs (opAt cs.code cs.st.pc))
      else if ¬ cs.st.stack.length > 1024 ∧ isLogOp (opAt cs.code cs.st.pc) = true then
        finish cs (logOut s cfg cs (opAt cs.code cs.st.pc))
      else if ¬ cs.st.stack.length > 1024 ∧ isExtOp (opAt cs.code cs.st.pc) = true then
        finish cs (extOut s cfg codes cs (opAt cs.code cs.st.pc))
      else finish cs (liftOut cs (stepL s o cfg cs.env cs.code cs.st)) := by
  unfold stepC stepL
  simp only
  by_cases hl : cs.st.stack.length > 1024
  · simp only [hl, if_true, not_true_eq_false, false_and, if_false]; rfl
  · simp only [hl, if_false, not_false_eq_true, true_and]

theorem mem_liftOut_next {out : StepOut} {cs' : CState} (h : cs' ∈ (liftOut cs out).next) :
    ∃ st' ∈ out.next, cs' = { cs with st := st' } := by
  obtain ⟨st', hm, rfl⟩ := List.mem_map.1 h
  exact ⟨st', hm, rfl⟩

/-- the path facts of `finish cs lo` from those of `lo` -/
theorem finish_paths {lo : LocalOut} (hn : ∀ cs' ∈ lo.next, ∃ ext, cs'.st.path = cs.st.path ++ ext)
    (he : ∀ e ∈ lo.ends, e.st.path = cs.st.path) :
    (∀ cs' ∈ (finish cs lo).next, ∃ ext, cs'.st.path = cs.st.path ++ ext) ∧
    (∀ ce ∈ (finish cs lo).ends, ce.e.st.path = cs.st.path) := by
  refine ⟨fun cs' h => ?_, fun ce h => ?_⟩
  · rcases mem_finish_next h with hm | ⟨e', he', k, ks, h', _, _, _, rfl⟩
    · exact hn cs' hm
    · exact ⟨[], by simp [resume, he e' he']⟩
  · obtain ⟨e, hm, rfl, _⟩ := mem_finish_ends h
    exact he e hm

theorem callShape_paths {lo : LocalOut} (h : CallShape cs lo) :
    (∀ cs' ∈ lo.next, ∃ ext, cs'.st.path = cs.st.path ++ ext) ∧ (∀ e ∈ lo.ends, e.st.path = cs.st.path) := by
  rcases h with ⟨e, rfl, he⟩ | ⟨cs1, rfl, hp, _⟩
  · refine ⟨fun cs' hm => by simp at hm, fun e' hm => ?_⟩
    simp only [List.mem_singleton] at hm
    subst hm; rw [he]
  · refine ⟨fun cs' hm => ?_, fun e' hm => by simp at hm⟩
    simp only [List.mem_singleton] at hm
    subst hm; exact ⟨[], by simp [hp]⟩

theorem liftShape_paths {out : StepOut} (h : Shape s o cfg cs.code cs.st out) :
    (∀ cs' ∈ (liftOut cs out).next, ∃ ext, cs'.st.path = cs.st.path ++ ext) ∧
    (∀ e ∈ (liftOut cs out).ends, e.st.path = cs.st.path) := by
  refine ⟨fun cs' hm => ?_, fun e hm => (shape_end_keeps h hm).1⟩
  obtain ⟨st', hm', rfl⟩ := mem_liftOut_next hm
  exact shape_next_path h hm'

theorem stepC_paths :
    (∀ cs' ∈ (stepC s o cfg codes cs).next, ∃ ext, cs'.st.path = cs.st.path ++ ext) ∧
    (∀ ce ∈ (stepC s o cfg codes cs).ends, ce.e.st.path = cs.st.path) := by
  rw [stepC_eq]
  split
  · exact finish_paths (callShape_paths callOut_shape).1 (callShape_paths callOut_shape).2
  · split
    · exact finish_paths (callShape_paths logOut_shape).1 (callShape_paths logOut_shape).2
    · split
      · rcases extOut_shape (s := s) (o := o) (cfg := cfg) (codes := codes) (cs := cs)
          (op := opAt cs.code cs.st.pc) with h | ⟨out, e, h⟩
        · exact finish_paths (callShape_paths h).1 (callShape_paths h).2
        · rw [e]; exact finish_paths (liftShape_paths h).1 (liftShape_paths h).2
      · refine finish_paths (fun cs' hm => ?_) (fun e hm => stepL_end_path hm)
        obtain ⟨st', hm', rfl⟩ := mem_liftOut_next hm
        exact stepL_next_path hm'

/-- the stack discipline of the suspended callers: a step keeps them, pushes one (a call) or pops one (a return);
    it never touches a suspended caller — in particular not its snapshot -/
theorem stepC_conts {cs' : CState} (h : cs' ∈ (stepC s o cfg codes cs).next) :
    cs'.conts = cs.conts ∨ (∃ k, cs'.conts = k :: cs.conts) ∨ (∃ k, cs.conts = k :: cs'.conts) := by
  have hfin : ∀ lo : LocalOut, (∀ c ∈ lo.next, c.conts = cs.conts ∨ ∃ k, c.conts = k :: cs.conts) →
      cs' ∈ (finish cs lo).next →
      cs'.conts = cs.conts ∨ (∃ k, cs'.conts = k :: cs.conts) ∨ (∃ k, cs.conts = k :: cs'.conts) := by
    intro lo hn hm
    rcases mem_finish_next hm with hm | ⟨e', _, k, ks, h', hc, _, _, rfl⟩
    · rcases hn cs' hm with h1 | h1
      · exact Or.inl h1
      · exact Or.inr (Or.inl h1)
    · exact Or.inr (Or.inr ⟨k, by rw [hc]; rfl⟩)
  have hcall : ∀ lo : LocalOut, CallShape cs lo → ∀ c ∈ lo.next, c.conts = cs.conts ∨ ∃ k, c.conts = k :: cs.conts := by
    intro lo hsh c hm
    rcases hsh with ⟨e, rfl, _⟩ | ⟨cs1, rfl, _, hk⟩
    · simp at hm
    · simp only [List.mem_singleton] at hm
      subst hm; exact hk
  have hlift : ∀ out : StepOut, ∀ c ∈ (liftOut cs out).next, c.conts = cs.conts ∨ ∃ k, c.conts = k :: cs.conts := by
    intro out c hm
    obtain ⟨st', _, rfl⟩ := mem_liftOut_next hm
    exact Or.inl rfl
  rw [stepC_eq] at h
  split at h
  · exact hfin _ (hcall _ callOut_shape) h
  · split at h
    · exact hfin _ (hcall _ logOut_shape) h
    · split at h
      · rcases extOut_shape (s := s) (o := o) (cfg := cfg) (codes := codes) (cs := cs)
          (op := opAt cs.code cs.st.pc) with hsh | ⟨out, e, _⟩
        · exact hfin _ (hcall _ hsh) h
        · rw [e] at h; exact hfin _ (hlift out) h
      · exact hfin _ (hlift _) h

theorem stepC_next_path {cs' : CState} (h : cs' ∈ (stepC s o cfg codes cs).next) :
    ∃ ext, cs'.st.path = cs.st.path ++ ext := stepC_paths.1 cs' h

theorem stepC_end_path {ce : CEnd} (h : ce ∈ (stepC s o cfg codes cs).ends) : ce.e.st.path = cs.st.path :=
  stepC_paths.2 ce h

end

section
variable {I : Interp} {p : Evm.Params} {S : Nat → Prop} {w0 : Evm.World}
variable {cs : CState} {w : Evm.World} {f : Evm.Frame} {kcs : List CCont}
variable {s : Simp} {o : Oracle} {cfg : Cfg} {codes : List (Nat × List Nat)}

theorem CallCorr.sound {lo : LocalOut} (h : CallCorr I p S w0 cs w f kcs lo) :
    LocalSound I p S w0 cs w f kcs lo := by
  rcases h with ⟨e, rfl, he, hnc⟩ | ⟨h0, rfl, hh0, hstep⟩ | ⟨cs', w', f', kcs', rfl, hp, hrel', hiff⟩
  · refine ⟨fun cs' hm => by simp at hm, fun e' hm => ?_⟩
    simp only [List.mem_singleton] at hm
    subst hm
    refine ⟨by rw [he]; exact ⟨rfl, rfl, rfl, rfl⟩, fun ht h ho => ?_⟩
    rcases hnc with ⟨r', hr'⟩ | hn
    · rw [hr'] at ho; cases ho
    · exact absurd ht hn
  · refine ⟨fun cs' hm => by simp [localHalt] at hm, fun e' hm => ?_⟩
    simp only [localHalt, List.mem_singleton] at hm
    subst hm
    refine ⟨⟨rfl, rfl, rfl, rfl⟩, fun _ h ho => ?_⟩
    simp only [Out.halt.injEq] at ho
    subst ho
    simp only [List.map_nil, hh0]
    exact ⟨hstep, fun b hb => absurd hb List.not_mem_nil⟩
  · refine ⟨fun cs1 hm _ => ?_, fun e' hm => by simp at hm⟩
    simp only [List.mem_singleton] at hm
    subst hm
    exact ⟨w', f', kcs', hrel', fun r hr => (hiff r).2 hr⟩

theorem CallCorr.complete {lo : LocalOut} (h : CallCorr I p S w0 cs w f kcs lo)
    (hrel : RelC I p S w0 cs w f kcs) (hsat : Sat I cs.st.path) {r : Evm.World × Evm.Halt}
    (hrun : RunStack p w f kcs r) : LocalComplete I p S w0 cs w f r lo := by
  rcases h with ⟨e, rfl, he, hnc⟩ | ⟨h0, rfl, hh0, hstep⟩ | ⟨cs', w', f', kcs', rfl, hp, hrel', hiff⟩
  · exact Or.inr (Or.inl ⟨e, by simp, by rw [he]; exact ⟨rfl, rfl, rfl, rfl⟩, Or.inr hnc⟩)
  · refine Or.inr (Or.inl ⟨{ st := cs.st, out := .halt h0 }, by simp [localHalt], ⟨rfl, rfl, rfl, rfl⟩,
      Or.inl ⟨h0, (w, h0), rfl, rfl, (halts_halt hstep).2 rfl, by simp only [List.map_nil, hh0],
        fun b hb => absurd hb List.not_mem_nil, wrelM_fullOf_keeps hrel ⟨rfl, rfl, rfl, rfl⟩⟩⟩)
  · exact Or.inl ⟨cs', by simp, by rw [hp]; exact hsat, w', f', kcs', hrel', (hiff r).1 hrun⟩

theorem ExtCorr.sound (hs : SimpSound s) (hrel : RelC I p S w0 cs w f kcs) {lo : LocalOut}
    (h : ExtCorr I p S w0 cs w f kcs s o cfg lo) : LocalSound I p S w0 cs w f kcs lo := by
  rcases h with h | ⟨out, rfl, hc, hsh⟩
  · exact h.sound
  · exact local_corr_sound hs hrel hc hsh

theorem ExtCorr.complete (hs : SimpSound s) (ho : OracleSound o) (hrel : RelC I p S w0 cs w f kcs)
    (hsat : Sat I cs.st.path) {r : Evm.World × Evm.Halt} (hrun : RunStack p w f kcs r) {lo : LocalOut}
    (h : ExtCorr I p S w0 cs w f kcs s o cfg lo) : LocalComplete I p S w0 cs w f r lo := by
  rcases h with h | ⟨out, rfl, hc, hsh⟩
  · exact h.complete hrel hsat hrun
  · exact local_corr_complete hs ho hrel hsat hrun hc hsh

/-- **stepC_sound.** -/
theorem stepC_sound (hs : SimpSound s) (hI : I.Std) (hmem : cfg.maxMem + 32 ≤ p.memLimit)
    (hdep : 1024 ≤ p.maxDepth) (hcodes : ∀ a, w0.codeOf a = codeOf codes a)
    (hS : ∀ a prog, codeOf codes a = some prog → S a)
    (hcb : ∀ a prog, codeOf codes a = some prog → ∀ b ∈ prog, b < 256)
    (hrel : RelC I p S w0 cs w f kcs) (hsat : Sat I cs.st.path) :
    (∀ cs' ∈ (stepC s o cfg codes cs).next, Sat I cs'.st.path → ∃ w' f' kcs', RelC I p S w0 cs' w' f' kcs' ∧
        ∀ r, RunStack p w' f' kcs' r → RunStack p w f kcs r) ∧
    (∀ ce ∈ (stepC s o cfg codes cs).ends, ce.e.tag = .normal → ∀ h, ce.e.out = .halt h →
        ∃ w', RunStack p w f kcs (w', haltWith h (ce.e.data.map (·.eval I))) ∧
          WRelM I S w0 w' (stoOf ce.stores) (evalLogs I ce.logs)) := by
  rw [stepC_eq]
  split
  · rename_i hc
    exact finish_sound hrel hsat
      (callOut_corr hs hmem hdep hcodes hS hcb hrel rfl ((isCallOp_iff _).1 hc.2) hc.1).sound
  · split
    · rename_i hc
      exact finish_sound hrel hsat (logOut_corr hs hmem hrel rfl ((isLogOp_iff _).1 hc.2) hc.1).sound
    · split
      · rename_i hc
        exact finish_sound hrel hsat
          ((extOut_corr (o := o) hs hmem hcodes hcb hrel hsat rfl ((isExtOp_iff _).1 hc.2) hc.1).sound hs hrel)
      · exact finish_sound hrel hsat (local_step_sound hs hI hmem hrel hsat)

/-- **stepC_complete.** -/
theorem stepC_complete (hs : SimpSound s) (ho : OracleSound o) (hI : I.Std) (hmem : cfg.maxMem + 32 ≤ p.memLimit)
    (hdep : 1024 ≤ p.maxDepth) (hcodes : ∀ a, w0.codeOf a = codeOf codes a)
    (hS : ∀ a prog, codeOf codes a = some prog → S a)
    (hcb : ∀ a prog, codeOf codes a = some prog → ∀ b ∈ prog, b < 256)
    (hrel : RelC I p S w0 cs w f kcs) (hsat : Sat I cs.st.path) {r : Evm.World × Evm.Halt}
    (hrun : RunStack p w f kcs r) :
    (∃ cs' ∈ (stepC s o cfg codes cs).next, Sat I cs'.st.path ∧ ∃ w' f' kcs', RelC I p S w0 cs' w' f' kcs' ∧
        RunStack p w' f' kcs' r) ∨
    (∃ ce ∈ (stepC s o cfg codes cs).ends, EndCoversC I S w0 r ce) ∨
    (stepC s o cfg codes cs).bounded ≠ [] := by
  rw [stepC_eq]
  split
  · rename_i hc
    exact finish_complete hrel hsat hrun
      ((callOut_corr hs hmem hdep hcodes hS hcb hrel rfl ((isCallOp_iff _).1 hc.2) hc.1).complete hrel hsat hrun)
  · split
    · rename_i hc
      exact finish_complete hrel hsat hrun
        ((logOut_corr hs hmem hrel rfl ((isLogOp_iff _).1 hc.2) hc.1).complete hrel hsat hrun)
    · split
      · rename_i hc
        exact finish_complete hrel hsat hrun
          ((extOut_corr (o := o) hs hmem hcodes hcb hrel hsat rfl ((isExtOp_iff _).1 hc.2) hc.1).complete hs ho hrel
            hsat hrun)
      · exact finish_complete hrel hsat hrun (local_step_complete hs ho hI hmem hrel hsat hrun)

end

end HalmosVerif.Lemmas.Sevm
