/-
Lemmas.SevmCallStep — the call instructions of the frame-stack machine (`callOut`) against CALL / CALLCODE /
DELEGATECALL / STATICCALL of the reference EVM, and with it one whole step of the frame-stack machine (`stepC`) in both
directions.
-/
import HalmosVerif.Lemmas.SevmCallRel
import HalmosVerif.Lemmas.SevmCallHsto
import HalmosVerif.Lemmas.SevmCallBal

set_option linter.unusedSectionVars false
set_option linter.unusedSimpArgs false
set_option linter.unusedVariables false
set_option maxRecDepth 2000

namespace HalmosVerif.Lemmas.Sevm
open HalmosVerif.Model HalmosVerif.Model.Sevm HalmosVerif.Spec HalmosVerif.Lemmas.Word

/-! ### the operands of a call -/

section
variable {I : Interp} {s : Simp} {cfg : Cfg} {codes : List (Nat × List Nat)} {cs : CState} {op t : Nat}
variable {fund : Option T} {o : Oracle}

theorem callArgs_cases (hs : SimpSound s) {r : List HV} {cr : List Nat} (hr : StackRel I r cr) :
    (callArgs s o cfg codes cs op t fund r = localHalt cs.st .stackUnderflow ∧ cr.length < 4) ∨
    (callArgs s o cfg codes cs op t fund r = localStuck cs.st .notConcrete) ∨
    (∃ ao al ro rl rest crest, cr = ao :: al :: ro :: rl :: crest ∧ StackRel I rest crest ∧
      callArgs s o cfg codes cs op t fund r = callGo s o cfg codes cs op t fund ao al ro rl rest) := by
  cases r with
  | nil => left; rw [hr.nil_inv]; exact ⟨rfl, by simp⟩
  | cons alv r1 =>
    obtain ⟨ao, cr1, rfl, hwa, hr1⟩ := hr.cons_inv
    unfold callArgs
    simp only
    split
    · rename_i sz1 aloc heq1
      have e1 := toBV256_con hs hwa heq1
      subst e1
      cases r1 with
      | nil => left; rw [hr1.nil_inv]; exact ⟨rfl, by simp⟩
      | cons asv r2 =>
        obtain ⟨al, cr2, rfl, hwb, hr2⟩ := hr1.cons_inv
        simp only
        split
        · rename_i sz2 asize heq2
          have e2 := toBV256_con hs hwb heq2
          subst e2
          cases r2 with
          | nil => left; rw [hr2.nil_inv]; exact ⟨rfl, by simp⟩
          | cons rlv r3 =>
            obtain ⟨ro, cr3, rfl, hwc, hr3⟩ := hr2.cons_inv
            simp only
            split
            · rename_i sz3 rloc heq3
              have e3 := toBV256_con hs hwc heq3
              subst e3
              cases r3 with
              | nil => left; rw [hr3.nil_inv]; exact ⟨rfl, by simp⟩
              | cons rsv rest =>
                obtain ⟨rl, crest, rfl, hwd, hrest⟩ := hr3.cons_inv
                simp only
                split
                · rename_i sz4 rsize heq4
                  have e4 := toBV256_con hs hwd heq4
                  subst e4
                  exact Or.inr (Or.inr ⟨_, _, _, _, rest, crest, rfl, hrest, rfl⟩)
                · exact Or.inr (Or.inl rfl)
            · exact Or.inr (Or.inl rfl)
        · exact Or.inr (Or.inl rfl)
    · exact Or.inr (Or.inl rfl)

end

/-! ### the call itself -/

theorem touch_stack (f : Evm.Frame) (off n : Nat) : (f.touch off n).stack = f.stack := by
  unfold Evm.Frame.touch; split <;> rfl

theorem view_eta (X : Stores) (c a : Nat) :
    (if a = c then ({ storage := (stoOf X c).storage, transient := (stoOf X c).transient } : AcctSto)
      else stoOf X a) = stoOf X a := by
  by_cases e : a = c
  · subst e; simp
  · simp [e]

section
variable (I : Interp) (p : Evm.Params) (S : Nat → Prop) (w0 : Evm.World)
variable (cs : CState) (w : Evm.World) (f : Evm.Frame) (kcs : List CCont)

/-- what an instruction the frame-stack machine decodes itself (a call, a LOG, EXTCODESIZE) amounts to on the reference
    side: no claim (an error report or a tagged end); an exceptional halt of the running concrete frame (stack
    underflow, a write in a static frame); or one successor, related to a concrete configuration with exactly the same
    completions -/
def CallCorr (lo : LocalOut) : Prop :=
  (∃ e, lo = { ends := [e] } ∧ e.st = cs.st ∧ ((∃ r', e.out = .stuck r') ∨ e.tag ≠ .normal)) ∨
  (∃ h, lo = localHalt cs.st h ∧ haltWith h [] = h ∧ Evm.step p w f = .halt w h) ∨
  (∃ cs' w' f' kcs', lo = { next := [cs'] } ∧ cs'.st.path = cs.st.path ∧ RelC I p S w0 cs' w' f' kcs' ∧
      (∀ r, RunStack p w f kcs r ↔ RunStack p w' f' kcs' r) ∧ (BBAllT w kcs → BBAllT w' kcs'))

end

section
variable {I : Interp} {p : Evm.Params} {S : Nat → Prop} {w0 : Evm.World}
variable {cs : CState} {w : Evm.World} {f : Evm.Frame} {kcs : List CCont}
variable {s : Simp} {cfg : Cfg} {codes : List (Nat × List Nat)}

/-- the context of the callee: the symbolic environment `call_known` builds (msg.sender, address(this), msg.value,
    calldata, static flag — per call kind) denotes the context of the frame the reference starts -/
theorem calleeOfG_envRel (hs : SimpSound s) {op t ao al ro rl : Nat} {rest : List HV} {prog : List Nat}
    {cv : T} {v : Nat} {sb : List (T × T)}
    {g : Evm.Frame} (hRk : R I cs.env cs.code p { cs.st with stack := rest } g)
    (hcall : op = 0xf1 ∨ op = 0xf2 ∨ op = 0xf4 ∨ op = 0xfa) (ht : t < 2 ^ 160)
    (hcv : cv.WF ∧ cv.width ≤ 256 ∧ cv.eval I = v) :
    EnvRel I (calleeOfG s cs op t ao al ro rl rest prog cv sb).env p (calleeFrameV op g w t v ao al) := by
  have hargs : MemRel I (readMem cs.st.mem ao al) (Evm.readBytes g.mem ao al) := readMem_rel hRk.mem ao al
  have haddr := hRk.env.address
  have hcaller := hRk.env.caller
  have hval := hRk.env.callvalue
  simp only [calleeOfG]
  refine ⟨?_, hRk.env.origin, ?_, ?_, fun off => ?_, fun i => ?_, ?_, ?_⟩
  · rcases hcall with rfl | rfl | rfl | rfl <;>
      simp only [calleeFrameV, Nat.reduceEqDiff, if_true, if_false] <;>
      first | exact haddr | exact hcaller
  · rcases hcall with rfl | rfl | rfl | rfl <;>
      simp only [calleeFrameV, Nat.reduceEqDiff, if_true, if_false] <;>
      first | exact hval | exact hcv
  · have hlit : (T.lit 160 t).WF ∧ (T.lit 160 t).width ≤ 256 ∧ (T.lit 160 t).eval I = t :=
      ⟨(by decide : 0 < 160), (by decide : 160 ≤ 256), Nat.mod_eq_of_lt ht⟩
    rcases hcall with rfl | rfl | rfl | rfl <;>
      simp [calleeFrameV] <;>
      first | exact hlit | exact haddr
  · have hw := readMem_rel hargs off 32
    obtain ⟨a1, a2, a3⟩ := wordOfBytes_rel (I := I) hs hw.1 (readMem_length _ _ _)
    refine ⟨a1, a2, ?_⟩
    rw [a3, hw.2]; rfl
  · exact hargs.getD i
  · simp [calleeFrameV, Evm.readBytes]
  · rcases hcall with rfl | rfl | rfl | rfl <;> simp [calleeFrameV, hRk.env.isStatic]

theorem calleeOf_envRel (hs : SimpSound s) {op t ao al ro rl : Nat} {rest : List HV} {prog : List Nat}
    {g : Evm.Frame} (hRk : R I cs.env cs.code p { cs.st with stack := rest } g)
    (hcall : op = 0xf1 ∨ op = 0xf2 ∨ op = 0xf4 ∨ op = 0xfa) (ht : t < 2 ^ 160) :
    EnvRel I (calleeOf s cs op t ao al ro rl rest prog).env p (calleeFrame op g w t ao al) :=
  calleeOfG_envRel hs hRk hcall ht ⟨(by decide : 0 < 256), Nat.le_refl _, rfl⟩

/-- the callee `call_known` starts against the frame the reference starts: `csx` is the caller at the call (operands
    still on its stack, conditions appended, value moved), `g` the concrete caller with the operands popped and the
    memory areas touched, `wS` the world saved for a rollback, `wT` the world the callee starts in -/
theorem relC_callee (hs : SimpSound s) (hS : ∀ a prog, codeOf codes a = some prog → S a)
    (hcb : ∀ a prog, codeOf codes a = some prog → ∀ b ∈ prog, b < 256)
    {csx : CState} {wS wT : Evm.World} {g : Evm.Frame} {op t ao al ro rl : Nat} {rest : List HV} {prog : List Nat}
    {cv : T} {v : Nat} {sb : List (T × T)}
    (hRk : R I csx.env csx.code p { csx.st with stack := rest } g) (hthis : g.this = csx.this) (hinS : S csx.this)
    (hdepth : g.depth = csx.depth) (hcode : ∀ b ∈ csx.code, b < 256)
    (hWT : WRelM I S (wd w0 csx.created csx.nonce) wT (viewOf csx) (evalLogs I csx.logs) (balSem I w0 csx.bal))
    (hbal : ChainWF csx.bal) (hcrx : CrOK S csx.created)
    (hWS : WRelM I S (wd w0 csx.created csx.nonce) wS (viewOf csx) (evalLogs I csx.logs) (balSem I w0 sb))
    (hsb : ChainWF sb) (hHT : HRel I p S wT csx.hsto) (hHS : HRel I p S wS csx.hsto)
    (hconts : List.Forall₂ (ContRel I p S w0) csx.conts kcs) (hc : codeOf codes t = some prog)
    (hwcode : wS.codeOf t = codeOf codes t) (hcall : op = 0xf1 ∨ op = 0xf2 ∨ op = 0xf4 ∨ op = 0xfa)
    (ht : t < 2 ^ 160) (hcv : cv.WF ∧ cv.width ≤ 256 ∧ cv.eval I = v) :
    RelC I p S w0 (calleeOfG s csx op t ao al ro rl rest prog cv sb) wT (calleeFrameV op g wS t v ao al)
      (⟨wS, g, ro, rl, none⟩ :: kcs) := by
  have hstores : ∀ a, stoOf (stoSet csx.stores csx.this
      { storage := csx.st.storage, transient := csx.st.transient }) a = viewOf csx a := by
    intro a; rw [stoOf_stoSet]; rfl
  have henv := calleeOfG_envRel (w := wS) (ao := ao) (al := al) (ro := ro) (rl := rl) (prog := prog) (sb := sb)
    hs hRk hcall ht hcv
  simp only [calleeOfG] at henv ⊢
  refine ⟨⟨?_, rfl, StackRel.nil, henv, hRk.subst.same rfl rfl, MemRel.nil I, MemRel.nil I⟩, ?_, ?_, ?_,
    hcb t prog hc, ?_, hbal, hcrx, hHT,
    List.Forall₂.cons ⟨hRk, hthis, hinS, hdepth, hcode, rfl, rfl,
      (hWS.setCreated w0.created).congr (fun a _ => hstores a), hsb, rfl, (fun a h => by cases h), hcrx,
      hHS.mono_world rfl⟩ hconts⟩
  · simp [calleeFrameV, hwcode, hc]
  · rcases hcall with rfl | rfl | rfl | rfl <;> simp [calleeFrameV, hthis]
  · rcases hcall with rfl | rfl | rfl | rfl <;>
      simp only [Nat.reduceEqDiff, or_true, true_or, or_self, if_true, if_false] <;>
      first | exact hS t prog hc | exact hinS
  · show g.depth + 1 = csx.depth + 1
    rw [hdepth]
  · exact (hWT.congr (fun a _ => hstores a)).congr (fun a _ => view_eta _ _ a)

/-- the caller going on after a call that returned nothing (a target without code: `ok = true`, or a call that could
    not be paid: `ok = false`), against the concrete caller `g'` -/
theorem relC_goOn {csx : CState} {w' : Evm.World} {g g' : Evm.Frame} {rest : List HV} {ok : Bool}
    (hRk : R I csx.env csx.code p { csx.st with stack := rest } g) (hthis : g.this = csx.this) (hinS : S csx.this)
    (hdepth : g.depth = csx.depth) (hcode : ∀ b ∈ csx.code, b < 256)
    (hW : WRelM I S (wd w0 csx.created csx.nonce) w' (viewOf csx) (evalLogs I csx.logs) (balSem I w0 csx.bal))
    (hbal : ChainWF csx.bal) (hcrx : CrOK S csx.created) (hH : HRel I p S w' csx.hsto)
    (hconts : List.Forall₂ (ContRel I p S w0) csx.conts kcs)
    (hctx : g'.code = g.code ∧ g'.caller = g.caller ∧ g'.value = g.value ∧ g'.this = g.this ∧
      g'.calldata = g.calldata ∧ g'.isStatic = g.isStatic ∧ g'.depth = g.depth)
    (hpc : g'.pc = g.pc + 1) (hstk : g'.stack = (if ok then 1 else 0) :: g.stack) (hmem : g'.mem = g.mem)
    (hrd : g'.returndata = []) {pc0 : Nat} (hpc0 : pc0 = csx.st.pc) :
    RelC I p S w0 { csx with st := { csx.st with pc := pc0 + 1, stack := .bv 256 (.con (if ok then 1 else 0)) :: rest,
                                                 returndata := [] } } w' g' kcs := by
  obtain ⟨c1, c2, c3, c4, c5, c6, c7⟩ := hctx
  subst hpc0
  refine ⟨⟨c1.trans hRk.code, ?_, ?_, hRk.env.congr c2 c3 c4 c5 c6, hRk.subst.same rfl rfl, ?_, ?_⟩, c4.trans hthis,
    hinS, c7.trans hdepth, hcode, hW.congr (fun a _ => rfl), hbal, hcrx, hH, hconts⟩
  · show g'.pc = csx.st.pc + 1
    rw [hpc, hRk.pc]
  · rw [hstk]
    refine StackRel.cons ?_ hRk.stack
    cases ok
    · exact wordRel_con (by norm_num)
    · exact wordRel_con (by norm_num)
  · rw [hmem]; exact hRk.mem
  · rw [hrd]; exact MemRel.nil I

theorem callGo_corr (hs : SimpSound s) (hmem : cfg.maxMem + 32 ≤ p.memLimit) (hdep : 1024 ≤ p.maxDepth)
    (hcodes : ∀ a, w.codeOf a = codeOf codes a) (hS : ∀ a prog, codeOf codes a = some prog → S a)
    (hcb : ∀ a prog, codeOf codes a = some prog → ∀ b ∈ prog, b < 256)
    (hrel : RelC I p S w0 cs w f kcs) {op : Nat} (hcall : op = 0xf1 ∨ op = 0xf2 ∨ op = 0xf4 ∨ op = 0xfa)
    {t ao al ro rl : Nat} {rest : List HV} {crest : List Nat} (hrest : StackRel I rest crest) (ht : t < 2 ^ 160)
    {o : Oracle}
    (hstep : Evm.step p w f = .call op w { f with stack := crest } t 0 ao al ro rl) :
    CallCorr I p S w0 cs w f kcs (callGo s o cfg codes cs op t none ao al ro rl rest) := by
  unfold callGo
  simp only
  by_cases h1 : al ≠ 0 ∧ ao + al > cfg.maxMem
  · rw [if_pos h1]; exact Or.inl ⟨_, rfl, rfl, Or.inr (fun h => Tag.noConfusion h)⟩
  rw [if_neg h1]
  by_cases h2 : rl ≠ 0 ∧ ro + rl > cfg.maxMem
  · rw [if_pos h2]; exact Or.inl ⟨_, rfl, rfl, Or.inr (fun h => Tag.noConfusion h)⟩
  rw [if_neg h2]
  simp only [Option.isSome_none, Bool.false_eq_true, if_false]
  by_cases h4 : specialAddr t = true
  · rw [if_pos h4]; exact Or.inl ⟨_, rfl, rfl, Or.inl ⟨_, rfl⟩⟩
  rw [if_neg h4]
  by_cases h5 : cs.depth + 1 > 1024
  · rw [if_pos h5]; exact Or.inl ⟨_, rfl, rfl, Or.inl ⟨_, rfl⟩⟩
  rw [if_neg h5]
  -- the reference makes the call
  have hm1 : Evm.memOk p ao al = true := memOk_of (by
    by_cases h0 : al = 0
    · exact Or.inl h0
    · right; have : ¬ ao + al > cfg.maxMem := fun h => h1 ⟨h0, h⟩
      omega)
  have hm2 : Evm.memOk p ro rl = true := memOk_of (by
    by_cases h0 : rl = 0
    · exact Or.inl h0
    · right; have : ¬ ro + rl > cfg.maxMem := fun h => h2 ⟨h0, h⟩
      omega)
  generalize hf1t : (({ f with stack := crest } : Evm.Frame).touch ao al).touch ro rl = f1t at *
  have e_code : f1t.code = f.code := by rw [← hf1t, touch_code, touch_code]
  have e_caller : f1t.caller = f.caller := by rw [← hf1t, touch_caller, touch_caller]
  have e_value : f1t.value = f.value := by rw [← hf1t, touch_value, touch_value]
  have e_this : f1t.this = f.this := by rw [← hf1t, touch_this, touch_this]
  have e_cd : f1t.calldata = f.calldata := by rw [← hf1t, touch_calldata, touch_calldata]
  have e_static : f1t.isStatic = f.isStatic := by rw [← hf1t, touch_isStatic, touch_isStatic]
  have e_rd : f1t.returndata = f.returndata := by rw [← hf1t, touch_returndata, touch_returndata]
  have e_mem : f1t.mem = f.mem := by rw [← hf1t, touch_mem, touch_mem]
  have e_pc : f1t.pc = f.pc := by rw [← hf1t, touch_pc, touch_pc]
  have e_depth : f1t.depth = f.depth := by rw [← hf1t, touch_depth, touch_depth]
  have hd : ¬ f1t.depth + 1 > p.maxDepth := by rw [e_depth, hrel.depth]; omega
  have hiff := fun r => runStack_call (p := p) hstep hm1 hm2 (by rw [hf1t]; exact hd) kcs r
  rw [hf1t] at hiff
  have hwcode : w.codeOf t = codeOf codes t := hcodes t
  have hR := hrel.hR
  -- the suspended caller
  have hRk : R I cs.env cs.code p { cs.st with stack := rest } f1t :=
    hR.next' ⟨e_code, e_caller, e_value, e_this, e_cd, e_static, e_rd⟩ rfl rfl rfl e_mem rfl
      (by rw [e_pc]; exact hR.pc) (by rw [← hf1t, touch_stack, touch_stack]; exact hrest)
  cases hc : codeOf codes t with
  | none =>
    simp only
    refine Or.inr (Or.inr ⟨_, w, resumeFrame ⟨w, f1t, ro, rl, none⟩ (.success []), kcs, rfl, rfl, ?_, fun r => ?_,
      fun hbb => hbb⟩)
    · exact relC_goOn (ok := true) (g' := resumeFrame ⟨w, f1t, ro, rl, none⟩ (.success [])) hRk (e_this.trans hrel.this)
        hrel.inS (e_depth.trans hrel.depth) hrel.hcode hrel.hW hrel.hbal hrel.hcr hrel.hH hrel.conts
        ⟨rfl, rfl, rfl, rfl, rfl, rfl, rfl⟩ rfl rfl (by simp [resumeFrame, Evm.Halt.data, writeBytes_nil]) rfl rfl
    · refine (hiff r).trans ?_
      have hstop : Evm.step p w (calleeFrame op f1t w t ao al) = .halt w (.success []) := by
        apply evm_stop
        · simp [calleeFrame, calleeFrameV, hwcode, hc]
        · simp [calleeFrame, calleeFrameV]
      exact runStack_halt_cons hstop _ kcs r
  | some prog =>
    simp only
    refine Or.inr (Or.inr ⟨_, w, calleeFrame op f1t w t ao al, ⟨w, f1t, ro, rl, none⟩ :: kcs, rfl, rfl, ?_, hiff,
      fun hbb => ⟨hbb.1, fun kc hm => by
        rcases List.mem_cons.1 hm with rfl | hm
        · exact hbb.1
        · exact hbb.2 kc hm⟩⟩)
    exact relC_callee hs hS hcb hRk (e_this.trans hrel.this) hrel.inS (e_depth.trans hrel.depth) hrel.hcode
      hrel.hW hrel.hbal hrel.hcr hrel.hW hrel.hbal hrel.hH hrel.hH hrel.conts hc hwcode hcall ht ⟨(by decide : 0 < 256), Nat.le_refl _, rfl⟩

end

section
variable {I : Interp} {p : Evm.Params} {S : Nat → Prop} {w0 : Evm.World}
variable {cs : CState} {w : Evm.World} {f : Evm.Frame} {kcs : List CCont}
variable {s : Simp} {cfg : Cfg} {codes : List (Nat × List Nat)}

/-- a CALL / CALLCODE whose value is not the literal 0, all operands decoded: the value term `fv` denotes the concrete
    value `v`, and the reference is at the call -/
def ValueCase (I : Interp) (p : Evm.Params) (s : Simp) (o : Oracle) (cfg : Cfg) (codes : List (Nat × List Nat))
    (cs : CState) (w : Evm.World) (f : Evm.Frame) (op : Nat) (lo : LocalOut) : Prop :=
  ∃ (t v : Nat) (fv : T) (ao al ro rl : Nat) (rest : List HV) (crest : List Nat),
    lo = callGo s o cfg codes cs op t (some fv) ao al ro rl rest ∧ (op = 0xf1 ∨ op = 0xf2) ∧
    StackRel I rest crest ∧ t < 2 ^ 160 ∧ fv.WF ∧ fv.width = 256 ∧ fv.eval I = v ∧
    Evm.step p w f = .call op w { f with stack := crest } t v ao al ro rl

/-- **the call instructions**: a zero-value call (`CallCorr`) or a value-bearing one (`ValueCase`). -/
theorem callOut_corr {o : Oracle} (hs : SimpSound s) (hmem : cfg.maxMem + 32 ≤ p.memLimit) (hdep : 1024 ≤ p.maxDepth)
    (hcodes : ∀ a, w.codeOf a = codeOf codes a) (hS : ∀ a prog, codeOf codes a = some prog → S a)
    (hcb : ∀ a prog, codeOf codes a = some prog → ∀ b ∈ prog, b < 256)
    (hrel : RelC I p S w0 cs w f kcs) {op : Nat} (hop : opAt cs.code cs.st.pc = op)
    (hcall : op = 0xf1 ∨ op = 0xf2 ∨ op = 0xf4 ∨ op = 0xfa) (hl : ¬ cs.st.stack.length > 1024) :
    CallCorr I p S w0 cs w f kcs (callOut s o cfg codes cs op) ∨
      ValueCase I p s o cfg codes cs w f op (callOut s o cfg codes cs op) := by
  have hR := hrel.hR
  have hopc : (f.code[f.pc]?).getD 0 = op := hR.op_eq.trans hop
  have hlen := hR.stack.length
  have hlc : ¬ f.stack.length > 1024 := by rw [← hlen]; exact hl
  have hstk := hR.stack
  have hunder : f.stack.length < 6 → Evm.step p w f = .halt w .stackUnderflow := by
    intro hlt
    rcases hcall with h | h | h | h
    · exact evm_call7_short hopc (Or.inl h) hlc (by omega)
    · exact evm_call7_short hopc (Or.inr h) hlc (by omega)
    · exact evm_call6_short hopc (Or.inl h) hlc hlt
    · exact evm_call6_short hopc (Or.inr h) hlc hlt
  unfold callOut
  simp only
  cases hst : cs.st.stack with
  | nil => exact Or.inl (Or.inr (Or.inl ⟨_, rfl, rfl, hunder (by rw [← hlen, hst]; simp)⟩))
  | cons gv r =>
    cases r with
    | nil => exact Or.inl (Or.inr (Or.inl ⟨_, rfl, rfl, hunder (by rw [← hlen, hst]; simp)⟩))
    | cons tov r0 =>
      simp only
      rw [hst] at hstk
      obtain ⟨g, c1, hc1, _, hs1⟩ := hstk.cons_inv
      obtain ⟨tgt, c0, hc0, hwt, hr0⟩ := hs1.cons_inv
      subst hc0
      split
      · rename_i sz t heq
        obtain ⟨et, ht⟩ := reBV160_con hs hwt heq
        by_cases h7 : op = 0xf1 ∨ op = 0xf2
        · rw [if_pos h7]
          cases r0 with
          | nil =>
            have := hr0.nil_inv
            subst this
            exact Or.inl (Or.inr (Or.inl ⟨_, rfl, rfl, hunder (by rw [hc1]; simp)⟩))
          | cons fv r1 =>
            obtain ⟨v, c2, hc2, hwv, hr1⟩ := hr0.cons_inv
            subst hc2
            simp only
            generalize hfund : fundOf s fv = fund
            rcases callArgs_cases (o := o) (cfg := cfg) (codes := codes) (cs := cs) (op := op) (t := t) (fund := fund)
                hs hr1 with ⟨e, hlt⟩ | e | ⟨ao, al, ro, rl, rest, crest, hcr, hrest, e⟩
            · rw [e]
              exact Or.inl (Or.inr (Or.inl ⟨_, rfl, rfl, evm_call7_short hopc h7 hlc (by rw [hc1]; simp; omega)⟩))
            · rw [e]; exact Or.inl (Or.inl ⟨_, rfl, rfl, Or.inl ⟨_, rfl⟩⟩)
            · rw [e]
              subst hcr
              have hstep7 := evm_call7 (p := p) (w := w) hopc h7 hlc hc1
              have hmask : Evm.addrMask tgt = t := by rw [et]; rfl
              rw [hmask] at hstep7
              obtain ⟨r', er, wf, d⟩ := (toBV256_ok hs I hwv.1 hwv.2.1).ok_inj
              unfold fundOf at hfund
              rw [er] at hfund
              cases fund with
              | none =>
                have hv0 : v = 0 := by
                  cases r' with
                  | con n =>
                    cases n with
                    | zero => rw [← hwv.2.2, ← d]; rfl
                    | succ n => simp at hfund
                  | sym t' => simp at hfund
                subst hv0
                exact Or.inl (callGo_corr hs hmem hdep hcodes hS hcb hrel hcall hrest ht hstep7)
              | some fvt =>
                have hfv : fvt = asZ3 256 r' := by
                  cases r' with
                  | con n =>
                    cases n with
                    | zero => simp at hfund
                    | succ n => simpa using hfund.symm
                  | sym t' => simpa using hfund.symm
                obtain ⟨z1, z2, z3⟩ := asZ3_ok (I := I) wf
                exact Or.inr ⟨t, v, fvt, ao, al, ro, rl, rest, crest, rfl, h7, hrest, ht, by rw [hfv]; exact z1,
                  by rw [hfv]; exact z2, by rw [hfv, z3, d, hwv.2.2], hstep7⟩
        · rw [if_neg h7]
          have h6 : op = 0xf4 ∨ op = 0xfa := by
            rcases hcall with h | h | h | h
            · exact absurd (Or.inl h) h7
            · exact absurd (Or.inr h) h7
            · exact Or.inl h
            · exact Or.inr h
          rcases callArgs_cases (o := o) (cfg := cfg) (codes := codes) (cs := cs) (op := op) (t := t) (fund := none)
              hs hr0 with ⟨e, hlt⟩ | e | ⟨ao, al, ro, rl, rest, crest, hcr, hrest, e⟩
          · rw [e]
            exact Or.inl (Or.inr (Or.inl ⟨_, rfl, rfl, evm_call6_short hopc h6 hlc (by rw [hc1]; simp; omega)⟩))
          · rw [e]; exact Or.inl (Or.inl ⟨_, rfl, rfl, Or.inl ⟨_, rfl⟩⟩)
          · rw [e]
            subst hcr
            refine Or.inl (callGo_corr hs hmem hdep hcodes hS hcb hrel hcall hrest ht ?_)
            rw [et]; exact evm_call6 hopc h6 hlc hc1
      · exact Or.inl (Or.inl ⟨_, rfl, rfl, Or.inl ⟨_, rfl⟩⟩)

end

/-! ### BALANCE / SELFBALANCE -/

theorem isBalOp_iff (op : Nat) : isBalOp op = true ↔ (op = 0x31 ∨ op = 0x47) := by
  simp [isBalOp]

theorem evm_balance {p : Evm.Params} {w : Evm.World} {f : Evm.Frame} (hop : (f.code[f.pc]?).getD 0 = 0x31)
    (hl : ¬ f.stack.length > 1024) :
    Evm.step p w f = Evm.op1 w f fun a => w.balanceOf (Evm.addrMask a) := by
  unfold Evm.step; simp only [hop, hl, ↓reduceIte]

theorem evm_selfbalance {p : Evm.Params} {w : Evm.World} {f : Evm.Frame} (hop : (f.code[f.pc]?).getD 0 = 0x47)
    (hl : ¬ f.stack.length > 1024) :
    Evm.step p w f = .next w (Evm.push f (w.balanceOf f.this)) := by
  unfold Evm.step; simp only [hop, hl, ↓reduceIte]

section
variable {I : Interp} {s : Simp}

/-- `uint160(pop()).as_z3()`: a well-formed 160-bit term denoting the masked word -/
theorem reBV160_term (hs : SimpSound s) {v : HV} {n : Nat} (hw : WordRel I v n) {sz : Nat} {r : Rep}
    (h : reBV s v 160 = .bv sz r) :
    (asZ3 160 r).WF ∧ (asZ3 160 r).width = 160 ∧ (asZ3 160 r).eval I = Evm.addrMask n := by
  cases v with
  | bv size r0 =>
    obtain ⟨r', e, wf, d⟩ := (reBV_bv_ok hs I (by decide : 0 < 160) hw.1).ok_inj
    rw [h] at e
    cases e
    obtain ⟨z1, z2, z3⟩ := asZ3_ok (I := I) wf
    exact ⟨z1, z2, by rw [z3, d, hw.2.2]; rfl⟩
  | bool r0 =>
    obtain ⟨r', e, wf, d⟩ := (reBV_bool_ok hs I (by decide : 0 < 160) hw.1).ok_inj
    rw [h] at e
    cases e
    obtain ⟨z1, z2, z3⟩ := asZ3_ok (I := I) wf
    refine ⟨z1, z2, ?_⟩
    rw [z3, d, hw.2.2]
    have hlt : n < 2 ^ 160 := by
      have := denote_lt (I := I) wf
      rw [d, hw.2.2] at this
      exact this
    exact (Nat.mod_eq_of_lt hlt).symm

end

section
variable {I : Interp} {p : Evm.Params} {S : Nat → Prop} {w0 : Evm.World}
variable {cs : CState} {w : Evm.World} {f : Evm.Frame} {kcs : List CCont}
variable {s : Simp} {o : Oracle} {cfg : Cfg}

/-- the running state with conditions appended to its path (and whatever happened to pc / stack / memory / return
    data, as described by `f'`) -/
theorem RelC.withConds (hs : SimpSound s) (hrel : RelC I p S w0 cs w f kcs) {conds : List B}
    (hwf : ∀ c ∈ conds, c.WF) {X : SState} (hXs : X.subst = cs.st.subst) (hXp : X.path = cs.st.path)
    (hXsto : X.storage = cs.st.storage) (hXtr : X.transient = cs.st.transient) {st' : SState}
    (hst : ∃ Y : SState, Y = conds.foldl (addCond s) X ∧ st'.subst = Y.subst ∧ st'.path = Y.path ∧
      st'.storage = Y.storage ∧ st'.transient = Y.transient)
    {f' : Evm.Frame} (hctx : f'.code = f.code ∧ f'.caller = f.caller ∧ f'.value = f.value ∧ f'.this = f.this ∧
      f'.calldata = f.calldata ∧ f'.isStatic = f.isStatic ∧ f'.depth = f.depth)
    (hpc : f'.pc = st'.pc) (hstk : StackRel I st'.stack f'.stack) (hm : MemRel I st'.mem f'.mem)
    (hrd : MemRel I st'.returndata f'.returndata) :
    RelC I p S w0 { cs with st := st' } w f' kcs := by
  obtain ⟨Y, hY, y1, y2, y3, y4⟩ := hst
  obtain ⟨c1, c2, c3, c4, c5, c6, c7⟩ := hctx
  have hR := hrel.hR
  have hsubX : SubstOk I X := hR.subst.same hXs hXp
  have hsubY : SubstOk I Y := by rw [hY]; exact addConds_substOk hs hwf hsubX
  refine ⟨⟨c1.trans hR.code, hpc, hstk, hR.env.congr c2 c3 c4 c5 c6, hsubY.same y1 y2, hm, hrd⟩, c4.trans hrel.this,
    hrel.inS, c7.trans hrel.depth, hrel.hcode, hrel.hW.congr (fun a _ => ?_), hrel.hbal, hrel.hcr, hrel.hH, hrel.conts⟩
  have e1 : st'.storage = cs.st.storage := by rw [y3, hY, (addConds_storage s conds X).1, hXsto]
  have e2 : st'.transient = cs.st.transient := by rw [y4, hY, (addConds_storage s conds X).2, hXtr]
  simp only [viewOf, e1, e2]

/-- BALANCE / SELFBALANCE: no claim, a stack underflow, or one successor whose path is the old one with the
    conditions `balance_of` appends -/
def BalCorr (I : Interp) (p : Evm.Params) (S : Nat → Prop) (w0 : Evm.World) (s : Simp) (G : Prop) (cs : CState)
    (w : Evm.World) (f : Evm.Frame) (kcs : List CCont) (lo : LocalOut) : Prop :=
  (∃ e, lo = { ends := [e] } ∧ e.st = cs.st ∧ ((∃ r', e.out = .stuck r') ∨ e.tag ≠ .normal)) ∨
  (∃ h, lo = localHalt cs.st h ∧ haltWith h [] = h ∧ Evm.step p w f = .halt w h) ∨
  (∃ (cs' : CState) (f' : Evm.Frame) (conds : List B) (X : SState),
      lo = { next := [cs'] } ∧ (∀ c ∈ conds, c.WF) ∧ X.path = cs.st.path ∧
      cs'.st.path = (conds.foldl (addCond s) X).path ∧ cs'.conts = cs.conts ∧
      RelC I p S w0 cs' w f' kcs ∧ (∀ r, RunStack p w f kcs r ↔ RunStack p w f' kcs r) ∧
      (G → ∀ c ∈ conds, c.eval I = true))

theorem balOut_corr (hs : SimpSound s) (ho : OracleSound o) (hb : BalHyp I cfg w0)
    (hrel : RelC I p S w0 cs w f kcs) (hsat : Sat I cs.st.path) {op : Nat} (hop : opAt cs.code cs.st.pc = op)
    (hbalop : op = 0x31 ∨ op = 0x47) (hl : ¬ cs.st.stack.length > 1024) :
    BalCorr I p S w0 s (BalBound w) cs w f kcs (balOut s o cfg cs op) := by
  have hR := hrel.hR
  have hopc : (f.code[f.pc]?).getD 0 = op := hR.op_eq.trans hop
  have hlen := hR.stack.length
  have hlc : ¬ f.stack.length > 1024 := by rw [← hlen]; exact hl
  -- the common tail: the key `k` denotes the address `a`, the concrete step pushes its balance
  have go : ∀ (k : T) (rest : List HV) (crest : List Nat) (a : Nat), k.WF → k.width = 160 → k.eval I = a →
      StackRel I rest crest →
      Evm.step p w f = .next w { f with stack := w.balanceOf a % Evm.W :: crest, pc := f.pc + 1 } →
      BalCorr I p S w0 s (BalBound w) cs w f kcs
        (match balanceOfM s o cfg cs.st.path cs.bal k with
         | none => localStuck cs.st (.unsupported op)
         | some (v, conds) =>
           { next := [{ cs with st := pushTerm s (conds.foldl (addCond s) { cs.st with stack := rest }) v }] }) := by
    intro k rest crest a hk hkw hka hrest hstep
    cases hbo : balanceOfM s o cfg cs.st.path cs.bal k with
    | none => exact Or.inl ⟨_, rfl, rfl, Or.inl ⟨_, rfl⟩⟩
    | some vc =>
      obtain ⟨v, conds⟩ := vc
      obtain ⟨v1, v2, v3, cwf, ctrue⟩ := balanceOfM_ok hs ho hb hsat hrel.hbal hk hkw hbo
      simp only
      refine Or.inr (Or.inr ⟨_, _, conds, { cs.st with stack := rest }, rfl, cwf, rfl, rfl, rfl, ?_,
        fun r => runStack_next hstep kcs r, fun hbb c hc => ?_⟩)
      · refine hrel.withConds hs cwf (X := { cs.st with stack := rest })
          (st' := pushTerm s (conds.foldl (addCond s) { cs.st with stack := rest }) v) rfl rfl rfl rfl
          ⟨_, rfl, rfl, rfl, rfl, rfl⟩ ⟨rfl, rfl, rfl, rfl, rfl, rfl, rfl⟩ ?_ ?_ ?_ ?_
        · show f.pc + 1 = (conds.foldl (addCond s) { cs.st with stack := rest }).pc + 1
          rw [addConds_pc, hR.pc]
        · show StackRel I (mkBV s (.term v) 256 :: (conds.foldl (addCond s) { cs.st with stack := rest }).stack) _
          rw [addConds_stack]
          refine StackRel.cons (wordRel_mkBV hs v1 ?_) hrest
          rw [v3, hka, ← hrel.hW.bal a]; rfl
        · show MemRel I (conds.foldl (addCond s) { cs.st with stack := rest }).mem f.mem
          rw [addConds_mem]; exact hR.mem
        · show MemRel I (conds.foldl (addCond s) { cs.st with stack := rest }).returndata f.returndata
          rw [addConds_returndata]; exact hR.retdata
      · refine ctrue ?_ c hc
        rw [hka, ← hrel.hW.bal a]; exact hbb.le a
  unfold balOut
  simp only
  by_cases hbal : cfg.balances = true
  swap
  · have : (!cfg.balances) = true := by simpa using hbal
    rw [if_pos this]; exact Or.inl ⟨_, rfl, rfl, Or.inl ⟨_, rfl⟩⟩
  have : ¬ (!cfg.balances) = true := by simp [hbal]
  rw [if_neg this]
  by_cases h47 : op = 0x47
  · rw [if_pos h47]
    subst h47
    by_cases hw160 : cs.env.address.width ≠ 160
    · rw [if_pos hw160]; exact Or.inl ⟨_, rfl, rfl, Or.inl ⟨_, rfl⟩⟩
    rw [if_neg hw160]
    have hstep := evm_selfbalance (p := p) (w := w) hopc hlc
    rw [push_eq] at hstep
    exact go cs.env.address cs.st.stack f.stack f.this hR.env.address.1 (by omega) hR.env.address.2.2 hR.stack hstep
  · rw [if_neg h47]
    have h31 : op = 0x31 := by rcases hbalop with h | h; exact h; exact absurd h h47
    subst h31
    cases hcs : cs.st.stack with
    | nil =>
      refine Or.inr (Or.inl ⟨.stackUnderflow, rfl, rfl, ?_⟩)
      have h0 : f.stack = [] := by
        have := hlen; rw [hcs] at this; exact List.eq_nil_of_length_eq_zero this.symm
      rw [evm_balance hopc hlc]; unfold Evm.op1; rw [h0]
    | cons av rest =>
      have hstk := hR.stack
      rw [hcs] at hstk
      obtain ⟨a, crest, hc0, hwa, hrest⟩ := hstk.cons_inv
      simp only
      split
      · rename_i sz r heq
        obtain ⟨k1, k2, k3⟩ := reBV160_term hs hwa heq
        have hstep : Evm.step p w f = .next w { f with
            stack := w.balanceOf (Evm.addrMask a) % Evm.W :: crest, pc := f.pc + 1 } := by
          rw [evm_balance hopc hlc]; unfold Evm.op1; rw [hc0]
        exact go (asZ3 160 r) rest crest (Evm.addrMask a) k1 k2 k3 hrest hstep
      · exact Or.inl ⟨_, rfl, rfl, Or.inl ⟨_, rfl⟩⟩

end

/-! ### SHA3 -/

theorem isShaOp_iff (op : Nat) : isShaOp op = true ↔ op = 0x20 := by simp [isShaOp]

/-- the conditions `sha3_data` appends at this state are true under `I` (they are assumptions — the digest is
    non-zero and at most 2^256 − 2^64, `f_inv_sha3_*` invert the hash on its low 160 bits —, not consequences) -/
def ShaOK (I : Interp) (s : Simp) (cfg : Cfg) (cs : CState) : Prop :=
  cfg.sha3 = true → ∀ lv zv rest sz1 loc sz2 size, cs.st.stack = lv :: zv :: rest → toBV256 s lv = .bv sz1 (.con loc) →
    toBV256 s zv = .bv sz2 (.con size) → ∀ c ∈ (shaData cfg (readMem cs.st.mem loc size)).2, c.eval I = true

section
variable {I : Interp}

theorem litBytes_eval : ∀ {bs : List T} {ns : List Nat}, litBytes? bs = some ns →
    bs.map (·.eval I) = ns.map (· % 256)
  | [], ns, h => by simp only [litBytes?, Option.some.injEq] at h; subst h; rfl
  | b :: rest, ns, h => by
    simp only [litBytes?] at h
    cases hb : litByte? b with
    | none => simp [hb] at h
    | some n =>
      cases hr : litBytes? rest with
      | none => simp [hb, hr] at h
      | some ms =>
        simp only [hb, hr, Option.some.injEq] at h
        subst h
        have : b = .lit 8 n := by
          unfold litByte? at hb
          split at hb
          · rename_i b'; simp only [Option.some.injEq] at hb; subst hb; rfl
          · cases hb
        subst this
        simp only [List.map_cons, litBytes_eval hr]
        rfl

theorem concatBytes_eval {bs : List T} (hb : ∀ b ∈ bs, b.WF ∧ b.width = 8) (hne : bs ≠ []) :
    (concatBytes bs).WF ∧ (concatBytes bs).width = 8 * bs.length ∧
      (concatBytes bs).eval I = Evm.bytesToNat (bs.map (·.eval I)) := by
  match bs, hne with
  | b :: rest, _ =>
    obtain ⟨bwf, bw⟩ := hb b (List.mem_cons_self ..)
    obtain ⟨h1, h2, h3⟩ := concat_foldl_ok (I := I) rest b bwf (fun x hx => hb x (List.mem_cons_of_mem _ hx))
    refine ⟨h1, ?_, ?_⟩
    · simp only [concatBytes, h2, bw, List.length_cons]; omega
    · simp only [concatBytes, h3, Evm.bytesToNat, List.map_cons, List.foldl_cons]
      have hlt := T.eval_lt I b bwf
      rw [bw] at hlt
      rw [Nat.mod_eq_of_lt hlt]; norm_num

end

section
variable {I : Interp} {p : Evm.Params} {S : Nat → Prop} {w0 : Evm.World}
variable {cs : CState} {w : Evm.World} {f : Evm.Frame} {kcs : List CCont}
variable {s : Simp} {cfg : Cfg}

/-- what `sha3_data` returns on related bytes: a word denoting the reference's digest, and well-formed conditions -/
theorem shaData_ok (hi : ShaInterp I p cfg) {bytes : List T} {cbytes : List Nat} (hm : MemRel I bytes cbytes)
    {v : HV ⊕ T} {conds : List B} (h : shaData cfg bytes = (some v, conds)) :
    (∀ c ∈ conds, c.WF) ∧
    (match v with
     | .inl hv => WordRel I hv (p.keccak cbytes % Evm.W)
     | .inr t => t.WF ∧ t.eval I % 2 ^ 256 = p.keccak cbytes % Evm.W) := by
  obtain ⟨hwf, hev⟩ := hm
  have hlt : ∀ b ∈ cbytes, b < 256 := by
    intro b hb
    rw [← hev] at hb
    obtain ⟨t, ht, rfl⟩ := List.mem_map.1 hb
    have := T.eval_lt I t (hwf t ht).1
    rw [(hwf t ht).2] at this; exact this
  have hlen : cbytes.length = bytes.length := by rw [← hev, List.length_map]
  -- the expression and the injectivity witnesses are well-formed whenever the data is
  have hexpr : ∀ (data : T), data.WF → (shaExpr (8 * bytes.length) data).WF ∧
      (shaExpr (8 * bytes.length) data).width = 256 := by
    intro data hd
    unfold shaExpr
    split
    · exact ⟨(by decide : 0 < 256), rfl⟩
    · exact ⟨⟨(by decide : 0 < 256), hd⟩, rfl⟩
  have hdist : ∀ (data : T), data.WF → data.width = 8 * bytes.length →
      ∀ c ∈ shaDistinct (8 * bytes.length) data, c.WF := by
    intro data hd hdw c hc
    obtain ⟨e1, e2⟩ := hexpr data hd
    have hcore : (T.extract 159 0 (shaExpr (8 * bytes.length) data)).WF := ⟨e1, Nat.zero_le _, by rw [e2]; norm_num⟩
    unfold shaDistinct at hc
    simp only at hc
    split at hc
    · rw [List.mem_singleton.1 hc]
      exact ⟨⟨(by decide : 0 < 256), hcore⟩, (by decide : 0 < 256), rfl⟩
    · rename_i hb0
      rcases List.mem_cons.1 hc with rfl | hc
      · exact ⟨⟨Nat.pos_of_ne_zero hb0, hcore⟩, hd, hdw.symm⟩
      · rw [List.mem_singleton.1 hc]
        exact ⟨⟨(by decide : 0 < 256), hcore⟩, (by decide : 0 < 256), rfl⟩
  unfold shaData at h
  cases hl : litBytes? bytes with
  | some ns =>
    have hns : cbytes = ns.map (· % 256) := by rw [← hev]; exact litBytes_eval hl
    have hhash : cfg.keccak (ns.map (· % 256)) % 2 ^ 256 = p.keccak cbytes % Evm.W := by
      rw [← hns]; exact hi.conc cbytes hlt
    have hw : WordRel I (.bv 256 (.con (cfg.keccak (ns.map (· % 256)) % 2 ^ 256))) (p.keccak cbytes % Evm.W) := by
      rw [← hhash]; exact wordRel_con (Nat.mod_lt _ (by norm_num))
    simp only [hl] at h
    unfold shaConc at h
    by_cases h1 : bytes.length > 128
    · rw [if_pos h1] at h
      simp only [Prod.mk.injEq, Option.some.injEq] at h
      obtain ⟨rfl, rfl⟩ := h
      exact ⟨fun c hc => absurd hc List.not_mem_nil, hw⟩
    rw [if_neg h1] at h
    by_cases h2 : cfg.keccak (ns.map (· % 256)) % 2 ^ 256 = 0 ∨ cfg.keccak (ns.map (· % 256)) % 2 ^ 256 > SHA_MAX
    · rw [if_pos h2] at h; simp at h
    rw [if_neg h2] at h
    by_cases h3 : isCreate2Pre bytes = true
    · rw [if_pos h3] at h; simp at h
    rw [if_neg h3] at h
    simp only [Prod.mk.injEq, Option.some.injEq] at h
    obtain ⟨rfl, rfl⟩ := h
    refine ⟨fun c hc => ?_, hw⟩
    by_cases h0 : bytes.length = 0
    · -- no data: the constant `f_sha3_0`
      have hb0 : 8 * bytes.length = 0 := by omega
      rw [hb0] at hc
      simp only [shaExpr, shaDistinct, if_true] at hc
      rcases List.mem_cons.1 hc with rfl | hc
      · exact ⟨(by decide : 0 < 256), (by decide : 0 < 256), rfl⟩
      · rw [List.mem_singleton.1 hc]
        exact ⟨⟨(by decide : 0 < 256), (by decide : 0 < 256), Nat.zero_le _, by norm_num [T.width]⟩,
          (by decide : 0 < 256), rfl⟩
    · have hdw : (T.lit (8 * bytes.length) (Evm.bytesToNat (ns.map (· % 256)))).WF := by
        show 0 < 8 * bytes.length; omega
      obtain ⟨e1, e2⟩ := hexpr _ hdw
      rcases List.mem_cons.1 hc with rfl | hc
      · exact ⟨e1, (by decide : 0 < 256), e2⟩
      · exact hdist _ hdw rfl c hc
  | none =>
    simp only [hl] at h
    unfold shaSym at h
    by_cases h3 : isCreate2Pre bytes = true
    · rw [if_pos h3] at h; simp at h
    rw [if_neg h3] at h
    simp only [Prod.mk.injEq, Option.some.injEq] at h
    obtain ⟨rfl, rfl⟩ := h
    have hne : bytes ≠ [] := by
      intro h0; rw [h0] at hl; simp [litBytes?] at hl
    obtain ⟨d1, d2, d3⟩ := concatBytes_eval (I := I) hwf hne
    obtain ⟨e1, e2⟩ := hexpr (concatBytes bytes) d1
    have hb0 : ¬ 8 * bytes.length = 0 := by
      have : bytes.length ≠ 0 := fun h => hne (List.eq_nil_of_length_eq_zero h)
      omega
    refine ⟨fun c hc => ?_, e1, ?_⟩
    · rcases List.mem_append.1 hc with hc | hc
      · rcases List.mem_cons.1 hc with rfl | hc
        · exact ⟨e1, (by decide : 0 < 256), e2⟩
        · rw [List.mem_singleton.1 hc]; exact ⟨e1, (by decide : 0 < 256), e2⟩
      · exact hdist _ d1 d2 c hc
    · have hne' : cbytes ≠ [] := by rw [← hev]; simpa using hne
      simp only [shaExpr, if_neg hb0, T.eval, d3, hev]
      rw [← hlen, Nat.mod_mod]
      exact hi.app cbytes hlt hne'

theorem shaOK_off {I : Interp} {s : Simp} {cfg : Cfg} {cs : CState} (h : cfg.sha3 = false) : ShaOK I s cfg cs :=
  fun h' => by rw [h] at h'; cases h'

/-- the byte string `d` is an *ideal* hash input for `I`: its digest is non-zero and at most 2^256 − 2^64, and the
    uninterpreted inverses `f_inv_sha3_<bits>` / `f_inv_sha3_size` map the digest's low 160 bits back to it -/
structure HashIdeal (I : Interp) (p : Evm.Params) (d : List Nat) : Prop where
  nz : p.keccak d % Evm.W ≠ 0
  le : p.keccak d % Evm.W ≤ SHA_MAX
  inv : d ≠ [] → I.uf1 (shaInvName (8 * d.length)) (8 * d.length) (p.keccak d % Evm.W % 2 ^ 160) %
    2 ^ (8 * d.length) = Evm.bytesToNat d
  size : I.uf1 "f_inv_sha3_size" 256 (p.keccak d % Evm.W % 2 ^ 160) % 2 ^ 256 = 8 * d.length % 2 ^ 256

theorem eq_eval_true {I : Interp} {a b : T} (h : a.eval I = b.eval I) : (B.cmp .eq a b).eval I = true := by
  simp only [B.eval, CmpOp.eval, h, beq_self_eq_true]

/-- hashing an ideal input: every condition `sha3_data` appends is true -/
theorem shaData_true (hi : ShaInterp I p cfg) {bytes : List T} {cbytes : List Nat} (hm : MemRel I bytes cbytes)
    (hid : HashIdeal I p cbytes) : ∀ c ∈ (shaData cfg bytes).2, c.eval I = true := by
  obtain ⟨hwf, hev⟩ := hm
  have hlt : ∀ b ∈ cbytes, b < 256 := by
    intro b hb
    rw [← hev] at hb
    obtain ⟨t, ht, rfl⟩ := List.mem_map.1 hb
    have := T.eval_lt I t (hwf t ht).1
    rw [(hwf t ht).2] at this; exact this
  have hlen : cbytes.length = bytes.length := by rw [← hev, List.length_map]
  have hWlt : p.keccak cbytes % Evm.W < 2 ^ 256 := Nat.mod_lt _ (by unfold Evm.W; norm_num)
  have hexpr : ∀ data : T, data.eval I = Evm.bytesToNat cbytes →
      (shaExpr (8 * bytes.length) data).eval I = p.keccak cbytes % Evm.W := by
    intro data hd
    unfold shaExpr
    split
    · have : cbytes = [] := List.eq_nil_of_length_eq_zero (by omega)
      subst this
      simp only [T.eval]; exact hi.empty
    · have hne : cbytes ≠ [] := by intro h; subst h; simp at hlen; omega
      simp only [T.eval, hd, ← hlen]
      exact hi.app cbytes hlt hne
  have hcore : ∀ data : T, data.eval I = Evm.bytesToNat cbytes →
      (T.extract 159 0 (shaExpr (8 * bytes.length) data)).eval I = p.keccak cbytes % Evm.W % 2 ^ 160 := by
    intro data hd
    simp only [T.eval, hexpr data hd]; norm_num
  have hdist : ∀ data : T, data.eval I = Evm.bytesToNat cbytes → data.width = 8 * bytes.length →
      ∀ c ∈ shaDistinct (8 * bytes.length) data, c.eval I = true := by
    intro data hd hdw c hc
    unfold shaDistinct at hc
    simp only at hc
    have hsz : (T.uf1 "f_inv_sha3_size" 256 (T.extract 159 0 (shaExpr (8 * bytes.length) data))).eval I =
        8 * bytes.length % 2 ^ 256 := by
      show I.uf1 _ _ ((T.extract 159 0 (shaExpr (8 * bytes.length) data)).eval I) % 2 ^ 256 = _
      rw [hcore data hd, hid.size, hlen]
    split at hc
    · rename_i h0
      rw [List.mem_singleton.1 hc]
      refine eq_eval_true ?_
      rw [hsz, h0]; rfl
    · have hne : cbytes ≠ [] := by intro h; subst h; simp at hlen; omega
      rcases List.mem_cons.1 hc with rfl | hc
      · refine eq_eval_true ?_
        show I.uf1 _ _ ((T.extract 159 0 (shaExpr (8 * bytes.length) data)).eval I) % 2 ^ (8 * bytes.length) = _
        rw [hcore data hd, hd, ← hlen]
        exact hid.inv hne
      · rw [List.mem_singleton.1 hc]
        refine eq_eval_true ?_
        rw [hsz]; rfl
  unfold shaData
  cases hl : litBytes? bytes with
  | some ns =>
    have hns : cbytes = ns.map (· % 256) := by rw [← hev]; exact litBytes_eval hl
    simp only
    unfold shaConc
    (repeat' split) <;> intro c hc <;> try (exact absurd hc List.not_mem_nil)
    have hd : (T.lit (8 * bytes.length) (Evm.bytesToNat (ns.map (· % 256)))).eval I = Evm.bytesToNat cbytes := by
      simp only [T.eval, ← hns]
      have := bytesToNat_lt cbytes
      rw [hlen] at this
      exact Nat.mod_eq_of_lt (by rw [Nat.pow_mul]; norm_num at this ⊢; exact this)
    rcases List.mem_cons.1 hc with rfl | hc
    · refine eq_eval_true ?_
      rw [hexpr _ hd]
      show _ = cfg.keccak (ns.map (· % 256)) % 2 ^ 256 % 2 ^ 256
      rw [← hns, hi.conc cbytes hlt, Nat.mod_eq_of_lt hWlt]
    · exact hdist _ hd rfl c hc
  | none =>
    simp only
    unfold shaSym
    split
    · intro c hc; exact absurd hc List.not_mem_nil
    · have hne : bytes ≠ [] := by
        intro h0; rw [h0] at hl; simp [litBytes?] at hl
      obtain ⟨d1, d2, d3⟩ := concatBytes_eval (I := I) hwf hne
      rw [hev] at d3
      intro c hc
      rcases List.mem_append.1 hc with hc | hc
      · rcases List.mem_cons.1 hc with rfl | hc
        · show (!((shaExpr (8 * bytes.length) (concatBytes bytes)).eval I == (T.lit 256 0).eval I)) = true
          rw [hexpr _ d3]
          have := hid.nz
          simpa [T.eval] using this
        · rw [List.mem_singleton.1 hc]
          show decide ((shaExpr (8 * bytes.length) (concatBytes bytes)).eval I ≤ (T.lit 256 SHA_MAX).eval I) = true
          rw [hexpr _ d3, decide_eq_true_eq]
          exact le_trans hid.le (le_of_eq (Nat.mod_eq_of_lt (by unfold SHA_MAX; norm_num)).symm)
      · exact hdist _ d3 d2 c hc

/-- `ShaOK` from ideal inputs: at this state, if the memory range about to be hashed denotes an ideal input -/
theorem shaOK_of_ideal (hi : ShaInterp I p cfg) {f : Evm.Frame} (hmr : MemRel I cs.st.mem f.mem)
    (hid : ∀ loc size, HashIdeal I p (Evm.readBytes f.mem loc size)) : ShaOK I s cfg cs :=
  fun _ lv zv rest sz1 loc sz2 size _ _ _ => shaData_true hi (readMem_rel hmr loc size) (hid loc size)

/-- **SHA3.** -/
theorem shaOut_corr (hs : SimpSound s) (hi : ShaInterp I p cfg) (hmem : cfg.maxMem + 32 ≤ p.memLimit)
    (hrel : RelC I p S w0 cs w f kcs) {op : Nat} (hop : opAt cs.code cs.st.pc = op) (hsha : op = 0x20)
    (hl : ¬ cs.st.stack.length > 1024) :
    BalCorr I p S w0 s (ShaOK I s cfg cs) cs w f kcs (shaOut s cfg cs op) := by
  have hR := hrel.hR
  subst hsha
  have hopc : (f.code[f.pc]?).getD 0 = 0x20 := hR.op_eq.trans hop
  have hlen := hR.stack.length
  have hlc : ¬ f.stack.length > 1024 := by rw [← hlen]; exact hl
  have hstk := hR.stack
  unfold shaOut
  simp only
  by_cases hon : cfg.sha3 = true
  swap
  · have : (!cfg.sha3) = true := by simpa using hon
    rw [if_pos this]; exact Or.inl ⟨_, rfl, rfl, Or.inl ⟨_, rfl⟩⟩
  have : ¬ (!cfg.sha3) = true := by simp [hon]
  rw [if_neg this]
  cases hcs : cs.st.stack with
  | nil =>
    refine Or.inr (Or.inl ⟨.stackUnderflow, rfl, rfl, evm_sha3_short hopc hlc ?_⟩)
    rw [← hlen, hcs]; simp
  | cons lv r1 =>
    rw [hcs] at hstk
    obtain ⟨off, c1, hc1, hwo, hr1⟩ := hstk.cons_inv
    simp only
    split
    · rename_i sz1 loc heq1
      have e1 := toBV256_con hs hwo heq1
      subst e1
      cases r1 with
      | nil =>
        have := hr1.nil_inv
        subst this
        refine Or.inr (Or.inl ⟨.stackUnderflow, rfl, rfl, evm_sha3_short hopc hlc ?_⟩)
        rw [hc1]; simp
      | cons zv rest =>
        obtain ⟨len, crest, hc2, hwl, hrest⟩ := hr1.cons_inv
        subst hc2
        simp only
        split
        · rename_i sz2 size heq2
          have e2 := toBV256_con hs hwl heq2
          subst e2
          by_cases hm : size ≠ 0 ∧ loc + size > cfg.maxMem
          · rw [if_pos hm]; exact Or.inl ⟨_, rfl, rfl, Or.inr (fun h => Tag.noConfusion h)⟩
          rw [if_neg hm]
          have hok : size = 0 ∨ loc + size ≤ p.memLimit := by
            by_cases h0 : size = 0
            · exact Or.inl h0
            · right; have : ¬ loc + size > cfg.maxMem := fun h => hm ⟨h0, h⟩
              omega
          have hstep := evm_sha3 (p := p) (w := w) hopc hlc hc1 hok
          have hmr := readMem_rel hR.mem loc size
          cases hsd : shaData cfg (readMem cs.st.mem loc size) with
          | mk vo conds =>
            cases vo with
            | none => exact Or.inl ⟨_, rfl, rfl, Or.inl ⟨_, rfl⟩⟩
            | some v =>
              obtain ⟨cwf, hval⟩ := shaData_ok hi hmr hsd
              simp only
              refine Or.inr (Or.inr ⟨_, _, conds, { cs.st with stack := rest }, rfl, cwf, rfl, ?_, rfl, ?_,
                fun r => runStack_next hstep kcs r, fun hG c hc => ?_⟩)
              · cases v <;> rfl
              · cases v with
                | inl hv =>
                  refine hrel.withConds hs cwf (X := { cs.st with stack := rest })
                    (st' := { (conds.foldl (addCond s) { cs.st with stack := rest }) with
                                pc := (conds.foldl (addCond s) { cs.st with stack := rest }).pc + 1,
                                stack := hv :: (conds.foldl (addCond s) { cs.st with stack := rest }).stack })
                    rfl rfl rfl rfl ⟨_, rfl, rfl, rfl, rfl, rfl⟩
                    ⟨touch_code .., touch_caller .., touch_value .., touch_this .., touch_calldata ..,
                      touch_isStatic .., touch_depth ..⟩ ?_ ?_ ?_ ?_
                  · show f.pc + 1 = (conds.foldl (addCond s) { cs.st with stack := rest }).pc + 1
                    rw [addConds_pc, hR.pc]
                  · show StackRel I (hv :: (conds.foldl (addCond s) { cs.st with stack := rest }).stack) _
                    rw [addConds_stack]
                    exact StackRel.cons hval hrest
                  · show MemRel I (conds.foldl (addCond s) { cs.st with stack := rest }).mem (f.touch loc size).mem
                    rw [addConds_mem, touch_mem]; exact hR.mem
                  · show MemRel I (conds.foldl (addCond s) { cs.st with stack := rest }).returndata
                      (f.touch loc size).returndata
                    rw [addConds_returndata, touch_returndata]; exact hR.retdata
                | inr t =>
                  refine hrel.withConds hs cwf (X := { cs.st with stack := rest })
                    (st' := pushTerm s (conds.foldl (addCond s) { cs.st with stack := rest }) t) rfl rfl rfl rfl
                    ⟨_, rfl, rfl, rfl, rfl, rfl⟩
                    ⟨touch_code .., touch_caller .., touch_value .., touch_this .., touch_calldata ..,
                      touch_isStatic .., touch_depth ..⟩ ?_ ?_ ?_ ?_
                  · show f.pc + 1 = (conds.foldl (addCond s) { cs.st with stack := rest }).pc + 1
                    rw [addConds_pc, hR.pc]
                  · show StackRel I (mkBV s (.term t) 256 ::
                      (conds.foldl (addCond s) { cs.st with stack := rest }).stack) _
                    rw [addConds_stack]
                    exact StackRel.cons (wordRel_mkBV hs hval.1 hval.2) hrest
                  · show MemRel I (conds.foldl (addCond s) { cs.st with stack := rest }).mem (f.touch loc size).mem
                    rw [addConds_mem, touch_mem]; exact hR.mem
                  · show MemRel I (conds.foldl (addCond s) { cs.st with stack := rest }).returndata
                      (f.touch loc size).returndata
                    rw [addConds_returndata, touch_returndata]; exact hR.retdata
              · have := hG hon lv zv rest sz1 loc sz2 size hcs heq1 heq2 c
                rw [hsd] at this
                exact this hc
        · exact Or.inl ⟨_, rfl, rfl, Or.inl ⟨_, rfl⟩⟩
    · exact Or.inl ⟨_, rfl, rfl, Or.inl ⟨_, rfl⟩⟩

end

/-! ### a call with a value -/

section
variable {I : Interp} {p : Evm.Params} {S : Nat → Prop} {w0 : Evm.World}
variable {cs : CState} {w : Evm.World} {f : Evm.Frame} {kcs : List CCont}
variable {s : Simp} {o : Oracle} {cfg : Cfg} {codes : List (Nat × List Nat)}

/-- the same state in another world, described by another balance array -/
theorem RelC.setBal (hrel : RelC I p S w0 cs w f kcs) {w' : Evm.World} {bal' : List (T × T)}
    (hW : WRelM I S (wd w0 cs.created cs.nonce) w' (viewOf cs) (evalLogs I cs.logs) (balSem I w0 bal')) (hwf : ChainWF bal')
    (hs' : w'.storage = w.storage) :
    RelC I p S w0 { cs with bal := bal' } w' f kcs :=
  ⟨hrel.hR, hrel.this, hrel.inS, hrel.depth, hrel.hcode, hW.congr (fun a _ => rfl), hwf, hrel.hcr,
   hrel.hH.mono_world hs', hrel.conts⟩

/-- a world that differs in its balances only -/
theorem WRelM.setBalances {v : Nat → AcctSto} {lg : List (Nat × List Nat × List Nat)} {bs bs' : Nat → Nat}
    (h : WRelM I S w0 w v lg bs) {w' : Evm.World} (hsto : w'.storage = w.storage) (htr : w'.transient = w.transient)
    (hcode : w'.code = w.code) (hcr : w'.created = w.created) (hlogs : w'.logs = w.logs)
    (hbal : ∀ a, w'.balanceOf a = bs' a) : WRelM I S w0 w' v lg bs' :=
  ⟨fun a ha slot hlt => by rw [hsto]; exact h.hsto a ha slot hlt, fun a ha slot => by rw [htr]; exact h.htr a ha slot, h.wf,
   fun a slot ha => by rw [hsto, htr]; exact h.other a slot ha,
   fun a => (show w'.codeOf a = w.codeOf a by unfold Evm.World.codeOf; rw [hcode]).trans (h.code a),
   hcr.trans h.created,
   hlogs.trans h.logs, hbal, h.keys⟩

theorem callWorld_fields (kind : Nat) (w : Evm.World) (a t v : Nat) :
    (callWorld kind w a t v).storage = w.storage ∧ (callWorld kind w a t v).transient = w.transient ∧
    (callWorld kind w a t v).code = w.code ∧ (callWorld kind w a t v).created = w.created ∧
    (callWorld kind w a t v).logs = w.logs := by
  unfold callWorld
  split <;> exact ⟨rfl, rfl, rfl, rfl, rfl⟩

/-- everything the two directions need to know about a value-bearing call once the caller's balance has been read -/
structure ValueCtx (I : Interp) (p : Evm.Params) (S : Nat → Prop) (w0 : Evm.World) (s : Simp) (cs : CState)
    (w : Evm.World) (f : Evm.Frame) (kcs : List CCont) (op t v : Nat) (fv : T) (ao al ro rl : Nat) (rest : List HV)
    (f1t : Evm.Frame) (bc : T) (conds1 : List B) : Prop where
  hrel : RelC I p S w0 cs w f kcs
  hsat : Sat I cs.st.path
  h7 : op = 0xf1 ∨ op = 0xf2
  ht : t < 2 ^ 160
  hfv : fv.WF ∧ fv.width = 256 ∧ fv.eval I = v
  hme : cs.env.address.WF ∧ cs.env.address.width = 160 ∧ cs.env.address.eval I = f.this
  hbc : bc.WF ∧ bc.width = 256 ∧ bc.eval I = w.balanceOf f.this
  hc1 : ∀ c ∈ conds1, c.WF
  hc1t : BalBound w → ∀ c ∈ conds1, c.eval I = true
  hRk : R I cs.env cs.code p { cs.st with stack := rest } f1t
  ectx : f1t.code = f.code ∧ f1t.caller = f.caller ∧ f1t.value = f.value ∧ f1t.this = f.this ∧
    f1t.calldata = f.calldata ∧ f1t.isStatic = f.isStatic ∧ f1t.depth = f.depth
  epc : f1t.pc = f.pc
  emem : f1t.mem = f.mem
  hstat : (decide (op = 0xf1) && f1t.isStatic && decide (v ≠ 0)) = false

section
variable {op t v : Nat} {fv : T} {ao al ro rl : Nat} {rest : List HV} {f1t : Evm.Frame} {bc : T} {conds1 : List B}

theorem ValueCtx.insuff_ok (hs : SimpSound s) (hx : ValueCtx I p S w0 s cs w f kcs op t v fv ao al ro rl rest f1t bc conds1) :
    (s.b (.cmp .ult bc fv)).WF ∧ ((s.b (.cmp .ult bc fv)).eval I = decide (w.balanceOf f.this < v)) := by
  have hwf : (B.cmp .ult bc fv).WF := ⟨hx.hbc.1, hx.hfv.1, by rw [hx.hbc.2.1, hx.hfv.2.1]⟩
  refine ⟨hs.wfB _ hwf, ?_⟩
  rw [hs.evalB I _ hwf]
  simp only [B.eval, CmpOp.eval, hx.hbc.2.2, hx.hfv.2.2]

theorem ValueCtx.suff_ok (hs : SimpSound s) (hx : ValueCtx I p S w0 s cs w f kcs op t v fv ao al ro rl rest f1t bc conds1) :
    (s.b (.cmp .uge bc fv)).WF ∧ ((s.b (.cmp .uge bc fv)).eval I = decide (w.balanceOf f.this ≥ v)) := by
  have hwf : (B.cmp .uge bc fv).WF := ⟨hx.hbc.1, hx.hfv.1, by rw [hx.hbc.2.1, hx.hfv.2.1]⟩
  refine ⟨hs.wfB _ hwf, ?_⟩
  rw [hs.evalB I _ hwf]
  simp only [B.eval, CmpOp.eval, hx.hbc.2.2, hx.hfv.2.2]

/-- the insufficient-funds branch against the reference's caller going on with flag 0 -/
theorem ValueCtx.fail_rel (hs : SimpSound s) (hx : ValueCtx I p S w0 s cs w f kcs op t v fv ao al ro rl rest f1t bc conds1) :
    RelC I p S w0
      { cs with st := { (addCond s (conds1.foldl (addCond s) cs.st) (s.b (.cmp .ult bc fv))) with
                          pc := cs.st.pc + 1, stack := .bv 256 (.con 0) :: rest, returndata := [] } }
      w (failFrame f1t) kcs := by
  obtain ⟨c1, c2, c3, c4, c5, c6, c7⟩ := hx.ectx
  have hwf : ∀ c ∈ conds1 ++ [s.b (.cmp .ult bc fv)], c.WF := by
    intro c hc
    rcases List.mem_append.1 hc with hc | hc
    · exact hx.hc1 c hc
    · rw [List.mem_singleton.1 hc]; exact (hx.insuff_ok hs).1
  refine hx.hrel.withConds hs hwf (X := cs.st) rfl rfl rfl rfl
    ⟨_, rfl, by simp [List.foldl_append], by simp [List.foldl_append], by simp [List.foldl_append],
      by simp [List.foldl_append]⟩
    ⟨c1, c2, c3, c4, c5, c6, c7⟩ ?_ ?_ ?_ (MemRel.nil I)
  · show f1t.pc + 1 = cs.st.pc + 1
    rw [hx.epc, hx.hrel.hR.pc]
  · exact StackRel.cons (wordRel_con (by norm_num)) hx.hRk.stack
  · show MemRel I (addCond s (conds1.foldl (addCond s) cs.st) _).mem f1t.mem
    rw [addCond_mem, addConds_mem, hx.emem]; exact hx.hrel.hR.mem

/-- the state of the main path: the conditions of the first balance read, the sufficiency condition, those of the
    second read -/
def mainSt (s : Simp) (cs : CState) (bc fv : T) (conds1 conds2 : List B) : SState :=
  conds2.foldl (addCond s) (addCond s (conds1.foldl (addCond s) cs.st) (s.b (.cmp .uge bc fv)))

theorem mainSt_eq (s : Simp) (cs : CState) (bc fv : T) (conds1 conds2 : List B) :
    mainSt s cs bc fv conds1 conds2 = (conds1 ++ [s.b (.cmp .uge bc fv)] ++ conds2).foldl (addCond s) cs.st := by
  simp [mainSt, List.foldl_append]

theorem ValueCtx.main_wf (hs : SimpSound s)
    (hx : ValueCtx I p S w0 s cs w f kcs op t v fv ao al ro rl rest f1t bc conds1) {conds2 : List B}
    (hc2 : ∀ c ∈ conds2, c.WF) : ∀ c ∈ conds1 ++ [s.b (.cmp .uge bc fv)] ++ conds2, c.WF := by
  intro c hc
  rcases List.mem_append.1 hc with hc | hc
  · rcases List.mem_append.1 hc with hc | hc
    · exact hx.hc1 c hc
    · rw [List.mem_singleton.1 hc]; exact (hx.suff_ok hs).1
  · exact hc2 c hc

/-- the main path going on after a call to an account without code -/
theorem ValueCtx.main_nocode (hs : SimpSound s)
    (hx : ValueCtx I p S w0 s cs w f kcs op t v fv ao al ro rl rest f1t bc conds1) {conds2 : List B}
    (hc2 : ∀ c ∈ conds2, c.WF) {wT : Evm.World} {bal' : List (T × T)}
    (hWT : WRelM I S (wd w0 cs.created cs.nonce) wT (viewOf cs) (evalLogs I cs.logs) (balSem I w0 bal')) (hwf : ChainWF bal')
    (hsT : wT.storage = w.storage) :
    RelC I p S w0
      { cs with st := { (mainSt s cs bc fv conds1 conds2) with pc := cs.st.pc + 1, stack := .bv 256 (.con 1) :: rest, returndata := [] }, bal := bal' }
      wT (resumeFrame ⟨w, f1t, ro, rl, none⟩ (.success [])) kcs := by
  obtain ⟨c1, c2, c3, c4, c5, c6, c7⟩ := hx.ectx
  have h1 : RelC I p S w0
      { cs with st := { (mainSt s cs bc fv conds1 conds2) with pc := cs.st.pc + 1, stack := .bv 256 (.con 1) :: rest, returndata := [] } }
      w (resumeFrame ⟨w, f1t, ro, rl, none⟩ (.success [])) kcs := by
    refine hx.hrel.withConds hs (hx.main_wf hs hc2) (X := cs.st) rfl rfl rfl rfl
      ⟨_, rfl, by rw [mainSt_eq], by rw [mainSt_eq], by rw [mainSt_eq], by rw [mainSt_eq]⟩
      ⟨c1, c2, c3, c4, c5, c6, c7⟩ ?_ ?_ ?_ (MemRel.nil I)
    · show f1t.pc + 1 = cs.st.pc + 1
      rw [hx.epc, hx.hrel.hR.pc]
    · exact StackRel.cons (wordRel_con (by norm_num)) hx.hRk.stack
    · show MemRel I (mainSt s cs bc fv conds1 conds2).mem (Evm.writeBytes f1t.mem ro _)
      simp only [Evm.Halt.data, List.take_nil, writeBytes_nil]
      rw [mainSt_eq, addConds_mem, hx.emem]; exact hx.hrel.hR.mem
  refine h1.setBal (hWT.congr (fun a _ => ?_)) hwf hsT
  simp only [viewOf, mainSt_eq, (addConds_storage s _ cs.st).1, (addConds_storage s _ cs.st).2]

/-- the callee of the main path -/
theorem ValueCtx.main_callee (hs : SimpSound s) (hS : ∀ a prog, codeOf codes a = some prog → S a)
    (hcb : ∀ a prog, codeOf codes a = some prog → ∀ b ∈ prog, b < 256)
    (hx : ValueCtx I p S w0 s cs w f kcs op t v fv ao al ro rl rest f1t bc conds1) {conds2 : List B}
    (hc2 : ∀ c ∈ conds2, c.WF) {wT : Evm.World} {bal' : List (T × T)}
    (hWT : WRelM I S (wd w0 cs.created cs.nonce) wT (viewOf cs) (evalLogs I cs.logs) (balSem I w0 bal')) (hwf : ChainWF bal')
    (hsT : wT.storage = w.storage)
    {prog : List Nat} (hc : codeOf codes t = some prog) (hwcode : w.codeOf t = codeOf codes t) :
    RelC I p S w0
      (calleeOfG s { cs with st := mainSt s cs bc fv conds1 conds2, bal := bal' } op t ao al ro rl rest prog fv cs.bal)
      wT (calleeFrameV op f1t w t v ao al) (⟨w, f1t, ro, rl, none⟩ :: kcs) := by
  obtain ⟨c1, c2, c3, c4, c5, c6, c7⟩ := hx.ectx
  have h1 : RelC I p S w0 { cs with st := { (mainSt s cs bc fv conds1 conds2) with stack := rest } } w f1t kcs := by
    refine hx.hrel.withConds hs (hx.main_wf hs hc2) (X := cs.st) rfl rfl rfl rfl
      ⟨_, rfl, by rw [mainSt_eq], by rw [mainSt_eq], by rw [mainSt_eq], by rw [mainSt_eq]⟩
      ⟨c1, c2, c3, c4, c5, c6, c7⟩ ?_ hx.hRk.stack ?_ ?_
    · show f1t.pc = (mainSt s cs bc fv conds1 conds2).pc
      rw [mainSt_eq, addConds_pc]; exact hx.hRk.pc
    · show MemRel I (mainSt s cs bc fv conds1 conds2).mem f1t.mem
      rw [mainSt_eq, addConds_mem]; exact hx.hRk.mem
    · show MemRel I (mainSt s cs bc fv conds1 conds2).returndata f1t.returndata
      rw [mainSt_eq, addConds_returndata]; exact hx.hRk.retdata
  have hview : ∀ a, viewOf { cs with st := mainSt s cs bc fv conds1 conds2, bal := bal' } a = viewOf cs a := by
    intro a
    simp only [viewOf, mainSt_eq, (addConds_storage s _ cs.st).1, (addConds_storage s _ cs.st).2]
  have hcall : op = 0xf1 ∨ op = 0xf2 ∨ op = 0xf4 ∨ op = 0xfa := by
    rcases hx.h7 with h | h
    · exact Or.inl h
    · exact Or.inr (Or.inl h)
  exact relC_callee (csx := { cs with st := mainSt s cs bc fv conds1 conds2, bal := bal' }) hs hS hcb h1.hR
    (c4.trans hx.hrel.this) hx.hrel.inS (c7.trans hx.hrel.depth) hx.hrel.hcode
    (hWT.congr (fun a _ => hview a)) hwf hx.hrel.hcr (hx.hrel.hW.congr (fun a _ => hview a)) hx.hrel.hbal
    (hx.hrel.hH.mono_world hsT) hx.hrel.hH hx.hrel.conts hc hwcode
    hcall hx.ht ⟨hx.hfv.1, by rw [hx.hfv.2.1], hx.hfv.2.2⟩

end

end

/-! the two parts of `callGoV`, named -/

/-- the insufficient-funds successor, unless refuted -/
def failNextOf (s : Simp) (o : Oracle) (cs : CState) (bc fv : T) (conds1 : List B) (rest : List HV) : List CState :=
  if exCheck s o (conds1.foldl (addCond s) cs.st).path (s.b (.cmp .ult bc fv)) = .unsat then []
  else [{ cs with st := { (addCond s (conds1.foldl (addCond s) cs.st) (s.b (.cmp .ult bc fv))) with pc := cs.st.pc + 1, stack := .bv 256 (.con 0) :: rest, returndata := [] } }]

/-- the main path -/
def mainOf (s : Simp) (o : Oracle) (cfg : Cfg) (codes : List (Nat × List Nat)) (cs : CState) (op t : Nat) (fv : T)
    (aloc asize rloc rsize : Nat) (rest : List HV) (bc : T) (conds1 : List B) : LocalOut :=
  let st := cs.st
  let st1 := conds1.foldl (addCond s) st
  if specialAddr t then localStuck st (.unsupported op)
  else if cs.depth + 1 > 1024 then localStuck st (.unsupported op)
  else
    let suff := s.b (.cmp .uge bc fv)
    if suff = .lit false then {}
    else
      let st2 := addCond s st1 suff
      match (if op = 0xf1 then transferM s o cfg st2 cs.bal cs.env.address (.lit 160 t) bc fv else some (st2, cs.bal)) with
      | none => localStuck st (.unsupported op)
      | some (st3, bal') =>
        match codeOf codes t with
        | none =>
          { next := [{ cs with st := { st3 with pc := st.pc + 1, stack := .bv 256 (.con 1) :: rest, returndata := [] }, bal := bal' }] }
        | some prog =>
          { next := [calleeOfG s { cs with st := st3, bal := bal' } op t aloc asize rloc rsize rest prog fv cs.bal] }

theorem callGoV_eq {s : Simp} {o : Oracle} {cfg : Cfg} {codes : List (Nat × List Nat)} {cs : CState} {op t : Nat}
    {fv : T} {ao al ro rl : Nat} {rest : List HV} (hbal : cfg.balances = true)
    (hst : ¬ (cs.env.isStatic = true ∧ op = 0xf1)) (hw : cs.env.address.width = 160) {bc : T} {conds1 : List B}
    (hbo : balanceOfM s o cfg cs.st.path cs.bal cs.env.address = some (bc, conds1)) :
    callGoV s o cfg codes cs op t fv ao al ro rl rest =
      { next := failNextOf s o cs bc fv conds1 rest ++ (mainOf s o cfg codes cs op t fv ao al ro rl rest bc conds1).next,
        ends := (mainOf s o cfg codes cs op t fv ao al ro rl rest bc conds1).ends } := by
  unfold callGoV
  have h1 : ¬ (!cfg.balances) = true := by simp [hbal]
  have h3 : ¬ cs.env.address.width ≠ 160 := by simp [hw]
  simp only [h1, hst, h3, if_false, hbo]
  rfl

/-- what the main path is: an error report; nothing (the sufficiency condition is literally false); or one successor —
    the caller going on (target without code) or the callee — after the conditions `conds2` of the second balance read
    (CALL) with the balance array `bal'` -/
theorem mainOf_cases (s : Simp) (o : Oracle) (cfg : Cfg) (codes : List (Nat × List Nat)) (cs : CState) (op t : Nat)
    (fv : T) (ao al ro rl : Nat) (rest : List HV) (bc : T) (conds1 : List B) :
    (∃ e, mainOf s o cfg codes cs op t fv ao al ro rl rest bc conds1 = { ends := [e] } ∧ e.st = cs.st ∧
        ∃ r', e.out = .stuck r') ∨
    (mainOf s o cfg codes cs op t fv ao al ro rl rest bc conds1 = {} ∧ s.b (.cmp .uge bc fv) = .lit false) ∨
    (∃ (conds2 : List B) (bal' : List (T × T)), ¬ cs.depth + 1 > 1024 ∧
      ((op = 0xf1 ∧ ∃ bt, balanceOfM s o cfg (addCond s (conds1.foldl (addCond s) cs.st) (s.b (.cmp .uge bc fv))).path
            ((cs.env.address, .bin .sub bc fv) :: cs.bal) (.lit 160 t) = some (bt, conds2) ∧
          bal' = (.lit 160 t, .bin .add bt fv) :: (cs.env.address, .bin .sub bc fv) :: cs.bal) ∨
       (op ≠ 0xf1 ∧ conds2 = [] ∧ bal' = cs.bal)) ∧
      ((codeOf codes t = none ∧ mainOf s o cfg codes cs op t fv ao al ro rl rest bc conds1 =
          { next := [{ cs with st := { (mainSt s cs bc fv conds1 conds2) with pc := cs.st.pc + 1, stack := .bv 256 (.con 1) :: rest, returndata := [] }, bal := bal' }] }) ∨
       (∃ prog, codeOf codes t = some prog ∧ mainOf s o cfg codes cs op t fv ao al ro rl rest bc conds1 =
          { next := [calleeOfG s { cs with st := mainSt s cs bc fv conds1 conds2, bal := bal' } op t ao al ro rl rest prog fv cs.bal] }))) := by
  unfold mainOf
  simp only
  by_cases h4 : specialAddr t = true
  · rw [if_pos h4]; exact Or.inl ⟨_, rfl, rfl, _, rfl⟩
  rw [if_neg h4]
  by_cases h5 : cs.depth + 1 > 1024
  · rw [if_pos h5]; exact Or.inl ⟨_, rfl, rfl, _, rfl⟩
  rw [if_neg h5]
  by_cases hf : s.b (.cmp .uge bc fv) = .lit false
  · rw [if_pos hf]; exact Or.inr (Or.inl ⟨rfl, hf⟩)
  rw [if_neg hf]
  by_cases h1 : op = 0xf1
  · rw [if_pos h1]
    unfold transferM
    simp only
    cases hbo : balanceOfM s o cfg (addCond s (conds1.foldl (addCond s) cs.st) (s.b (.cmp .uge bc fv))).path
        ((cs.env.address, .bin .sub bc fv) :: cs.bal) (.lit 160 t) with
    | none => exact Or.inl ⟨_, rfl, rfl, _, rfl⟩
    | some bc2 =>
      obtain ⟨bt, conds2⟩ := bc2
      simp only
      refine Or.inr (Or.inr ⟨conds2, _, h5, Or.inl ⟨h1, bt, rfl, rfl⟩, ?_⟩)
      cases hc : codeOf codes t with
      | none => exact Or.inl ⟨rfl, rfl⟩
      | some prog => exact Or.inr ⟨prog, rfl, rfl⟩
  · rw [if_neg h1]
    simp only
    refine Or.inr (Or.inr ⟨[], _, h5, Or.inr ⟨h1, rfl, rfl⟩, ?_⟩)
    cases hc : codeOf codes t with
    | none => exact Or.inl ⟨rfl, rfl⟩
    | some prog => exact Or.inr ⟨prog, rfl, rfl⟩

section
variable {I : Interp} {p : Evm.Params} {S : Nat → Prop} {w0 : Evm.World}
variable {cs : CState} {w : Evm.World} {f : Evm.Frame} {kcs : List CCont}
variable {s : Simp} {o : Oracle} {cfg : Cfg} {codes : List (Nat × List Nat)}
variable {op t v : Nat} {fv : T} {ao al ro rl : Nat} {rest : List HV} {f1t : Evm.Frame} {bc : T} {conds1 : List B}

/-- the world the callee of the main path starts in, and the balance array that describes it -/
theorem ValueCtx.main_world (hs : SimpSound s) (ho : OracleSound o) (hb : BalHyp I cfg w0)
    (hx : ValueCtx I p S w0 s cs w f kcs op t v fv ao al ro rl rest f1t bc conds1)
    (hle : v ≤ w.balanceOf f.this)
    (hsat2 : Sat I (addCond s (conds1.foldl (addCond s) cs.st) (s.b (.cmp .uge bc fv))).path)
    {conds2 : List B} {bal' : List (T × T)}
    (htr : (op = 0xf1 ∧ ∃ bt, balanceOfM s o cfg (addCond s (conds1.foldl (addCond s) cs.st) (s.b (.cmp .uge bc fv))).path
            ((cs.env.address, .bin .sub bc fv) :: cs.bal) (.lit 160 t) = some (bt, conds2) ∧
          bal' = (.lit 160 t, .bin .add bt fv) :: (cs.env.address, .bin .sub bc fv) :: cs.bal) ∨
       (op ≠ 0xf1 ∧ conds2 = [] ∧ bal' = cs.bal)) :
    (∀ c ∈ conds2, c.WF) ∧ ChainWF bal' ∧
      WRelM I S (wd w0 cs.created cs.nonce) (callWorld op w f.this t v) (viewOf cs) (evalLogs I cs.logs) (balSem I w0 bal') ∧
      (BalBound w → ∀ c ∈ conds2, c.eval I = true) ∧
      (BalBound w → BalBound (callWorld op w f.this t v)) := by
  obtain ⟨f1, f2, f3, f4, f5⟩ := callWorld_fields op w f.this t v
  rcases htr with ⟨h1, bt, hbo, rfl⟩ | ⟨h1, rfl, rfl⟩
  · subst h1
    have hsubwf : (T.bin .sub bc fv).WF ∧ (T.bin .sub bc fv).width = 256 :=
      ⟨⟨hx.hbc.1, hx.hfv.1, by rw [hx.hbc.2.1, hx.hfv.2.1]⟩, hx.hbc.2.1⟩
    have hchain1 : ChainWF ((cs.env.address, .bin .sub bc fv) :: cs.bal) :=
      ChainWF.cons ⟨hx.hme.1, hx.hme.2.1⟩ hsubwf hx.hrel.hbal
    have htoK : (T.lit 160 t).WF ∧ (T.lit 160 t).width = 160 ∧ (T.lit 160 t).eval I = t :=
      ⟨(by decide : 0 < 160), rfl, Nat.mod_eq_of_lt hx.ht⟩
    obtain ⟨b1, b2, b3, cwf, ctrue⟩ := balanceOfM_ok hs ho hb hsat2 hchain1 htoK.1 htoK.2.1 hbo
    rw [htoK.2.2] at b3 ctrue
    have haddwf : (T.bin .add bt fv).WF ∧ (T.bin .add bt fv).width = 256 :=
      ⟨⟨b1, hx.hfv.1, by rw [b2, hx.hfv.2.1]⟩, b2⟩
    have hbalT := transfer_bal hb hx.hrel.hbal hx.hrel.hW.bal hx.hme.2.2 htoK.2.2 hx.hbc.2.2 hx.hbc.2.1 hx.hfv.2.2
      hle b2 b3
    refine ⟨cwf, ChainWF.cons ⟨htoK.1, htoK.2.1⟩ haddwf hchain1,
      hx.hrel.hW.setBalances f1 f2 f3 f4 f5 hbalT, fun hbb => ctrue ?_, fun hbb => ?_⟩
    · -- the target's balance after the debit is within the bound
      have hlt : w.balanceOf f.this < 2 ^ 256 := by rw [hx.hrel.hW.bal]; exact balSem_lt hb hx.hrel.hbal _
      simp only [balSem, hx.hme.2.2, sub_eval hx.hbc.2.1 hx.hbc.2.2 hx.hfv.2.2 hle hlt, ← hx.hrel.hW.bal t]
      split
      · exact le_trans (Nat.sub_le _ _) (hbb.le _)
      · exact hbb.le _
    · unfold callWorld
      split
      · exact (hbb.transfer hle).1
      · exact hbb
  · have hop2 : op = 0xf2 := by rcases hx.h7 with h | h; exact absurd h h1; exact h
    subst hop2
    have hcw : callWorld 0xf2 w f.this t v = w := by unfold callWorld; simp
    rw [hcw]
    exact ⟨fun c hc => absurd hc List.not_mem_nil, hx.hrel.hbal, hx.hrel.hW,
      fun _ c hc => absurd hc List.not_mem_nil, fun hbb => hbb⟩

end

section
variable {I : Interp} {p : Evm.Params} {S : Nat → Prop} {w0 : Evm.World}
variable {cs : CState} {w : Evm.World} {f : Evm.Frame} {kcs : List CCont}
variable {s : Simp} {o : Oracle} {cfg : Cfg} {codes : List (Nat × List Nat)}

/-- a value-bearing call, decoded: an end about which nothing is claimed, or the two parts with everything known -/
theorem valueCase_ctx (hs : SimpSound s) (ho : OracleSound o) (hb : BalHyp I cfg w0)
    (hmem : cfg.maxMem + 32 ≤ p.memLimit) (hrel : RelC I p S w0 cs w f kcs) (hsat : Sat I cs.st.path) {op : Nat}
    {lo : LocalOut} (hv : ValueCase I p s o cfg codes cs w f op lo) :
    (∃ e, lo = { ends := [e] } ∧ e.st = cs.st ∧ ((∃ r', e.out = .stuck r') ∨ e.tag ≠ .normal)) ∨
    ∃ (t v : Nat) (fv : T) (ao al ro rl : Nat) (rest : List HV) (crest : List Nat) (bc : T) (conds1 : List B),
      lo = { next := failNextOf s o cs bc fv conds1 rest ++
                       (mainOf s o cfg codes cs op t fv ao al ro rl rest bc conds1).next,
             ends := (mainOf s o cfg codes cs op t fv ao al ro rl rest bc conds1).ends } ∧
      ValueCtx I p S w0 s cs w f kcs op t v fv ao al ro rl rest
        ((({ f with stack := crest } : Evm.Frame).touch ao al).touch ro rl) bc conds1 ∧
      Evm.step p w f = .call op w { f with stack := crest } t v ao al ro rl ∧
      Evm.memOk p ao al = true ∧ Evm.memOk p ro rl = true := by
  obtain ⟨t, v, fv, ao, al, ro, rl, rest, crest, rfl, h7, hrest, ht, f1, f2, f3, hstep⟩ := hv
  unfold callGo
  simp only
  by_cases h1 : al ≠ 0 ∧ ao + al > cfg.maxMem
  · rw [if_pos h1]; exact Or.inl ⟨_, rfl, rfl, Or.inr (fun h => Tag.noConfusion h)⟩
  rw [if_neg h1]
  by_cases h2 : rl ≠ 0 ∧ ro + rl > cfg.maxMem
  · rw [if_pos h2]; exact Or.inl ⟨_, rfl, rfl, Or.inr (fun h => Tag.noConfusion h)⟩
  rw [if_neg h2]
  simp only [Option.isSome_some, if_true, Option.getD_some]
  have hm1 : Evm.memOk p ao al = true := memOk_of (by
    by_cases h0 : al = 0
    · exact Or.inl h0
    · right; have : ¬ ao + al > cfg.maxMem := fun h => h1 ⟨h0, h⟩
      omega)
  have hm2 : Evm.memOk p ro rl = true := memOk_of (by
    by_cases h0 : rl = 0
    · exact Or.inl h0
    · right; have : ¬ ro + rl > cfg.maxMem := fun h => h2 ⟨h0, h⟩
      omega)
  by_cases hbal : cfg.balances = true
  swap
  · unfold callGoV
    have : (!cfg.balances) = true := by simpa using hbal
    simp only [this, if_true]
    exact Or.inl ⟨_, rfl, rfl, Or.inl ⟨_, rfl⟩⟩
  by_cases hst : cs.env.isStatic = true ∧ op = 0xf1
  · unfold callGoV
    have : ¬ (!cfg.balances) = true := by simp [hbal]
    simp only [this, if_false, hst, and_self, if_true]
    exact Or.inl ⟨_, rfl, rfl, Or.inr (fun h => Tag.noConfusion h)⟩
  by_cases hw : cs.env.address.width = 160
  swap
  · unfold callGoV
    have : ¬ (!cfg.balances) = true := by simp [hbal]
    have hw' : cs.env.address.width ≠ 160 := hw
    simp only [this, if_false, hst, hw', ne_eq, not_false_eq_true, if_true]
    exact Or.inl ⟨_, rfl, rfl, Or.inl ⟨_, rfl⟩⟩
  have hR := hrel.hR
  have hme : cs.env.address.WF ∧ cs.env.address.width = 160 ∧ cs.env.address.eval I = f.this :=
    ⟨hR.env.address.1, hw, hR.env.address.2.2⟩
  cases hbo : balanceOfM s o cfg cs.st.path cs.bal cs.env.address with
  | none =>
    unfold callGoV
    have : ¬ (!cfg.balances) = true := by simp [hbal]
    have hw' : ¬ cs.env.address.width ≠ 160 := by simp [hw]
    simp only [this, if_false, hst, hw', hbo]
    exact Or.inl ⟨_, rfl, rfl, Or.inl ⟨_, rfl⟩⟩
  | some bcc =>
    obtain ⟨bc, conds1⟩ := bcc
    obtain ⟨b1, b2, b3, cwf, ctrue⟩ := balanceOfM_ok hs ho hb hsat hrel.hbal hme.1 hme.2.1 hbo
    rw [hme.2.2, ← hrel.hW.bal f.this] at b3 ctrue
    refine Or.inr ⟨t, v, fv, ao, al, ro, rl, rest, crest, bc, conds1, callGoV_eq hbal hst hw hbo, ?_, hstep, hm1, hm2⟩
    generalize hf1t : (({ f with stack := crest } : Evm.Frame).touch ao al).touch ro rl = f1t
    have e_code : f1t.code = f.code := by rw [← hf1t, touch_code, touch_code]
    have e_caller : f1t.caller = f.caller := by rw [← hf1t, touch_caller, touch_caller]
    have e_value : f1t.value = f.value := by rw [← hf1t, touch_value, touch_value]
    have e_this : f1t.this = f.this := by rw [← hf1t, touch_this, touch_this]
    have e_cd : f1t.calldata = f.calldata := by rw [← hf1t, touch_calldata, touch_calldata]
    have e_static : f1t.isStatic = f.isStatic := by rw [← hf1t, touch_isStatic, touch_isStatic]
    have e_rd : f1t.returndata = f.returndata := by rw [← hf1t, touch_returndata, touch_returndata]
    have e_mem : f1t.mem = f.mem := by rw [← hf1t, touch_mem, touch_mem]
    have e_pc : f1t.pc = f.pc := by rw [← hf1t, touch_pc, touch_pc]
    have e_depth : f1t.depth = f.depth := by rw [← hf1t, touch_depth, touch_depth]
    have hRk : R I cs.env cs.code p { cs.st with stack := rest } f1t :=
      hR.next' ⟨e_code, e_caller, e_value, e_this, e_cd, e_static, e_rd⟩ rfl rfl rfl e_mem rfl
        (by rw [e_pc]; exact hR.pc) (by rw [← hf1t, touch_stack, touch_stack]; exact hrest)
    refine ⟨hrel, hsat, h7, ht, ⟨f1, f2, f3⟩, hme, ⟨b1, b2, b3⟩, cwf, fun hbb => ctrue (hbb.le _), hRk,
      ⟨e_code, e_caller, e_value, e_this, e_cd, e_static, e_depth⟩, e_pc, e_mem, ?_⟩
    -- not a value-bearing CALL in a static frame
    rw [e_static, ← hR.env.isStatic]
    by_cases hs1 : op = 0xf1
    · have : ¬ cs.env.isStatic = true := fun h => hst ⟨h, hs1⟩
      simp [this]
    · simp [hs1]

end

section
variable {I : Interp} {p : Evm.Params} {S : Nat → Prop} {w0 : Evm.World}
variable {cs : CState} {w : Evm.World} {f : Evm.Frame} {kcs : List CCont}
variable {s : Simp} {o : Oracle} {cfg : Cfg} {codes : List (Nat × List Nat)}
variable {op t v : Nat} {fv : T} {ao al ro rl : Nat} {rest : List HV} {f1t : Evm.Frame} {bc : T} {conds1 : List B}

/-- the reference's funds check, as a Boolean -/
theorem ValueCtx.fund_bool (hx : ValueCtx I p S w0 s cs w f kcs op t v fv ao al ro rl rest f1t bc conds1) :
    ((decide (op = 0xf1) || decide (op = 0xf2)) && decide (v ≠ 0) && decide (w.balanceOf f1t.this < v)) =
      decide (w.balanceOf f.this < v) := by
  rw [hx.ectx.2.2.2.1]
  have h1 : (decide (op = 0xf1) || decide (op = 0xf2)) = true := by
    rcases hx.h7 with h | h <;> simp [h]
  rw [h1]
  by_cases hlt : w.balanceOf f.this < v
  · have : v ≠ 0 := by omega
    simp [hlt, this]
  · simp [hlt]

/-- the main path's successor (either kind) against the reference: related, and with the same completions -/
theorem ValueCtx.main_ok (hs : SimpSound s) (ho : OracleSound o) (hb : BalHyp I cfg w0) (hdep : 1024 ≤ p.maxDepth)
    (hcodes : ∀ a, w.codeOf a = codeOf codes a) (hS : ∀ a prog, codeOf codes a = some prog → S a)
    (hcb : ∀ a prog, codeOf codes a = some prog → ∀ b ∈ prog, b < 256)
    (hx : ValueCtx I p S w0 s cs w f kcs op t v fv ao al ro rl rest f1t bc conds1)
    {crest : List Nat} (hf1t : f1t = (({ f with stack := crest } : Evm.Frame).touch ao al).touch ro rl)
    (hstep : Evm.step p w f = .call op w { f with stack := crest } t v ao al ro rl)
    (hm1 : Evm.memOk p ao al = true) (hm2 : Evm.memOk p ro rl = true) (h5 : ¬ cs.depth + 1 > 1024)
    (hle : v ≤ w.balanceOf f.this)
    (hsat2 : Sat I (addCond s (conds1.foldl (addCond s) cs.st) (s.b (.cmp .uge bc fv))).path)
    {conds2 : List B} {bal' : List (T × T)}
    (htr : (op = 0xf1 ∧ ∃ bt, balanceOfM s o cfg (addCond s (conds1.foldl (addCond s) cs.st) (s.b (.cmp .uge bc fv))).path
            ((cs.env.address, .bin .sub bc fv) :: cs.bal) (.lit 160 t) = some (bt, conds2) ∧
          bal' = (.lit 160 t, .bin .add bt fv) :: (cs.env.address, .bin .sub bc fv) :: cs.bal) ∨
       (op ≠ 0xf1 ∧ conds2 = [] ∧ bal' = cs.bal))
    {cs' : CState}
    (hcs' : (codeOf codes t = none ∧ cs' = { cs with st := { (mainSt s cs bc fv conds1 conds2) with pc := cs.st.pc + 1, stack := .bv 256 (.con 1) :: rest, returndata := [] }, bal := bal' }) ∨
      (∃ prog, codeOf codes t = some prog ∧
        cs' = calleeOfG s { cs with st := mainSt s cs bc fv conds1 conds2, bal := bal' } op t ao al ro rl rest prog fv cs.bal)) :
    (∀ c ∈ conds2, c.WF) ∧ (BalBound w → ∀ c ∈ conds2, c.eval I = true) ∧
    ∃ w' f' kcs', RelC I p S w0 cs' w' f' kcs' ∧ (∀ r, RunStack p w f kcs r ↔ RunStack p w' f' kcs' r) ∧
      (BBAllT w kcs → BBAllT w' kcs') := by
  obtain ⟨hc2, hwf, hWT, hc2t, hbbT⟩ := hx.main_world hs ho hb hle hsat2 htr
  have hfund : ((decide (op = 0xf1) || decide (op = 0xf2)) && decide (v ≠ 0) &&
      decide (w.balanceOf f1t.this < v)) = false := by
    rw [hx.fund_bool]; simp; exact hle
  have hd : ¬ f1t.depth + 1 > p.maxDepth := by
    rw [hx.ectx.2.2.2.2.2.2, hx.hrel.depth]; omega
  have hwcode : w.codeOf t = codeOf codes t := hcodes t
  subst hf1t
  have hiff := fun r => runStack_callv (p := p) hstep hm1 hm2 hx.hstat hfund hd kcs r
  rw [hx.ectx.2.2.2.1] at hiff
  refine ⟨hc2, hc2t, ?_⟩
  rcases hcs' with ⟨hc, rfl⟩ | ⟨prog, hc, rfl⟩
  · refine ⟨_, _, kcs, hx.main_nocode hs hc2 hWT hwf (callWorld_fields op w f.this t v).1, fun r => (hiff r).trans ?_,
      fun hbb => ⟨hbbT hbb.1, hbb.2⟩⟩
    have hstop : Evm.step p (callWorld op w f.this t v)
        (calleeFrameV op ((({ f with stack := crest } : Evm.Frame).touch ao al).touch ro rl) w t v ao al) =
        .halt (callWorld op w f.this t v) (.success []) := by
      apply evm_stop
      · simp [calleeFrameV, hwcode, hc]
      · simp [calleeFrameV]
    exact runStack_halt_cons hstop _ kcs r
  · exact ⟨_, _, _, hx.main_callee hs hS hcb hc2 hWT hwf (callWorld_fields op w f.this t v).1 hc hwcode, hiff, fun hbb => ⟨hbbT hbb.1, fun kc hm => by
      rcases List.mem_cons.1 hm with rfl | hm
      · exact hbb.1
      · exact hbb.2 kc hm⟩⟩

end

/-! ### LOG0..LOG4 -/

theorem isLogOp_iff (op : Nat) : isLogOp op = true ↔ IsLog op := by
  unfold isLogOp IsLog
  simp only [Bool.and_eq_true, decide_eq_true_eq]
  omega

/-- one more event in the world's log and in the model's -/
theorem WRelM.log {I : Interp} {S : Nat → Prop} {w0 w : Evm.World} {v : Nat → AcctSto}
    {lg : List (Nat × List Nat × List Nat)} {bs : Nat → Nat} (h : WRelM I S w0 w v lg bs)
    (x : Nat × List Nat × List Nat) :
    WRelM I S w0 { w with logs := w.logs ++ [x] } v (lg ++ [x]) bs :=
  ⟨h.hsto, h.htr, h.wf, h.other, h.code, h.created,
   by show w.logs ++ [x] = w0.logs ++ (lg ++ [x]); rw [h.logs, List.append_assoc], h.bal, h.keys⟩

section
variable {I : Interp} {p : Evm.Params} {S : Nat → Prop} {w0 : Evm.World}
variable {cs : CState} {w : Evm.World} {f : Evm.Frame} {kcs : List CCont}
variable {s : Simp} {cfg : Cfg}

/-- **LOG.** -/
theorem logOut_corr (hs : SimpSound s) (hmem : cfg.maxMem + 32 ≤ p.memLimit)
    (hrel : RelC I p S w0 cs w f kcs) {op : Nat} (hop : opAt cs.code cs.st.pc = op) (hlog : IsLog op)
    (hl : ¬ cs.st.stack.length > 1024) :
    CallCorr I p S w0 cs w f kcs (logOut s cfg cs op) := by
  have hR := hrel.hR
  have hopc : (f.code[f.pc]?).getD 0 = op := hR.op_eq.trans hop
  have hlen := hR.stack.length
  have hlc : ¬ f.stack.length > 1024 := by rw [← hlen]; exact hl
  have hstk := hR.stack
  unfold logOut
  simp only
  by_cases hst : cs.env.isStatic = true
  · rw [if_pos hst]
    by_cases hshort : cs.st.stack.length < op - 0xa0 + 2
    · rw [if_pos hshort]
      exact Or.inl ⟨_, rfl, rfl, Or.inr (fun h => Tag.noConfusion h)⟩
    · rw [if_neg hshort]
      refine Or.inr (Or.inl ⟨.writeInStatic, rfl, rfl, ?_⟩)
      rw [hlen] at hshort
      match hfs : f.stack, hshort with
      | [], h0 => simp at h0
      | [_], h0 => simp at h0
      | off :: len :: s', h0 =>
        simp only [List.length_cons] at h0
        exact evm_log_static hopc hlog hlc hfs (by omega) (by rw [← hR.env.isStatic]; exact hst)
  · rw [if_neg hst]
    have hns : f.isStatic = false := by
      rw [← hR.env.isStatic]; simpa using hst
    cases hcs : cs.st.stack with
    | nil =>
      refine Or.inr (Or.inl ⟨.stackUnderflow, rfl, rfl, evm_log_short hopc hlog hlc ?_⟩)
      rw [← hlen, hcs]; simp
    | cons lv r1 =>
      rw [hcs] at hstk
      obtain ⟨off, c1, hc1, hwo, hr1⟩ := hstk.cons_inv
      simp only
      split
      · rename_i sz1 loc heq1
        have e1 := toBV256_con hs hwo heq1
        subst e1
        cases r1 with
        | nil =>
          have := hr1.nil_inv
          subst this
          refine Or.inr (Or.inl ⟨.stackUnderflow, rfl, rfl, evm_log_short hopc hlog hlc ?_⟩)
          rw [hc1]; simp
        | cons zv r2 =>
          obtain ⟨len, c2, hc2, hwl, hr2⟩ := hr1.cons_inv
          subst hc2
          simp only
          split
          · rename_i sz2 size heq2
            have e2 := toBV256_con hs hwl heq2
            subst e2
            by_cases hn : r2.length < op - 0xa0
            · rw [if_pos hn]
              refine Or.inr (Or.inl ⟨.stackUnderflow, rfl, rfl, evm_log_short hopc hlog hlc ?_⟩)
              rw [hc1]; simp only [List.length_cons]; rw [← hr2.length]; omega
            rw [if_neg hn]
            by_cases hm : size ≠ 0 ∧ loc + size > cfg.maxMem
            · rw [if_pos hm]
              exact Or.inl ⟨_, rfl, rfl, Or.inr (fun h => Tag.noConfusion h)⟩
            rw [if_neg hm]
            have hok : size = 0 ∨ loc + size ≤ p.memLimit := by
              by_cases h0 : size = 0
              · exact Or.inl h0
              · right; have : ¬ loc + size > cfg.maxMem := fun h => hm ⟨h0, h⟩
                omega
            have hstep := evm_log_ok (p := p) (w := w) hopc hlog hlc hc1 (by rw [← hr2.length]; exact hn) hns hok
            refine Or.inr (Or.inr ⟨_, _, _, kcs, rfl, rfl, ?_, fun r => runStack_next hstep kcs r,
              fun hbb => ⟨hbb.1.congr (fun a => rfl), hbb.2⟩⟩)
            refine ⟨?_, ?_, hrel.inS, ?_, hrel.hcode, ?_, hrel.hbal, hrel.hcr, hrel.hH.mono_world rfl, hrel.conts⟩
            · exact hR.next' ⟨touch_code .., touch_caller .., touch_value .., touch_this .., touch_calldata ..,
                touch_isStatic .., touch_returndata ..⟩ rfl rfl rfl (touch_mem ..) rfl (by show f.pc + 1 = _; rw [hR.pc])
                (hr2.drop _)
            · show (f.touch loc size).this = cs.this
              rw [touch_this]; exact hrel.this
            · show (f.touch loc size).depth = cs.depth
              rw [touch_depth]; exact hrel.depth
            · have hx : evalLog I ⟨cs.env.address, r2.take (op - 0xa0), readMem cs.st.mem loc size⟩ =
                  (f.this, c2.take (op - 0xa0), Evm.readBytes f.mem loc size) := by
                simp only [evalLog]
                rw [hR.env.address.2.2, (hr2.take _).denote_map, (readMem_rel hR.mem loc size).2]
              have := (hrel.hW.log (f.this, c2.take (op - 0xa0), Evm.readBytes f.mem loc size))
              simp only [evalLogs, List.map_append, List.map_cons, List.map_nil]
              rw [hx]
              exact this.congr (fun a _ => rfl)
          · exact Or.inl ⟨_, rfl, rfl, Or.inl ⟨_, rfl⟩⟩
      · exact Or.inl ⟨_, rfl, rfl, Or.inl ⟨_, rfl⟩⟩

end

/-! ### EXTCODESIZE / EXTCODECOPY -/

theorem isExtOp_iff (op : Nat) : isExtOp op = true ↔ (op = 0x3b ∨ op = 0x3c) := by
  simp [isExtOp]

/-- literal bytes against themselves -/
theorem bytes_lit_rel {I : Interp} {prog : List Nat} (hb : ∀ b ∈ prog, b < 256) (off size : Nat) :
    MemRel I ((List.range size).map fun i => T.lit 8 ((prog[off + i]?).getD 0)) (Evm.readBytes prog off size) := by
  refine ⟨?_, ?_⟩
  · intro b hb'
    simp only [List.mem_map] at hb'
    obtain ⟨i, _, rfl⟩ := hb'
    exact ⟨(by decide : 0 < 8), rfl⟩
  · simp only [Evm.readBytes, List.map_map]
    apply List.map_congr_left
    intro i _
    simp only [Function.comp, T.eval]
    have : (prog[off + i]?).getD 0 < 256 := by
      cases hg : prog[off + i]? with
      | none => simp
      | some b => simp only [Option.getD_some]; exact hb b (List.mem_of_getElem? hg)
    exact Nat.mod_eq_of_lt (by simpa using this)

theorem zero_bytes_rel {I : Interp} (off size : Nat) :
    MemRel I ((List.range size).map fun _ => T.lit 8 0) (Evm.readBytes [] off size) := by
  have := bytes_lit_rel (I := I) (prog := []) (fun b hb => absurd hb List.not_mem_nil) off size
  simpa using this

section
variable (I : Interp) (p : Evm.Params) (S : Nat → Prop) (w0 : Evm.World)
variable (cs : CState) (w : Evm.World) (f : Evm.Frame) (kcs : List CCont) (s : Simp) (o : Oracle) (cfg : Cfg)

/-- EXTCODESIZE / EXTCODECOPY: as `CallCorr`, or the copy tail shared with CALLDATACOPY / CODECOPY -/
def ExtCorr (lo : LocalOut) : Prop :=
  CallCorr I p S w0 cs w f kcs lo ∨
  ∃ out, lo = liftOut cs out ∧ Corr I cs.env cs.code p w s o cfg cs.st f out ∧ Shape s o cfg cs.code cs.st out

end

section
variable {I : Interp} {p : Evm.Params} {S : Nat → Prop} {w0 : Evm.World}
variable {cs : CState} {w : Evm.World} {f : Evm.Frame} {kcs : List CCont}
variable {s : Simp} {o : Oracle} {cfg : Cfg} {codes : List (Nat × List Nat)}

theorem extOut_corr (hs : SimpSound s) (hmem : cfg.maxMem + 32 ≤ p.memLimit)
    (hcodes : ∀ a, w.codeOf a = codeOf codes a)
    (hcb : ∀ a prog, codeOf codes a = some prog → ∀ b ∈ prog, b < 256)
    (hrel : RelC I p S w0 cs w f kcs) (hsat : Sat I cs.st.path) {op : Nat} (hop : opAt cs.code cs.st.pc = op)
    (hext : op = 0x3b ∨ op = 0x3c) (hl : ¬ cs.st.stack.length > 1024) :
    ExtCorr I p S w0 cs w f kcs s o cfg (extOut s cfg codes cs op) := by
  have hR := hrel.hR
  have hopc : (f.code[f.pc]?).getD 0 = op := hR.op_eq.trans hop
  have hlen := hR.stack.length
  have hlc : ¬ f.stack.length > 1024 := by rw [← hlen]; exact hl
  have hstk := hR.stack
  have hwcode : ∀ t, w.codeOf t = codeOf codes t := hcodes
  unfold extOut
  simp only
  cases hcs : cs.st.stack with
  | nil =>
    refine Or.inl (Or.inr (Or.inl ⟨.stackUnderflow, rfl, rfl, ?_⟩))
    have h0 : f.stack = [] := by
      have := hlen; rw [hcs] at this; exact List.eq_nil_of_length_eq_zero this.symm
    rcases hext with rfl | rfl
    · rw [evm_extcodesize hopc hlc]; unfold Evm.op1; rw [h0]
    · exact evm_extcodecopy_short hopc hlc (by rw [h0]; simp)
  | cons av r0 =>
    rw [hcs] at hstk
    obtain ⟨a, c0, hc0, hwa, hr0⟩ := hstk.cons_inv
    simp only
    split
    · rename_i sz t heq
      obtain ⟨et, ht⟩ := reBV160_con hs hwa heq
      by_cases hch : (t == hevmAddr || t == svmAddr) = true
      · rw [if_pos hch]; exact Or.inl (Or.inl ⟨_, rfl, rfl, Or.inl ⟨_, rfl⟩⟩)
      rw [if_neg hch]
      by_cases h3b : op = 0x3b
      · rw [if_pos h3b]
        subst h3b
        have hstep : Evm.step p w f = .next w { f with
            stack := ((w.codeOf (Evm.addrMask a)).getD []).length % Evm.W :: c0, pc := f.pc + 1 } := by
          rw [evm_extcodesize hopc hlc]; unfold Evm.op1; rw [hc0]
        refine Or.inl (Or.inr (Or.inr ⟨_, w, _, kcs, rfl, rfl, ?_, fun r => runStack_next hstep kcs r,
          fun hbb => hbb⟩))
        refine hrel.step (CReach.single hstep) ?_ hrel.wrel
        refine hR.next' ⟨rfl, rfl, rfl, rfl, rfl, rfl, rfl⟩ rfl rfl rfl rfl rfl (by show f.pc + 1 = _; rw [hR.pc]) ?_
        refine StackRel.cons ?_ hr0
        have : Evm.addrMask a = t := by rw [et]; rfl
        rw [this, hwcode t]
        exact wordRel_con (Nat.mod_lt _ (by decide))
      rw [if_neg h3b]
      have h3c : op = 0x3c := by rcases hext with h | h; exact absurd h h3b; exact h
      subst h3c
      have hshort : f.stack.length < 4 → Evm.step p w f = .halt w .stackUnderflow :=
        evm_extcodecopy_short hopc hlc
      cases r0 with
      | nil =>
        have := hr0.nil_inv; subst this
        exact Or.inl (Or.inr (Or.inl ⟨.stackUnderflow, rfl, rfl, hshort (by rw [hc0]; simp)⟩))
      | cons lv r1 =>
        obtain ⟨loc', c1, hc1, hwl, hr1⟩ := hr0.cons_inv
        subst hc1
        simp only
        split
        · rename_i sz1 loc heq1
          have e1 := toBV256_con hs hwl heq1
          subst e1
          cases r1 with
          | nil =>
            have := hr1.nil_inv; subst this
            exact Or.inl (Or.inr (Or.inl ⟨.stackUnderflow, rfl, rfl, hshort (by rw [hc0]; simp)⟩))
          | cons ov r2 =>
            obtain ⟨off', c2, hc2, hwo, hr2⟩ := hr1.cons_inv
            subst hc2
            simp only
            split
            · rename_i sz2 off heq2
              have e2 := toBV256_con hs hwo heq2
              subst e2
              cases r2 with
              | nil =>
                have := hr2.nil_inv; subst this
                exact Or.inl (Or.inr (Or.inl ⟨.stackUnderflow, rfl, rfl, hshort (by rw [hc0]; simp)⟩))
              | cons sv rest =>
                obtain ⟨size', crest, hc3, hwz, hrest⟩ := hr2.cons_inv
                subst hc3
                simp only
                split
                · rename_i sz3 size heq3
                  have e3 := toBV256_con hs hwz heq3
                  subst e3
                  have hmask : Evm.addrMask a = t := by rw [et]; rfl
                  have hcstep := fun hok => evm_extcodecopy (p := p) (w := w) hopc hlc hc0 hok
                  rw [hmask, hwcode t] at hcstep
                  cases hc : codeOf codes t with
                  | some prog =>
                    simp only
                    rw [hc] at hcstep
                    exact Or.inr ⟨_, rfl, corr_copyToMem hR hsat hmem hrest (bytes_lit_rel (hcb t prog hc) off size)
                      hcstep, Shape.copy⟩
                  | none =>
                    simp only
                    rw [hc] at hcstep
                    exact Or.inr ⟨_, rfl, corr_copyToMem hR hsat hmem hrest (zero_bytes_rel off size) hcstep,
                      Shape.copy⟩
                · exact Or.inl (Or.inl ⟨_, rfl, rfl, Or.inl ⟨_, rfl⟩⟩)
            · exact Or.inl (Or.inl ⟨_, rfl, rfl, Or.inl ⟨_, rfl⟩⟩)
        · exact Or.inl (Or.inl ⟨_, rfl, rfl, Or.inl ⟨_, rfl⟩⟩)
    · exact Or.inl (Or.inl ⟨_, rfl, rfl, Or.inl ⟨_, rfl⟩⟩)

end

/-! ### CREATE -/

section
variable {I : Interp} {p : Evm.Params} {S : Nat → Prop} {w0 : Evm.World}
variable {cs : CState} {w : Evm.World} {f : Evm.Frame} {kcs : List CCont}
variable {s : Simp} {o : Oracle} {cfg : Cfg} {codes : List (Nat × List Nat)}

theorem isCreateOp_iff (op : Nat) : isCreateOp op = true ↔ op = 0xf0 := by simp [isCreateOp]

/-- a balance array over a start world whose balances are words holds words -/
theorem balSem_lt_base (hb0 : ∀ a, w0.balanceOf a < 2 ^ 256) : ∀ {chain : List (T × T)}, ChainWF chain → ∀ a,
    balSem I w0 chain a < 2 ^ 256
  | [], _, a => hb0 a
  | (k, v) :: rest, hc, a => by
    obtain ⟨_, _, a3, a4⟩ := hc (k, v) (List.mem_cons_self ..)
    simp only [balSem]
    split
    · have := T.eval_lt I v a3
      rw [a4] at this; exact this
    · exact balSem_lt_base hb0 (fun kv hm => hc kv (List.mem_cons_of_mem _ hm)) a

/-- `fund = popi()` is the literal 0 -/
theorem fundOf_none (hs : SimpSound s) {fv : HV} {v : Nat} (hwv : WordRel I fv v) (h : fundOf s fv = none) :
    v = 0 := by
  obtain ⟨r', er, wf, d⟩ := (toBV256_ok hs I hwv.1 hwv.2.1).ok_inj
  unfold fundOf at h
  rw [er] at h
  cases r' with
  | con n =>
    cases n with
    | zero => rw [← hwv.2.2, ← d]; rfl
    | succ n => simp at h
  | sym t' => simp at h

/-- the world the constructor starts in, against the maps of the model: the new account is there with no code and
    empty maps, nothing else has changed but (`hbal'`) the balances -/
theorem WRelM.createWorld {cr : List (Nat × List Nat)} {n : Nat} {w' : Evm.World} {v : Nat → AcctSto}
    {lg : List (Nat × List Nat × List Nat)} {bs bs' : Nat → Nat} (h : WRelM I S (wd w0 cr n) w' v lg bs)
    {me addr val : Nat} (hS : S addr) (hbal' : ∀ a, (createWorld w' me addr val).balanceOf a = bs' a) :
    WRelM I S (wd w0 ((addr, []) :: cr) n) (createWorld w' me addr val)
      (fun b => if b = addr then {} else v b) lg bs' := by
  have h2 := h.setCode addr []
  refine ⟨fun a ha slot hlt => ?_, fun a ha slot => ?_, fun a ha kv hk => ?_, fun a slot ha => ?_, fun x => h2.code x,
    h.created, h.logs, hbal', fun a ha kv hk => ?_⟩
  rotate_left 4
  · by_cases e : a = addr
    · simp only [if_pos e] at hk; exact absurd hk List.not_mem_nil
    · simp only [if_neg e] at hk; exact h.keys a ha kv hk
  · show Evm.lookupD (w'.storage.filter _) (a, slot) = _
    rw [lookupD_filter_acct]
    by_cases e : a = addr
    · simp only [if_pos e]; rfl
    · simp only [if_neg e]; exact h.hsto a ha slot hlt
  · show Evm.lookupD (w'.transient.filter _) (a, slot) = _
    rw [lookupD_filter_acct]
    by_cases e : a = addr
    · simp only [if_pos e]; rfl
    · simp only [if_neg e]; exact h.htr a ha slot
  · by_cases e : a = addr
    · simp only [if_pos e] at hk; rcases hk with hk | hk <;> exact absurd hk List.not_mem_nil
    · simp only [if_neg e] at hk; exact h.wf a ha kv hk
  · have e : a ≠ addr := fun e => ha (e ▸ hS)
    constructor
    · show Evm.lookupD (w'.storage.filter _) (a, slot) = _
      rw [lookupD_filter_acct, if_neg e]; exact (h.other a slot ha).1
    · show Evm.lookupD (w'.transient.filter _) (a, slot) = _
      rw [lookupD_filter_acct, if_neg e]; exact (h.other a slot ha).2

/-- the cells of the other accounts are what they were; the new account has none -/
theorem hFlat_filter_acct (I : Interp) (p : Evm.Params) (chain : List HCell) (addr a slot : Nat) :
    hFlat I p (chain.filter (fun c => c.acct != addr)) a slot = if a = addr then 0 else hFlat I p chain a slot := by
  induction chain with
  | nil => simp [hFlat]
  | cons c rest ih =>
    by_cases hc : c.acct = addr
    · have h1 : (c.acct != addr) = false := by simp [hc]
      simp only [List.filter_cons, h1, Bool.false_eq_true, if_false, ih, hFlat]
      by_cases e : a = addr
      · simp [e]
      · have : ¬ (c.acct = a ∧ hLoc p c.kind (c.key.eval I) c.base = slot) := fun h => e (h.1 ▸ hc)
        simp [e, this]
    · have h1 : (c.acct != addr) = true := by simp [hc]
      simp only [List.filter_cons, h1, if_true, hFlat, ih]
      by_cases e : a = addr
      · have : ¬ (c.acct = a ∧ hLoc p c.kind (c.key.eval I) c.base = slot) := fun h => hc (h.1.trans e)
        rw [if_neg this, if_pos e, if_pos e]
      · rw [if_neg e, if_neg e]

theorem HRel.createWorld {p : Evm.Params} {w' : Evm.World} {chain : List HCell} (h : HRel I p S w' chain)
    (me addr val : Nat) : HRel I p S (createWorld w' me addr val) (chain.filter (fun c => c.acct != addr)) := by
  refine ⟨fun c hc => h.1 c (List.mem_filter.1 hc).1, fun a ha slot hge => ?_⟩
  show Evm.lookupD (w'.storage.filter _) (a, slot) = _
  rw [lookupD_filter_acct, hFlat_filter_acct]
  by_cases e : a = addr
  · simp only [if_pos e]
  · simp only [if_neg e]; exact h.2 a ha slot hge

/-- the constructor frame `SEVM.create` starts against the frame the reference starts: `csx` is the creator at the
    CREATE (attempt counted, value moved), `g` the concrete creator with the operands popped and the memory touched,
    `wS` the world saved for a rollback, `wT` the world the constructor starts in -/
theorem relC_create (hs : SimpSound s)
    {csx : CState} {wS wT : Evm.World} {g : Evm.Frame} {addr : Nat} {rest : List HV} {init : List Nat}
    {cv : T} {v : Nat} {sb : List (T × T)}
    (hRk : R I csx.env csx.code p { csx.st with stack := rest } g) (hthis : g.this = csx.this) (hinS : S csx.this)
    (hdepth : g.depth = csx.depth) (hcode : ∀ b ∈ csx.code, b < 256)
    (hWT : WRelM I S (wd w0 ((addr, []) :: csx.created) csx.nonce) wT
      (fun b => if b = addr then {} else viewOf csx b) (evalLogs I csx.logs) (balSem I w0 csx.bal))
    (hbal : ChainWF csx.bal) (hcrx : CrOK S csx.created)
    (hWS : WRelM I S (wd w0 csx.created csx.nonce) wS (viewOf csx) (evalLogs I csx.logs) (balSem I w0 sb))
    (hsb : ChainWF sb) (hHT : HRel I p S wT (csx.hsto.filter (fun c => c.acct != addr)))
    (hHS : HRel I p S wS csx.hsto)
    (hconts : List.Forall₂ (ContRel I p S w0) csx.conts kcs)
    (ha : addr < 2 ^ 160) (haS : S addr) (hinit : ∀ b ∈ init, b < 256)
    (hcv : cv.WF ∧ cv.width ≤ 256 ∧ cv.eval I = v) :
    RelC I p S w0 (createFrame s csx addr rest init cv sb) wT (createFrameC g addr v init)
      (⟨wS, g, 0, 0, some addr⟩ :: kcs) := by
  have hstores : ∀ a, stoOf (stoSet csx.stores csx.this
      { storage := csx.st.storage, transient := csx.st.transient }) a = viewOf csx a := by
    intro a; rw [stoOf_stoSet]; rfl
  have henv : EnvRel I (createFrame s csx addr rest init cv sb).env p (createFrameC g addr v init) := by
    simp only [createFrame]
    refine ⟨hRk.env.address, hRk.env.origin, hcv,
      ⟨(by decide : 0 < 160), (by decide : 160 ≤ 256), Nat.mod_eq_of_lt ha⟩, fun off => ?_, fun i => ?_, rfl, rfl⟩
    · have hw := readMem_rel (MemRel.nil I) off 32
      obtain ⟨a1, a2, a3⟩ := wordOfBytes_rel (I := I) hs hw.1 (readMem_length _ _ _)
      refine ⟨a1, a2, ?_⟩
      rw [a3, hw.2]; rfl
    · exact (MemRel.nil I).getD i
  simp only [createFrame] at henv ⊢
  refine ⟨⟨rfl, rfl, StackRel.nil, henv, hRk.subst.same rfl rfl, MemRel.nil I, MemRel.nil I⟩, rfl, haS, ?_, hinit, ?_,
    hbal, hcrx.cons haS (fun b hb => absurd hb List.not_mem_nil), hHT,
    List.Forall₂.cons ⟨hRk, hthis, hinS, hdepth, hcode, rfl, rfl,
      (hWS.setCreated w0.created).congr (fun a _ => hstores a), hsb, rfl,
      (fun a h => by cases h; exact ⟨haS, ha⟩), hcrx, hHS.mono_world rfl⟩ hconts⟩
  · show g.depth + 1 = csx.depth + 1
    rw [hdepth]
  · refine hWT.congr (fun a _ => ?_)
    simp only [viewOf]
    by_cases e : a = addr
    · simp only [if_pos e]
    · simp only [if_neg e, stoOf_stoSet, hstores]; rfl

end

section
variable {I : Interp} {p : Evm.Params} {S : Nat → Prop} {w0 : Evm.World}
variable {cs : CState} {w : Evm.World} {f : Evm.Frame} {kcs : List CCont}
variable {s : Simp} {o : Oracle} {cfg : Cfg} {codes : List (Nat × List Nat)}

/-- what the simulation of CREATE assumes (all of it only when `cfg.create` is on): the reference's allocator hands out
    the model's addresses — its counter is the start world's plus the model's `nonce`; the allocator's addresses are
    modelled accounts; the start world's balances are words -/
def CreateHyp (cfg : Cfg) (p : Evm.Params) (S : Nat → Prop) (w0 : Evm.World) : Prop :=
  cfg.create = true →
    (∀ n, p.newAddress (w0.created + n) = (cfg.allocBase + n) % 2 ^ 160) ∧
    (∀ n, S ((cfg.allocBase + n) % 2 ^ 160)) ∧ ∀ a, w0.balanceOf a < 2 ^ 256

theorem CreateHyp.off (hnc : cfg.create = false) : CreateHyp cfg p S w0 := by
  intro h; rw [hnc] at h; cases h

/-- `fund = popi()` is not the literal 0: the value as a term -/
theorem fundOf_some (hs : SimpSound s) {fv : HV} {v : Nat} (hwv : WordRel I fv v) {fvt : T}
    (h : fundOf s fv = some fvt) : fvt.WF ∧ fvt.width = 256 ∧ fvt.eval I = v := by
  obtain ⟨r', er, wf, d⟩ := (toBV256_ok hs I hwv.1 hwv.2.1).ok_inj
  unfold fundOf at h
  rw [er] at h
  have hfv : fvt = asZ3 256 r' := by
    cases r' with
    | con n =>
      cases n with
      | zero => simp at h
      | succ n => simpa using h.symm
    | sym t' => simpa using h.symm
  obtain ⟨z1, z2, z3⟩ := asZ3_ok (I := I) wf
  exact ⟨by rw [hfv]; exact z1, by rw [hfv]; exact z2, by rw [hfv, z3, d, hwv.2.2]⟩

/-- a CREATE whose value is not the literal 0, all operands decoded: the value term `fv` denotes the concrete value
    `v`, the reference is at the CREATE, the init code is the bytes `init` of its memory -/
def CreateValueCase (I : Interp) (p : Evm.Params) (s : Simp) (o : Oracle) (cfg : Cfg) (codes : List (Nat × List Nat))
    (cs : CState) (w : Evm.World) (f : Evm.Frame) (lo : LocalOut) : Prop :=
  ∃ (v : Nat) (fv : T) (off len : Nat) (rest : List HV) (crest : List Nat) (init : List Nat),
    lo = createGoV s o cfg codes { cs with nonce := cs.nonce + 1 } 0xf0
      ((cfg.allocBase + (cs.nonce + 1)) % 2 ^ 160) fv rest init ∧
    StackRel I rest crest ∧ fv.WF ∧ fv.width = 256 ∧ fv.eval I = v ∧
    Evm.step p w f = .create 0xf0 w { f with stack := crest } v off len 0 ∧ Evm.memOk p off len = true ∧
    Evm.readBytes f.mem off len = init ∧ (∀ b ∈ init, b < 256) ∧ f.isStatic = false

/-- the codes a frame sees are the codes of the world, of modelled accounts, and bytes -/
theorem dyn_codes (hcodes : ∀ a, w0.codeOf a = codeOf codes a) (hS : ∀ a prog, codeOf codes a = some prog → S a)
    (hcb : ∀ a prog, codeOf codes a = some prog → ∀ b ∈ prog, b < 256) (hrel : RelC I p S w0 cs w f kcs) :
    (∀ a, w.codeOf a = codeOf (codesOf cfg codes cs) a) ∧
    (∀ a prog, codeOf (codesOf cfg codes cs) a = some prog → S a) ∧
    (∀ a prog, codeOf (codesOf cfg codes cs) a = some prog → ∀ b ∈ prog, b < 256) := by
  unfold codesOf
  refine ⟨fun a => ?_, fun a prog h => ?_, fun a prog h => ?_⟩
  · rw [hrel.hW.code, wd_codeOf, codeOf_append, hcodes]
  · rw [codeOf_append] at h
    cases hc : codeOf cs.created a with
    | none => rw [hc] at h; exact hS a prog h
    | some q => rw [hc] at h; cases h; exact (hrel.hcr a _ hc).1
  · rw [codeOf_append] at h
    cases hc : codeOf cs.created a with
    | none => rw [hc] at h; exact hcb a prog h
    | some q => rw [hc] at h; cases h; exact (hrel.hcr a _ hc).2

/-- **CREATE** (under `CreateHyp`), everything but a value other than the literal 0 -/
theorem createOut_corr_aux (hs : SimpSound s) (hmem : cfg.maxMem + 32 ≤ p.memLimit) (hdep : 1024 ≤ p.maxDepth)
    (hcodes : ∀ a, w.codeOf a = codeOf codes a) (hch : CreateHyp cfg p S w0)
    (hnv : ¬ CreateValueCase I p s o cfg codes cs w f (createOut s o cfg codes cs 0xf0))
    (hrel : RelC I p S w0 cs w f kcs) (hop : opAt cs.code cs.st.pc = 0xf0) (hl : ¬ cs.st.stack.length > 1024) :
    CallCorr I p S w0 cs w f kcs (createOut s o cfg codes cs 0xf0) := by
  have hR := hrel.hR
  have hopc : (f.code[f.pc]?).getD 0 = 0xf0 := hR.op_eq.trans hop
  have hlen := hR.stack.length
  have hlc : ¬ f.stack.length > 1024 := by rw [← hlen]; exact hl
  unfold createOut
  simp only
  by_cases hcfg : cfg.create = true
  swap
  · have hc' : cfg.create = false := by simpa using hcfg
    simp only [hc', Bool.not_false, if_true]
    exact Or.inl ⟨_, rfl, rfl, Or.inl ⟨_, rfl⟩⟩
  simp only [hcfg, Bool.not_true, Bool.false_eq_true, if_false]
  obtain ⟨hal, hSa, hb0⟩ := hch hcfg
  have hbw : ∀ a, w.balanceOf a < 2 ^ 256 := fun a => by
    rw [hrel.hW.bal]; exact balSem_lt_base hb0 hrel.hbal a
  by_cases hst : cs.env.isStatic = true
  · rw [if_pos hst]
    by_cases h3 : cs.st.stack.length < 3
    · rw [if_pos h3]; exact Or.inl ⟨_, rfl, rfl, Or.inr (fun h => Tag.noConfusion h)⟩
    · rw [if_neg h3]
      exact Or.inr (Or.inl ⟨_, rfl, rfl,
        evm_create_static hopc hlc (by rw [← hlen]; omega) (by rw [← hR.env.isStatic]; exact hst)⟩)
  rw [if_neg hst]
  have hns : f.isStatic = false := by rw [← hR.env.isStatic]; simpa using hst
  have hunder : f.stack.length < 3 → Evm.step p w f = .halt w .stackUnderflow := evm_create_short hopc hlc
  have hs0 := hR.stack
  cases hstk : cs.st.stack with
  | nil => exact Or.inr (Or.inl ⟨_, rfl, rfl, hunder (by rw [← hlen, hstk]; simp)⟩)
  | cons fv r1 =>
    cases r1 with
    | nil => exact Or.inr (Or.inl ⟨_, rfl, rfl, hunder (by rw [← hlen, hstk]; simp)⟩)
    | cons lv r2 =>
      cases r2 with
      | nil => exact Or.inr (Or.inl ⟨_, rfl, rfl, hunder (by rw [← hlen, hstk]; simp)⟩)
      | cons zv rest =>
        simp only
        rw [hstk] at hs0
        obtain ⟨v, c1, hc1, hwv, hs1⟩ := hs0.cons_inv
        obtain ⟨off, c2, hc2, hwo, hs2⟩ := hs1.cons_inv
        obtain ⟨len, crest, hc3, hwl, hrest⟩ := hs2.cons_inv
        subst hc3; subst hc2
        split
        · rename_i sz1 loc heq1
          have e1 : off = loc := (toBV256_con hs hwo heq1).symm
          subst e1
          split
          · rename_i sz2 size heq2
            have e2 : len = size := (toBV256_con hs hwl heq2).symm
            subst e2
            by_cases hml : len ≠ 0 ∧ off + len > cfg.maxMem
            · rw [if_pos hml]; exact Or.inl ⟨_, rfl, rfl, Or.inr (fun h => Tag.noConfusion h)⟩
            rw [if_neg hml]
            cases hlit : litBytes? (readMem cs.st.mem off len) with
            | none => exact Or.inl ⟨_, rfl, rfl, Or.inl ⟨_, rfl⟩⟩
            | some init0 =>
              simp only
              have hstep := evm_create (p := p) (w := w) hopc hlc hc1 hns
              have hm : Evm.memOk p off len = true := memOk_of (by
                by_cases h0 : len = 0
                · exact Or.inl h0
                · right; have : ¬ off + len > cfg.maxMem := fun h => hml ⟨h0, h⟩
                  omega)
              have hinit0 : Evm.readBytes f.mem off len = init0.map (· % 256) := by
                have hmr := readMem_rel hR.mem off len
                rw [← hmr.2]; exact litBytes_mod hlit
              cases hfund : fundOf s fv with
              | some fvt =>
                obtain ⟨z1, z2, z3⟩ := fundOf_some hs hwv hfund
                refine absurd ⟨v, fvt, off, len, rest, crest, _, ?_, hrest, z1, z2, z3, hstep, hm, hinit0,
                  mod256_lt init0, hns⟩ hnv
                unfold createOut
                simp only [hcfg, Bool.not_true, Bool.false_eq_true, if_false, hst, hstk, heq1, heq2, hml, hlit, hfund]
              | none =>
                simp only
                have hv0 := fundOf_none hs hwv hfund
                subst hv0
                generalize hg : (({ f with stack := crest } : Evm.Frame).touch off len) = g at *
                have e_code : g.code = f.code := by rw [← hg, touch_code]
                have e_caller : g.caller = f.caller := by rw [← hg, touch_caller]
                have e_value : g.value = f.value := by rw [← hg, touch_value]
                have e_this : g.this = f.this := by rw [← hg, touch_this]
                have e_cd : g.calldata = f.calldata := by rw [← hg, touch_calldata]
                have e_static : g.isStatic = f.isStatic := by rw [← hg, touch_isStatic]
                have e_rd : g.returndata = f.returndata := by rw [← hg, touch_returndata]
                have e_mem : g.mem = f.mem := by rw [← hg, touch_mem]
                have e_pc : g.pc = f.pc := by rw [← hg, touch_pc]
                have e_depth : g.depth = f.depth := by rw [← hg, touch_depth]
                have hRk : R I cs.env cs.code p { cs.st with stack := rest } g :=
                  hR.next' ⟨e_code, e_caller, e_value, e_this, e_cd, e_static, e_rd⟩ rfl rfl rfl e_mem rfl
                    (by rw [e_pc]; exact hR.pc) (by rw [← hg, touch_stack]; exact hrest)
                have hcrw : w.created = w0.created + cs.nonce := hrel.hW.created
                have haddr : p.newAddress (w.created + 1) = (cfg.allocBase + (cs.nonce + 1)) % 2 ^ 160 := by
                  rw [hcrw, Nat.add_assoc]; exact hal _
                have hw0' : ({ w with created := w.created + 1 } : Evm.World) =
                    { w with created := w0.created + (cs.nonce + 1) } := by rw [hcrw, Nat.add_assoc]
                have hWn : WRelM I S (wd w0 cs.created (cs.nonce + 1)) { w with created := w.created + 1 }
                    (viewOf cs) (evalLogs I cs.logs) (balSem I w0 cs.bal) := by
                  rw [hw0']; exact hrel.hW.setCreated _
                have halt : (cfg.allocBase + (cs.nonce + 1)) % 2 ^ 160 < 2 ^ 160 := Nat.mod_lt _ (by norm_num)
                by_cases htk : (codeOf codes ((cfg.allocBase + (cs.nonce + 1)) % 2 ^ 160)).isSome = true
                · -- the address is taken
                  rw [if_pos htk]
                  have hcol : (({ w with created := w.created + 1 } : Evm.World).codeOf
                      (p.newAddress (w.created + 1))).isSome = true := by
                    rw [haddr]; show (w.codeOf _).isSome = true; rw [hcodes]; exact htk
                  have hiff := fun r => runStack_of_halts (p := p)
                    (halts_create_fail hstep hm (by rw [hg]; exact Or.inr (Or.inr hcol))) kcs r
                  rw [hg] at hiff
                  refine Or.inr (Or.inr ⟨_, { w with created := w.created + 1 }, failFrame g, kcs, rfl, rfl, ?_, hiff,
                    fun hbb => ⟨hbb.1.congr (fun a => rfl), hbb.2⟩⟩)
                  exact relC_goOn (csx := { cs with nonce := cs.nonce + 1 }) (ok := false) (g' := failFrame g) hRk
                    (e_this.trans hrel.this) hrel.inS (e_depth.trans hrel.depth) hrel.hcode hWn hrel.hbal hrel.hcr
                    (hrel.hH.mono_world rfl) hrel.conts ⟨rfl, rfl, rfl, rfl, rfl, rfl, rfl⟩ rfl rfl rfl rfl rfl
                rw [if_neg htk]
                by_cases h5 : cs.depth + 1 > 1024
                · rw [if_pos h5]; exact Or.inl ⟨_, rfl, rfl, Or.inl ⟨_, rfl⟩⟩
                rw [if_neg h5]
                have hfund' : ¬ w.balanceOf g.this < 0 := Nat.not_lt_zero _
                have hd : ¬ g.depth + 1 > p.maxDepth := by rw [e_depth, hrel.depth]; omega
                have hcol : (({ w with created := w.created + 1 } : Evm.World).codeOf
                    (p.newAddress (w.created + 1))).isSome = false := by
                  rw [haddr]; show (w.codeOf _).isSome = false; rw [hcodes]; simpa using htk
                have hiff := fun r => runStack_push (p := p)
                  (halts_create hstep hm (by rw [hg]; exact hfund') (by rw [hg]; exact hd) hcol)
                  kcs r
                rw [hg, haddr] at hiff
                have hinit : Evm.readBytes g.mem off len = init0.map (· % 256) := by
                  rw [e_mem]
                  have hmr := readMem_rel hR.mem off len
                  rw [← hmr.2]; exact litBytes_mod hlit
                rw [hinit] at hiff
                have hbeq : ∀ a, (createWorld { w with created := w.created + 1 } g.this
                    ((cfg.allocBase + (cs.nonce + 1)) % 2 ^ 160) 0).balanceOf a = w.balanceOf a := by
                  intro a
                  show ((({ w with created := w.created + 1 } : Evm.World).setCode _ []).transfer g.this _ 0).balanceOf a = _
                  rw [balanceOf_transfer]
                  have hb : ∀ x, (({ w with created := w.created + 1 } : Evm.World).setCode
                      ((cfg.allocBase + (cs.nonce + 1)) % 2 ^ 160) []).balanceOf x = w.balanceOf x := fun _ => rfl
                  simp only [hb, Nat.sub_zero, Nat.add_zero]
                  split
                  · rename_i e
                    subst e
                    split
                    · rename_i e'; rw [← e']; exact Nat.mod_eq_of_lt (hbw _)
                    · exact Nat.mod_eq_of_lt (hbw _)
                  · split
                    · rename_i e; rw [e]
                    · rfl
                refine Or.inr (Or.inr ⟨_, _, _, _, rfl, rfl, ?_, hiff, fun hbb =>
                  ⟨hbb.1.congr hbeq, fun kc hm => by
                    rcases List.mem_cons.1 hm with rfl | hm
                    · exact hbb.1.congr (fun a => rfl)
                    · exact hbb.2 kc hm⟩⟩)
                exact relC_create (csx := { cs with nonce := cs.nonce + 1 }) hs hRk (e_this.trans hrel.this) hrel.inS
                  (e_depth.trans hrel.depth) hrel.hcode
                  (hWn.createWorld (hSa _) (fun a => (hbeq a).trans (hrel.hW.bal a))) hrel.hbal hrel.hcr hWn hrel.hbal
                  ((hrel.hH.mono_world (w' := { w with created := w.created + 1 }) rfl).createWorld _ _ _)
                  (hrel.hH.mono_world rfl) hrel.conts halt (hSa _) (mod256_lt init0) ⟨(by decide : 0 < 256), Nat.le_refl _, rfl⟩
          · exact Or.inl ⟨_, rfl, rfl, Or.inl ⟨_, rfl⟩⟩
        · exact Or.inl ⟨_, rfl, rfl, Or.inl ⟨_, rfl⟩⟩

end

section
variable {I : Interp} {p : Evm.Params} {S : Nat → Prop} {w0 : Evm.World}
variable {cs : CState} {w : Evm.World} {f : Evm.Frame} {kcs : List CCont}
variable {s : Simp} {o : Oracle} {cfg : Cfg} {codes : List (Nat × List Nat)}

/-- **CREATE**: everything but a value other than the literal 0 (`CallCorr`), or that (`CreateValueCase`) -/
theorem createOut_corr (hs : SimpSound s) (hmem : cfg.maxMem + 32 ≤ p.memLimit) (hdep : 1024 ≤ p.maxDepth)
    (hcodes : ∀ a, w.codeOf a = codeOf codes a) (hch : CreateHyp cfg p S w0)
    (hrel : RelC I p S w0 cs w f kcs) (hop : opAt cs.code cs.st.pc = 0xf0) (hl : ¬ cs.st.stack.length > 1024) :
    CallCorr I p S w0 cs w f kcs (createOut s o cfg codes cs 0xf0) ∨
      CreateValueCase I p s o cfg codes cs w f (createOut s o cfg codes cs 0xf0) := by
  by_cases hv : CreateValueCase I p s o cfg codes cs w f (createOut s o cfg codes cs 0xf0)
  · exact Or.inr hv
  · exact Or.inl (createOut_corr_aux hs hmem hdep hcodes hch hv hrel hop hl)

theorem createGoV_off (hb : cfg.balances = false) {op addr : Nat} {fv : T} {rest : List HV} {init : List Nat} :
    createGoV s o cfg codes cs op addr fv rest init = localStuck cs.st (.unsupported op) := by
  simp [createGoV, hb]

theorem createGoV_eq {op addr : Nat} {fv : T} {rest : List HV} {init : List Nat} (hbal : cfg.balances = true)
    (hw : cs.env.address.width = 160) {bc : T} {conds1 : List B}
    (hbo : balanceOfM s o cfg cs.st.path cs.bal cs.env.address = some (bc, conds1)) :
    createGoV s o cfg codes cs op addr fv rest init =
      { next := failNextOf s o cs bc fv conds1 rest ++ (createMain s o cfg codes cs op addr fv rest init bc conds1).next,
        ends := (createMain s o cfg codes cs op addr fv rest init bc conds1).ends } := by
  unfold createGoV
  have h1 : ¬ (!cfg.balances) = true := by simp [hbal]
  have h3 : ¬ cs.env.address.width ≠ 160 := by simp [hw]
  simp only [h1, h3, if_false, hbo]
  rfl

/-- what the main path of a value-bearing CREATE is: the collision successor; an error report; nothing (the sufficiency
    condition is literally false); or the constructor frame after the conditions `conds2` of the second balance read -/
theorem createMain_cases (s : Simp) (o : Oracle) (cfg : Cfg) (codes : List (Nat × List Nat)) (cs : CState)
    (op addr : Nat) (fv : T) (rest : List HV) (init : List Nat) (bc : T) (conds1 : List B) :
    ((codeOf codes addr).isSome = true ∧ createMain s o cfg codes cs op addr fv rest init bc conds1 =
        { next := [{ cs with st := { (conds1.foldl (addCond s) cs.st) with pc := cs.st.pc + 1, stack := .bv 256 (.con 0) :: rest, returndata := [] } }] }) ∨
    (∃ e, createMain s o cfg codes cs op addr fv rest init bc conds1 = { ends := [e] } ∧ e.st = cs.st ∧
        ∃ r', e.out = .stuck r') ∨
    ((codeOf codes addr).isSome = false ∧ createMain s o cfg codes cs op addr fv rest init bc conds1 = {} ∧
        s.b (.cmp .uge bc fv) = .lit false) ∨
    ((codeOf codes addr).isSome = false ∧ ¬ cs.depth + 1 > 1024 ∧ ∃ (conds2 : List B) (bt : T),
      balanceOfM s o cfg (addCond s (conds1.foldl (addCond s) cs.st) (s.b (.cmp .uge bc fv))).path
          ((cs.env.address, .bin .sub bc fv) :: cs.bal) (.lit 160 addr) = some (bt, conds2) ∧
      createMain s o cfg codes cs op addr fv rest init bc conds1 =
        { next := [createFrame s { cs with st := mainSt s cs bc fv conds1 conds2,
                                           bal := (.lit 160 addr, .bin .add bt fv) :: (cs.env.address, .bin .sub bc fv) :: cs.bal }
                     addr rest init fv cs.bal] }) := by
  unfold createMain
  simp only
  by_cases h4 : (codeOf codes addr).isSome = true
  · rw [if_pos h4]; exact Or.inl ⟨h4, rfl⟩
  rw [if_neg h4]
  have h4' : (codeOf codes addr).isSome = false := by simpa using h4
  by_cases h5 : cs.depth + 1 > 1024
  · rw [if_pos h5]; exact Or.inr (Or.inl ⟨_, rfl, rfl, _, rfl⟩)
  rw [if_neg h5]
  by_cases hf : s.b (.cmp .uge bc fv) = .lit false
  · rw [if_pos hf]; exact Or.inr (Or.inr (Or.inl ⟨h4', rfl, hf⟩))
  rw [if_neg hf]
  unfold transferM
  simp only
  cases hbo : balanceOfM s o cfg (addCond s (conds1.foldl (addCond s) cs.st) (s.b (.cmp .uge bc fv))).path
      ((cs.env.address, .bin .sub bc fv) :: cs.bal) (.lit 160 addr) with
  | none => exact Or.inr (Or.inl ⟨_, rfl, rfl, _, rfl⟩)
  | some bc2 =>
    obtain ⟨bt, conds2⟩ := bc2
    exact Or.inr (Or.inr (Or.inr ⟨h4', h5, conds2, bt, rfl, rfl⟩))

variable {op t v : Nat} {fv : T} {ao al ro rl : Nat} {rest : List HV} {f1t : Evm.Frame} {bc : T} {conds1 : List B}

/-- the collision successor of a value-bearing CREATE against the reference's creator going on with 0 -/
theorem ValueCtx.collide_rel (hs : SimpSound s)
    (hx : ValueCtx I p S w0 s cs w f kcs op t v fv ao al ro rl rest f1t bc conds1) :
    RelC I p S w0
      { cs with st := { (conds1.foldl (addCond s) cs.st) with
                          pc := cs.st.pc + 1, stack := .bv 256 (.con 0) :: rest, returndata := [] } }
      w (failFrame f1t) kcs := by
  obtain ⟨c1, c2, c3, c4, c5, c6, c7⟩ := hx.ectx
  refine hx.hrel.withConds hs hx.hc1 (X := cs.st)
    (st' := { (conds1.foldl (addCond s) cs.st) with
                pc := cs.st.pc + 1, stack := .bv 256 (.con 0) :: rest, returndata := [] })
    rfl rfl rfl rfl ⟨_, rfl, rfl, rfl, rfl, rfl⟩
    ⟨c1, c2, c3, c4, c5, c6, c7⟩ ?_ ?_ ?_ (MemRel.nil I)
  · show f1t.pc + 1 = cs.st.pc + 1
    rw [hx.epc, hx.hrel.hR.pc]
  · exact StackRel.cons (wordRel_con (by norm_num)) hx.hRk.stack
  · show MemRel I (conds1.foldl (addCond s) cs.st).mem f1t.mem
    rw [addConds_mem, hx.emem]; exact hx.hrel.hR.mem

/-- the constructor frame of the main path -/
theorem ValueCtx.create_frame (hs : SimpSound s)
    (hx : ValueCtx I p S w0 s cs w f kcs op t v fv ao al ro rl rest f1t bc conds1) {conds2 : List B}
    (hc2 : ∀ c ∈ conds2, c.WF) {wT : Evm.World} {bal' : List (T × T)}
    (hWT : WRelM I S (wd w0 ((t, []) :: cs.created) cs.nonce) wT (fun b => if b = t then {} else viewOf cs b)
      (evalLogs I cs.logs) (balSem I w0 bal')) (hwf : ChainWF bal') (haS : S t) {init : List Nat}
    (hinit : ∀ b ∈ init, b < 256) (hHT : HRel I p S wT (cs.hsto.filter (fun c => c.acct != t))) :
    RelC I p S w0
      (createFrame s { cs with st := mainSt s cs bc fv conds1 conds2, bal := bal' } t rest init fv cs.bal)
      wT (createFrameC f1t t v init) (⟨w, f1t, 0, 0, some t⟩ :: kcs) := by
  obtain ⟨c1, c2, c3, c4, c5, c6, c7⟩ := hx.ectx
  have h1 : RelC I p S w0 { cs with st := { (mainSt s cs bc fv conds1 conds2) with stack := rest } } w f1t kcs := by
    refine hx.hrel.withConds hs (hx.main_wf hs hc2) (X := cs.st) rfl rfl rfl rfl
      ⟨_, rfl, by rw [mainSt_eq], by rw [mainSt_eq], by rw [mainSt_eq], by rw [mainSt_eq]⟩
      ⟨c1, c2, c3, c4, c5, c6, c7⟩ ?_ hx.hRk.stack ?_ ?_
    · show f1t.pc = (mainSt s cs bc fv conds1 conds2).pc
      rw [mainSt_eq, addConds_pc]; exact hx.hRk.pc
    · show MemRel I (mainSt s cs bc fv conds1 conds2).mem f1t.mem
      rw [mainSt_eq, addConds_mem]; exact hx.hRk.mem
    · show MemRel I (mainSt s cs bc fv conds1 conds2).returndata f1t.returndata
      rw [mainSt_eq, addConds_returndata]; exact hx.hRk.retdata
  have hview : ∀ a, viewOf { cs with st := mainSt s cs bc fv conds1 conds2, bal := bal' } a = viewOf cs a := by
    intro a
    simp only [viewOf, mainSt_eq, (addConds_storage s _ cs.st).1, (addConds_storage s _ cs.st).2]
  exact relC_create (csx := { cs with st := mainSt s cs bc fv conds1 conds2, bal := bal' }) hs h1.hR
    (c4.trans hx.hrel.this) hx.hrel.inS (c7.trans hx.hrel.depth) hx.hrel.hcode
    (hWT.congr (fun a _ => by by_cases e : a = t <;> simp [e, hview])) hwf hx.hrel.hcr
    (hx.hrel.hW.congr (fun a _ => hview a)) hx.hrel.hbal hHT hx.hrel.hH hx.hrel.conts hx.ht haS hinit
    ⟨hx.hfv.1, by rw [hx.hfv.2.1], hx.hfv.2.2⟩

end

section
variable {I : Interp} {p : Evm.Params} {S : Nat → Prop} {w0 : Evm.World}
variable {cs : CState} {w : Evm.World} {f : Evm.Frame} {kcs : List CCont}
variable {s : Simp} {o : Oracle} {cfg : Cfg} {codes : List (Nat × List Nat)}

/-- the creator with the attempt counted / the world with the address handed out / the address -/
abbrev crCs (cs : CState) : CState := { cs with nonce := cs.nonce + 1 }
abbrev crW (w : Evm.World) : Evm.World := { w with created := w.created + 1 }
abbrev crAddr (cfg : Cfg) (cs : CState) : Nat := (cfg.allocBase + (cs.nonce + 1)) % 2 ^ 160

/-- counting the attempt on both sides -/
theorem RelC.bump (hrel : RelC I p S w0 cs w f kcs) : RelC I p S w0 (crCs cs) (crW w) f kcs := by
  have hcrw : w.created = w0.created + cs.nonce := hrel.hW.created
  have hw0' : crW w = { w with created := w0.created + (cs.nonce + 1) } := by
    show ({ w with created := w.created + 1 } : Evm.World) = _
    rw [hcrw, Nat.add_assoc]
  refine ⟨hrel.hR, hrel.this, hrel.inS, hrel.depth, hrel.hcode, ?_, hrel.hbal, hrel.hcr, hrel.hH.mono_world rfl,
    hrel.conts⟩
  rw [hw0']; exact hrel.hW.setCreated _

/-- a value-bearing CREATE, decoded: an end about which nothing is claimed, or the two parts with everything known
    (`ValueCtx` for the creator with the attempt counted, as for a CALL to the new address) -/
theorem createValue_ctx (hs : SimpSound s) (ho : OracleSound o) (hb : BalHyp I cfg w0) (hbal : cfg.balances = true)
    (hrel : RelC I p S w0 cs w f kcs) (hsat : Sat I cs.st.path) {lo : LocalOut}
    (hv : CreateValueCase I p s o cfg codes cs w f lo) :
    (∃ e, lo = { ends := [e] } ∧ e.st = cs.st ∧ ((∃ r', e.out = .stuck r') ∨ e.tag ≠ .normal)) ∨
    ∃ (v : Nat) (fv : T) (off len : Nat) (rest : List HV) (crest : List Nat) (init : List Nat) (bc : T)
      (conds1 : List B),
      lo = { next := failNextOf s o (crCs cs) bc fv conds1 rest ++
                       (createMain s o cfg codes (crCs cs) 0xf0 (crAddr cfg cs) fv rest init bc conds1).next,
             ends := (createMain s o cfg codes (crCs cs) 0xf0 (crAddr cfg cs) fv rest init bc conds1).ends } ∧
      ValueCtx I p S w0 s (crCs cs) (crW w) f kcs 0xf1 (crAddr cfg cs) v fv off len 0 0 rest
        (({ f with stack := crest } : Evm.Frame).touch off len) bc conds1 ∧
      Evm.step p w f = .create 0xf0 w { f with stack := crest } v off len 0 ∧ Evm.memOk p off len = true ∧
      Evm.readBytes f.mem off len = init ∧ (∀ b ∈ init, b < 256) := by
  obtain ⟨v, fv, off, len, rest, crest, init, rfl, hrest, f1, f2, f3, hstep, hm, hinit, hib, hns⟩ := hv
  by_cases hw : cs.env.address.width = 160
  swap
  · unfold createGoV
    have h1 : ¬ (!cfg.balances) = true := by simp [hbal]
    have hw' : cs.env.address.width ≠ 160 := hw
    simp only [h1, if_false, hw', ne_eq, not_false_eq_true, if_true]
    exact Or.inl ⟨_, rfl, rfl, Or.inl ⟨_, rfl⟩⟩
  have hR := hrel.hR
  have hme : cs.env.address.WF ∧ cs.env.address.width = 160 ∧ cs.env.address.eval I = f.this :=
    ⟨hR.env.address.1, hw, hR.env.address.2.2⟩
  cases hbo : balanceOfM s o cfg cs.st.path cs.bal cs.env.address with
  | none =>
    unfold createGoV
    have h1 : ¬ (!cfg.balances) = true := by simp [hbal]
    have hw' : ¬ cs.env.address.width ≠ 160 := by simp [hw]
    simp only [h1, if_false, hw', hbo]
    exact Or.inl ⟨_, rfl, rfl, Or.inl ⟨_, rfl⟩⟩
  | some bcc =>
    obtain ⟨bc, conds1⟩ := bcc
    obtain ⟨b1, b2, b3, cwf, ctrue⟩ := balanceOfM_ok hs ho hb hsat hrel.hbal hme.1 hme.2.1 hbo
    rw [hme.2.2, ← hrel.hW.bal f.this] at b3 ctrue
    refine Or.inr ⟨v, fv, off, len, rest, crest, init, bc, conds1,
      createGoV_eq (cs := crCs cs) hbal hw hbo, ?_, hstep, hm, hinit, hib⟩
    generalize hg : (({ f with stack := crest } : Evm.Frame).touch off len) = g
    have e_code : g.code = f.code := by rw [← hg, touch_code]
    have e_caller : g.caller = f.caller := by rw [← hg, touch_caller]
    have e_value : g.value = f.value := by rw [← hg, touch_value]
    have e_this : g.this = f.this := by rw [← hg, touch_this]
    have e_cd : g.calldata = f.calldata := by rw [← hg, touch_calldata]
    have e_static : g.isStatic = f.isStatic := by rw [← hg, touch_isStatic]
    have e_rd : g.returndata = f.returndata := by rw [← hg, touch_returndata]
    have e_mem : g.mem = f.mem := by rw [← hg, touch_mem]
    have e_pc : g.pc = f.pc := by rw [← hg, touch_pc]
    have e_depth : g.depth = f.depth := by rw [← hg, touch_depth]
    have hRk : R I cs.env cs.code p { cs.st with stack := rest } g :=
      hR.next' ⟨e_code, e_caller, e_value, e_this, e_cd, e_static, e_rd⟩ rfl rfl rfl e_mem rfl
        (by rw [e_pc]; exact hR.pc) (by rw [← hg, touch_stack]; exact hrest)
    refine ⟨hrel.bump, hsat, Or.inl rfl, Nat.mod_lt _ (by norm_num), ⟨f1, f2, f3⟩, hme, ⟨b1, b2, b3⟩, cwf,
      fun hbb => ctrue (hbb.le _), hRk, ⟨e_code, e_caller, e_value, e_this, e_cd, e_static, e_depth⟩, e_pc, e_mem, ?_⟩
    rw [e_static, hns]; simp

variable {v : Nat} {fv : T} {off len : Nat} {rest : List HV} {bc : T} {conds1 : List B}

/-- the constructor frame of a value-bearing CREATE against the reference: related, and with the same completions -/
theorem ValueCtx.create_ok (hs : SimpSound s) (ho : OracleSound o) (hb : BalHyp I cfg w0) (hdep : 1024 ≤ p.maxDepth)
    (hcodes : ∀ a, w.codeOf a = codeOf codes a) (hch : CreateHyp cfg p S w0) (hcr : cfg.create = true)
    (hrel : RelC I p S w0 cs w f kcs) {crest : List Nat}
    (hx : ValueCtx I p S w0 s (crCs cs) (crW w) f kcs 0xf1 (crAddr cfg cs) v fv off len 0 0 rest
      (({ f with stack := crest } : Evm.Frame).touch off len) bc conds1)
    (hstep : Evm.step p w f = .create 0xf0 w { f with stack := crest } v off len 0)
    (hm : Evm.memOk p off len = true) {init : List Nat} (hinit : Evm.readBytes f.mem off len = init)
    (hib : ∀ b ∈ init, b < 256) (h4 : (codeOf codes (crAddr cfg cs)).isSome = false) (h5 : ¬ cs.depth + 1 > 1024)
    (hle : v ≤ w.balanceOf f.this)
    (hsat2 : Sat I (addCond s (conds1.foldl (addCond s) cs.st) (s.b (.cmp .uge bc fv))).path)
    {conds2 : List B} {bt : T}
    (hbo : balanceOfM s o cfg (addCond s (conds1.foldl (addCond s) cs.st) (s.b (.cmp .uge bc fv))).path
      ((cs.env.address, .bin .sub bc fv) :: cs.bal) (.lit 160 (crAddr cfg cs)) = some (bt, conds2)) :
    (∀ c ∈ conds2, c.WF) ∧ (BalBound w → ∀ c ∈ conds2, c.eval I = true) ∧
    ∃ w' f' kcs', RelC I p S w0
        (createFrame s { (crCs cs) with st := mainSt s (crCs cs) bc fv conds1 conds2, bal := (.lit 160 (crAddr cfg cs), .bin .add bt fv) :: (cs.env.address, .bin .sub bc fv) :: cs.bal }
          (crAddr cfg cs) rest init fv cs.bal) w' f' kcs' ∧
      (∀ r, RunStack p w f kcs r ↔ RunStack p w' f' kcs' r) ∧ (BBAllT w kcs → BBAllT w' kcs') := by
  obtain ⟨hal, hSa, hb0⟩ := hch hcr
  obtain ⟨hc2, hwf, hWTc, hc2t, hbbT⟩ := hx.main_world hs ho hb (t := crAddr cfg cs) hle hsat2
    (Or.inl ⟨rfl, bt, hbo, rfl⟩)
  have hbw : ∀ a, w.balanceOf a < 2 ^ 256 := fun a => by
    rw [hrel.hW.bal]; exact balSem_lt_base hb0 hrel.hbal a
  obtain ⟨c1, c2, c3, c4, c5, c6, c7⟩ := hx.ectx
  generalize hg : (({ f with stack := crest } : Evm.Frame).touch off len) = g at *
  have hcrw : w.created = w0.created + cs.nonce := hrel.hW.created
  have haddr : p.newAddress (w.created + 1) = crAddr cfg cs := by
    rw [hcrw, Nat.add_assoc]; exact hal _
  have hfund' : ¬ w.balanceOf g.this < v := by rw [c4]; omega
  have hd : ¬ g.depth + 1 > p.maxDepth := by rw [c7, hrel.depth]; omega
  have hcol : ((crW w).codeOf (p.newAddress (w.created + 1))).isSome = false := by
    rw [haddr]; show (w.codeOf _).isSome = false; rw [hcodes]; exact h4
  have hiff := fun r => runStack_push (p := p)
    (halts_create hstep hm (by rw [hg]; exact hfund') (by rw [hg]; exact hd) hcol) kcs r
  rw [hg, haddr] at hiff
  have hinit' : Evm.readBytes g.mem off len = init := by rw [hx.emem]; exact hinit
  rw [hinit'] at hiff
  -- the balances of the world the constructor starts in are those after the transfer of a CALL
  have hbeq : ∀ a, (createWorld (crW w) g.this (crAddr cfg cs) v).balanceOf a =
      (callWorld 0xf1 (crW w) f.this (crAddr cfg cs) v).balanceOf a := by
    intro a
    show (((crW w).setCode (crAddr cfg cs) []).transfer g.this (crAddr cfg cs) v).balanceOf a = _
    rw [balanceOf_transfer, c4]
    have hb' : ∀ x, ((crW w).setCode (crAddr cfg cs) []).balanceOf x = w.balanceOf x := fun _ => rfl
    have hb'' : ∀ x, (crW w).balanceOf x = w.balanceOf x := fun _ => rfl
    simp only [hb']
    by_cases hv0 : v = 0
    · subst hv0
      have : callWorld 0xf1 (crW w) f.this (crAddr cfg cs) 0 = crW w := by simp [callWorld]
      rw [this, hb'']
      simp only [Nat.sub_zero, Nat.add_zero]
      split
      · rename_i e
        subst e
        split
        · rename_i e'; rw [← e']; exact Nat.mod_eq_of_lt (hbw _)
        · exact Nat.mod_eq_of_lt (hbw _)
      · split
        · rename_i e; rw [e]
        · rfl
    · have : callWorld 0xf1 (crW w) f.this (crAddr cfg cs) v = (crW w).transfer f.this (crAddr cfg cs) v := by
        simp [callWorld, hv0]
      rw [this, balanceOf_transfer]
      simp only [hb'']
  refine ⟨hc2, fun hbb => hc2t (hbb.congr (fun a => rfl)), _, _, _,
    hx.create_frame hs hc2 (hx.hrel.hW.createWorld (hSa _) (fun a => (hbeq a).trans (hWTc.bal a))) hwf (hSa _) hib
      (hx.hrel.hH.createWorld _ _ _),
    hiff, fun hbb => ⟨((hbbT (hbb.1.congr (fun a => rfl))).congr hbeq), fun kc hm' => by
      rcases List.mem_cons.1 hm' with rfl | hm'
      · exact hbb.1.congr (fun a => rfl)
      · exact hbb.2 kc hm'⟩⟩

end

/-! ### shapes, relation-free -/

/-- what an instruction the frame-stack machine decodes itself does to the path and to the suspended callers: every
    successor extends the path and keeps the suspended callers or pushes one; every end carries the path -/
def LocalShape (cs : CState) (lo : LocalOut) : Prop :=
  (∀ c ∈ lo.next, (∃ ext, c.st.path = cs.st.path ++ ext) ∧ (c.conts = cs.conts ∨ ∃ k, c.conts = k :: cs.conts)) ∧
  (∀ e ∈ lo.ends, e.st.path = cs.st.path)

theorem localShape_end {cs : CState} {e : EndState} (h : e.st = cs.st) : LocalShape cs { ends := [e] } :=
  ⟨fun c hc => by simp at hc, fun e' he => by rw [List.mem_singleton.1 he, h]⟩

theorem localShape_next {cs cs' : CState} (hp : ∃ ext, cs'.st.path = cs.st.path ++ ext)
    (hk : cs'.conts = cs.conts ∨ ∃ k, cs'.conts = k :: cs.conts) : LocalShape cs { next := [cs'] } :=
  ⟨fun c hc => by rw [List.mem_singleton.1 hc]; exact ⟨hp, hk⟩, fun e he => by simp at he⟩

theorem localShape_lift {s : Simp} {o : Oracle} {cfg : Cfg} {cs : CState} {out : StepOut}
    (h : Shape s o cfg cs.code cs.st out) : LocalShape cs (liftOut cs out) := by
  refine ⟨fun c hc => ?_, fun e he => (shape_end_keeps h he).1⟩
  obtain ⟨st', hm', rfl⟩ := List.mem_map.1 hc
  exact ⟨shape_next_path h hm', Or.inl rfl⟩

section
variable {s : Simp} {o : Oracle} {cfg : Cfg} {codes : List (Nat × List Nat)} {cs : CState} {op t : Nat}
variable {fund : Option T}

macro "shape_leaf" : tactic =>
  `(tactic| first
    | exact localShape_end rfl
    | exact localShape_next ⟨[], (List.append_nil _).symm⟩ (Or.inl rfl)
    | exact localShape_next ⟨[], (List.append_nil _).symm⟩ (Or.inr ⟨_, rfl⟩))

theorem callGoV_shape {fv : T} {ao al ro rl : Nat} {rest : List HV} :
    LocalShape cs (callGoV s o cfg codes cs op t fv ao al ro rl rest) := by
  by_cases hbal : cfg.balances = true
  swap
  · unfold callGoV
    have : (!cfg.balances) = true := by simpa using hbal
    simp only [this, if_true]; exact localShape_end rfl
  by_cases hst : cs.env.isStatic = true ∧ op = 0xf1
  · unfold callGoV
    have : ¬ (!cfg.balances) = true := by simp [hbal]
    simp only [this, if_false, hst, and_self, if_true]; exact localShape_end rfl
  by_cases hw : cs.env.address.width = 160
  swap
  · unfold callGoV
    have : ¬ (!cfg.balances) = true := by simp [hbal]
    have hw' : cs.env.address.width ≠ 160 := hw
    simp only [this, if_false, hst, hw', ne_eq, not_false_eq_true, if_true]; exact localShape_end rfl
  cases hbo : balanceOfM s o cfg cs.st.path cs.bal cs.env.address with
  | none =>
    unfold callGoV
    have : ¬ (!cfg.balances) = true := by simp [hbal]
    have hw' : ¬ cs.env.address.width ≠ 160 := by simp [hw]
    simp only [this, if_false, hst, hw', hbo]; exact localShape_end rfl
  | some bcc =>
    obtain ⟨bc, conds1⟩ := bcc
    rw [callGoV_eq hbal hst hw hbo]
    have hmainSt : ∀ conds2, ∃ ext, (mainSt s cs bc fv conds1 conds2).path = cs.st.path ++ ext := by
      intro conds2; rw [mainSt_eq]; exact addConds_path_ext s _ cs.st
    refine ⟨fun c hc => ?_, fun e he => ?_⟩
    · rcases List.mem_append.1 hc with hc | hc
      · unfold failNextOf at hc
        split at hc
        · simp at hc
        · rw [List.mem_singleton.1 hc]
          refine ⟨?_, Or.inl rfl⟩
          obtain ⟨e1, h1⟩ := addConds_path_ext s conds1 cs.st
          obtain ⟨e2, h2⟩ := addCond_path_ext s (conds1.foldl (addCond s) cs.st) (s.b (.cmp .ult bc fv))
          exact ⟨e1 ++ e2, by show (addCond s _ _).path = _; rw [h2, h1, List.append_assoc]⟩
      · rcases mainOf_cases s o cfg codes cs op t fv ao al ro rl rest bc conds1 with
          ⟨e, he, _⟩ | ⟨he, _⟩ | ⟨conds2, bal', _, _, hcode⟩
        · rw [he] at hc; simp at hc
        · rw [he] at hc; simp at hc
        · rcases hcode with ⟨_, he⟩ | ⟨prog, _, he⟩
          · rw [he] at hc
            rw [List.mem_singleton.1 hc]
            exact ⟨hmainSt conds2, Or.inl rfl⟩
          · rw [he] at hc
            rw [List.mem_singleton.1 hc]
            exact ⟨hmainSt conds2, Or.inr ⟨_, rfl⟩⟩
    · rcases mainOf_cases s o cfg codes cs op t fv ao al ro rl rest bc conds1 with
        ⟨e0, he0, hst0, _⟩ | ⟨he0, _⟩ | ⟨conds2, bal', _, _, hcode⟩
      · rw [he0] at he; rw [List.mem_singleton.1 he, hst0]
      · rw [he0] at he; simp at he
      · rcases hcode with ⟨_, he0⟩ | ⟨prog, _, he0⟩ <;> (rw [he0] at he; simp at he)

theorem callGo_shape {ao al ro rl : Nat} {rest : List HV} :
    LocalShape cs (callGo s o cfg codes cs op t fund ao al ro rl rest) := by
  unfold callGo
  simp only
  (repeat' split) <;> first | shape_leaf | exact callGoV_shape

theorem callArgs_shape {r : List HV} : LocalShape cs (callArgs s o cfg codes cs op t fund r) := by
  unfold callArgs
  simp only
  (repeat' split) <;> first | shape_leaf | exact callGo_shape

theorem callOut_shape : LocalShape cs (callOut s o cfg codes cs op) := by
  unfold callOut
  simp only
  (repeat' split) <;> first | shape_leaf | exact callArgs_shape

theorem logOut_shape : LocalShape cs (logOut s cfg cs op) := by
  unfold logOut
  simp only
  (repeat' split) <;> shape_leaf

theorem extOut_shape (o : Oracle) : LocalShape cs (extOut s cfg codes cs op) := by
  unfold extOut
  simp only
  (repeat' split) <;> first | shape_leaf | exact localShape_lift (s := s) (o := o) Shape.copy

theorem shaOut_shape : LocalShape cs (shaOut s cfg cs op) := by
  have go : ∀ (loc size : Nat) (rest : List HV), LocalShape cs
      (match shaData cfg (readMem cs.st.mem loc size) with
       | (none, _) => localStuck cs.st (.unsupported op)
       | (some v, conds) =>
         { next := [{ cs with st := match v with
             | .inl hv => { (conds.foldl (addCond s) { cs.st with stack := rest }) with
                              pc := (conds.foldl (addCond s) { cs.st with stack := rest }).pc + 1,
                              stack := hv :: (conds.foldl (addCond s) { cs.st with stack := rest }).stack }
             | .inr t => pushTerm s (conds.foldl (addCond s) { cs.st with stack := rest }) t }] }) := by
    intro loc size rest
    cases shaData cfg (readMem cs.st.mem loc size) with
    | mk vo conds =>
      cases vo with
      | none => exact localShape_end rfl
      | some v =>
        refine localShape_next ?_ (Or.inl rfl)
        cases v <;> exact addConds_path_ext s conds { cs.st with stack := rest }
  unfold shaOut
  simp only
  split
  · shape_leaf
  · split
    · shape_leaf
    · split
      · split
        · shape_leaf
        · split
          · split
            · shape_leaf
            · exact go _ _ _
          · shape_leaf
      · shape_leaf

theorem balOut_shape : LocalShape cs (balOut s o cfg cs op) := by
  have go : ∀ (k : T) (rest : List HV), LocalShape cs
      (match balanceOfM s o cfg cs.st.path cs.bal k with
       | none => localStuck cs.st (.unsupported op)
       | some (v, conds) =>
         { next := [{ cs with st := pushTerm s (conds.foldl (addCond s) { cs.st with stack := rest }) v }] }) := by
    intro k rest
    cases balanceOfM s o cfg cs.st.path cs.bal k with
    | none => exact localShape_end rfl
    | some vc =>
      obtain ⟨v, conds⟩ := vc
      exact localShape_next (addConds_path_ext s conds { cs.st with stack := rest }) (Or.inl rfl)
  unfold balOut
  simp only
  split
  · shape_leaf
  · split
    · split
      · shape_leaf
      · exact go _ _
    · split
      · shape_leaf
      · split
        · exact go _ _
        · shape_leaf

end

/-! ### what does not touch the created accounts, relation-free -/

/-- every successor keeps the created accounts and the attempt counter, and a suspended caller it pushes is a message
    call that has saved the created accounts (everything the frame-stack machine decodes itself but CREATE) -/
def LocalCr (cs : CState) (lo : LocalOut) : Prop :=
  ∀ c ∈ lo.next, c.created = cs.created ∧ c.nonce = cs.nonce ∧
    (c.conts = cs.conts ∨ ∃ k, c.conts = k :: cs.conts ∧ k.snapCreated = cs.created ∧ k.create = none)

theorem localCr_end {cs : CState} {es : List EndState} : LocalCr cs { ends := es } :=
  fun c hc => by simp at hc

theorem localCr_next {cs cs' : CState}
    (h : cs'.created = cs.created ∧ cs'.nonce = cs.nonce ∧
      (cs'.conts = cs.conts ∨ ∃ k, cs'.conts = k :: cs.conts ∧ k.snapCreated = cs.created ∧ k.create = none)) :
    LocalCr cs { next := [cs'] } :=
  fun c hc => by rw [List.mem_singleton.1 hc]; exact h

theorem localCr_lift {cs : CState} {out : StepOut} : LocalCr cs (liftOut cs out) := by
  intro c hc
  obtain ⟨st', _, rfl⟩ := List.mem_map.1 hc
  exact ⟨rfl, rfl, Or.inl rfl⟩

section
variable {s : Simp} {o : Oracle} {cfg : Cfg} {codes : List (Nat × List Nat)} {cs : CState} {op t : Nat}
variable {fund : Option T}

macro "cr_leaf" : tactic =>
  `(tactic| first
    | exact localCr_end
    | exact localCr_next ⟨rfl, rfl, Or.inl rfl⟩
    | exact localCr_next ⟨rfl, rfl, Or.inr ⟨_, rfl, rfl, rfl⟩⟩)

theorem callGoV_cr {fv : T} {ao al ro rl : Nat} {rest : List HV} :
    LocalCr cs (callGoV s o cfg codes cs op t fv ao al ro rl rest) := by
  by_cases hbal : cfg.balances = true
  swap
  · unfold callGoV
    have : (!cfg.balances) = true := by simpa using hbal
    simp only [this, if_true]; exact localCr_end
  by_cases hst : cs.env.isStatic = true ∧ op = 0xf1
  · unfold callGoV
    have : ¬ (!cfg.balances) = true := by simp [hbal]
    simp only [this, if_false, hst, and_self, if_true]; exact localCr_end
  by_cases hw : cs.env.address.width = 160
  swap
  · unfold callGoV
    have : ¬ (!cfg.balances) = true := by simp [hbal]
    have hw' : cs.env.address.width ≠ 160 := hw
    simp only [this, if_false, hst, hw', ne_eq, not_false_eq_true, if_true]; exact localCr_end
  cases hbo : balanceOfM s o cfg cs.st.path cs.bal cs.env.address with
  | none =>
    unfold callGoV
    have : ¬ (!cfg.balances) = true := by simp [hbal]
    have hw' : ¬ cs.env.address.width ≠ 160 := by simp [hw]
    simp only [this, if_false, hst, hw', hbo]; exact localCr_end
  | some bcc =>
    obtain ⟨bc, conds1⟩ := bcc
    rw [callGoV_eq hbal hst hw hbo]
    intro c hc
    rcases List.mem_append.1 hc with hc | hc
    · unfold failNextOf at hc
      split at hc
      · simp at hc
      · rw [List.mem_singleton.1 hc]
        exact ⟨rfl, rfl, Or.inl rfl⟩
    · rcases mainOf_cases s o cfg codes cs op t fv ao al ro rl rest bc conds1 with
        ⟨e, he, _⟩ | ⟨he, _⟩ | ⟨conds2, bal', _, _, hcode⟩
      · rw [he] at hc; simp at hc
      · rw [he] at hc; simp at hc
      · rcases hcode with ⟨_, he⟩ | ⟨prog, _, he⟩
        · rw [he] at hc
          rw [List.mem_singleton.1 hc]
          exact ⟨rfl, rfl, Or.inl rfl⟩
        · rw [he] at hc
          rw [List.mem_singleton.1 hc]
          exact ⟨rfl, rfl, Or.inr ⟨_, rfl, rfl, rfl⟩⟩

theorem callGo_cr {ao al ro rl : Nat} {rest : List HV} :
    LocalCr cs (callGo s o cfg codes cs op t fund ao al ro rl rest) := by
  unfold callGo
  simp only
  (repeat' split) <;> first | cr_leaf | exact callGoV_cr

theorem callArgs_cr {r : List HV} : LocalCr cs (callArgs s o cfg codes cs op t fund r) := by
  unfold callArgs
  simp only
  (repeat' split) <;> first | cr_leaf | exact callGo_cr

theorem callOut_cr : LocalCr cs (callOut s o cfg codes cs op) := by
  unfold callOut
  simp only
  (repeat' split) <;> first | cr_leaf | exact callArgs_cr

theorem logOut_cr : LocalCr cs (logOut s cfg cs op) := by
  unfold logOut
  simp only
  (repeat' split) <;> cr_leaf

theorem extOut_cr : LocalCr cs (extOut s cfg codes cs op) := by
  unfold extOut
  simp only
  (repeat' split) <;> first | cr_leaf | exact localCr_lift

theorem shaOut_cr : LocalCr cs (shaOut s cfg cs op) := by
  unfold shaOut
  simp only
  (repeat' split) <;> cr_leaf

theorem balOut_cr : LocalCr cs (balOut s o cfg cs op) := by
  unfold balOut
  simp only
  (repeat' split) <;> cr_leaf

end

/-! ### storage cells at hashed locations: cell level -/

/-- no other cell written on the path lies at the location of `m[k]` (mapping at `base` of `acct`): a cell of the
    same account at the same location is the same cell -/
def HNoColl (I : Interp) (p : Evm.Params) (chain : List HCell) (acct kind base : Nat) (k : T) : Prop :=
  ∀ c ∈ chain, c.acct = acct → hLoc p c.kind (c.key.eval I) c.base = hLoc p kind (k.eval I) base →
    c.kind = kind ∧ c.base = base ∧ c.key.eval I = k.eval I

section
variable {I : Interp} {p : Evm.Params} {s : Simp} {o : Oracle}

theorem HChainWF.tail {c : HCell} {rest : List HCell} (h : HChainWF (c :: rest)) : HChainWF rest :=
  fun x hx => h x (List.mem_cons_of_mem _ hx)

theorem HNoColl.tail {c : HCell} {rest : List HCell} {acct kind base : Nat} {k : T}
    (h : HNoColl I p (c :: rest) acct kind base k) : HNoColl I p rest acct kind base k :=
  fun x hx => h x (List.mem_cons_of_mem _ hx)

/-- the head cell is the one read exactly when it is a cell of the same mapping with an equal key -/
theorem hcell_hit {c : HCell} {rest : List HCell} {acct kind base : Nat} {k : T}
    (hn : HNoColl I p (c :: rest) acct kind base k) :
    (c.acct = acct ∧ hLoc p c.kind (c.key.eval I) c.base = hLoc p kind (k.eval I) base) ↔
      (c.acct = acct ∧ c.kind = kind ∧ c.base = base ∧ c.key.eval I = k.eval I) := by
  constructor
  · rintro ⟨h1, h2⟩
    exact ⟨h1, hn c (List.mem_cons_self ..) h1 h2⟩
  · rintro ⟨h1, h2, h3, h4⟩
    exact ⟨h1, by rw [h2, h3, h4]⟩

/-- `Select` on the array after the writes of the chain, the empty array reading 0 at the key (the emptiness condition
    `load` appends) -/
theorem hIte_ok : ∀ {chain : List HCell} {acct kind base : Nat} {k : T}, HChainWF chain → k.WF → k.width = 256 →
    HNoColl I p chain acct kind base k → I.uf1 (hEmptyName acct kind base) 256 (k.eval I) % 2 ^ 256 = 0 →
    (hIte acct kind base chain k).WF ∧ (hIte acct kind base chain k).width = 256 ∧
      (hIte acct kind base chain k).eval I = hFlat I p chain acct (hLoc p kind (k.eval I) base)
  | [], acct, kind, base, k, _, hk, _, _, he => ⟨⟨by decide, hk⟩, rfl, by simp only [hIte, T.eval, hFlat]; exact he⟩
  | c :: rest, acct, kind, base, k, hc, hk, hkw, hn, he => by
    obtain ⟨a1, a2, a3, a4⟩ := hc c (List.mem_cons_self ..)
    obtain ⟨b1, b2, b3⟩ := hIte_ok hc.tail hk hkw hn.tail he (chain := rest)
    have hhit := hcell_hit hn
    simp only [hIte, hFlat]
    by_cases hm : c.acct = acct ∧ c.kind = kind ∧ c.base = base
    · rw [if_pos hm]
      refine ⟨⟨⟨hk, a1, by rw [hkw, a2]⟩, a3, b1, by rw [a4, b2]⟩, a4, ?_⟩
      simp only [T.eval, B.eval, CmpOp.eval, b3]
      by_cases e : k.eval I = c.key.eval I
      · have : c.acct = acct ∧ hLoc p c.kind (c.key.eval I) c.base = hLoc p kind (k.eval I) base :=
          hhit.2 ⟨hm.1, hm.2.1, hm.2.2, e.symm⟩
        simp [e, this]
      · have : ¬ (c.acct = acct ∧ hLoc p c.kind (c.key.eval I) c.base = hLoc p kind (k.eval I) base) :=
          fun h => e (hhit.1 h).2.2.2.symm
        simp [e, this]
    · rw [if_neg hm]
      have : ¬ (c.acct = acct ∧ hLoc p c.kind (c.key.eval I) c.base = hLoc p kind (k.eval I) base) :=
        fun h => hm ⟨(hhit.1 h).1, (hhit.1 h).2.1, (hhit.1 h).2.2.1⟩
      rw [if_neg this]
      exact ⟨b1, b2, b3⟩

/-- **load after stores**: `Exec.select` on the array of the mapping denotes the value the flat storage holds at the
    location of the cell -/
theorem hSelect_ok (hs : SimpSound s) (ho : OracleSound o) {path : List B} (hsat : Sat I path) :
    ∀ {chain : List HCell} {acct kind base : Nat} {k : T}, HChainWF chain → k.WF → k.width = 256 →
    HNoColl I p chain acct kind base k → I.uf1 (hEmptyName acct kind base) 256 (k.eval I) % 2 ^ 256 = 0 →
    (hSelect s o path acct kind base chain k).WF ∧ (hSelect s o path acct kind base chain k).width = 256 ∧
      (hSelect s o path acct kind base chain k).eval I = hFlat I p chain acct (hLoc p kind (k.eval I) base)
  | [], acct, kind, base, k, _, _, _, _, _ => ⟨(by decide : 0 < 256), rfl, rfl⟩
  | c :: rest, acct, kind, base, k, hc, hk, hkw, hn, he => by
    obtain ⟨a1, a2, a3, a4⟩ := hc c (List.mem_cons_self ..)
    have ih := hSelect_ok hs ho hsat hc.tail hk hkw hn.tail he (chain := rest)
    have hhit := hcell_hit hn
    have hcwf : (B.cmp .eq k c.key).WF := ⟨hk, a1, by rw [hkw, a2]⟩
    simp only [hSelect, hFlat]
    by_cases hm : c.acct = acct ∧ c.kind = kind ∧ c.base = base
    · rw [if_pos hm]
      split
      · rename_i hke
        have : c.acct = acct ∧ hLoc p c.kind (c.key.eval I) c.base = hLoc p kind (k.eval I) base :=
          hhit.2 ⟨hm.1, hm.2.1, hm.2.2, by rw [hke]⟩
        rw [if_pos this]
        exact ⟨a3, a4, rfl⟩
      · split
        · rename_i hu
          have hne := exCheck_sound hs ho hcwf hu I hsat
          simp only [B.eval, CmpOp.eval, beq_eq_false_iff_ne, ne_eq] at hne
          have : ¬ (c.acct = acct ∧ hLoc p c.kind (c.key.eval I) c.base = hLoc p kind (k.eval I) base) :=
            fun h => hne (hhit.1 h).2.2.2.symm
          rw [if_neg this]
          exact ih
        · split
          · rename_i hu
            have heq := exCheck_sound hs ho (c := .not (.cmp .eq k c.key)) hcwf hu I hsat
            simp only [B.eval, CmpOp.eval, Bool.not_eq_false', beq_iff_eq] at heq
            have : c.acct = acct ∧ hLoc p c.kind (c.key.eval I) c.base = hLoc p kind (k.eval I) base :=
              hhit.2 ⟨hm.1, hm.2.1, hm.2.2, heq.symm⟩
            rw [if_pos this]
            exact ⟨a3, a4, rfl⟩
          · have := hIte_ok hc hk hkw hn he
            simpa only [hFlat] using this
    · rw [if_neg hm]
      have : ¬ (c.acct = acct ∧ hLoc p c.kind (c.key.eval I) c.base = hLoc p kind (k.eval I) base) :=
        fun h => hm ⟨(hhit.1 h).1, (hhit.1 h).2.1, (hhit.1 h).2.2.1⟩
      rw [if_neg this]
      exact ih

/-- what a store does to the flat storage: the location of the cell holds the value, every other slot is untouched -/
theorem hFlat_store (chain : List HCell) (c : HCell) (a slot : Nat) :
    hFlat I p (c :: chain) a slot =
      if c.acct = a ∧ hLoc p c.kind (c.key.eval I) c.base = slot then c.val.eval I else hFlat I p chain a slot := rfl

/-- the value just stored is read back (whatever the solver answers) -/
theorem hSelect_store (hs : SimpSound s) (ho : OracleSound o) {path : List B} (hsat : Sat I path)
    {chain : List HCell} {acct kind base : Nat} {k v : T}
    (hc : HChainWF ({ acct, kind, base, key := k, val := v } :: chain)) (hk : k.WF) (hkw : k.width = 256) :
    (hSelect s o path acct kind base ({ acct, kind, base, key := k, val := v } :: chain) k).eval I = v.eval I := by
  simp only [hSelect, and_self, if_true]

end


/-! ### SLOAD / SSTORE at a hashed location against the reference -/

section
variable {I : Interp} {p : Evm.Params} {S : Nat → Prop} {w0 : Evm.World}
variable {cs : CState} {w : Evm.World} {f : Evm.Frame} {kcs : List CCont}
variable {s : Simp} {o : Oracle} {cfg : Cfg}

/-- what the simulation of a hashed SLOAD / SSTORE assumes at the state `cs`: for the location `kv` on top of the
    stack, decoded as the cell `(kind, base, key)` (whose location is `hLoc` of the cell — Keccak-256 of key ‖ base,
    resp. of base plus the index —, `decodeSlot_ok`):
      * the location is not a plain slot (it is at least 2^64; an assumption on the hash, as `ShaOK`);
      * no other cell written on the path lies there (`HNoColl`; Keccak-256 collision freedom on the keys met). -/
def HstoOK (I : Interp) (p : Evm.Params) (s : Simp) (cfg : Cfg) (cs : CState) : Prop :=
  cfg.hsto = true → ∀ kv rest kind base key, cs.st.stack = kv :: rest →
    decodeSlot s cs.st.path kv = some (kind, base, key) →
      2 ^ 64 ≤ hLoc p kind (key.eval I) base ∧ HNoColl I p cs.hsto cs.this kind base key

theorem hstoOK_off (h : cfg.hsto = false) : HstoOK I p s cfg cs := by
  intro h'; rw [h] at h'; cases h'

/-- a write at a slot from 2^64 on of a modelled account leaves the plain slots alone -/
theorem WRelM.hstore {v : Nat → AcctSto} {lg : List (Nat × List Nat × List Nat)} {bs : Nat → Nat} {wa : Evm.World}
    (h : WRelM I S wa w v lg bs) {a loc n : Nat} (ha : S a) (hloc : 2 ^ 64 ≤ loc) :
    WRelM I S wa { w with storage := Evm.insert w.storage (a, loc) n } v lg bs := by
  refine ⟨fun b hb slot hlt => ?_, h.htr, h.wf, fun b slot hb => ⟨?_, (h.other b slot hb).2⟩, h.code, h.created,
    h.logs, h.bal, h.keys⟩
  · have : ¬ (b, slot) = (a, loc) := by intro e; have := (Prod.mk.inj e).2; omega
    show Evm.lookupD (Evm.insert w.storage (a, loc) n) (b, slot) = _
    rw [lookupD_insert, if_neg this]; exact h.hsto b hb slot hlt
  · have : ¬ (b, slot) = (a, loc) := by intro e; exact hb ((Prod.mk.inj e).1 ▸ ha)
    show Evm.lookupD (Evm.insert w.storage (a, loc) n) (b, slot) = _
    rw [lookupD_insert, if_neg this]; exact (h.other b slot hb).1

/-- and extends the chain of cells -/
theorem HRel.hstore {chain : List HCell} (h : HRel I p S w chain) (c : HCell) {n : Nat}
    (hn : c.val.eval I = n) (hcw : c.key.WF ∧ c.key.width = 256 ∧ c.val.WF ∧ c.val.width = 256) :
    HRel I p S { w with storage := Evm.insert w.storage (c.acct, hLoc p c.kind (c.key.eval I) c.base) n }
      (c :: chain) := by
  refine ⟨fun x hx => ?_, fun b hb slot hge => ?_⟩
  · rcases List.mem_cons.1 hx with rfl | hx
    · exact hcw
    · exact h.1 x hx
  show Evm.lookupD (Evm.insert w.storage _ n) (b, slot) = _
  rw [lookupD_insert]
  simp only [hFlat]
  by_cases e : (b, slot) = (c.acct, hLoc p c.kind (c.key.eval I) c.base)
  · obtain ⟨e1, e2⟩ := Prod.mk.inj e
    rw [if_pos e, if_pos ⟨e1.symm, e2.symm⟩, hn]
  · have : ¬ (c.acct = b ∧ hLoc p c.kind (c.key.eval I) c.base = slot) := by
      rintro ⟨h1, h2⟩; exact e (by rw [h1, h2])
    rw [if_neg e, if_neg this]; exact h.2 b hb slot hge

/-- the valuation reads the arrays of the empty storage (`storage_<acct>_<base>_<kind>_00`) as zero everywhere: what the
    condition `load` appends for each key says, and what `ZeroStorage` says of the start world -/
def HEmptyZero (I : Interp) : Prop :=
  ∀ acct kind base k, I.uf1 (hEmptyName acct kind base) 256 k % 2 ^ 256 = 0

/-- SLOAD / SSTORE at a mapping or array location on the reference side: an exceptional halt of the running concrete
    frame (a write in a static frame), or one successor whose path is the old one with the conditions `c` (the
    emptiness condition of a load), related — when they hold — to a concrete configuration with exactly the same
    completions; under `G` they hold -/
def HstoCorr (I : Interp) (p : Evm.Params) (S : Nat → Prop) (w0 : Evm.World) (G : Prop) (cs : CState)
    (w : Evm.World) (f : Evm.Frame) (kcs : List CCont) (lo : LocalOut) : Prop :=
  (∃ h, lo = localHalt cs.st h ∧ haltWith h [] = h ∧ Evm.step p w f = .halt w h) ∨
  (∃ (cs' : CState) (w' : Evm.World) (f' : Evm.Frame) (c : List B),
      lo = { next := [cs'] } ∧ (Sat I cs'.st.path ↔ Sat I cs.st.path ∧ ∀ x ∈ c, x.eval I = true) ∧
      ((∀ x ∈ c, x.eval I = true) → RelC I p S w0 cs' w' f' kcs) ∧
      (∀ r, RunStack p w f kcs r ↔ RunStack p w' f' kcs r) ∧ (BalBound w → BalBound w') ∧
      (G → ∀ x ∈ c, x.eval I = true))

/-- **SLOAD / SSTORE at a mapping or array location** (under `HstoOK`) -/
theorem hstoOut_corr (hs : SimpSound s) (ho : OracleSound o) (hsi : ShaInterp I p cfg) (hok : HstoOK I p s cfg cs)
    (hrel : RelC I p S w0 cs w f kcs) (hsat : Sat I cs.st.path) {op : Nat} (hop : opAt cs.code cs.st.pc = op)
    (hsop : op = 0x54 ∨ op = 0x55) (hl : ¬ cs.st.stack.length > 1024) {lo : LocalOut}
    (h : hstoOut s o cfg cs op = some lo) : HstoCorr I p S w0 (HEmptyZero I) cs w f kcs lo := by
  have hR := hrel.hR
  have hopc : (f.code[f.pc]?).getD 0 = op := hR.op_eq.trans hop
  have hlen := hR.stack.length
  have hlc : ¬ f.stack.length > 1024 := by rw [← hlen]; exact hl
  unfold hstoOut at h
  simp only at h
  by_cases hcfg : cfg.hsto = true
  swap
  · have : (!cfg.hsto) = true := by simpa using hcfg
    rw [if_pos this] at h; cases h
  have hc' : ¬ (!cfg.hsto) = true := by simp [hcfg]
  rw [if_neg hc'] at h
  rcases hsop with rfl | rfl
  · -- SLOAD
    simp only [if_true] at h
    cases hstk : cs.st.stack with
    | nil => rw [hstk] at h; cases h
    | cons kv rest =>
      rw [hstk] at h
      simp only at h
      cases hd : decodeSlot s cs.st.path kv with
      | none => rw [hd] at h; cases h
      | some kbk =>
        obtain ⟨kind, base, key⟩ := kbk
        rw [hd] at h
        simp only [Option.some.injEq] at h
        subst h
        obtain ⟨hge, hnc⟩ := hok hcfg kv rest kind base key hstk hd
        have hcw := hrel.hH.1
        have hs0 := hR.stack
        rw [hstk] at hs0
        obtain ⟨n, crest, hc1, hwn, hrest⟩ := hs0.cons_inv
        obtain ⟨kwf, kw, hn⟩ := decodeSlot_ok hs hsi hsat hwn hd
        have hstep := evm_sload (p := p) (w := w) hopc hlc
        simp only [Evm.op1, hc1] at hstep
        have haxwf : (B.cmp .eq (.uf1 (hEmptyName cs.this kind base) 256 key) (.lit 256 0)).WF :=
          ⟨⟨(by decide : 0 < 256), kwf⟩, (by decide : 0 < 256), rfl⟩
        have hsatiff : Sat I (addCond s { cs.st with stack := rest }
            (.cmp .eq (.uf1 (hEmptyName cs.this kind base) 256 key) (.lit 256 0))).path ↔
            Sat I cs.st.path ∧ ∀ x ∈ [B.cmp .eq (.uf1 (hEmptyName cs.this kind base) 256 key) (.lit 256 0)],
              x.eval I = true := by
          rw [addCond_sat hs haxwf]
          simp only [List.mem_singleton, forall_eq]
        have hez : HEmptyZero I → ∀ x ∈ [B.cmp .eq (.uf1 (hEmptyName cs.this kind base) 256 key) (.lit 256 0)],
            x.eval I = true := by
          intro hz x hx
          rw [List.mem_singleton.1 hx]
          have := hz cs.this kind base (key.eval I)
          simp only [B.eval, CmpOp.eval, T.eval, beq_iff_eq]
          simpa using this
        refine Or.inr ⟨_, w, _, [.cmp .eq (.uf1 (hEmptyName cs.this kind base) 256 key) (.lit 256 0)], rfl, hsatiff,
          fun hcs => ?_, fun r => runStack_next hstep kcs r, id, hez⟩
        have hax := hcs _ (List.mem_singleton.2 rfl)
        have hsx := hsatiff.2 ⟨hsat, hcs⟩
        have he : I.uf1 (hEmptyName cs.this kind base) 256 (key.eval I) % 2 ^ 256 = 0 := by
          simp only [B.eval, CmpOp.eval, T.eval, beq_iff_eq] at hax
          simpa using hax
        obtain ⟨v1, v2, v3⟩ := hSelect_ok (p := p) hs ho hsx hcw kwf kw hnc he
        refine hrel.withConds hs (conds := [.cmp .eq (.uf1 (hEmptyName cs.this kind base) 256 key) (.lit 256 0)])
          (fun c hc => by rw [List.mem_singleton.1 hc]; exact haxwf) (X := { cs.st with stack := rest })
          (st' := pushTerm s (addCond s { cs.st with stack := rest } _) _) rfl rfl rfl rfl
          ⟨_, rfl, rfl, rfl, rfl, rfl⟩ ⟨rfl, rfl, rfl, rfl, rfl, rfl, rfl⟩ ?_ ?_ ?_ ?_
        · show f.pc + 1 = (addCond s { cs.st with stack := rest } _).pc + 1
          rw [addCond_pc, hR.pc]
        · show StackRel I (mkBV s (.term _) 256 :: (addCond s { cs.st with stack := rest } _).stack) _
          rw [addCond_stack]
          have hval : (hSelect s o (addCond s { cs.st with stack := rest }
              (.cmp .eq (.uf1 (hEmptyName cs.this kind base) 256 key) (.lit 256 0))).path cs.this kind base cs.hsto
              key).eval I = Evm.lookupD w.storage (f.this, n) := by
            rw [v3, hn, hrel.this]; exact (hrel.hH.2 cs.this hrel.inS _ hge).symm
          exact StackRel.cons (wordRel_mkBV hs v1 (by rw [hval]; rfl)) hrest
        · show MemRel I (addCond s { cs.st with stack := rest } _).mem f.mem
          rw [addCond_mem]; exact hR.mem
        · show MemRel I (addCond s { cs.st with stack := rest } _).returndata f.returndata
          rw [addCond_returndata]; exact hR.retdata
  · -- SSTORE
    have hne : ¬ ((0x55 : Nat) = 0x54) := by decide
    simp only [hne, if_false] at h
    cases hstk : cs.st.stack with
    | nil => rw [hstk] at h; cases h
    | cons kv r1 =>
      cases r1 with
      | nil => rw [hstk] at h; cases h
      | cons v rest =>
        rw [hstk] at h
        simp only at h
        cases hd : decodeSlot s cs.st.path kv with
        | none => rw [hd] at h; cases h
        | some kbk =>
          obtain ⟨kind, base, key⟩ := kbk
          rw [hd] at h
          simp only at h
          obtain ⟨hge, hnc⟩ := hok hcfg kv (v :: rest) kind base key hstk hd
          by_cases hstat : cs.env.isStatic = true
          · rw [if_pos hstat] at h
            simp only [Option.some.injEq] at h
            subst h
            exact Or.inl ⟨_, rfl, rfl, conc_store_static hR (by omega) hop (Or.inl rfl) hstk hstat⟩
          · rw [if_neg hstat] at h
            have hs0 := hR.stack
            rw [hstk] at hs0
            obtain ⟨n, c1, hc1, hwn, hs1⟩ := hs0.cons_inv
            obtain ⟨cv, crest, hc2, hwv, hrest⟩ := hs1.cons_inv
            subst hc2
            obtain ⟨kwf, kw, hn⟩ := decodeSlot_ok hs hsi hsat hwn hd
            have hfs : ¬ f.isStatic = true := by rw [← hR.env.isStatic]; exact hstat
            have hstep := evm_sstore (p := p) (w := w) hopc hlc hc1
            rw [if_neg hfs] at hstep
            obtain ⟨r', e, wf, d⟩ := (toBV256_ok hs I hwv.1 hwv.2.1).ok_inj
            rw [e] at h
            simp only [Option.some.injEq] at h
            subst h
            obtain ⟨z1, z2, z3⟩ := asZ3_ok (I := I) wf
            have hval : (asZ3 256 r').eval I = cv := by rw [z3, d, hwv.2.2]
            have hkey : (f.this, n) = (cs.this, hLoc p kind (key.eval I) base) := by rw [hrel.this, hn]
            rw [hkey] at hstep
            refine Or.inr ⟨_, _, _, [], rfl, ⟨fun hx => ⟨hx, fun x hx' => absurd hx' List.not_mem_nil⟩, fun hx => hx.1⟩,
              fun _ => ?_, fun r => runStack_next hstep kcs r, fun hb => hb.congr (fun a => rfl),
              fun _ x hx' => absurd hx' List.not_mem_nil⟩
            have hHn := hrel.hH.hstore { acct := cs.this, kind, base, key, val := asZ3 256 r' } hval ⟨kwf, kw, z1, z2⟩
            refine ⟨hR.next' sc! rfl rfl rfl rfl rfl (by show f.pc + 1 = _; rw [hR.pc]) hrest, hrel.this, hrel.inS,
              hrel.depth, hrel.hcode, ?_, hrel.hbal, hrel.hcr, hHn, hrel.conts⟩
            exact (hrel.hW.hstore (n := cv) hrel.inS hge).congr (fun a _ => rfl)


end

/-! ### one step of the frame-stack machine -/

theorem isCallOp_iff (op : Nat) : isCallOp op = true ↔ (op = 0xf1 ∨ op = 0xf2 ∨ op = 0xf4 ∨ op = 0xfa) := by
  simp [isCallOp, or_assoc]

section
variable {s : Simp} {o : Oracle} {cfg : Cfg} {codes : List (Nat × List Nat)} {cs : CState}

/-- the switch off: CREATE is outside the model -/
theorem createOut_off (hnc : cfg.create = false) {codes' : List (Nat × List Nat)} {op : Nat} :
    createOut s o cfg codes' cs op = localStuck cs.st (.unsupported op) := by
  simp [createOut, hnc]

theorem createGoV_shape {addr : Nat} {fv : T} {rest : List HV} {init : List Nat} :
    LocalShape cs (createGoV s o cfg codes cs op addr fv rest init) := by
  by_cases hbal : cfg.balances = true
  swap
  · rw [createGoV_off (by simpa using hbal)]; exact localShape_end rfl
  by_cases hw : cs.env.address.width = 160
  swap
  · unfold createGoV
    have : ¬ (!cfg.balances) = true := by simp [hbal]
    have hw' : cs.env.address.width ≠ 160 := hw
    simp only [this, if_false, hw', ne_eq, not_false_eq_true, if_true]; exact localShape_end rfl
  cases hbo : balanceOfM s o cfg cs.st.path cs.bal cs.env.address with
  | none =>
    unfold createGoV
    have : ¬ (!cfg.balances) = true := by simp [hbal]
    have hw' : ¬ cs.env.address.width ≠ 160 := by simp [hw]
    simp only [this, if_false, hw', hbo]; exact localShape_end rfl
  | some bcc =>
    obtain ⟨bc, conds1⟩ := bcc
    rw [createGoV_eq hbal hw hbo]
    refine ⟨fun c hc => ?_, fun e he => ?_⟩
    · rcases List.mem_append.1 hc with hc | hc
      · unfold failNextOf at hc
        split at hc
        · simp at hc
        · rw [List.mem_singleton.1 hc]
          refine ⟨?_, Or.inl rfl⟩
          obtain ⟨e1, h1⟩ := addConds_path_ext s conds1 cs.st
          obtain ⟨e2, h2⟩ := addCond_path_ext s (conds1.foldl (addCond s) cs.st) (s.b (.cmp .ult bc fv))
          exact ⟨e1 ++ e2, by show (addCond s _ _).path = _; rw [h2, h1, List.append_assoc]⟩
      · rcases createMain_cases s o cfg codes cs op addr fv rest init bc conds1 with
          ⟨_, he⟩ | ⟨e, he, _⟩ | ⟨_, he, _⟩ | ⟨_, _, conds2, bt, _, he⟩
        · rw [he] at hc
          rw [List.mem_singleton.1 hc]
          exact ⟨addConds_path_ext s conds1 cs.st, Or.inl rfl⟩
        · rw [he] at hc; simp at hc
        · rw [he] at hc; simp at hc
        · rw [he] at hc
          rw [List.mem_singleton.1 hc]
          refine ⟨?_, Or.inr ⟨_, rfl⟩⟩
          show ∃ ext, (mainSt s cs bc fv conds1 conds2).path = cs.st.path ++ ext
          rw [mainSt_eq]; exact addConds_path_ext s _ cs.st
    · rcases createMain_cases s o cfg codes cs op addr fv rest init bc conds1 with
        ⟨_, he0⟩ | ⟨e0, he0, hst0, _⟩ | ⟨_, he0, _⟩ | ⟨_, _, conds2, bt, _, he0⟩
      · rw [he0] at he; simp at he
      · rw [he0] at he; rw [List.mem_singleton.1 he, hst0]
      · rw [he0] at he; simp at he
      · rw [he0] at he; simp at he

theorem createOut_shape {codes' : List (Nat × List Nat)} : LocalShape cs (createOut s o cfg codes' cs op) := by
  unfold createOut
  simp only
  (repeat' split) <;> first
    | shape_leaf
    | exact createGoV_shape (cs := { cs with nonce := cs.nonce + 1 }) (codes := codes')

/-- the mapping access `stepC` decodes itself, if the instruction is one -/
def hstoPick (s : Simp) (o : Oracle) (cfg : Cfg) (cs : CState) : Option LocalOut :=
  if cs.st.stack.length > 1024 then none
  else if isStoOp (opAt cs.code cs.st.pc) then hstoOut s o cfg cs (opAt cs.code cs.st.pc) else none

theorem hstoOut_off (hnh : cfg.hsto = false) {op : Nat} : hstoOut s o cfg cs op = none := by
  simp [hstoOut, hnh]

theorem hstoPick_off (hnh : cfg.hsto = false) : hstoPick s o cfg cs = none := by
  unfold hstoPick; rw [hstoOut_off hnh]; simp

/-- a mapping access extends the path by the emptiness condition (a load) or not at all -/
theorem hstoOut_shape {op : Nat} {lo : LocalOut} (h : hstoOut s o cfg cs op = some lo) : LocalShape cs lo := by
  unfold hstoOut at h
  simp only at h
  split at h
  · cases h
  · split at h
    · split at h
      · split at h
        · simp only [Option.some.injEq] at h
          subst h
          exact localShape_next (addCond_path_ext s _ _) (Or.inl rfl)
        · cases h
      · cases h
    · split at h
      · split at h
        · split at h
          · simp only [Option.some.injEq] at h; subst h; exact localShape_end rfl
          · split at h
            · simp only [Option.some.injEq] at h; subst h
              exact localShape_next ⟨[], (List.append_nil _).symm⟩ (Or.inl rfl)
            · simp only [Option.some.injEq] at h; subst h; exact localShape_end rfl
        · cases h
      · cases h

theorem hstoOut_cr {op : Nat} {lo : LocalOut} (h : hstoOut s o cfg cs op = some lo) : LocalCr cs lo := by
  unfold hstoOut at h
  simp only at h
  split at h
  · cases h
  · split at h
    · split at h
      · split at h
        · simp only [Option.some.injEq] at h; subst h; exact localCr_next ⟨rfl, rfl, Or.inl rfl⟩
        · cases h
      · cases h
    · split at h
      · split at h
        · split at h
          · simp only [Option.some.injEq] at h; subst h; exact localCr_end
          · split at h
            · simp only [Option.some.injEq] at h; subst h; exact localCr_next ⟨rfl, rfl, Or.inl rfl⟩
            · simp only [Option.some.injEq] at h; subst h; exact localCr_end
        · cases h
      · cases h

/-- `stepC` is `finish` of an instruction it decodes itself, or of the per-frame step (with its stack limit) -/
theorem stepC_eq :
    stepC s o cfg codes cs =
      if ¬ cs.st.stack.length > 1024 ∧ isCreateOp (opAt cs.code cs.st.pc) = true then
        finish cs (createOut s o cfg (codesOf cfg codes cs) cs (opAt cs.code cs.st.pc))
      else if ¬ cs.st.stack.length > 1024 ∧ isCallOp (opAt cs.code cs.st.pc) = true then
        finish cs (callOut s o cfg (codesOf cfg codes cs) cs (opAt cs.code cs.st.pc))
      else if ¬ cs.st.stack.length > 1024 ∧ isBalOp (opAt cs.code cs.st.pc) = true then
        finish cs (balOut s o cfg cs (opAt cs.code cs.st.pc))
      else if ¬ cs.st.stack.length > 1024 ∧ isShaOp (opAt cs.code cs.st.pc) = true then
        finish cs (shaOut s cfg cs (opAt cs.code cs.st.pc))
      else if ¬ cs.st.stack.length > 1024 ∧ isLogOp (opAt cs.code cs.st.pc) = true then
        finish cs (logOut s cfg cs (opAt cs.code cs.st.pc))
      else if ¬ cs.st.stack.length > 1024 ∧ isExtOp (opAt cs.code cs.st.pc) = true then
        finish cs (extOut s cfg (codesOf cfg codes cs) cs (opAt cs.code cs.st.pc))
      else
        match hstoPick s o cfg cs with
        | some lo => finish cs lo
        | none => finish cs (liftOut cs (stepL s o cfg cs.env cs.code cs.st)) := by
  unfold stepC stepL hstoPick
  simp only
  by_cases hl : cs.st.stack.length > 1024
  · simp only [hl, if_true, not_true_eq_false, false_and, if_false]; rfl
  · simp only [hl, if_false, not_false_eq_true, true_and]
    rfl

/-- the local output `stepC` finishes, with its shape -/
theorem stepC_local : ∃ lo, stepC s o cfg codes cs = finish cs lo ∧ LocalShape cs lo := by
  rw [stepC_eq]
  split
  · exact ⟨_, rfl, createOut_shape⟩
  split
  · exact ⟨_, rfl, callOut_shape⟩
  · split
    · exact ⟨_, rfl, balOut_shape⟩
    · split
      · exact ⟨_, rfl, shaOut_shape⟩
      · split
        · exact ⟨_, rfl, logOut_shape⟩
        · split
          · exact ⟨_, rfl, extOut_shape o⟩
          · cases hp : hstoPick s o cfg cs with
            | some lo =>
              refine ⟨lo, rfl, hstoOut_shape (s := s) (o := o) (cfg := cfg) (op := opAt cs.code cs.st.pc) ?_⟩
              unfold hstoPick at hp
              split at hp
              · cases hp
              · split at hp
                · exact hp
                · cases hp
            | none =>
              refine ⟨_, rfl, fun c hc => ?_, fun e he => stepL_end_path he⟩
              obtain ⟨st', hm', rfl⟩ := List.mem_map.1 hc
              exact ⟨stepL_next_path hm', Or.inl rfl⟩

theorem stepC_next_path {cs' : CState}
    (h : cs' ∈ (stepC s o cfg codes cs).next) :
    ∃ ext, cs'.st.path = cs.st.path ++ ext := by
  obtain ⟨lo, e, hsh⟩ := stepC_local (s := s) (o := o) (cfg := cfg) (codes := codes) (cs := cs)
  rw [e] at h
  rcases mem_finish_next_shape h with hm | ⟨e', he', hp, _⟩
  · exact (hsh.1 cs' hm).1
  · exact ⟨[], by rw [hp, hsh.2 e' he']; simp⟩

theorem stepC_end_path {ce : CEnd}
    (h : ce ∈ (stepC s o cfg codes cs).ends) : ce.e.st.path = cs.st.path := by
  obtain ⟨lo, e, hsh⟩ := stepC_local (s := s) (o := o) (cfg := cfg) (codes := codes) (cs := cs)
  rw [e] at h
  obtain ⟨e', hm, hp⟩ := mem_finish_ends_shape h
  rw [hp]; exact hsh.2 e' hm

/-- the stack discipline of the suspended callers: a step keeps them, pushes one (a call) or pops one (a return);
    it never touches a suspended caller — in particular not its snapshot -/
theorem stepC_conts {cs' : CState}
    (h : cs' ∈ (stepC s o cfg codes cs).next) :
    cs'.conts = cs.conts ∨ (∃ k, cs'.conts = k :: cs.conts) ∨ (∃ k, cs.conts = k :: cs'.conts) := by
  obtain ⟨lo, e, hsh⟩ := stepC_local (s := s) (o := o) (cfg := cfg) (codes := codes) (cs := cs)
  rw [e] at h
  rcases mem_finish_next_shape h with hm | ⟨e', _, _, k, hc⟩
  · rcases (hsh.1 cs' hm).2 with h1 | h1
    · exact Or.inl h1
    · exact Or.inr (Or.inl h1)
  · exact Or.inr (Or.inr ⟨k, hc⟩)

end

section
variable {I : Interp} {p : Evm.Params} {S : Nat → Prop} {w0 : Evm.World}
variable {cs : CState} {w : Evm.World} {f : Evm.Frame} {kcs : List CCont}
variable {s : Simp} {o : Oracle} {cfg : Cfg} {codes : List (Nat × List Nat)}

theorem CallCorr.sound {lo : LocalOut} (h : CallCorr I p S w0 cs w f kcs lo) :
    LocalSound I p S w0 cs w f kcs lo := by
  rcases h with ⟨e, rfl, he, hnc⟩ | ⟨h0, rfl, hh0, hstep⟩ | ⟨cs', w', f', kcs', rfl, hp, hrel', hiff, _⟩
  · refine ⟨fun cs' hm => by simp at hm, fun e' hm => ?_⟩
    simp only [List.mem_singleton] at hm
    subst hm
    refine ⟨by rw [he]; exact ⟨rfl, rfl, rfl, rfl⟩, fun ht h ho => ?_⟩
    rcases hnc with ⟨r', hr'⟩ | hn
    · rw [hr'] at ho; cases ho
    · exact absurd ht hn
  · refine ⟨fun cs' hm => by simp [localHalt] at hm, fun e' hm => ?_⟩
    simp only [localHalt, List.mem_singleton] at hm
    subst hm
    refine ⟨⟨rfl, rfl, rfl, rfl⟩, fun _ h ho => ?_⟩
    simp only [Out.halt.injEq] at ho
    subst ho
    simp only [List.map_nil, hh0]
    exact ⟨hstep, fun b hb => absurd hb List.not_mem_nil⟩
  · refine ⟨fun cs1 hm _ => ?_, fun e' hm => by simp at hm⟩
    simp only [List.mem_singleton] at hm
    subst hm
    exact ⟨w', f', kcs', hrel', fun r hr => (hiff r).2 hr⟩

theorem CallCorr.complete {lo : LocalOut} (h : CallCorr I p S w0 cs w f kcs lo)
    (hrel : RelC I p S w0 cs w f kcs) (hsat : Sat I cs.st.path) {r : Evm.World × Evm.Halt}
    (hrun : RunStack p w f kcs r) {C : Prop} (hbb : BBAll C w kcs) : LocalComplete I p S w0 C cs w f r lo := by
  rcases h with ⟨e, rfl, he, hnc⟩ | ⟨h0, rfl, hh0, hstep⟩ | ⟨cs', w', f', kcs', rfl, hp, hrel', hiff, hbb'⟩
  · exact Or.inr (Or.inl ⟨e, by simp, by rw [he]; exact ⟨rfl, rfl, rfl, rfl⟩, Or.inr hnc⟩)
  · refine Or.inr (Or.inl ⟨{ st := cs.st, out := .halt h0 }, by simp [localHalt], ⟨rfl, rfl, rfl, rfl⟩,
      Or.inl ⟨h0, (w, h0), rfl, rfl, (halts_halt hstep).2 rfl, by simp only [List.map_nil, hh0],
        fun b hb => absurd hb List.not_mem_nil, wrelM_fullOf_keeps hrel ⟨rfl, rfl, rfl, rfl⟩, hrel.hH⟩⟩)
  · exact Or.inl ⟨cs', by simp, by rw [hp]; exact hsat, w', f', kcs', hrel', (hiff r).1 hrun, fun hC => hbb' (hbb hC)⟩

theorem BalCorr.sound (hs : SimpSound s) {G : Prop} {lo : LocalOut} (h : BalCorr I p S w0 s G cs w f kcs lo) :
    LocalSound I p S w0 cs w f kcs lo := by
  rcases h with hno | hh | ⟨cs', f', conds, X, rfl, cwf, hX, hp, hk, hrel', hiff, _⟩
  · exact CallCorr.sound (Or.inl hno)
  · exact CallCorr.sound (Or.inr (Or.inl hh))
  · refine ⟨fun cs1 hm _ => ?_, fun e' hm => by simp at hm⟩
    simp only [List.mem_singleton] at hm
    subst hm
    exact ⟨w, f', kcs, hrel', fun r hr => (hiff r).2 hr⟩

theorem BalCorr.complete (hs : SimpSound s) {G : Prop} {lo : LocalOut} (h : BalCorr I p S w0 s G cs w f kcs lo)
    (hrel : RelC I p S w0 cs w f kcs) (hsat : Sat I cs.st.path) {r : Evm.World × Evm.Halt}
    (hrun : RunStack p w f kcs r) {C : Prop} (hG : G) (hbb : BBAll C w kcs) :
    LocalComplete I p S w0 C cs w f r lo := by
  rcases h with hno | hh | ⟨cs', f', conds, X, rfl, cwf, hX, hp, hk, hrel', hiff, htrue⟩
  · exact CallCorr.complete (Or.inl hno) hrel hsat hrun hbb
  · exact CallCorr.complete (Or.inr (Or.inl hh)) hrel hsat hrun hbb
  · refine Or.inl ⟨cs', by simp, ?_, w, f', kcs, hrel', (hiff r).1 hrun, hbb⟩
    rw [hp, addConds_sat hs cwf, hX]
    exact ⟨hsat, htrue hG⟩

/-- **a value-bearing call, soundness.** -/
theorem valueCase_sound (hs : SimpSound s) (ho : OracleSound o) (hb : BalHyp I cfg w0)
    (hmem : cfg.maxMem + 32 ≤ p.memLimit) (hdep : 1024 ≤ p.maxDepth)
    (hcodes : ∀ a, w.codeOf a = codeOf codes a) (hS : ∀ a prog, codeOf codes a = some prog → S a)
    (hcb : ∀ a prog, codeOf codes a = some prog → ∀ b ∈ prog, b < 256)
    (hrel : RelC I p S w0 cs w f kcs) (hsat : Sat I cs.st.path) {op : Nat} {lo : LocalOut}
    (hv : ValueCase I p s o cfg codes cs w f op lo) : LocalSound I p S w0 cs w f kcs lo := by
  rcases valueCase_ctx hs ho hb hmem hrel hsat hv with hno |
    ⟨t, v, fv, ao, al, ro, rl, rest, crest, bc, conds1, rfl, hx, hstep, hm1, hm2⟩
  · exact CallCorr.sound (Or.inl hno)
  refine ⟨fun cs' hm hsat' => ?_, fun e hm => ?_⟩
  · rcases List.mem_append.1 hm with hm | hm
    · -- the insufficient-funds branch
      unfold failNextOf at hm
      split at hm
      · simp at hm
      · rw [List.mem_singleton.1 hm] at hsat' ⊢
        have hins := ((addCond_sat hs (hx.insuff_ok hs).1).1 hsat').2
        rw [(hx.insuff_ok hs).2] at hins
        have hfund := hx.fund_bool
        rw [hins] at hfund
        exact ⟨w, _, kcs, hx.fail_rel hs,
          fun r hr => (runStack_call_insufficient hstep hm1 hm2 hx.hstat hfund kcs r).2 hr⟩
    · rcases mainOf_cases s o cfg codes cs op t fv ao al ro rl rest bc conds1 with
        ⟨e, he, _⟩ | ⟨he, _⟩ | ⟨conds2, bal', h5, htr, hcode⟩
      · rw [he] at hm; simp at hm
      · rw [he] at hm; simp at hm
      · have hcs' : (codeOf codes t = none ∧ cs' = { cs with st := { (mainSt s cs bc fv conds1 conds2) with pc := cs.st.pc + 1, stack := .bv 256 (.con 1) :: rest, returndata := [] }, bal := bal' }) ∨
            (∃ prog, codeOf codes t = some prog ∧
              cs' = calleeOfG s { cs with st := mainSt s cs bc fv conds1 conds2, bal := bal' } op t ao al ro rl rest prog fv cs.bal) := by
          rcases hcode with ⟨hc, he⟩ | ⟨prog, hc, he⟩
          · rw [he] at hm; exact Or.inl ⟨hc, List.mem_singleton.1 hm⟩
          · rw [he] at hm; exact Or.inr ⟨prog, hc, List.mem_singleton.1 hm⟩
        have hsatM : Sat I (mainSt s cs bc fv conds1 conds2).path := by
          rcases hcs' with ⟨_, rfl⟩ | ⟨prog, _, rfl⟩ <;> exact hsat'
        have hsat2 : Sat I (addCond s (conds1.foldl (addCond s) cs.st) (s.b (.cmp .uge bc fv))).path := by
          obtain ⟨ext, hext⟩ := addConds_path_ext s conds2
            (addCond s (conds1.foldl (addCond s) cs.st) (s.b (.cmp .uge bc fv)))
          have : (mainSt s cs bc fv conds1 conds2).path = _ := hext
          rw [this] at hsatM
          exact (sat_append.1 hsatM).1
        have hsuf := ((addCond_sat hs (hx.suff_ok hs).1).1 hsat2).2
        rw [(hx.suff_ok hs).2] at hsuf
        have hle : v ≤ w.balanceOf f.this := by simpa using hsuf
        obtain ⟨_, _, w', f', kcs', hrel', hiff, _⟩ :=
          hx.main_ok hs ho hb hdep hcodes hS hcb rfl hstep hm1 hm2 h5 hle hsat2 htr hcs'
        exact ⟨w', f', kcs', hrel', fun r hr => (hiff r).2 hr⟩
  · rcases mainOf_cases s o cfg codes cs op t fv ao al ro rl rest bc conds1 with
      ⟨e0, he0, hst0, r', hr'⟩ | ⟨he0, _⟩ | ⟨conds2, bal', _, _, hcode⟩
    · rw [he0] at hm
      rw [List.mem_singleton.1 hm]
      refine ⟨by rw [hst0]; exact ⟨rfl, rfl, rfl, rfl⟩, fun _ h ho' => ?_⟩
      rw [hr'] at ho'; cases ho'
    · rw [he0] at hm; simp at hm
    · rcases hcode with ⟨_, he0⟩ | ⟨prog, _, he0⟩ <;> (rw [he0] at hm; simp at hm)

/-- **a value-bearing call, completeness.** -/
theorem valueCase_complete (hs : SimpSound s) (ho : OracleSound o) (hb : BalHyp I cfg w0)
    (hmem : cfg.maxMem + 32 ≤ p.memLimit) (hdep : 1024 ≤ p.maxDepth)
    (hcodes : ∀ a, w.codeOf a = codeOf codes a) (hS : ∀ a prog, codeOf codes a = some prog → S a)
    (hcb : ∀ a prog, codeOf codes a = some prog → ∀ b ∈ prog, b < 256)
    (hrel : RelC I p S w0 cs w f kcs) (hsat : Sat I cs.st.path) {r : Evm.World × Evm.Halt}
    (hrun : RunStack p w f kcs r) {C : Prop} (hC : C) (hbb : BBAll C w kcs) {op : Nat} {lo : LocalOut}
    (hv : ValueCase I p s o cfg codes cs w f op lo) : LocalComplete I p S w0 C cs w f r lo := by
  rcases valueCase_ctx hs ho hb hmem hrel hsat hv with hno |
    ⟨t, v, fv, ao, al, ro, rl, rest, crest, bc, conds1, rfl, hx, hstep, hm1, hm2⟩
  · exact CallCorr.complete (Or.inl hno) hrel hsat hrun hbb
  have hsat1 : Sat I (conds1.foldl (addCond s) cs.st).path :=
    (addConds_sat hs hx.hc1 cs.st).2 ⟨hsat, hx.hc1t (hbb hC).1⟩
  by_cases hlt : w.balanceOf f.this < v
  · -- the reference cannot pay: the insufficient-funds branch is there
    have hins : (s.b (.cmp .ult bc fv)).eval I = true := by rw [(hx.insuff_ok hs).2]; simpa using hlt
    have hne : exCheck s o (conds1.foldl (addCond s) cs.st).path (s.b (.cmp .ult bc fv)) ≠ .unsat := by
      intro hu
      have := exCheck_sound hs ho (hx.insuff_ok hs).1 hu I hsat1
      rw [hins] at this; cases this
    have hfund := hx.fund_bool
    rw [show decide (w.balanceOf f.this < v) = true by simpa using hlt] at hfund
    refine Or.inl ⟨_, List.mem_append_left _ (by unfold failNextOf; rw [if_neg hne]; exact List.mem_singleton.2 rfl),
      ?_, w, _, kcs, hx.fail_rel hs, (runStack_call_insufficient hstep hm1 hm2 hx.hstat hfund kcs r).1 hrun, hbb⟩
    exact (addCond_sat hs (hx.insuff_ok hs).1).2 ⟨hsat1, hins⟩
  · have hle : v ≤ w.balanceOf f.this := by omega
    have hsuf : (s.b (.cmp .uge bc fv)).eval I = true := by rw [(hx.suff_ok hs).2]; simpa using hle
    have hsat2 : Sat I (addCond s (conds1.foldl (addCond s) cs.st) (s.b (.cmp .uge bc fv))).path :=
      (addCond_sat hs (hx.suff_ok hs).1).2 ⟨hsat1, hsuf⟩
    rcases mainOf_cases s o cfg codes cs op t fv ao al ro rl rest bc conds1 with
      ⟨e0, he0, hst0, hr'⟩ | ⟨_, hfalse⟩ | ⟨conds2, bal', h5, htr, hcode⟩
    · exact Or.inr (Or.inl ⟨e0, by rw [he0]; simp, by rw [hst0]; exact ⟨rfl, rfl, rfl, rfl⟩, Or.inr (Or.inl hr')⟩)
    · rw [hfalse] at hsuf; cases hsuf
    · have hcs' : ∃ cs', cs' ∈ (mainOf s o cfg codes cs op t fv ao al ro rl rest bc conds1).next ∧
          ((codeOf codes t = none ∧ cs' = { cs with st := { (mainSt s cs bc fv conds1 conds2) with pc := cs.st.pc + 1, stack := .bv 256 (.con 1) :: rest, returndata := [] }, bal := bal' }) ∨
            (∃ prog, codeOf codes t = some prog ∧
              cs' = calleeOfG s { cs with st := mainSt s cs bc fv conds1 conds2, bal := bal' } op t ao al ro rl rest prog fv cs.bal)) := by
        rcases hcode with ⟨hc, he⟩ | ⟨prog, hc, he⟩
        · exact ⟨_, by rw [he]; exact List.mem_singleton.2 rfl, Or.inl ⟨hc, rfl⟩⟩
        · exact ⟨_, by rw [he]; exact List.mem_singleton.2 rfl, Or.inr ⟨prog, hc, rfl⟩⟩
      obtain ⟨cs', hmem', hcs'⟩ := hcs'
      obtain ⟨hc2, hc2t, w', f', kcs', hrel', hiff, hbb'⟩ :=
        hx.main_ok hs ho hb hdep hcodes hS hcb rfl hstep hm1 hm2 h5 hle hsat2 htr hcs'
      have hsatM : Sat I (mainSt s cs bc fv conds1 conds2).path :=
        (addConds_sat hs hc2 _).2 ⟨hsat2, hc2t (hbb hC).1⟩
      refine Or.inl ⟨cs', List.mem_append_right _ hmem', ?_, w', f', kcs', hrel', (hiff r).1 hrun,
        fun hC' => hbb' (hbb hC')⟩
      rcases hcs' with ⟨_, rfl⟩ | ⟨prog, _, rfl⟩ <;> exact hsatM

theorem ExtCorr.sound (hs : SimpSound s) (hrel : RelC I p S w0 cs w f kcs) {lo : LocalOut}
    (h : ExtCorr I p S w0 cs w f kcs s o cfg lo) : LocalSound I p S w0 cs w f kcs lo := by
  rcases h with h | ⟨out, rfl, hc, hsh⟩
  · exact h.sound
  · exact local_corr_sound hs hrel hc hsh

theorem ExtCorr.complete (hs : SimpSound s) (ho : OracleSound o) (hrel : RelC I p S w0 cs w f kcs)
    (hsat : Sat I cs.st.path) {r : Evm.World × Evm.Halt} (hrun : RunStack p w f kcs r) {C : Prop}
    (hbb : BBAll C w kcs)
    {lo : LocalOut} (h : ExtCorr I p S w0 cs w f kcs s o cfg lo) : LocalComplete I p S w0 C cs w f r lo := by
  rcases h with h | ⟨out, rfl, hc, hsh⟩
  · exact h.complete hrel hsat hrun hbb
  · exact local_corr_complete hs ho hrel hsat hrun hbb hc hsh

theorem HstoCorr.sound {G : Prop} {lo : LocalOut} (h : HstoCorr I p S w0 G cs w f kcs lo) :
    LocalSound I p S w0 cs w f kcs lo := by
  rcases h with hh | ⟨cs', w', f', c, rfl, hp, hrel', hiff, _, _⟩
  · exact CallCorr.sound (Or.inr (Or.inl hh))
  · refine ⟨fun cs1 hm hsat' => ?_, fun e' hm => by simp at hm⟩
    simp only [List.mem_singleton] at hm
    subst hm
    exact ⟨w', f', kcs, hrel' (hp.1 hsat').2, fun r hr => (hiff r).2 hr⟩

theorem HstoCorr.complete {G : Prop} {lo : LocalOut} (h : HstoCorr I p S w0 G cs w f kcs lo)
    (hrel : RelC I p S w0 cs w f kcs) (hsat : Sat I cs.st.path) {r : Evm.World × Evm.Halt}
    (hrun : RunStack p w f kcs r) {C : Prop} (hG : G) (hbb : BBAll C w kcs) :
    LocalComplete I p S w0 C cs w f r lo := by
  rcases h with hh | ⟨cs', w', f', c, rfl, hp, hrel', hiff, hbw, htrue⟩
  · exact CallCorr.complete (Or.inr (Or.inl hh)) hrel hsat hrun hbb
  · exact Or.inl ⟨cs', by simp, hp.2 ⟨hsat, htrue hG⟩, w', f', kcs, hrel' (htrue hG), (hiff r).1 hrun,
      fun hC => ⟨hbw (hbb hC).1, (hbb hC).2⟩⟩

/-- **SLOAD / SSTORE at a mapping or array location, soundness** (under `HstoOK`) -/
theorem hstoOut_sound (hs : SimpSound s) (ho : OracleSound o) (hsi : ShaInterp I p cfg) (hok : HstoOK I p s cfg cs)
    (hrel : RelC I p S w0 cs w f kcs) (hsat : Sat I cs.st.path) {op : Nat} (hop : opAt cs.code cs.st.pc = op)
    (hsop : op = 0x54 ∨ op = 0x55) (hl : ¬ cs.st.stack.length > 1024) {lo : LocalOut}
    (h : hstoOut s o cfg cs op = some lo) : LocalSound I p S w0 cs w f kcs lo :=
  (hstoOut_corr hs ho hsi hok hrel hsat hop hsop hl h).sound

/-- with balances switched off a value-bearing call is an error report -/
theorem callGo_some_off (hbal : ¬ cfg.balances = true) {op t : Nat} {fv : T} {ao al ro rl : Nat} {rest : List HV} :
    CallCorr I p S w0 cs w f kcs (callGo s o cfg codes cs op t (some fv) ao al ro rl rest) := by
  unfold callGo
  simp only [Option.isSome_some, if_true, Option.getD_some]
  by_cases h1 : al ≠ 0 ∧ ao + al > cfg.maxMem
  · rw [if_pos h1]; exact Or.inl ⟨_, rfl, rfl, Or.inr (fun h => Tag.noConfusion h)⟩
  rw [if_neg h1]
  by_cases h2 : rl ≠ 0 ∧ ro + rl > cfg.maxMem
  · rw [if_pos h2]; exact Or.inl ⟨_, rfl, rfl, Or.inr (fun h => Tag.noConfusion h)⟩
  rw [if_neg h2]
  unfold callGoV
  have : (!cfg.balances) = true := by simpa using hbal
  simp only [this, if_true]
  exact Or.inl ⟨_, rfl, rfl, Or.inl ⟨_, rfl⟩⟩

section
variable {I : Interp} {p : Evm.Params} {S : Nat → Prop} {w0 : Evm.World}
variable {cs : CState} {w : Evm.World} {f : Evm.Frame} {kcs : List CCont}
variable {s : Simp} {o : Oracle} {cfg : Cfg} {codes : List (Nat × List Nat)}

/-- the reference's CREATE is not carried out: the creator goes on with 0 in the world with the address handed out -/
theorem runStack_create_fail {crest : List Nat} {v off len : Nat}
    (hstep : Evm.step p w f = .create 0xf0 w { f with stack := crest } v off len 0)
    (hm : Evm.memOk p off len = true)
    (hc : w.balanceOf (({ f with stack := crest } : Evm.Frame).touch off len).this < v ∨
      (({ f with stack := crest } : Evm.Frame).touch off len).depth + 1 > p.maxDepth ∨
      ((crW w).codeOf (p.newAddress (w.created + 1))).isSome = true) (r : Evm.World × Evm.Halt) :
    RunStack p w f kcs r ↔
      RunStack p (crW w) (failFrame (({ f with stack := crest } : Evm.Frame).touch off len)) kcs r :=
  runStack_of_halts (halts_create_fail hstep hm hc) kcs r

/-- **a value-bearing CREATE, soundness.** -/
theorem createValue_sound (hs : SimpSound s) (ho : OracleSound o) (hb : BalHyp I cfg w0)
    (hdep : 1024 ≤ p.maxDepth) (hcodes : ∀ a, w.codeOf a = codeOf codes a) (hch : CreateHyp cfg p S w0)
    (hcr : cfg.create = true) (hbal : cfg.balances = true)
    (hrel : RelC I p S w0 cs w f kcs) (hsat : Sat I cs.st.path) {lo : LocalOut}
    (hv : CreateValueCase I p s o cfg codes cs w f lo) : LocalSound I p S w0 cs w f kcs lo := by
  rcases createValue_ctx hs ho hb hbal hrel hsat hv with hno |
    ⟨v, fv, off, len, rest, crest, init, bc, conds1, rfl, hx, hstep, hm, hinit, hib⟩
  · exact CallCorr.sound (Or.inl hno)
  obtain ⟨hal, hSa, hb0⟩ := hch hcr
  have hcrw : w.created = w0.created + cs.nonce := hrel.hW.created
  have haddr : p.newAddress (w.created + 1) = crAddr cfg cs := by
    rw [hcrw, Nat.add_assoc]; exact hal _
  have e_this := hx.ectx.2.2.2.1
  refine ⟨fun cs' hm' hsat' => ?_, fun e hm' => ?_⟩
  · rcases List.mem_append.1 hm' with hm' | hm'
    · -- the insufficient-funds branch
      unfold failNextOf at hm'
      split at hm'
      · simp at hm'
      · rw [List.mem_singleton.1 hm'] at hsat' ⊢
        have hins := ((addCond_sat hs (hx.insuff_ok hs).1).1 hsat').2
        rw [(hx.insuff_ok hs).2] at hins
        have hlt : w.balanceOf f.this < v := by
          have h' : (crW w).balanceOf f.this < v := by simpa using hins
          exact h'
        exact ⟨crW w, _, kcs, hx.fail_rel hs,
          fun r hr => (runStack_create_fail hstep hm (Or.inl (by rw [e_this]; exact hlt)) r).2 hr⟩
    · rcases createMain_cases s o cfg codes (crCs cs) 0xf0 (crAddr cfg cs) fv rest init bc conds1 with
        ⟨h4, he⟩ | ⟨e, he, _⟩ | ⟨_, he, _⟩ | ⟨h4, h5, conds2, bt, hbo, he⟩
      · -- the address is taken
        rw [he] at hm'
        rw [List.mem_singleton.1 hm']
        have hcol : ((crW w).codeOf (p.newAddress (w.created + 1))).isSome = true := by
          rw [haddr]; show (w.codeOf _).isSome = true; rw [hcodes]; exact h4
        exact ⟨crW w, _, kcs, hx.collide_rel hs,
          fun r hr => (runStack_create_fail hstep hm (Or.inr (Or.inr hcol)) r).2 hr⟩
      · rw [he] at hm'; simp at hm'
      · rw [he] at hm'; simp at hm'
      · rw [he] at hm'
        rw [List.mem_singleton.1 hm'] at hsat' ⊢
        have hsatM : Sat I (mainSt s (crCs cs) bc fv conds1 conds2).path := hsat'
        have hsat2 : Sat I (addCond s (conds1.foldl (addCond s) cs.st) (s.b (.cmp .uge bc fv))).path := by
          obtain ⟨ext, hext⟩ := addConds_path_ext s conds2
            (addCond s (conds1.foldl (addCond s) cs.st) (s.b (.cmp .uge bc fv)))
          have : (mainSt s (crCs cs) bc fv conds1 conds2).path = _ := hext
          rw [this] at hsatM
          exact (sat_append.1 hsatM).1
        have hsuf := ((addCond_sat hs (hx.suff_ok hs).1).1 hsat2).2
        rw [(hx.suff_ok hs).2] at hsuf
        have hle : v ≤ w.balanceOf f.this := by
          have h' : v ≤ (crW w).balanceOf f.this := by simpa using hsuf
          exact h'
        obtain ⟨_, _, w', f', kcs', hrel', hiff, _⟩ :=
          hx.create_ok hs ho hb hdep hcodes hch hcr hrel hstep hm hinit hib h4 h5 hle hsat2 hbo
        exact ⟨w', f', kcs', hrel', fun r hr => (hiff r).2 hr⟩
  · rcases createMain_cases s o cfg codes (crCs cs) 0xf0 (crAddr cfg cs) fv rest init bc conds1 with
      ⟨_, he0⟩ | ⟨e0, he0, hst0, r', hr'⟩ | ⟨_, he0, _⟩ | ⟨_, _, conds2, bt, _, he0⟩
    · rw [he0] at hm'; simp at hm'
    · rw [he0] at hm'
      rw [List.mem_singleton.1 hm']
      refine ⟨by rw [hst0]; exact ⟨rfl, rfl, rfl, rfl⟩, fun _ h ho' => ?_⟩
      rw [hr'] at ho'; cases ho'
    · rw [he0] at hm'; simp at hm'
    · rw [he0] at hm'; simp at hm'

/-- **a value-bearing CREATE, completeness.** -/
theorem createValue_complete (hs : SimpSound s) (ho : OracleSound o) (hb : BalHyp I cfg w0)
    (hdep : 1024 ≤ p.maxDepth) (hcodes : ∀ a, w.codeOf a = codeOf codes a) (hch : CreateHyp cfg p S w0)
    (hcr : cfg.create = true) (hbal : cfg.balances = true)
    (hrel : RelC I p S w0 cs w f kcs) (hsat : Sat I cs.st.path) {r : Evm.World × Evm.Halt}
    (hrun : RunStack p w f kcs r) {C : Prop} (hC : C) (hbb : BBAll C w kcs) {lo : LocalOut}
    (hv : CreateValueCase I p s o cfg codes cs w f lo) : LocalComplete I p S w0 C cs w f r lo := by
  rcases createValue_ctx hs ho hb hbal hrel hsat hv with hno |
    ⟨v, fv, off, len, rest, crest, init, bc, conds1, rfl, hx, hstep, hm, hinit, hib⟩
  · exact CallCorr.complete (Or.inl hno) hrel hsat hrun hbb
  obtain ⟨hal, hSa, hb0⟩ := hch hcr
  have hcrw : w.created = w0.created + cs.nonce := hrel.hW.created
  have haddr : p.newAddress (w.created + 1) = crAddr cfg cs := by
    rw [hcrw, Nat.add_assoc]; exact hal _
  have e_this := hx.ectx.2.2.2.1
  have hbbW : BalBound (crW w) := (hbb hC).1.congr (fun a => rfl)
  have hbb0 : BBAll C (crW w) kcs := fun hC' => ⟨(hbb hC').1.congr (fun a => rfl), (hbb hC').2⟩
  have hsat1 : Sat I (conds1.foldl (addCond s) cs.st).path :=
    (addConds_sat hs hx.hc1 cs.st).2 ⟨hsat, hx.hc1t hbbW⟩
  by_cases hlt : w.balanceOf f.this < v
  · -- the reference cannot pay: the insufficient-funds branch is there
    have hlt' : (crW w).balanceOf f.this < v := hlt
    have hins : (s.b (.cmp .ult bc fv)).eval I = true := by rw [(hx.insuff_ok hs).2]; simpa using hlt'
    have hne : exCheck s o (conds1.foldl (addCond s) cs.st).path (s.b (.cmp .ult bc fv)) ≠ .unsat := by
      intro hu
      have := exCheck_sound hs ho (hx.insuff_ok hs).1 hu I hsat1
      rw [hins] at this; cases this
    refine Or.inl ⟨_, List.mem_append_left _ (by unfold failNextOf; rw [if_neg hne]; exact List.mem_singleton.2 rfl),
      ?_, crW w, _, kcs, hx.fail_rel hs,
      (runStack_create_fail hstep hm (Or.inl (by rw [e_this]; exact hlt)) r).1 hrun, hbb0⟩
    exact (addCond_sat hs (hx.insuff_ok hs).1).2 ⟨hsat1, hins⟩
  · have hle : v ≤ w.balanceOf f.this := by omega
    have hle' : v ≤ (crW w).balanceOf f.this := hle
    have hsuf : (s.b (.cmp .uge bc fv)).eval I = true := by rw [(hx.suff_ok hs).2]; simpa using hle'
    have hsat2 : Sat I (addCond s (conds1.foldl (addCond s) cs.st) (s.b (.cmp .uge bc fv))).path :=
      (addCond_sat hs (hx.suff_ok hs).1).2 ⟨hsat1, hsuf⟩
    rcases createMain_cases s o cfg codes (crCs cs) 0xf0 (crAddr cfg cs) fv rest init bc conds1 with
      ⟨h4, he⟩ | ⟨e0, he0, hst0, hr'⟩ | ⟨_, _, hfalse⟩ | ⟨h4, h5, conds2, bt, hbo, he⟩
    · -- the address is taken
      have hcol : ((crW w).codeOf (p.newAddress (w.created + 1))).isSome = true := by
        rw [haddr]; show (w.codeOf _).isSome = true; rw [hcodes]; exact h4
      refine Or.inl ⟨_, List.mem_append_right _ (by rw [he]; exact List.mem_singleton.2 rfl), hsat1, crW w, _, kcs,
        hx.collide_rel hs, (runStack_create_fail hstep hm (Or.inr (Or.inr hcol)) r).1 hrun, hbb0⟩
    · exact Or.inr (Or.inl ⟨e0, by rw [he0]; simp, by rw [hst0]; exact ⟨rfl, rfl, rfl, rfl⟩, Or.inr (Or.inl hr')⟩)
    · rw [hfalse] at hsuf; cases hsuf
    · obtain ⟨hc2, hc2t, w', f', kcs', hrel', hiff, hbb'⟩ :=
        hx.create_ok hs ho hb hdep hcodes hch hcr hrel hstep hm hinit hib h4 h5 hle hsat2 hbo
      have hsatM : Sat I (mainSt s (crCs cs) bc fv conds1 conds2).path :=
        (addConds_sat hs hc2 _).2 ⟨hsat2, hc2t (hbb hC).1⟩
      exact Or.inl ⟨_, List.mem_append_right _ (by rw [he]; exact List.mem_singleton.2 rfl), hsatM, w', f', kcs',
        hrel', (hiff r).1 hrun, fun hC' => hbb' (hbb hC')⟩

end

/-- **stepC_sound.** `hob`: the solver's `unsat` answers are assumed right as soon as balances are followed
    (`Exec.select` simplifies a read of the balance array with them); otherwise nothing is assumed of the oracle. -/
theorem stepC_sound (hs : SimpSound s) (hI : I.Std) (hmem : cfg.maxMem + 32 ≤ p.memLimit)
    (hdep : 1024 ≤ p.maxDepth) (hcodes : ∀ a, w0.codeOf a = codeOf codes a)
    (hS : ∀ a prog, codeOf codes a = some prog → S a)
    (hcb : ∀ a prog, codeOf codes a = some prog → ∀ b ∈ prog, b < 256)
    (hob : cfg.balances = true → OracleSound o ∧ BalHyp I cfg w0)
    (hsi : cfg.sha3 = true → ShaInterp I p cfg) (hch : CreateHyp cfg p S w0)
    (hoh : cfg.hsto = true → OracleSound o ∧ cfg.sha3 = true) (hok : HstoOK I p s cfg cs)
    (hrel : RelC I p S w0 cs w f kcs) (hsat : Sat I cs.st.path) :
    (∀ cs' ∈ (stepC s o cfg codes cs).next, Sat I cs'.st.path → ∃ w' f' kcs', RelC I p S w0 cs' w' f' kcs' ∧
        ∀ r, RunStack p w' f' kcs' r → RunStack p w f kcs r) ∧
    (∀ ce ∈ (stepC s o cfg codes cs).ends, ce.e.tag = .normal → ∀ h, ce.e.out = .halt h →
        ∃ w', RunStack p w f kcs (w', haltWith h (ce.e.data.map (·.eval I))) ∧
          WRelM I S (wd w0 ce.created ce.nonce) w' (stoOf ce.stores) (evalLogs I ce.logs) (balSem I w0 ce.bal) ∧
          HRel I p S w' ce.hsto ∧ EndInv I S ce) := by
  obtain ⟨hcodes', hS', hcb'⟩ := dyn_codes (cfg := cfg) hcodes hS hcb hrel
  rw [stepC_eq]
  split
  · rename_i hc
    have hop : opAt cs.code cs.st.pc = 0xf0 := (isCreateOp_iff _).1 hc.2
    rw [hop]
    refine finish_sound hrel hsat ?_
    rcases createOut_corr (o := o) hs hmem hdep hcodes' hch hrel hop hc.1 with h | h
    · exact h.sound
    · by_cases hcr : cfg.create = true
      swap
      · rw [createOut_off (by simpa using hcr)]
        exact CallCorr.sound (Or.inl ⟨_, rfl, rfl, Or.inl ⟨_, rfl⟩⟩)
      by_cases hbal : cfg.balances = true
      · exact createValue_sound hs (hob hbal).1 (hob hbal).2 hdep hcodes' hch hcr hbal hrel hsat h
      · obtain ⟨v, fv, off, len, rest, crest, init, e, _⟩ := h
        rw [e, createGoV_off (by simpa using hbal)]
        exact CallCorr.sound (Or.inl ⟨_, rfl, rfl, Or.inl ⟨_, rfl⟩⟩)
  split
  · rename_i hc
    refine finish_sound hrel hsat ?_
    rcases callOut_corr (o := o) hs hmem hdep hcodes' hS' hcb' hrel rfl ((isCallOp_iff _).1 hc.2) hc.1 with h | h
    · exact h.sound
    · by_cases hbal : cfg.balances = true
      · exact valueCase_sound hs (hob hbal).1 (hob hbal).2 hmem hdep hcodes' hS' hcb' hrel hsat h
      · -- balances are off: the value-bearing call is an error report
        obtain ⟨t, v, fv, ao, al, ro, rl, rest, crest, e, _⟩ := h
        rw [e]
        have hno : CallCorr I p S w0 cs w f kcs
            (callGo s o cfg (codesOf cfg codes cs) cs (opAt cs.code cs.st.pc) t (some fv) ao al ro rl rest) := callGo_some_off hbal
        exact hno.sound
  · split
    · rename_i hc
      refine finish_sound hrel hsat ?_
      by_cases hbal : cfg.balances = true
      · exact (balOut_corr hs (hob hbal).1 (hob hbal).2 hrel hsat rfl ((isBalOp_iff _).1 hc.2) hc.1).sound hs
      · have hno : CallCorr I p S w0 cs w f kcs (balOut s o cfg cs (opAt cs.code cs.st.pc)) := by
          unfold balOut
          have : (!cfg.balances) = true := by simpa using hbal
          simp only [this, if_true]
          exact Or.inl ⟨_, rfl, rfl, Or.inl ⟨_, rfl⟩⟩
        exact hno.sound
    · split
      · rename_i hc
        refine finish_sound hrel hsat ?_
        by_cases hon : cfg.sha3 = true
        · exact (shaOut_corr hs (hsi hon) hmem hrel rfl ((isShaOp_iff _).1 hc.2) hc.1).sound hs
        · have hno : CallCorr I p S w0 cs w f kcs (shaOut s cfg cs (opAt cs.code cs.st.pc)) := by
            unfold shaOut
            have : (!cfg.sha3) = true := by simpa using hon
            simp only [this, if_true]
            exact Or.inl ⟨_, rfl, rfl, Or.inl ⟨_, rfl⟩⟩
          exact hno.sound
      · split
        · rename_i hc
          exact finish_sound hrel hsat (logOut_corr hs hmem hrel rfl ((isLogOp_iff _).1 hc.2) hc.1).sound
        · split
          · rename_i hc
            exact finish_sound hrel hsat
              ((extOut_corr (o := o) hs hmem hcodes' hcb' hrel hsat rfl ((isExtOp_iff _).1 hc.2) hc.1).sound hs hrel)
          · cases hp : hstoPick s o cfg cs with
            | none => exact finish_sound hrel hsat (local_step_sound hs hI hmem hrel hsat)
            | some lo =>
              have hcfg : cfg.hsto = true := by
                cases hc : cfg.hsto
                · rw [hstoPick_off hc] at hp; cases hp
                · rfl
              unfold hstoPick at hp
              split at hp
              · cases hp
              · rename_i hl
                split at hp
                · rename_i hso
                  have hsop : opAt cs.code cs.st.pc = 0x54 ∨ opAt cs.code cs.st.pc = 0x55 := by
                    simpa [isStoOp] using hso
                  exact finish_sound hrel hsat (hstoOut_sound hs (hoh hcfg).1 (hsi (hoh hcfg).2) hok hrel hsat rfl hsop hl hp)
                · cases hp

/-- **stepC_complete.** -/
theorem stepC_complete (hs : SimpSound s) (ho : OracleSound o) (hI : I.Std) (hmem : cfg.maxMem + 32 ≤ p.memLimit)
    (hdep : 1024 ≤ p.maxDepth) (hcodes : ∀ a, w0.codeOf a = codeOf codes a)
    (hS : ∀ a prog, codeOf codes a = some prog → S a)
    (hcb : ∀ a prog, codeOf codes a = some prog → ∀ b ∈ prog, b < 256)
    (hb : cfg.balances = true → BalHyp I cfg w0)
    (hsi : cfg.sha3 = true → ShaInterp I p cfg) (hsok : ShaOK I s cfg cs) (hch : CreateHyp cfg p S w0)
    (hoh : cfg.hsto = true → cfg.sha3 = true ∧ HEmptyZero I) (hok : HstoOK I p s cfg cs)
    (hrel : RelC I p S w0 cs w f kcs) (hsat : Sat I cs.st.path) {r : Evm.World × Evm.Halt}
    (hrun : RunStack p w f kcs r) (hbb : BBAll (cfg.balances = true) w kcs) :
    (∃ cs' ∈ (stepC s o cfg codes cs).next, Sat I cs'.st.path ∧ ∃ w' f' kcs', RelC I p S w0 cs' w' f' kcs' ∧
        RunStack p w' f' kcs' r ∧ BBAll (cfg.balances = true) w' kcs') ∨
    (∃ ce ∈ (stepC s o cfg codes cs).ends, EndCoversC I p S w0 r ce) ∨
    (stepC s o cfg codes cs).bounded ≠ [] := by
  obtain ⟨hcodes', hS', hcb'⟩ := dyn_codes (cfg := cfg) hcodes hS hcb hrel
  rw [stepC_eq]
  split
  · rename_i hc
    have hop : opAt cs.code cs.st.pc = 0xf0 := (isCreateOp_iff _).1 hc.2
    rw [hop]
    refine finish_complete hrel hsat hrun hbb ?_
    rcases createOut_corr (o := o) hs hmem hdep hcodes' hch hrel hop hc.1 with h | h
    · exact h.complete hrel hsat hrun hbb
    · by_cases hcr : cfg.create = true
      swap
      · rw [createOut_off (by simpa using hcr)]
        exact CallCorr.complete (Or.inl ⟨_, rfl, rfl, Or.inl ⟨_, rfl⟩⟩) hrel hsat hrun hbb
      by_cases hbal : cfg.balances = true
      · exact createValue_complete hs ho (hb hbal) hdep hcodes' hch hcr hbal hrel hsat hrun hbal hbb h
      · obtain ⟨v, fv, off, len, rest, crest, init, e, _⟩ := h
        rw [e, createGoV_off (by simpa using hbal)]
        exact CallCorr.complete (Or.inl ⟨_, rfl, rfl, Or.inl ⟨_, rfl⟩⟩) hrel hsat hrun hbb
  split
  · rename_i hc
    refine finish_complete hrel hsat hrun hbb ?_
    rcases callOut_corr (o := o) hs hmem hdep hcodes' hS' hcb' hrel rfl ((isCallOp_iff _).1 hc.2) hc.1 with h | h
    · exact h.complete hrel hsat hrun hbb
    · by_cases hbal : cfg.balances = true
      · exact valueCase_complete hs ho (hb hbal) hmem hdep hcodes' hS' hcb' hrel hsat hrun hbal hbb h
      · obtain ⟨t, v, fv, ao, al, ro, rl, rest, crest, e, _⟩ := h
        rw [e]
        have hno : CallCorr I p S w0 cs w f kcs
            (callGo s o cfg (codesOf cfg codes cs) cs (opAt cs.code cs.st.pc) t (some fv) ao al ro rl rest) := callGo_some_off hbal
        exact hno.complete hrel hsat hrun hbb
  · split
    · rename_i hc
      refine finish_complete hrel hsat hrun hbb ?_
      by_cases hbal : cfg.balances = true
      · exact (balOut_corr hs ho (hb hbal) hrel hsat rfl ((isBalOp_iff _).1 hc.2) hc.1).complete hs hrel hsat hrun
          (hbb hbal).1 hbb
      · have hno : CallCorr I p S w0 cs w f kcs (balOut s o cfg cs (opAt cs.code cs.st.pc)) := by
          unfold balOut
          have : (!cfg.balances) = true := by simpa using hbal
          simp only [this, if_true]
          exact Or.inl ⟨_, rfl, rfl, Or.inl ⟨_, rfl⟩⟩
        exact hno.complete hrel hsat hrun hbb
    · split
      · rename_i hc
        refine finish_complete hrel hsat hrun hbb ?_
        by_cases hon : cfg.sha3 = true
        · exact (shaOut_corr hs (hsi hon) hmem hrel rfl ((isShaOp_iff _).1 hc.2) hc.1).complete hs hrel hsat hrun
            hsok hbb
        · have hno : CallCorr I p S w0 cs w f kcs (shaOut s cfg cs (opAt cs.code cs.st.pc)) := by
            unfold shaOut
            have : (!cfg.sha3) = true := by simpa using hon
            simp only [this, if_true]
            exact Or.inl ⟨_, rfl, rfl, Or.inl ⟨_, rfl⟩⟩
          exact hno.complete hrel hsat hrun hbb
      · split
        · rename_i hc
          exact finish_complete hrel hsat hrun hbb
            ((logOut_corr hs hmem hrel rfl ((isLogOp_iff _).1 hc.2) hc.1).complete hrel hsat hrun hbb)
        · split
          · rename_i hc
            exact finish_complete hrel hsat hrun hbb
              ((extOut_corr (o := o) hs hmem hcodes' hcb' hrel hsat rfl ((isExtOp_iff _).1 hc.2) hc.1).complete hs ho
                hrel hsat hrun hbb)
          · cases hp : hstoPick s o cfg cs with
            | none => exact finish_complete hrel hsat hrun hbb (local_step_complete hs ho hI hmem hrel hsat hrun hbb)
            | some lo =>
              have hcfg : cfg.hsto = true := by
                cases hc : cfg.hsto
                · rw [hstoPick_off hc] at hp; cases hp
                · rfl
              unfold hstoPick at hp
              split at hp
              · cases hp
              · rename_i hl
                split at hp
                · rename_i hso
                  have hsop : opAt cs.code cs.st.pc = 0x54 ∨ opAt cs.code cs.st.pc = 0x55 := by
                    simpa [isStoOp] using hso
                  exact finish_complete hrel hsat hrun hbb
                    ((hstoOut_corr hs ho (hsi (hoh hcfg).1) hok hrel hsat rfl hsop hl hp).complete hrel hsat hrun
                      (hoh hcfg).2 hbb)
                · cases hp

end

end HalmosVerif.Lemmas.Sevm
