/-
Lemmas.SevmCallTx — a transaction after a transaction: the first state of `SEVM.run_message` (Model.SevmCalls
`nextTx`) built from an end of the previous run is related (`RelC`) to the frame of the new message in the world the
previous run left, with its transient storage emptied (`txWorld`), relative to the SAME base world as the previous
run: so `C01.sound_calls_from` / `C02.complete_calls_from` apply to the second run as they stand.
-/
import HalmosVerif.Lemmas.SevmCallExplore

set_option linter.unusedSectionVars false
set_option linter.unusedSimpArgs false
set_option linter.unusedVariables false

namespace HalmosVerif.Lemmas.Sevm
open HalmosVerif.Model HalmosVerif.Model.Sevm HalmosVerif.Spec HalmosVerif.Lemmas.Word

/-- the world a new transaction starts in: that the previous one left, transient storage empty (EIP-1153) -/
def txWorld (w : Evm.World) : Evm.World := { w with transient := [] }

theorem stoOf_clearTr (ss : Stores) (a : Nat) :
    stoOf (clearTr ss) a = { storage := (stoOf ss a).storage, transient := [] } := by
  unfold stoOf clearTr
  induction ss with
  | nil => rfl
  | cons x rest ih =>
    simp only [List.map_cons, List.find?_cons]
    by_cases e : (x.1 == a) = true
    · simp only [e, Option.map_some, Option.getD_some]
    · have e' : (x.1 == a) = false := by simpa using e
      simp only [e']
      exact ih

section
variable {I : Interp} {p : Evm.Params} {S : Nat → Prop} {w0 w1 : Evm.World}

/-- **relC_nextTx.** The end `ce` of a transaction describes the world `w1` (the conclusion of `sound_calls_from`);
    the frame `f2` of the next message to `this` is related to the empty frame state (`hR2`: its environment, code,
    empty stack and memory). Then the first state of the next transaction is related to `f2` in `txWorld w1`, with
    respect to the same base world `w0`, whose transient storage is empty (`ht0`). -/
theorem relC_nextTx {codes : List (Nat × List Nat)} {ce : CEnd} {env : Env} {this : Nat} {f2 : Evm.Frame}
    (hW : WRelM I S (wd w0 ce.created ce.nonce) w1 (stoOf ce.stores) (evalLogs I ce.logs) (balSem I w0 ce.bal))
    (hH : HRel I p S w1 ce.hsto) (hE : EndInv I S ce)
    (hR2 : R I env ((codeOf (ce.created ++ codes) this).getD []) p initState f2) (hthis : f2.this = this)
    (hd : f2.depth = 0) (hS0 : S this) (hcb : ∀ a prog, codeOf codes a = some prog → ∀ b ∈ prog, b < 256)
    (ht0 : ∀ a slot, Evm.lookupD w0.transient (a, slot) = 0) :
    RelC I p S w0 (nextTx codes env this ce) (txWorld w1) f2 [] := by
  have hview : ∀ a, viewOf (nextTx codes env this ce) a =
      { storage := (stoOf ce.stores a).storage, transient := [] } := by
    intro a
    unfold viewOf nextTx
    simp only
    by_cases e : a = this
    · rw [if_pos e, e]
    · rw [if_neg e, stoOf_clearTr]
  refine ⟨⟨hR2.code, hR2.pc, hR2.stack, hR2.env, hE.1.same rfl rfl, hR2.mem, hR2.retdata⟩, hthis, hS0, hd, ?_, ?_,
    hE.2.1, hE.2.2, hH.mono_world rfl, List.Forall₂.nil⟩
  · intro b hb
    show b < 256
    have hb' : b ∈ (codeOf (ce.created ++ codes) this).getD [] := hb
    rw [codeOf_append] at hb'
    cases hc : codeOf ce.created this with
    | some prog =>
      rw [hc] at hb'
      exact (hE.2.2 this prog hc).2 b hb'
    | none =>
      rw [hc] at hb'
      cases hc2 : codeOf codes this with
      | some prog => rw [hc2] at hb'; exact hcb this prog hc2 b hb'
      | none => rw [hc2] at hb'; cases hb'
  · refine ⟨fun a ha slot hlt => ?_, fun a ha slot => ?_, fun a ha kv hkv => ?_, fun a slot hna => ?_, hW.code,
      hW.created, hW.logs, hW.bal, fun a ha kv hkv => ?_⟩
    · rw [hview]; exact hW.hsto a ha slot hlt
    · rw [hview]
      show Evm.lookupD ([] : List ((Nat × Nat) × Nat)) (a, slot) = (stoGet [] slot).eval I
      rfl
    · rw [hview] at hkv
      rcases hkv with h | h
      · exact hW.wf a ha kv (Or.inl h)
      · cases h
    · refine ⟨(hW.other a slot hna).1, ?_⟩
      show Evm.lookupD ([] : List ((Nat × Nat) × Nat)) (a, slot) = Evm.lookupD w0.transient (a, slot)
      rw [ht0]; rfl
    · rw [hview] at hkv
      exact hW.keys a ha kv hkv

end
end HalmosVerif.Lemmas.Sevm
